(* Cost.v — work models for property C20 (processing cost grows near-linearly with input size).

   Part 1: source-position conversion (Tokenizer.toSQLPosition in pkg/sql/tokenizer/tokenizer.go), which is asked
   for the start and end of every token and comment.  Two forms are modelled, each with the number of loop-body
   executions it performs (the unit the coverage counters of the real code report):
     rescan_*  : the form of the pinned tree — every query walks the line table from its beginning and then the
                 line prefix from the start of the line;
     incr_*    : the repaired form — a resume point (last answered offset, its line index, its column) and a
                 forward scan from there; a query behind the resume point relocates the line (binary search in the
                 code, modelled by its result) and scans from the start of that line.
   [starts] is the line table (lineStarts: 0 and the offset after every LF), [wd i] the column width of input byte
   i (4 for a tab, 1 otherwise), [len] the input length (the column loop never reads past it). *)
From Coq Require Import List Arith Bool Lia.
Import ListNotations.
Local Open Scope nat_scope.

Section Loc.
  Variable starts : list nat.
  Variable wd : nat -> nat.
  Variable len : nat.

  (* the line loop: count entries until the first one greater than idx *)
  Fixpoint nle (idx : nat) (l : list nat) : nat :=
    match l with
    | [] => 0
    | s :: r => if idx <? s then 0 else S (nle idx r)
    end.

  Definition clamp (x : nat) : nat := Nat.min x len.
  (* the column loop from offset a up to offset b: accumulated width and number of iterations *)
  Definition wsum (a b : nat) : nat := list_sum (map wd (seq (clamp a) (clamp b - clamp a))).
  Definition wsteps (a b : nat) : nat := clamp b - clamp a.

  Definition line_start (lidx : nat) : nat := nth lidx starts 0.

  (* ---- pinned form: (line, column) and loop-body executions of one query ---- *)
  Definition rescan_lidx (idx : nat) : nat := nle idx starts - 1.
  Definition rescan_loc (idx : nat) : nat * nat :=
    let n := nle idx starts in
    (Nat.max 1 n, 1 + wsum (if n =? 0 then 0 else line_start (n - 1)) idx).
  Definition rescan_cost (idx : nat) : nat :=
    let n := nle idx starts in
    n + wsteps (if n =? 0 then 0 else line_start (n - 1)) idx.
  Definition rescan_total (qs : list nat) : nat := list_sum (map rescan_cost qs).

  (* ---- repaired form ---- *)
  Record lstate := mk_lstate { ls_valid : bool; ls_index : nat; ls_lidx : nat; ls_col : nat }.
  Definition lstate0 := mk_lstate false 0 0 0.

  (* one query: new state, answer, loop-body executions (the relocation of a backward query is charged 1) *)
  Definition incr_query (st : lstate) (idx : nat) : lstate * (nat * nat) * nat :=
    let restart := negb (ls_valid st) || (length starts <=? ls_lidx st) || (idx <? ls_index st) in
    let lidx1 := if restart then nle idx starts - 1 else ls_lidx st in
    let index1 := if restart then line_start lidx1 else ls_index st in
    let col1 := if restart then 1 else ls_col st in
    let adv := nle idx (skipn (S lidx1) starts) in
    let lidx2 := lidx1 + adv in
    let index2 := if adv =? 0 then index1 else line_start lidx2 in
    let col2 := if adv =? 0 then col1 else 1 in
    let col3 := col2 + wsum index2 idx in
    (mk_lstate true idx lidx2 col3, (S lidx2, col3),
     (if restart then 1 else 0) + adv + wsteps index2 idx).

  Fixpoint incr_run (st : lstate) (qs : list nat) : list (nat * nat) * nat :=
    match qs with
    | [] => ([], 0)
    | q :: r => let '(st', ans, c) := incr_query st q in
                let '(answers, total) := incr_run st' r in (ans :: answers, c + total)
    end.
End Loc.

(* ---- concrete evaluation: both forms on the same query list must give the same answers (used by the
   generated cases files: [tabs] lists the offsets of tab bytes) ---- *)
Definition pairs_eqb (a b : list (nat * nat)) : bool :=
  (length a =? length b) && forallb (fun p => (fst (fst p) =? fst (snd p)) && (snd (fst p) =? snd (snd p))) (combine a b).

Definition loc_case (starts tabs : list nat) (len : nat) (qs : list nat) : list (nat * nat) * nat * nat :=
  let wd := fun i => if existsb (Nat.eqb i) tabs then 4 else 1 in
  let r := incr_run starts wd len lstate0 qs in
  (fst r, snd r, rescan_total starts len qs).

Definition loc_case_ok (starts tabs : list nat) (len : nat) (qs : list nat) (expected : list (nat * nat)) : bool :=
  let wd := fun i => if existsb (Nat.eqb i) tabs then 4 else 1 in
  pairs_eqb (fst (incr_run starts wd len lstate0 qs)) expected &&
  pairs_eqb (map (rescan_loc starts wd len) qs) expected.
