(* Cli.v — the decisions of `gosqlx validate | format | lint | parse`: exit status, which files are written
   with what, what is printed, which inputs a machine-readable report names.  Definitions only; mirrors the
   RunE paths of cmd/gosqlx/cmd/{validate,validator,format,formatter,lint,parse,parser_cmd}.go branch by branch.

   What the library says about each input (valid?, formatted text, lint findings and fixed text) is an input
   of the model: lib/c19.py obtains it from the Go harness (harness/cli.go) for the very texts it feeds to the
   real binary, so the model is about the CLI's own logic: counting, flags, ordering, what is written where. *)
From Coq Require Import List NArith Bool Arith.
From GV Require Import Model.FileRepl.
Import ListNotations.

(* how the SQL reaches the command *)
Inductive input (A : Type) :=
| INone                      (* no argument, stdin is not a pipe: "no input provided" *)
| IStdin (o : option A)      (* piped stdin; None: empty or binary stdin is refused before any processing *)
| IInline (a : A)            (* one argument that is not a file and looks like SQL *)
| IFiles (l : list A).       (* file arguments (after glob/directory expansion) *)
Arguments INone {A}. Arguments IStdin {A}. Arguments IInline {A}. Arguments IFiles {A}.

Definition status := N.      (* process exit status: 0 or 1 *)

Definition ensure_nl (b : bytes) : bytes :=
  match rev b with
  | 10%N :: _ => b
  | _ => b ++ [10%N]
  end.

(* ---- validate ------------------------------------------------------------------------------------ *)

Inductive vfile := VValid | VInvalid.        (* library verdict on one input, under the dialect/strictness in force *)
Definition v_bad (v : vfile) : bool := match v with VInvalid => true | VValid => false end.

Record vflags := mkV {
  v_fmt : N;             (* --output-format: 0 text, 1 json, 2 sarif, 3 anything else *)
  v_outfile_ok : bool    (* the report can be written to --output-file (true when none is requested) *)
}.

Definition validate_files (fl : vflags) (checks_fmt : bool) (l : list vfile) : status :=
  if checks_fmt && N.eqb (v_fmt fl) 3 then 1%N
  else match l with
       | [] => 1%N                                           (* "no SQL files found" *)
       | _ => if negb (v_outfile_ok fl) && (N.eqb (v_fmt fl) 1 || N.eqb (v_fmt fl) 2) then 1%N
              else if existsb v_bad l then 1%N else 0%N
       end.

Definition exit_validate (fl : vflags) (inp : input vfile) : status :=
  match inp with
  | INone => 1%N
  | IStdin None => 1%N
  | IStdin (Some v) => validate_files fl false [v]           (* validateFromStdin does not check the format name *)
  | IInline v => validate_files fl true [v]
  | IFiles l => validate_files fl true l
  end.

Fixpoint failing_from (i : nat) (l : list vfile) : list nat :=
  match l with
  | [] => []
  | VInvalid :: r => i :: failing_from (S i) r
  | VValid :: r => failing_from (S i) r
  end.

Definition inputs_of {A} (inp : input A) : list A :=
  match inp with
  | INone => [] | IStdin None => [] | IStdin (Some a) => [a] | IInline a => [a] | IFiles l => l
  end.

(* the positions (in input order) of the inputs named in errors[] (JSON) / results[] (SARIF); None: no report
   (text output, no input, or the report file cannot be written) *)
Definition validate_report (fl : vflags) (inp : input vfile) : option (list nat) :=
  if (N.eqb (v_fmt fl) 1 || N.eqb (v_fmt fl) 2) && v_outfile_ok fl then
    match inputs_of inp with
    | [] => None
    | l => Some (failing_from 0 l)
    end
  else None.
(* the "valid" / "status" field of the JSON report *)
Definition validate_report_valid (inp : input vfile) : bool := negb (existsb v_bad (inputs_of inp)).

(* ---- format ---------------------------------------------------------------------------------------- *)

(* library result for one input: formatting failed, or original text, formatted text, and whether a write to the
   destination chosen by the flags would succeed *)
Inductive ffile := FFail | FOk (orig fmt : bytes) (wok : bool).

Record fflags := mkF { f_inplace : bool; f_check : bool; f_output : bool }.

Inductive action :=
| Print (b : bytes)                 (* bytes written to stdout *)
| WriteSelf (i : nat) (b : bytes)   (* input file number i is replaced by b *)
| WriteOut (b : bytes).             (* the -o file is (over)written with b *)

Record tally := mkT { t_acts : list action; t_failed : nat; t_needs : nat }.

Fixpoint fmt_loop (fl : fflags) (i : nat) (l : list ffile) : tally :=
  match l with
  | [] => mkT [] 0 0
  | x :: r =>
      let t := fmt_loop fl (S i) r in
      match x with
      | FFail => mkT (t_acts t) (S (t_failed t)) (t_needs t)
      | FOk o f wok =>
          let changed := negb (bytes_eqb o f) in
          if f_check fl then mkT (t_acts t) (t_failed t) (if changed then S (t_needs t) else t_needs t)
          else if f_inplace fl then
            if changed then
              (if wok then mkT (WriteSelf i f :: t_acts t) (t_failed t) (t_needs t)
               else mkT (t_acts t) (S (t_failed t)) (t_needs t))
            else t
          else if f_output fl then
            (if wok then mkT (WriteOut f :: t_acts t) (t_failed t) (t_needs t)
             else mkT (t_acts t) (S (t_failed t)) (t_needs t))
          else mkT (Print (ensure_nl f) :: t_acts t) (t_failed t) (t_needs t)
      end
  end.

Definition format_one (fl : fflags) (stdin : bool) (x : ffile) : list action * status :=
  if stdin && f_inplace fl then ([], 1%N)               (* -i is refused with stdin; it is ignored for inline SQL *)
  else match x with
       | FFail => ([], 1%N)
       | FOk o f wok =>
           if f_check fl then ([], if bytes_eqb o f then 0%N else 1%N)
           else if f_output fl then (if wok then ([WriteOut (ensure_nl f)], 0%N) else ([], 1%N))
           else ([Print (ensure_nl f)], 0%N)
       end.

Definition format_run (fl : fflags) (inp : input ffile) : list action * status :=
  match inp with
  | INone => ([], 1%N)
  | IStdin None => ([], 1%N)
  | IStdin (Some x) => format_one fl true x
  | IInline x => format_one fl false x
  | IFiles [] => ([], 1%N)
  | IFiles l =>
      let t := fmt_loop fl 0 l in
      (t_acts t,
       if f_check fl && negb (Nat.eqb (t_needs t) 0) then 1%N
       else if negb (Nat.eqb (t_failed t) 0) then 1%N else 0%N)
  end.
Definition exit_format fl inp : status := snd (format_run fl inp).
Definition format_actions fl inp : list action := fst (format_run fl inp).

Definition is_write (a : action) : bool := match a with Print _ => false | _ => true end.

(* specification side: is a write attempted for a successfully formatted input (files mode)? *)
Definition f_writes (fl : fflags) (o f : bytes) : bool :=
  if f_inplace fl then negb (bytes_eqb o f) else f_output fl.
(* an input that does not stand in the way of exit status 0: it was formatted; under --check it is already
   formatted; otherwise any write attempted for it succeeded *)
Definition f_goodb (fl : fflags) (x : ffile) : bool :=
  match x with
  | FFail => false
  | FOk o f wok => if f_check fl then bytes_eqb o f else (negb (f_writes fl o f) || wok)
  end.

(* ---- lint ------------------------------------------------------------------------------------------ *)

Inductive sev := SErr | SWarn | SInfo.
Inductive lfile :=
| LReadErr                                                     (* the file could not be read *)
| LOk (orig : bytes) (viols : list sev) (fixed : bytes) (wok : bool).
Record lflags := mkL { l_fix : bool; l_failwarn : bool }.

Definition is_err (s : sev) : bool := match s with SErr => true | _ => false end.
Definition is_warn (s : sev) : bool := match s with SWarn => true | _ => false end.
Definition l_viols (x : lfile) : list sev := match x with LReadErr => [] | LOk _ v _ _ => v end.
Definition l_readerr (x : lfile) : bool := match x with LReadErr => true | _ => false end.

Definition lint_status (fl : lflags) (l : list lfile) : status :=
  if existsb l_readerr l then 1%N
  else if existsb is_err (flat_map l_viols l) || (l_failwarn fl && existsb is_warn (flat_map l_viols l)) then 1%N
  else 0%N.

Fixpoint lint_writes (i : nat) (l : list lfile) : list action :=
  match l with
  | [] => []
  | LOk o (_ :: _) f true :: r => if bytes_eqb o f then lint_writes (S i) r else WriteSelf i f :: lint_writes (S i) r
  | _ :: r => lint_writes (S i) r
  end.

Definition lint_run (fl : lflags) (inp : input lfile) : list action * status :=
  match inp with
  | INone => ([], 1%N)
  | IStdin None => ([], 1%N)
  | IStdin (Some x) => ([], lint_status fl [x])           (* fixed text is printed, never written *)
  | IInline x => ([], lint_status fl [x])
  | IFiles l => (if l_fix fl then lint_writes 0 l else [], lint_status fl l)
  end.
Definition exit_lint fl inp : status := snd (lint_run fl inp).
Definition lint_actions fl inp : list action := fst (lint_run fl inp).

(* ---- parse ----------------------------------------------------------------------------------------- *)

Inductive pfile := PAccept | PReject.     (* with --tokens: the tokenizer's verdict; otherwise tokenizer + parser *)
Definition exit_parse (inp : input pfile) : status :=
  match inputs_of inp with
  | [PAccept] => 0%N
  | _ => 1%N                            (* no input, empty stdin, more than one argument (cobra), or rejected *)
  end.

(* ---- evaluation of observed runs (lib/c19.py) ------------------------------------------------------- *)

Fixpoint printed (a : list action) : bytes :=
  match a with [] => [] | Print b :: r => b ++ printed r | _ :: r => printed r end.
Fixpoint self_writes (a : list action) : list (nat * bytes) :=
  match a with [] => [] | WriteSelf i b :: r => (i, b) :: self_writes r | _ :: r => self_writes r end.
Fixpoint out_final (a : list action) (cur : option bytes) : option bytes :=
  match a with [] => cur | WriteOut b :: r => out_final r (Some b) | _ :: r => out_final r cur end.

Fixpoint writes_eqb (a b : list (nat * bytes)) : bool :=
  match a, b with
  | [], [] => true
  | (i, x) :: ra, (j, y) :: rb => Nat.eqb i j && bytes_eqb x y && writes_eqb ra rb
  | _, _ => false
  end.
Fixpoint nats_eqb (a b : list nat) : bool :=
  match a, b with
  | [], [] => true
  | x :: ra, y :: rb => Nat.eqb x y && nats_eqb ra rb
  | _, _ => false
  end.

(* observed: exit status; stdout (None: not compared, e.g. messages); files rewritten (index, content), in input
   order; final content of the -o file (None: absent) *)
Record observed := mkO { o_status : N; o_stdout : option bytes; o_writes : list (nat * bytes); o_out : option bytes }.

Definition acts_ok (acts : list action) (st : status) (o : observed) : bool :=
  N.eqb st (o_status o) &&
  match o_stdout o with Some b => bytes_eqb (printed acts) b | None => true end &&
  writes_eqb (self_writes acts) (o_writes o) &&
  obytes_eqb (out_final acts None) (o_out o).

Inductive cli_case :=
| CValidate (fl : vflags) (inp : input vfile) (st : N) (report : option (list nat)) (report_valid : bool)
| CFormat (fl : fflags) (inp : input ffile) (o : observed)
| CLint (fl : lflags) (inp : input lfile) (o : observed)
| CParse (inp : input pfile) (st : N).

Definition oreport_eqb (a b : option (list nat)) : bool :=
  match a, b with Some x, Some y => nats_eqb x y | None, None => true | _, _ => false end.

Definition cli_case_ok (c : cli_case) : bool :=
  match c with
  | CValidate fl inp st rep rv =>
      N.eqb (exit_validate fl inp) st && oreport_eqb (validate_report fl inp) rep &&
      match rep with Some _ => Bool.eqb (validate_report_valid inp) rv | None => true end
  | CFormat fl inp o => acts_ok (format_actions fl inp) (exit_format fl inp) o
  | CLint fl inp o => acts_ok (lint_actions fl inp) (exit_lint fl inp) o
  | CParse inp st => N.eqb (exit_parse inp) st
  end.
