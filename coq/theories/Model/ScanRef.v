(* ScanRef.v — positions of the reference grammar (C16): every expression and every statement that occurs
   anywhere inside a statement.  "payload p sits in a one-hole context C" is [In p (subs (plug C p))]: [subs]
   enumerates every hole position of the grammar (select list, WHERE, AND/OR/NOT operands, comparison operands,
   GROUP BY, HAVING, ORDER BY, JOIN ON, function arguments, CASE operand / WHEN / THEN / ELSE, IN lists, BETWEEN
   bounds, CAST, sub-queries in FROM / IN / EXISTS / scalar position, CTE bodies, set-operation operands,
   INSERT values and INSERT ... SELECT, UPDATE assignments / FROM / WHERE, DELETE USING / WHERE, MERGE source /
   ON / WHEN conditions / SET values / INSERT values; the query of CREATE VIEW / CREATE MATERIALIZED VIEW / EXPLAIN, the
   predicate of a partial index, DEFAULT values and CHECK conditions of CREATE TABLE).  [subs] is structurally
   recursive: positions at any depth, in particular the operands at the bottom of a long flat operator chain. *)
From Coq Require Import List String.
From GV Require Import Model.QAst Model.QRef.
Import ListNotations.

Inductive msub := SubE (e : mexpr) | SubS (s : mstmt).
Definition ast_sub (x : msub) : qn := match x with SubE e => ast_expr e | SubS s => ast_stmt s end.

Fixpoint subs_expr (e : mexpr) : list msub :=
  SubE e ::
  match e with
  | MCol _ _ | MStar _ | MLit _ _ | MNiladic _ => []
  | MBin _ l r => subs_expr l ++ subs_expr r
  | MUn _ x => subs_expr x
  | MFunc _ args => subs_exprs args
  | MCase o ws els => subs_opt o ++ subs_whens ws ++ subs_opt els
  | MIn x l => subs_expr x ++ subs_exprs l
  | MInSub x s => subs_expr x ++ subs s
  | MBetween x lo hi => subs_expr x ++ subs_expr lo ++ subs_expr hi
  | MExists s | MSub s => subs s
  | MCast x _ => subs_expr x
  end
with subs_exprs (l : mexprs) : list msub :=
  match l with ENil => [] | ECons e r => subs_expr e ++ subs_exprs r end
with subs_whens (l : mwhens) : list msub :=
  match l with WNil => [] | WCons c r rest => subs_expr c ++ subs_expr r ++ subs_whens rest end
with subs_opt (o : mopt) : list msub :=
  match o with ONone => [] | OSome e => subs_expr e end
with subs_items (l : mitems) : list msub :=
  match l with INil => [] | ICons e _ r => subs_expr e ++ subs_items r end
with subs_tref (t : mtref) : list msub :=
  match t with TName _ _ => [] | TSub s _ => subs s end
with subs_trefs (l : mtrefs) : list msub :=
  match l with TNil => [] | TCons t r => subs_tref t ++ subs_trefs r end
with subs_joins (l : mjoins) : list msub :=
  match l with JNil => [] | JCons _ t c r => subs_tref t ++ subs_opt c ++ subs_joins r end
with subs_ctes (l : mctes) : list msub :=
  match l with CNil => [] | CCons _ _ s r => subs s ++ subs_ctes r end
with subs_assigns (l : massigns) : list msub :=
  match l with ANil => [] | ACons c v r => subs_expr c ++ subs_expr v ++ subs_assigns r end
with subs_sets (l : msets) : list msub :=
  match l with SNil => [] | SCons _ v r => subs_expr v ++ subs_sets r end
with subs_mwhens (l : mmwhens) : list msub :=
  match l with
  | MWNil => []
  | MWUpdate c sets r => subs_opt c ++ subs_sets sets ++ subs_mwhens r
  | MWInsert c _ vals r => subs_opt c ++ subs_exprs vals ++ subs_mwhens r
  | MWDelete c r => subs_opt c ++ subs_mwhens r
  end
with subs_colcons (l : mcolcons) : list msub :=
  match l with
  | XNil => []
  | XPlain _ r => subs_colcons r
  | XDefault e r => subs_expr e ++ subs_colcons r
  | XCheck c r => subs_expr c ++ subs_colcons r
  end
with subs_coldefs (l : mcoldefs) : list msub :=
  match l with DNil => [] | DCons _ _ cs r => subs_colcons cs ++ subs_coldefs r end
with subs_tabcons (l : mtabcons) : list msub :=
  match l with
  | YNil => []
  | YPlain _ _ r => subs_tabcons r
  | YCheck c r => subs_expr c ++ subs_tabcons r
  end
with subs (s : mstmt) : list msub :=
  SubS s ::
  match s with
  | MSelect w cols from joins wh gb hv ob =>
      subs_ctes w ++ subs_items cols ++ subs_trefs from ++ subs_joins joins ++ subs_opt wh ++
      subs_exprs gb ++ subs_opt hv ++ subs_exprs ob
  | MSetOp _ l r => subs l ++ subs r
  | MInsertV w _ cols vals => subs_ctes w ++ subs_exprs cols ++ subs_exprs vals
  | MInsertQ w _ cols q => subs_ctes w ++ subs_exprs cols ++ subs q
  | MUpdate w _ asg from wh => subs_ctes w ++ subs_assigns asg ++ subs_trefs from ++ subs_opt wh
  | MDelete w _ us wh => subs_ctes w ++ subs_trefs us ++ subs_opt wh
  | MMerge tgt src on ws => subs_tref tgt ++ subs_tref src ++ subs_expr on ++ subs_mwhens ws
  | MCreateView _ _ q | MCreateMView _ _ q => subs q
  | MCreateIndex _ _ _ wh => subs_opt wh
  | MCreateTable _ cols tcs => subs_coldefs cols ++ subs_tabcons tcs
  | MExplain q => subs q
  end.
