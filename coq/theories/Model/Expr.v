(* Expr.v — typed mirror of the Go AST node structs the parser fills ([gexpr], [gstmt], ...), the
   prescribed tree [ast_of : mexpr -> gexpr], and the embedding [reflect_*] of the typed mirror into the
   universal s-expression [sx] in which the harness dumps real trees (struct -> SNode type fields, fields
   in alphabetical order, zero-valued fields omitted).

   Only fields the parser can fill are mirrored; a real tree with any other non-zero field (e.g.
   BinaryExpression.CustomOp) is flagged by the harness and never equals a reflected typed tree.
   Definitions only. *)
From Coq Require Import List String Ascii Bool Arith NArith ZArith.
From GV Require Import Spec.RefGrammar.
Import ListNotations.
Local Open Scope string_scope.
Local Open Scope list_scope.

(* ------------------------------------------------------------------------------------------------ *)
(* universal dump *)

Inductive sx :=
  | SStr (s : string)
  | SBool (b : bool)
  | SInt (z : Z)
  | SNil                                  (* nil interface value inside a non-nil container *)
  | SList (l : list sx)
  | SNode (ty : string) (fields : list (string * sx))
  | SPtr (v : sx).                        (* pointer to a scalar: *bool, *int *)

Section SxEq.
  Variable sx_eqb : sx -> sx -> bool.
  Fixpoint sx_list_eqb (a b : list sx) : bool :=
    match a, b with
    | [], [] => true
    | x :: a', y :: b' => sx_eqb x y && sx_list_eqb a' b'
    | _, _ => false
    end.
  Fixpoint sx_fields_eqb (a b : list (string * sx)) : bool :=
    match a, b with
    | [], [] => true
    | (n, x) :: a', (m, y) :: b' => String.eqb n m && sx_eqb x y && sx_fields_eqb a' b'
    | _, _ => false
    end.
End SxEq.

Fixpoint sx_eqb (a b : sx) {struct a} : bool :=
  match a, b with
  | SStr s, SStr t => String.eqb s t
  | SBool x, SBool y => Bool.eqb x y
  | SInt x, SInt y => Z.eqb x y
  | SNil, SNil => true
  | SList l, SList m => sx_list_eqb sx_eqb l m
  | SNode t f, SNode u g => String.eqb t u && sx_fields_eqb sx_eqb f g
  | SPtr x, SPtr y => sx_eqb x y
  | _, _ => false
  end.

(* ------------------------------------------------------------------------------------------------ *)
(* typed mirror *)

Record gfetch := GFetch { f_type : string; f_value : option Z; f_percent : bool; f_ties : bool }.
Record gfor := GFor { l_type : string; l_tables : list string; l_nowait : bool; l_skip : bool }.

Inductive gexpr :=
  | GIdent (name table : string)                                   (* Identifier{Name,Table} *)
  | GLit (v : option string) (ty : string)                         (* LiteralValue{Value,Type}; nil Value = None *)
  | GBinary (l : gexpr) (op : string) (r : option gexpr) (neg : bool)  (* BinaryExpression{Left,Operator,Right,Not} *)
  | GUnary (op : N) (e : gexpr)                                    (* UnaryExpression{Operator,Expr}; ast.Not = 2 *)
  | GFunc (name : string) (args : list gexpr) (distinct : bool) (filter : option gexpr)
          (order_by within : list gorder) (over : option gwindow)  (* FunctionCall *)
  | GCase (value : option gexpr) (whens : list (gexpr * gexpr)) (els : option gexpr)
  | GCast (e : gexpr) (ty : string)
  | GIn (e : gexpr) (items : list gexpr) (q : option gstmt) (neg : bool)
  | GBetween (e lo hi : gexpr) (neg : bool)
  | GTuple (es : list gexpr)
  | GList (es : list gexpr)                                        (* ListExpression{Values} *)
  | GExists (q : gstmt)
  | GSubquery (q : gstmt)
  | GAnyAll (all : bool) (e : gexpr) (op : string) (q : gstmt)
  | GAliased (e : gexpr) (alias : string)
  | GInterval (v : string)
  | GArray (elems : list gexpr) (q : option gselect)
  | GSubscript (arr : gexpr) (idx : list gexpr)
  | GSlice (arr : gexpr) (st en : option gexpr)
  | GRollup (es : list gexpr)
  | GCube (es : list gexpr)
  | GGroupingSets (sets : list (list gexpr))
with gorder := GOrder (e : gexpr) (asc : bool) (nulls_first : option bool)
with gwindow := GWindow (name : string) (partition : list gexpr) (order : list gorder) (frame : option gframe)
with gframe := GFrame (ty : string) (st : gbound) (en : option gbound)
with gbound := GBound (ty : string) (v : option gexpr)
with gstmt :=
  | GSelectS (s : gselect)
  | GSetOp (l : gstmt) (op : string) (r : gstmt) (all : bool)
  | GInsert (w : option gwith) (table : string) (cols : list gexpr) (values : list (list gexpr))
            (query : option gstmt) (returning : list gexpr) (on_conflict : option gconflict)
            (on_dup : list (gexpr * gexpr))
  | GUpdate (w : option gwith) (table alias : string) (assigns : list (gexpr * gexpr)) (from : list gtable)
            (where_ : option gexpr) (returning : list gexpr)
  | GDelete (w : option gwith) (table alias : string) (using_ : list gtable) (where_ : option gexpr)
            (returning : list gexpr)
  | GMerge (target talias source salias : string) (on : gexpr) (whens : list gwhen)   (* MergeStatement *)
with gwhen := GWhen (ty : string) (cond : option gexpr) (action : gaction)           (* MergeWhenClause{Type,Condition,Action} *)
with gaction := GAction (ty : string) (sets : list (string * gexpr)) (cols : list string) (vals : list gexpr)
                        (default : bool)                                              (* MergeAction *)
with gselect :=
  | GSelect (w : option gwith) (distinct : bool) (distinct_on : list gexpr) (cols : list gexpr)
            (from : list gtable) (table_name : string) (joins : list gjoin) (where_ : option gexpr)
            (group_by : list gexpr) (having : option gexpr) (order_by : list gorder)
            (limit offset : option Z) (fetch : option gfetch) (for_ : option gfor)
with gtable := GTable (name alias : string) (q : option gselect) (lateral : bool)
with gjoin := GJoin (ty : string) (l r : gtable) (cond : option gexpr)
with gwith := GWith (recursive : bool) (ctes : list gcte)
with gcte := GCte (name : string) (cols : list string) (stmt : gstmt) (materialized : option bool)
with gconflict := GConflict (target : list gexpr) (cname : string) (do_nothing : bool)
                            (do_update : list (gexpr * gexpr)) (where_ : option gexpr).

Definition unop_not : N := 2%N.

(* ------------------------------------------------------------------------------------------------ *)
(* the prescribed tree of a reference expression *)

Definition cmp_str (c : cmpop) : string := lit (cmp_tok c).
Definition bin_str (op : binop) : string := lit (bin_tok op).

Fixpoint join_comma (l : list string) : string :=
  match l with [] => "" | [x] => x | x :: r => x ++ "," ++ join_comma r end.

Definition type_str (t : mtype) : string :=
  match targs t with
  | [] => tname t
  | a => tname t ++ "(" ++ join_comma a ++ ")"
  end.

(* Type "float" iff the literal is written with a fraction or an exponent *)
Fixpoint has_float_char (s : string) : bool :=
  match s with
  | EmptyString => false
  | String c r => (Ascii.eqb c "."%char || Ascii.eqb c "e"%char || Ascii.eqb c "E"%char) || has_float_char r
  end.
Definition num_type (s : string) : string := if has_float_char s then "float" else "int".

Definition null_lit : gexpr := GLit None "null".

Fixpoint ast_of (e : mexpr) : gexpr :=
  match e with
  | MIdent _ n => GIdent n ""
  | MQIdent t n => GIdent n t
  | MNum s => GLit (Some s) (num_type s)
  | MStr s => GLit (Some s) "string"
  | MPlaceholder s => GLit (Some s) "placeholder"
  | MNull => null_lit
  | MBool b => GLit (Some (if b then "TRUE" else "FALSE")) "bool"
  | MBin op a b => GBinary (ast_of a) (bin_str op) (Some (ast_of b)) false
  | MNot a => GUnary unop_not (ast_of a)
  | MIsNull a neg => GBinary (ast_of a) "IS NULL" (Some null_lit) neg
  | MIn a neg items => GIn (ast_of a) (map ast_of items) None neg
  | MBetween a neg lo hi => GBetween (ast_of a) (ast_of lo) (ast_of hi) neg
  | MLike a neg ci p => GBinary (ast_of a) (if ci then "ILIKE" else "LIKE") (Some (ast_of p)) neg
  | MCastOp a t => GCast (ast_of a) (type_str t)
  | MFunc n d args => GFunc n (map ast_of args) d None [] [] None
  | MCase s whens els =>
      GCase (option_map ast_of s) (map (fun cv => (ast_of (fst cv), ast_of (snd cv))) whens) (option_map ast_of els)
  | MCast a t => GCast (ast_of a) (type_str t)
  | MTuple es => GTuple (map ast_of es)
  end.

(* ------------------------------------------------------------------------------------------------ *)
(* reflection into the universal dump (field names = Go field names, alphabetical, zero values omitted) *)

Definition f_str (n s : string) : list (string * sx) := if String.eqb s "" then [] else [(n, SStr s)].
Definition f_bool (n : string) (b : bool) : list (string * sx) := if b then [(n, SBool true)] else [].
Definition f_int (n : string) (z : Z) : list (string * sx) := if Z.eqb z 0 then [] else [(n, SInt z)].
Definition f_list (n : string) (l : list sx) : list (string * sx) :=
  match l with [] => [] | _ => [(n, SList l)] end.
Definition f_opt (n : string) (o : option sx) : list (string * sx) :=
  match o with None => [] | Some v => [(n, v)] end.
Definition f_strs (n : string) (l : list string) : list (string * sx) := f_list n (map SStr l).
Definition f_optbool (n : string) (o : option bool) : list (string * sx) :=
  match o with None => [] | Some b => [(n, SPtr (SBool b))] end.
Definition f_optint (n : string) (o : option Z) : list (string * sx) :=
  match o with None => [] | Some z => [(n, SPtr (SInt z))] end.

Definition reflect_fetch (f : gfetch) : sx :=
  SNode "FetchClause" (f_str "FetchType" (f_type f) ++ f_optint "FetchValue" (f_value f)
                       ++ f_bool "IsPercent" (f_percent f) ++ f_bool "WithTies" (f_ties f)).
Definition reflect_for (f : gfor) : sx :=
  SNode "ForClause" (f_str "LockType" (l_type f) ++ f_bool "NoWait" (l_nowait f)
                     ++ f_bool "SkipLocked" (l_skip f) ++ f_strs "Tables" (l_tables f)).

Fixpoint reflect_expr (e : gexpr) : sx :=
  match e with
  | GIdent n t => SNode "Identifier" (f_str "Name" n ++ f_str "Table" t)
  | GLit v t => SNode "LiteralValue" (f_str "Type" t ++ f_opt "Value" (option_map SStr v))
  | GBinary l op r neg =>
      SNode "BinaryExpression" ([("Left", reflect_expr l)] ++ f_bool "Not" neg ++ f_str "Operator" op
                                ++ f_opt "Right" (option_map reflect_expr r))
  | GUnary op a => SNode "UnaryExpression" ([("Expr", reflect_expr a)] ++ f_int "Operator" (Z.of_N op))
  | GFunc n args d flt ob wg ov =>
      SNode "FunctionCall" (f_list "Arguments" (map reflect_expr args) ++ f_bool "Distinct" d
                            ++ f_opt "Filter" (option_map reflect_expr flt) ++ f_str "Name" n
                            ++ f_list "OrderBy" (map reflect_order ob)
                            ++ f_opt "Over" (option_map reflect_window ov)
                            ++ f_list "WithinGroup" (map reflect_order wg))
  | GCase v whens els =>
      SNode "CaseExpression"
        (f_opt "ElseClause" (option_map reflect_expr els) ++ f_opt "Value" (option_map reflect_expr v)
         ++ f_list "WhenClauses"
              (map (fun cr : gexpr * gexpr => match cr with (c, v) => SNode "WhenClause" [("Condition", reflect_expr c); ("Result", reflect_expr v)] end) whens))
  | GCast a t => SNode "CastExpression" ([("Expr", reflect_expr a)] ++ f_str "Type" t)
  | GIn a items q neg =>
      SNode "InExpression" ([("Expr", reflect_expr a)] ++ f_list "List" (map reflect_expr items) ++ f_bool "Not" neg
                            ++ f_opt "Subquery" (option_map reflect_stmt q))
  | GBetween a lo hi neg =>
      SNode "BetweenExpression" ([("Expr", reflect_expr a); ("Lower", reflect_expr lo)] ++ f_bool "Not" neg
                                 ++ [("Upper", reflect_expr hi)])
  | GTuple es => SNode "TupleExpression" (f_list "Expressions" (map reflect_expr es))
  | GList es => SNode "ListExpression" (f_list "Values" (map reflect_expr es))
  | GExists q => SNode "ExistsExpression" [("Subquery", reflect_stmt q)]
  | GSubquery q => SNode "SubqueryExpression" [("Subquery", reflect_stmt q)]
  | GAnyAll all a op q =>
      SNode (if all then "AllExpression" else "AnyExpression")
            ([("Expr", reflect_expr a)] ++ f_str "Operator" op ++ [("Subquery", reflect_stmt q)])
  | GAliased a al => SNode "AliasedExpression" (f_str "Alias" al ++ [("Expr", reflect_expr a)])
  | GInterval v => SNode "IntervalExpression" (f_str "Value" v)
  | GArray elems q =>
      SNode "ArrayConstructorExpression" (f_list "Elements" (map reflect_expr elems)
                                          ++ f_opt "Subquery" (option_map reflect_select q))
  | GSubscript a idx => SNode "ArraySubscriptExpression" ([("Array", reflect_expr a)] ++ f_list "Indices" (map reflect_expr idx))
  | GSlice a st en =>
      SNode "ArraySliceExpression" ([("Array", reflect_expr a)] ++ f_opt "End" (option_map reflect_expr en)
                                    ++ f_opt "Start" (option_map reflect_expr st))
  | GRollup es => SNode "RollupExpression" (f_list "Expressions" (map reflect_expr es))
  | GCube es => SNode "CubeExpression" (f_list "Expressions" (map reflect_expr es))
  | GGroupingSets sets => SNode "GroupingSetsExpression" (f_list "Sets" (map (fun s => SList (map reflect_expr s)) sets))
  end
with reflect_order (o : gorder) : sx :=
  match o with
  | GOrder a asc nf => SNode "OrderByExpression" (f_bool "Ascending" asc ++ [("Expression", reflect_expr a)] ++ f_optbool "NullsFirst" nf)
  end
with reflect_window (w : gwindow) : sx :=
  match w with
  | GWindow n part ord fr =>
      SNode "WindowSpec" (f_opt "FrameClause" (option_map reflect_frame fr) ++ f_str "Name" n
                          ++ f_list "OrderBy" (map reflect_order ord) ++ f_list "PartitionBy" (map reflect_expr part))
  end
with reflect_frame (f : gframe) : sx :=
  match f with
  | GFrame t st en => SNode "WindowFrame" (f_opt "End" (option_map reflect_bound en) ++ [("Start", reflect_bound st)] ++ f_str "Type" t)
  end
with reflect_bound (b : gbound) : sx :=
  match b with
  | GBound t v => SNode "WindowFrameBound" (f_str "Type" t ++ f_opt "Value" (option_map reflect_expr v))
  end
with reflect_stmt (s : gstmt) : sx :=
  match s with
  | GSelectS q => reflect_select q
  | GSetOp l op r all =>
      SNode "SetOperation" (f_bool "All" all ++ [("Left", reflect_stmt l)] ++ f_str "Operator" op ++ [("Right", reflect_stmt r)])
  | GInsert w t cols vals q ret oc od =>
      SNode "InsertStatement"
        (f_list "Columns" (map reflect_expr cols) ++ f_opt "OnConflict" (option_map reflect_conflict oc)
         ++ match od with [] => [] | _ => [("OnDuplicateKey", SNode "UpsertClause" (f_list "Updates" (map (fun a : gexpr * gexpr => match a with (c, v) => SNode "UpdateExpression" [("Column", reflect_expr c); ("Value", reflect_expr v)] end) od)))] end
         ++ f_opt "Query" (option_map reflect_stmt q) ++ f_list "Returning" (map reflect_expr ret)
         ++ f_str "TableName" t ++ f_list "Values" (map (fun row => SList (map reflect_expr row)) vals)
         ++ f_opt "With" (option_map reflect_with w))
  | GUpdate w t al asg from wh ret =>
      SNode "UpdateStatement"
        (f_str "Alias" al ++ f_list "Assignments" (map (fun a : gexpr * gexpr => match a with (c, v) => SNode "UpdateExpression" [("Column", reflect_expr c); ("Value", reflect_expr v)] end) asg) ++ f_list "From" (map reflect_table from)
         ++ f_list "Returning" (map reflect_expr ret) ++ f_str "TableName" t
         ++ f_opt "Where" (option_map reflect_expr wh) ++ f_opt "With" (option_map reflect_with w))
  | GDelete w t al us wh ret =>
      SNode "DeleteStatement"
        (f_str "Alias" al ++ f_list "Returning" (map reflect_expr ret) ++ f_str "TableName" t
         ++ f_list "Using" (map reflect_table us) ++ f_opt "Where" (option_map reflect_expr wh)
         ++ f_opt "With" (option_map reflect_with w))
  | GMerge t ta s sa on whens =>
      SNode "MergeStatement"
        ([("OnCondition", reflect_expr on)] ++ f_str "SourceAlias" sa ++ [("SourceTable", SNode "TableReference" (f_str "Name" s))]
         ++ f_str "TargetAlias" ta ++ [("TargetTable", SNode "TableReference" (f_str "Name" t))]
         ++ f_list "WhenClauses" (map reflect_when whens))
  end
with reflect_when (w : gwhen) : sx :=
  match w with
  | GWhen t c a => SNode "MergeWhenClause" ([("Action", reflect_action a)] ++ f_opt "Condition" (option_map reflect_expr c) ++ f_str "Type" t)
  end
with reflect_action (a : gaction) : sx :=
  match a with
  | GAction t sets cols vals df =>
      SNode "MergeAction" (f_str "ActionType" t ++ f_strs "Columns" cols ++ f_bool "DefaultValues" df
                           ++ f_list "SetClauses" (map (fun cv : string * gexpr => match cv with (c, v) => SNode "SetClause" (f_str "Column" c ++ [("Value", reflect_expr v)]) end) sets)
                           ++ f_list "Values" (map reflect_expr vals))
  end
with reflect_select (q : gselect) : sx :=
  match q with
  | GSelect w d don cols from tn joins wh gb hv ob lim off fe fo =>
      SNode "SelectStatement"
        (f_list "Columns" (map reflect_expr cols) ++ f_bool "Distinct" d
         ++ f_list "DistinctOnColumns" (map reflect_expr don) ++ f_opt "Fetch" (option_map reflect_fetch fe)
         ++ f_opt "For" (option_map reflect_for fo) ++ f_list "From" (map reflect_table from)
         ++ f_list "GroupBy" (map reflect_expr gb) ++ f_opt "Having" (option_map reflect_expr hv)
         ++ f_list "Joins" (map reflect_join joins) ++ f_optint "Limit" lim ++ f_optint "Offset" off
         ++ f_list "OrderBy" (map reflect_order ob) ++ f_str "TableName" tn
         ++ f_opt "Where" (option_map reflect_expr wh) ++ f_opt "With" (option_map reflect_with w))
  end
with reflect_table (t : gtable) : sx :=
  match t with
  | GTable n al q lat =>
      SNode "TableReference" (f_str "Alias" al ++ f_bool "Lateral" lat ++ f_str "Name" n
                              ++ f_opt "Subquery" (option_map reflect_select q))
  end
with reflect_join (j : gjoin) : sx :=
  match j with
  | GJoin t l r c =>
      SNode "JoinClause" (f_opt "Condition" (option_map reflect_expr c) ++ [("Left", reflect_table l); ("Right", reflect_table r)] ++ f_str "Type" t)
  end
with reflect_with (w : gwith) : sx :=
  match w with
  | GWith rc ctes => SNode "WithClause" (f_list "CTEs" (map reflect_cte ctes) ++ f_bool "Recursive" rc)
  end
with reflect_cte (c : gcte) : sx :=
  match c with
  | GCte n cols st mat =>
      SNode "CommonTableExpr" (f_strs "Columns" cols ++ f_optbool "Materialized" mat ++ f_str "Name" n
                               ++ [("Statement", reflect_stmt st)])
  end
with reflect_conflict (c : gconflict) : sx :=
  match c with
  | GConflict tg cn dn du wh =>
      SNode "OnConflict"
        ([("Action", SNode "OnConflictAction" (f_bool "DoNothing" dn ++ f_list "DoUpdate" (map (fun a : gexpr * gexpr => match a with (c, v) => SNode "UpdateExpression" [("Column", reflect_expr c); ("Value", reflect_expr v)] end) du)
                                               ++ f_opt "Where" (option_map reflect_expr wh)))]
         ++ f_str "Constraint" cn ++ f_list "Target" (map reflect_expr tg))
  end.

Example ex_ast_of :
  ast_of ex_mixed
  = GBinary
      (GBinary (GIdent "a" "") "=" (Some (GBinary (GIdent "b" "") "+" (Some (GBinary (GLit (Some "2") "int") "*" (Some (GIdent "c" "")) false)) false)) false)
      "OR"
      (Some (GBinary (GUnary 2 (GIdent "d" "")) "AND" (Some (GBinary (GIdent "e" "t") "IS NULL" (Some (GLit None "null")) true)) false))
      false.
Proof. reflexivity. Qed.
