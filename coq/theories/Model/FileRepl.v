(* FileRepl.v — a file system, the system calls an in-place writer issues, crash points, and the two
   replacement protocols of the gosqlx CLI (definitions only).

   A file system maps path names to files (content bytes + permission bits).  A protocol is the list of
   *successful* system calls a writer issues on it, as observed with strace and abstracted by lib/c19.py
   (file descriptors resolved to the path they were opened on, offsets made explicit).  The process may be
   killed after any call, and in the middle of a write after any number of bytes; a write may also fail
   after any number of bytes (EFBIG/ENOSPC/EIO), after which the writer runs its clean-up calls.

   Durability across power loss (ordering of data and directory blocks) is outside this model: [Fsync] is a
   no-op on the visible state.  The claim is about what a reader of the path sees after process death or
   write failure at any byte. *)
From Coq Require Import List NArith Bool Arith.
Import ListNotations.

Definition bytes := list N.
Definition path := N.

Record file := mkFile { f_data : bytes; f_mode : N }.

(* association list, first binding wins; [fs_set] keeps at most one binding per path *)
Definition fs := list (path * file).

Fixpoint lookup (p : path) (s : fs) : option file :=
  match s with
  | [] => None
  | (q, f) :: r => if N.eqb q p then Some f else lookup p r
  end.

Fixpoint fs_remove (p : path) (s : fs) : fs :=
  match s with
  | [] => []
  | (q, f) :: r => if N.eqb q p then fs_remove p r else (q, f) :: fs_remove p r
  end.

Definition fs_set (p : path) (f : file) (s : fs) : fs := (p, f) :: fs_remove p s.

Definition fs_put (p : path) (o : option file) (s : fs) : fs :=
  match o with Some f => fs_set p f s | None => fs_remove p s end.

(* what a reader of path p sees *)
Definition content (p : path) (s : fs) : option bytes := option_map f_data (lookup p s).

(* positional write: bytes [off, off+|d|) replaced by d, file extended (zero filled) when needed *)
Definition pwrite (off : nat) (d old : bytes) : bytes :=
  match d with
  | [] => old                                    (* a write of zero bytes changes nothing *)
  | _ => firstn off old ++ repeat 0%N (off - length old) ++ d ++ skipn (off + length d) old
  end.

Inductive step :=
| OpenTrunc (p : path) (m : N)            (* open(p, O_WRONLY|O_CREAT|O_TRUNC, m) *)
| CreateExcl (p : path) (m : N)           (* open(p, O_RDWR|O_CREAT|O_EXCL, m)    *)
| OpenWr (p : path)                       (* open(p, O_WRONLY / O_RDWR) without truncation *)
| WriteAt (p : path) (off : nat) (d : bytes)   (* write on a descriptor of p whose offset is off *)
| Ftruncate (p : path) (n : nat)
| Chmod (p : path) (m : N)                (* chmod / fchmod *)
| Fsync (p : path)
| Close (p : path)
| Rename (src dst : path)
| Unlink (p : path).

(* effect of a single-path call on the file it names (None = no such file) *)
Definition file_step (st : step) (cur : option file) : option file :=
  match st with
  | OpenTrunc _ m => match cur with Some f => Some (mkFile [] (f_mode f)) | None => Some (mkFile [] m) end
  | CreateExcl _ m => match cur with Some f => Some f | None => Some (mkFile [] m) end
  | WriteAt _ off d => match cur with Some f => Some (mkFile (pwrite off d (f_data f)) (f_mode f)) | None => None end
  | Ftruncate _ n => match cur with Some f => Some (mkFile (firstn n (f_data f) ++ repeat 0%N (n - length (f_data f))) (f_mode f)) | None => None end
  | Chmod _ m => match cur with Some f => Some (mkFile (f_data f) m) | None => None end
  | Unlink _ => None
  | OpenWr _ | Fsync _ | Close _ | Rename _ _ => cur
  end.

Definition step_path (st : step) : path :=
  match st with
  | OpenTrunc p _ | CreateExcl p _ | OpenWr p | WriteAt p _ _ | Ftruncate p _ | Chmod p _
  | Fsync p | Close p | Unlink p => p
  | Rename a _ => a
  end.

Definition do_step (st : step) (s : fs) : fs :=
  match st with
  | Rename a b =>
      match lookup a s with
      | Some f => if N.eqb a b then s else fs_set b f (fs_remove a s)
      | None => s
      end
  | _ => fs_put (step_path st) (file_step st (lookup (step_path st) s)) s
  end.

Definition run (l : list step) (s : fs) : fs := fold_left (fun s st => do_step st s) l s.

(* the state seen if the process dies at crash point (i, k): the first i calls are complete and, when
   call i is a write, k of its bytes have reached the file (k >= length: the write is complete) *)
Definition partial (st : step) (k : nat) : list step :=
  match st with
  | WriteAt p off d => [WriteAt p off (firstn k d)]
  | _ => []
  end.

Definition crash_at (proto : list step) (i k : nat) (s : fs) : fs :=
  let s' := run (firstn i proto) s in
  match nth_error proto i with
  | Some st => run (partial st k) s'
  | None => s'
  end.

(* a write failing at call i after k bytes: the calls before it, the k bytes, then the clean-up calls *)
Definition fail_run (proto cleanup : list step) (i k : nat) : list step :=
  firstn i proto ++ match nth_error proto i with Some st => partial st k | None => [] end ++ cleanup.

(* ---- the two protocols -------------------------------------------------------------------------- *)

(* os.WriteFile(target, new, perm): what the pinned writers did *)
Definition trunc_proto (t : path) (new : bytes) (m : N) : list step :=
  [OpenTrunc t m; WriteAt t 0 new; Close t].

(* temp file in the same directory + rename *)
Definition atomic_proto (t tmp : path) (new : bytes) (m : N) : list step :=
  [CreateExcl tmp 384; WriteAt tmp 0 new; Chmod tmp m; Fsync tmp; Close tmp; Rename tmp t].
Definition atomic_cleanup (tmp : path) : list step := [Close tmp; Unlink tmp].

(* ---- decidable shape of an observed protocol ---------------------------------------------------- *)

(* may this call change what path t names? *)
Definition touches (t : path) (st : step) : bool :=
  match st with
  | Fsync _ | Close _ | OpenWr _ => false
  | Rename a b => N.eqb a t || N.eqb b t
  | _ => N.eqb (step_path st) t
  end.
Definition inert (t : path) (l : list step) : bool := forallb (fun st => negb (touches t st)) l.

Definition is_rename (st : step) : bool := match st with Rename _ _ => true | _ => false end.

(* the file that ends up under src after [pre], starting from cur, looking only at calls naming src *)
Fixpoint staged (src : path) (pre : list step) (cur : option file) : option file :=
  match pre with
  | [] => cur
  | st :: r => staged src r (if N.eqb (step_path st) src && negb (is_rename st) then file_step st cur else cur)
  end.
Definition no_rename_of (src : path) (l : list step) : bool :=
  forallb (fun st => match st with Rename a b => negb (N.eqb a src || N.eqb b src) | _ => true end) l.

(* split at the first Rename onto t *)
Fixpoint split_commit (t : path) (l : list step) : option (list step * path * list step) :=
  match l with
  | [] => None
  | Rename a b :: r =>
      if N.eqb b t then Some ([], a, r)
      else match split_commit t r with Some (pre, src, post) => Some (Rename a b :: pre, src, post) | None => None end
  | st :: r => match split_commit t r with Some (pre, src, post) => Some (st :: pre, src, post) | None => None end
  end.

Definition bytes_eqb (a b : bytes) : bool :=
  (length a =? length b)%nat && forallb (fun xy => N.eqb (fst xy) (snd xy)) (combine a b).

(* "temp + rename" shape: nothing before or after the commit rename touches t; the renamed file was built
   from scratch (it did not exist before) and holds exactly [new] *)
Definition atomic_shapeb (t : path) (new : bytes) (proto : list step) : bool :=
  match split_commit t proto with
  | Some (pre, src, post) =>
      negb (N.eqb src t) && inert t pre && inert t post && no_rename_of src pre &&
      match staged src pre None with Some f => bytes_eqb (f_data f) new | None => false end
  | None => false
  end.

(* no call at all on t: the failing runs and the "nothing to do" runs *)
Definition untouched_shapeb (t : path) (proto : list step) : bool := inert t proto.

(* "truncate then write" shape: the first call touching t truncates it *)
Fixpoint trunc_shapeb (t : path) (proto : list step) : bool :=
  match proto with
  | [] => false
  | st :: r => if touches t st then match st with OpenTrunc _ _ => true | _ => false end
               else trunc_shapeb t r
  end.

(* ---- evaluation helpers for the correspondence (lib/c19.py) -------------------------------------- *)

Definition obytes_eqb (a b : option bytes) : bool :=
  match a, b with Some x, Some y => bytes_eqb x y | None, None => true | _, _ => false end.

(* a case: initial content of path 1 (the target), a protocol, and the content observed on disk afterwards *)
Definition run_case_ok (c : bytes * list step * option bytes) : bool :=
  let '(old, proto, seen) := c in
  obytes_eqb (content 1%N (run proto [(1%N, mkFile old 420)])) seen.

Fixpoint bad_idx {A} (f : A -> bool) (i : N) (l : list A) : list N :=
  match l with
  | [] => []
  | x :: r => if f x then bad_idx f (i + 1)%N r else i :: bad_idx f (i + 1)%N r
  end.
