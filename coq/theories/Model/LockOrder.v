(* LockOrder.v — deadlock freedom of the library's mutexes by lock discipline.

   Threads (goroutines) hold mutexes in read or write mode and may be blocked in a Lock / RLock call.  The
   semantics of acquisition is Go's sync.RWMutex (sync.Mutex = write mode only):
     - Lock   succeeds only if nobody (the caller included: the mutexes are not re-entrant) holds_any the mutex;
     - RLock  succeeds only if nobody holds_any it in write mode AND no thread is blocked in Lock on it
              (WRITER PREFERENCE: a pending writer blocks every new reader, also one that already holds_any a read lock).
   The discipline: a rank on mutexes such that every acquisition site of the table regenerated from the source
   (Gen/LockOrder.v: mutex, mode, the mutexes that MAY be held there) only takes a mutex of rank strictly above
   everything that may be held.  It excludes cyclic orders and re-acquiring a held mutex in any mode.

   Definitions only; the proofs are in Proofs/LockOrderP.v. *)
From Coq Require Import List NArith Arith Bool.
Import ListNotations.

Definition mutex := N.
Inductive lmode := MR | MW.
Definition lmode_eqb (a b : lmode) : bool := match a, b with MR, MR | MW, MW => true | _, _ => false end.

(* one static Lock / RLock call site *)
Record acq := { q_mutex : mutex; q_mode : lmode; q_may : list mutex }.

Record lthread := { l_held : list (mutex * lmode); l_wait : option (mutex * lmode) }.
Definition lockstate := list lthread.

Definition holds_any (m : mutex) (t : lthread) : bool := existsb (fun h => N.eqb (fst h) m) (l_held t).
Definition holds_w (m : mutex) (t : lthread) : bool := existsb (fun h => N.eqb (fst h) m && lmode_eqb (snd h) MW) (l_held t).
Definition waits_w (m : mutex) (t : lthread) : bool :=
  match l_wait t with Some (m', MW) => N.eqb m' m | _ => false end.
Definition waiting (t : lthread) : bool := match l_wait t with Some _ => true | None => false end.

(* can the blocked call of t return now? *)
Definition can_enter (ts : lockstate) (t : lthread) : bool :=
  match l_wait t with
  | None => false
  | Some (m, MW) => negb (existsb (holds_any m) ts)
  | Some (m, MR) => negb (existsb (holds_w m) ts) && negb (existsb (waits_w m) ts)
  end.

(* everybody who takes part is stuck: some thread is blocked, no blocked call can return, and every thread that holds_any
   a mutex is itself blocked (nobody is left who could release anything) *)
Definition deadlocked (ts : lockstate) : bool :=
  existsb waiting ts && forallb (fun t => negb (can_enter ts t)) ts &&
  forallb (fun t => match l_held t with [] => true | _ => waiting t end) ts.

(* ---- the discipline ---- *)
Fixpoint rank_of (ranks : list (mutex * nat)) (m : mutex) : nat :=
  match ranks with [] => 0 | (m', r) :: rest => if N.eqb m' m then r else rank_of rest m end.

Definition row_ok (ranks : list (mutex * nat)) (a : acq) : bool :=
  forallb (fun h => rank_of ranks h <? rank_of ranks (q_mutex a)) (q_may a).
Definition acq_table_ok (ranks : list (mutex * nat)) (acqs : list acq) : bool := forallb (row_ok ranks) acqs.

(* rows that break the discipline for the given ranks (indices; only used to say WHICH rows) *)
Fixpoint bad_rows (ranks : list (mutex * nat)) (i : N) (acqs : list acq) : list N :=
  match acqs with
  | [] => []
  | a :: r => if row_ok ranks a then bad_rows ranks (i + 1)%N r else i :: bad_rows ranks (i + 1)%N r
  end.

(* a blocked thread is blocked at a site of the table, holding only what may be held there *)
Definition at_row (acqs : list acq) (t : lthread) : Prop :=
  match l_wait t with
  | None => True
  | Some (m, md) => exists a, In a acqs /\ q_mutex a = m /\ q_mode a = md /\
                              forall h, In h (map fst (l_held t)) -> In h (q_may a)
  end.

(* ---- returning to the caller with a lock held ----
   An entry point of the library (exported function / method) returns to code OUTSIDE the library, which has no way to
   release the library's private mutexes.  One row per entry point: what it may still hold when it returns. *)
Record exit_row := { x_held : list mutex }.
Definition no_lock_leak (rows : list exit_row) : bool :=
  forallb (fun r => match x_held r with [] => true | _ => false end) rows.

(* a goroutine that has returned from the entry point of row r holds at most what the row says *)
Definition returned_from (rows : list exit_row) (t : lthread) : Prop :=
  l_wait t = None /\ exists r, In r rows /\ forall h, In h (map fst (l_held t)) -> In h (x_held r).
