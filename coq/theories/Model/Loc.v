(* Loc.v — offset -> (line, column) as pkg/sql/tokenizer computes it, and the position lookup of the
   position-tracking parser.  Definitions only.

   Go sources mirrored (branch by branch):
     Tokenizer.Tokenize, pre-scan           : lineStarts = [0] ++ [i+1 | input[i] == '\n']          -> line_starts
     Tokenizer.toSQLPosition                : scan of lineStarts, then column scan (tab = 4, bytes)  -> to_loc
     Tokenizer.getLocation                  : single scan, column = pos - lineStart + 1 (no tabs)    -> get_location
     tokenConverter.convert                 : positions of converted (possibly split) tokens         -> conv_positions
     Parser.currentLocation                 : positions[currentPos].Start, zero when out of range    -> current_location

   Bytes are N, offsets / lines / columns are nat (Go ints that are never negative here: every offset
   handed to toSQLPosition is a cursor index or a comment start index, both >= 0). *)
From Coq Require Import List Arith NArith Bool.
Import ListNotations.
Local Open Scope nat_scope.

Definition LF : N := 10%N.
Definition TAB : N := 9%N.
Definition is_lf (b : N) : bool := N.eqb b LF.
Definition is_tab (b : N) : bool := N.eqb b TAB.

Definition loc := (nat * nat)%type.          (* (Line, Column) *)

(* ---- the line table built by Tokenize / TokenizeContext ---- *)
(* for i := 0; i < len(input); i++ { if input[i] == '\n' { lineStarts = append(lineStarts, i+1) } } ;
   [k] is the absolute offset of the head of [bs] *)
Fixpoint line_starts_from (k : nat) (bs : list N) : list nat :=
  match bs with
  | [] => []
  | b :: r => if is_lf b then S k :: line_starts_from (S k) r else line_starts_from (S k) r
  end.
Definition line_starts (bs : list N) : list nat := 0 :: line_starts_from 0 bs.

(* ---- toSQLPosition ---- *)
(* for i := 0; i < len(lineStarts); i++ { if lineStarts[i] > idx { break }; line = i+1; lineStart = lineStarts[i] } *)
Fixpoint find_line (ls : list nat) (idx i line lstart : nat) : nat * nat :=
  match ls with
  | [] => (line, lstart)
  | s :: r => if idx <? s then (line, lstart) else find_line r idx (S i) (S i) s
  end.

(* width of one byte in the column scan: '\t' counts 4, every other BYTE (not rune) counts 1 *)
Definition bwidth (b : N) : nat := if is_tab b then 4 else 1.

(* for i := lineStart; i < idx && i < len(input); i++ { column += width(input[i]) } ;
   [n] = idx - lineStart iterations at most, [bs] = input[lineStart:] *)
Fixpoint col_scan (n : nat) (bs : list N) (col : nat) : nat :=
  match n, bs with
  | S n', b :: r => col_scan n' r (col + bwidth b)
  | _, _ => col
  end.

Definition to_loc_with (ls : list nat) (bs : list N) (idx : nat) : loc :=
  let '(line, lstart) := find_line ls idx 0 1 0 in
  let column := col_scan (idx - lstart) (skipn lstart bs) 1 in
  let column := if column <? 1 then 1 else column in          (* "ensure column is never less than 1" *)
  (line, column).

Definition to_loc (bs : list N) (idx : nat) : loc := to_loc_with (line_starts bs) bs idx.

(* ---- getLocation (behind the exported Position.Location) ---- *)
(* for i := 0; i < pos && i < len(input); i++ { if input[i]=='\n' { line++; lineStart = i+1 } } *)
Fixpoint gl_scan (n : nat) (bs : list N) (k line lstart : nat) : nat * nat :=
  match n, bs with
  | S n', b :: r => if is_lf b then gl_scan n' r (S k) (S line) (S k) else gl_scan n' r (S k) line lstart
  | _, _ => (line, lstart)
  end.
Definition get_location (bs : list N) (pos : nat) : loc :=
  let '(line, lstart) := gl_scan pos bs 0 1 0 in
  (line, if lstart <=? pos then pos - lstart + 1 else 1).

(* ---- reference notions the theorems are stated with (independent of the line table) ---- *)
Definition count_lf (bs : list N) : nat := length (filter is_lf bs).
Definition width (bs : list N) : nat := fold_right (fun b a => bwidth b + a) 0 bs.
Definition count_tab (bs : list N) : nat := length (filter is_tab bs).
(* UTF-8 continuation bytes 0x80..0xBF: the bytes that are not the first byte of a character *)
Definition is_cont (b : N) : bool := (N.leb 128 b && N.leb b 191)%N.
Definition count_cont (bs : list N) : nat := length (filter is_cont bs).
Definition count_chars (bs : list N) : nat := length (filter (fun b => negb (is_cont b)) bs).

(* [s] is the start of the line that contains offset [i]: s = 0 or the byte before s is LF, and no LF in [s, i) *)
Definition no_lf_between (bs : list N) (s i : nat) : Prop :=
  forall k, s <= k < i -> nth_error bs k <> Some LF.
Definition is_line_start (bs : list N) (i s : nat) : Prop :=
  s <= i /\ (s = 0 \/ nth_error bs (s - 1) = Some LF) /\ no_lf_between bs s i.

(* bytes of the line starting at s, up to (excluding) its LF or the end of input *)
Fixpoint take_line (bs : list N) : list N :=
  match bs with
  | [] => []
  | b :: r => if is_lf b then [] else b :: take_line r
  end.
Definition line_bytes (bs : list N) (s : nat) : list N := take_line (skipn s bs).

(* the slice input[s:i] *)
Definition slice (bs : list N) (s i : nat) : list N := firstn (i - s) (skipn s bs).

Definition lex_le (a b : loc) : Prop := fst a < fst b \/ (fst a = fst b /\ snd a <= snd b).
Definition lex_lt (a b : loc) : Prop := fst a < fst b \/ (fst a = fst b /\ snd a < snd b).
Definition lex_leb (a b : loc) : bool := (fst a <? fst b) || ((fst a =? fst b) && (snd a <=? snd b)).

(* ---- spans of an abstract token stream (byte offsets; the lexer model proves the chain condition) ---- *)
(* start <= end for every element (an empty element is the EOF token), end <= next start, all <= |bs| *)
Fixpoint spans_chain (n : nat) (prev : nat) (sp : list (nat * nat)) : Prop :=
  match sp with
  | [] => True
  | (s, e) :: r => prev <= s /\ s <= e /\ e <= n /\ spans_chain n e r
  end.
Definition reported (bs : list N) (sp : list (nat * nat)) : list (loc * loc) :=
  map (fun se => (to_loc bs (fst se), to_loc bs (snd se))) sp.
Fixpoint locs_chain (prev : loc) (l : list (loc * loc)) : Prop :=
  match l with
  | [] => True
  | (s, e) :: r => lex_le prev s /\ lex_le s e /\ locs_chain e r
  end.

Definition nloc_pair (p : N * N) : loc := (N.to_nat (fst p), N.to_nat (snd p)).

(* ---- token conversion: the position mapping of the position-tracking parser ---- *)
(* A tokenizer token as the converter sees it: its reported span and the byte lengths of the literals of the
   parser tokens it expands to ([w] for an ordinary token; [5; 2] for "GROUP BY", ...). *)
Record srctok := { st_start : loc; st_end : loc; st_parts : list nat }.

(* compoundPartSpan (token_conversion.go): the first keyword occupies len(literal) columns from the start, the
   last keyword the len(literal) columns before the end, a middle keyword lies between them; when the span
   cannot hold the words every part keeps the span of the whole token.
   [own = false] is the behaviour before the repair: every part carries the whole token's span. *)
Definition fits (s e : loc) (ws : list nat) : bool :=
  let n := length ws in
  let first_end := (fst s, snd s + nth 0 ws 0) in
  let wl := nth (n - 1) ws 0 in
  let last_start := (fst e, snd e - wl) in
  (2 <=? n) && (1 <=? fst s)                      (* !(n < 2 || t.Start.Line < 1) *)
  && (wl <? snd e)                                (* !(lastStart.Column < 1) : End.Column - len >= 1 *)
  && lex_leb first_end last_start.                (* !(lastStart before firstEnd) *)
Definition part_span (own : bool) (s e : loc) (ws : list nat) (i : nat) : loc * loc :=
  let n := length ws in
  let first_end := (fst s, snd s + nth 0 ws 0) in
  let last_start := (fst e, snd e - nth (n - 1) ws 0) in
  if own && fits s e ws then
    if i =? 0 then (s, first_end)
    else if i =? n - 1 then (last_start, e)
    else (first_end, last_start)
  else (s, e).

Definition tok_positions (own : bool) (oi : nat) (t : srctok) : list (nat * (loc * loc)) :=
  match st_parts t with
  | [] | [_] => [(oi, (st_start t, st_end t))]
  | ws => map (fun i => (oi, part_span own (st_start t) (st_end t) ws i)) (seq 0 (length ws))
  end.

(* tokenConverter.convert: PositionMapping (OriginalIndex, (Start, End)), one entry per converted token *)
Fixpoint conv_positions (own : bool) (oi : nat) (ts : list srctok) : list (nat * (loc * loc)) :=
  match ts with
  | [] => []
  | t :: r => tok_positions own oi t ++ conv_positions own (S oi) r
  end.

(* number of parser tokens a tokenizer token expands to *)
Definition nparts (t : srctok) : nat := match st_parts t with [] => 1 | ws => length ws end.
Fixpoint flat_index (ts : list srctok) (oi : nat) : nat :=       (* index of the first parser token of ts[oi] *)
  match oi, ts with
  | S k, t :: r => nparts t + flat_index r k
  | _, _ => 0
  end.

(* Parser.currentLocation: no mapping -> Location{}; a cursor past the last token (a production stepped over the end of
   input before it failed) -> the position of the last token, i.e. the end of input (fix: it used to be Location{}) *)
Definition last_start (ps : list (nat * (loc * loc))) : loc :=
  match ps with
  | [] => (0, 0)
  | _ => fst (snd (last ps (0, ((0, 0), (0, 0)))))
  end.
Definition current_location (positions : option (list (nat * (loc * loc)))) (cursor : nat) : loc :=
  match positions with
  | None => (0, 0)
  | Some ps => match nth_error ps cursor with
               | Some p => fst (snd p)
               | None => last_start ps
               end
  end.

(* ---- evaluation helpers for the correspondence (cases generated by lib/c05.py) ---- *)
Definition loc_eqb (a b : loc) : bool := (fst a =? fst b) && (snd a =? snd b).
Definition nloc (p : N * N) : loc := (N.to_nat (fst p), N.to_nat (snd p)).

(* all offsets 0..n of one input against the implementation's table of toSQLPosition results *)
Fixpoint table_ok (bs : list N) (i : nat) (tbl : list (N * N)) : bool :=
  match tbl with
  | [] => true
  | p :: r => loc_eqb (to_loc bs i) (nloc p) && table_ok bs (S i) r
  end.
Fixpoint gl_table_ok (bs : list N) (i : nat) (tbl : list (N * N)) : bool :=
  match tbl with
  | [] => true
  | p :: r => loc_eqb (get_location bs i) (nloc p) && gl_table_ok bs (S i) r
  end.
Definition nat_list_eqb (a : list nat) (b : list N) : bool :=
  (length a =? length b) && forallb (fun p => fst p =? N.to_nat (snd p)) (combine a b).

(* one case: input bytes, the implementation's line table, its toSQLPosition table for offsets 0..|bs|+2,
   its getLocation table for the same offsets *)
Definition loc_case_ok (c : list N * list N * list (N * N) * list (N * N)) : bool :=
  let '(bs, lst, tbl, gtbl) := c in
  nat_list_eqb (line_starts bs) lst && table_ok bs 0 tbl && gl_table_ok bs 0 gtbl.

Fixpoint bad_idx {A} (f : A -> bool) (i : N) (l : list A) : list N :=
  match l with
  | [] => []
  | x :: r => if f x then bad_idx f (i + 1)%N r else i :: bad_idx f (i + 1)%N r
  end.

(* parser-side case: source tokens (span + part lengths), the implementation's position mapping, the cursor and
   the location the returned error carries *)
Definition pos_entry_eqb (a : nat * (loc * loc)) (b : nat * (loc * loc)) : bool :=
  (fst a =? fst b) && loc_eqb (fst (snd a)) (fst (snd b)) && loc_eqb (snd (snd a)) (snd (snd b)).
Fixpoint pos_list_eqb (a b : list (nat * (loc * loc))) : bool :=
  match a, b with
  | [], [] => true
  | x :: r, y :: r' => pos_entry_eqb x y && pos_list_eqb r r'
  | _, _ => false
  end.
Definition mk_srctok (q : (N * N) * (N * N) * list N) : srctok :=
  let '(s, e, ws) := q in {| st_start := nloc_pair s; st_end := nloc_pair e; st_parts := map N.to_nat ws |}.
Definition parse_case_ok (own : bool)
  (c : list ((N * N) * (N * N) * list N) * list (N * ((N * N) * (N * N))) * N * (N * N)) : bool :=
  let '(toks, impl_pos, cursor, errloc) := c in
  let ps := conv_positions own 0 (map mk_srctok toks) in
  pos_list_eqb ps (map (fun p => (N.to_nat (fst p), (nloc_pair (fst (snd p)), nloc_pair (snd (snd p))))) impl_pos)
  && loc_eqb (current_location (Some ps) (N.to_nat cursor)) (nloc_pair errloc).
