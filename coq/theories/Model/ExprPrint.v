(* ExprPrint.v — Gallina mirror of the expression serialiser of pkg/sql/ast/sql.go (exprSQL and the SQL() methods
   of the expression nodes, operandSQL / exprPrec / binaryOperatorPrec, safeIdentifier, escapeStringLiteral)
   over the typed tree mirror [gexpr] of Model/Expr.v.

   The printer produces the TOKEN list of the text SQL() writes (tokens of Spec/RefGrammar.v; turning the text
   into tokens is the tokenizer, C04): on every run the tie tokenizes the Go output with the real tokenizer +
   converter and compares it with [print_expr] on the same (reflected) tree.  The two byte-level codecs the
   printer relies on — string literal escaping and identifier quoting — are modelled separately as text
   functions ([escape_lit] / [read_lit], [quote_ident] / [read_qident]) for ASCII contents.

   Mirrored from the code AS IT IS AFTER the C06 repairs; each unrepaired or repaired defect is a switch:
     d_no_parens         operands are never parenthesised (pinned tree; repaired in /repo 10bebb5)
     d_is_not_null_lost  IS NULL with the Not flag printed as IS NULL (pinned; repaired 360f3f8)
     d_reserved_raw      reserved words are not quoted (pinned; repaired a1f7894)
     d_dot_safe          '.' counts as a safe identifier character, so the quoted identifier a.b is printed raw
                         (UNREPAIRED: pinned tests build an Identifier named u.name and expect u.name)
     d_digit_safe        a name that begins with a digit is written raw and read as a number
                         (UNREPAIRED: pinned tests build an Identifier named 1 and expect SELECT 1)
     codec: d_ctrlz_escape  Ctrl-Z escaped as \Z (pinned; repaired 8c4ab20);  d_drop_nul  NUL dropped (UNREPAIRED, deliberate);
            d_triple_quote  a leading quote written as two quotes, so the text opens a triple-quoted string (pinned; repaired)
   Nodes / shapes that are not modelled give [None] (sub-queries, EXISTS, ANY/ALL, aliases, window calls, ...).
   Definitions only. *)
From Coq Require Import List String Ascii Bool Arith NArith.
From GV Require Import Spec.RefGrammar Model.Expr Model.ExprParse.
Import ListNotations.
Local Open Scope string_scope.
Local Open Scope list_scope.
Local Open Scope nat_scope.

Record pflags := PFlags { d_no_parens : bool; d_is_not_null_lost : bool; d_reserved_raw : bool; d_dot_safe : bool; d_digit_safe : bool }.
Definition print_ok : pflags := PFlags false false false false false.          (* every defect repaired *)
Definition print_tree : pflags := PFlags false false false true true.         (* the tree as it is now *)
Definition print_pinned : pflags := PFlags true true true true true.          (* the pinned tree *)

(* ------------------------------------------------------------------------------------------------ *)
(* precedence levels of sql.go: precOr ... precPrimary *)
Definition p_or := 0.
Definition p_and := 1.
Definition p_not := 2.
Definition p_cmp := 3.
Definition p_concat := 4.
Definition p_add := 5.
Definition p_mul := 6.
Definition p_unary := 7.
Definition p_postfix := 8.
Definition p_primary := 9.

Definition json_ops : list string := ["->"; "->>"; "#>"; "#>>"; "@>"; "<@"; "?"; "?|"; "?&"; "#-"].
Definition in_strs (s : string) (l : list string) : bool := existsb (String.eqb s) l.

(* binaryOperatorPrec(upperOp) = (level, left context, right context) *)
Definition binop_prec (u : string) : nat * nat * nat :=
  if String.eqb u "OR" then (p_or, p_or, p_and)
  else if String.eqb u "AND" then (p_and, p_and, p_not)
  else if String.eqb u "||" then (p_concat, p_concat, p_add)
  else if in_strs u ["+"; "-"] then (p_add, p_add, p_mul)
  else if in_strs u ["*"; "/"; "%"] then (p_mul, p_mul, p_unary)
  else if in_strs u json_ops then (p_postfix, p_postfix, p_primary)
  else if in_strs u ["REGEXP"; "RLIKE"] then (p_cmp, p_concat, p_primary)
  else (p_cmp, p_concat, p_concat).
Definition lvl (x : nat * nat * nat) : nat := fst (fst x).
Definition lctx (x : nat * nat * nat) : nat := snd (fst x).
Definition rctx (x : nat * nat * nat) : nat := snd x.

Definition like_family (u : string) : bool := in_strs u ["LIKE"; "ILIKE"; "SIMILAR TO"].
Definition is_null_op (u : string) : bool := in_strs u ["IS NULL"; "IS NOT NULL"].

(* isArrayTypeName: the type string ends with "[]" *)
Fixpoint is_array_type (ty : string) : bool :=
  match ty with
  | String a (String b EmptyString) => Ascii.eqb a "["%char && Ascii.eqb b "]"%char
  | String _ r => is_array_type r
  | EmptyString => false
  end.

Definition is_gcast (g : gexpr) : bool := match g with GCast _ _ => true | _ => false end.

(* IsNiladicFunctionName *)
Definition is_niladic (n : string) : bool :=
  existsb (String.eqb (upper n)) ["CURRENT_DATE"; "CURRENT_TIME"; "CURRENT_TIMESTAMP"; "LOCALTIME"; "LOCALTIMESTAMP"].

(* exprPrec *)
Definition go_prec (e : gexpr) : nat :=
  match e with
  | GBinary _ op _ neg =>
      let u := upper op in
      if neg && negb (like_family u || is_null_op u) then p_not else lvl (binop_prec u)
  | GUnary op _ => if N.eqb op unop_not then p_not else p_unary
  | GBetween _ _ _ _ | GIn _ _ _ _ | GAnyAll _ _ _ _ => p_cmp
  | GCast a ty => if is_gcast a || is_array_type ty then p_postfix else p_primary   (* written inner::type *)
  | _ => p_primary
  end.

(* ------------------------------------------------------------------------------------------------ *)
(* identifiers: safeIdentifier *)

Definition reserved_words : list string :=
  ["ADD"; "ALL"; "ALTER"; "AND"; "ANY"; "ARRAY"; "AS"; "ASC"; "AUTOINCREMENT"; "AUTO_INCREMENT"; "BETWEEN"; "BY";
   "CASCADE"; "CASE"; "CAST"; "CHECK"; "COLLATE"; "COLUMN"; "CONCURRENTLY"; "CONNECTOR"; "CONSTRAINT"; "CREATE";
   "CROSS"; "CUBE"; "CURRENT"; "DATABASES"; "DCPROPERTIES"; "DEFAULT"; "DELETE"; "DESC"; "DESCRIBE"; "DISTINCT";
   "DROP"; "ELSE"; "END"; "EXCEPT"; "EXCLUDE"; "EXISTS"; "EXPLAIN"; "FALSE"; "FETCH"; "FILTER"; "FIRST";
   "FOLLOWING"; "FOR"; "FOREIGN"; "FROM"; "FULL"; "GROUP"; "GROUPING"; "GROUPS"; "HASH"; "HAVING"; "IF"; "ILIKE";
   "IN"; "INDEX"; "INNER"; "INSERT"; "INTERSECT"; "INTERVAL"; "INTO"; "IS"; "JOIN"; "KEY"; "LAST"; "LATERAL";
   "LEFT"; "LESS"; "LIKE"; "LIMIT"; "LIST"; "LOCKED"; "MATCHED"; "MATERIALIZED"; "MAXVALUE"; "MEMBER"; "MERGE";
   "NATURAL"; "NEXT"; "NOCREATEDB"; "NOCREATEROLE"; "NOLOGIN"; "NOSUPERUSER"; "NOT"; "NOWAIT"; "NULL"; "NULLS";
   "OF"; "OFFSET"; "ON"; "ONLY"; "OR"; "ORDER"; "OUTER"; "OVER"; "OWNER"; "PARTITION"; "PERCENT"; "POLICY";
   "PRECEDING"; "PRIMARY"; "RANGE"; "RECURSIVE"; "REFERENCES"; "REFRESH"; "RENAME"; "REPLACE"; "RESET"; "RESTRICT";
   "RETURNING"; "RIGHT"; "ROLLUP"; "ROW"; "ROWS"; "SELECT"; "SET"; "SETS"; "SHARE"; "SHOW"; "SKIP"; "SOME"; "SOURCE";
   "TABLE"; "TABLES"; "TABLESPACE"; "TARGET"; "TEMPORARY"; "THAN"; "THEN"; "TIES"; "TO"; "TRUE"; "TRUNCATE";
   "UNBOUNDED"; "UNION"; "UNIQUE"; "UNTIL"; "UPDATE"; "URL"; "USING"; "VALID"; "VALUES"; "VIEW"; "WHEN"; "WHERE";
   "WITH"; "WITHIN"].

Definition in_range (lo hi : nat) (c : ascii) : bool := let n := nat_of_ascii c in (lo <=? n) && (n <=? hi).
Definition is_alpha (c : ascii) : bool := in_range 65 90 c || in_range 97 122 c.
Definition is_digit_c (c : ascii) : bool := in_range 48 57 c.
(* unicode.IsLetter / IsDigit restricted to what the byte-level model can decide: ASCII letters and digits; a
   byte >= 128 (part of a multi-byte rune) is taken as a letter — the tie runs on real names, see design/C06.md *)
Definition word_char (c : ascii) : bool := is_alpha c || is_digit_c c || Ascii.eqb c "_"%char || (128 <=? nat_of_ascii c).
Definition safe_char (pf : pflags) (c : ascii) : bool :=
  word_char c || Ascii.eqb c "*"%char || (d_dot_safe pf && Ascii.eqb c "."%char).

Fixpoint all_chars (f : ascii -> bool) (s : string) : bool :=
  match s with EmptyString => true | String c r => f c && all_chars f r end.

Definition is_reserved (n : string) : bool := in_strs (upper n) reserved_words.

(* safeIdentifier(name) writes the name in double quotes *)
Definition starts_with_digit (n : string) : bool := match n with String c _ => is_digit_c c | EmptyString => false end.
Definition needs_quote (pf : pflags) (n : string) : bool :=
  String.eqb n "" || negb (all_chars (safe_char pf) n) || (negb (d_reserved_raw pf) && is_reserved n)
  || (negb (d_digit_safe pf) && starts_with_digit n).

(* the tokens of a name written raw: the tokenizer splits it at '.', a part "*" is the asterisk *)
Fixpoint split_dots (s : string) (cur : string) : list string :=
  match s with
  | EmptyString => [cur]
  | String c r => if Ascii.eqb c "."%char then cur :: split_dots r "" else split_dots r (cur ++ String c "")
  end.
(* a reserved word written raw is read as a keyword token, not as an identifier ([TyKeyword] stands for its kind) *)
Definition raw_part (p : string) : token :=
  if String.eqb p "*" then Tk TyAsterisk "*" else if is_reserved p then Tk TyKeyword p
  else if starts_with_digit p then Tk TyNumber p   (* read as a number (followed by a word, if any) *)
  else Tk TyIdent p.
Definition raw_tokens (n : string) : list token :=
  sep_by [Tk TyPeriod "."] (map (fun p => [raw_part p]) (split_dots n "")).

Definition ident_tokens (pf : pflags) (n : string) : list token :=
  if needs_quote pf n then [Tk TyDQuoted n] else raw_tokens n.

(* ------------------------------------------------------------------------------------------------ *)
(* operators and type names *)

Definition op_token (op : string) : option token :=
  let u := upper op in
  if String.eqb u "OR" then Some (Tk TyOr op)
  else if String.eqb u "AND" then Some (Tk TyAnd op)
  else if String.eqb u "=" then Some (Tk TyEq op)
  else if in_strs u ["<>"; "!="] then Some (Tk TyNeq op)
  else if String.eqb u "<" then Some (Tk TyLt op)
  else if String.eqb u ">" then Some (Tk TyGt op)
  else if String.eqb u "<=" then Some (Tk TyLtEq op)
  else if String.eqb u ">=" then Some (Tk TyGtEq op)
  else if String.eqb u "||" then Some (Tk TyStringConcat op)
  else if String.eqb u "+" then Some (Tk TyPlus op)
  else if String.eqb u "-" then Some (Tk TyMinus op)
  else if String.eqb u "*" then Some (Tk TyAsterisk op)
  else if String.eqb u "/" then Some (Tk TyDiv op)
  else if String.eqb u "%" then Some (Tk TyMod op)
  else if String.eqb u "LIKE" then Some (Tk TyLike op)
  else if String.eqb u "ILIKE" then Some (Tk TyILike op)
  else if in_strs u json_ops then Some (Tk TyJsonOp op)
  else None.

(* a data type as SQL() writes it (the Type string verbatim), tokenized: name [ ( n {, n} ) ] *)
Definition type_char (c : ascii) : bool := word_char c.
Fixpoint split_on (seps : ascii -> bool) (s : string) (cur : string) : list (string + ascii) :=
  match s with
  | EmptyString => if String.eqb cur "" then [] else [inl cur]
  | String c r =>
      if seps c then (if String.eqb cur "" then [] else [inl cur]) ++ inr c :: split_on seps r ""
      else split_on seps r (cur ++ String c "")
  end.
Definition is_punct (c : ascii) : bool := Ascii.eqb c "("%char || Ascii.eqb c ")"%char || Ascii.eqb c ","%char.
Definition type_piece (i : nat) (p : string + ascii) : option token :=
  match p with
  | inl w => if all_chars type_char w then Some (if Nat.eqb i 0 then Tk TyIdent w else Tk TyNumber w) else None
  | inr c => Some (if Ascii.eqb c "("%char then tLP else if Ascii.eqb c ")"%char then tRP else tComma)
  end.
Fixpoint type_pieces (i : nat) (l : list (string + ascii)) : option (list token) :=
  match l with
  | [] => Some []
  | p :: r => match type_piece i p, type_pieces (S i) r with Some t, Some ts => Some (t :: ts) | _, _ => None end
  end.
Definition type_tokens (ty : string) : option (list token) :=
  if String.eqb ty "" then None else type_pieces 0 (split_on is_punct ty "").

(* ------------------------------------------------------------------------------------------------ *)
(* the printer *)

Definition wrap1 (ts : list token) : list token := tLP :: ts ++ [tRP].

(* operandSQL: parentheses iff the operand binds looser than the context *)
Definition par (pf : pflags) (p ctx : nat) (o : option (list token)) : option (list token) :=
  match o with
  | Some ts => Some (if negb (d_no_parens pf) && (p <? ctx) then wrap1 ts else ts)
  | None => None
  end.

Fixpoint all_some {A} (l : list (option A)) : option (list A) :=
  match l with
  | [] => Some []
  | Some x :: r => match all_some r with Some xs => Some (x :: xs) | None => None end
  | None :: _ => None
  end.

Definition ob {A B} (o : option A) (f : A -> option B) : option B := match o with Some a => f a | None => None end.

(* LiteralValue.SQL *)
Definition lit_tokens (v : option string) (ty : string) : option (list token) :=
  match v with
  | None => Some [Tk TyNull "NULL"]
  | Some s =>
      let u := upper ty in
      if String.eqb u "NULL" then Some [Tk TyNull "NULL"]
      else if String.eqb u "STRING" then Some [Tk TySQuoted s]
      else if String.eqb u "BOOL" then
        (if String.eqb (upper s) "TRUE" then Some [Tk TyTrue s] else if String.eqb (upper s) "FALSE" then Some [Tk TyFalse s] else None)
      else if in_strs u ["INT"; "FLOAT"] then Some [Tk TyNumber s]
      else if String.eqb u "PLACEHOLDER" then Some [Tk TyPlaceholder s]
      else None
  end.

Definition not_kw : token := Tk TyNot "NOT".

Fixpoint print_expr (pf : pflags) (e : gexpr) {struct e} : option (list token) :=
  match e with
  | GIdent n t =>
      if String.eqb t "" then Some (ident_tokens pf n)
      else Some (ident_tokens pf t ++ Tk TyPeriod "." :: ident_tokens pf n)
  | GLit v ty => lit_tokens v ty
  | GBinary l op r neg =>
      let u := upper op in
      let pr := binop_prec u in
      ob (par pf (go_prec l) (lctx pr) (print_expr pf l)) (fun lt =>
      if is_null_op u then
        (* right side is the NULL literal and is not printed *)
        Some (lt ++ (if String.eqb u "IS NOT NULL" then [Tk TyIs "IS"; not_kw; Tk TyNull "NULL"]
                     else Tk TyIs "IS" :: (if neg && negb (d_is_not_null_lost pf) then [not_kw] else []) ++ [Tk TyNull "NULL"]))
      else
        match r with
        | None => None
        | Some r' =>
            ob (par pf (go_prec r') (rctx pr) (print_expr pf r')) (fun rt =>
            ob (op_token op) (fun ot =>
            if neg then
              if like_family u then Some (lt ++ not_kw :: Tk (ty ot) u :: rt)
              else Some (not_kw :: tLP :: lt ++ ot :: rt ++ [tRP])
            else Some (lt ++ ot :: rt)))
        end)
  | GUnary op a =>
      if N.eqb op unop_not then ob (par pf (go_prec a) p_not (print_expr pf a)) (fun ts => Some (not_kw :: ts))
      else if N.eqb op 0 then ob (par pf (go_prec a) p_postfix (print_expr pf a)) (fun ts => Some (Tk TyPlus "+" :: ts))
      else if N.eqb op 1 then ob (par pf (go_prec a) p_postfix (print_expr pf a)) (fun ts => Some (Tk TyMinus "-" :: ts))
      else None
  | GFunc n args d None [] [] None =>
      if is_niladic n && negb d && match args with [] => true | _ => false end then Some [Tk TyIdent n]   (* CURRENT_DATE *)
      else
      ob (all_some (map (print_expr pf) args)) (fun ats =>
      Some (Tk TyIdent n :: tLP :: (if d then [Tk TyDistinct "DISTINCT"] else []) ++ sep_by [tComma] ats ++ [tRP]))
  | GFunc _ _ _ _ _ _ _ => None
  | GCase v whens els =>
      ob (match v with Some a => print_expr pf a | None => Some [] end) (fun vt =>
      ob (all_some (map (fun cv : gexpr * gexpr =>
                           match print_expr pf (fst cv), print_expr pf (snd cv) with
                           | Some c, Some x => Some (Tk TyWhen "WHEN" :: c ++ Tk TyThen "THEN" :: x)
                           | _, _ => None
                           end) whens)) (fun wts =>
      ob (match els with Some a => ob (print_expr pf a) (fun x => Some (Tk TyElse "ELSE" :: x)) | None => Some [] end) (fun et =>
      Some (Tk TyCase "CASE" :: vt ++ List.concat wts ++ et ++ [Tk TyEnd "END"]))))
  | GCast a ty =>
      (* a cast of a cast: inner::type (the chain is written CAST(x AS t)::u::v); a cast to an array type x::t[] is not
         modelled ([type_tokens] has no brackets) *)
      ob (print_expr pf a) (fun ats =>
      ob (type_tokens ty) (fun tts =>
      if is_gcast a then Some (ats ++ Tk TyDoubleColon "::" :: tts)
      else Some (Tk TyCast "CAST" :: tLP :: ats ++ Tk TyAs "AS" :: tts ++ [tRP])))
  | GIn a items None neg =>
      ob (par pf (go_prec a) p_concat (print_expr pf a)) (fun ats =>
      ob (all_some (map (print_expr pf) items)) (fun its =>
      Some (ats ++ (if neg then [not_kw] else []) ++ Tk TyIn "IN" :: tLP :: sep_by [tComma] its ++ [tRP])))
  | GIn _ _ (Some _) _ => None
  | GBetween a lo hi neg =>
      ob (par pf (go_prec a) p_concat (print_expr pf a)) (fun ats =>
      ob (par pf (go_prec lo) p_concat (print_expr pf lo)) (fun lts =>
      ob (par pf (go_prec hi) p_concat (print_expr pf hi)) (fun hts =>
      Some (ats ++ (if neg then [not_kw] else []) ++ Tk TyBetween "BETWEEN" :: lts ++ Tk TyAnd "AND" :: hts))))
  | GTuple es =>
      ob (all_some (map (print_expr pf) es)) (fun ets => Some (tLP :: sep_by [tComma] ets ++ [tRP]))
  | GInterval v => Some [Tk TyInterval "INTERVAL"; Tk TySQuoted v]
  | GArray elems None =>
      ob (all_some (map (print_expr pf) elems)) (fun ets =>
      Some (Tk TyArray "ARRAY" :: Tk TyLBracket "[" :: sep_by [tComma] ets ++ [Tk TyRBracket "]"]))
  | _ => None
  end.

(* operand in a context: what operandSQL returns *)
Definition operand (pf : pflags) (e : gexpr) (ctx : nat) : option (list token) :=
  par pf (go_prec e) ctx (print_expr pf e).

(* ------------------------------------------------------------------------------------------------ *)
(* byte-level codecs (ASCII contents) *)

Record cflags := CFlags { d_ctrlz_escape : bool; d_drop_nul : bool; d_triple_quote : bool }.
Definition codec_ok := CFlags false false false.
Definition codec_tree := CFlags false true false.
Definition codec_pinned := CFlags true true true.

Definition ch (n : nat) : ascii := ascii_of_nat n.
Definition c_quote := ch 39.      (* single quote *)
Definition c_bslash := ch 92.     (* backslash *)
Definition c_dquote := ch 34.     (* double quote *)
Definition c_btick := ch 96.      (* backtick *)

(* escapeStringLiteral; [first]: nothing has been written yet (a quote is then written with a backslash, since three
   quote characters in a row open a triple-quoted string) *)
Fixpoint escape_lit_at (cf : cflags) (first : bool) (s : string) : string :=
  match s with
  | EmptyString => EmptyString
  | String c r =>
      let rest := escape_lit_at cf false r in
      if Ascii.eqb c c_quote then
        (if first && negb (d_triple_quote cf) then String c_bslash (String c_quote rest) else String c_quote (String c_quote rest))
      else if Ascii.eqb c c_bslash then String c_bslash (String c_bslash rest)
      else if Ascii.eqb c (ch 0) then (if d_drop_nul cf then escape_lit_at cf first r else String c rest)
      else if Ascii.eqb c (ch 10) then String c_bslash (String "n"%char rest)
      else if Ascii.eqb c (ch 13) then String c_bslash (String "r"%char rest)
      else if Ascii.eqb c (ch 26) && d_ctrlz_escape cf then String c_bslash (String "Z"%char rest)
      else String c rest
  end.
Definition escape_lit (cf : cflags) (s : string) : string := escape_lit_at cf true s.
Definition lit_text (cf : cflags) (s : string) : string := String c_quote (escape_lit cf s ++ String c_quote "").

(* the body of readQuotedString after the opening quote, on ASCII text: (content, rest after the closing quote);
   None = tokenizer error (invalid escape sequence, unterminated string) *)
Fixpoint read_lit (fuel : nat) (s : string) (buf : string) : option (string * string) :=
  match fuel with
  | 0 => None
  | S f =>
      match s with
      | EmptyString => None
      | String c r =>
          if Ascii.eqb c c_quote then
            match r with
            | String c2 r2 => if Ascii.eqb c2 c_quote then read_lit f r2 (buf ++ String c_quote "") else Some (buf, r)
            | EmptyString => Some (buf, r)
            end
          else if Ascii.eqb c c_bslash then
            match r with
            | EmptyString => None
            | String e r2 =>
                if Ascii.eqb e c_bslash || Ascii.eqb e c_dquote || Ascii.eqb e c_quote || Ascii.eqb e c_btick
                then read_lit f r2 (buf ++ String e "")
                else if Ascii.eqb e "n"%char then read_lit f r2 (buf ++ String (ch 10) "")
                else if Ascii.eqb e "r"%char then read_lit f r2 (buf ++ String (ch 13) "")
                else if Ascii.eqb e "t"%char then read_lit f r2 (buf ++ String (ch 9) "")
                else None
            end
          else read_lit f r (buf ++ String c "")
      end
  end.
(* readTripleQuotedString: no escapes; ends at three quote characters *)
Fixpoint read_triple (s : string) (buf : string) : option (string * string) :=
  match s with
  | EmptyString => None
  | String c r =>
      match r with
      | String c2 (String c3 r3) =>
          if Ascii.eqb c c_quote && Ascii.eqb c2 c_quote && Ascii.eqb c3 c_quote then Some (buf, r3)
          else read_triple r (buf ++ String c "")
      | _ => read_triple r (buf ++ String c "")
      end
  end.
Definition two_quotes (r : string) : bool :=
  match r with String a (String b _) => Ascii.eqb a c_quote && Ascii.eqb b c_quote | _ => false end.
(* reading a literal text: opening quote (three of them open a triple-quoted string), body *)
Definition read_lit_text (s : string) : option (string * string) :=
  match s with
  | String c r =>
      if Ascii.eqb c c_quote then
        if two_quotes r then match r with String _ (String _ r3) => read_triple r3 "" | _ => None end
        else read_lit (S (String.length r)) r ""
      else None
  | EmptyString => None
  end.

(* quoteIdentifier and readQuotedIdentifier (a line break inside the quotes is an error) *)
Fixpoint double_dquotes (s : string) : string :=
  match s with
  | EmptyString => EmptyString
  | String c r => if Ascii.eqb c c_dquote then String c (String c (double_dquotes r)) else String c (double_dquotes r)
  end.
Definition quote_ident (n : string) : string := String c_dquote (double_dquotes n ++ String c_dquote "").
Fixpoint read_qident (fuel : nat) (s : string) (buf : string) : option (string * string) :=
  match fuel with
  | 0 => None
  | S f =>
      match s with
      | EmptyString => None
      | String c r =>
          if Ascii.eqb c c_dquote then
            match r with
            | String c2 r2 => if Ascii.eqb c2 c_dquote then read_qident f r2 (buf ++ String c_dquote "") else Some (buf, r)
            | EmptyString => Some (buf, r)
            end
          else if Ascii.eqb c (ch 10) then None
          else read_qident f r (buf ++ String c "")
      end
  end.
Definition read_qident_text (s : string) : option (string * string) :=
  match s with
  | String c r => if Ascii.eqb c c_dquote then read_qident (S (String.length r)) r "" else None
  | EmptyString => None
  end.

Definition ascii_only (s : string) : bool := all_chars (fun c => nat_of_ascii c <? 128) s.
Definition has_char (x : ascii) (s : string) : bool := negb (all_chars (fun c => negb (Ascii.eqb c x)) s).

(* ------------------------------------------------------------------------------------------------ *)
(* the reference expression whose rendering the printer writes: `e::t` is written CAST(e AS t), an identifier is
   quoted exactly when safeIdentifier says so; a cast of a cast is written in the postfix form inner::t *)
Definition is_cast_m (e : mexpr) : bool := match e with MCastOp _ _ | MCast _ _ => true | _ => false end.
Fixpoint norm (pf : pflags) (e : mexpr) : mexpr :=
  match e with
  | MIdent _ n => MIdent (needs_quote pf n) n
  | MQIdent t n => MQIdent t n
  | MNum s => MNum s | MStr s => MStr s | MPlaceholder s => MPlaceholder s | MNull => MNull | MBool b => MBool b
  | MBin op a b => MBin op (norm pf a) (norm pf b)
  | MNot a => MNot (norm pf a)
  | MIsNull a neg => MIsNull (norm pf a) neg
  | MIn a neg items => MIn (norm pf a) neg (map (norm pf) items)
  | MBetween a neg lo hi => MBetween (norm pf a) neg (norm pf lo) (norm pf hi)
  | MLike a neg ci p => MLike (norm pf a) neg ci (norm pf p)
  | MCastOp a t => if is_cast_m a then MCastOp (norm pf a) t else MCast (norm pf a) t
  | MFunc n d args => MFunc n d (map (norm pf) args)
  | MCase s whens els =>
      MCase (option_map (norm pf) s) (map (fun cv => (norm pf (fst cv), norm pf (snd cv))) whens) (option_map (norm pf) els)
  | MCast a t => if is_cast_m a then MCastOp (norm pf a) t else MCast (norm pf a) t
  | MTuple es => MTuple (map (norm pf) es)
  end.

(* side conditions of the printer theorem: a bare name is not the lone asterisk and has no dot (written raw it would be
   read as several tokens); the parts of a qualified name need no quotes (the reference renderer has no quoted
   form for them); type names are words *)
Definition plain_word (pf : pflags) (n : string) : bool :=
  negb (needs_quote pf n) && negb (has_char "."%char n) && negb (has_char "*"%char n).
Fixpoint printable (pf : pflags) (e : mexpr) : bool :=
  match e with
  | MIdent _ n => needs_quote pf n || plain_word pf n
  | MQIdent t n => plain_word pf t && plain_word pf n
  | MNum _ | MStr _ | MPlaceholder _ | MNull | MBool _ => true
  | MBin _ a b => printable pf a && printable pf b
  | MNot a => printable pf a
  | MIsNull a _ => printable pf a
  | MIn a _ items => printable pf a && forallb (printable pf) items
  | MBetween a _ lo hi => printable pf a && printable pf lo && printable pf hi
  | MLike a _ _ p => printable pf a && printable pf p
  | MCastOp a t | MCast a t =>
      printable pf a && all_chars type_char (tname t)
      && forallb (fun x => all_chars type_char x && negb (String.eqb x "")) (targs t)
  | MFunc _ _ args => forallb (printable pf) args
  | MCase s whens els =>
      match s with Some a => printable pf a | None => true end
      && forallb (fun cv => printable pf (fst cv) && printable pf (snd cv)) whens
      && match els with Some a => printable pf a | None => true end
  | MTuple es => forallb (printable pf) es
  end.

(* ------------------------------------------------------------------------------------------------ *)
(* correspondence cases: a real tree as typed mirror [g] (emitted by the orchestrator from the harness dump), the
   dump itself [tree] (so that the emission is checked: reflect_expr g must be the dump), and the converted tokens
   of Go's SQL() text.  Result codes: 0 agree, 1 printer disagrees, 2 not modelled, 3 the typed mirror is not the dump. *)
Definition print_case (pf : pflags) (c : gexpr * sx * list token) : N :=
  match c with
  | (g, tree, toks) =>
      if negb (sx_eqb (reflect_expr g) tree) then 3%N
      else match print_expr pf g with
           | None => 2%N
           | Some ts => if tok_eqb ts toks then 0%N else 1%N
           end
  end.

(* byte strings are emitted as code lists *)
Definition str_of (l : list nat) : string := fold_right (fun n s => String (ascii_of_nat n) s) EmptyString l.

(* codec cases: content, the text Go wrote, what the real tokenizer read back (None = rejected) *)
Definition lit_case (cf : cflags) (c : list nat * list nat * option (list nat)) : bool :=
  match c with
  | (s, text, back) =>
      String.eqb (lit_text cf (str_of s)) (str_of text)
      && match read_lit_text (str_of text), back with
         | Some (v, EmptyString), Some b => String.eqb v (str_of b)
         | None, None => true
         | _, _ => false
         end
  end.
(* identifier cases: name, the text Go wrote, what the tokenizer read back when it is one quoted-identifier token *)
Definition ident_case (pf : pflags) (c : list nat * list nat) : bool :=
  match c with
  | (n, text) =>
      let name := str_of n in
      if needs_quote pf name then String.eqb (quote_ident name) (str_of text) else String.eqb name (str_of text)
  end.
