(* Cursor.v — the parser's token cursor (pkg/sql/parser/parser.go: tokens, currentPos, currentToken, advance).
   Token sequences are arbitrary: they may be empty, lack the trailing EOF, or carry EOF in the middle (C01
   quantifies over sequences no tokenizer run produces).  A token is represented by its type number; 0 is the
   end-of-input type used below only through [eof]. *)
From Coq Require Import List Arith Bool Lia.
Import ListNotations.
Local Open Scope nat_scope.

Section C.
  Variable eof : nat.                               (* models.TokenTypeEOF *)

  Record cursor := mk_cursor { c_toks : list nat; c_pos : nat; c_cur : nat }.

  (* Parser.advance: move on; inside the slice the token at the new position becomes current; just after the last
     token the previous token stays current (existing behaviour the pinned tests rely on); further on the cursor
     reads as end of input *)
  Definition advance (c : cursor) : cursor :=
    let p := S (c_pos c) in
    match nth_error (c_toks c) p with
    | Some t => mk_cursor (c_toks c) p t
    | None => if length (c_toks c) <? p then mk_cursor (c_toks c) p eof else mk_cursor (c_toks c) p (c_cur c)
    end.

  (* the entry points position the cursor on the first token, if any *)
  Definition start (toks : list nat) (stale : nat) : cursor :=
    mk_cursor toks 0 (match toks with t :: _ => t | [] => stale end).

  Fixpoint advance_n (n : nat) (c : cursor) : cursor :=
    match n with O => c | S k => advance_n k (advance c) end.

  (* a loop keyed on the current token: while [continue] holds of the current token, advance (the loop body of an
     operator chain or a list consumes at least the operator); returns the number of iterations or None when the
     fuel runs out *)
  Fixpoint keyed_loop (continue : nat -> bool) (fuel : nat) (c : cursor) : option nat :=
    match fuel with
    | O => None
    | S f => if continue (c_cur c) then option_map S (keyed_loop continue f (advance c)) else Some 0
    end.

  (* the cursor of the pinned tree: past the end the last token stays current for ever *)
  Definition stale_advance (c : cursor) : cursor :=
    let p := S (c_pos c) in
    match nth_error (c_toks c) p with
    | Some t => mk_cursor (c_toks c) p t
    | None => mk_cursor (c_toks c) p (c_cur c)
    end.
  Fixpoint stale_loop (continue : nat -> bool) (fuel : nat) (c : cursor) : option nat :=
    match fuel with
    | O => None
    | S f => if continue (c_cur c) then option_map S (stale_loop continue f (stale_advance c)) else Some 0
    end.
End C.

(* evaluation for the correspondence: positions and current token types after 0..n advances *)
Definition cursor_trace (eof : nat) (toks : list nat) (stale n : nat) : list (nat * nat) :=
  map (fun k => let c := advance_n eof k (start toks stale) in (c_pos c, c_cur c)) (seq 0 (S n)).
