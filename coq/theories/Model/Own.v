(* Own.v — ownership model of pooled AST nodes (C09, ownership clause).

   A heap of node objects (ids = allocation order).  Every object is, at any time, in the hands of one
   caller-held tree (Live t), in a node pool (Pooled), unreferenced (Garbage) or not allocated yet.
   The `own` component is ghost state: no operation of the library consults it.  It records who
   obtained an object (Alloc / Get) and is what the well-formedness of a history refers to
   ("a builder writes only objects it obtained itself").

   Operations of a history (any interleaving, any number of trees):
     Alloc t ty     tree builder t constructs a new object (&ast.X{} or a pool's New)
     Get t i        builder t obtains pooled object i (sync.Pool hands out ANY pooled object: the
                    history chooses; obtaining an object that is not pooled is ill-formed)
     Write t i n    builder t stores content n into its own object i (children among its own objects)
     Release t r    caller t gives its tree up through the release paths of pkg/sql/ast/pool.go,
                    starting at r: table driven (which types are pooled, which child slots the
                    release descends into, which slots survive the reset, the work-queue budget of
                    PutExpression).  The release neither de-duplicates nor consults ownership: an
                    object met twice is Put twice (the step reports it in its flag).
     Drop i / DropAll   the garbage collector empties pool slots
     Observe t r    the caller looks at its tree (no effect; present so that model and
                    implementation histories have the same shape)

   Parse = Alloc/Get/Write steps of one t; pool churn by unrelated users = Get/Write/Release of
   small trees.  Definitions only; proofs are in Proofs/OwnP.v. *)
From Coq Require Import List NArith Bool Arith.
Import ListNotations.

Definition id := N.
Record node := mkNode { nty : N; nval : N; nkids : list (N * id) }.   (* kids: (slot id, child) in field order *)
Inductive owner := Unalloc | Live (t : nat) | Pooled | Garbage.
Record state := mkState { cont : id -> node; own : id -> owner; nxt : id; pool : list id }.

Definition upd {A} (f : id -> A) (i : id) (a : A) : id -> A := fun j => if N.eqb j i then a else f j.
Definition memb (i : id) (l : list id) : bool := existsb (N.eqb i) l.
Fixpoint remove1 (i : id) (l : list id) : list id :=
  match l with
  | [] => []
  | x :: r => if N.eqb i x then r else x :: remove1 i r
  end.
Definition owner_is (t : nat) (o : owner) : bool := match o with Live t' => Nat.eqb t' t | _ => false end.
Definition retire (t : nat) (o : id -> owner) : id -> owner :=
  fun j => match o j with Live t' => if Nat.eqb t' t then Garbage else Live t' | x => x end.
Definition drop_all (o : id -> owner) : id -> owner :=
  fun j => match o j with Pooled => Garbage | x => x end.

Inductive op :=
| Alloc (t : nat) (ty : N)
| Get (t : nat) (i : id)
| Write (t : nat) (i : id) (n : node)
| Release (t : nat) (r : id)
| Drop (i : id)
| DropAll
| Observe (t : nat) (r : id).

Definition actor (o : op) : option nat :=
  match o with
  | Alloc t _ | Get t _ | Write t _ _ | Release t _ => Some t
  | _ => None
  end.

Definition init : state := mkState (fun _ => mkNode 0 0 []) (fun _ => Unalloc) 0%N [].

Section Own.
  Variable pooled_ty : N -> bool.            (* the release path Puts objects of this type *)
  Variable container : N -> bool.            (* AST / statements: children are released by separate calls *)
  Variable descend : N -> N -> bool.         (* type, slot: the release goes on into the children stored there *)
  Variable keeps : N -> N -> bool.           (* type, slot: NOT reset when the object is Put (a cleanliness defect) *)
  Variable budget : nat.                     (* MaxWorkQueueSize: objects one PutExpression call processes *)
  Variable depth : nat.                      (* nesting of containers followed (AST > statement > expression) *)

  Definition dkids (n : node) : list id :=
    map snd (filter (fun fk => descend (nty n) (fst fk)) (nkids n)).
  Definition reset (n : node) : node :=
    mkNode (nty n) 0 (filter (fun fk => keeps (nty n) (fst fk)) (nkids n)).

  (* Put of one object: reset, push on the pool.  Flag: the object was not in the pool already. *)
  Definition put_node (s : state) (i : id) : state :=
    mkState (upd (cont s) i (reset (cont s i))) (upd (own s) i Pooled) (nxt s) (i :: pool s).
  Definition put_ok (s : state) (i : id) : bool := negb (memb i (pool s)).

  (* PutExpression: LIFO work queue, at most `budget` objects processed, the rest is dropped *)
  Fixpoint walk (b : nat) (s : state) (wl : list id) (ok : bool) : state * bool :=
    match b, wl with
    | S b', i :: rest =>
        let n := cont s i in
        if pooled_ty (nty n) then
          walk b' (put_node s i) (rev (dkids n) ++ rest) (ok && put_ok s i)
        else walk b' s (rev (dkids n) ++ rest) ok     (* not pooled: left alone; the release may still pass through it *)
    | _, _ => (s, ok)
    end.

  (* ReleaseAST / Put<X>Statement: children first (each by its own call), then the container itself *)
  Fixpoint rel (fuel : nat) (s : state) (i : id) (ok : bool) : state * bool :=
    match fuel with
    | O => (s, ok)
    | S f =>
        let n := cont s i in
        if container (nty n) then
          let r1 := fold_left (fun acc c => rel f (fst acc) c (snd acc)) (dkids n) (s, ok) in
          if pooled_ty (nty n) then (put_node (fst r1) i, snd r1 && put_ok (fst r1) i)
          else r1                                      (* not pooled: left alone; the release may still pass through it *)
        else walk budget s [i] ok
    end.

  Definition step (s : state) (o : op) : state :=
    match o with
    | Alloc t ty =>
        mkState (upd (cont s) (nxt s) (mkNode ty 0 [])) (upd (own s) (nxt s) (Live t)) (N.succ (nxt s)) (pool s)
    | Get t i =>
        if memb i (pool s) then mkState (cont s) (upd (own s) i (Live t)) (nxt s) (remove1 i (pool s)) else s
    | Write t i n => mkState (upd (cont s) i n) (own s) (nxt s) (pool s)
    | Release t r =>
        let s1 := fst (rel depth s r true) in
        mkState (cont s1) (retire t (own s1)) (nxt s1) (pool s1)
    | Drop i =>
        if memb i (pool s) then mkState (cont s) (upd (own s) i Garbage) (nxt s) (remove1 i (pool s)) else s
    | DropAll => mkState (cont s) (drop_all (own s)) (nxt s) []
    | Observe _ _ => s
    end.

  (* well-formed operation in a state (decidable) *)
  Definition wf_opb (s : state) (o : op) : bool :=
    match o with
    | Alloc _ _ => true
    | Get _ i => memb i (pool s)
    | Write t i n =>
        owner_is t (own s i) && N.eqb (nty n) (nty (cont s i))
        && forallb (fun fk => owner_is t (own s (snd fk))) (nkids n)
    | Release t r => owner_is t (own s r) && snd (rel depth s r true)
    | Drop i => memb i (pool s)
    | DropAll => true
    | Observe _ _ => true
    end.

  Fixpoint run (s : state) (h : list op) : state :=
    match h with
    | [] => s
    | o :: r => run (step s o) r
    end.

  Fixpoint wf_histb (s : state) (h : list op) : bool :=
    match h with
    | [] => true
    | o :: r => wf_opb s o && wf_histb (step s o) r
    end.

  (* index of the first ill-formed operation, for reports *)
  Fixpoint first_bad (k : nat) (s : state) (h : list op) : option nat :=
    match h with
    | [] => None
    | o :: r => if wf_opb s o then first_bad (S k) (step s o) r else Some k
    end.
End Own.

(* what a caller can see of a tree: types, scalar content and shape, unfolded from the root *)
Inductive vtree := VNode (ty val : N) (kids : list (N * vtree)) | VCut.
Fixpoint view (fuel : nat) (c : id -> node) (i : id) : vtree :=
  match fuel with
  | O => VCut
  | S f => let n := c i in VNode (nty n) (nval n) (map (fun fk => (fst fk, view f c (snd fk))) (nkids n))
  end.

Inductive reach (c : id -> node) : id -> id -> Prop :=
| reach_refl i : reach c i i
| reach_step i f k j : In (f, k) (nkids (c i)) -> reach c k j -> reach c i j.

(* executable reachability (work list with fuel), for the correspondence *)
Fixpoint reach_list (fuel : nat) (c : id -> node) (wl acc : list id) : list id :=
  match fuel, wl with
  | S f, i :: rest =>
      if memb i acc then reach_list f c rest acc
      else reach_list f c (map snd (nkids (c i)) ++ rest) (i :: acc)
  | _, _ => acc
  end.

Definition subsetb (a b : list id) : bool := forallb (fun i => memb i b) a.
Definition seteqb (a b : list id) : bool := subsetb a b && subsetb b a.
Fixpoint nodupb (l : list id) : bool :=
  match l with [] => true | x :: r => negb (memb x r) && nodupb r end.

(* ------------------------------------------------------------------------------------------------
   Slices and byte buffers handed to callers: a result is a set of memory cells; later library
   activity is a sequence of writes.  (Generic part of the aliasing clause.) *)
Definition mem := N -> N.
Definition wr (m : mem) (w : N * N) : mem := fun a => if N.eqb a (fst w) then snd w else m a.
Definition wr_all (m : mem) (ws : list (N * N)) : mem := fold_left wr ws m.
Definition read (m : mem) (cells : list N) : list N := map m cells.
Definition disjointb (cells : list N) (ws : list (N * N)) : bool :=
  forallb (fun w => negb (memb (fst w) cells)) ws.

(* alias table rows: (result kind, library buffer kind, observed to alias) *)
Definition alias_free (rows : list (N * N * bool)) : bool := forallb (fun r => negb (snd r)) rows.

(* tables as lists (Gen/OwnTable.v) *)
Definition nmem (x : N) (l : list N) : bool := existsb (N.eqb x) l.
Definition pmem (x : N * N) (l : list (N * N)) : bool :=
  existsb (fun y => N.eqb (fst x) (fst y) && N.eqb (snd x) (snd y)) l.
Definition tbl1 (l : list N) : N -> bool := fun ty => nmem ty l.
Definition tbl2 (l : list (N * N)) : N -> N -> bool := fun ty f => pmem (ty, f) l.
(* no slot in which the parser stores a shared object is one the release goes on into *)
Definition shared_not_descended (shared descend : list (N * N)) : bool :=
  forallb (fun e => negb (pmem e descend)) shared.
(* of the slots that hold one shared object, a release goes on into at most one *)
Definition shared_reached_once (groups : list (list (N * N))) (descend : list (N * N)) : bool :=
  forallb (fun g => Nat.leb (length (filter (fun e => pmem e descend) g)) 1) groups.
(* nesting depth of containers followed by a release (AST > statement > expression, with room) *)
Definition own_depth : nat := 8.

(* model-side check of one implementation history (correspondence): the history is well formed for the
   model, the pools hold exactly (at least, when the implementation history lost pooled objects through
   failed parses) the objects observed in the real pools, without duplicates, and every held tree reaches
   exactly the objects the implementation reaches, all owned by that tree *)
Section Check.
  Variable pooled_ty : N -> bool.
  Variable container : N -> bool.
  Variable descend : N -> N -> bool.
  Variable keeps : N -> N -> bool.
  Variable budget : nat.
  Definition own_case := (list op * list id * bool * list (nat * id * list id))%type.
  Definition check_case (c : own_case) : bool :=
    let '(h, exp_pool, lossy, held) := c in
    let s := run pooled_ty container descend keeps budget own_depth init h in
    wf_histb pooled_ty container descend keeps budget own_depth init h
    && nodupb (pool s)
    && subsetb exp_pool (pool s) && (lossy || subsetb (pool s) exp_pool)
    && forallb (fun tr => let '(t, r, ids) := tr in
                  seteqb (reach_list (S (S (length ids + length ids))) (cont s) [r] []) ids
                  && forallb (fun i => owner_is t (own s i)) ids) held.
  Fixpoint bad_cases (k : N) (cs : list own_case) : list N :=
    match cs with
    | [] => []
    | c :: r => if check_case c then bad_cases (N.succ k) r else k :: bad_cases (N.succ k) r
    end.
  Definition first_bad_op (c : own_case) : option nat :=
    let '(h, _, _, _) := c in first_bad pooled_ty container descend keeps budget own_depth 0 init h.
End Check.
