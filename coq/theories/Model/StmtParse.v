(* StmtParse.v — Gallina model of the statement parser: parseStatement (parser.go), parseSelectStatement /
   parseFromTableReference / parseSelectWithSetOperations (select.go), parseWithStatement / parseCommonTableExpr /
   parseMainStatementAfterWith (cte.go), parseInsertStatement / parseUpdateStatement / parseDeleteStatement /
   parseReturningColumns (dml.go), parseQualifiedName / canBeAlias / isNonReservedKeyword (parser.go),
   parseNullsClause (window.go), parseGroupingSets (grouping.go), parseForClause (select.go), parseMergeStatement /
   parseMergeWhenClause / parseMergeAction (dml.go) — function by function over the converted token list, with the cursor and the depth
   counter as in Model/ExprParse.v.  Expressions are read by [pe] (= parse_expression of Model/ExprParse.v).

   Branches that are not modelled return [Unmodelled] (the correspondence counts them): derived tables and LATERAL
   sub-queries, MySQL WITH ROLLUP, ON DUPLICATE KEY, CTE bodies that are not SELECT, statements other than
   WITH / SELECT / INSERT / UPDATE / DELETE / MERGE, the MySQL dialect.

   Defect switch (DEVGUIDE section 4): [d_no_alias_after_column] = the listed known finding
   `implicit-alias-bare-column` (an alias without AS after a bare column reference is not taken; the pinned tests
   encode it, so the tree has the switch on).
   Definitions only. *)
From Coq Require Import List String Ascii Bool Arith NArith ZArith.
From GV Require Import Spec.RefGrammar Spec.RefStmt Model.Expr Model.ExprParse.
Import ListNotations.
Local Open Scope string_scope.
Local Open Scope list_scope.
Local Open Scope nat_scope.
Local Notation length := List.length.

Record sflags := SFlags { d_no_alias_after_column : bool }.
Definition tree_flags := SFlags true.          (* the tree as it is *)
Definition repaired_flags := SFlags false.

Definition sres (A : Type) := outcome (A * list token).

(* isNonReservedKeyword *)
Definition nonreserved_words : list string := ["TARGET"; "SOURCE"; "MATCHED"; "VALUE"; "NAME"; "TYPE"; "STATUS"].
Definition is_nonreserved (t : token) : bool :=
  isT t TyTarget || isT t TySource || isT t TyMatched
  || (isT t TyKeyword && existsb (String.eqb (upper (lit t))) nonreserved_words).
Definition can_be_alias (t : token) : bool := is_identifier t || is_nonreserved t.
Definition is_join_keyword (t : token) : bool :=
  isT t TyJoin || isT t TyInner || isT t TyLeft || isT t TyRight || isT t TyFull || isT t TyCross || isT t TyNatural.
Definition is_setop (t : token) : bool := isT t TyUnion || isT t TyExcept || isT t TyIntersect.
(* what may follow the select list of a SELECT without FROM besides end / set operator (since /repo 1ab0f0f) *)
Definition is_clause_start (t : token) : bool :=
  isT t TyWhere || isT t TyGroup || isT t TyHaving || isT t TyOrder || isT t TyLimit || isT t TyOffset
  || isT t TyFetch || isT t TyFor || isT t TyOn || isT t TyReturning.
Definition is_gident (e : gexpr) : bool := match e with GIdent _ _ => true | _ => false end.

(* fmt.Sscanf(lit, "%d", &v): optional sign, then the longest digit prefix (0 if there is none) *)
Definition sscanf_d (s : string) : Z :=
  match s with
  | String c r => if Ascii.eqb c "-"%char then Z.opp (dec_value r) else if Ascii.eqb c "+"%char then dec_value r else dec_value s
  | EmptyString => 0%Z
  end.

(* parseQualifiedName: name { . name } *)
Fixpoint qname_tail (n : nat) (name : string) (ts : list token) : outcome (string * list token) :=
  match n with
  | 0 => OutOfFuel
  | S n' =>
      if isT (cur ts) TyPeriod then
        let ts := advance ts in
        if negb (is_identifier (cur ts)) && negb (is_nonreserved (cur ts)) then Err EExpected
        else qname_tail n' ((name ++ ".") ++ lit (cur ts))%string (advance ts)
      else Val (name, ts)
  end.
Definition parse_qualified_name (ts : list token) : outcome (string * list token) :=
  if negb (is_identifier (cur ts)) && negb (is_nonreserved (cur ts)) then Err EExpected
  else qname_tail (S (length ts)) (lit (cur ts)) (advance ts).

(* `if isIdentifier || AS { if AS { advance; must be identifier }; if isIdentifier { alias; advance } }` *)
Definition parse_table_alias (ts : list token) : outcome (string * list token) :=
  if is_identifier (cur ts) || isT (cur ts) TyAs then
    do ts1 <- (if isT (cur ts) TyAs then
                 let ts' := advance ts in if negb (is_identifier (cur ts')) then Err EExpected else Val ts'
               else Val ts);
    if is_identifier (cur ts1) then Val (lit (cur ts1), advance ts1) else Val (""%string, ts1)
  else Val (""%string, ts).

(* comma-separated identifier lists: `for { must be identifier; append; advance; if comma { advance; continue }; break }` *)
Fixpoint ident_list (n : nat) (acc : list string) (ts : list token) : outcome (list string * list token) :=
  match n with
  | 0 => OutOfFuel
  | S n' =>
      if negb (is_identifier (cur ts)) then Err EExpected
      else
        let acc := acc ++ [lit (cur ts)] in
        let ts := advance ts in
        if isT (cur ts) TyComma then ident_list n' acc (advance ts) else Val (acc, ts)
  end.
(* ( ident, ... ) *)
Definition paren_ident_list (ts : list token) : outcome (list string * list token) :=
  let ts := advance ts in
  do (l, ts) <- ident_list (S (length ts)) [] ts;
  if negb (isT (cur ts) TyRParen) then Err EExpected else Val (l, advance ts).

(* parseNullsClause: [parse_nulls] of Model/ExprParse.v (the window specification uses it too) *)

Definition set_with_select (w : gwith) (s : gselect) : gselect :=
  match s with GSelect _ d don cols from tn joins wh gb hv ob lim off fe fo => GSelect (Some w) d don cols from tn joins wh gb hv ob lim off fe fo end.
(* attach WITH to the left-most SELECT of a set-operation chain *)
Fixpoint set_with_leftmost (w : gwith) (s : gstmt) : gstmt :=
  match s with
  | GSelectS q => GSelectS (set_with_select w q)
  | GSetOp l op r all => GSetOp (set_with_leftmost w l) op r all
  | x => x
  end.
Definition set_with (w : gwith) (s : gstmt) : gstmt :=
  match s with
  | GSelectS _ | GSetOp _ _ _ _ => set_with_leftmost w s
  | GInsert _ t cols vals q ret oc od => GInsert (Some w) t cols vals q ret oc od
  | GUpdate _ t al asg from wh ret => GUpdate (Some w) t al asg from wh ret
  | GDelete _ t al us wh ret => GDelete (Some w) t al us wh ret
  | GMerge _ _ _ _ _ _ => s            (* not reached: parseMainStatementAfterWith has no MERGE *)
  end.

Section Stmt.
  Variable md : nat.                                 (* MaxRecursionDepth *)
  Variable sf : sflags.
  Variable pe : nat -> list token -> res.            (* parseExpression at a given depth *)

  (* `for { e := parseExpression; append; if !comma break; advance }` *)
  Fixpoint expr_list (n : nat) (d : nat) (acc : list gexpr) (ts : list token) : outcome (list gexpr * list token) :=
    match n with
    | 0 => OutOfFuel
    | S n' =>
        do (e, ts1) <- pe d ts;
        if isT (cur ts1) TyComma then expr_list n' d (acc ++ [e]) (advance ts1) else Val (acc ++ [e], ts1)
    end.

  (* parseFromTableReference *)
  Definition parse_from_table_ref (ts : list token) : sres gtable :=
    let lateral := isT (cur ts) TyLateral in
    let ts := if lateral then advance ts else ts in
    if isT (cur ts) TyLParen then
      let ts := advance ts in
      if negb (isT (cur ts) TySelect) && negb (isT (cur ts) TyWith) then Err EExpected else Unmodelled
    else
      do (name, ts) <- parse_qualified_name ts;
      do (al, ts) <- parse_table_alias ts;
      Val (GTable name al None lateral, ts).

  (* the join kind in front of JOIN: [NATURAL] [LEFT|RIGHT|FULL [OUTER] | INNER | CROSS]; returns
     (natural, type word, cursor at the token that must be JOIN) *)
  Definition parse_join_kind (ts : list token) : bool * string * list token :=
    let natural := isT (cur ts) TyNatural in
    let ts := if natural then advance ts else ts in
    let skip_outer (ts : list token) := if isT (cur ts) TyOuter then advance ts else ts in
    let '(jt, ts) :=
      if isT (cur ts) TyLeft then ("LEFT", skip_outer (advance ts))
      else if isT (cur ts) TyRight then ("RIGHT", skip_outer (advance ts))
      else if isT (cur ts) TyFull then ("FULL", skip_outer (advance ts))
      else if isT (cur ts) TyInner then ("INNER", advance ts)
      else if isT (cur ts) TyCross then ("CROSS", advance ts)
      else ("INNER", ts) in
    (natural, jt, ts).

  (* ON expr | USING ( columns ) | nothing for CROSS / NATURAL joins *)
  Definition parse_join_cond (d : nat) (natural : bool) (jtype : string) (ts : list token) : outcome (option gexpr * list token) :=
    if negb (String.eqb jtype "CROSS") && negb natural then
      if isT (cur ts) TyOn then
        do (c, ts1) <- rewrap EInvalid (pe d (advance ts)); Val (Some c, ts1)
      else if isT (cur ts) TyUsing then
        let ts := advance ts in
        if negb (isT (cur ts) TyLParen) then Err EExpected
        else
          do (cols, ts1) <- paren_ident_list ts;
          Val (Some (match cols with [c] => GIdent c "" | _ => GList (map (fun c => GIdent c "") cols) end), ts1)
      else Err EExpected
    else Val (None, ts).

  (* one JOIN clause of the loop in parseSelectStatement; [base] = the FROM item the first join is attached to,
     [k] = number of joins read so far *)
  Definition parse_join (d : nat) (base : gtable) (k : nat) (ts : list token) : sres gjoin :=
    let '(natural, jt, ts) := parse_join_kind ts in
    let jtype := if natural then ("NATURAL " ++ jt)%string else jt in
    if negb (isT (cur ts) TyJoin) then Err EExpected
    else
      let ts := advance ts in
      let lateral := isT (cur ts) TyLateral in
      let ts := if lateral then advance ts else ts in
      if isT (cur ts) TyLParen then
        let ts := advance ts in
        if negb (isT (cur ts) TySelect) && negb (isT (cur ts) TyWith) then Err EExpected else Unmodelled
      else
        do (name, ts) <- rewrap EExpected (parse_qualified_name ts);
        do (al, ts) <- parse_table_alias ts;
        let right := GTable name al None lateral in
        do (cond, ts) <- parse_join_cond d natural jtype ts;
        Val (GJoin jtype (join_left base k) right cond, ts).

  Fixpoint joins_loop (n : nat) (d : nat) (base : gtable) (k : nat) (acc : list gjoin) (ts : list token)
    : outcome (list gjoin * list token) :=
    match n with
    | 0 => OutOfFuel
    | S n' =>
        if is_join_keyword (cur ts) then
          do (j, ts1) <- parse_join d base k ts;
          joins_loop n' d base (S k) (acc ++ [j]) ts1
        else Val (acc, ts)
    end.

  (* FROM list: first reference, then `for comma { advance; ref; tables = append; tableRef = ref }` *)
  Fixpoint from_tail (n : nat) (acc : list gtable) (ts : list token) : outcome (list gtable * list token) :=
    match n with
    | 0 => OutOfFuel
    | S n' =>
        if isT (cur ts) TyComma then
          do (t, ts1) <- parse_from_table_ref (advance ts);
          from_tail n' (acc ++ [t]) ts1
        else Val (acc, ts)
    end.

  (* select list *)
  Definition parse_select_item (d : nat) (ts : list token) : sres gexpr :=
    if isT (cur ts) TyAsterisk then Val (GIdent "*" "", advance ts)
    else
      do (e, ts1) <- pe d ts;
      if isT (cur ts1) TyAs then
        let ts2 := advance ts1 in
        if negb (is_identifier (cur ts2)) then Err EExpected else Val (GAliased e (lit (cur ts2)), advance ts2)
      else if can_be_alias (cur ts1) then
        if d_no_alias_after_column sf && is_gident e then Val (e, ts1)
        else Val (GAliased e (lit (cur ts1)), advance ts1)
      else Val (e, ts1).
  Fixpoint select_items (n : nat) (d : nat) (acc : list gexpr) (ts : list token) : outcome (list gexpr * list token) :=
    match n with
    | 0 => OutOfFuel
    | S n' =>
        do (it, ts1) <- parse_select_item d ts;
        if isT (cur ts1) TyComma then select_items n' d (acc ++ [it]) (advance ts1) else Val (acc ++ [it], ts1)
    end.

  (* parseGroupingExpressionList (ROLLUP / CUBE): ( expr {, expr} ), at least one expression *)
  Fixpoint grouping_exprs (n : nat) (d : nat) (acc : list gexpr) (ts : list token) : outcome (list gexpr * list token) :=
    match n with
    | 0 => OutOfFuel
    | S n' =>
        do (e, ts1) <- pe d ts;
        if isT (cur ts1) TyRParen then Val (acc ++ [e], ts1)
        else if negb (isT (cur ts1) TyComma) then Err EExpected
        else grouping_exprs n' d (acc ++ [e]) (advance ts1)
    end.
  Definition parse_grouping_list (d : nat) (ts : list token) : outcome (list gexpr * list token) :=
    if negb (isT (cur ts) TyLParen) then Err EExpected
    else
      let ts := advance ts in
      if isT (cur ts) TyRParen then Err EInvalid
      else do (l, ts1) <- grouping_exprs (S (length ts)) d [] ts; Val (l, advance ts1).

  (* parseGroupingSets: one set is ( [expr {, expr}] ) or a single expression without parentheses *)
  Definition parse_gs_set (d : nat) (ts : list token) : outcome (list gexpr * list token) :=
    if isT (cur ts) TyLParen then
      let ts := advance ts in
      if isT (cur ts) TyRParen then Val ([], advance ts)
      else do (l, ts1) <- grouping_exprs (S (length ts)) d [] ts; Val (l, advance ts1)
    else do (e, ts1) <- pe d ts; Val ([e], ts1).
  Fixpoint gs_sets (n : nat) (d : nat) (acc : list (list gexpr)) (ts : list token) : outcome (list (list gexpr) * list token) :=
    match n with
    | 0 => OutOfFuel
    | S n' =>
        do (st, ts1) <- parse_gs_set d ts;
        if isT (cur ts1) TyRParen then Val (acc ++ [st], ts1)
        else if negb (isT (cur ts1) TyComma) then Err EExpected
        else gs_sets n' d (acc ++ [st]) (advance ts1)
    end.
  (* the cursor is at the compound keyword token GROUPING SETS, or at GROUPING followed by SETS *)
  Definition parse_grouping_sets (d : nat) (ts : list token) : sres gexpr :=
    do ts <- (if String.eqb (lit (cur ts)) "GROUPING SETS" then Val (advance ts)
              else if isT (cur ts) TyGrouping then
                let ts := advance ts in
                if negb (String.eqb (lit (cur ts)) "SETS") && negb (isT (cur ts) TySets) then Err EExpected else Val (advance ts)
              else Val ts);
    if negb (isT (cur ts) TyLParen) then Err EExpected
    else
      let ts := advance ts in
      do (sets, ts1) <- gs_sets (S (length ts)) d [] ts;
      Val (GGroupingSets sets, advance ts1).

  (* GROUP BY list *)
  Fixpoint group_list (n : nat) (d : nat) (acc : list gexpr) (ts : list token) : outcome (list gexpr * list token) :=
    match n with
    | 0 => OutOfFuel
    | S n' =>
        do (e, ts1) <-
          (if isT (cur ts) TyRollup then do (l, ts1) <- parse_grouping_list d (advance ts); Val (GRollup l, ts1)
           else if isT (cur ts) TyCube then do (l, ts1) <- parse_grouping_list d (advance ts); Val (GCube l, ts1)
           else if ((isT (cur ts) TyKeyword || isT (cur ts) TyGroupingSets) && String.eqb (lit (cur ts)) "GROUPING SETS")
                   || (isT (cur ts) TyGrouping && eqfold (lit (peek ts)) "SETS") then parse_grouping_sets d ts
           else pe d ts);
        if isT (cur ts1) TyComma then group_list n' d (acc ++ [e]) (advance ts1) else Val (acc ++ [e], ts1)
    end.

  (* ORDER BY list *)
  Fixpoint order_list (n : nat) (d : nat) (acc : list gorder) (ts : list token) : outcome (list gorder * list token) :=
    match n with
    | 0 => OutOfFuel
    | S n' =>
        do (e, ts1) <- pe d ts;
        let '(asc, ts2) := if isT (cur ts1) TyAsc then (true, advance ts1)
                           else if isT (cur ts1) TyDesc then (false, advance ts1) else (true, ts1) in
        do (nf, ts3) <- parse_nulls ts2;
        let acc := acc ++ [GOrder e asc nf] in
        if isT (cur ts3) TyComma then order_list n' d acc (advance ts3) else Val (acc, ts3)
    end.

  (* parseSelectStatement, clause by clause (the Go function is one body; the pieces are named for the proofs) *)
  Definition ps_distinct (d : nat) (ts : list token) : outcome ((bool * list gexpr) * list token) :=
    if isT (cur ts) TyDistinct then
      let ts := advance ts in
      if isT (cur ts) TyOn then
        let ts := advance ts in
        if negb (isT (cur ts) TyLParen) then Err EExpected
        else
          let ts := advance ts in
          do (l, ts1) <- expr_list (S (length ts)) d [] ts;
          if negb (isT (cur ts1) TyRParen) then Err EExpected else Val ((true, l), advance ts1)
      else Val ((true, []), ts)
    else if isT (cur ts) TyAll then Val ((false, []), advance ts)
    else Val ((false, []), ts).

  Definition ps_from (d : nat) (ts : list token) : outcome ((string * list gtable * list gjoin) * list token) :=
    if isT (cur ts) TyFrom then
      let ts := advance ts in
      if isT (cur ts) TyEOF || isT (cur ts) TySemicolon then Err EExpected
      else
        do (t0, ts1) <- parse_from_table_ref ts;
        do (tables, ts2) <- from_tail (S (length ts1)) [t0] ts1;
        do (joins, ts3) <- joins_loop (S (length ts2)) d (last tables t0) 0 [] ts2;
        Val ((match t0 with GTable n _ _ _ => n end, tables, joins), ts3)
    else Val ((""%string, [], []), ts).

  Definition ps_where (d : nat) (ts : list token) : outcome (option gexpr * list token) :=
    if isT (cur ts) TyWhere then
      let ts := advance ts in
      if isT (cur ts) TyEOF || isT (cur ts) TySemicolon || isT (cur ts) TyGroup || isT (cur ts) TyOrder
         || isT (cur ts) TyLimit || isT (cur ts) TyHaving || is_setop (cur ts) || isT (cur ts) TyRParen
         || isT (cur ts) TyFetch || isT (cur ts) TyFor then Err EExpected
      else do (e, ts1) <- pe d ts; Val (Some e, ts1)
    else Val (None, ts).

  Definition ps_group (d : nat) (ts : list token) : outcome (list gexpr * list token) :=
    if isT (cur ts) TyGroup then
      let ts := advance ts in
      if negb (isT (cur ts) TyBy) then Err EExpected
      else
        let ts := advance ts in
        do (l, ts1) <- group_list (S (length ts)) d [] ts;
        if isT (cur ts1) TyWith && (String.eqb (upper (lit (peek ts1))) "ROLLUP" || String.eqb (upper (lit (peek ts1))) "CUBE")
        then Unmodelled else Val (l, ts1)
    else Val ([], ts).

  Definition ps_having (d : nat) (ts : list token) : outcome (option gexpr * list token) :=
    if isT (cur ts) TyHaving then do (e, ts1) <- pe d (advance ts); Val (Some e, ts1) else Val (None, ts).

  Definition ps_order (d : nat) (ts : list token) : outcome (list gorder * list token) :=
    if isT (cur ts) TyOrder then
      let ts := advance ts in
      if negb (isT (cur ts) TyBy) then Err EExpected
      else let ts := advance ts in order_list (S (length ts)) d [] ts
    else Val ([], ts).

  Definition ps_limit (ts : list token) : outcome (option Z * list token) :=
    if isT (cur ts) TyLimit then
      let ts := advance ts in
      if negb (is_numeric_literal (cur ts)) then Err EExpected
      else Val (Some (sscanf_d (lit (cur ts))), advance ts)
    else Val (None, ts).

  Definition ps_offset (ts : list token) : outcome (option Z * list token) :=
    if isT (cur ts) TyOffset then
      let ts := advance ts in
      if negb (is_numeric_literal (cur ts)) then Err EExpected
      else
        let v := sscanf_d (lit (cur ts)) in
        let ts := advance ts in
        Val (Some v, if isT (cur ts) TyRow || isT (cur ts) TyRows then advance ts else ts)
    else Val (None, ts).

  (* parseFetchClause *)
  Definition ps_fetch (ts : list token) : outcome (option gfetch * list token) :=
    if isT (cur ts) TyFetch then
      let ts := advance ts in
      do (ft, ts) <- (if isT (cur ts) TyFirst then Val ("FIRST", advance ts)
                      else if isT (cur ts) TyNext then Val ("NEXT", advance ts) else Err EExpected);
      if negb (is_numeric_literal (cur ts)) then Err EExpected
      else
        let v := sscanf_d (lit (cur ts)) in
        let ts := advance ts in
        let pct := isT (cur ts) TyPercent in
        let ts := if pct then advance ts else ts in
        let ts := if isT (cur ts) TyRow || isT (cur ts) TyRows then advance ts else ts in
        if isT (cur ts) TyOnly then Val (Some (GFetch ft (Some v) pct false), advance ts)
        else if isT (cur ts) TyWith then
          let ts := advance ts in
          if negb (isT (cur ts) TyTies) then Err EExpected else Val (Some (GFetch ft (Some v) pct true), advance ts)
        else Val (Some (GFetch ft (Some v) pct false), ts)
    else Val (None, ts).

  (* parseForClause: the words are compared by their text (isTokenMatch = strings.EqualFold) *)
  Definition ps_for (ts : list token) : outcome (option gfor * list token) :=
    if isT (cur ts) TyFor then
      let ts := advance ts in
      do (lk, ts) <-
        (if litfold (cur ts) "UPDATE" then Val ("UPDATE", advance ts)
         else if litfold (cur ts) "SHARE" then Val ("SHARE", advance ts)
         else if litfold (cur ts) "NO" then
           let ts := advance ts in
           if negb (litfold (cur ts) "KEY") then Err EExpected
           else
             let ts := advance ts in
             if negb (litfold (cur ts) "UPDATE") then Err EExpected else Val ("NO KEY UPDATE", advance ts)
         else if litfold (cur ts) "KEY" then
           let ts := advance ts in
           if negb (litfold (cur ts) "SHARE") then Err EExpected else Val ("KEY SHARE", advance ts)
         else Err EExpected);
      do (tables, ts) <- (if litfold (cur ts) "OF" then let ts := advance ts in ident_list (S (length ts)) [] ts else Val ([], ts));
      if litfold (cur ts) "NOWAIT" then Val (Some (GFor lk tables true false), advance ts)
      else if litfold (cur ts) "SKIP" then
        let ts := advance ts in
        if negb (litfold (cur ts) "LOCKED") then Err EExpected else Val (Some (GFor lk tables false true), advance ts)
      else Val (Some (GFor lk tables false false), ts)
    else Val (None, ts).

  (* parseSelectStatement: the SELECT keyword is already consumed *)
  Definition parse_select (d0 : nat) (ts : list token) : sres gselect :=
    if md <? S d0 then Err EDepth
    else
      let d := S d0 in
      do (dd, ts) <- ps_distinct d ts;
      if isT (cur ts) TyFrom then Err EExpected
      else
        do (cols, ts) <- select_items (S (length ts)) d [] ts;
        if negb (isT (cur ts) TyFrom) && negb (isT (cur ts) TyEOF) && negb (isT (cur ts) TySemicolon)
           && negb (isT (cur ts) TyRParen) && negb (is_setop (cur ts)) && negb (is_clause_start (cur ts)) then Err EExpected
        else
          do (fj, ts) <- ps_from d ts;
          do (wh, ts) <- ps_where d ts;
          do (gb, ts) <- ps_group d ts;
          do (hv, ts) <- ps_having d ts;
          do (ob, ts) <- ps_order d ts;
          do (lim, ts) <- ps_limit ts;
          do (off, ts) <- ps_offset ts;
          do (fe, ts) <- ps_fetch ts;
          do (fo, ts) <- ps_for ts;
          Val (GSelect None (fst dd) (snd dd) cols (snd (fst fj)) (fst (fst fj)) (snd fj) wh gb hv ob lim off fe fo, ts).

  (* parseSelectWithSetOperations: the first SELECT keyword is already consumed *)
  Fixpoint setops_loop (n : nat) (d : nat) (left : gstmt) (ts : list token) : sres gstmt :=
    match n with
    | 0 => OutOfFuel
    | S n' =>
        if is_setop (cur ts) then
          let op := upper (lit (cur ts)) in
          let ts := advance ts in
          let all := isT (cur ts) TyAll in
          let ts := if all then advance ts else ts in
          if negb (isT (cur ts) TySelect) then Err EExpected
          else
            do (r, ts1) <- rewrap EInvalid (parse_select d (advance ts));
            setops_loop n' d (GSetOp left op (GSelectS r) all) ts1
        else Val (left, ts)
    end.
  Definition parse_select_setops (d : nat) (ts : list token) : sres gstmt :=
    do (l, ts1) <- parse_select d ts;
    setops_loop (S (length ts1)) d (GSelectS l) ts1.

  (* parseReturningColumns *)
  Fixpoint returning_list (n : nat) (d : nat) (acc : list gexpr) (ts : list token) : outcome (list gexpr * list token) :=
    match n with
    | 0 => OutOfFuel
    | S n' =>
        do (e, ts1) <- (if isT (cur ts) TyMul then Val (GIdent "*" "", advance ts) else pe d ts);
        if isT (cur ts1) TyComma then returning_list n' d (acc ++ [e]) (advance ts1) else Val (acc ++ [e], ts1)
    end.
  Definition parse_returning (d : nat) (ts : list token) : outcome (list gexpr * list token) :=
    if isT (cur ts) TyReturning || String.eqb (lit (cur ts)) "RETURNING" then
      let ts := advance ts in returning_list (S (length ts)) d [] ts
    else Val ([], ts).

  (* VALUES rows *)
  Fixpoint values_rows (n : nat) (d : nat) (acc : list (list gexpr)) (ts : list token) : outcome (list (list gexpr) * list token) :=
    match n with
    | 0 => OutOfFuel
    | S n' =>
        if negb (isT (cur ts) TyLParen) then (match acc with [] => Err EExpected | _ => Val (acc, ts) end)
        else
          let ts := advance ts in
          do (row, ts1) <- expr_list (S (length ts)) d [] ts;
          if negb (isT (cur ts1) TyRParen) then Err EExpected
          else
            let ts2 := advance ts1 in
            if isT (cur ts2) TyComma then values_rows n' d (acc ++ [row]) (advance ts2) else Val (acc ++ [row], ts2)
    end.

  (* SET assignments: `for { ident; =; expr; if !comma break; advance }` *)
  Fixpoint set_list (n : nat) (d : nat) (acc : list (gexpr * gexpr)) (ts : list token) : outcome (list (gexpr * gexpr) * list token) :=
    match n with
    | 0 => OutOfFuel
    | S n' =>
        if negb (is_identifier (cur ts)) then Err EExpected
        else
          let c := lit (cur ts) in
          let ts := advance ts in
          if negb (isT (cur ts) TyEq) then Err EExpected
          else
            do (e, ts1) <- pe d (advance ts);
            let acc := acc ++ [(GIdent c "", e)] in
            if isT (cur ts1) TyComma then set_list n' d acc (advance ts1) else Val (acc, ts1)
    end.

  Definition parse_opt_where (d : nat) (ts : list token) : outcome (option gexpr * list token) :=
    if isT (cur ts) TyWhere then do (e, ts1) <- pe d (advance ts); Val (Some e, ts1) else Val (None, ts).
  (* parseOnConflictClause: ON CONFLICT already consumed (keywords compared case-insensitively since /repo "fix: the ON
     CONFLICT clause reads its keywords case-insensitively") *)
  Definition parse_on_conflict (d : nat) (ts : list token) : sres gconflict :=
    do (tg, ts) <-
      (if isT (cur ts) TyLParen then
         do (l, ts1) <- paren_ident_list ts; Val ((map (fun c => GIdent c "") l, ""%string), ts1)
       else if isT (cur ts) TyOn && eqfold (lit (peek ts)) "CONSTRAINT" then
         let ts := advance (advance ts) in
         if negb (is_identifier (cur ts)) then Err EExpected else Val (([], lit (cur ts)), advance ts)
       else Val (([], ""%string), ts));
    if negb (eqfold (lit (cur ts)) "DO") then Err EExpected
    else
      let ts := advance ts in
      if eqfold (lit (cur ts)) "NOTHING" then Val (GConflict (fst tg) (snd tg) true [] None, advance ts)
      else if isT (cur ts) TyUpdate then
        let ts := advance ts in
        if negb (isT (cur ts) TySet) then Err EExpected
        else
          let ts := advance ts in
          do (asg, ts1) <- set_list (S (length ts)) d [] ts;
          do (wh, ts2) <- parse_opt_where d ts1;
          Val (GConflict (fst tg) (snd tg) false asg wh, ts2)
      else Err EExpected.

  (* parseInsertStatement: INSERT already consumed *)
  Definition parse_insert (d : nat) (ts : list token) : sres gstmt :=
    if negb (isT (cur ts) TyInto) then Err EExpected
    else
      do (tname, ts) <- rewrap EExpected (parse_qualified_name (advance ts));
      do (cols, ts) <- (if isT (cur ts) TyLParen then paren_ident_list ts else Val ([], ts));
      do (src, ts) <-
        (if isT (cur ts) TySelect then
           do (q, ts1) <- parse_select_setops d (advance ts); Val (([], Some q), ts1)
         else if isT (cur ts) TyValues then
           let ts := advance ts in
           do (rows, ts1) <- values_rows (S (length ts)) d [] ts; Val ((rows, None), ts1)
         else Err EExpected);
      let '(rows, q) := src in
      if isT (cur ts) TyOn && String.eqb (upper (lit (peek ts))) "DUPLICATE" then Unmodelled
      else
        do (oc, ts) <-
          (if isT (cur ts) TyOn && String.eqb (upper (lit (peek ts))) "CONFLICT" then
             do (c, ts1) <- parse_on_conflict d (advance (advance ts)); Val (Some c, ts1)
           else Val (None, ts));
        do (ret, ts) <- parse_returning d ts;
        Val (GInsert None tname (map (fun c => GIdent c "") cols) rows q ret oc [], ts).

  (* MySQL `LIMIT n` after UPDATE / DELETE: skipped *)
  Definition skip_limit (ts : list token) : list token :=
    if isT (cur ts) TyLimit then
      let ts := advance ts in if is_numeric_literal (cur ts) then advance ts else ts
    else ts.

  (* parseUpdateStatement: UPDATE already consumed *)
  Definition parse_update (d : nat) (ts : list token) : sres gstmt :=
    do (tname, ts) <- rewrap EExpected (parse_qualified_name ts);
    if negb (isT (cur ts) TySet) then Err EExpected
    else
      let ts := advance ts in
      do (asg, ts) <- set_list (S (length ts)) d [] ts;
      do (wh, ts) <- parse_opt_where d ts;
      do (ret, ts) <- parse_returning d (skip_limit ts);
      Val (GUpdate None tname "" asg [] wh ret, ts).

  (* parseDeleteStatement: DELETE already consumed *)
  Definition parse_delete (d : nat) (ts : list token) : sres gstmt :=
    if negb (isT (cur ts) TyFrom) then Err EExpected
    else
      do (tname, ts) <- rewrap EExpected (parse_qualified_name (advance ts));
      do (wh, ts) <- parse_opt_where d ts;
      do (ret, ts) <- parse_returning d (skip_limit ts);
      Val (GDelete None tname "" [] wh ret, ts).

  (* ---- MERGE ---- *)
  (* the optional alias of the target / source: AS alias, or a word that can be an alias and is not the keyword that follows
     ([kwt] / [kws]: USING after the target, ON after the source) *)
  Definition parse_merge_alias (kwt : tty) (kws : string) (ts : list token) : outcome (string * list token) :=
    if isT (cur ts) TyAs then
      let ts := advance ts in
      if negb (is_identifier (cur ts)) && negb (is_nonreserved (cur ts)) then Err EExpected
      else Val (lit (cur ts), advance ts)
    else if can_be_alias (cur ts) && negb (isT (cur ts) kwt) && negb (String.eqb (lit (cur ts)) kws) then Val (lit (cur ts), advance ts)
    else Val (""%string, ts).

  (* SET clauses of WHEN ... THEN UPDATE: `for { [t .] column = expr; if !comma break }` *)
  Fixpoint merge_set_list (n : nat) (d : nat) (acc : list (string * gexpr)) (ts : list token) : outcome (list (string * gexpr) * list token) :=
    match n with
    | 0 => OutOfFuel
    | S n' =>
        if negb (is_identifier (cur ts)) && negb (can_be_alias (cur ts)) then Err EExpected
        else
          let c := lit (cur ts) in
          let ts := advance ts in
          do (c, ts) <-
            (if isT (cur ts) TyPeriod then
               let ts := advance ts in
               if negb (is_identifier (cur ts)) && negb (can_be_alias (cur ts)) then Err EExpected
               else Val ((c ++ "." ++ lit (cur ts))%string, advance ts)
             else Val (c, ts));
          if negb (isT (cur ts) TyEq) then Err EExpected
          else
            do (e, ts1) <- rewrap EInvalid (pe d (advance ts));
            let acc := acc ++ [(c, e)] in
            if isT (cur ts1) TyComma then merge_set_list n' d acc (advance ts1) else Val (acc, ts1)
    end.

  (* parseMergeAction *)
  Definition parse_merge_action (d : nat) (kind : string) (ts : list token) : sres gaction :=
    if isT (cur ts) TyUpdate then
      let ts := advance ts in
      if negb (isT (cur ts) TySet) then Err EExpected
      else
        let ts := advance ts in
        do (sets, ts1) <- merge_set_list (S (length ts)) d [] ts;
        Val (GAction "UPDATE" sets [] [] false, ts1)
    else if isT (cur ts) TyInsert then
      if String.eqb kind "MATCHED" || String.eqb kind "NOT_MATCHED_BY_SOURCE" then Err EInvalid
      else
        let ts := advance ts in
        do (cols, ts) <- (if isT (cur ts) TyLParen then paren_ident_list ts else Val ([], ts));
        if isT (cur ts) TyDefault then
          let ts := advance ts in
          if negb (isT (cur ts) TyValues) then Err EExpected else Val (GAction "INSERT" [] cols [] true, advance ts)
        else if isT (cur ts) TyValues then
          let ts := advance ts in
          if negb (isT (cur ts) TyLParen) then Err EExpected
          else
            let ts := advance ts in
            do (vals, ts1) <- rewrap EInvalid (expr_list (S (length ts)) d [] ts);
            if negb (isT (cur ts1) TyRParen) then Err EExpected else Val (GAction "INSERT" [] cols vals false, advance ts1)
        else Err EExpected
    else if isT (cur ts) TyDelete then
      if String.eqb kind "NOT_MATCHED" then Err EInvalid else Val (GAction "DELETE" [] [] [] false, advance ts)
    else Err EExpected.

  (* parseMergeWhenClause: cursor at WHEN *)
  Definition parse_merge_when (d : nat) (ts : list token) : sres gwhen :=
    let ts := advance ts in
    do (kind, ts) <-
      (if isT (cur ts) TyMatched || String.eqb (lit (cur ts)) "MATCHED" then Val ("MATCHED", advance ts)
       else if isT (cur ts) TyNot then
         let ts := advance ts in
         if negb (isT (cur ts) TyMatched) && negb (String.eqb (lit (cur ts)) "MATCHED") then Err EExpected
         else
           let ts := advance ts in
           if isT (cur ts) TyBy then
             let ts := advance ts in
             if negb (isT (cur ts) TySource) && negb (String.eqb (lit (cur ts)) "SOURCE") then Err EExpected
             else Val ("NOT_MATCHED_BY_SOURCE", advance ts)
           else Val ("NOT_MATCHED", ts)
       else Err EExpected);
    do (cond, ts) <- (if isT (cur ts) TyAnd then do (c, ts1) <- rewrap EInvalid (pe d (advance ts)); Val (Some c, ts1) else Val (None, ts));
    if negb (isT (cur ts) TyThen) then Err EExpected
    else
      do (a, ts1) <- parse_merge_action d kind (advance ts);
      Val (GWhen kind cond a, ts1).

  Fixpoint merge_whens (n : nat) (d : nat) (acc : list gwhen) (ts : list token) : outcome (list gwhen * list token) :=
    match n with
    | 0 => OutOfFuel
    | S n' =>
        if isT (cur ts) TyWhen then do (w, ts1) <- parse_merge_when d ts; merge_whens n' d (acc ++ [w]) ts1
        else Val (acc, ts)
    end.

  (* parseMergeStatement: MERGE already consumed; parseTableReference = a qualified name *)
  Definition parse_merge (d : nat) (ts : list token) : sres gstmt :=
    let ts := if isT (cur ts) TyInto then advance ts else ts in
    do (target, ts) <- rewrap EInvalid (parse_qualified_name ts);
    do (talias, ts) <- parse_merge_alias TyUsing "USING" ts;
    if negb (isT (cur ts) TyUsing) && negb (String.eqb (lit (cur ts)) "USING") then Err EExpected
    else
      do (source, ts) <- rewrap EInvalid (parse_qualified_name (advance ts));
      do (salias, ts) <- parse_merge_alias TyOn "ON" ts;
      if negb (isT (cur ts) TyOn) then Err EExpected
      else
        do (on, ts) <- rewrap EInvalid (pe d (advance ts));
        do (whens, ts) <- merge_whens (S (length ts)) d [] ts;
        match whens with
        | [] => Err EExpected
        | _ => Val (GMerge target talias source salias on whens, ts)
        end.

  (* parseCommonTableExpr *)
  Definition parse_cte (d0 : nat) (ts : list token) : sres gcte :=
    if md <? S d0 then Err EDepth
    else
      let d := S d0 in
      if negb (is_identifier (cur ts)) then Err EExpected
      else
        let name := lit (cur ts) in
        let ts := advance ts in
        do (cols, ts) <- (if isT (cur ts) TyLParen then paren_ident_list ts else Val ([], ts));
        if negb (isT (cur ts) TyAs) then Err EExpected
        else
          let ts := advance ts in
          do (mat, ts) <-
            (if isT (cur ts) TyNot then
               let ts := advance ts in
               if negb (isT (cur ts) TyMaterialized) then Err EExpected else Val (Some false, advance ts)
             else if isT (cur ts) TyMaterialized then Val (Some true, advance ts)
             else Val (None, ts));
          if negb (isT (cur ts) TyLParen) then Err EExpected
          else
            let ts := advance ts in
            if isT (cur ts) TySelect then
              do (q, ts1) <- rewrap EInvalid (parse_select_setops d (advance ts));
              if negb (isT (cur ts1) TyRParen) then Err EExpected
              else Val (GCte name cols q mat, advance ts1)
            else Unmodelled.

  Fixpoint cte_list (n : nat) (d : nat) (acc : list gcte) (ts : list token) : outcome (list gcte * list token) :=
    match n with
    | 0 => OutOfFuel
    | S n' =>
        do (c, ts1) <- rewrap EInvalid (parse_cte d ts);
        if isT (cur ts1) TyComma then cte_list n' d (acc ++ [c]) (advance ts1) else Val (acc ++ [c], ts1)
    end.

  (* parseWithStatement: cursor at WITH *)
  Definition parse_with (d : nat) (ts : list token) : sres gstmt :=
    let ts := advance ts in
    let recursive := isT (cur ts) TyRecursive in
    let ts := if recursive then advance ts else ts in
    do (ctes, ts) <- cte_list (S (length ts)) d [] ts;
    let w := GWith recursive ctes in
    do (main, ts) <-
      rewrap EInvalid
        (if isT (cur ts) TySelect then parse_select_setops d (advance ts)
         else if isT (cur ts) TyInsert then parse_insert d (advance ts)
         else if isT (cur ts) TyUpdate then parse_update d (advance ts)
         else if isT (cur ts) TyDelete then parse_delete d (advance ts)
         else Err EExpected);
    Val (set_with w main, ts).

  (* statement keywords whose parsers are not modelled: CREATE ALTER DROP REFRESH TRUNCATE SHOW DESCRIBE EXPLAIN *)
  Definition other_statement_types : list N := [240; 241; 242; 375; 378; 518; 519; 520]%N.
  (* parseStatement *)
  Definition parse_statement (d : nat) (ts : list token) : sres gstmt :=
    let t := cur ts in
    if isT t TyWith then parse_with d ts
    else if isT t TySelect then parse_select_setops d (advance ts)
    else if isT t TyInsert then parse_insert d (advance ts)
    else if isT t TyUpdate then parse_update d (advance ts)
    else if isT t TyDelete then parse_delete d (advance ts)
    else if isT t TyMerge then parse_merge d (advance ts)
    else if isT t TyReplace then Unmodelled
    else match ty t with
         | TyOther n => if existsb (N.eqb n) other_statement_types then Unmodelled else Err EExpected
         | _ => Err EExpected
         end.
End Stmt.

Definition parse_statement_top (sf : sflags) (ts : list token) : sres gstmt :=
  parse_statement max_recursion_depth sf (parse_expression max_recursion_depth no_defects (S (length ts))) 0 ts.

(* correspondence cases: tokens and what the real parseStatement did: None = rejected, Some (tree, tokens consumed).
   Result codes: 0 agree, 1 disagree, 2 not modelled. *)
Definition stmt_case_result (sf : sflags) (c : list token * option (sx * nat)) : N :=
  match c with
  | (ts, expected) =>
      match parse_statement_top sf ts, expected with
      | Unmodelled, _ => 2%N
      | Val (s, rest), Some (tree, consumed) =>
          if sx_eqb (reflect_stmt s) tree && Nat.eqb (length ts - length rest) consumed then 0%N else 1%N
      | Err _, None => 0%N
      | _, _ => 1%N
      end
  end.

(* reference cases: model statement, the generator's prescribed dump and rendering *)
Definition stmt_spec_case_ok (c : mstmt * sx) : bool := sx_eqb (reflect_stmt (ast_of_stmt (fst c))) (snd c).
Definition srho_of (l : list (nat * nat * list (list nat * nat))) : srho :=
  fun c i => match find (fun x => Nat.eqb (fst (fst x)) c && Nat.eqb (snd (fst x)) i) l with
             | Some x => rho_of (snd x) | None => no_parens end.
(* the generator's statement is inside the surface of the statement theorem (stmt_ok, no bare-column alias without AS,
   nesting within the depth limit) and its rendering is the token list the real tokenizer produced *)
Definition stmt_render_case_ok (c : mstmt * srho * list token) : bool :=
  match c with
  | (s, sr, toks) =>
      tok_eqb (render_stmt sr s) toks && stmt_ok s && stmt_bare_alias_free s && (stmt_depth sr s <=? max_recursion_depth)
  end.
