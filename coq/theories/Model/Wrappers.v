(* Wrappers.v — the entry points of property C07 as compositions (pkg/gosqlx/gosqlx.go, pkg/sql/parser/validate.go,
   the Parser FromModelTokens methods): every one of them runs the front end (tokenize, then convert the tokens) and, unless
   that fails, one copy of the statement loop of Model/Loops.v on the converted tokens.
     front : what tokenizing + converting an input yields — an error code, or the converted token list as the loops
             see it (its length, its token classes, and what parseStatement does from each position).
   The front end is the same function for every entry point (its determinism and independence from pooled state is
   property C08); the loops are the separately modelled copies. *)
From Coq Require Import List Arith Bool NArith.
From GV Require Import Model.Loops.
Import ListNotations.

Section W.
  Variable tree : Type.

  Record tokens := mk_tokens {
    t_ntok : nat; t_eof : nat -> bool; t_semi : nat -> bool; t_start : nat -> bool; t_ps : nat -> sres tree }.
  Inductive fres := FErr (code : N) | FOk (t : tokens).

  (* the entry points of the property, by the loop copy they run and what they hand back *)
  Inductive entry :=
  | EParse        (* gosqlx.Parse / ParseBytes / ParseMultiple (one query), parser.ParseBytes / ParseBytesWithTokens /
                     ParseWithDialect(default), Parser.Parse via ParseFromModelTokens *)
  | EParsePos     (* Parser.ParseWithPositions via ParseFromModelTokensWithPositions: the same loop copy as Parse *)
  | EParseCtx     (* gosqlx.ParseWithContext / ParseWithTimeout, Parser.ParseContext via ParseContextFromModelTokens,
                     with a context that does not fire *)
  | EValidate     (* gosqlx.Validate / ValidateMultiple (one query), parser.Validate: Parse, tree dropped *)
  | ERecovery.    (* gosqlx.ParseWithRecovery: parseWithRecovery *)

  (* what a caller observes: acceptance with the trees (if the entry point returns trees), or rejection with the
     error code (for recovery: the code of the first reported error) *)
  Inductive verdict := Accept (trees : option (list tree)) | Reject (code : N) | Diverge.

  Definition loop_fuel (t : tokens) : nat := S (t_ntok t).

  Definition run_entry (e : entry) (f : fres) : verdict :=
    match f with
    | FErr c => Reject c
    | FOk t =>
        let fuel := loop_fuel t in
        match e with
        | EParse | EParsePos =>
            match parse tree (t_ntok t) (t_eof t) (t_semi t) (t_ps t) false fuel 0 [] with
            | POk ts => Accept (Some ts) | PErr c => Reject c | PFuel => Diverge end
        | EParseCtx =>
            match parse_ctx tree (t_ntok t) (t_eof t) (t_semi t) (t_ps t) false fuel 0 [] with
            | POk ts => Accept (Some ts) | PErr c => Reject c | PFuel => Diverge end
        | EValidate =>
            match parse tree (t_ntok t) (t_eof t) (t_semi t) (t_ps t) false fuel 0 [] with
            | POk _ => Accept None | PErr c => Reject c | PFuel => Diverge end
        | ERecovery =>
            match recover tree (t_ntok t) (t_eof t) (t_semi t) (t_start t) (t_ps t) fuel 0 [] [] None with
            | ROk ts [] => Accept (Some ts)
            | ROk _ ((_, c) :: _) => Reject c
            | RFuel => Diverge
            end
        end
    end.

  (* the input has a token other than semicolons (before the end marker) *)
  Definition has_statement_token (t : tokens) : Prop :=
    exists q, q < t_ntok t /\ t_semi t q = false /\
              forall k, k <= q -> in_range (t_ntok t) (t_eof t) k = true.

  (* two verdicts agree: both accept (with equal trees where both carry trees) or both reject with the same code *)
  Definition agree (a b : verdict) : Prop :=
    match a, b with
    | Accept (Some x), Accept (Some y) => x = y
    | Accept _, Accept _ => True
    | Reject c, Reject d => c = d
    | _, _ => False
    end.
End W.

Arguments FErr {tree}. Arguments FOk {tree}.
Arguments Accept {tree}. Arguments Reject {tree}. Arguments Diverge {tree}.
