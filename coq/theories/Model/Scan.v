(* Scan.v — model of the tree scan of pkg/sql/security/scanner.go (Scanner.Scan), as written after the
   traversal repair:

     Scan(tree):      for stmt in tree.Statements { scanNode(stmt) }; updateCounts(result)
                      — the ROOTS of the scan are the statements of the AST, whatever their type: [root k] says that
                      Scan starts a traversal from a top-level statement of kind k (Gen/QRoots.v, regenerated every run
                      from the code by probing Scan with one statement of each kind of the reference grammar; a
                      type switch or allow-list in this loop makes some [root k] false).
     scanNode(root):  ast.Inspect(root, f) with a seen-set of *SelectStatement ([KShared] leaves) and
                      f = per node kind: BinaryExpression -> scanBinaryExpression (isTautology, checkOrInjection)
                                         FunctionCall     -> scanFunctionCall (time-based / dangerous names)
                                         SetOperation     -> checkUnionInjection when the operator is UNION
     every append is guarded by shouldInclude(finding.Severity).

   ScanSQL (regular expressions over the text) is NOT modelled: Go regexp semantics; the oracle exercises it. *)
From Coq Require Import List String Ascii NArith Bool Arith.
From GV Require Import Model.Walk Model.QAst.
Import ListNotations.
Local Open Scope string_scope.
Local Open Scope list_scope.

Inductive sev := Low | Medium | High | Critical.
Definition sev_rank (s : sev) : nat :=                       (* severityOrder *)
  match s with Low => 0 | Medium => 1 | High => 2 | Critical => 3 end.
Inductive pattern := PTautology | PUnionBased | PTimeBased | POutOfBand.
Record finding := mkF { f_pat : pattern; f_sev : sev }.

(* Scanner.MinSeverity is a string: [None] = a value outside severityOrder ("show all") *)
Definition minsev := option sev.
Definition should_include (m : minsev) (s : sev) : bool :=
  match m with
  | None => true
  | Some ms => Nat.leb (sev_rank ms) (sev_rank s)
  end.
Definition emit (m : minsev) (f : finding) : list finding := if should_include m (f_sev f) then [f] else [].

Definition the_kid (s : slot) (t : qn) : option qn :=         (* a single-node field; nil interface = None *)
  match kids_of s t with [c] => Some c | _ => None end.
Definition is_kind (k : kind) (t : qn) : bool := kind_eqb (q_kind t) k.

(* isTautology(expr *BinaryExpression) *)
Definition is_tautology (t : qn) : bool :=
  let op := upper (a_op (q_attrs t)) in
  if negb (str_eqb op "=" || str_eqb op "==") then false else
  match the_kid SLeft t, the_kid SRight t with
  | Some l, Some r =>
      (is_kind KLit l && is_kind KLit r && str_eqb (a_val (q_attrs l)) (a_val (q_attrs r))) ||
      (is_kind KIdent l && is_kind KIdent r && str_eqb (q_name l) (q_name r) &&
       str_eqb (a_qual (q_attrs l)) (a_qual (q_attrs r)))
  | _, _ => false
  end.

Definition taut := mkF PTautology Critical.
(* checkOrInjection: right operand first, then left *)
Definition or_check (m : minsev) (t : qn) : list finding :=
  (match the_kid SRight t with
   | Some r => if is_kind KBinary r && is_tautology r then emit m taut else []
   | None => [] end) ++
  (match the_kid SLeft t with
   | Some l => if is_kind KBinary l && is_tautology l then emit m taut else []
   | None => [] end).
(* scanBinaryExpression *)
Definition binary_check (m : minsev) (t : qn) : list finding :=
  (if is_tautology t then emit m taut else []) ++
  (if str_eqb (upper (a_op (q_attrs t))) "OR" then or_check m t else []).

(* isSystemTable *)
Definition system_names := ["information_schema"; "pg_catalog"; "sys"].
Definition system_prefixes :=
  ["information_schema."; "sys."; "mysql."; "pg_catalog."; "pg_"; "sqlite_"; "master.dbo."; "msdb."; "tempdb."].
Definition is_system_table (n : string) : bool :=
  let l := lower n in smem l system_names || existsb (fun p => String.prefix p l) system_prefixes.

(* checkUnionInjection *)
Definition is_null_col (c : qn) : bool :=
  (is_kind KIdent c && str_eqb (upper (q_name c)) "NULL") || (is_kind KLit c && str_eqb (upper (a_typ (q_attrs c))) "NULL").
Definition union_check (m : minsev) (t : qn) : list finding :=
  match the_kid SRight t with
  | Some r =>
      if is_kind KSelect r then
        (if Nat.leb 2 (List.length (filter is_null_col (kids_of SColumns r))) then emit m (mkF PUnionBased High) else []) ++
        (if nonempty (q_name r) && is_system_table (q_name r) then emit m (mkF PUnionBased Critical) else [])
      else []
  | None => []
  end.

(* scanFunctionCall *)
Definition time_funcs := ["SLEEP"; "PG_SLEEP"; "BENCHMARK"; "WAITFOR"].
Definition dangerous_funcs :=
  ["LOAD_FILE"; "LOAD DATA"; "XP_CMDSHELL"; "SP_OACREATE"; "UTL_HTTP"; "DBMS_LDAP"; "EXEC"; "SP_EXECUTESQL"].
Definition func_check (m : minsev) (t : qn) : list finding :=
  let n := upper (q_name t) in
  (if smem n time_funcs then emit m (mkF PTimeBased High) else []) ++
  (if smem n dangerous_funcs then emit m (mkF POutOfBand Critical) else []).

(* the Inspect callback *)
Definition local_findings (m : minsev) (t : qn) : list finding :=
  match q_kind t with
  | KSetOp => if str_eqb (upper (a_op (q_attrs t))) "UNION" then union_check m t else []
  | KBinary => binary_check m t
  | KFunc => func_check m t
  | _ => []
  end.

Record counts := mkC { c_total : nat; c_critical : nat; c_high : nat; c_medium : nat; c_low : nat }.
Definition sev_eqb (a b : sev) : bool := Nat.eqb (sev_rank a) (sev_rank b).
Definition count_sev (s : sev) (l : list finding) : nat := List.length (filter (fun f => sev_eqb (f_sev f) s) l).
(* updateCounts *)
Definition update_counts (l : list finding) : counts :=
  mkC (List.length l) (count_sev Critical l) (count_sev High l) (count_sev Medium l) (count_sev Low l).

Section Scan.
  Variable em : kind -> slot -> bool.
  Variable root : kind -> bool.
  Definition scan_roots (stmts : list qn) : list qn := filter (fun s => root (q_kind s)) stmts.
  Definition scan_findings (m : minsev) (stmts : list qn) : list finding :=
    flat_map (fun s => flat_map (local_findings m) (qwalk em s)) (scan_roots stmts).
  Definition scan (m : minsev) (stmts : list qn) : list finding * counts :=
    let fs := scan_findings m stmts in (fs, update_counts fs).
End Scan.

(* ---- comparison helpers for the correspondence cases ---- *)
Definition pat_code (p : pattern) : N := match p with PTautology => 0 | PUnionBased => 1 | PTimeBased => 2 | POutOfBand => 3 end.
Definition fcode (f : finding) : N := (pat_code (f_pat f) * 4 + N.of_nat (sev_rank (f_sev f)))%N.
Definition count_code (c : N) (l : list N) : nat := List.length (filter (N.eqb c) l).
(* multiset equality of finding codes *)
Definition same_multiset (a b : list N) : bool :=
  Nat.eqb (List.length a) (List.length b) && forallb (fun c => Nat.eqb (count_code c a) (count_code c b)) a.
Definition all_min : list minsev := [Some Low; Some Medium; Some High; Some Critical].
(* one case: the tree and, per threshold, the implementation's finding codes *)
Definition scan_case_ok (em : kind -> slot -> bool) (root : kind -> bool) (c : list qn * list (list N)) : bool :=
  Nat.eqb (List.length (snd c)) 4 &&
  forallb (fun mw : minsev * list N => same_multiset (map fcode (scan_findings em root (fst mw) (fst c))) (snd mw))
          (combine all_min (snd c)).
