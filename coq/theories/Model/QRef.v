(* QRef.v — the reference grammar of C15/C16: what a statement generator WROTE.

   [mstmt] objects are the statements of the generator (lib/qgen.py emits them as Coq terms and renders them
   as SQL): every table / column / function name carries the knowledge of the position it was placed in.
   [ast_stmt] is the prescribed tree (what pkg/sql/parser builds for the rendered text, as observed:
   TableName = first FROM item, the first JoinClause.Left repeats the FROM item the join attaches to ([join_left]:
   the LAST item of the comma list — JOIN binds tighter than the comma), later ones carry the synthetic
   "(x_with_n_joins)" name built from that item, aliased select items are wrapped, parentheses leave no node).
   The places where the parser's representation choices enter are single definitions: [join_left],
   [synthetic_left], [ast_niladic] / [items_niladic], [wrap_alias], [wrap_with], [ob_wrap], [shared_copy].
   [items] is the specification: the names written in table / column / function positions.

   Besides queries and DML the grammar has the statements that CARRY a query or an expression without being
   queries: CREATE [OR REPLACE] VIEW name [(cols)] AS query, CREATE MATERIALIZED VIEW name [(cols)] AS query,
   CREATE [UNIQUE] INDEX name ON table (keys) [WHERE cond], CREATE TABLE name (column type [DEFAULT e] [CHECK (c)] ...,
   [CHECK (c)] ...), EXPLAIN / DESCRIBE query.  (CREATE TABLE name AS query is not accepted by the parser.)  The names such a statement
   DEFINES or designates as plain strings (view / index / table name, view column list, index keys and the table
   an index is built on, column definitions, key lists of table constraints) are not table / column positions:
   the property lists FROM lists, joins, DML targets and USING, the extractors document FROM, JOIN, sub-queries,
   CTEs and INSERT/UPDATE/DELETE; what IS written in positions are the names inside the carried query and inside
   the carried expressions (partial-index predicate, DEFAULT values, CHECK conditions).

   Every definition below is structurally recursive, every theorem about [mstmt] is proved by the mutual
   structural induction [mgrammar_ind]: there is no bound on the depth of a statement or of its tree (a flat
   chain a OR b OR c ... of n operands is the left-deep [MBin] of depth n). *)
From Coq Require Import List String Ascii NArith Bool DecimalString.
From GV Require Import Model.Walk Model.QAst Model.Extract.
Import ListNotations.
Local Open Scope string_scope.

Fixpoint dotfree (s : string) : bool :=
  match s with
  | EmptyString => true
  | String c r => negb (Ascii.eqb c "."%char) && dotfree r
  end.

(* a column / function / CTE name: non-empty, not "*", no dot *)
Definition name_ok (s : string) : bool := col_ok s && dotfree s.
Record name := mkName { nstr : string; nok : name_ok nstr = true }.
(* a table name as written, possibly schema-qualified ("s.t"): non-empty *)
Record tname := mkT { tstr : string; tok : nonempty tstr = true }.

Inductive mexpr :=
| MCol (q : string) (n : name)              (* column reference, q = "" when unqualified *)
| MStar (q : string)                        (* * or q.* *)
| MLit (v ty : string)                      (* literal: rendered value and type tag (numbers, strings, NULL, TRUE) *)
| MBin (op : string) (l r : mexpr)
| MUn (op : string) (e : mexpr)
| MFunc (f : name) (args : mexprs)
| MCase (operand : mopt) (ws : mwhens) (els : mopt)
| MIn (e : mexpr) (l : mexprs)
| MInSub (e : mexpr) (s : mstmt)
| MBetween (e lo hi : mexpr)
| MExists (s : mstmt)
| MSub (s : mstmt)
| MCast (e : mexpr) (ty : string)
| MNiladic (f : name)                       (* niladic keyword function written without parentheses: CURRENT_DATE *)
with mexprs := ENil | ECons (e : mexpr) (r : mexprs)
with mwhens := WNil | WCons (c r : mexpr) (rest : mwhens)
with mopt := ONone | OSome (e : mexpr)
with mitems := INil | ICons (e : mexpr) (alias : string) (r : mitems)
with mtref := TName (n : tname) (alias : string) | TSub (s : mstmt) (alias : string)
with mtrefs := TNil | TCons (t : mtref) (r : mtrefs)
with mjoins := JNil | JCons (jt : string) (t : mtref) (c : mopt) (r : mjoins)
with mctes := CNil | CCons (n : name) (cols : list string) (s : mstmt) (r : mctes)
with massigns := ANil | ACons (c v : mexpr) (r : massigns)
with msets := SNil | SCons (col : name) (v : mexpr) (r : msets)
with mmwhens :=
| MWNil
| MWUpdate (c : mopt) (sets : msets) (r : mmwhens)
| MWInsert (c : mopt) (cols : list name) (vals : mexprs) (r : mmwhens)
| MWDelete (c : mopt) (r : mmwhens)
with mcolcons :=                              (* column constraints of a column definition *)
| XNil
| XPlain (ty : string) (r : mcolcons)         (* NOT NULL, NULL, UNIQUE, PRIMARY KEY: no expression *)
| XDefault (e : mexpr) (r : mcolcons)
| XCheck (c : mexpr) (r : mcolcons)
with mcoldefs := DNil | DCons (n : name) (ty : string) (cs : mcolcons) (r : mcoldefs)
with mtabcons :=                              (* table constraints *)
| YNil
| YPlain (ty : string) (cols : list string) (r : mtabcons)   (* UNIQUE (keys), PRIMARY KEY (keys) *)
| YCheck (c : mexpr) (r : mtabcons)
with mstmt :=
| MSelect (w : mctes) (cols : mitems) (from : mtrefs) (joins : mjoins) (wh : mopt) (gb : mexprs) (hv : mopt) (ob : mexprs)
| MSetOp (op : string) (l r : mstmt)
| MInsertV (w : mctes) (t : tname) (cols : mexprs) (vals : mexprs)
| MInsertQ (w : mctes) (t : tname) (cols : mexprs) (q : mstmt)
| MUpdate (w : mctes) (t : tname) (asg : massigns) (from : mtrefs) (wh : mopt)
| MDelete (w : mctes) (t : tname) (us : mtrefs) (wh : mopt)
| MMerge (tgt src : mtref) (on : mexpr) (ws : mmwhens)
| MCreateView (n : tname) (cols : list string) (q : mstmt)            (* CREATE [OR REPLACE] [TEMPORARY] VIEW n [(cols)] AS q *)
| MCreateMView (n : tname) (cols : list string) (q : mstmt)           (* CREATE MATERIALIZED VIEW n [(cols)] AS q *)
| MCreateIndex (n t : tname) (keys : list name) (wh : mopt)           (* CREATE [UNIQUE] INDEX n ON t (keys) [WHERE wh] *)
| MCreateTable (n : tname) (cols : mcoldefs) (tcs : mtabcons)         (* CREATE TABLE n (cols, tcs) *)
| MExplain (q : mstmt).                                               (* EXPLAIN q / DESCRIBE q *)

Scheme mexpr_mi := Induction for mexpr Sort Prop
with mexprs_mi := Induction for mexprs Sort Prop
with mwhens_mi := Induction for mwhens Sort Prop
with mopt_mi := Induction for mopt Sort Prop
with mitems_mi := Induction for mitems Sort Prop
with mtref_mi := Induction for mtref Sort Prop
with mtrefs_mi := Induction for mtrefs Sort Prop
with mjoins_mi := Induction for mjoins Sort Prop
with mctes_mi := Induction for mctes Sort Prop
with massigns_mi := Induction for massigns Sort Prop
with msets_mi := Induction for msets Sort Prop
with mmwhens_mi := Induction for mmwhens Sort Prop
with mcolcons_mi := Induction for mcolcons Sort Prop
with mcoldefs_mi := Induction for mcoldefs Sort Prop
with mtabcons_mi := Induction for mtabcons Sort Prop
with mstmt_mi := Induction for mstmt Sort Prop.
Combined Scheme mgrammar_ind from mexpr_mi, mexprs_mi, mwhens_mi, mopt_mi, mitems_mi, mtref_mi, mtrefs_mi,
  mjoins_mi, mctes_mi, massigns_mi, msets_mi, mmwhens_mi, mcolcons_mi, mcoldefs_mi, mtabcons_mi, mstmt_mi.

(* ---- the prescribed tree ---- *)
Definition identA (q n : string) := mkA n q "" "" "" "" [].
Definition litA (v ty : string) := mkA "" "" "" v ty "" [].
Definition aliasA (n al : string) := mkA n "" "" "" "" al [].
Definition nat_str (n : nat) : string := NilEmpty.string_of_uint (Nat.to_uint n).
Definition synthetic_left (first : string) (i : nat) : string :=
  "(" ++ first ++ "_with_" ++ nat_str i ++ "_joins)".

(* the FROM item a JOIN list attaches to: the last one of the comma-separated list (parser: select.go, f66be25) *)
Definition join_left (fr : list qn) : list qn :=
  match rev fr with f :: _ => [f] | [] => [] end.

(* a niladic keyword function (CURRENT_DATE ...): prescribed as a FunctionCall without arguments, reported by
   ExtractFunctions.  lib/qgen.py emits MNiladic only while the parser represents it this way (probed each run);
   a different representation is a change of these two definitions. *)
Definition ast_niladic (f : string) : qn := QN KFunc (nameA f) [].
Inductive item := ITable (n : string) | ICol (q n : string) | IFunc (n : string).
Definition items_niladic (f : string) : list item := [IFunc f].

Definition wrap_alias (e : qn) (alias : string) : qn :=
  if nonempty alias then QN KAliased (aliasA "" alias) [(SExpr, [e])] else e.

(* the first JoinClause.Left: a copy of the first FROM item; its derived table is the same pointer, already seen *)
Definition shared_copy (t : qn) : qn :=
  match t with
  | QN k a kids => QN k a (map (fun sk : slot * list qn => (fst sk, map (fun _ => QN KShared noA []) (snd sk))) kids)
  end.

(* SelectStatement.With etc.: nil when there is no WITH clause *)
Definition wrap_with (ctes : list qn) : list qn :=
  match ctes with [] => [] | _ => [QN KWith noA [(SCtes, ctes)]] end.
Definition ob_wrap (e : qn) : qn := QN KOrderBy noA [(SExpr, [e])].

Fixpoint ast_expr (e : mexpr) : qn :=
  match e with
  | MCol q n => QN KIdent (identA q (nstr n)) []
  | MStar q => QN KIdent (identA q "*") []
  | MLit v ty => QN KLit (litA v ty) []
  | MBin op l r => QN KBinary (opA op) [(SLeft, [ast_expr l]); (SRight, [ast_expr r])]
  | MUn op x => QN KUnary (opA op) [(SExpr, [ast_expr x])]
  | MFunc f args => QN KFunc (nameA (nstr f)) [(SArgs, ast_exprs args)]
  | MCase o ws els => QN KCase noA [(SValue, ast_opt o); (SWhens, ast_whens ws); (SElse, ast_opt els)]
  | MIn x l => QN KIn noA [(SExpr, [ast_expr x]); (SList, ast_exprs l)]
  | MInSub x s => QN KIn noA [(SExpr, [ast_expr x]); (SSubquery, [ast_stmt s])]
  | MBetween x lo hi => QN KBetween noA [(SExpr, [ast_expr x]); (SLower, [ast_expr lo]); (SUpper, [ast_expr hi])]
  | MExists s => QN KExists noA [(SSubquery, [ast_stmt s])]
  | MSub s => QN KSubquery noA [(SSubquery, [ast_stmt s])]
  | MCast x ty => QN KCast (mkA "" "" "" "" ty "" []) [(SExpr, [ast_expr x])]
  | MNiladic f => ast_niladic (nstr f)
  end
with ast_exprs (l : mexprs) : list qn :=
  match l with ENil => [] | ECons e r => ast_expr e :: ast_exprs r end
with ast_whens (l : mwhens) : list qn :=
  match l with
  | WNil => []
  | WCons c r rest => QN KWhen noA [(SCond, [ast_expr c]); (SResult, [ast_expr r])] :: ast_whens rest
  end
with ast_opt (o : mopt) : list qn :=
  match o with ONone => [] | OSome e => [ast_expr e] end
with ast_items (l : mitems) : list qn :=
  match l with INil => [] | ICons e al r => wrap_alias (ast_expr e) al :: ast_items r end
with ast_tref (t : mtref) : qn :=
  match t with
  | TName n al => QN KTableRef (aliasA (tstr n) al) []
  | TSub s al => QN KTableRef (aliasA "" al) [(SSubquery, [ast_stmt s])]
  end
with ast_trefs (l : mtrefs) : list qn :=
  match l with TNil => [] | TCons t r => ast_tref t :: ast_trefs r end
with ast_joins (first : list qn) (i : nat) (l : mjoins) : list qn :=
  match l with
  | JNil => []
  | JCons jt t c r =>
      QN KJoin (opA jt)
         [(SLeft, match i with
                  | O => map shared_copy first
                  | S _ => [QN KTableRef (nameA (synthetic_left (match first with f :: _ => q_name f | [] => "" end) i)) []]
                  end);
          (SRight, [ast_tref t]); (SCond, ast_opt c)]
      :: ast_joins first (S i) r
  end
with ast_ctes (l : mctes) : list qn :=
  match l with
  | CNil => []
  | CCons n cols s r => QN KCte (mkA (nstr n) "" "" "" "" "" cols) [(SStmt, [ast_stmt s])] :: ast_ctes r
  end
with ast_assigns (l : massigns) : list qn :=
  match l with
  | ANil => []
  | ACons c v r => QN KUpdateExpr noA [(SColumn, [ast_expr c]); (SValue, [ast_expr v])] :: ast_assigns r
  end
with ast_sets (l : msets) : list qn :=
  match l with
  | SNil => []
  | SCons col v r => QN KSetClause (nameA (nstr col)) [(SValue, [ast_expr v])] :: ast_sets r
  end
with ast_mwhens (l : mmwhens) : list qn :=
  match l with
  | MWNil => []
  | MWUpdate c sets r =>
      QN KMergeWhen (opA "MATCHED") [(SCond, ast_opt c); (SAction, [QN KMergeAction (opA "UPDATE") [(SSets, ast_sets sets)]])]
      :: ast_mwhens r
  | MWInsert c cols vals r =>
      QN KMergeWhen (opA "NOT_MATCHED")
         [(SCond, ast_opt c); (SAction, [QN KMergeAction (mkA "" "" "INSERT" "" "" "" (map nstr cols)) [(SValues, ast_exprs vals)]])]
      :: ast_mwhens r
  | MWDelete c r =>
      QN KMergeWhen (opA "MATCHED") [(SCond, ast_opt c); (SAction, [QN KMergeAction (opA "DELETE") []])] :: ast_mwhens r
  end
with ast_colcons (l : mcolcons) : list qn :=
  match l with
  | XNil => []
  | XPlain ty r => QN KColConstraint (opA ty) [] :: ast_colcons r
  | XDefault e r => QN KColConstraint (opA "DEFAULT") [(SDefault, [ast_expr e])] :: ast_colcons r
  | XCheck c r => QN KColConstraint (opA "CHECK") [(SCheck, [ast_expr c])] :: ast_colcons r
  end
with ast_coldefs (l : mcoldefs) : list qn :=
  match l with
  | DNil => []
  | DCons n ty cs r => QN KColumnDef (mkA (nstr n) "" "" "" ty "" []) [(SConstraints, ast_colcons cs)] :: ast_coldefs r
  end
with ast_tabcons (l : mtabcons) : list qn :=
  match l with
  | YNil => []
  | YPlain ty cols r => QN KTabConstraint (mkA "" "" ty "" "" "" cols) [] :: ast_tabcons r
  | YCheck c r => QN KTabConstraint (opA "CHECK") [(SCheck, [ast_expr c])] :: ast_tabcons r
  end
with ast_stmt (s : mstmt) : qn :=
  match s with
  | MSelect w cols from joins wh gb hv ob =>
      let fr := ast_trefs from in
      QN KSelect (nameA (match fr with f :: _ => q_name f | [] => "" end))
         [(SWith, wrap_with (ast_ctes w));
          (SColumns, ast_items cols); (SFrom, fr);
          (SJoins, ast_joins (join_left fr) 0 joins);
          (SWhere, ast_opt wh); (SGroupBy, ast_exprs gb); (SHaving, ast_opt hv);
          (SOrderBy, map ob_wrap (ast_exprs ob))]
  | MSetOp op l r => QN KSetOp (opA op) [(SLeft, [ast_stmt l]); (SRight, [ast_stmt r])]
  | MInsertV w t cols vals =>
      QN KInsert (nameA (tstr t))
         [(SWith, wrap_with (ast_ctes w));
          (SColumns, ast_exprs cols); (SValues, ast_exprs vals)]
  | MInsertQ w t cols q =>
      QN KInsert (nameA (tstr t))
         [(SWith, wrap_with (ast_ctes w));
          (SColumns, ast_exprs cols); (SQuery, [ast_stmt q])]
  | MUpdate w t asg from wh =>
      QN KUpdate (nameA (tstr t))
         [(SWith, wrap_with (ast_ctes w));
          (SAssign, ast_assigns asg); (SFrom, ast_trefs from); (SWhere, ast_opt wh)]
  | MDelete w t us wh =>
      QN KDelete (nameA (tstr t))
         [(SWith, wrap_with (ast_ctes w));
          (SUsing, ast_trefs us); (SWhere, ast_opt wh)]
  | MMerge tgt src on ws =>
      QN KMerge noA [(STarget, [ast_tref tgt]); (SSource, [ast_tref src]); (SCond, [ast_expr on]); (SWhens, ast_mwhens ws)]
  | MCreateView n cols q => QN KCreateView (mkA (tstr n) "" "" "" "" "" cols) [(SQuery, [ast_stmt q])]
  | MCreateMView n cols q => QN KCreateMView (mkA (tstr n) "" "" "" "" "" cols) [(SQuery, [ast_stmt q])]
  | MCreateIndex n t keys wh =>
      QN KCreateIndex (mkA (tstr n) (tstr t) "" "" "" "" [])
         [(SColumns, map (fun k => QN KIndexCol (nameA (nstr k)) []) keys); (SWhere, ast_opt wh)]
  | MCreateTable n cols tcs =>
      QN KCreateTable (nameA (tstr n)) [(SColumns, ast_coldefs cols); (SConstraints, ast_tabcons tcs)]
  | MExplain q => QN KDescribe (nameA "SELECT") [(SQuery, [ast_stmt q])]      (* DescribeStatement{TableName: "SELECT", Query: q} *)
  end.

(* what the parser built for EXPLAIN q before /repo kept the query (DescribeStatement.Query): the query was parsed
   and thrown away.  Kept to state what the repair removed ([C15_explain_query_dropped_refuted],
   [C16_explain_query_dropped_refuted]). *)
Definition explain_pinned : qn := QN KDescribe (nameA "SELECT") [].

(* ---- the specification: names written in table / column / function positions ---- *)

Fixpoint items_expr (e : mexpr) : list item :=
  match e with
  | MCol q n => [ICol q (nstr n)]
  | MStar _ | MLit _ _ => []
  | MBin _ l r => items_expr l ++ items_expr r
  | MUn _ x => items_expr x
  | MFunc f args => IFunc (nstr f) :: items_exprs args
  | MCase o ws els => items_opt o ++ items_whens ws ++ items_opt els
  | MIn x l => items_expr x ++ items_exprs l
  | MInSub x s => items_expr x ++ items s
  | MBetween x lo hi => items_expr x ++ items_expr lo ++ items_expr hi
  | MExists s | MSub s => items s
  | MCast x _ => items_expr x
  | MNiladic f => items_niladic (nstr f)
  end
with items_exprs (l : mexprs) : list item :=
  match l with ENil => [] | ECons e r => items_expr e ++ items_exprs r end
with items_whens (l : mwhens) : list item :=
  match l with WNil => [] | WCons c r rest => items_expr c ++ items_expr r ++ items_whens rest end
with items_opt (o : mopt) : list item :=
  match o with ONone => [] | OSome e => items_expr e end
with items_items (l : mitems) : list item :=
  match l with INil => [] | ICons e _ r => items_expr e ++ items_items r end      (* the alias is not an item *)
with items_tref (t : mtref) : list item :=
  match t with
  | TName n _ => [ITable (tstr n)]                                                (* the alias is not an item *)
  | TSub s _ => items s
  end
with items_trefs (l : mtrefs) : list item :=
  match l with TNil => [] | TCons t r => items_tref t ++ items_trefs r end
with items_joins (l : mjoins) : list item :=
  match l with JNil => [] | JCons _ t c r => items_tref t ++ items_opt c ++ items_joins r end
with items_ctes (l : mctes) : list item :=
  match l with CNil => [] | CCons _ _ s r => items s ++ items_ctes r end         (* CTE name and column list define, not reference *)
with items_assigns (l : massigns) : list item :=
  match l with ANil => [] | ACons c v r => items_expr c ++ items_expr v ++ items_assigns r end
with items_sets (l : msets) : list item :=
  match l with SNil => [] | SCons col v r => ICol "" (nstr col) :: items_expr v ++ items_sets r end
with items_mwhens (l : mmwhens) : list item :=
  match l with
  | MWNil => []
  | MWUpdate c sets r => items_opt c ++ items_sets sets ++ items_mwhens r
  | MWInsert c cols vals r => items_opt c ++ map (fun n => ICol "" (nstr n)) cols ++ items_exprs vals ++ items_mwhens r
  | MWDelete c r => items_opt c ++ items_mwhens r
  end
with items_colcons (l : mcolcons) : list item :=
  match l with
  | XNil => []
  | XPlain _ r => items_colcons r
  | XDefault e r => items_expr e ++ items_colcons r
  | XCheck c r => items_expr c ++ items_colcons r
  end
with items_coldefs (l : mcoldefs) : list item :=
  match l with DNil => [] | DCons _ _ cs r => items_colcons cs ++ items_coldefs r end   (* the column is defined, not referenced *)
with items_tabcons (l : mtabcons) : list item :=
  match l with
  | YNil => []
  | YPlain _ _ r => items_tabcons r                                                  (* key lists designate, as plain strings *)
  | YCheck c r => items_expr c ++ items_tabcons r
  end
with items (s : mstmt) : list item :=
  match s with
  | MSelect w cols from joins wh gb hv ob =>
      items_ctes w ++ items_items cols ++ items_trefs from ++ items_joins joins ++ items_opt wh ++
      items_exprs gb ++ items_opt hv ++ items_exprs ob
  | MSetOp _ l r => items l ++ items r
  | MInsertV w t cols vals => items_ctes w ++ ITable (tstr t) :: items_exprs cols ++ items_exprs vals
  | MInsertQ w t cols q => items_ctes w ++ ITable (tstr t) :: items_exprs cols ++ items q
  | MUpdate w t asg from wh => items_ctes w ++ ITable (tstr t) :: items_assigns asg ++ items_trefs from ++ items_opt wh
  | MDelete w t us wh => items_ctes w ++ ITable (tstr t) :: items_trefs us ++ items_opt wh
  | MMerge tgt src on ws => items_tref tgt ++ items_tref src ++ items_expr on ++ items_mwhens ws
  (* the view / index / table name is DEFINED, the view column list names the view's columns, the index keys and
     the table the index is built on are designated as plain strings: none of them is a table / column position *)
  | MCreateView _ _ q | MCreateMView _ _ q => items q
  | MCreateIndex _ _ _ wh => items_opt wh
  | MCreateTable _ cols tcs => items_coldefs cols ++ items_tabcons tcs
  | MExplain q => items q
  end.

Definition tables_written (s : mstmt) : list string :=
  flat_map (fun i => match i with ITable n => [n] | _ => [] end) (items s).
Definition columns_written (s : mstmt) : list string :=
  flat_map (fun i => match i with ICol _ n => [n] | _ => [] end) (items s).
Definition qcolumns_written (s : mstmt) : list (string * string) :=
  flat_map (fun i => match i with ICol q n => [(q, n)] | _ => [] end) (items s).
Definition functions_written (s : mstmt) : list string :=
  flat_map (fun i => match i with IFunc n => [n] | _ => [] end) (items s).

(* what one node contributes, all three analyses together *)
Definition loc_item (t : qn) : list item :=
  map ITable (table_names t) ++ map (fun qn => ICol (fst qn) (snd qn)) (col_refs t) ++ map IFunc (func_names t).

(* every (kind, slot) edge a prescribed tree can contain: Children() must return each of them *)
Definition modelled_edges : list (kind * slot) :=
  [(KSelect, SWith); (KSelect, SColumns); (KSelect, SFrom); (KSelect, SJoins); (KSelect, SWhere);
   (KSelect, SGroupBy); (KSelect, SHaving); (KSelect, SOrderBy);
   (KSetOp, SLeft); (KSetOp, SRight);
   (KInsert, SWith); (KInsert, SColumns); (KInsert, SValues); (KInsert, SQuery);
   (KUpdate, SWith); (KUpdate, SAssign); (KUpdate, SFrom); (KUpdate, SWhere);
   (KDelete, SWith); (KDelete, SUsing); (KDelete, SWhere);
   (KMerge, STarget); (KMerge, SSource); (KMerge, SCond); (KMerge, SWhens);
   (KWith, SCtes); (KCte, SStmt); (KTableRef, SSubquery);
   (KJoin, SLeft); (KJoin, SRight); (KJoin, SCond); (KOrderBy, SExpr);
   (KUpdateExpr, SColumn); (KUpdateExpr, SValue);
   (KMergeWhen, SCond); (KMergeWhen, SAction); (KMergeAction, SSets); (KMergeAction, SValues); (KSetClause, SValue);
   (KBinary, SLeft); (KBinary, SRight); (KUnary, SExpr); (KFunc, SArgs);
   (KCase, SValue); (KCase, SWhens); (KCase, SElse); (KWhen, SCond); (KWhen, SResult);
   (KIn, SExpr); (KIn, SList); (KIn, SSubquery);
   (KBetween, SExpr); (KBetween, SLower); (KBetween, SUpper);
   (KExists, SSubquery); (KSubquery, SSubquery); (KCast, SExpr); (KAliased, SExpr);
   (KCreateView, SQuery); (KCreateMView, SQuery); (KCreateIndex, SWhere);
   (KCreateTable, SColumns); (KCreateTable, SConstraints); (KColumnDef, SConstraints);
   (KColConstraint, SDefault); (KColConstraint, SCheck); (KTabConstraint, SCheck); (KDescribe, SQuery)].

(* the node kinds of the statements of the grammar: the roots an analysis of a parsed text starts from *)
Definition stmt_kinds : list kind :=
  [KSelect; KSetOp; KInsert; KUpdate; KDelete; KMerge; KCreateView; KCreateMView; KCreateIndex; KCreateTable; KDescribe].
Definition roots_cover (root : kind -> bool) : bool := forallb root stmt_kinds.
Definition edge_eqb (a b : kind * slot) : bool := kind_eqb (fst a) (fst b) && slot_eqb (snd a) (snd b).
Definition em_covers (em : kind -> slot -> bool) : bool :=
  forallb (fun e : kind * slot => em (fst e) (snd e)) modelled_edges.
