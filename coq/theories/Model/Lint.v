(* Lint.v — executable model of the text level of pkg/linter (the shared lexical scanner LexMap, rules L001,
   L002, L003, L005, L007, L010), of the CLI auto-fix loop (cmd/gosqlx/cmd/lint.go) and of the language
   server's format action (formatSQL in pkg/lsp/handler.go).  Definitions only.

   Text.  Go strings are byte strings; the rules walk them byte-wise (len, indexing, the lexical map) or
   rune-wise (`for i, ch := range line`, strings.TrimSpace).  A text is modelled as the list of its decoded
   characters [ch]: code point, source bytes, validity (an invalid byte decodes to U+FFFD of width 1, exactly
   as utf8.DecodeRune does).  Byte offsets (columns) are sums of source widths.  Since the repair of the
   rules every byte that is not rewritten is copied unchanged, so a character is always written back as its
   source bytes.  [decode] / [encode] connect the model to the bytes the implementation sees; they are
   validated, like everything else here, by the byte-for-byte correspondence.

   Lexical context.  linter.LexMap classifies every byte of the WHOLE text in one pass (state carried across
   line breaks): 0 code, 1 string literal ('...', '''...''', $tag$...$tag$) / quoted identifier, 2 block comment,
   3 line comment.  All bytes of a character have the class of its first byte, so the model classifies
   characters: [lex].  A rule sees a line as the list of its characters paired with their classes
   ([clines]): it may re-layout or re-case code (class 0) only.

   The Unicode classes (unicode.IsLetter / IsDigit / IsSpace), the characters that start / continue the tag of a
   dollar-quoted string, the runes whose unicode.ToUpper image is an ASCII letter and the keyword set of L007
   are parameters of the model; lib/c17.py regenerates them from the toolchain / the source / the scanner
   into Gen/LintTables.v on every run. *)
From Coq Require Import List NArith Bool Arith.
Import ListNotations.
Local Open Scope N_scope.

(* ------------------------------------------------------------------------------------------------ *)
(* characters *)

Record ch := mkch { cp : N; raw : list N; valid : bool }.

Definition asc (b : N) : ch := mkch b [b] true.
Definition badc (b : N) : ch := mkch 65533 [b] false.
Definition cont (b : N) : bool := (128 <=? b) && (b <=? 191).
Definition between (lo x hi : N) : bool := (lo <=? x) && (x <=? hi).

(* utf8.DecodeRune on a non-empty byte string *)
Definition dec1 (s : list N) : ch :=
  match s with
  | [] => badc 0
  | b0 :: t =>
      if b0 <? 128 then asc b0
      else if between 194 b0 223 then
        match t with
        | b1 :: _ => if cont b1 then mkch ((b0 - 192) * 64 + (b1 - 128)) [b0; b1] true else badc b0
        | _ => badc b0
        end
      else if between 224 b0 239 then
        match t with
        | b1 :: b2 :: _ =>
            if between (if b0 =? 224 then 160 else 128) b1 (if b0 =? 237 then 159 else 191) && cont b2
            then mkch ((b0 - 224) * 4096 + (b1 - 128) * 64 + (b2 - 128)) [b0; b1; b2] true
            else badc b0
        | _ => badc b0
        end
      else if between 240 b0 244 then
        match t with
        | b1 :: b2 :: b3 :: _ =>
            if between (if b0 =? 240 then 144 else 128) b1 (if b0 =? 244 then 143 else 191) && cont b2 && cont b3
            then mkch ((b0 - 240) * 262144 + (b1 - 128) * 4096 + (b2 - 128) * 64 + (b3 - 128)) [b0; b1; b2; b3] true
            else badc b0
        | _ => badc b0
        end
      else badc b0
  end.

Fixpoint decode_go (skip : nat) (s : list N) : list ch :=
  match s with
  | [] => []
  | b :: t =>
      match skip with
      | S k => decode_go k t
      | O => let c := dec1 s in c :: decode_go (length (raw c) - 1) t
      end
  end.
Definition decode (s : list N) : list ch := decode_go 0 s.
Definition encode (l : list ch) : list N := flat_map raw l.

Definition width (c : ch) : nat := length (raw c).
Definition blen (l : list ch) : nat := fold_right (fun c n => (width c + n)%nat) 0%nat l.

(* the newline character is the byte 0A itself (the only character with code point 10 that [decode] produces) *)
Definition is_nl (c : ch) : bool :=
  (cp c =? 10) && valid c && match raw c with [b] => b =? 10 | _ => false end.
Definition is_sp (c : ch) : bool := cp c =? 32.
Definition is_tab (c : ch) : bool := cp c =? 9.
Definition is_blank (c : ch) : bool := is_sp c || is_tab c.      (* space or tab *)
Definition nlc : ch := asc 10.
Definition spc : ch := asc 32.

(* ------------------------------------------------------------------------------------------------ *)
(* strings.Split(s, "\n") / strings.Join(lines, "\n") *)

Fixpoint split_nl (l : list ch) : list (list ch) :=
  match l with
  | [] => [[]]
  | c :: t =>
      if is_nl c then [] :: split_nl t
      else match split_nl t with
           | h :: r => (c :: h) :: r
           | [] => [[c]]
           end
  end.

Fixpoint join_nl (ls : list (list ch)) : list ch :=
  match ls with
  | [] => []
  | [x] => x
  | x :: r => x ++ nlc :: join_nl r
  end.

(* generic trimming *)
Fixpoint trim_l {A} (p : A -> bool) (l : list A) : list A :=
  match l with
  | [] => []
  | c :: t => if p c then trim_l p t else l
  end.
Fixpoint take_l {A} (p : A -> bool) (l : list A) : list A :=
  match l with
  | [] => []
  | c :: t => if p c then c :: take_l p t else []
  end.
Fixpoint trim_r {A} (p : A -> bool) (l : list A) : list A :=
  match l with
  | [] => []
  | c :: t => match trim_r p t with
              | [] => if p c then [] else [c]
              | t' => c :: t'
              end
  end.

(* a violation: 1-based line, 1-based byte column *)
Definition viol := (nat * nat)%type.

(* ------------------------------------------------------------------------------------------------ *)
(* linter.LexMap: the lexical context of every character *)

Inductive lst :=
| SCode                 (* lexInCode *)
| SLit (q : N)          (* lexInSingle / lexInDouble / lexInBackquote: inside a construct opened by the quote q *)
| SLine                 (* lexInLineComment *)
| SBlockOpen            (* on the '*' of the opening of a block comment *)
| SBlock                (* lexInBlock *)
| SBlockClose           (* on the '/' of the closing of a block comment *)
| SSkip (n : nat) (a : lst)   (* the loop has recognised a delimiter by looking ahead and jumps over it: n more of its
                                 characters follow (all class 1), then the scanner is in state a *)
| STri (run : nat)      (* lexInTriple: inside '''...'''; run = the apostrophes just read in a row *)
| SDol (tag : list ch) (m : option (list ch)).
                        (* lexInDollar: inside $tag$...; m = None: nothing of the closing delimiter is matched;
                           m = Some r: its '$' and the tag up to r are matched (r, then '$', are still to come) *)

Definition next_is (n : N) (t : list ch) : bool := match t with d :: _ => cp d =? n | [] => false end.
(* quoteKind: the typographic single quotes U+2018 U+2019 and the guillemets U+00AB U+00BB count as the apostrophe,
   the typographic double quotes U+201C U+201D as the quotation mark (the tokenizer's normalizeQuote) *)
Definition nq (n : N) : N :=
  if (n =? 8216) || (n =? 8217) || (n =? 171) || (n =? 187) then 39
  else if (n =? 8220) || (n =? 8221) then 34 else n.
Definition is_quote (c : ch) : bool := (nq (cp c) =? 39) || (nq (cp c) =? 34) || (cp c =? 96).
(* the next character is a quote of the apostrophe kind; the next two characters are apostrophes *)
Definition next_q39 (t : list ch) : bool := match t with d :: _ => nq (cp d) =? 39 | [] => false end.
Definition next2_39 (t : list ch) : bool := match t with d :: e :: _ => (cp d =? 39) && (cp e =? 39) | _ => false end.
(* r == next && size == nsize *)
Definition same_ch (c x : ch) : bool := (cp c =? cp x) && (width c =? width x)%nat.

(* lexInDollar, one character: the closing delimiter is '$' tag '$'; a '$' occurs in it only as its first and its last
   character, so a character that does not continue the match leaves nothing matched, or its own '$' *)
Definition dol_step (tag : list ch) (m : option (list ch)) (c : ch) : lst :=
  let miss := if cp c =? 36 then SDol tag (Some tag) else SDol tag None in
  match m with
  | None => miss
  | Some [] => if same_ch c (asc 36) then SCode else miss
  | Some (x :: r) => if same_ch c x then SDol tag (Some r) else miss
  end.

Section Lint.
  (* unicode.IsLetter(r) || r == '_'  and  unicode.IsLetter(r) || unicode.IsDigit(r) || unicode.In(r, Mn, Mc, Pc):
     the characters that start / continue the tag of a dollar-quoted string *)
  Variables is_idstart is_idpart : N -> bool.

  (* dollarOpener: the tag when the characters after a '$' are  tag '$'  (the loop of dollarOpener) and the first of
     them is a '$' or starts an identifier *)
  Fixpoint scan_tag (nx : list ch) : option (list ch) :=
    match nx with
    | [] => None
    | c :: t => if cp c =? 36 then Some []
                else if is_idpart (cp c) then match scan_tag t with Some g => Some (c :: g) | None => None end
                else None
    end.
  Definition dollar_tag (nx : list ch) : option (list ch) :=
    match nx with
    | [] => None
    | c :: _ => if (cp c =? 36) || is_idstart (cp c) then scan_tag nx else None
    end.

  (* one step of the scanner on character c followed by nx: (class of c, state after c).  A backslash is an ordinary
     character; a doubled quote closes a quoted identifier and re-opens it at once, in a string literal the two quotes
     are read together. *)
  Definition lstep (st : lst) (c : ch) (nx : list ch) : N * lst :=
    match st with
    | SCode =>
        if (cp c =? 39) && next2_39 nx then (1, SSkip 2 (STri 0))
        else if is_quote c then (1, SLit (nq (cp c)))
        else if (cp c =? 45) && next_is 45 nx then (3, SLine)
        else if (cp c =? 47) && next_is 42 nx then (2, SBlockOpen)
        else if cp c =? 36 then
          match dollar_tag nx with
          | Some tag => (1, SSkip (S (length tag)) (SDol tag None))
          | None => (0, SCode)
          end
        else (0, SCode)
    | SLit q =>
        if nq (cp c) =? q then (if (q =? 39) && next_q39 nx then (1, SSkip 1 (SLit q)) else (1, SCode))
        else (1, SLit q)
    | SLine => if is_nl c then (0, SCode) else (3, SLine)
    | SBlockOpen => (2, SBlock)
    | SBlock => if (cp c =? 42) && next_is 47 nx then (2, SBlockClose) else (2, SBlock)
    | SBlockClose => (2, SCode)
    | SSkip n a => (1, match n with S (S k) => SSkip (S k) a | _ => a end)
    | STri run => (1, if cp c =? 39 then (if (run =? 2)%nat then SCode else STri (S run)) else STri 0)
    | SDol tag m => (1, dol_step tag m c)
    end.

  Fixpoint lex (st : lst) (l : list ch) : list N :=
    match l with
    | [] => []
    | c :: t => fst (lstep st c t) :: lex (snd (lstep st c t)) t
    end.
  Fixpoint lex_end (st : lst) (l : list ch) : lst :=
    match l with
    | [] => st
    | c :: t => lex_end (snd (lstep st c t)) t
    end.
  (* m[len(text)]: the context at the end of the text is code when no literal or block comment is open *)
  Definition end_code (st : lst) : bool := match st with SCode | SLine => true | _ => false end.

(* a classified character, a classified text *)
Definition cc := (ch * N)%type.
Definition ctext (t : list ch) : list cc := combine t (lex SCode t).
Definition code0 (p : cc) : bool := snd p =? 0.

(* the lines of a classified text: (does the line begin in code?, its classified characters).
   linter.LineStartsInCode: the first line does; another line does iff the class of the line break before it is code *)
Fixpoint csplit (flag : bool) (l : list cc) : list (bool * list cc) :=
  match l with
  | [] => [(flag, [])]
  | p :: t =>
      if is_nl (fst p) then (flag, []) :: csplit (code0 p) t
      else match csplit flag t with
           | (f, h) :: r => (f, p :: h) :: r
           | [] => [(flag, [p])]
           end
  end.
Definition clines (t : list ch) : list (bool * list cc) := csplit true (ctext t).
Definition chars (l : list cc) : list ch := map fst l.
(* a rule that rewrites every classified line on its own *)
Definition per_cline (f : list cc -> list cc) (t : list ch) : list ch :=
  join_nl (map (fun fl => chars (f (snd fl))) (clines t)).

(* run [f lineNumber line] over the classified lines, concatenating the reported violations *)
Fixpoint on_clines (f : nat -> bool * list cc -> list viol) (n : nat) (ls : list (bool * list cc)) : list viol :=
  match ls with
  | [] => []
  | l :: r => f n l ++ on_clines f (S n) r
  end.

Fixpoint lastc {A} (l : list A) : option A :=
  match l with
  | [] => None
  | [c] => Some c
  | _ :: t => lastc t
  end.

(* what L001, L002 and L003 name, on the classified lines of a text *)
(* the line ends in a space or tab that is layout: code, or the tail of a -- comment *)
Definition tblank (p : cc) : bool := is_blank (fst p) && ((snd p =? 0) || (snd p =? 3)).
Definition ends_tblank (l : list cc) : Prop := exists p, lastc l = Some p /\ tblank p = true.
(* indentation kind of a line: 0 none, 1 tabs only, 2 spaces only, 3 mixed (only code blanks are indentation) *)
Definition lblank (p : cc) : bool := is_blank (fst p) && code0 p.
Definition ikind (l : list cc) : N :=
  match take_l lblank l with
  | [] => 0
  | lw => if existsb (fun p : ch * N => is_tab (fst p)) lw && existsb (fun p : ch * N => is_sp (fst p)) lw then 3
          else if existsb (fun p : ch * N => is_tab (fst p)) lw then 1 else 2
  end.
(* the indentation style of the first purely indented line *)
Fixpoint first_pure (ks : list N) : N :=
  match ks with
  | [] => 0
  | k :: r => if (k =? 1) || (k =? 2) then k else first_pure r
  end.
Definition eff (first : N) (pre : list (bool * list cc)) : N :=
  if first =? 0 then first_pure (map (fun fl => ikind (snd fl)) pre) else first.
(* the defect L002 names: the line mixes tabs and spaces, or is purely indented in another style than the first such line *)
Definition l002_defect (first : N) (pre : list (bool * list cc)) (l : list cc) : Prop :=
  ikind l = 3 \/ ((ikind l = 1 \/ ikind l = 2) /\ eff first pre <> 0 /\ eff first pre <> ikind l).

  Variables is_letter is_digit is_space : N -> bool.
  Variable upper_ascii : N -> option N.
  Variable keywords : list (list N).

  (* unicode.IsSpace of a character met while ranging over a string (RuneError is not a space) *)
  Definition spacec (c : ch) : bool := is_space (cp c).
  (* strings.TrimSpace *)
  Definition trim_space (l : list ch) : list ch := trim_r spacec (trim_l spacec l).
  Definition blank_line (l : list ch) : bool := match trim_space l with [] => true | _ => false end.

  (* ---------------------------------------------------------------------------------------------- *)
  (* L001 trailing whitespace *)

  (* trailingBlankStart: a trailing space or tab is removable when it is code or the tail of a -- comment *)
  Definition l001_line (l : list cc) : list cc := trim_r tblank l.
  Definition l001_fix (t : list ch) : list ch := per_cline l001_line t.
  Definition l001_check_line (n : nat) (fl : bool * list cc) : list viol :=
    let kept := l001_line (snd fl) in
    if (length kept <? length (snd fl))%nat then [(n, S (blen (chars kept)))] else [].
  Definition l001_check (t : list ch) : list viol := on_clines l001_check_line 1 (clines t).

  (* ---------------------------------------------------------------------------------------------- *)
  (* L002 mixed indentation *)

  (* getLeadingWhitespace: the leading spaces and tabs that are code *)
  Definition leading_ws (l : list cc) : list cc := take_l lblank l.
  Definition tab4 (p : cc) : list cc := if is_tab (fst p) then [(spc, 0); (spc, 0); (spc, 0); (spc, 0)] else [p].
  Definition l002_line (l : list cc) : list cc := flat_map tab4 (leading_ws l) ++ trim_l lblank l.
  Definition l002_fix (t : list ch) : list ch := per_cline l002_line t.

  (* firstIndentType: 0 = none yet, 1 = tab, 2 = space *)
  Fixpoint l002_check_lines (first : N) (n : nat) (ls : list (bool * list cc)) : list viol :=
    match ls with
    | [] => []
    | fl :: r =>
        let lw := leading_ws (snd fl) in
        match lw with
        | [] => l002_check_lines first (S n) r
        | _ =>
            let ht := existsb (fun p => is_tab (fst p)) lw in
            let hs := existsb (fun p => is_sp (fst p)) lw in
            if ht && hs then (n, 1%nat) :: l002_check_lines first (S n) r
            else
              let cur := if ht then 1 else 2 in
              if first =? 0 then l002_check_lines cur (S n) r
              else if first =? cur then l002_check_lines first (S n) r
              else (n, 1%nat) :: l002_check_lines first (S n) r
        end
    end.
  Definition l002_check (t : list ch) : list viol := l002_check_lines 0 1 (clines t).

  (* ---------------------------------------------------------------------------------------------- *)
  (* L003 consecutive blank lines (maxConsecutive = mx) *)

  (* isBlankCodeLine: the line begins in code and holds white space only *)
  Definition cblank (fl : bool * list cc) : bool := fst fl && blank_line (chars (snd fl)).

  Fixpoint l003_pass (mx : nat) (cnt : nat) (ls : list (bool * list cc)) : list (bool * list cc) :=
    match ls with
    | [] => []
    | l :: r =>
        if cblank l then
          if (S cnt <=? mx)%nat then l :: l003_pass mx (S cnt) r else l003_pass mx (S cnt) r
        else l :: l003_pass mx 0 r
    end.
  (* the loop that trims the blank lines at the end of [result] down to at most mx (resultBlank = cblank) *)
  Definition trailing_blanks (ls : list (bool * list cc)) : nat := length (take_l cblank (rev ls)).
  Fixpoint l003_trim_end (fuel : nat) (mx : nat) (ls : list (bool * list cc)) : list (bool * list cc) :=
    match fuel with
    | O => ls
    | S k =>
        match rev ls with
        | [] => ls
        | lst :: _ =>
            if cblank lst then
              if (mx <? trailing_blanks ls)%nat then l003_trim_end k mx (removelast ls) else ls
            else ls
        end
    end.
  Definition l003_lines (mx : nat) (ls : list (bool * list cc)) : list (bool * list cc) :=
    let res := l003_pass mx 0 ls in l003_trim_end (length res) mx res.
  Definition l003_fix_mx (mx : nat) (t : list ch) : list ch :=
    join_nl (map (fun fl => chars (snd fl)) (l003_lines mx (clines t))).
  Definition l003_fix := l003_fix_mx 1.

  Fixpoint l003_check_lines (mx : nat) (cnt start : nat) (n : nat) (ls : list (bool * list cc)) : list viol :=
    match ls with
    | [] => if (mx <? cnt)%nat then [(start, 1%nat)] else []
    | l :: r =>
        if cblank l then
          l003_check_lines mx (S cnt) (if (cnt =? 0)%nat then n else start) (S n) r
        else
          (if (mx <? cnt)%nat then [(start, 1%nat)] else []) ++ l003_check_lines mx 0 start (S n) r
    end.
  Definition l003_check_mx (mx : nat) (t : list ch) : list viol := l003_check_lines mx 0 0 1 (clines t).
  Definition l003_check := l003_check_mx 1.

  (* ---------------------------------------------------------------------------------------------- *)
  (* L005 long lines (no fixer; purely textual) *)

  Definition starts2 (a b : N) (l : list ch) : bool :=
    match l with
    | x :: y :: _ => (cp x =? a) && (cp y =? b)
    | _ => false
    end.
  Definition l005_check_line (mx : nat) (n : nat) (fl : bool * list cc) : list viol :=
    let l := chars (snd fl) in
    match l with
    | [] => []
    | _ =>
        let tr := trim_space l in
        if starts2 45 45 tr || starts2 47 42 tr then []
        else if (mx <? blen l)%nat then [(n, S mx)] else []
    end.
  Definition l005_check (mx : nat) (t : list ch) : list viol := on_clines (l005_check_line mx) 1 (clines t).

  (* ---------------------------------------------------------------------------------------------- *)
  (* L010 redundant whitespace *)

  Definition cspace (p : cc) : bool := is_sp (fst p) && code0 p.
  (* fixLine, the loop after the indentation *)
  Fixpoint l010_scan (prev_space : bool) (l : list cc) : list cc :=
    match l with
    | [] => []
    | p :: t =>
        if cspace p then (if prev_space then [] else [p]) ++ l010_scan true t
        else p :: l010_scan false t
    end.
  Definition l010_line (l : list cc) : list cc := take_l lblank l ++ l010_scan false (trim_l lblank l).
  Definition l010_fix (t : list ch) : list ch := per_cline l010_line t.

  (* codeParts: the maximal runs of code characters with their byte start columns *)
  Fixpoint l010_parts (i : nat) (start : nat) (cur : list ch) (l : list cc) : list (nat * list ch) :=
    match l with
    | [] => match cur with [] => [] | _ => [(start, rev cur)] end
    | p :: t =>
        let i' := (i + width (fst p))%nat in
        if code0 p then l010_parts i' (match cur with [] => i | _ => start end) (fst p :: cur) t
        else (match cur with [] => [] | _ => [(start, rev cur)] end) ++ l010_parts i' start [] t
    end.
  (* regexp `  +` FindAllStringIndex: byte offsets of the maximal runs of >= 2 spaces *)
  Fixpoint sp_runs (off : nat) (run : nat) (runstart : nat) (l : list ch) : list nat :=
    match l with
    | [] => if (2 <=? run)%nat then [runstart] else []
    | c :: t =>
        if is_sp c then sp_runs (off + width c) (S run) (if (run =? 0)%nat then off else runstart) t
        else (if (2 <=? run)%nat then [runstart] else []) ++ sp_runs (off + width c) 0 runstart t
    end.
  Definition l010_check_line (n : nat) (fl : bool * list cc) : list viol :=
    let l := chars (snd fl) in
    flat_map (fun p : nat * list ch =>
                flat_map (fun m : nat =>
                            let col := S (fst p + m) in
                            (* strings.TrimLeft(line[:column], " \t") == "" *)
                            if forallb (fun b => (b =? 32) || (b =? 9)) (firstn col (encode l)) then []
                            else [(n, col)])
                         (sp_runs 0 0 0 (snd p)))
             (l010_parts 0 0 [] (snd fl)).
  Definition l010_check (t : list ch) : list viol := on_clines l010_check_line 1 (clines t).

  (* ---------------------------------------------------------------------------------------------- *)
  (* L007 keyword case (preferred style: upper, the CLI's configuration) *)

  Definition word_start (c : ch) : bool := is_letter (cp c) || (cp c =? 95).
  Definition word_char (c : ch) : bool := word_start c || is_digit (cp c).

  Definition list_eqb (a b : list N) : bool :=
    (length a =? length b)%nat && forallb (fun p : N * N => fst p =? snd p) (combine a b).
  Fixpoint all_some (l : list (option N)) : option (list N) :=
    match l with
    | [] => Some []
    | None :: _ => None
    | Some x :: t => match all_some t with Some r => Some (x :: r) | None => None end
    end.
  (* sqlKeywords[strings.ToUpper(word)]: Some upperWord when it is a keyword *)
  Definition kw_of (w : list ch) : option (list N) :=
    match all_some (map (fun c => upper_ascii (cp c)) w) with
    | Some u => if existsb (list_eqb u) keywords then Some u else None
    | None => None
    end.
  (* convertKeyword, on classified characters (a word is code) *)
  Definition conv_word (w : list cc) : list cc :=
    match kw_of (chars w) with
    | Some u => map (fun b => (asc b, 0)) u
    | None => w
    end.
  (* word.text != upperWord *)
  Definition word_viol (w : list ch) : bool :=
    match kw_of w with
    | Some u => negb (list_eqb (encode w) u)
    | None => false
    end.
  (* isWordRune on a code character *)
  Definition wordc (inw : bool) (p : cc) : bool := code0 p && (word_start (fst p) || (inw && is_digit (cp (fst p)))).

  (* fixLine: the words of the code are converted, everything else is copied; cur = current word (reversed) *)
  Fixpoint l007_scan (cur : option (list cc)) (l : list cc) : list cc :=
    let flush := match cur with Some w => conv_word (rev w) | None => [] end in
    match l with
    | [] => flush
    | p :: t =>
        let inw := match cur with Some _ => true | None => false end in
        if wordc inw p then l007_scan (Some (p :: match cur with Some w => w | None => [] end)) t
        else flush ++ p :: l007_scan None t
    end.
  Definition l007_line (l : list cc) : list cc := l007_scan None l.
  Definition l007_fix (t : list ch) : list ch := per_cline l007_line t.

  (* codeWords: (column, word) list *)
  Fixpoint l007_words (i : nat) (cur : option (nat * list ch)) (l : list cc) : list (nat * list ch) :=
    let flush := match cur with Some (s, w) => [(S s, rev w)] | None => [] end in
    match l with
    | [] => flush
    | p :: t =>
        let i' := (i + width (fst p))%nat in
        let inw := match cur with Some _ => true | None => false end in
        if wordc inw p then
          l007_words i' (Some (match cur with Some (s, w) => (s, fst p :: w) | None => (i, [fst p]) end)) t
        else flush ++ l007_words i' None t
    end.
  Definition l007_check_line (n : nat) (fl : bool * list cc) : list viol :=
    flat_map (fun p : nat * list ch => if word_viol (snd p) then [(n, fst p)] else [])
             (l007_words 0 None (snd fl)).
  Definition l007_check (t : list ch) : list viol := on_clines l007_check_line 1 (clines t).

  (* ---------------------------------------------------------------------------------------------- *)
  (* the CLI's --auto-fix loop: every auto-fixable rule of createLinter(), in registration order *)

  Definition cli_fix (t : list ch) : list ch := l007_fix (l010_fix (l003_fix (l002_fix (l001_fix t)))).

  (* ---------------------------------------------------------------------------------------------- *)
  (* language server: formatSQL(sql, opts) *)

  Fixpoint has_prefix_up (k : list N) (l : list ch) : bool :=
    match k with
    | [] => true
    | x :: k' =>
        match l with
        | c :: t => match upper_ascii (cp c) with
                    | Some u => (u =? x) && has_prefix_up k' t
                    | None => false
                    end
        | [] => false
        end
    end.
  Definition fmt_reset : list (list N) :=
    [ [83;69;76;69;67;84]; [73;78;83;69;82;84]; [85;80;68;65;84;69]; [68;69;76;69;84;69]; [67;82;69;65;84;69];
      [68;82;79;80]; [65;76;84;69;82]; [87;73;84;72];
      [70;82;79;77]; [87;72;69;82;69]; [83;69;84]; [86;65;76;85;69;83] ].
  Definition fmt_indent : list (list N) := [ [65;78;68]; [79;82] ].
  Definition fmt_reset2 : list (list N) :=
    [ [74;79;73;78]; [76;69;70;84]; [82;73;71;72;84]; [73;78;78;69;82]; [79;85;84;69;82]; [67;82;79;83;83];
      [71;82;79;85;80]; [79;82;68;69;82]; [72;65;86;73;78;71]; [76;73;77;73;84] ].
  Definition fmt_next_indent (indent cur : list ch) (tr : list ch) : list ch :=
    if existsb (fun k => has_prefix_up k tr) fmt_reset then []
    else if existsb (fun k => has_prefix_up k tr) fmt_indent then indent
    else if existsb (fun k => has_prefix_up k tr) fmt_reset2 then []
    else cur.
  (* trimCodeSpace: leading white space; trailing white space as far as it is code or the tail of a -- comment *)
  Definition tspace (p : cc) : bool := spacec (fst p) && ((snd p =? 0) || (snd p =? 3)).
  Definition trim_code (l : list cc) : list cc := trim_r tspace (trim_l (fun p => spacec (fst p)) l).
  Fixpoint fmt_lines (indent cur : list ch) (ls : list (bool * list cc)) : list (list ch) :=
    match ls with
    | [] => []
    | (flag, l) :: r =>
        if flag then
          match trim_code l with
          | [] => fmt_lines indent cur r
          | tr => let cur' := fmt_next_indent indent cur (chars tr) in (cur' ++ chars tr) :: fmt_lines indent cur' r
          end
        else chars l :: fmt_lines indent cur r       (* continuation of a multi-line literal or block comment *)
    end.
  Definition ends_nl (l : list ch) : bool := match rev l with c :: _ => is_nl c | [] => false end.
  Definition format_sql (tab : nat) (spaces final : bool) (t : list ch) : list ch :=
    let indent := if spaces then repeat spc tab else [asc 9] in
    let f := join_nl (fmt_lines indent [] (clines t)) in
    if final && negb (ends_nl f) && end_code (lex_end SCode t) then f ++ [nlc] else f.

End Lint.

(* ------------------------------------------------------------------------------------------------ *)
(* specification-side notions used in the statements of Props/C17.v *)

(* well-formed characters: what [decode] produces.  An ASCII byte occurs in the source bytes of a
   character only as that whole character (UTF-8 is self-synchronising). *)
Definition wfc (c : ch) : Prop :=
  raw c <> [] /\
  (forall b, In b (raw c) -> b < 128 -> raw c = [b] /\ cp c = b) /\
  (cp c < 128 -> raw c = [cp c]) /\
  (cp c < 128 -> valid c = true).
Definition wft (t : list ch) : Prop := forall c, In c t -> wfc c.

(* byte level: a text made of ASCII bytes, and a rewriter seen as a function on bytes *)
Definition ascii_bytes (s : list N) : bool := forallb (fun b => b <? 128) s.
Definition onbytes (f : list ch -> list ch) (s : list N) : list N := encode (f (decode s)).

(* the string forms that one character of look-behind cannot delimit, as the tokenizer reads them (its own loops, written
   with look-ahead): what the scanner must agree with *)
Definition ap (c : ch) : bool := cp c =? 39.
Definition starts1 (l : list ch) : bool := match l with a :: _ => ap a | _ => false end.
Definition starts2q (l : list ch) : bool := match l with a :: b :: _ => ap a && ap b | _ => false end.
Definition starts3 (l : list ch) : bool := match l with a :: b :: c :: _ => ap a && ap b && ap c | _ => false end.
(* readTripleQuotedString after the opening ''': the number of characters up to and including the first three
   apostrophes in a row; the whole text when there are none *)
Fixpoint tri_len (l : list ch) : nat :=
  match l with
  | [] => 0%nat
  | _ :: t => if starts3 l then 3%nat else S (tri_len t)
  end.
(* does the text begin with the characters k (compared as the scanner compares a character with one of the delimiter)? *)
Fixpoint pmatch (k l : list ch) : bool :=
  match k, l with
  | [], _ => true
  | x :: k', c :: l' => same_ch c x && pmatch k' l'
  | _ :: _, [] => false
  end.
(* the tokenizer's loop for a dollar-quoted string after its opening delimiter cl: the number of characters up to and
   including the first repetition of cl; the whole text when there is none *)
Fixpoint dol_len (cl l : list ch) : nat :=
  match l with
  | [] => 0%nat
  | _ :: t => if pmatch cl l then length cl else S (dol_len cl t)
  end.
Definition dl : ch := asc 36.
(* classes of a text that is m characters of a literal followed by code *)
Definition lit_code (is_idstart is_idpart : N -> bool) (m : nat) (l : list ch) : list N :=
  repeat 1 m ++ lex is_idstart is_idpart SCode (skipn m l).

(* L010: what the rule names.  r is a maximal run of two or more code spaces of the classified line l, after pre *)
Definition cspace_run (l pre r post : list cc) : Prop :=
  l = pre ++ r ++ post /\ forallb cspace r = true /\ (2 <= length r)%nat /\
  match lastc pre with Some q => cspace q = false | None => True end /\
  match post with d :: _ => cspace d = false | [] => True end.
(* strings.TrimLeft(line[:col], " \t") == "": the first col bytes of the line are spaces and tabs (indentation) *)
Definition indent_bytes (l : list cc) (col : nat) : bool :=
  forallb (fun b => (b =? 32) || (b =? 9)) (firstn col (encode (chars l))).

(* L007: what the rule names.  The scanner is inside a word after a code character that starts a word, or continues one *)
Section SpecWords.
  Variables is_letter is_digit : N -> bool.
  Fixpoint inword_after (inw : bool) (l : list cc) : bool :=
    match l with
    | [] => inw
    | p :: t => inword_after (wordc is_letter is_digit inw p) t
    end.
  (* w is a code word of the classified line l that begins at character index |pre|: it starts with a letter or '_' of code
     where no word is running, continues with letters, digits and '_' of code, and is not continued by the next character *)
  Definition code_word (l pre w post : list cc) : Prop :=
    l = pre ++ w ++ post /\ inword_after false pre = false /\
    match w with
    | p :: v => wordc is_letter is_digit false p = true /\ forallb (wordc is_letter is_digit true) v = true
    | [] => False
    end /\
    match post with [] => True | d :: _ => wordc is_letter is_digit true d = false end.
End SpecWords.

Section Spec.
  Variables is_idstart is_idpart : N -> bool.
  Variable is_space : N -> bool.
  Variable upper_ascii : N -> option N.

  (* number of consecutive blank lines of code from line i (0-based) on *)
  Definition run_from (ls : list (bool * list cc)) (i : nat) : nat := length (take_l (cblank is_space) (skipn i ls)).
  (* line i is a blank line of code and is the first of its run (cnt = blank lines pending before the list) *)
  Definition startsG (cnt : nat) (ls : list (bool * list cc)) (i : nat) : Prop :=
    (exists l, nth_error ls i = Some l /\ cblank is_space l = true) /\
    match i with O => cnt = 0%nat | S j => exists p, nth_error ls j = Some p /\ cblank is_space p = false end.

  (* whitespace: a Unicode space, a space or tab, or the newline *)
  Definition wsc (c : ch) : bool := spacec is_space c || is_blank c || is_nl c.
  (* case folding: a rune with an ASCII upper-case image is identified with that image *)
  Definition fold (c : ch) : N := match upper_ascii (cp c) with Some u => u | None => cp c end.

  (* the reading of a text: what a layout rewriter must keep.
     VW  one separator per run of code white space (none at the two ends of the text);
     VC  a code character, case folded;
     VL  a character of a string literal, quoted identifier or comment, exactly.
     White space that ends a -- comment (before the line break or the end of the text) is layout, not content. *)
  Inductive vtok := VW | VC (n : N) | VL (c : ch).
  Definition scons (x : vtok) (l : list vtok) : list vtok :=
    match x, l with
    | VW, [] => []
    | VW, VW :: _ => l
    | _, _ => x :: l
    end.
  Fixpoint strip_lead (l : list vtok) : list vtok := match l with VW :: t => strip_lead t | _ => l end.
  Definition vt (c : ch) : vtok := if wsc c then VW else VC (fold c).
  (* is the rest of the line white space only? *)
  Definition rest_ws (l : list cc) : bool := forallb (fun p => wsc (fst p)) l.
  Definition item (p : cc) (rest : list cc) : vtok :=
    if snd p =? 0 then vt (fst p)
    else if (snd p =? 3) && wsc (fst p) && rest_ws rest then VW
    else VL (fst p).
  (* the reading of one classified line, followed by Z *)
  Fixpoint RD (l : list cc) (Z : list vtok) : list vtok :=
    match l with
    | [] => Z
    | p :: t => scons (item p t) (RD t Z)
    end.
  (* the reading of the classified lines: a line break is a separator when the next line begins in code, and
     content of the literal / block comment it lies in otherwise *)
  Fixpoint RDL (ls : list (bool * list cc)) : list vtok :=
    match ls with
    | [] => []
    | fl :: r =>
        match r with
        | [] => RD (snd fl) []
        | fl2 :: _ => RD (snd fl) (scons (if fst fl2 then VW else VL nlc) (RDL r))
        end
    end.
  Definition reading (t : list ch) : list vtok := strip_lead (RDL (clines is_idstart is_idpart t)).

  (* the reading of a text as code only (every character of class 0) *)
  Definition R (l : list ch) (Z : list vtok) : list vtok := fold_right (fun c z => scons (vt c) z) Z l.
End Spec.

(* the characters of literals, quoted identifiers and comments in a reading *)
Definition lit_chars (r : list vtok) : list ch := flat_map (fun v => match v with VL c => [c] | _ => [] end) r.

(* ------------------------------------------------------------------------------------------------ *)
(* table lookups used to instantiate the parameters *)

(* the range tables are emitted in ascending order: stop at the first range that starts above x *)
Fixpoint in_ranges (rs : list (N * N)) (x : N) : bool :=
  match rs with
  | [] => false
  | (lo, hi) :: t => if x <? lo then false else if x <=? hi then true else in_ranges t x
  end.
Fixpoint assoc (m : list (N * N)) (x : N) : option N :=
  match m with
  | [] => None
  | (k, v) :: t => if k =? x then Some v else assoc t x
  end.

(* ------------------------------------------------------------------------------------------------ *)
(* correspondence cases (lib/c17.py): bytes in, expected bytes / violations out *)

Fixpoint nlist_eqb (a b : list N) : bool :=
  match a, b with
  | [], [] => true
  | x :: a', y :: b' => (x =? y) && nlist_eqb a' b'
  | _, _ => false
  end.
Definition viols_N (l : list viol) : list (N * N) := map (fun v : viol => (N.of_nat (fst v), N.of_nat (snd v))) l.
Fixpoint vlist_eqb (a b : list (N * N)) : bool :=
  match a, b with
  | [], [] => true
  | (x1, x2) :: a', (y1, y2) :: b' => (x1 =? y1) && (x2 =? y2) && vlist_eqb a' b'
  | _, _ => false
  end.
Fixpoint bad_idx {A} (f : A -> bool) (i : N) (l : list A) : list N :=
  match l with
  | [] => []
  | x :: r => if f x then bad_idx f (i + 1) r else i :: bad_idx f (i + 1) r
  end.

(* compact byte strings in generated case files: the bytes b1..bn are written as the hexadecimal numeral
   0x01 b1 .. bn (the leading 01 keeps leading zero bytes); [unpack n x] recovers the n bytes *)
Fixpoint unpack_go (n : nat) (x : N) (acc : list N) : list N :=
  match n with
  | O => acc
  | S k => unpack_go k (N.shiftr x 8) (N.land x 255 :: acc)
  end.
Definition unpack (p : nat * N) : list N := unpack_go (fst p) (snd p) [].
