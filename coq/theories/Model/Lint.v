(* Lint.v — executable model of the text level of pkg/linter (rules L001, L002, L003, L005, L007, L010),
   of the CLI auto-fix pipeline (cmd/gosqlx/cmd/lint.go) and of the language server's format action
   (formatSQL in pkg/lsp/handler.go).  Definitions only.

   Text.  Go strings are byte strings; the rules walk them either byte-wise (len, indexing, TrimRight with
   an ASCII cut set) or rune-wise (`for i, ch := range line`, []rune(line), strings.TrimSpace).  A text is
   therefore modelled as the list of its decoded characters [ch]: code point, source bytes, validity
   (an invalid byte decodes to U+FFFD of width 1, exactly as utf8.DecodeRune does).  Byte offsets
   (columns) are sums of source widths; strings.Builder.WriteRune of an invalid character writes
   EF BF BD, which is [wr].  [decode] / [encode] connect the model to the bytes the implementation
   sees; they are validated, like everything else here, by the byte-for-byte correspondence.

   The Unicode classes (unicode.IsLetter / IsDigit / IsSpace), the runes whose unicode.ToUpper image is
   an ASCII letter and the keyword set of L007 are parameters of the model; lib/c17.py regenerates them
   from the toolchain / the source into Gen/LintTables.v on every run. *)
From Coq Require Import List NArith Bool Arith.
Import ListNotations.
Local Open Scope N_scope.

(* ------------------------------------------------------------------------------------------------ *)
(* characters *)

Record ch := mkch { cp : N; raw : list N; valid : bool }.

Definition asc (b : N) : ch := mkch b [b] true.
Definition badc (b : N) : ch := mkch 65533 [b] false.
Definition cont (b : N) : bool := (128 <=? b) && (b <=? 191).
Definition between (lo x hi : N) : bool := (lo <=? x) && (x <=? hi).

(* utf8.DecodeRune on a non-empty byte string *)
Definition dec1 (s : list N) : ch :=
  match s with
  | [] => badc 0
  | b0 :: t =>
      if b0 <? 128 then asc b0
      else if between 194 b0 223 then
        match t with
        | b1 :: _ => if cont b1 then mkch ((b0 - 192) * 64 + (b1 - 128)) [b0; b1] true else badc b0
        | _ => badc b0
        end
      else if between 224 b0 239 then
        match t with
        | b1 :: b2 :: _ =>
            if between (if b0 =? 224 then 160 else 128) b1 (if b0 =? 237 then 159 else 191) && cont b2
            then mkch ((b0 - 224) * 4096 + (b1 - 128) * 64 + (b2 - 128)) [b0; b1; b2] true
            else badc b0
        | _ => badc b0
        end
      else if between 240 b0 244 then
        match t with
        | b1 :: b2 :: b3 :: _ =>
            if between (if b0 =? 240 then 144 else 128) b1 (if b0 =? 244 then 143 else 191) && cont b2 && cont b3
            then mkch ((b0 - 240) * 262144 + (b1 - 128) * 4096 + (b2 - 128) * 64 + (b3 - 128)) [b0; b1; b2; b3] true
            else badc b0
        | _ => badc b0
        end
      else badc b0
  end.

Fixpoint decode_go (skip : nat) (s : list N) : list ch :=
  match s with
  | [] => []
  | b :: t =>
      match skip with
      | S k => decode_go k t
      | O => let c := dec1 s in c :: decode_go (length (raw c) - 1) t
      end
  end.
Definition decode (s : list N) : list ch := decode_go 0 s.
Definition encode (l : list ch) : list N := flat_map raw l.

(* what strings.Builder.WriteRune(ch) appends for a character obtained by ranging over a string *)
(* (an undecodable byte has code point U+FFFD already; keeping [cp c] makes [wr] code-point preserving
   on every record, decoded or not) *)
Definition wr (c : ch) : ch := if valid c then c else mkch (cp c) [239; 191; 189] true.

Definition width (c : ch) : nat := length (raw c).
Definition blen (l : list ch) : nat := fold_right (fun c n => (width c + n)%nat) 0%nat l.

(* the newline character is the byte 0A itself (the only character with code point 10 that [decode] produces) *)
Definition is_nl (c : ch) : bool :=
  (cp c =? 10) && valid c && match raw c with [b] => b =? 10 | _ => false end.
Definition is_sp (c : ch) : bool := cp c =? 32.
Definition is_tab (c : ch) : bool := cp c =? 9.
Definition is_blank (c : ch) : bool := is_sp c || is_tab c.      (* the cut set " \t" *)
Definition nlc : ch := asc 10.
Definition spc : ch := asc 32.

(* ------------------------------------------------------------------------------------------------ *)
(* strings.Split(s, "\n") / strings.Join(lines, "\n") *)

Fixpoint split_nl (l : list ch) : list (list ch) :=
  match l with
  | [] => [[]]
  | c :: t =>
      if is_nl c then [] :: split_nl t
      else match split_nl t with
           | h :: r => (c :: h) :: r
           | [] => [[c]]
           end
  end.

Fixpoint join_nl (ls : list (list ch)) : list ch :=
  match ls with
  | [] => []
  | [x] => x
  | x :: r => x ++ nlc :: join_nl r
  end.

(* generic trimming *)
Fixpoint trim_l {A} (p : A -> bool) (l : list A) : list A :=
  match l with
  | [] => []
  | c :: t => if p c then trim_l p t else l
  end.
Fixpoint take_l {A} (p : A -> bool) (l : list A) : list A :=
  match l with
  | [] => []
  | c :: t => if p c then c :: take_l p t else []
  end.
Fixpoint trim_r {A} (p : A -> bool) (l : list A) : list A :=
  match l with
  | [] => []
  | c :: t => match trim_r p t with
              | [] => if p c then [] else [c]
              | t' => c :: t'
              end
  end.

(* a violation: 1-based line, 1-based byte column *)
Definition viol := (nat * nat)%type.

(* run [f lineNumber line] over the lines, concatenating the reported violations *)
Fixpoint on_lines (f : nat -> list ch -> list viol) (n : nat) (ls : list (list ch)) : list viol :=
  match ls with
  | [] => []
  | l :: r => f n l ++ on_lines f (S n) r
  end.

Fixpoint last_byte (l : list N) : option N :=
  match l with
  | [] => None
  | [b] => Some b
  | _ :: t => last_byte t
  end.

(* `ch == '-' && strings.HasPrefix(line[i:], "--")`: a line comment starts at c (next character: head of t) *)
Definition next_is (n : N) (t : list ch) : bool := match t with d :: _ => cp d =? n | [] => false end.
Definition cstart (c : ch) (t : list ch) : bool := (cp c =? 45) && next_is 45 t.

Section Lint.
  Variables is_letter is_digit is_space : N -> bool.
  Variable upper_ascii : N -> option N.
  Variable keywords : list (list N).

  (* unicode.IsSpace of a character met while ranging over a string (RuneError is not a space) *)
  Definition spacec (c : ch) : bool := is_space (cp c).
  (* strings.TrimSpace *)
  Definition trim_space (l : list ch) : list ch := trim_r spacec (trim_l spacec l).
  Definition blank_line (l : list ch) : bool := match trim_space l with [] => true | _ => false end.

  (* ---------------------------------------------------------------------------------------------- *)
  (* L001 trailing whitespace *)

  Definition l001_fix_line (l : list ch) : list ch := trim_r is_blank l.
  Definition l001_fix (t : list ch) : list ch := join_nl (map l001_fix_line (split_nl t)).

  (* Check: `lastChar := line[len(line)-1]`; lastChar == ' ' || lastChar == '\t' *)
  Definition l001_flag (l : list ch) : bool :=
    match last_byte (encode l) with
    | None => false
    | Some b => (b =? 32) || (b =? 9)
    end.
  Definition l001_check_line (n : nat) (l : list ch) : list viol :=
    if l001_flag l then [(n, S (blen (trim_r is_blank l)))] else [].
  Definition l001_check (t : list ch) : list viol := on_lines l001_check_line 1 (split_nl t).

  (* ---------------------------------------------------------------------------------------------- *)
  (* L002 mixed indentation *)

  Definition leading_ws (l : list ch) : list ch := take_l is_blank l.
  Definition tab4 (c : ch) : list ch := if is_tab c then [spc; spc; spc; spc] else [c].
  Definition l002_fix_line (l : list ch) : list ch :=
    match leading_ws l with
    | [] => l
    | lw => flat_map tab4 lw ++ trim_l is_blank l
    end.
  Definition l002_fix (t : list ch) : list ch := join_nl (map l002_fix_line (split_nl t)).

  (* firstIndentType: 0 = none yet, 1 = tab, 2 = space *)
  Fixpoint l002_check_lines (first : N) (n : nat) (ls : list (list ch)) : list viol :=
    match ls with
    | [] => []
    | l :: r =>
        let lw := leading_ws l in
        match lw with
        | [] => l002_check_lines first (S n) r
        | _ =>
            let ht := existsb is_tab lw in
            let hs := existsb is_sp lw in
            if ht && hs then (n, 1%nat) :: l002_check_lines first (S n) r
            else
              let cur := if ht then 1 else 2 in          (* lw is non-empty and holds only tabs/spaces *)
              if first =? 0 then l002_check_lines cur (S n) r
              else if first =? cur then l002_check_lines first (S n) r
              else (n, 1%nat) :: l002_check_lines first (S n) r
        end
    end.
  Definition l002_check (t : list ch) : list viol := l002_check_lines 0 1 (split_nl t).

  (* ---------------------------------------------------------------------------------------------- *)
  (* L003 consecutive blank lines (maxConsecutive = mx) *)

  Fixpoint l003_pass (mx : nat) (cnt : nat) (ls : list (list ch)) : list (list ch) :=
    match ls with
    | [] => []
    | l :: r =>
        if blank_line l then
          if (S cnt <=? mx)%nat then l :: l003_pass mx (S cnt) r else l003_pass mx (S cnt) r
        else l :: l003_pass mx 0 r
    end.
  (* the loop that trims the blank lines at the end of [result] down to at most mx *)
  Definition trailing_blanks (ls : list (list ch)) : nat := length (take_l blank_line (rev ls)).
  Fixpoint l003_trim_end (fuel : nat) (mx : nat) (ls : list (list ch)) : list (list ch) :=
    match fuel with
    | O => ls
    | S k =>
        match rev ls with
        | [] => ls
        | lst :: _ =>
            if blank_line lst then
              if (mx <? trailing_blanks ls)%nat then l003_trim_end k mx (removelast ls) else ls
            else ls
        end
    end.
  Definition l003_fix_mx (mx : nat) (t : list ch) : list ch :=
    let res := l003_pass mx 0 (split_nl t) in
    join_nl (l003_trim_end (length res) mx res).
  Definition l003_fix := l003_fix_mx 1.

  (* Check: one violation per run of more than mx blank lines, at the first line of the run *)
  Fixpoint l003_check_lines (mx : nat) (cnt start : nat) (n : nat) (ls : list (list ch)) : list viol :=
    match ls with
    | [] => if (mx <? cnt)%nat then [(start, 1%nat)] else []
    | l :: r =>
        if blank_line l then
          l003_check_lines mx (S cnt) (if (cnt =? 0)%nat then n else start) (S n) r
        else
          (if (mx <? cnt)%nat then [(start, 1%nat)] else []) ++ l003_check_lines mx 0 start (S n) r
    end.
  Definition l003_check_mx (mx : nat) (t : list ch) : list viol := l003_check_lines mx 0 0 1 (split_nl t).
  Definition l003_check := l003_check_mx 1.

  (* ---------------------------------------------------------------------------------------------- *)
  (* L005 long lines (no fixer) *)

  Definition starts2 (a b : N) (l : list ch) : bool :=
    match l with
    | x :: y :: _ => (cp x =? a) && (cp y =? b)
    | _ => false
    end.
  Definition l005_check_line (mx : nat) (n : nat) (l : list ch) : list viol :=
    match l with
    | [] => []
    | _ =>
        let tr := trim_space l in
        if starts2 45 45 tr || starts2 47 42 tr then []
        else if (mx <? blen l)%nat then [(n, S mx)] else []
    end.
  Definition l005_check (mx : nat) (t : list ch) : list viol := on_lines (l005_check_line mx) 1 (split_nl t).

  (* ---------------------------------------------------------------------------------------------- *)
  (* the per-line quote tracker shared by L007 and L010: None = outside, Some q = inside a literal opened by q *)

  (* single quote 39, double quote 34 (string literals, quoted identifiers) and back quote 96 (back-quoted identifiers) *)
  Definition is_quote (c : ch) : bool := (cp c =? 39) || (cp c =? 34) || (cp c =? 96).

  (* ---------------------------------------------------------------------------------------------- *)
  (* L010 redundant whitespace *)

  (* fixLine, the loop over [trimmed] *)
  Fixpoint l010_scan (q : option N) (prev_space : bool) (l : list ch) : list ch :=
    match l with
    | [] => []
    | c :: t =>
        match q with
        | None =>
            if cstart c t then c :: t              (* the comment is copied unchanged: WriteString(trimmed[i:]) *)
            else if is_quote c then wr c :: l010_scan (Some (cp c)) false t
            else if is_sp c then (if prev_space then [] else [wr c]) ++ l010_scan None true t
            else wr c :: l010_scan None false t
        | Some k =>
            wr c :: l010_scan (if cp c =? k then None else Some k) prev_space t
        end
    end.
  (* the first loop: leading = line[:i], trimmed = line[i:] at the first non-blank; if there is none the
     whole line is "trimmed" *)
  Definition l010_fix_line (l : list ch) : list ch :=
    match trim_l is_blank l with
    | [] => l010_scan None false l
    | rest => take_l is_blank l ++ l010_scan None false rest
    end.
  Definition l010_fix (t : list ch) : list ch := join_nl (map l010_fix_line (split_nl t)).

  (* extractNonStringParts: (startCol, text as written by WriteRune) *)
  Fixpoint l010_parts (q : option N) (i : nat) (start : nat) (cur : list ch) (l : list ch)
    : list (nat * list ch) :=
    match l with
    | [] => match cur with [] => [] | _ => [(start, rev cur)] end
    | c :: t =>
        let i' := (i + width c)%nat in
        match q with
        | None =>
            if cstart c t then match cur with [] => [] | _ => [(start, rev cur)] end     (* break *)
            else if is_quote c then
              (match cur with [] => [] | _ => [(start, rev cur)] end) ++ l010_parts (Some (cp c)) i' start [] t
            else
              l010_parts None i' (match cur with [] => i | _ => start end) (wr c :: cur) t
        | Some k =>
            if cp c =? k then l010_parts None i' i' cur t
            else l010_parts q i' start cur t
        end
    end.
  (* regexp `  +` FindAllStringIndex: byte offsets (in the rewritten part) of the maximal runs of >= 2 spaces *)
  Fixpoint sp_runs (off : nat) (run : nat) (runstart : nat) (l : list ch) : list nat :=
    match l with
    | [] => if (2 <=? run)%nat then [runstart] else []
    | c :: t =>
        if is_sp c then sp_runs (off + width c) (S run) (if (run =? 0)%nat then off else runstart) t
        else (if (2 <=? run)%nat then [runstart] else []) ++ sp_runs (off + width c) 0 runstart t
    end.
  Definition first_blank (l : list ch) : bool := match l with c :: _ => is_blank c | [] => false end.
  Definition l010_check_line (n : nat) (l : list ch) : list viol :=
    flat_map (fun p : nat * list ch =>
                flat_map (fun m : nat =>
                            let col := S (fst p + m) in
                            (* column <= len(line) && strings.TrimLeft(line[:column], " \t") == "" *)
                            if (col <=? blen l)%nat && forallb (fun b => (b =? 32) || (b =? 9)) (firstn col (encode l)) then []
                            else [(n, col)])
                         (sp_runs 0 0 0 (snd p)))
             (l010_parts None 0 0 [] l).
  Definition l010_check (t : list ch) : list viol := on_lines l010_check_line 1 (split_nl t).

  (* ---------------------------------------------------------------------------------------------- *)
  (* L007 keyword case (preferred style: upper, the CLI's configuration) *)

  Definition word_start (c : ch) : bool := is_letter (cp c) || (cp c =? 95).
  Definition word_char (c : ch) : bool := word_start c || is_digit (cp c).

  Definition list_eqb (a b : list N) : bool :=
    (length a =? length b)%nat && forallb (fun p : N * N => fst p =? snd p) (combine a b).
  Fixpoint all_some (l : list (option N)) : option (list N) :=
    match l with
    | [] => Some []
    | None :: _ => None
    | Some x :: t => match all_some t with Some r => Some (x :: r) | None => None end
    end.
  (* sqlKeywords[strings.ToUpper(word)]: Some upperWord when it is a keyword *)
  Definition kw_of (w : list ch) : option (list N) :=
    match all_some (map (fun c => upper_ascii (cp c)) w) with
    | Some u => if existsb (list_eqb u) keywords then Some u else None
    | None => None
    end.
  (* convertKeyword *)
  Definition conv_word (w : list ch) : list ch :=
    match kw_of w with
    | Some u => map asc u
    | None => w
    end.
  (* word.text != upperWord *)
  Definition word_viol (w : list ch) : bool :=
    match kw_of w with
    | Some u => negb (list_eqb (encode w) u)
    | None => false
    end.

  (* fixLine: cur = current word (reversed); None/Some quote state *)
  Fixpoint l007_scan (q : option N) (cur : option (list ch)) (l : list ch) : list ch :=
    let flush := match cur with Some w => conv_word (rev w) | None => [] end in
    match l with
    | [] => flush
    | c :: t =>
        match q with
        | None =>
            if cstart c t then flush ++ c :: t     (* the comment is copied unchanged: WriteString(line[i:]) *)
            else if is_quote c then flush ++ wr c :: l007_scan (Some (cp c)) None t
            else
              let inw := match cur with Some _ => true | None => false end in
              if word_start c || (inw && is_digit (cp c)) then
                l007_scan None (Some (wr c :: match cur with Some w => w | None => [] end)) t
              else flush ++ wr c :: l007_scan None None t
        | Some k =>
            wr c :: l007_scan (if cp c =? k then None else Some k) cur t
        end
    end.
  Definition l007_fix_line (l : list ch) : list ch := l007_scan None None l.
  Definition l007_fix (t : list ch) : list ch := join_nl (map l007_fix_line (split_nl t)).

  (* tokenizeLine: (column, word) list *)
  Fixpoint l007_words (q : option N) (i : nat) (cur : option (nat * list ch)) (l : list ch)
    : list (nat * list ch) :=
    let flush := match cur with Some (s, w) => [(S s, rev w)] | None => [] end in
    match l with
    | [] => flush
    | c :: t =>
        let i' := (i + width c)%nat in
        match q with
        | None =>
            if cstart c t then flush               (* break *)
            else if is_quote c then flush ++ l007_words (Some (cp c)) i' None t
            else
              let inw := match cur with Some _ => true | None => false end in
              if word_start c || (inw && is_digit (cp c)) then
                l007_words None i' (Some (match cur with Some (s, w) => (s, wr c :: w) | None => (i, [wr c]) end)) t
              else flush ++ l007_words None i' None t
        | Some k =>
            l007_words (if cp c =? k then None else Some k) i' cur t
        end
    end.
  Definition l007_check_line (n : nat) (l : list ch) : list viol :=
    flat_map (fun p : nat * list ch => if word_viol (snd p) then [(n, fst p)] else [])
             (l007_words None 0 None l).
  Definition l007_check (t : list ch) : list viol := on_lines l007_check_line 1 (split_nl t).

  (* ---------------------------------------------------------------------------------------------- *)
  (* the CLI's --auto-fix loop: every auto-fixable rule of createLinter(), in registration order *)

  Definition cli_fix (t : list ch) : list ch := l007_fix (l010_fix (l003_fix (l002_fix (l001_fix t)))).

  (* ---------------------------------------------------------------------------------------------- *)
  (* language server: formatSQL(sql, opts) *)

  Fixpoint has_prefix_up (k : list N) (l : list ch) : bool :=
    match k with
    | [] => true
    | x :: k' =>
        match l with
        | c :: t => match upper_ascii (cp c) with
                    | Some u => (u =? x) && has_prefix_up k' t
                    | None => false
                    end
        | [] => false
        end
    end.
  (* keyword prefixes, as byte lists: groups that reset the indent, and the AND/OR group that sets it *)
  Definition fmt_reset : list (list N) :=
    [ [83;69;76;69;67;84]; [73;78;83;69;82;84]; [85;80;68;65;84;69]; [68;69;76;69;84;69]; [67;82;69;65;84;69];
      [68;82;79;80]; [65;76;84;69;82]; [87;73;84;72];
      [70;82;79;77]; [87;72;69;82;69]; [83;69;84]; [86;65;76;85;69;83] ].
  Definition fmt_indent : list (list N) := [ [65;78;68]; [79;82] ].
  Definition fmt_reset2 : list (list N) :=
    [ [74;79;73;78]; [76;69;70;84]; [82;73;71;72;84]; [73;78;78;69;82]; [79;85;84;69;82]; [67;82;79;83;83];
      [71;82;79;85;80]; [79;82;68;69;82]; [72;65;86;73;78;71]; [76;73;77;73;84] ].
  Definition fmt_next_indent (indent cur : list ch) (tr : list ch) : list ch :=
    if existsb (fun k => has_prefix_up k tr) fmt_reset then []
    else if existsb (fun k => has_prefix_up k tr) fmt_indent then indent
    else if existsb (fun k => has_prefix_up k tr) fmt_reset2 then []
    else cur.
  Fixpoint fmt_lines (indent cur : list ch) (ls : list (list ch)) : list (list ch) :=
    match ls with
    | [] => []
    | l :: r =>
        match trim_space l with
        | [] => fmt_lines indent cur r
        | tr => let cur' := fmt_next_indent indent cur tr in (cur' ++ tr) :: fmt_lines indent cur' r
        end
    end.
  Definition ends_nl (l : list ch) : bool := match rev l with c :: _ => is_nl c | [] => false end.
  Definition format_sql (tab : nat) (spaces final : bool) (t : list ch) : list ch :=
    let indent := if spaces then repeat spc tab else [asc 9] in
    let f := join_nl (fmt_lines indent [] (split_nl t)) in
    if final && negb (ends_nl f) then f ++ [nlc] else f.

End Lint.

(* ------------------------------------------------------------------------------------------------ *)
(* specification-side notions used in the statements of Props/C17.v *)

(* well-formed characters: what [decode] produces.  An ASCII byte occurs in the source bytes of a
   character only as that whole character (UTF-8 is self-synchronising). *)
Definition wfc (c : ch) : Prop :=
  raw c <> [] /\
  (forall b, In b (raw c) -> b < 128 -> raw c = [b] /\ cp c = b) /\
  (cp c < 128 -> raw c = [cp c]) /\
  (cp c < 128 -> valid c = true).
Definition wft (t : list ch) : Prop := forall c, In c t -> wfc c.

Fixpoint lastc {A} (l : list A) : option A :=
  match l with
  | [] => None
  | [c] => Some c
  | _ :: t => lastc t
  end.
(* the defect L001 names: the line ends in a space or a tab *)
Definition ends_blank (l : list ch) : Prop := exists c, lastc l = Some c /\ is_blank c = true.

(* byte level: a text made of ASCII bytes, and a rewriter seen as a function on bytes *)
Definition ascii_bytes (s : list N) : bool := forallb (fun b => b <? 128) s.
Definition onbytes (f : list ch -> list ch) (s : list N) : list N := encode (f (decode s)).

(* what L002 and L003 name *)
(* indentation kind of a line: 0 none, 1 tabs only, 2 spaces only, 3 mixed *)
Definition ikind (l : list ch) : N :=
  match leading_ws l with
  | [] => 0
  | lw => if existsb is_tab lw && existsb is_sp lw then 3 else if existsb is_tab lw then 1 else 2
  end.
(* the indentation style of the first purely indented line *)
Fixpoint first_pure (ks : list N) : N :=
  match ks with
  | [] => 0
  | k :: r => if (k =? 1) || (k =? 2) then k else first_pure r
  end.
Definition eff (first : N) (pre : list (list ch)) : N := if first =? 0 then first_pure (map ikind pre) else first.
(* the defect L002 names: the line mixes tabs and spaces, or is purely indented in another style than the first such line *)
Definition l002_defect (first : N) (pre : list (list ch)) (l : list ch) : Prop :=
  ikind l = 3 \/ ((ikind l = 1 \/ ikind l = 2) /\ eff first pre <> 0 /\ eff first pre <> ikind l).

(* number of consecutive blank lines from line i (0-based) on *)
Definition run_from (is_space : N -> bool) (ls : list (list ch)) (i : nat) : nat := length (take_l (blank_line is_space) (skipn i ls)).
(* line i is blank and is the first of its run (cnt = blank lines pending before the list) *)
Definition startsG (is_space : N -> bool) (cnt : nat) (ls : list (list ch)) (i : nat) : Prop :=
  (exists l, nth_error ls i = Some l /\ blank_line is_space l = true) /\
  match i with O => cnt = 0%nat | S j => exists p, nth_error ls j = Some p /\ blank_line is_space p = false end.

Section Spec.
  Variable is_space : N -> bool.
  Variable upper_ascii : N -> option N.

  (* whitespace: a Unicode space, the blanks of the cut set " \t", or the newline *)
  Definition wsc (c : ch) : bool := spacec is_space c || is_blank c || is_nl c.
  (* the "ink" of a text: the code points of its non-whitespace characters *)
  Definition ink (t : list ch) : list N := map cp (filter (fun c => negb (wsc c)) t).
  (* case folding: a rune with an ASCII upper-case image is identified with that image *)
  Definition fold (c : ch) : N := match upper_ascii (cp c) with Some u => u | None => cp c end.

  (* the reading of a text as code: separators (one per run of whitespace, none at the two ends) and the
     case-folded non-blank characters.  Two texts with the same reading differ only in the amount of
     whitespace between the same character runs and in letter case: nothing is added, dropped or merged. *)
  (* VW separator, VC case-folded code character, VL character of a literal / quoted identifier / comment (exact) *)
  Inductive vtok := VW | VC (n : N) | VL (c : ch).
  Definition scons (x : vtok) (l : list vtok) : list vtok :=
    match x, l with
    | VW, [] => []
    | VW, VW :: _ => l
    | _, _ => x :: l
    end.
  Fixpoint strip_lead (l : list vtok) : list vtok := match l with VW :: t => strip_lead t | _ => l end.
  Definition vt (c : ch) : vtok := if wsc c then VW else VC (fold c).
  (* R l Z: the reading of l followed by a text whose reading is Z *)
  Definition R (l : list ch) (Z : list vtok) : list vtok := fold_right (fun c z => scons (vt c) z) Z l.
  Definition cview (t : list ch) : list vtok := strip_lead (R t []).

  (* the lexical reading proper: an independent classification of every character as code (0), part of a
     string literal or quoted identifier (1) or part of a comment (2), by the SQL lexical rules for
     '...', "...", `...` (a doubled quote re-opens at once), -- to end of line, and /* ... */ *)
  Inductive lstate := LCode | LStr (q : N) | LLine | LBlockOpen | LBlock | LBlockClose.
  Definition quote3 (c : ch) : bool := (cp c =? 39) || (cp c =? 34) || (cp c =? 96).
  Fixpoint lex (st : lstate) (l : list ch) : list N :=
    match l with
    | [] => []
    | c :: t =>
        match st with
        | LCode =>
            if quote3 c then 1 :: lex (LStr (cp c)) t
            else if (cp c =? 45) && next_is 45 t then 2 :: lex LLine t
            else if (cp c =? 47) && next_is 42 t then 2 :: lex LBlockOpen t
            else 0 :: lex LCode t
        | LStr q => 1 :: lex (if cp c =? q then LCode else LStr q) t
        | LLine => if is_nl c then 0 :: lex LCode t else 2 :: lex LLine t
        | LBlockOpen => 2 :: lex LBlock t
        | LBlock => if (cp c =? 42) && next_is 47 t then 2 :: lex LBlockClose t else 2 :: lex LBlock t
        | LBlockClose => 2 :: lex LCode t
        end
    end.
  (* code characters are read as in [cview]; characters of literals and comments are read exactly *)
  Fixpoint R2 (cls : list N) (l : list ch) (Z : list vtok) : list vtok :=
    match l, cls with
    | c :: t, k :: ks => scons (if k =? 0 then vt c else VL c) (R2 ks t Z)
    | _, _ => Z
    end.
  Definition reading (t : list ch) : list vtok := strip_lead (R2 (lex LCode t) t []).
  (* a text without any literal, quoted identifier or comment *)
  Definition plain (t : list ch) : bool := forallb (fun k => k =? 0) (lex LCode t).
End Spec.

(* ------------------------------------------------------------------------------------------------ *)
(* table lookups used to instantiate the parameters *)

(* the range tables are emitted in ascending order: stop at the first range that starts above x *)
Fixpoint in_ranges (rs : list (N * N)) (x : N) : bool :=
  match rs with
  | [] => false
  | (lo, hi) :: t => if x <? lo then false else if x <=? hi then true else in_ranges t x
  end.
Fixpoint assoc (m : list (N * N)) (x : N) : option N :=
  match m with
  | [] => None
  | (k, v) :: t => if k =? x then Some v else assoc t x
  end.

(* ------------------------------------------------------------------------------------------------ *)
(* correspondence cases (lib/c17.py): bytes in, expected bytes / violations out *)

Fixpoint nlist_eqb (a b : list N) : bool :=
  match a, b with
  | [], [] => true
  | x :: a', y :: b' => (x =? y) && nlist_eqb a' b'
  | _, _ => false
  end.
Definition viols_N (l : list viol) : list (N * N) := map (fun v : viol => (N.of_nat (fst v), N.of_nat (snd v))) l.
Fixpoint vlist_eqb (a b : list (N * N)) : bool :=
  match a, b with
  | [], [] => true
  | (x1, x2) :: a', (y1, y2) :: b' => (x1 =? y1) && (x2 =? y2) && vlist_eqb a' b'
  | _, _ => false
  end.
Fixpoint bad_idx {A} (f : A -> bool) (i : N) (l : list A) : list N :=
  match l with
  | [] => []
  | x :: r => if f x then bad_idx f (i + 1) r else i :: bad_idx f (i + 1) r
  end.

(* compact byte strings in generated case files: the bytes b1..bn are written as the hexadecimal numeral
   0x01 b1 .. bn (the leading 01 keeps leading zero bytes); [unpack n x] recovers the n bytes *)
Fixpoint unpack_go (n : nat) (x : N) (acc : list N) : list N :=
  match n with
  | O => acc
  | S k => unpack_go k (N.shiftr x 8) (N.land x 255 :: acc)
  end.
Definition unpack (p : nat * N) : list N := unpack_go (fst p) (snd p) [].
