(* Metrics.v — the update protocol of the process-wide metrics (pkg/metrics, pkg/sql/monitor) under
   arbitrary interleaving.

   A Record* function of the Go code is translated (tools/gotables, go/ast + go/types, regenerated on
   every run into Gen/MetricsProg.v) into a list of SECTIONS.  A section touches exactly one shared
   location: an atomic add, an atomic store, or a read-modify-write mini program (atomic Load / Store /
   Add / CompareAndSwap, conditional jumps: the `if` and `for` of the source) on that location.  A thread
   executes the sections of one call in order, one instruction per step; a schedule is ANY list of thread
   ids, over ANY number of threads — every interleaving at the granularity of single atomic operations.
   (All shared accesses of the translated code are sync/atomic operations, which are sequentially
   consistent in the Go memory model; a plain access is translated to an RMW section marked by the
   translator and is never accepted by the instance check.)

   Definitions only; the proofs are in Proofs/MetricsP.v. *)
From Coq Require Import List ZArith NArith Bool Arith.
Import ListNotations.
Local Open Scope Z_scope.

Definition loc := N.
Definition reg := nat.

Inductive expr :=
| EArg (n : nat)          (* n-th argument of the call (int64(querySize), int64(duration), err as 0/1, clock reads) *)
| EReg (r : reg)          (* local of the read-modify-write program *)
| EConst (z : Z)
| EAdd (a b : expr).

Inductive cond :=
| CTrue
| CLt (a b : expr)
| CEq (a b : expr)
| CNot (c : cond)
| CAnd (a b : cond)
| COr (a b : cond).

Inductive instr :=
| ILoad (r : reg)                      (* r := atomic.Load(l) *)
| IStore (e : expr)                    (* atomic.Store(l, e) *)
| IAdd (e : expr)                      (* atomic.Add(l, e) *)
| ICas (r : reg) (old new : expr)      (* r := atomic.CompareAndSwap(l, old, new)  (1 / 0) *)
| IJmpIf (c : cond) (t : nat)
| IJmp (t : nat)
| IRet.

Inductive body :=
| BAdd (e : expr)
| BStore (e : expr)
| BRmw (p : list instr)
| BUnknown.                            (* statement the translator does not recognise: never accepted *)

Record section := { s_cond : cond; s_loc : loc; s_body : body }.

(* ---- evaluation ---- *)
Definition nthZ (l : list Z) (n : nat) : Z := nth n l 0.

Fixpoint eval (args regs : list Z) (e : expr) : Z :=
  match e with
  | EArg n => nthZ args n
  | EReg r => nthZ regs r
  | EConst z => z
  | EAdd a b => eval args regs a + eval args regs b
  end.

Fixpoint evalc (args regs : list Z) (c : cond) : bool :=
  match c with
  | CTrue => true
  | CLt a b => eval args regs a <? eval args regs b
  | CEq a b => eval args regs a =? eval args regs b
  | CNot c => negb (evalc args regs c)
  | CAnd a b => evalc args regs a && evalc args regs b
  | COr a b => evalc args regs a || evalc args regs b
  end.

Fixpoint set_nth (l : list Z) (n : nat) (v : Z) : list Z :=
  match n, l with
  | O, [] => [v]
  | O, _ :: t => v :: t
  | S k, [] => 0 :: set_nth [] k v
  | S k, h :: t => h :: set_nth t k v
  end.

Fixpoint reg_free (e : expr) : bool :=
  match e with
  | EReg _ => false
  | EAdd a b => reg_free a && reg_free b
  | _ => true
  end.

(* ---- threads ---- *)
Record thread := { t_secs : list section; t_args : list Z; t_si : nat; t_pc : nat; t_regs : list Z }.

Definition mem := loc -> Z.
Definition upd (m : mem) (l : loc) (v : Z) : mem := fun l' => if N.eqb l' l then v else m l'.

Definition next_sec (t : thread) : thread :=
  {| t_secs := t_secs t; t_args := t_args t; t_si := S (t_si t); t_pc := 0%nat; t_regs := [] |}.
Definition at_pc (t : thread) (pc : nat) (regs : list Z) : thread :=
  {| t_secs := t_secs t; t_args := t_args t; t_si := t_si t; t_pc := pc; t_regs := regs |}.

Definition step_instr (m : mem) (t : thread) (l : loc) (i : instr) : mem * thread :=
  let a := t_args t in let rs := t_regs t in let pc := t_pc t in
  match i with
  | ILoad r => (m, at_pc t (S pc) (set_nth rs r (m l)))
  | IStore e => (upd m l (eval a rs e), at_pc t (S pc) rs)
  | IAdd e => (upd m l (m l + eval a rs e), at_pc t (S pc) rs)
  | ICas r old new =>
      if m l =? eval a rs old
      then (upd m l (eval a rs new), at_pc t (S pc) (set_nth rs r 1))
      else (m, at_pc t (S pc) (set_nth rs r 0))
  | IJmpIf c tg => (m, at_pc t (if evalc a rs c then tg else S pc) rs)
  | IJmp tg => (m, at_pc t tg rs)
  | IRet => (m, next_sec t)
  end.

(* one step of one thread.  Section-level conditions and operands only see the arguments. *)
Definition step_thread (m : mem) (t : thread) : mem * thread :=
  match nth_error (t_secs t) (t_si t) with
  | None => (m, t)                                            (* finished: stutter *)
  | Some s =>
      if negb (evalc (t_args t) [] (s_cond s)) then (m, next_sec t)
      else match s_body s with
           | BAdd e => (upd m (s_loc s) (m (s_loc s) + eval (t_args t) [] e), next_sec t)
           | BStore e => (upd m (s_loc s) (eval (t_args t) [] e), next_sec t)
           | BUnknown => (m, next_sec t)
           | BRmw p => match nth_error p (t_pc t) with
                       | None => (m, next_sec t)              (* fell off the end = return *)
                       | Some i => step_instr m t (s_loc s) i
                       end
           end
  end.

Fixpoint set_thread (ts : list thread) (n : nat) (t : thread) : list thread :=
  match n, ts with
  | _, [] => []
  | O, _ :: r => t :: r
  | S k, h :: r => h :: set_thread r k t
  end.

Definition config := (mem * list thread)%type.

Definition step (c : config) (tid : nat) : config :=
  match nth_error (snd c) tid with
  | None => c
  | Some t => let (m', t') := step_thread (fst c) t in (m', set_thread (snd c) tid t')
  end.

Definition run (c : config) (sched : list nat) : config := fold_left step sched c.

Definition done (t : thread) : bool := (length (t_secs t) <=? t_si t)%nat.
Definition all_done (ts : list thread) : bool := forallb done ts.

Definition start (secs : list section) (args : list Z) : thread :=
  {| t_secs := secs; t_args := args; t_si := 0%nat; t_pc := 0%nat; t_regs := [] |}.

(* ---- what a thread contributes / records ---- *)

(* sum of the atomic adds to l among the given (already executed) sections *)
Fixpoint contrib (l : loc) (args : list Z) (secs : list section) : Z :=
  match secs with
  | [] => 0
  | s :: r =>
      (if N.eqb (s_loc s) l && evalc args [] (s_cond s)
       then match s_body s with BAdd e => eval args [] e | _ => 0 end else 0) + contrib l args r
  end.
Definition contrib_so_far (l : loc) (t : thread) : Z := contrib l (t_args t) (firstn (t_si t) (t_secs t)).
Definition contrib_total (l : loc) (t : thread) : Z := contrib l (t_args t) (t_secs t).
Definition sumZ (l : list Z) : Z := fold_right Z.add 0 l.

(* every section on l is an atomic add *)
Definition add_only (l : loc) (secs : list section) : bool :=
  forallb (fun s => negb (N.eqb (s_loc s) l) || match s_body s with BAdd _ => true | _ => false end) secs.

(* ---- the two recognised shapes of an extreme-value update on one location ---- *)

(* for { cur := Load(l); if skip(cur, v) { break }; if CAS(l, cur, v) { break } } *)
Definition cas_prog (skip : cond) (v : expr) : list instr :=
  [ ILoad 0%nat; IJmpIf skip 5%nat; ICas 1%nat (EReg 0%nat) v;
    IJmpIf (CNot (CEq (EReg 1%nat) (EConst 0))) 5%nat; IJmp 0%nat; IRet ].

(* cur := Load(l); if !skip(cur, v) { Store(l, v) }          (load-compare-store) *)
Definition lcs_prog (skip : cond) (v : expr) : list instr :=
  [ ILoad 0%nat; IJmpIf skip 3%nat; IStore v; IRet ].

(* largest: skip when v <= cur *)
Definition max_skip (v : expr) : cond := CNot (CLt (EReg 0%nat) v).
(* smallest with the "not set" sentinel -1: skip when cur <> -1 and cur <= v *)
Definition min_skip (v : expr) : cond := CAnd (CNot (CEq (EReg 0%nat) (EConst (-1)))) (CNot (CLt v (EReg 0%nat))).

Definition expr_eq_dec : forall a b : expr, {a = b} + {a <> b}.
Proof. decide equality; try apply Z.eq_dec; apply Nat.eq_dec. Defined.
Definition cond_eq_dec : forall a b : cond, {a = b} + {a <> b}.
Proof. decide equality; apply expr_eq_dec. Defined.
Definition instr_eq_dec : forall a b : instr, {a = b} + {a <> b}.
Proof. decide equality; try apply expr_eq_dec; try apply cond_eq_dec; apply Nat.eq_dec. Defined.
Definition prog_eqb (p q : list instr) : bool := if list_eq_dec instr_eq_dec p q then true else false.

(* operand of the update: the `new` operand of the CAS (3rd instruction) / the stored value *)
Definition operand (p : list instr) : option expr :=
  match p with _ :: _ :: ICas _ _ v :: _ => Some v | _ :: _ :: IStore v :: _ => Some v | _ => None end.

(* s, if it is on l, is an unconditional CAS-loop update with the given skip condition *)
Definition is_cas_sec (skip : expr -> cond) (l : loc) (s : section) : bool :=
  negb (N.eqb (s_loc s) l) ||
  match s_cond s, s_body s with
  | CTrue, BRmw p => match operand p with
                     | Some v => reg_free v && prog_eqb p (cas_prog (skip v) v)
                     | None => false
                     end
  | _, _ => false
  end.
Definition cas_only (skip : expr -> cond) (l : loc) (secs : list section) : bool := forallb (is_cas_sec skip l) secs.

(* the values a thread records on l: operands of its sections on l *)
Fixpoint recorded (l : loc) (args : list Z) (secs : list section) : list Z :=
  match secs with
  | [] => []
  | s :: r =>
      (if N.eqb (s_loc s) l
       then match s_body s with
            | BRmw p => match operand p with Some v => [eval args [] v] | None => [] end
            | _ => []
            end
       else []) ++ recorded l args r
  end.
Definition recorded_so_far (l : loc) (t : thread) : list Z := recorded l (t_args t) (firstn (t_si t) (t_secs t)).
Definition recorded_total (l : loc) (t : thread) : list Z := recorded l (t_args t) (t_secs t).

Definition maxZ (init : Z) (vs : list Z) : Z := fold_left Z.max vs init.
(* smallest value with the sentinel: -1 means "nothing recorded yet" *)
Definition min_s (a b : Z) : Z := if a =? -1 then b else if b =? -1 then a else Z.min a b.
Definition minZ (init : Z) (vs : list Z) : Z := fold_left min_s vs init.

(* ---- roles of the locations of a metrics struct, and the shape check of a translated function ---- *)
Inductive role := RCounter | RMax | RMin | RStamp.    (* RStamp: last-operation time, store only, no exactness claim *)

Definition store_only (l : loc) (secs : list section) : bool :=
  forallb (fun s => negb (N.eqb (s_loc s) l) || match s_body s with BStore _ => true | _ => false end) secs.

Definition role_ok (secs : list section) (lr : loc * role) : bool :=
  match snd lr with
  | RCounter => add_only (fst lr) secs
  | RMax => cas_only max_skip (fst lr) secs
  | RMin => cas_only min_skip (fst lr) secs
  | RStamp => store_only (fst lr) secs
  end.

Definition known_locs (roles : list (loc * role)) (secs : list section) : bool :=
  forallb (fun s => existsb (fun lr => N.eqb (fst lr) (s_loc s)) roles) secs.

Definition prog_ok (roles : list (loc * role)) (secs : list section) : bool :=
  known_locs roles secs && forallb (role_ok secs) roles.

(* ---- bounded interleaving search (used to look for a witness schedule when a regenerated program is not
        of a proved shape; supporting, never a proof) ---- *)
Fixpoint interleavings (a b : nat) (fuel : nat) : list (list nat) :=
  (* all sequences with exactly a zeros and b ones *)
  match fuel with
  | O => [[]]
  | S f =>
      match a, b with
      | O, O => [[]]
      | _, _ =>
          (match a with O => [] | S a' => map (cons 0%nat) (interleavings a' b f) end) ++
          (match b with O => [] | S b' => map (cons 1%nat) (interleavings a b' f) end)
      end
  end.

Definition final_at (l : loc) (init : mem) (ts : list thread) (sched : list nat) : Z * bool :=
  let c := run (init, ts) sched in (fst c l, all_done (snd c)).

(* first schedule of two threads (k steps each) after which both are done and l differs from `want` *)
Definition find_bad (l : loc) (init : mem) (ts : list thread) (k : nat) (want : Z) : option (list nat) :=
  find (fun sc => let r := final_at l init ts sc in snd r && negb (fst r =? want)) (interleavings k k (k + k)).

(* ---- sequential execution (correspondence with the implementation: the same calls run one after the other) ---- *)
Fixpoint seq_sched (n k : nat) : list nat :=
  match n with O => [] | S n' => seq_sched n' k ++ repeat n' k end.

Definition run_calls (init : mem) (calls : list (list section * list Z)) (sched : list nat) : config :=
  run (init, map (fun c => start (fst c) (snd c)) calls) sched.

(* all calls finish within 100 steps each when run alone and the listed locations hold the expected values *)
Definition seq_case_ok (init : mem) (cs : list (list section * list Z) * list (loc * Z)) : bool :=
  let c := run_calls init (fst cs) (seq_sched (length (fst cs)) 100) in
  all_done (snd c) && forallb (fun lv => fst c (fst lv) =? snd lv) (snd cs).

Fixpoint bad_cases {A} (f : A -> bool) (i : N) (l : list A) : list N :=
  match l with
  | [] => []
  | x :: r => if f x then bad_cases f (i + 1)%N r else i :: bad_cases f (i + 1)%N r
  end.

(* search for a two-goroutine schedule that loses an update on location l of the given program:
   both run `secs`, with arguments a0 / a1; `want` is the true final value *)
Definition find_bad2 (l : loc) (init : mem) (secs : list section) (a0 a1 : list Z) (k : nat) (want : Z) : option (list nat) :=
  find_bad l init [start secs a0; start secs a1] k want.
