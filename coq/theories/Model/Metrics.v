(* Metrics.v — the update protocol of the process-wide metrics (pkg/metrics, pkg/sql/monitor) under
   arbitrary interleaving.

   A Record* function of the Go code is translated (tools/gotables, go/ast + go/types, regenerated on
   every run into Gen/MetricsProg.v) into a list of SECTIONS.  A section touches exactly one shared
   location: an atomic add, an atomic store, or a read-modify-write mini program (atomic Load / Store /
   Add / CompareAndSwap, conditional jumps: the `if` and `for` of the source) on that location.  A thread
   executes the sections of one call in order, one instruction per step; a schedule is ANY list of thread
   ids, over ANY number of threads — every interleaving at the granularity of single atomic operations.
   (All shared accesses of the translated code are sync/atomic operations, which are sequentially
   consistent in the Go memory model; a plain access is translated to an RMW section marked by the
   translator and is never accepted by the instance check.)

   Definitions only; the proofs are in Proofs/MetricsP.v. *)
From Coq Require Import List ZArith NArith Bool Arith.
Import ListNotations.
Local Open Scope Z_scope.

Definition loc := N.
Definition reg := nat.

Inductive expr :=
| EArg (n : nat)          (* n-th argument of the call (int64(querySize), int64(duration), err as 0/1, clock reads) *)
| EReg (r : reg)          (* local of the read-modify-write program *)
| EConst (z : Z)
| EAdd (a b : expr).

Inductive cond :=
| CTrue
| CLt (a b : expr)
| CEq (a b : expr)
| CNot (c : cond)
| CAnd (a b : cond)
| COr (a b : cond).

Inductive instr :=
| ILoad (r : reg)                      (* r := atomic.Load(l) *)
| IStore (e : expr)                    (* atomic.Store(l, e) *)
| IAdd (e : expr)                      (* atomic.Add(l, e) *)
| ICas (r : reg) (old new : expr)      (* r := atomic.CompareAndSwap(l, old, new)  (1 / 0) *)
| ISet (r : reg) (e : expr)            (* r := e   (a local that is assigned more than once, e.g. a `done` flag) *)
| IJmpIf (c : cond) (t : nat)
| IJmp (t : nat)
| IRet.

Inductive body :=
| BAdd (e : expr)
| BStore (e : expr)
| BRmw (p : list instr)
| BUnknown.                            (* statement the translator does not recognise: never accepted *)

Record section := { s_cond : cond; s_loc : loc; s_body : body }.

(* ---- evaluation ---- *)
Definition nthZ (l : list Z) (n : nat) : Z := nth n l 0.

Fixpoint eval (args regs : list Z) (e : expr) : Z :=
  match e with
  | EArg n => nthZ args n
  | EReg r => nthZ regs r
  | EConst z => z
  | EAdd a b => eval args regs a + eval args regs b
  end.

Fixpoint evalc (args regs : list Z) (c : cond) : bool :=
  match c with
  | CTrue => true
  | CLt a b => eval args regs a <? eval args regs b
  | CEq a b => eval args regs a =? eval args regs b
  | CNot c => negb (evalc args regs c)
  | CAnd a b => evalc args regs a && evalc args regs b
  | COr a b => evalc args regs a || evalc args regs b
  end.

Fixpoint set_nth (l : list Z) (n : nat) (v : Z) : list Z :=
  match n, l with
  | O, [] => [v]
  | O, _ :: t => v :: t
  | S k, [] => 0 :: set_nth [] k v
  | S k, h :: t => h :: set_nth t k v
  end.

Fixpoint reg_free (e : expr) : bool :=
  match e with
  | EReg _ => false
  | EAdd a b => reg_free a && reg_free b
  | _ => true
  end.

(* ---- threads ---- *)
Record thread := { t_secs : list section; t_args : list Z; t_si : nat; t_pc : nat; t_regs : list Z }.

Definition mem := loc -> Z.
Definition upd (m : mem) (l : loc) (v : Z) : mem := fun l' => if N.eqb l' l then v else m l'.

Definition next_sec (t : thread) : thread :=
  {| t_secs := t_secs t; t_args := t_args t; t_si := S (t_si t); t_pc := 0%nat; t_regs := [] |}.
Definition at_pc (t : thread) (pc : nat) (regs : list Z) : thread :=
  {| t_secs := t_secs t; t_args := t_args t; t_si := t_si t; t_pc := pc; t_regs := regs |}.

Definition step_instr (m : mem) (t : thread) (l : loc) (i : instr) : mem * thread :=
  let a := t_args t in let rs := t_regs t in let pc := t_pc t in
  match i with
  | ILoad r => (m, at_pc t (S pc) (set_nth rs r (m l)))
  | IStore e => (upd m l (eval a rs e), at_pc t (S pc) rs)
  | IAdd e => (upd m l (m l + eval a rs e), at_pc t (S pc) rs)
  | ICas r old new =>
      if m l =? eval a rs old
      then (upd m l (eval a rs new), at_pc t (S pc) (set_nth rs r 1))
      else (m, at_pc t (S pc) (set_nth rs r 0))
  | ISet r e => (m, at_pc t (S pc) (set_nth rs r (eval a rs e)))
  | IJmpIf c tg => (m, at_pc t (if evalc a rs c then tg else S pc) rs)
  | IJmp tg => (m, at_pc t tg rs)
  | IRet => (m, next_sec t)
  end.

(* one step of one thread.  Section-level conditions and operands only see the arguments. *)
Definition step_thread (m : mem) (t : thread) : mem * thread :=
  match nth_error (t_secs t) (t_si t) with
  | None => (m, t)                                            (* finished: stutter *)
  | Some s =>
      if negb (evalc (t_args t) [] (s_cond s)) then (m, next_sec t)
      else match s_body s with
           | BAdd e => (upd m (s_loc s) (m (s_loc s) + eval (t_args t) [] e), next_sec t)
           | BStore e => (upd m (s_loc s) (eval (t_args t) [] e), next_sec t)
           | BUnknown => (m, next_sec t)
           | BRmw p => match nth_error p (t_pc t) with
                       | None => (m, next_sec t)              (* fell off the end = return *)
                       | Some i => step_instr m t (s_loc s) i
                       end
           end
  end.

Fixpoint set_thread (ts : list thread) (n : nat) (t : thread) : list thread :=
  match n, ts with
  | _, [] => []
  | O, _ :: r => t :: r
  | S k, h :: r => h :: set_thread r k t
  end.

Definition config := (mem * list thread)%type.

Definition step (c : config) (tid : nat) : config :=
  match nth_error (snd c) tid with
  | None => c
  | Some t => let (m', t') := step_thread (fst c) t in (m', set_thread (snd c) tid t')
  end.

Definition run (c : config) (sched : list nat) : config := fold_left step sched c.

Definition done (t : thread) : bool := (length (t_secs t) <=? t_si t)%nat.
Definition all_done (ts : list thread) : bool := forallb done ts.

Definition start (secs : list section) (args : list Z) : thread :=
  {| t_secs := secs; t_args := args; t_si := 0%nat; t_pc := 0%nat; t_regs := [] |}.

(* ---- what a thread contributes / records ---- *)

(* sum of the atomic adds to l among the given (already executed) sections *)
Fixpoint contrib (l : loc) (args : list Z) (secs : list section) : Z :=
  match secs with
  | [] => 0
  | s :: r =>
      (if N.eqb (s_loc s) l && evalc args [] (s_cond s)
       then match s_body s with BAdd e => eval args [] e | _ => 0 end else 0) + contrib l args r
  end.
Definition contrib_so_far (l : loc) (t : thread) : Z := contrib l (t_args t) (firstn (t_si t) (t_secs t)).
Definition contrib_total (l : loc) (t : thread) : Z := contrib l (t_args t) (t_secs t).
Definition sumZ (l : list Z) : Z := fold_right Z.add 0 l.

(* every section on l is an atomic add *)
Definition add_only (l : loc) (secs : list section) : bool :=
  forallb (fun s => negb (N.eqb (s_loc s) l) || match s_body s with BAdd _ => true | _ => false end) secs.

(* ---- extreme-value updates on one location ---- *)

(* the canonical compare-and-swap loop:
   for { cur := Load(l); if skip(cur, v) { break }; if CAS(l, cur, v) { break } } *)
Definition cas_prog (skip : cond) (v : expr) : list instr :=
  [ ILoad 0%nat; IJmpIf skip 5%nat; ICas 1%nat (EReg 0%nat) v;
    IJmpIf (CNot (CEq (EReg 1%nat) (EConst 0))) 5%nat; IJmp 0%nat; IRet ].

(* cur := Load(l); if !skip(cur, v) { Store(l, v) }          (load-compare-store: loses updates) *)
Definition lcs_prog (skip : cond) (v : expr) : list instr :=
  [ ILoad 0%nat; IJmpIf skip 3%nat; IStore v; IRet ].

(* largest: skip when v <= cur *)
Definition max_skip (v : expr) : cond := CNot (CLt (EReg 0%nat) v).
(* smallest with the "not set" sentinel -1: skip when cur <> -1 and cur <= v *)
Definition min_skip (v : expr) : cond := CAnd (CNot (CEq (EReg 0%nat) (EConst (-1)))) (CNot (CLt v (EReg 0%nat))).

Definition expr_eq_dec : forall a b : expr, {a = b} + {a <> b}.
Proof. decide equality; try apply Z.eq_dec; apply Nat.eq_dec. Defined.
Definition cond_eq_dec : forall a b : cond, {a = b} + {a <> b}.
Proof. decide equality; apply expr_eq_dec. Defined.
Definition instr_eq_dec : forall a b : instr, {a = b} + {a <> b}.
Proof. decide equality; try apply expr_eq_dec; try apply cond_eq_dec; apply Nat.eq_dec. Defined.
Definition prog_eqb (p q : list instr) : bool := if list_eq_dec instr_eq_dec p q then true else false.
Definition expr_eqb (a b : expr) : bool := if expr_eq_dec a b then true else false.

(* operand of the update: the `new` operand of the first CAS / the first stored value *)
Fixpoint operand (p : list instr) : option expr :=
  match p with
  | [] => None
  | ICas _ _ v :: _ => Some v
  | IStore v :: _ => Some v
  | _ :: r => operand r
  end.

(* ---- the class of read-modify-write retry loops (is_rmw_loop) ----
   Not one literal instruction list but every control-flow graph on which an abstract execution shows:
     - the only effect on the location is a CAS whose expected value is the value last loaded into a register
       and whose new value is the recorded operand v, executed only on paths on which the tests made since the
       load imply that v improves on (or equals) the loaded value;
     - the section ends only after a successful CAS, or on a path on which the tests made since the last load imply
       that the loaded value is already at least as good as v;
     - anything else (failed CAS, ...) leads back to a load: retry.
   The abstract state of a thread: registers with a known constant value (CAS results, flags such as `done`), and a
   phase: PIdle (nothing usable is known), PLoaded rc pts (register rc holds a value loaded from the location; the
   pair (loaded value, v) lies in one of the abstract points pts: the tests made since refine the set), PGood (the
   location already holds a value at least as good as v).  A point is the relative position of the loaded value cur
   and the candidate v:  cur = sentinel ("not set") | cur < v | cur = v | cur > v. *)
Inductive pt := PUnset | PLt | PEq | PGt.
Inductive phase := PIdle | PLoaded (rc : reg) (pts : list pt) | PGood.
Record astate := { a_known : list (reg * Z); a_phase : phase }.

(* what "improves" means for a role: which points exist, the sentinel if any, at which points v is at least as good
   as cur (a CAS cur -> v is allowed), at which points cur is at least as good as v (leaving without update is allowed) *)
Record ospec := { o_points : list pt; o_sentinel : option Z; o_improves : pt -> bool; o_skipok : pt -> bool }.

Definition pt_eq_dec : forall a b : pt, {a = b} + {a <> b}.
Proof. decide equality. Defined.
Definition phase_eq_dec : forall a b : phase, {a = b} + {a <> b}.
Proof. decide equality; [apply (list_eq_dec pt_eq_dec) | apply Nat.eq_dec]. Defined.
Definition known_eq_dec : forall a b : list (reg * Z), {a = b} + {a <> b}.
Proof. apply list_eq_dec. decide equality; [apply Z.eq_dec | apply Nat.eq_dec]. Defined.
Definition astate_eq_dec : forall a b : astate, {a = b} + {a <> b}.
Proof. decide equality; [apply phase_eq_dec | apply known_eq_dec]. Defined.

Fixpoint klook (k : list (reg * Z)) (r : reg) : option Z :=
  match k with [] => None | (r', z) :: t => if Nat.eqb r' r then Some z else klook t r end.
Definition kdel (k : list (reg * Z)) (r : reg) : list (reg * Z) := filter (fun e => negb (Nat.eqb (fst e) r)) k.
Fixpoint kins (k : list (reg * Z)) (r : reg) (z : Z) : list (reg * Z) :=
  match k with
  | [] => [(r, z)]
  | (r', z') :: t => if (r <? r')%nat then (r, z) :: k else (r', z') :: kins t r z
  end.
Definition kset (k : list (reg * Z)) (r : reg) (z : Z) : list (reg * Z) := kins (kdel k r) r z.

(* value of an expression that only depends on registers with a known value *)
Fixpoint keval (k : list (reg * Z)) (e : expr) : option Z :=
  match e with
  | EConst z => Some z
  | EReg r => klook k r
  | EArg _ => None
  | EAdd a b => match keval k a, keval k b with Some x, Some y => Some (x + y) | _, _ => None end
  end.

Definition is_reg (rc : reg) (e : expr) : bool := match e with EReg r => Nat.eqb r rc | _ => false end.
Definition is_const (z : Z) (e : expr) : bool := match e with EConst z' => z' =? z | _ => false end.
Definition pt_is (a b : pt) : bool := if pt_eq_dec a b then true else false.

(* truth of a comparison between the loaded value (register rc), the candidate v and the sentinel at a point *)
Definition atom (o : ospec) (q : pt) (rc : reg) (v : expr) (c : cond) : option bool :=
  match c with
  | CLt a b =>
      if is_reg rc a && expr_eqb b v then Some (pt_is q PUnset || pt_is q PLt)
      else if expr_eqb a v && is_reg rc b then Some (pt_is q PGt)
      else None
  | CEq a b =>
      if (is_reg rc a && expr_eqb b v) || (expr_eqb a v && is_reg rc b) then Some (pt_is q PEq)
      else match o_sentinel o with
           | Some s => if (is_reg rc a && is_const s b) || (is_const s a && is_reg rc b) then Some (pt_is q PUnset) else None
           | None => None
           end
  | _ => None
  end.

Definition and3 (x y : option bool) : option bool :=
  match x, y with
  | Some false, _ | _, Some false => Some false
  | Some true, Some true => Some true
  | _, _ => None
  end.
Definition or3 (x y : option bool) : option bool :=
  match x, y with
  | Some true, _ | _, Some true => Some true
  | Some false, Some false => Some false
  | _, _ => None
  end.

(* three-valued evaluation of a condition: known registers first, then (in phase PLoaded) the point *)
Fixpoint aevalc (o : ospec) (k : list (reg * Z)) (lp : option (reg * pt)) (v : expr) (c : cond) : option bool :=
  match c with
  | CTrue => Some true
  | CLt a b => match keval k a, keval k b with
               | Some x, Some y => Some (x <? y)
               | _, _ => match lp with Some (rc, q) => atom o q rc v c | None => None end
               end
  | CEq a b => match keval k a, keval k b with
               | Some x, Some y => Some (x =? y)
               | _, _ => match lp with Some (rc, q) => atom o q rc v c | None => None end
               end
  | CNot c => option_map negb (aevalc o k lp v c)
  | CAnd a b => and3 (aevalc o k lp v a) (aevalc o k lp v b)
  | COr a b => or3 (aevalc o k lp v a) (aevalc o k lp v b)
  end.

Definition exit_ok (o : ospec) (ph : phase) : bool :=
  match ph with PGood => true | PLoaded _ pts => forallb (o_skipok o) pts | PIdle => false end.

Definition succ_if (pts : list pt) (x : nat * astate) : list (nat * astate) := match pts with [] => [] | _ => [x] end.
Definition not_false (b : option bool) : bool := match b with Some false => false | _ => true end.
Definition not_true (b : option bool) : bool := match b with Some true => false | _ => true end.

(* abstract successors of (pc, s); None = the program is not in the class *)
Definition astep (o : ospec) (p : list instr) (v : expr) (pc : nat) (s : astate) : option (list (nat * astate)) :=
  let k := a_known s in
  match nth_error p pc with
  | None | Some IRet => if exit_ok o (a_phase s) then Some [] else None
  | Some (ILoad r) =>
      Some [(S pc, {| a_known := kdel k r;
                      a_phase := match a_phase s with
                                 | PGood => PLoaded r (filter (o_skipok o) (o_points o))   (* the location already dominates v: so does what is loaded now *)
                                 | _ => PLoaded r (o_points o)
                                 end |})]
  | Some (IStore _) | Some (IAdd _) => None
  | Some (ISet r e) =>
      Some [(S pc, {| a_known := match keval k e with Some z => kset k r z | None => kdel k r end;
                      a_phase := match a_phase s with
                                 | PLoaded rc pts => if Nat.eqb rc r then PIdle else PLoaded rc pts
                                 | ph => ph
                                 end |})]
  | Some (ICas r old new) =>
      match a_phase s with
      | PLoaded rc pts =>
          if is_reg rc old && expr_eqb new v && forallb (o_improves o) pts
          then Some [(S pc, {| a_known := kset k r 1; a_phase := PGood |});
                     (S pc, {| a_known := kset k r 0; a_phase := PIdle |})]
          else None
      | _ => None
      end
  | Some (IJmp t) => Some [(t, s)]
  | Some (IJmpIf c t) =>
      match a_phase s with
      | PLoaded rc pts =>
          let tk := filter (fun q => not_false (aevalc o k (Some (rc, q)) v c)) pts in
          let fl := filter (fun q => not_true (aevalc o k (Some (rc, q)) v c)) pts in
          Some (succ_if tk (t, {| a_known := k; a_phase := PLoaded rc tk |}) ++
                succ_if fl (S pc, {| a_known := k; a_phase := PLoaded rc fl |}))
      | _ => match aevalc o k None v c with
             | Some true => Some [(t, s)]
             | Some false => Some [(S pc, s)]
             | None => Some [(t, s); (S pc, s)]
             end
      end
  end.

Definition mem_st (x : nat * astate) (R : list (nat * astate)) : bool :=
  existsb (fun y => Nat.eqb (fst x) (fst y) && if astate_eq_dec (snd x) (snd y) then true else false) R.

(* R is closed under abstract steps and contains no rejected state *)
Definition closed (o : ospec) (p : list instr) (v : expr) (R : list (nat * astate)) : bool :=
  forallb (fun x => match astep o p v (fst x) (snd x) with
                    | Some succs => forallb (fun y => mem_st y R) succs
                    | None => false
                    end) R.

(* the abstract states reachable from todo (work list; None: a rejected state was reached or out of fuel) *)
Fixpoint reach (o : ospec) (p : list instr) (v : expr) (fuel : nat) (todo seen : list (nat * astate)) : option (list (nat * astate)) :=
  match fuel with
  | O => None
  | S f =>
      match todo with
      | [] => Some seen
      | x :: rest =>
          if mem_st x seen then reach o p v f rest seen
          else match astep o p v (fst x) (snd x) with
               | None => None
               | Some succs => reach o p v f (succs ++ rest) (x :: seen)
               end
      end
  end.

Definition astate0 : astate := {| a_known := []; a_phase := PIdle |}.

Definition is_rmw_loop (o : ospec) (p : list instr) (v : expr) : bool :=
  match reach o p v (64 * S (length p)) [(0%nat, astate0)] [] with
  | Some R => mem_st (0%nat, astate0) R && closed o p v R
  | None => false
  end.

(* largest value: v improves on cur when cur <= v, cur is good enough when v <= cur *)
Definition max_spec : ospec :=
  {| o_points := [PLt; PEq; PGt]; o_sentinel := None;
     o_improves := fun q => pt_is q PLt || pt_is q PEq; o_skipok := fun q => pt_is q PEq || pt_is q PGt |}.
(* smallest value with the sentinel -1 = "not set" (recorded values are >= 0) *)
Definition min_spec : ospec :=
  {| o_points := [PUnset; PLt; PEq; PGt]; o_sentinel := Some (-1);
     o_improves := fun q => pt_is q PUnset || pt_is q PEq || pt_is q PGt; o_skipok := fun q => pt_is q PLt || pt_is q PEq |}.

(* s, if it is on l, is an unconditional retry-loop update of the class *)
Definition is_cas_sec (o : ospec) (l : loc) (s : section) : bool :=
  negb (N.eqb (s_loc s) l) ||
  match s_cond s, s_body s with
  | CTrue, BRmw p => match operand p with
                     | Some v => reg_free v && is_rmw_loop o p v
                     | None => false
                     end
  | _, _ => false
  end.
Definition cas_only (o : ospec) (l : loc) (secs : list section) : bool := forallb (is_cas_sec o l) secs.

(* the values a thread records on l: operands of its sections on l *)
Fixpoint recorded (l : loc) (args : list Z) (secs : list section) : list Z :=
  match secs with
  | [] => []
  | s :: r =>
      (if N.eqb (s_loc s) l
       then match s_body s with
            | BRmw p => match operand p with Some v => [eval args [] v] | None => [] end
            | _ => []
            end
       else []) ++ recorded l args r
  end.
Definition recorded_so_far (l : loc) (t : thread) : list Z := recorded l (t_args t) (firstn (t_si t) (t_secs t)).
Definition recorded_total (l : loc) (t : thread) : list Z := recorded l (t_args t) (t_secs t).

Definition maxZ (init : Z) (vs : list Z) : Z := fold_left Z.max vs init.
(* smallest value with the sentinel: -1 means "nothing recorded yet" *)
Definition min_s (a b : Z) : Z := if a =? -1 then b else if b =? -1 then a else Z.min a b.
Definition minZ (init : Z) (vs : list Z) : Z := fold_left min_s vs init.

(* ---- roles of the locations of a metrics struct, and the shape check of a translated function ---- *)
Inductive role := RCounter | RMax | RMin | RStamp.    (* RStamp: last-operation time, store only, no exactness claim *)

Definition store_only (l : loc) (secs : list section) : bool :=
  forallb (fun s => negb (N.eqb (s_loc s) l) || match s_body s with BStore _ => true | _ => false end) secs.

Definition role_ok (secs : list section) (lr : loc * role) : bool :=
  match snd lr with
  | RCounter => add_only (fst lr) secs
  | RMax => cas_only max_spec (fst lr) secs
  | RMin => cas_only min_spec (fst lr) secs
  | RStamp => store_only (fst lr) secs
  end.

Definition known_locs (roles : list (loc * role)) (secs : list section) : bool :=
  forallb (fun s => existsb (fun lr => N.eqb (fst lr) (s_loc s)) roles) secs.

Definition prog_ok (roles : list (loc * role)) (secs : list section) : bool :=
  known_locs roles secs && forallb (role_ok secs) roles.

(* which (program, location) pairs fail the shape check: program index * 1000 + location id (999: a section on a location
   without role).  Only used to say WHAT is wrong when the instance lemma fails; the lemma itself is forallb prog_ok. *)
Fixpoint shape_failures (roles : list (loc * role)) (i : N) (progs : list (list section)) : list N :=
  match progs with
  | [] => []
  | secs :: r =>
      map (fun lr => (i * 1000 + fst lr)%N) (filter (fun lr => negb (role_ok secs lr)) roles) ++
      (if known_locs roles secs then [] else [(i * 1000 + 999)%N]) ++ shape_failures roles (i + 1)%N r
  end.

(* ---- bounded interleaving search (used to look for a witness schedule when a regenerated program is not
        of a proved shape; supporting, never a proof) ---- *)
Fixpoint interleavings (a b : nat) (fuel : nat) : list (list nat) :=
  (* all sequences with exactly a zeros and b ones *)
  match fuel with
  | O => [[]]
  | S f =>
      match a, b with
      | O, O => [[]]
      | _, _ =>
          (match a with O => [] | S a' => map (cons 0%nat) (interleavings a' b f) end) ++
          (match b with O => [] | S b' => map (cons 1%nat) (interleavings a b' f) end)
      end
  end.

Definition final_at (l : loc) (init : mem) (ts : list thread) (sched : list nat) : Z * bool :=
  let c := run (init, ts) sched in (fst c l, all_done (snd c)).

(* first schedule of two threads (k steps each) after which both are done and l differs from `want` *)
Definition find_bad (l : loc) (init : mem) (ts : list thread) (k : nat) (want : Z) : option (list nat) :=
  find (fun sc => let r := final_at l init ts sc in snd r && negb (fst r =? want)) (interleavings k k (k + k)).

(* first schedule of two threads (k steps each) after which the threads, each then run alone for `extra` more steps, are
   still not all done: a call that never returns (a retry loop that cannot succeed any more).  Supporting search. *)
Definition find_spin (init : mem) (ts : list thread) (k extra : nat) : option (list nat) :=
  find (fun sc => negb (all_done (snd (run (init, ts) (sc ++ repeat 0%nat extra ++ repeat 1%nat extra)))))
       (interleavings k k (k + k)).
Definition find_spin2 (init : mem) (secs : list section) (a0 a1 : list Z) (k extra : nat) : option (list nat) :=
  find_spin init [start secs a0; start secs a1] k extra.

(* ---- sequential execution (correspondence with the implementation: the same calls run one after the other) ---- *)
Fixpoint seq_sched (n k : nat) : list nat :=
  match n with O => [] | S n' => seq_sched n' k ++ repeat n' k end.

Definition run_calls (init : mem) (calls : list (list section * list Z)) (sched : list nat) : config :=
  run (init, map (fun c => start (fst c) (snd c)) calls) sched.

(* all calls finish within 100 steps each when run alone and the listed locations hold the expected values *)
Definition seq_case_ok (init : mem) (cs : list (list section * list Z) * list (loc * Z)) : bool :=
  let c := run_calls init (fst cs) (seq_sched (length (fst cs)) 100) in
  all_done (snd c) && forallb (fun lv => fst c (fst lv) =? snd lv) (snd cs).

Fixpoint bad_cases {A} (f : A -> bool) (i : N) (l : list A) : list N :=
  match l with
  | [] => []
  | x :: r => if f x then bad_cases f (i + 1)%N r else i :: bad_cases f (i + 1)%N r
  end.

(* search for a two-goroutine schedule that loses an update on location l of the given program:
   both run `secs`, with arguments a0 / a1; `want` is the true final value *)
Definition find_bad2 (l : loc) (init : mem) (secs : list section) (a0 a1 : list Z) (k : nat) (want : Z) : option (list nat) :=
  find_bad l init [start secs a0; start secs a1] k want.
