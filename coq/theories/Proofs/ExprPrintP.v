(* ExprPrintP.v — proofs about the Gallina mirror of the expression serialiser (Model/ExprPrint.v):
   - [print_is_render]: for every reference expression of the proved sub-surface the printer (all defects
     repaired) writes exactly the rendering, with only the required parentheses, of the normalised expression
     (`e::t` written CAST(e AS t), identifiers quoted when safeIdentifier says so), whose prescribed tree is the
     same tree;
   - [print_parse_expr]: hence (C03: parse_render_expr_partial) the parser model reads the printed tokens back
     to exactly that tree; [fmt_canonical] / [fmt_idempotent] for print after parse;
   - [literal_roundtrip], [ident_roundtrip]: the two byte-level codecs;
   - refuted witnesses for every defect switch. *)
From Coq Require Import List String Ascii Bool Arith NArith Lia.
From GV Require Import Spec.RefGrammar Model.Expr Model.ExprParse Proofs.ExprParseP Proofs.ExprParseExtP Model.ExprPrint.
Import ListNotations.
Local Open Scope string_scope.
Local Open Scope list_scope.
Local Open Scope nat_scope.
Local Notation length := List.length.

(* ------------------------------------------------------------------------------------------------ *)
(* parenthesisation choices without redundant pairs *)
Definition zero_rho (r : rho) : Prop := forall p, r p = 0.
Lemma zero_no_parens : zero_rho no_parens. Proof. intro p. reflexivity. Qed.
Lemma zero_sub : forall r i, zero_rho r -> zero_rho (sub r i). Proof. intros r i H p. apply H. Qed.

Lemma parens_zero : forall lv r e, zero_rho r -> parens lv r e = if level_of e <? lv then 1 else 0.
Proof. intros lv r e H. unfold parens. rewrite H. reflexivity. Qed.

Lemma wrap_1 : forall ts, wrap 1 ts = wrap1 ts. Proof. reflexivity. Qed.

Lemma render_zero : forall lv r e, zero_rho r ->
    render lv r e = if level_of e <? lv then wrap1 (body r e) else body r e.
Proof.
  intros lv r e H. rewrite render_body, parens_zero by assumption.
  destruct (level_of e <? lv); reflexivity.
Qed.

Lemma par_ok : forall p ctx ts, par print_ok p ctx (Some ts) = Some (if p <? ctx then wrap1 ts else ts).
Proof. reflexivity. Qed.

Lemma operand_zero : forall pf g, operand pf g 0 = print_expr pf g.
Proof. intros pf g. unfold operand, par. destruct (print_expr pf g); [|reflexivity]. rewrite andb_false_r. reflexivity. Qed.

(* ------------------------------------------------------------------------------------------------ *)
(* strings *)
Lemma all_chars_app : forall f a b, all_chars f (a ++ b)%string = all_chars f a && all_chars f b.
Proof. induction a as [|c a IH]; intros b; cbn [append all_chars]; [reflexivity|]. rewrite IH, andb_assoc. reflexivity. Qed.

Lemma split_dots_nodot : forall s cur, has_char "."%char s = false -> split_dots s cur = [(cur ++ s)%string].
Proof.
  induction s as [|c s IH]; intros cur H; cbn [split_dots].
  - rewrite (proj2 (String.eqb_eq _ _) eq_refl) || idtac. f_equal.
    clear. induction cur as [|x cur IH]; cbn; [reflexivity|]. f_equal. exact IH.
  - unfold has_char in H. cbn [all_chars] in H. apply negb_false_iff in H. apply andb_prop in H. destruct H as [Hc Hs].
    apply negb_true_iff in Hc. rewrite Hc. rewrite IH.
    + f_equal. clear. induction cur as [|x cur IH]; cbn; [reflexivity|]. f_equal. exact IH.
    + unfold has_char. rewrite Hs. reflexivity.
Qed.

Lemma has_char_star : forall n, has_char "*"%char n = false -> String.eqb n "*" = false.
Proof.
  intros n H. destruct (String.eqb_spec n "*") as [E|]; [|reflexivity]. subst n. discriminate H.
Qed.

(* a word that needs no quotes is written as one identifier token *)
Lemma ident_tokens_plain : forall n, plain_word print_ok n = true -> ident_tokens print_ok n = [Tk TyIdent n].
Proof.
  intros n H. unfold plain_word in H. apply andb_prop in H. destruct H as [H Hstar]. apply andb_prop in H. destruct H as [Hq Hdot].
  apply negb_true_iff in Hq, Hdot, Hstar.
  unfold ident_tokens. rewrite Hq. unfold raw_tokens. rewrite split_dots_nodot by exact Hdot. cbn [append map sep_by].
  unfold raw_part. rewrite (has_char_star n Hstar).
  unfold needs_quote in Hq. apply orb_false_elim in Hq. destruct Hq as [Hq Hd]. apply orb_false_elim in Hq. destruct Hq as [_ Hr].
  cbn [d_reserved_raw d_digit_safe print_ok negb andb] in Hr, Hd.
  rewrite Hr, Hd. reflexivity.
Qed.

Lemma ident_tokens_bare : forall n, (needs_quote print_ok n || plain_word print_ok n) = true ->
    ident_tokens print_ok n = [Tk (if needs_quote print_ok n then TyDQuoted else TyIdent) n].
Proof.
  intros n H. destruct (needs_quote print_ok n) eqn:Hq.
  - unfold ident_tokens. rewrite Hq. reflexivity.
  - cbn [orb] in H. apply ident_tokens_plain. exact H.
Qed.

(* ------------------------------------------------------------------------------------------------ *)
(* the normalised expression has the same prescribed tree and stays in the reference surface *)

Lemma map_ext_Forall : forall {A B} (f g : A -> B) l, Forall (fun x => f x = g x) l -> map f l = map g l.
Proof. intros A B f g l H. induction H; cbn [map]; [reflexivity|]. rewrite H, IHForall. reflexivity. Qed.

Lemma is_gcast_ast : forall a, is_gcast (ast_of a) = is_cast_m a.
Proof. destruct a; reflexivity. Qed.

Lemma ast_of_norm : forall pf e, ast_of (norm pf e) = ast_of e.
Proof.
  intros pf. induction e using mexpr_ind2; cbn [norm ast_of]; try reflexivity.
  - rewrite IHe1, IHe2. reflexivity.
  - rewrite IHe. reflexivity.
  - rewrite IHe. reflexivity.
  - rewrite IHe. f_equal. rewrite map_map. apply map_ext_Forall. exact H.
  - rewrite IHe1, IHe2, IHe3. reflexivity.
  - rewrite IHe1, IHe2. reflexivity.
  - destruct (is_cast_m e); cbn [ast_of]; rewrite IHe; reflexivity.
  - f_equal. rewrite map_map. apply map_ext_Forall. exact H.
  - f_equal.
    + destruct s as [a|]; cbn [option_map]; [rewrite (H a eq_refl); reflexivity|reflexivity].
    + rewrite map_map. apply map_ext_Forall.
      eapply Forall_impl; [|exact H0]. intros [c v] [Hc Hv]. cbn [fst snd] in *. rewrite Hc, Hv. reflexivity.
    + destruct els as [a|]; cbn [option_map]; [rewrite (H1 a eq_refl); reflexivity|reflexivity].
  - destruct (is_cast_m e); cbn [ast_of]; rewrite IHe; reflexivity.
  - f_equal. rewrite map_map. apply map_ext_Forall. exact H.
Qed.

Lemma forallb_map_Forall : forall {A} (f : A -> bool) (g : A -> A) l,
    Forall (fun x => f x = true -> f (g x) = true) l -> forallb f l = true -> forallb f (map g l) = true.
Proof.
  intros A f g l H. induction H as [|x l Hx Hl IH]; intros Hf; cbn [map forallb] in *; [reflexivity|].
  apply andb_prop in Hf. destruct Hf as [H1 H2]. rewrite (Hx H1), (IH H2). reflexivity.
Qed.

Lemma ref_whens_norm : forall pf whens,
    Forall (fun cv : mexpr * mexpr => (ref_expr (fst cv) = true -> ref_expr (norm pf (fst cv)) = true)
                                      /\ (ref_expr (snd cv) = true -> ref_expr (norm pf (snd cv)) = true)) whens ->
    ref_whens ref_expr whens = true ->
    ref_whens ref_expr (map (fun cv => (norm pf (fst cv), norm pf (snd cv))) whens) = true.
Proof.
  intros pf whens H. induction H as [|[c v] l [Hc Hv] Hl IH]; intros Hr; cbn [map ref_whens fst snd] in *; [reflexivity|].
  apply andb_prop in Hr. destruct Hr as [Hr H3]. apply andb_prop in Hr. destruct Hr as [H1 H2].
  rewrite (Hc H1), (Hv H2), (IH H3). reflexivity.
Qed.

Lemma ref_norm : forall pf e, ref_expr e = true -> ref_expr (norm pf e) = true.
Proof.
  intros pf. induction e using mexpr_ind2; intros Hr; cbn [norm ref_expr] in *; try exact Hr.
  - apply andb_prop in Hr. destruct Hr. rewrite IHe1, IHe2 by assumption. reflexivity.
  - auto.
  - auto.
  - apply andb_prop in Hr. destruct Hr as [Hr Hf]. apply andb_prop in Hr. destruct Hr as [Hra Hl].
    rewrite IHe by assumption. rewrite map_length, Hl. cbn [andb]. apply forallb_map_Forall; assumption.
  - apply andb_prop in Hr. destruct Hr as [Hr Hr3]. apply andb_prop in Hr. destruct Hr.
    rewrite IHe1, IHe2, IHe3 by assumption. reflexivity.
  - apply andb_prop in Hr. destruct Hr. rewrite IHe1, IHe2 by assumption. reflexivity.
  - apply andb_prop in Hr. destruct Hr as [Hr Ht]. destruct (is_cast_m e); cbn [ref_expr]; rewrite IHe by assumption; exact Ht.
  - apply andb_prop in Hr. destruct Hr as [Hn Ha]. rewrite Hn. cbn [andb]. apply forallb_map_Forall; assumption.
  - apply andb_prop in Hr. destruct Hr as [Hr He]. apply andb_prop in Hr. destruct Hr as [Hr Hw].
    apply andb_prop in Hr. destruct Hr as [Hs Hl].
    rewrite map_length, Hl.
    assert (E1 : match option_map (norm pf) s with Some a => ref_expr a | None => true end = true).
    { destruct s as [a|]; cbn [option_map]; [apply (H a eq_refl); exact Hs|reflexivity]. }
    assert (E3 : match option_map (norm pf) els with Some a => ref_expr a | None => true end = true).
    { destruct els as [a|]; cbn [option_map]; [apply (H1 a eq_refl); exact He|reflexivity]. }
    rewrite E1, E3, (ref_whens_norm pf whens H0 Hw). reflexivity.
  - apply andb_prop in Hr. destruct Hr as [Hr Ht]. destruct (is_cast_m e); cbn [ref_expr]; rewrite IHe by assumption; exact Ht.
  - apply andb_prop in Hr. destruct Hr as [Hl Ha]. rewrite map_length, Hl. cbn [andb]. apply forallb_map_Forall; assumption.
Qed.

(* ------------------------------------------------------------------------------------------------ *)
(* the printer's level of the prescribed tree decides parentheses like the reference level of the normalised
   expression, in every context the printer uses (contexts are at most precUnary = 7) *)
Lemma prec_norm : forall e ctx, ctx <= 7 ->
    (go_prec (ast_of e) <? ctx) = (level_of (norm print_ok e) <? ctx).
Proof.
  intros e ctx Hc.
  assert (Hprim : forall a b, 7 <= a -> 7 <= b -> (a <? ctx) = (b <? ctx)).
  { intros a b Ha Hb. destruct (Nat.ltb_spec a ctx), (Nat.ltb_spec b ctx); try reflexivity; lia. }
  assert (Hcast : forall g ty, 7 <= go_prec (GCast g ty)).
  { intros g ty. cbn [go_prec]. destruct (is_gcast g || is_array_type ty); unfold p_postfix, p_primary; lia. }
  destruct e as [q n|t n|s|s|s| |b|op a b|a|a neg|a neg items|a neg lo hi|a neg ci p|a t|n d args|s whens els|a t|es];
    cbn [norm ast_of].
  all: try (apply Hprim; [first [apply Hcast | unfold null_lit, go_prec, p_primary; lia]|]).
  all: try (cbn [level_of]; lia).
  all: try (destruct (is_cast_m a); cbn [level_of]; lia).
  - cbn [go_prec level_of]. destruct op as [| |c| | | | | |]; try reflexivity. destruct c; reflexivity.
  - reflexivity.
  - cbn [go_prec level_of]. destruct neg; reflexivity.
  - reflexivity.
  - reflexivity.
  - cbn [go_prec level_of]. destruct ci, neg; reflexivity.
Qed.

(* ------------------------------------------------------------------------------------------------ *)
(* the printer writes the rendering of the normalised expression *)

Lemma op_token_bin : forall op, op_token (bin_str op) = Some (bin_tok op).
Proof. destruct op as [| |c| | | | | |]; try reflexivity. destruct c; reflexivity. Qed.

Lemma binop_prec_bin : forall op,
    lctx (binop_prec (upper (bin_str op))) = fst (bin_ctx op) /\ rctx (binop_prec (upper (bin_str op))) = snd (bin_ctx op)
    /\ is_null_op (upper (bin_str op)) = false.
Proof. destruct op as [| |c| | | | | |]; try (repeat split; reflexivity). destruct c; repeat split; reflexivity. Qed.

Lemma append_assoc_s0 : forall a b c : string, ((a ++ b) ++ c)%string = (a ++ (b ++ c))%string.
Proof. induction a as [|x a IH]; intros; cbn; [reflexivity|]. rewrite IH. reflexivity. Qed.
Lemma append_nil_s0 : forall a : string, (a ++ "")%string = a.
Proof. induction a as [|x a IH]; cbn; [reflexivity|]. rewrite IH. reflexivity. Qed.

Lemma word_not_punct : forall c, type_char c = true -> is_punct c = false.
Proof.
  intros c Hc. unfold is_punct. unfold type_char, word_char, is_alpha, is_digit_c, in_range in Hc.
  destruct (Ascii.eqb_spec c "("%char) as [E|]; [subst c; discriminate Hc|].
  destruct (Ascii.eqb_spec c ")"%char) as [E|]; [subst c; discriminate Hc|].
  destruct (Ascii.eqb_spec c ","%char) as [E|]; [subst c; discriminate Hc|]. reflexivity.
Qed.

(* scanning a word: it is collected into the current piece *)
Lemma split_word : forall w rest cur, all_chars type_char w = true ->
    split_on is_punct (w ++ rest)%string cur = split_on is_punct rest (cur ++ w)%string.
Proof.
  induction w as [|c w IH]; intros rest cur Hw; cbn [append].
  - rewrite append_nil_s0. reflexivity.
  - cbn [all_chars] in Hw. apply andb_prop in Hw. destruct Hw as [Hc Hw].
    cbn [split_on]. rewrite (word_not_punct c Hc). rewrite IH by exact Hw.
    rewrite append_assoc_s0. reflexivity.
Qed.

Lemma word_nonempty : forall w, String.eqb w "" = false -> forall cur, String.eqb (cur ++ w)%string "" = false.
Proof.
  intros w Hw cur. destruct w as [|c w]; [discriminate Hw|]. destruct cur; reflexivity.
Qed.

(* the pieces of "a1,a2,...,an)" *)
Fixpoint arg_pieces (args : list string) : list (string + ascii) :=
  match args with
  | [] => []
  | [x] => [inl x]
  | x :: r => inl x :: inr ","%char :: arg_pieces r
  end.

Lemma split_args : forall args,
    args <> [] -> forallb (fun x => all_chars type_char x && negb (String.eqb x "")) args = true ->
    split_on is_punct (join_comma args ++ ")")%string "" = arg_pieces args ++ [inr ")"%char].
Proof.
  induction args as [|x r IH]; intros Hne Hf; [contradiction|].
  cbn [forallb] in Hf. apply andb_prop in Hf. destruct Hf as [Hx Hr]. apply andb_prop in Hx. destruct Hx as [Hw Hn].
  apply negb_true_iff in Hn.
  destruct r as [|y r'].
  - cbn [join_comma arg_pieces app]. rewrite split_word by exact Hw. cbn [append split_on is_punct].
    change (Ascii.eqb ")" "(" || Ascii.eqb ")" ")" || Ascii.eqb ")" ",")%char with true. cbn iota.
    rewrite Hn. reflexivity.
  - change (join_comma (x :: y :: r')) with (x ++ "," ++ join_comma (y :: r'))%string.
    rewrite append_assoc_s0. rewrite split_word by exact Hw. cbn [append split_on].
    change (is_punct ","%char) with true. cbn iota. rewrite Hn.
    change (arg_pieces (x :: y :: r')) with (inl x :: inr ","%char :: arg_pieces (y :: r')).
    cbn [app]. rewrite IH; [reflexivity|discriminate|exact Hr].
Qed.

Lemma pieces_args : forall args i,
    forallb (fun x => all_chars type_char x && negb (String.eqb x "")) args = true ->
    type_pieces (S i) (arg_pieces args ++ [inr ")"%char])
    = Some (sep_by [tComma] (map (fun s => [Tk TyNumber s]) args) ++ [tRP]).
Proof.
  induction args as [|x r IH]; intros i Hf; [reflexivity|].
  cbn [forallb] in Hf. apply andb_prop in Hf. destruct Hf as [Hx Hr]. apply andb_prop in Hx. destruct Hx as [Hw _].
  destruct r as [|y r'].
  - cbn [arg_pieces app type_pieces type_piece map sep_by]. rewrite Hw. reflexivity.
  - change (arg_pieces (x :: y :: r')) with (inl x :: inr ","%char :: arg_pieces (y :: r')).
    cbn [app type_pieces type_piece]. rewrite Hw. cbn [Nat.eqb].
    rewrite (IH (S (S i)) Hr). reflexivity.
Qed.

Lemma type_tokens_type : forall t,
    all_chars type_char (tname t) = true -> String.eqb (tname t) "" = false ->
    forallb (fun x => all_chars type_char x && negb (String.eqb x "")) (targs t) = true ->
    type_tokens (type_str t) = Some (type_toks t).
Proof.
  intros [name args] Hw Hne Ha. cbn [tname targs] in *. unfold type_str, type_toks, type_tokens. cbn [tname targs].
  destruct args as [|x r].
  - rewrite Hne. rewrite <- (append_nil_s0 name) at 1. rewrite split_word by exact Hw. cbn [append split_on].
    rewrite Hne. cbn [type_pieces type_piece]. rewrite Hw. reflexivity.
  - assert (Hn2 : String.eqb (name ++ "(" ++ join_comma (x :: r) ++ ")")%string "" = false)
      by (destruct name; [discriminate Hne|reflexivity]).
    rewrite Hn2. rewrite split_word by exact Hw. cbn [append split_on].
    change (is_punct "("%char) with true. cbn iota. rewrite Hne.
    rewrite split_args; [|discriminate|exact Ha].
    cbn [app type_pieces type_piece]. rewrite Hw. cbn [Nat.eqb].
    rewrite (pieces_args (x :: r) 1 Ha). reflexivity.
Qed.

Lemma plain_name_nonempty : forall s, plain_name s = true -> String.eqb s "" = false.
Proof. intros s H. unfold plain_name in H. apply andb_prop in H. destruct H as [H _]. apply negb_true_iff in H. exact H. Qed.

(* a plain name is none of the datetime value functions that are written without parentheses *)
Lemma plain_not_niladic : forall n, plain_name n = true -> is_niladic n = false.
Proof.
  intros n H. unfold plain_name in H. apply andb_prop in H. destruct H as [_ H].
  unfold special_words in H. cbn [forallb] in H.
  repeat (apply andb_prop in H; let H1 := fresh "Hw" in destruct H as [H1 H]).
  unfold is_niladic. cbn [existsb]. unfold eqfold in *.
  repeat match goal with Hx : negb (String.eqb (upper n) (upper ?w)) = true |- _ =>
           apply negb_true_iff in Hx; change (upper w) with w in Hx end.
  rewrite Hw5, Hw6, Hw7, Hw8, Hw9. reflexivity.
Qed.

Definition Q (e : mexpr) : Prop :=
  ref_expr e = true -> printable print_ok e = true ->
  forall r ctx, zero_rho r -> ctx <= 7 ->
    operand print_ok (ast_of e) ctx = Some (render ctx r (norm print_ok e)).

(* from the body to the operand form *)
Lemma Q_of_body : forall e,
    (forall r, zero_rho r -> print_expr print_ok (ast_of e) = Some (body r (norm print_ok e))) ->
    forall r ctx, zero_rho r -> ctx <= 7 -> operand print_ok (ast_of e) ctx = Some (render ctx r (norm print_ok e)).
Proof.
  intros e Hb r ctx Hz Hc. unfold operand. rewrite (Hb r Hz), par_ok, render_zero by assumption.
  rewrite (prec_norm e ctx Hc). reflexivity.
Qed.

Lemma list_items : forall items r i,
    Forall Q items -> forallb ref_expr items = true -> forallb (printable print_ok) items = true ->
    zero_rho r ->
    all_some (map (print_expr print_ok) (map ast_of items)) = Some (render_list render 0 r i (map (norm print_ok) items)).
Proof.
  induction items as [|x items IH]; intros r i HQ Hr Hpr Hz; cbn [map all_some render_list]; [reflexivity|].
  cbn [forallb] in Hr, Hpr. apply andb_prop in Hr, Hpr. destruct Hr as [Hr1 Hr2], Hpr as [Hq1 Hq2].
  inversion HQ as [|? ? HQx HQl]; subst.
  rewrite <- (operand_zero print_ok (ast_of x)).
  rewrite (HQx Hr1 Hq1 (sub r i) 0 (zero_sub r i Hz) ltac:(lia)).
  rewrite (IH r (S i) HQl Hr2 Hq2 Hz). reflexivity.
Qed.

Lemma whens_items : forall whens r i,
    Forall (fun cv : mexpr * mexpr => Q (fst cv) /\ Q (snd cv)) whens ->
    ref_whens ref_expr whens = true ->
    forallb (fun cv : mexpr * mexpr => printable print_ok (fst cv) && printable print_ok (snd cv)) whens = true ->
    zero_rho r ->
    exists wts,
      all_some (map (fun cv : gexpr * gexpr =>
                       match print_expr print_ok (fst cv), print_expr print_ok (snd cv) with
                       | Some c, Some x => Some (Tk TyWhen "WHEN" :: c ++ Tk TyThen "THEN" :: x)
                       | _, _ => None
                       end) (map (fun cv : mexpr * mexpr => (ast_of (fst cv), ast_of (snd cv))) whens)) = Some wts
      /\ List.concat wts = render_whens render r i (map (fun cv => (norm print_ok (fst cv), norm print_ok (snd cv))) whens).
Proof.
  induction whens as [|[c v] l IH]; intros r i HQ Hr Hp Hz; cbn [map all_some render_whens].
  - exists []. split; reflexivity.
  - cbn [ref_whens fst snd] in Hr. apply andb_prop in Hr. destruct Hr as [Hr H3]. apply andb_prop in Hr. destruct Hr as [H1 H2].
    cbn [forallb fst snd] in Hp. apply andb_prop in Hp. destruct Hp as [Hp Hp3]. apply andb_prop in Hp. destruct Hp as [Hp1 Hp2].
    inversion HQ as [|? ? [HQc HQv] HQl]; subst. cbn [fst snd] in *.
    destruct (IH r (S (S i)) HQl H3 Hp3 Hz) as (wts & E1 & E2).
    rewrite <- (operand_zero print_ok (ast_of c)), <- (operand_zero print_ok (ast_of v)).
    rewrite (HQc H1 Hp1 (sub r i) 0 (zero_sub r i Hz) ltac:(lia)).
    rewrite (HQv H2 Hp2 (sub r (S i)) 0 (zero_sub r (S i) Hz) ltac:(lia)).
    rewrite E1. eexists. split; [reflexivity|]. cbn [List.concat]. rewrite E2.
    cbn [app]. rewrite <- !app_assoc. reflexivity.
Qed.

Lemma operand_prim : forall g ctx, ctx <= go_prec g -> operand print_ok g ctx = print_expr print_ok g.
Proof.
  intros g ctx H. unfold operand, par. destruct (print_expr print_ok g); [|reflexivity].
  destruct (Nat.ltb_spec (go_prec g) ctx); [lia|]. rewrite andb_false_r. reflexivity.
Qed.

Ltac fold_operand :=
  repeat match goal with
         | |- context [par ?pf (go_prec ?g) ?c (print_expr ?pf ?g)] => change (par pf (go_prec g) c (print_expr pf g)) with (operand pf g c)
         end.

(* both cast forms: CAST(e AS t) unless e is itself a cast, then e::t *)
Lemma cast_case : forall e t (norm_e : mexpr),
    Q e -> ref_expr e = true -> type_ok t = true -> printable print_ok e = true ->
    all_chars type_char (tname t) = true ->
    forallb (fun x => all_chars type_char x && negb (String.eqb x "")) (targs t) = true ->
    forall r, zero_rho r ->
    print_expr print_ok (GCast (ast_of e) (type_str t))
    = Some (body r (if is_cast_m e then MCastOp (norm print_ok e) t else MCast (norm print_ok e) t)).
Proof.
  intros e t _ HQ Hr Ht Hq Hw Ha r Hz.
  cbn [print_expr]. rewrite is_gcast_ast.
  rewrite (type_tokens_type t Hw (plain_name_nonempty _ Ht) Ha).
  destruct (is_cast_m e) eqn:Hc; cbn [body].
  - rewrite <- (operand_prim (ast_of e) 7).
    + rewrite (HQ Hr Hq (sub r 0) 7 (zero_sub r 0 Hz) ltac:(lia)). reflexivity.
    + destruct e; try discriminate Hc; cbn [ast_of go_prec];
        match goal with |- context [if ?b then _ else _] => destruct b end; unfold p_postfix, p_primary; lia.
  - rewrite <- (operand_zero print_ok (ast_of e)).
    rewrite (HQ Hr Hq (sub r 0) 0 (zero_sub r 0 Hz) ltac:(lia)). reflexivity.
Qed.

Theorem all_Q : forall e, Q e.
Proof.
  induction e using mexpr_ind2; unfold Q; intros Hr Hq;
    apply Q_of_body; intros r Hz; cbn [norm ast_of].
  - (* identifier *)
    cbn [body print_expr]. cbn [printable] in Hq. rewrite (ident_tokens_bare n Hq). reflexivity.
  - (* qualified identifier *)
    cbn [body print_expr]. cbn [printable] in Hq. apply andb_prop in Hq. destruct Hq as [Ht Hn].
    cbn [ref_expr] in Hr. apply andb_prop in Hr. destruct Hr as [Hrt _].
    rewrite (plain_name_nonempty t Hrt). rewrite (ident_tokens_plain t Ht), (ident_tokens_plain n Hn). reflexivity.
  - (* number *)
    cbn [body print_expr lit_tokens]. unfold num_type. destruct (has_float_char s); reflexivity.
  - reflexivity.
  - reflexivity.
  - reflexivity.
  - destruct b; reflexivity.
  - (* binary operator *)
    cbn [ref_expr] in Hr. apply andb_prop in Hr. destruct Hr as [Hr1 Hr2].
    cbn [printable] in Hq. apply andb_prop in Hq. destruct Hq as [Hq1 Hq2].
    destruct (binop_prec_bin op) as (El & Er & En).
    cbn [body print_expr]. fold_operand. rewrite El, Er, En.
    rewrite (IHe1 Hr1 Hq1 (sub r 0) (fst (bin_ctx op))); [|apply zero_sub; exact Hz|destruct op as [| |c| | | | | |]; cbn; lia].
    cbn [ob].
    rewrite (IHe2 Hr2 Hq2 (sub r 1) (snd (bin_ctx op))); [|apply zero_sub; exact Hz|destruct op as [| |c| | | | | |]; cbn; lia].
    cbn [ob]. rewrite op_token_bin. reflexivity.
  - (* NOT *)
    cbn [ref_expr] in Hr. cbn [printable] in Hq.
    cbn [body print_expr]. fold_operand. rewrite N.eqb_refl. change p_not with 2.
    rewrite (IHe Hr Hq (sub r 0) 2); [|apply zero_sub; exact Hz|lia]. reflexivity.
  - (* IS [NOT] NULL *)
    cbn [ref_expr] in Hr. cbn [printable] in Hq.
    cbn [body print_expr]. fold_operand.
    change (lctx (binop_prec (upper "IS NULL"))) with 4.
    rewrite (IHe Hr Hq (sub r 0) 4); [|apply zero_sub; exact Hz|lia].
    cbn [ob]. destruct neg; reflexivity.
  - (* [NOT] IN (list) *)
    cbn [ref_expr] in Hr. apply andb_prop in Hr. destruct Hr as [Hr Hr2].
    apply andb_prop in Hr. destruct Hr as [Hr1 _].
    cbn [printable] in Hq. apply andb_prop in Hq. destruct Hq as [Hq1 Hq2].
    cbn [body print_expr]. fold_operand. change p_concat with 4.
    rewrite (IHe Hr1 Hq1 (sub r 0) 4); [|apply zero_sub; exact Hz|lia].
    cbn [ob]. rewrite (list_items items r 1 H Hr2 Hq2 Hz). cbn [ob].
    destruct neg; reflexivity.
  - (* [NOT] BETWEEN *)
    cbn [ref_expr] in Hr. apply andb_prop in Hr. destruct Hr as [Hr Hr3]. apply andb_prop in Hr. destruct Hr as [Hr1 Hr2].
    cbn [printable] in Hq. apply andb_prop in Hq. destruct Hq as [Hq Hq3]. apply andb_prop in Hq. destruct Hq as [Hq1 Hq2].
    cbn [body print_expr]. fold_operand. change p_concat with 4.
    rewrite (IHe1 Hr1 Hq1 (sub r 0) 4); [|apply zero_sub; exact Hz|lia]. cbn [ob].
    rewrite (IHe2 Hr2 Hq2 (sub r 1) 4); [|apply zero_sub; exact Hz|lia]. cbn [ob].
    rewrite (IHe3 Hr3 Hq3 (sub r 2) 4); [|apply zero_sub; exact Hz|lia]. cbn [ob].
    destruct neg; reflexivity.
  - (* [NOT] LIKE / ILIKE *)
    cbn [ref_expr] in Hr. apply andb_prop in Hr. destruct Hr as [Hr1 Hr2].
    cbn [printable] in Hq. apply andb_prop in Hq. destruct Hq as [Hq1 Hq2].
    cbn [body print_expr]. fold_operand.
    assert (E : forall (c : bool), lctx (binop_prec (upper (if c then "ILIKE" else "LIKE"))) = 4
                                   /\ rctx (binop_prec (upper (if c then "ILIKE" else "LIKE"))) = 4
                                   /\ is_null_op (upper (if c then "ILIKE" else "LIKE")) = false) by (intros [|]; repeat split; reflexivity).
    destruct (E ci) as (E1 & E2 & E3). rewrite E1, E2, E3.
    rewrite (IHe1 Hr1 Hq1 (sub r 0) 4); [|apply zero_sub; exact Hz|lia]. cbn [ob].
    rewrite (IHe2 Hr2 Hq2 (sub r 1) 4); [|apply zero_sub; exact Hz|lia]. cbn [ob].
    destruct ci, neg; reflexivity.
  - (* e :: type *)
    cbn [ref_expr] in Hr. apply andb_prop in Hr. destruct Hr as [Hr1 Hr2].
    cbn [printable] in Hq. apply andb_prop in Hq. destruct Hq as [Hq Hq3]. apply andb_prop in Hq. destruct Hq as [Hq1 Hq2].
    apply (cast_case e t e IHe Hr1 Hr2 Hq1 Hq2 Hq3 r Hz).
  - (* function call *)
    cbn [ref_expr] in Hr. apply andb_prop in Hr. destruct Hr as [Hn Ha].
    cbn [printable] in Hq.
    cbn [body print_expr]. rewrite (plain_not_niladic n Hn). cbn [andb].
    rewrite (list_items args r 0 H Ha Hq Hz). cbn [ob]. reflexivity.
  - (* CASE *)
    cbn [ref_expr] in Hr. apply andb_prop in Hr. destruct Hr as [Hr He]. apply andb_prop in Hr. destruct Hr as [Hr Hw].
    apply andb_prop in Hr. destruct Hr as [Hs _].
    cbn [printable] in Hq. apply andb_prop in Hq. destruct Hq as [Hq Hqe]. apply andb_prop in Hq. destruct Hq as [Hqs Hqw].
    cbn [body print_expr].
    destruct (whens_items whens r 2 H0 Hw Hqw Hz) as (wts & E1 & E2).
    assert (Es : match option_map ast_of s with Some a => print_expr print_ok a | None => Some [] end
                 = Some (match option_map (norm print_ok) s with Some a => render 0 (sub r 0) a | None => [] end)).
    { destruct s as [a|]; cbn [option_map]; [|reflexivity].
      rewrite <- (operand_zero print_ok (ast_of a)). apply (H a eq_refl Hs Hqs (sub r 0) 0 (zero_sub r 0 Hz)). lia. }
    assert (Ee : match option_map ast_of els with
                 | Some a => ob (print_expr print_ok a) (fun x => Some (Tk TyElse "ELSE" :: x))
                 | None => Some [] end
                 = Some (match option_map (norm print_ok) els with Some a => Tk TyElse "ELSE" :: render 0 (sub r 1) a | None => [] end)).
    { destruct els as [a|]; cbn [option_map]; [|reflexivity].
      rewrite <- (operand_zero print_ok (ast_of a)). rewrite (H1 a eq_refl He Hqe (sub r 1) 0 (zero_sub r 1 Hz)); [reflexivity|lia]. }
    rewrite Es. cbn [ob]. rewrite E1. cbn [ob]. rewrite Ee. cbn [ob]. rewrite E2. reflexivity.
  - (* CAST(e AS type) *)
    cbn [ref_expr] in Hr. apply andb_prop in Hr. destruct Hr as [Hr1 Hr2].
    cbn [printable] in Hq. apply andb_prop in Hq. destruct Hq as [Hq Hq3]. apply andb_prop in Hq. destruct Hq as [Hq1 Hq2].
    apply (cast_case e t e IHe Hr1 Hr2 Hq1 Hq2 Hq3 r Hz).
  - (* tuple *)
    cbn [ref_expr] in Hr. apply andb_prop in Hr. destruct Hr as [_ Ha].
    cbn [printable] in Hq.
    cbn [body print_expr]. rewrite (list_items es r 0 H Ha Hq Hz). cbn [ob]. reflexivity.
Qed.

(* ------------------------------------------------------------------------------------------------ *)
(* the theorems *)

Theorem print_is_render : forall e,
    ref_expr e = true -> printable print_ok e = true ->
    print_expr print_ok (ast_of e) = Some (render 0 no_parens (norm print_ok e)).
Proof.
  intros e Hr Hq. rewrite <- operand_zero. apply (all_Q e Hr Hq no_parens 0 zero_no_parens). lia.
Qed.

(* round trip: the parser model reads the printed tokens back to the same tree and leaves the follow tokens *)
Theorem print_parse_expr : forall md e stop d fuel,
    ref_expr e = true -> printable print_ok e = true -> follow_ok stop ->
    d + 1 + pdepth 0 no_parens (norm print_ok e) <= md ->
    exists ts, print_expr print_ok (ast_of e) = Some ts
               /\ (length (ts ++ stop) < fuel -> parse_expression md no_defects fuel d (ts ++ stop) = Val (ast_of e, stop)).
Proof.
  intros md e stop d fuel Hr Hq Hfo Hdep.
  exists (render 0 no_parens (norm print_ok e)). split; [apply print_is_render; assumption|].
  intros Hlen. rewrite <- (ast_of_norm print_ok e).
  apply parse_render_expr_ext; try assumption.
  apply ref_norm; assumption.
Qed.

(* formatting = print after parse *)
Definition fmt_expr (md fuel d : nat) (ts : list token) : option (list token * list token) :=
  match parse_expression md no_defects fuel d ts with
  | Val (g, rest) => match print_expr print_ok g with Some out => Some (out, rest) | None => None end
  | _ => None
  end.

(* every rendering of e (any redundant parentheses) is formatted to the same canonical token list ... *)
Theorem fmt_canonical : forall md e (r : rho) stop d fuel,
    ref_expr e = true -> printable print_ok e = true -> follow_ok stop ->
    d + 1 + pdepth 0 r e <= md -> length (render 0 r e ++ stop) < fuel ->
    fmt_expr md fuel d (render 0 r e ++ stop) = Some (render 0 no_parens (norm print_ok e), stop).
Proof.
  intros md e r stop d fuel Hr Hq Hfo Hdep Hlen. unfold fmt_expr.
  rewrite (parse_render_expr_ext md e r stop d fuel Hr Hfo Hdep Hlen).
  rewrite (print_is_render e Hr Hq). reflexivity.
Qed.

(* ... and formatting the formatted output returns it unchanged *)
Theorem fmt_idempotent : forall md e (r : rho) stop d fuel out rest,
    ref_expr e = true -> printable print_ok e = true -> follow_ok stop ->
    d + 1 + pdepth 0 r e <= md -> length (render 0 r e ++ stop) < fuel ->
    d + 1 + pdepth 0 no_parens (norm print_ok e) <= md ->
    fmt_expr md fuel d (render 0 r e ++ stop) = Some (out, rest) ->
    length (out ++ stop) < fuel ->
    fmt_expr md fuel d (out ++ rest) = Some (out, rest).
Proof.
  intros md e r stop d fuel out rest Hr Hq Hfo Hdep Hlen Hdep2 Hf Hlen2.
  rewrite (fmt_canonical md e r stop d fuel Hr Hq Hfo Hdep Hlen) in Hf. inversion Hf; subst out rest. clear Hf.
  unfold fmt_expr.
  destruct (print_parse_expr md e stop d fuel Hr Hq Hfo Hdep2) as (ts & Hts & Hparse).
  rewrite (print_is_render e Hr Hq) in Hts. inversion Hts; subst ts.
  rewrite (Hparse Hlen2). rewrite (print_is_render e Hr Hq). reflexivity.
Qed.

(* ------------------------------------------------------------------------------------------------ *)
(* codecs *)

Lemma append_assoc_s : forall a b c : string, ((a ++ b) ++ c)%string = (a ++ (b ++ c))%string.
Proof. induction a as [|x a IH]; intros; cbn; [reflexivity|]. rewrite IH. reflexivity. Qed.
Lemma append_nil_s : forall a : string, (a ++ "")%string = a.
Proof. induction a as [|x a IH]; cbn; [reflexivity|]. rewrite IH. reflexivity. Qed.
Lemma length_append_s : forall a b : string, String.length (a ++ b)%string = String.length a + String.length b.
Proof. induction a as [|x a IH]; intros; cbn; [reflexivity|]. rewrite IH. reflexivity. Qed.

Definition not_quote_head (q : ascii) (rest : string) : Prop :=
  match rest with EmptyString => True | String c _ => Ascii.eqb c q = false end.

Lemma read_lit_escape : forall cf s first buf rest fuel,
    d_ctrlz_escape cf = false ->
    (d_drop_nul cf = true -> has_char (ch 0) s = false) ->
    not_quote_head c_quote rest ->
    String.length (escape_lit_at cf first s) < fuel ->
    read_lit fuel (escape_lit_at cf first s ++ String c_quote rest)%string buf = Some ((buf ++ s)%string, rest).
Proof.
  intros cf s. induction s as [|c s IH]; intros first buf rest fuel Hz Hn Hq Hlen.
  - cbn [escape_lit_at append]. destruct fuel as [|f]; [cbn in Hlen; lia|]. cbn [read_lit].
    rewrite Ascii.eqb_refl. rewrite append_nil_s.
    destruct rest as [|c2 r2]; [reflexivity|]. unfold not_quote_head in Hq. rewrite Hq. reflexivity.
  - assert (Hn' : d_drop_nul cf = true -> has_char (ch 0) s = false).
    { intros Hd. specialize (Hn Hd). unfold has_char in *. cbn [all_chars] in Hn.
      apply negb_false_iff in Hn. apply andb_prop in Hn. destruct Hn as [_ Hn]. rewrite Hn. reflexivity. }
    assert (Hc0 : d_drop_nul cf = true -> Ascii.eqb c (ch 0) = false).
    { intros Hd. specialize (Hn Hd). unfold has_char in Hn. cbn [all_chars] in Hn.
      apply negb_false_iff in Hn. apply andb_prop in Hn. destruct Hn as [Hn _]. apply negb_true_iff in Hn. exact Hn. }
    assert (Happ : forall x, ((buf ++ String x "") ++ s)%string = (buf ++ String x s)%string)
      by (intros x; rewrite append_assoc_s; reflexivity).
    cbn [escape_lit_at] in *.
    destruct (Ascii.eqb_spec c c_quote) as [E|Nq].
    { subst c. destruct (first && negb (d_triple_quote cf)).
      - cbn [append String.length] in *. destruct fuel as [|f]; [lia|]. cbn [read_lit].
        change (Ascii.eqb c_bslash c_quote) with false. cbn iota. rewrite !Ascii.eqb_refl. rewrite !orb_true_r. cbn [orb].
        rewrite IH; [rewrite Happ; reflexivity|assumption|assumption|assumption|lia].
      - cbn [append String.length] in *. destruct fuel as [|f]; [lia|]. cbn [read_lit].
        rewrite !Ascii.eqb_refl.
        rewrite IH; [rewrite Happ; reflexivity|assumption|assumption|assumption|lia]. }
    destruct (Ascii.eqb_spec c c_bslash) as [E|Nb].
    { subst c. cbn [append String.length] in *. destruct fuel as [|f]; [lia|]. cbn [read_lit].
      change (Ascii.eqb c_bslash c_quote) with false. cbn iota. rewrite Ascii.eqb_refl. cbn [orb].
      rewrite IH; [rewrite Happ; reflexivity|assumption|assumption|assumption|lia]. }
    destruct (Ascii.eqb_spec c (ch 0)) as [E|N0].
    { subst c. destruct (d_drop_nul cf) eqn:Hd; [specialize (Hc0 eq_refl); discriminate Hc0|].
      cbn [append String.length] in *. destruct fuel as [|f]; [lia|]. cbn [read_lit].
      change (Ascii.eqb (ch 0) c_quote) with false. change (Ascii.eqb (ch 0) c_bslash) with false. cbn iota.
      rewrite IH; [rewrite Happ; reflexivity|assumption|assumption|assumption|lia]. }
    destruct (Ascii.eqb_spec c (ch 10)) as [E|N10].
    { subst c. cbn [append String.length] in *. destruct fuel as [|f]; [lia|]. cbn [read_lit].
      change (Ascii.eqb c_bslash c_quote) with false. cbn iota. rewrite Ascii.eqb_refl.
      change (Ascii.eqb "n"%char c_bslash || Ascii.eqb "n"%char c_dquote || Ascii.eqb "n"%char c_quote || Ascii.eqb "n"%char c_btick) with false.
      cbn iota. rewrite Ascii.eqb_refl.
      rewrite IH; [rewrite Happ; reflexivity|assumption|assumption|assumption|lia]. }
    destruct (Ascii.eqb_spec c (ch 13)) as [E|N13].
    { subst c. cbn [append String.length] in *. destruct fuel as [|f]; [lia|]. cbn [read_lit].
      change (Ascii.eqb c_bslash c_quote) with false. cbn iota. rewrite Ascii.eqb_refl.
      change (Ascii.eqb "r"%char c_bslash || Ascii.eqb "r"%char c_dquote || Ascii.eqb "r"%char c_quote || Ascii.eqb "r"%char c_btick) with false.
      cbn iota. change (Ascii.eqb "r"%char "n"%char) with false. cbn iota. rewrite Ascii.eqb_refl.
      rewrite IH; [rewrite Happ; reflexivity|assumption|assumption|assumption|lia]. }
    rewrite Hz, andb_false_r in *.
    cbn [append String.length] in *. destruct fuel as [|f]; [lia|]. cbn [read_lit].
    destruct (Ascii.eqb_spec c c_quote); [contradiction|]. destruct (Ascii.eqb_spec c c_bslash); [contradiction|].
    rewrite IH; [rewrite Happ; reflexivity|reflexivity|assumption|assumption|lia].
Qed.

(* the escaped text never begins with two quote characters: the literal does not open a triple-quoted string *)
Lemma escape_no_triple : forall cf s rest,
    d_ctrlz_escape cf = false -> d_triple_quote cf = false -> not_quote_head c_quote rest ->
    two_quotes (escape_lit_at cf true s ++ String c_quote rest)%string = false.
Proof.
  intros cf s rest Hz Ht Hq. induction s as [|c s IH].
  - cbn [escape_lit_at append two_quotes]. destruct rest as [|c2 r2]; [reflexivity|].
    unfold not_quote_head in Hq. rewrite Hq. apply andb_false_r.
  - cbn [escape_lit_at]. rewrite Ht. cbn [negb andb].
    destruct (Ascii.eqb_spec c c_quote) as [E|Nq]; [reflexivity|].
    destruct (Ascii.eqb_spec c c_bslash) as [E|Nb]; [reflexivity|].
    destruct (Ascii.eqb_spec c (ch 0)) as [E|N0].
    { destruct (d_drop_nul cf); [exact IH|]. subst c. cbn [append two_quotes].
      destruct (escape_lit_at cf false s ++ String c_quote rest)%string; reflexivity. }
    destruct (Ascii.eqb_spec c (ch 10)); [reflexivity|]. destruct (Ascii.eqb_spec c (ch 13)); [reflexivity|].
    rewrite Hz, andb_false_r. cbn [append two_quotes].
    destruct (escape_lit_at cf false s ++ String c_quote rest)%string; [reflexivity|].
    destruct (Ascii.eqb_spec c c_quote); [contradiction|reflexivity].
Qed.

(* what the tokenizer reads from the text of a string literal is its content (ASCII contents: the real reader also
   turns typographic quotes into quote characters, which no escape protects) *)
Theorem literal_roundtrip : forall cf s rest,
    d_ctrlz_escape cf = false -> d_triple_quote cf = false ->
    (d_drop_nul cf = true -> has_char (ch 0) s = false) ->
    not_quote_head c_quote rest ->
    read_lit_text (lit_text cf s ++ rest)%string = Some (s, rest).
Proof.
  intros cf s rest Hz Ht Hn Hq. unfold lit_text, read_lit_text, escape_lit. cbn [append].
  rewrite Ascii.eqb_refl. rewrite append_assoc_s. cbn [append].
  rewrite (escape_no_triple cf s rest Hz Ht Hq).
  rewrite (read_lit_escape cf s true "" rest); try assumption; [reflexivity|].
  rewrite !length_append_s. cbn [String.length]. lia.
Qed.

Lemma read_qident_quote : forall n buf rest fuel,
    has_char (ch 10) n = false -> not_quote_head c_dquote rest ->
    String.length (double_dquotes n) < fuel ->
    read_qident fuel (double_dquotes n ++ String c_dquote rest)%string buf = Some ((buf ++ n)%string, rest).
Proof.
  induction n as [|c n IH]; intros buf rest fuel Hnl Hq Hlen.
  - cbn [double_dquotes append]. destruct fuel as [|f]; [cbn in Hlen; lia|]. cbn [read_qident].
    rewrite Ascii.eqb_refl. rewrite append_nil_s.
    destruct rest as [|c2 r2]; [reflexivity|]. unfold not_quote_head in Hq. rewrite Hq. reflexivity.
  - assert (Hnl' : has_char (ch 10) n = false).
    { unfold has_char in *. cbn [all_chars] in Hnl. apply negb_false_iff in Hnl. apply andb_prop in Hnl. destruct Hnl as [_ H]. rewrite H. reflexivity. }
    assert (Hc : Ascii.eqb c (ch 10) = false).
    { unfold has_char in Hnl. cbn [all_chars] in Hnl. apply negb_false_iff in Hnl. apply andb_prop in Hnl. destruct Hnl as [H _]. apply negb_true_iff in H. exact H. }
    assert (Happ : forall x, ((buf ++ String x "") ++ n)%string = (buf ++ String x n)%string)
      by (intros x; rewrite append_assoc_s; reflexivity).
    cbn [double_dquotes] in *. destruct (Ascii.eqb_spec c c_dquote) as [E|Nq].
    + subst c. cbn [append String.length] in *. destruct fuel as [|f]; [lia|]. cbn [read_qident].
      rewrite !Ascii.eqb_refl.
      rewrite IH; [rewrite Happ; reflexivity|assumption|assumption|lia].
    + cbn [append String.length] in *. destruct fuel as [|f]; [lia|]. cbn [read_qident].
      destruct (Ascii.eqb_spec c c_dquote); [contradiction|]. rewrite Hc.
      rewrite IH; [rewrite Happ; reflexivity|assumption|assumption|lia].
Qed.

(* a quoted identifier is read back as the name (names without line break: the reader rejects one inside quotes) *)
Theorem ident_roundtrip : forall n rest,
    has_char (ch 10) n = false -> not_quote_head c_dquote rest ->
    read_qident_text (quote_ident n ++ rest)%string = Some (n, rest).
Proof.
  intros n rest Hnl Hq. unfold quote_ident, read_qident_text. cbn [append].
  rewrite append_assoc_s. cbn [append].
  rewrite (read_qident_quote n "" rest); try assumption; [reflexivity|].
  rewrite !length_append_s. cbn [String.length]. lia.
Qed.

(* ------------------------------------------------------------------------------------------------ *)
(* refuted: each defect switch breaks the round trip; the witnesses are the corpus entries of the findings *)

Definition eof_stop : list token := [Tk TyEOF ""].
Definition rt_fails (pf : pflags) (e : mexpr) : Prop :=
  ref_expr e = true /\ printable print_ok e = true /\
  exists ts, print_expr pf (ast_of e) = Some ts /\ parse_expr_top no_defects 0 (ts ++ eof_stop) <> Val (ast_of e, eof_stop).

Definition w_parens : mexpr := MBin BAnd (MBin BOr (MIdent false "a") (MIdent false "b")) (MIdent false "c").
Definition w_isnotnull : mexpr := MIsNull (MIdent false "a") true.
Definition w_reserved : mexpr := MIdent true "select".
Definition w_dotted : mexpr := MIdent true "a.b".

Ltac refute := repeat split; try reflexivity; eexists; split; [vm_compute; reflexivity|vm_compute; discriminate].

Theorem refuted_no_parens : rt_fails (PFlags true false false false false) w_parens. Proof. refute. Qed.
Theorem refuted_is_not_null_lost : rt_fails (PFlags false true false false false) w_isnotnull. Proof. refute. Qed.
Theorem refuted_reserved_raw : rt_fails (PFlags false false true false false) w_reserved. Proof. refute. Qed.
(* the unrepaired one: with '.' as a safe character the quoted identifier a.b is written raw and read as table a, column b *)
Theorem refuted_dot_safe :
  ref_expr w_dotted = true /\
  exists ts, print_expr print_tree (ast_of w_dotted) = Some ts /\ parse_expr_top no_defects 0 (ts ++ eof_stop) <> Val (ast_of w_dotted, eof_stop).
Proof. repeat split; try reflexivity. eexists; split; [vm_compute; reflexivity|vm_compute; discriminate]. Qed.

(* the other unrepaired one: a quoted identifier that begins with a digit is written raw and read as a number *)
Definition w_digit : mexpr := MIdent true "1".
Theorem refuted_digit_safe :
  ref_expr w_digit = true /\
  exists ts, print_expr print_tree (ast_of w_digit) = Some ts /\ parse_expr_top no_defects 0 (ts ++ eof_stop) <> Val (ast_of w_digit, eof_stop).
Proof. repeat split; try reflexivity. eexists; split; [vm_compute; reflexivity|vm_compute; discriminate]. Qed.

Theorem refuted_ctrlz_escape : exists s, read_lit_text (lit_text (CFlags true false false) s) <> Some (s, "").
Proof. exists (String (ch 26) ""). vm_compute. discriminate. Qed.
Theorem refuted_drop_nul : exists s, read_lit_text (lit_text codec_tree s) <> Some (s, "").
Proof. exists (String "a"%char (String (ch 0) "b")). vm_compute. discriminate. Qed.
Theorem refuted_triple_quote : exists s, read_lit_text (lit_text (CFlags false false true) s) <> Some (s, "").
Proof. exists (String c_quote "x"). vm_compute. discriminate. Qed.

(* non-vacuity *)
Example ex_mixed_printable : printable print_ok ex_mixed = true. Proof. reflexivity. Qed.
Example ex_print_parse :
  exists ts, print_expr print_ok (ast_of w_parens) = Some ts
             /\ map lit ts = ["("; "a"; "OR"; "b"; ")"; "AND"; "c"]
             /\ parse_expr_top no_defects 0 (ts ++ eof_stop) = Val (ast_of w_parens, eof_stop).
Proof. eexists. split; [vm_compute; reflexivity|]. split; vm_compute; reflexivity. Qed.
Example ex_literal : read_lit_text (lit_text codec_ok "it's a\b" ++ " x")%string = Some ("it's a\b", " x").
Proof. reflexivity. Qed.
