(* ExprPrintP.v — proofs about the Gallina mirror of the expression serialiser (Model/ExprPrint.v):
   - [print_is_render]: for every reference expression of the proved sub-surface the printer (all defects
     repaired) writes exactly the rendering, with only the required parentheses, of the normalised expression
     (`e::t` written CAST(e AS t), identifiers quoted when safeIdentifier says so), whose prescribed tree is the
     same tree;
   - [print_parse_expr]: hence (C03: parse_render_expr_partial) the parser model reads the printed tokens back
     to exactly that tree; [fmt_canonical] / [fmt_idempotent] for print after parse;
   - [literal_roundtrip], [ident_roundtrip]: the two byte-level codecs;
   - refuted witnesses for every defect switch. *)
From Coq Require Import List String Ascii Bool Arith NArith Lia.
From GV Require Import Spec.RefGrammar Model.Expr Model.ExprParse Proofs.ExprParseP Model.ExprPrint.
Import ListNotations.
Local Open Scope string_scope.
Local Open Scope list_scope.
Local Open Scope nat_scope.
Local Notation length := List.length.

(* ------------------------------------------------------------------------------------------------ *)
(* parenthesisation choices without redundant pairs *)
Definition zero_rho (r : rho) : Prop := forall p, r p = 0.
Lemma zero_no_parens : zero_rho no_parens. Proof. intro p. reflexivity. Qed.
Lemma zero_sub : forall r i, zero_rho r -> zero_rho (sub r i). Proof. intros r i H p. apply H. Qed.

Lemma parens_zero : forall lv r e, zero_rho r -> parens lv r e = if level_of e <? lv then 1 else 0.
Proof. intros lv r e H. unfold parens. rewrite H. reflexivity. Qed.

Lemma wrap_1 : forall ts, wrap 1 ts = wrap1 ts. Proof. reflexivity. Qed.

Lemma render_zero : forall lv r e, zero_rho r ->
    render lv r e = if level_of e <? lv then wrap1 (body r e) else body r e.
Proof.
  intros lv r e H. rewrite render_body, parens_zero by assumption.
  destruct (level_of e <? lv); reflexivity.
Qed.

Lemma par_ok : forall p ctx ts, par print_ok p ctx (Some ts) = Some (if p <? ctx then wrap1 ts else ts).
Proof. reflexivity. Qed.

Lemma operand_zero : forall pf g, operand pf g 0 = print_expr pf g.
Proof. intros pf g. unfold operand, par. destruct (print_expr pf g); [|reflexivity]. rewrite andb_false_r. reflexivity. Qed.

(* ------------------------------------------------------------------------------------------------ *)
(* strings *)
Lemma all_chars_app : forall f a b, all_chars f (a ++ b)%string = all_chars f a && all_chars f b.
Proof. induction a as [|c a IH]; intros b; cbn [append all_chars]; [reflexivity|]. rewrite IH, andb_assoc. reflexivity. Qed.

Lemma split_dots_nodot : forall s cur, has_char "."%char s = false -> split_dots s cur = [(cur ++ s)%string].
Proof.
  induction s as [|c s IH]; intros cur H; cbn [split_dots].
  - rewrite (proj2 (String.eqb_eq _ _) eq_refl) || idtac. f_equal.
    clear. induction cur as [|x cur IH]; cbn; [reflexivity|]. f_equal. exact IH.
  - unfold has_char in H. cbn [all_chars] in H. apply negb_false_iff in H. apply andb_prop in H. destruct H as [Hc Hs].
    apply negb_true_iff in Hc. rewrite Hc. rewrite IH.
    + f_equal. clear. induction cur as [|x cur IH]; cbn; [reflexivity|]. f_equal. exact IH.
    + unfold has_char. rewrite Hs. reflexivity.
Qed.

Lemma has_char_star : forall n, has_char "*"%char n = false -> String.eqb n "*" = false.
Proof.
  intros n H. destruct (String.eqb_spec n "*") as [E|]; [|reflexivity]. subst n. discriminate H.
Qed.

(* a word that needs no quotes is written as one identifier token *)
Lemma ident_tokens_plain : forall n, plain_word print_ok n = true -> ident_tokens print_ok n = [Tk TyIdent n].
Proof.
  intros n H. unfold plain_word in H. apply andb_prop in H. destruct H as [H Hstar]. apply andb_prop in H. destruct H as [Hq Hdot].
  apply negb_true_iff in Hq, Hdot, Hstar.
  unfold ident_tokens. rewrite Hq. unfold raw_tokens. rewrite split_dots_nodot by exact Hdot. cbn [append map sep_by].
  unfold raw_part. rewrite (has_char_star n Hstar).
  unfold needs_quote in Hq. apply orb_false_elim in Hq. destruct Hq as [Hq Hd]. apply orb_false_elim in Hq. destruct Hq as [_ Hr].
  cbn [d_reserved_raw d_digit_safe print_ok negb andb] in Hr, Hd.
  rewrite Hr, Hd. reflexivity.
Qed.

Lemma ident_tokens_bare : forall n, (needs_quote print_ok n || plain_word print_ok n) = true ->
    ident_tokens print_ok n = [Tk (if needs_quote print_ok n then TyDQuoted else TyIdent) n].
Proof.
  intros n H. destruct (needs_quote print_ok n) eqn:Hq.
  - unfold ident_tokens. rewrite Hq. reflexivity.
  - cbn [orb] in H. apply ident_tokens_plain. exact H.
Qed.

(* ------------------------------------------------------------------------------------------------ *)
(* the normalised expression has the same prescribed tree and stays in the proved reference surface *)

Lemma map_ext_Forall : forall {A B} (f g : A -> B) l, Forall (fun x => f x = g x) l -> map f l = map g l.
Proof. intros A B f g l H. induction H; cbn [map]; [reflexivity|]. rewrite H, IHForall. reflexivity. Qed.

Lemma ast_of_norm : forall pf e, proved e = true -> ast_of (norm pf e) = ast_of e.
Proof.
  intros pf. induction e using mexpr_ind2; intros Hp; cbn [proved] in Hp; try discriminate; cbn [norm ast_of]; try reflexivity.
  - apply andb_prop in Hp. destruct Hp. rewrite IHe1, IHe2 by assumption. reflexivity.
  - rewrite IHe by assumption. reflexivity.
  - rewrite IHe by assumption. reflexivity.
  - apply andb_prop in Hp. destruct Hp as [Ha Hi]. rewrite IHe by assumption. f_equal.
    rewrite map_map. apply map_ext_Forall.
    rewrite forallb_forall in Hi. rewrite Forall_forall in *. intros x Hx. apply H; [exact Hx|apply Hi; exact Hx].
  - apply andb_prop in Hp. destruct Hp as [Hp Hc]. apply andb_prop in Hp. destruct Hp.
    rewrite IHe1, IHe2, IHe3 by assumption. reflexivity.
  - apply andb_prop in Hp. destruct Hp. rewrite IHe1, IHe2 by assumption. reflexivity.
  - apply andb_prop in Hp. destruct Hp. rewrite IHe by assumption. reflexivity.
  - apply andb_prop in Hp. destruct Hp. rewrite IHe by assumption. reflexivity.
Qed.

Lemma proved_norm : forall pf e, proved e = true -> proved (norm pf e) = true.
Proof.
  intros pf. induction e using mexpr_ind2; intros Hp; cbn [proved] in Hp; try discriminate; cbn [norm proved]; try reflexivity.
  - apply andb_prop in Hp. destruct Hp. rewrite IHe1, IHe2 by assumption. reflexivity.
  - auto.
  - auto.
  - apply andb_prop in Hp. destruct Hp as [Ha Hi]. rewrite IHe by assumption. cbn [andb].
    rewrite forallb_forall in *. intros x Hx. apply in_map_iff in Hx. destruct Hx as (y & E & Hy). subst x.
    rewrite Forall_forall in H. apply H; [exact Hy|apply Hi; exact Hy].
  - apply andb_prop in Hp. destruct Hp as [Hp Hc]. apply andb_prop in Hp. destruct Hp.
    rewrite IHe1, IHe2, IHe3 by assumption. reflexivity.
  - apply andb_prop in Hp. destruct Hp. rewrite IHe1, IHe2 by assumption. reflexivity.
  - apply andb_prop in Hp. destruct Hp as [Ha Ht]. rewrite IHe by assumption. exact Ht.
  - apply andb_prop in Hp. destruct Hp as [Ha Ht]. rewrite IHe by assumption. exact Ht.
Qed.

Lemma ref_norm : forall pf e, proved e = true -> ref_expr e = true -> ref_expr (norm pf e) = true.
Proof.
  intros pf. induction e using mexpr_ind2; intros Hp Hr; cbn [proved] in Hp; try discriminate; cbn [norm ref_expr] in *; try exact Hr.
  - apply andb_prop in Hp. destruct Hp. apply andb_prop in Hr. destruct Hr. rewrite IHe1, IHe2 by assumption. reflexivity.
  - auto.
  - auto.
  - apply andb_prop in Hp. destruct Hp as [Ha Hi]. apply andb_prop in Hr. destruct Hr as [Hr Hf]. apply andb_prop in Hr. destruct Hr as [Hra Hl].
    rewrite IHe by assumption. rewrite map_length, Hl. cbn [andb].
    rewrite forallb_forall in *. intros x Hx. apply in_map_iff in Hx. destruct Hx as (y & E & Hy). subst x.
    rewrite Forall_forall in H. apply H; [exact Hy|apply Hi; exact Hy|apply Hf; exact Hy].
  - apply andb_prop in Hp. destruct Hp as [Hp Hc]. apply andb_prop in Hp. destruct Hp.
    apply andb_prop in Hr. destruct Hr as [Hr Hr3]. apply andb_prop in Hr. destruct Hr.
    rewrite IHe1, IHe2, IHe3 by assumption. reflexivity.
  - apply andb_prop in Hp. destruct Hp. apply andb_prop in Hr. destruct Hr. rewrite IHe1, IHe2 by assumption. reflexivity.
  - apply andb_prop in Hp. destruct Hp. apply andb_prop in Hr. destruct Hr as [Hr Ht]. rewrite IHe by assumption. exact Ht.
  - apply andb_prop in Hp. destruct Hp. apply andb_prop in Hr. destruct Hr as [Hr Ht]. rewrite IHe by assumption. exact Ht.
Qed.

(* ------------------------------------------------------------------------------------------------ *)
(* the printer's level of the prescribed tree decides parentheses like the reference level of the normalised
   expression, in every context the printer uses (contexts are at most precUnary = 7) *)
Lemma prec_norm : forall e ctx, proved e = true -> ctx <= 7 ->
    (go_prec (ast_of e) <? ctx) = (level_of (norm print_ok e) <? ctx).
Proof.
  intros e ctx Hp Hc.
  assert (Hprim : forall a b, 8 <= a -> 8 <= b -> (a <? ctx) = (b <? ctx)).
  { intros a b Ha Hb. destruct (Nat.ltb_spec a ctx), (Nat.ltb_spec b ctx); try reflexivity; lia. }
  destruct e as [q n|t n|s|s|s| |b|op a b|a|a neg|a neg items|a neg lo hi|a neg ci p|a t|n d args|s whens els|a t|es];
    cbn [proved] in Hp; try discriminate; cbn [norm ast_of level_of go_prec];
    try (apply Hprim; unfold null_lit, go_prec, p_primary; lia); try reflexivity.
  - destruct op as [| |c| | | | | |]; try reflexivity. destruct c; reflexivity.
  - destruct neg; reflexivity.
  - destruct ci, neg; reflexivity.
Qed.

(* ------------------------------------------------------------------------------------------------ *)
(* the printer writes the rendering of the normalised expression *)

Lemma op_token_bin : forall op, op_token (bin_str op) = Some (bin_tok op).
Proof. destruct op as [| |c| | | | | |]; try reflexivity. destruct c; reflexivity. Qed.

Lemma binop_prec_bin : forall op,
    lctx (binop_prec (upper (bin_str op))) = fst (bin_ctx op) /\ rctx (binop_prec (upper (bin_str op))) = snd (bin_ctx op)
    /\ is_null_op (upper (bin_str op)) = false.
Proof. destruct op as [| |c| | | | | |]; try (repeat split; reflexivity). destruct c; repeat split; reflexivity. Qed.

Lemma type_tokens_word : forall w, all_chars type_char w = true -> String.eqb w "" = false ->
    type_tokens w = Some [Tk TyIdent w].
Proof.
  intros w Hw Hne. unfold type_tokens. rewrite Hne.
  assert (G : forall s cur, all_chars type_char s = true -> String.eqb (cur ++ s)%string "" = false ->
              split_on is_punct s cur = [inl (cur ++ s)%string]).
  { induction s as [|c s IH]; intros cur Hs Hn; cbn [split_on].
    - assert (E : (cur ++ "")%string = cur) by (clear; induction cur as [|x cur IH]; cbn; [reflexivity|f_equal; exact IH]).
      rewrite E in *. rewrite Hn. reflexivity.
    - cbn [all_chars] in Hs. apply andb_prop in Hs. destruct Hs as [Hc Hs].
      assert (Hp : is_punct c = false).
      { unfold is_punct. unfold type_char, word_char, is_alpha, is_digit_c, in_range in Hc.
        destruct (Ascii.eqb_spec c "("%char) as [E|]; [subst c; discriminate Hc|].
        destruct (Ascii.eqb_spec c ")"%char) as [E|]; [subst c; discriminate Hc|].
        destruct (Ascii.eqb_spec c ","%char) as [E|]; [subst c; discriminate Hc|]. reflexivity. }
      rewrite Hp.
      assert (E : ((cur ++ String c "") ++ s)%string = (cur ++ String c s)%string)
        by (clear; induction cur as [|x cur IH]; cbn; [reflexivity|f_equal; exact IH]).
      rewrite IH; [rewrite E; reflexivity|exact Hs|rewrite E; exact Hn]. }
  rewrite (G w "" Hw Hne). cbn [append type_pieces type_piece]. rewrite Hw. reflexivity.
Qed.

Lemma plain_name_nonempty : forall s, plain_name s = true -> String.eqb s "" = false.
Proof. intros s H. unfold plain_name in H. apply andb_prop in H. destruct H as [H _]. apply negb_true_iff in H. exact H. Qed.

Definition Q (e : mexpr) : Prop :=
  proved e = true -> ref_expr e = true -> printable print_ok e = true ->
  forall r ctx, zero_rho r -> ctx <= 7 ->
    operand print_ok (ast_of e) ctx = Some (render ctx r (norm print_ok e)).

(* from the body to the operand form *)
Lemma Q_of_body : forall e, proved e = true ->
    (forall r, zero_rho r -> print_expr print_ok (ast_of e) = Some (body r (norm print_ok e))) ->
    forall r ctx, zero_rho r -> ctx <= 7 -> operand print_ok (ast_of e) ctx = Some (render ctx r (norm print_ok e)).
Proof.
  intros e Hp Hb r ctx Hz Hc. unfold operand. rewrite (Hb r Hz), par_ok, render_zero by assumption.
  rewrite (prec_norm e ctx Hp Hc). reflexivity.
Qed.

Lemma list_items : forall items r i,
    Forall Q items -> forallb proved items = true -> forallb ref_expr items = true -> forallb (printable print_ok) items = true ->
    zero_rho r ->
    all_some (map (print_expr print_ok) (map ast_of items)) = Some (render_list render 0 r i (map (norm print_ok) items)).
Proof.
  induction items as [|x items IH]; intros r i HQ Hp Hr Hpr Hz; cbn [map all_some render_list]; [reflexivity|].
  cbn [forallb] in Hp, Hr, Hpr. apply andb_prop in Hp, Hr, Hpr. destruct Hp as [Hp1 Hp2], Hr as [Hr1 Hr2], Hpr as [Hq1 Hq2].
  inversion HQ as [|? ? HQx HQl]; subst.
  rewrite <- (operand_zero print_ok (ast_of x)).
  rewrite (HQx Hp1 Hr1 Hq1 (sub r i) 0 (zero_sub r i Hz) ltac:(lia)).
  rewrite (IH r (S i) HQl Hp2 Hr2 Hq2 Hz). reflexivity.
Qed.

Ltac fold_operand :=
  repeat match goal with
         | |- context [par ?pf (go_prec ?g) ?c (print_expr ?pf ?g)] => change (par pf (go_prec g) c (print_expr pf g)) with (operand pf g c)
         end.

Theorem all_Q : forall e, Q e.
Proof.
  induction e using mexpr_ind2; unfold Q; intros Hp Hr Hq; cbn [proved] in Hp; try discriminate;
    apply Q_of_body; try exact Hp; intros r Hz; cbn [norm ast_of body].
  - (* identifier *)
    cbn [print_expr]. cbn [printable] in Hq. rewrite (ident_tokens_bare n Hq). reflexivity.
  - (* qualified identifier *)
    cbn [print_expr]. cbn [printable] in Hq. apply andb_prop in Hq. destruct Hq as [Ht Hn].
    cbn [ref_expr] in Hr. apply andb_prop in Hr. destruct Hr as [Hrt _].
    rewrite (plain_name_nonempty t Hrt). rewrite (ident_tokens_plain t Ht), (ident_tokens_plain n Hn). reflexivity.
  - (* number *)
    cbn [print_expr lit_tokens]. unfold num_type. destruct (has_float_char s); reflexivity.
  - reflexivity.
  - reflexivity.
  - reflexivity.
  - destruct b; reflexivity.
  - (* binary operator *)
    apply andb_prop in Hp. destruct Hp as [Hp1 Hp2]. cbn [ref_expr] in Hr. apply andb_prop in Hr. destruct Hr as [Hr1 Hr2].
    cbn [printable] in Hq. apply andb_prop in Hq. destruct Hq as [Hq1 Hq2].
    destruct (binop_prec_bin op) as (El & Er & En).
    cbn [print_expr]. fold_operand. rewrite El, Er, En.
    rewrite (IHe1 Hp1 Hr1 Hq1 (sub r 0) (fst (bin_ctx op))); [|apply zero_sub; exact Hz|destruct op as [| |c| | | | | |]; cbn; lia].
    cbn [ob].
    rewrite (IHe2 Hp2 Hr2 Hq2 (sub r 1) (snd (bin_ctx op))); [|apply zero_sub; exact Hz|destruct op as [| |c| | | | | |]; cbn; lia].
    cbn [ob]. rewrite op_token_bin. reflexivity.
  - (* NOT *)
    cbn [ref_expr] in Hr. cbn [printable] in Hq.
    cbn [print_expr]. fold_operand. rewrite N.eqb_refl. change p_not with 2.
    rewrite (IHe Hp Hr Hq (sub r 0) 2); [|apply zero_sub; exact Hz|lia]. reflexivity.
  - (* IS [NOT] NULL *)
    cbn [ref_expr] in Hr. cbn [printable] in Hq.
    cbn [print_expr]. fold_operand.
    change (lctx (binop_prec (upper "IS NULL"))) with 4.
    rewrite (IHe Hp Hr Hq (sub r 0) 4); [|apply zero_sub; exact Hz|lia].
    cbn [ob]. destruct neg; reflexivity.
  - (* [NOT] IN (list) *)
    apply andb_prop in Hp. destruct Hp as [Hp1 Hp2]. cbn [ref_expr] in Hr. apply andb_prop in Hr. destruct Hr as [Hr Hr2].
    apply andb_prop in Hr. destruct Hr as [Hr1 _].
    cbn [printable] in Hq. apply andb_prop in Hq. destruct Hq as [Hq1 Hq2].
    cbn [print_expr]. fold_operand. change p_concat with 4.
    rewrite (IHe Hp1 Hr1 Hq1 (sub r 0) 4); [|apply zero_sub; exact Hz|lia].
    cbn [ob]. rewrite (list_items items r 1 H Hp2 Hr2 Hq2 Hz). cbn [ob].
    destruct neg; reflexivity.
  - (* [NOT] BETWEEN *)
    apply andb_prop in Hp. destruct Hp as [Hp Hp3]. apply andb_prop in Hp. destruct Hp as [Hp1 Hp2].
    cbn [ref_expr] in Hr. apply andb_prop in Hr. destruct Hr as [Hr Hr3]. apply andb_prop in Hr. destruct Hr as [Hr1 Hr2].
    cbn [printable] in Hq. apply andb_prop in Hq. destruct Hq as [Hq Hq3]. apply andb_prop in Hq. destruct Hq as [Hq1 Hq2].
    cbn [print_expr]. fold_operand. change p_concat with 4.
    rewrite (IHe1 Hp1 Hr1 Hq1 (sub r 0) 4); [|apply zero_sub; exact Hz|lia]. cbn [ob].
    rewrite (IHe2 Hp2 Hr2 Hq2 (sub r 1) 4); [|apply zero_sub; exact Hz|lia]. cbn [ob].
    rewrite (IHe3 Hp3 Hr3 Hq3 (sub r 2) 4); [|apply zero_sub; exact Hz|lia]. cbn [ob].
    destruct neg; reflexivity.
  - (* [NOT] LIKE / ILIKE *)
    apply andb_prop in Hp. destruct Hp as [Hp1 Hp2]. cbn [ref_expr] in Hr. apply andb_prop in Hr. destruct Hr as [Hr1 Hr2].
    cbn [printable] in Hq. apply andb_prop in Hq. destruct Hq as [Hq1 Hq2].
    cbn [print_expr]. fold_operand.
    assert (E : forall (c : bool), lctx (binop_prec (upper (if c then "ILIKE" else "LIKE"))) = 4
                                   /\ rctx (binop_prec (upper (if c then "ILIKE" else "LIKE"))) = 4
                                   /\ is_null_op (upper (if c then "ILIKE" else "LIKE")) = false) by (intros [|]; repeat split; reflexivity).
    destruct (E ci) as (E1 & E2 & E3). rewrite E1, E2, E3.
    rewrite (IHe1 Hp1 Hr1 Hq1 (sub r 0) 4); [|apply zero_sub; exact Hz|lia]. cbn [ob].
    rewrite (IHe2 Hp2 Hr2 Hq2 (sub r 1) 4); [|apply zero_sub; exact Hz|lia]. cbn [ob].
    destruct ci, neg; reflexivity.
  - (* e :: type, written CAST(e AS type) *)
    apply andb_prop in Hp. destruct Hp as [Hp1 Hp2]. cbn [ref_expr] in Hr. apply andb_prop in Hr. destruct Hr as [Hr1 Hr2].
    cbn [printable] in Hq. apply andb_prop in Hq. destruct Hq as [Hq1 Hq2].
    cbn [print_expr]. rewrite <- (operand_zero print_ok (ast_of e)).
    rewrite (IHe Hp1 Hr1 Hq1 (sub r 0) 0); [|apply zero_sub; exact Hz|lia]. cbn [ob].
    unfold type_str, type_toks. destruct (targs t); [|discriminate Hp2].
    rewrite (type_tokens_word (tname t) Hq2 (plain_name_nonempty _ Hr2)). reflexivity.
  - (* CAST(e AS type) *)
    apply andb_prop in Hp. destruct Hp as [Hp1 Hp2]. cbn [ref_expr] in Hr. apply andb_prop in Hr. destruct Hr as [Hr1 Hr2].
    cbn [printable] in Hq. apply andb_prop in Hq. destruct Hq as [Hq1 Hq2].
    cbn [print_expr]. rewrite <- (operand_zero print_ok (ast_of e)).
    rewrite (IHe Hp1 Hr1 Hq1 (sub r 0) 0); [|apply zero_sub; exact Hz|lia]. cbn [ob].
    unfold type_str, type_toks. destruct (targs t); [|discriminate Hp2].
    rewrite (type_tokens_word (tname t) Hq2 (plain_name_nonempty _ Hr2)). reflexivity.
Qed.

(* ------------------------------------------------------------------------------------------------ *)
(* the theorems *)

Theorem print_is_render : forall e,
    proved e = true -> ref_expr e = true -> printable print_ok e = true ->
    print_expr print_ok (ast_of e) = Some (render 0 no_parens (norm print_ok e)).
Proof.
  intros e Hp Hr Hq. rewrite <- operand_zero. apply (all_Q e Hp Hr Hq no_parens 0 zero_no_parens). lia.
Qed.

(* round trip: the parser model reads the printed tokens back to the same tree and leaves the follow tokens *)
Theorem print_parse_expr : forall md e stop d fuel,
    proved e = true -> ref_expr e = true -> printable print_ok e = true -> follow_ok stop ->
    d + 1 + pdepth 0 no_parens (norm print_ok e) <= md ->
    exists ts, print_expr print_ok (ast_of e) = Some ts
               /\ (length (ts ++ stop) < fuel -> parse_expression md no_defects fuel d (ts ++ stop) = Val (ast_of e, stop)).
Proof.
  intros md e stop d fuel Hp Hr Hq Hfo Hdep.
  exists (render 0 no_parens (norm print_ok e)). split; [apply print_is_render; assumption|].
  intros Hlen. rewrite <- (ast_of_norm print_ok e Hp).
  apply parse_render_expr_partial; try assumption.
  - apply proved_norm; exact Hp.
  - apply ref_norm; assumption.
Qed.

(* formatting = print after parse *)
Definition fmt_expr (md fuel d : nat) (ts : list token) : option (list token * list token) :=
  match parse_expression md no_defects fuel d ts with
  | Val (g, rest) => match print_expr print_ok g with Some out => Some (out, rest) | None => None end
  | _ => None
  end.

(* every rendering of e (any redundant parentheses) is formatted to the same canonical token list ... *)
Theorem fmt_canonical : forall md e (r : rho) stop d fuel,
    proved e = true -> ref_expr e = true -> printable print_ok e = true -> follow_ok stop ->
    d + 1 + pdepth 0 r e <= md -> length (render 0 r e ++ stop) < fuel ->
    fmt_expr md fuel d (render 0 r e ++ stop) = Some (render 0 no_parens (norm print_ok e), stop).
Proof.
  intros md e r stop d fuel Hp Hr Hq Hfo Hdep Hlen. unfold fmt_expr.
  rewrite (parse_render_expr_partial md e r stop d fuel Hp Hr Hfo Hdep Hlen).
  rewrite (print_is_render e Hp Hr Hq). reflexivity.
Qed.

(* ... and formatting the formatted output returns it unchanged *)
Theorem fmt_idempotent : forall md e (r : rho) stop d fuel out rest,
    proved e = true -> ref_expr e = true -> printable print_ok e = true -> follow_ok stop ->
    d + 1 + pdepth 0 r e <= md -> length (render 0 r e ++ stop) < fuel ->
    d + 1 + pdepth 0 no_parens (norm print_ok e) <= md ->
    fmt_expr md fuel d (render 0 r e ++ stop) = Some (out, rest) ->
    length (out ++ stop) < fuel ->
    fmt_expr md fuel d (out ++ rest) = Some (out, rest).
Proof.
  intros md e r stop d fuel out rest Hp Hr Hq Hfo Hdep Hlen Hdep2 Hf Hlen2.
  rewrite (fmt_canonical md e r stop d fuel Hp Hr Hq Hfo Hdep Hlen) in Hf. inversion Hf; subst out rest. clear Hf.
  unfold fmt_expr.
  destruct (print_parse_expr md e stop d fuel Hp Hr Hq Hfo Hdep2) as (ts & Hts & Hparse).
  rewrite (print_is_render e Hp Hr Hq) in Hts. inversion Hts; subst ts.
  rewrite (Hparse Hlen2). rewrite (print_is_render e Hp Hr Hq). reflexivity.
Qed.

(* ------------------------------------------------------------------------------------------------ *)
(* codecs *)

Lemma append_assoc_s : forall a b c : string, ((a ++ b) ++ c)%string = (a ++ (b ++ c))%string.
Proof. induction a as [|x a IH]; intros; cbn; [reflexivity|]. rewrite IH. reflexivity. Qed.
Lemma append_nil_s : forall a : string, (a ++ "")%string = a.
Proof. induction a as [|x a IH]; cbn; [reflexivity|]. rewrite IH. reflexivity. Qed.
Lemma length_append_s : forall a b : string, String.length (a ++ b)%string = String.length a + String.length b.
Proof. induction a as [|x a IH]; intros; cbn; [reflexivity|]. rewrite IH. reflexivity. Qed.

Definition not_quote_head (q : ascii) (rest : string) : Prop :=
  match rest with EmptyString => True | String c _ => Ascii.eqb c q = false end.

Lemma read_lit_escape : forall cf s first buf rest fuel,
    d_ctrlz_escape cf = false ->
    (d_drop_nul cf = true -> has_char (ch 0) s = false) ->
    not_quote_head c_quote rest ->
    String.length (escape_lit_at cf first s) < fuel ->
    read_lit fuel (escape_lit_at cf first s ++ String c_quote rest)%string buf = Some ((buf ++ s)%string, rest).
Proof.
  intros cf s. induction s as [|c s IH]; intros first buf rest fuel Hz Hn Hq Hlen.
  - cbn [escape_lit_at append]. destruct fuel as [|f]; [cbn in Hlen; lia|]. cbn [read_lit].
    rewrite Ascii.eqb_refl. rewrite append_nil_s.
    destruct rest as [|c2 r2]; [reflexivity|]. unfold not_quote_head in Hq. rewrite Hq. reflexivity.
  - assert (Hn' : d_drop_nul cf = true -> has_char (ch 0) s = false).
    { intros Hd. specialize (Hn Hd). unfold has_char in *. cbn [all_chars] in Hn.
      apply negb_false_iff in Hn. apply andb_prop in Hn. destruct Hn as [_ Hn]. rewrite Hn. reflexivity. }
    assert (Hc0 : d_drop_nul cf = true -> Ascii.eqb c (ch 0) = false).
    { intros Hd. specialize (Hn Hd). unfold has_char in Hn. cbn [all_chars] in Hn.
      apply negb_false_iff in Hn. apply andb_prop in Hn. destruct Hn as [Hn _]. apply negb_true_iff in Hn. exact Hn. }
    assert (Happ : forall x, ((buf ++ String x "") ++ s)%string = (buf ++ String x s)%string)
      by (intros x; rewrite append_assoc_s; reflexivity).
    cbn [escape_lit_at] in *.
    destruct (Ascii.eqb_spec c c_quote) as [E|Nq].
    { subst c. destruct (first && negb (d_triple_quote cf)).
      - cbn [append String.length] in *. destruct fuel as [|f]; [lia|]. cbn [read_lit].
        change (Ascii.eqb c_bslash c_quote) with false. cbn iota. rewrite !Ascii.eqb_refl. rewrite !orb_true_r. cbn [orb].
        rewrite IH; [rewrite Happ; reflexivity|assumption|assumption|assumption|lia].
      - cbn [append String.length] in *. destruct fuel as [|f]; [lia|]. cbn [read_lit].
        rewrite !Ascii.eqb_refl.
        rewrite IH; [rewrite Happ; reflexivity|assumption|assumption|assumption|lia]. }
    destruct (Ascii.eqb_spec c c_bslash) as [E|Nb].
    { subst c. cbn [append String.length] in *. destruct fuel as [|f]; [lia|]. cbn [read_lit].
      change (Ascii.eqb c_bslash c_quote) with false. cbn iota. rewrite Ascii.eqb_refl. cbn [orb].
      rewrite IH; [rewrite Happ; reflexivity|assumption|assumption|assumption|lia]. }
    destruct (Ascii.eqb_spec c (ch 0)) as [E|N0].
    { subst c. destruct (d_drop_nul cf) eqn:Hd; [specialize (Hc0 eq_refl); discriminate Hc0|].
      cbn [append String.length] in *. destruct fuel as [|f]; [lia|]. cbn [read_lit].
      change (Ascii.eqb (ch 0) c_quote) with false. change (Ascii.eqb (ch 0) c_bslash) with false. cbn iota.
      rewrite IH; [rewrite Happ; reflexivity|assumption|assumption|assumption|lia]. }
    destruct (Ascii.eqb_spec c (ch 10)) as [E|N10].
    { subst c. cbn [append String.length] in *. destruct fuel as [|f]; [lia|]. cbn [read_lit].
      change (Ascii.eqb c_bslash c_quote) with false. cbn iota. rewrite Ascii.eqb_refl.
      change (Ascii.eqb "n"%char c_bslash || Ascii.eqb "n"%char c_dquote || Ascii.eqb "n"%char c_quote || Ascii.eqb "n"%char c_btick) with false.
      cbn iota. rewrite Ascii.eqb_refl.
      rewrite IH; [rewrite Happ; reflexivity|assumption|assumption|assumption|lia]. }
    destruct (Ascii.eqb_spec c (ch 13)) as [E|N13].
    { subst c. cbn [append String.length] in *. destruct fuel as [|f]; [lia|]. cbn [read_lit].
      change (Ascii.eqb c_bslash c_quote) with false. cbn iota. rewrite Ascii.eqb_refl.
      change (Ascii.eqb "r"%char c_bslash || Ascii.eqb "r"%char c_dquote || Ascii.eqb "r"%char c_quote || Ascii.eqb "r"%char c_btick) with false.
      cbn iota. change (Ascii.eqb "r"%char "n"%char) with false. cbn iota. rewrite Ascii.eqb_refl.
      rewrite IH; [rewrite Happ; reflexivity|assumption|assumption|assumption|lia]. }
    rewrite Hz, andb_false_r in *.
    cbn [append String.length] in *. destruct fuel as [|f]; [lia|]. cbn [read_lit].
    destruct (Ascii.eqb_spec c c_quote); [contradiction|]. destruct (Ascii.eqb_spec c c_bslash); [contradiction|].
    rewrite IH; [rewrite Happ; reflexivity|reflexivity|assumption|assumption|lia].
Qed.

(* the escaped text never begins with two quote characters: the literal does not open a triple-quoted string *)
Lemma escape_no_triple : forall cf s rest,
    d_ctrlz_escape cf = false -> d_triple_quote cf = false -> not_quote_head c_quote rest ->
    two_quotes (escape_lit_at cf true s ++ String c_quote rest)%string = false.
Proof.
  intros cf s rest Hz Ht Hq. induction s as [|c s IH].
  - cbn [escape_lit_at append two_quotes]. destruct rest as [|c2 r2]; [reflexivity|].
    unfold not_quote_head in Hq. rewrite Hq. apply andb_false_r.
  - cbn [escape_lit_at]. rewrite Ht. cbn [negb andb].
    destruct (Ascii.eqb_spec c c_quote) as [E|Nq]; [reflexivity|].
    destruct (Ascii.eqb_spec c c_bslash) as [E|Nb]; [reflexivity|].
    destruct (Ascii.eqb_spec c (ch 0)) as [E|N0].
    { destruct (d_drop_nul cf); [exact IH|]. subst c. cbn [append two_quotes].
      destruct (escape_lit_at cf false s ++ String c_quote rest)%string; reflexivity. }
    destruct (Ascii.eqb_spec c (ch 10)); [reflexivity|]. destruct (Ascii.eqb_spec c (ch 13)); [reflexivity|].
    rewrite Hz, andb_false_r. cbn [append two_quotes].
    destruct (escape_lit_at cf false s ++ String c_quote rest)%string; [reflexivity|].
    destruct (Ascii.eqb_spec c c_quote); [contradiction|reflexivity].
Qed.

(* what the tokenizer reads from the text of a string literal is its content (ASCII contents: the real reader also
   turns typographic quotes into quote characters, which no escape protects) *)
Theorem literal_roundtrip : forall cf s rest,
    d_ctrlz_escape cf = false -> d_triple_quote cf = false ->
    (d_drop_nul cf = true -> has_char (ch 0) s = false) ->
    not_quote_head c_quote rest ->
    read_lit_text (lit_text cf s ++ rest)%string = Some (s, rest).
Proof.
  intros cf s rest Hz Ht Hn Hq. unfold lit_text, read_lit_text, escape_lit. cbn [append].
  rewrite Ascii.eqb_refl. rewrite append_assoc_s. cbn [append].
  rewrite (escape_no_triple cf s rest Hz Ht Hq).
  rewrite (read_lit_escape cf s true "" rest); try assumption; [reflexivity|].
  rewrite !length_append_s. cbn [String.length]. lia.
Qed.

Lemma read_qident_quote : forall n buf rest fuel,
    has_char (ch 10) n = false -> not_quote_head c_dquote rest ->
    String.length (double_dquotes n) < fuel ->
    read_qident fuel (double_dquotes n ++ String c_dquote rest)%string buf = Some ((buf ++ n)%string, rest).
Proof.
  induction n as [|c n IH]; intros buf rest fuel Hnl Hq Hlen.
  - cbn [double_dquotes append]. destruct fuel as [|f]; [cbn in Hlen; lia|]. cbn [read_qident].
    rewrite Ascii.eqb_refl. rewrite append_nil_s.
    destruct rest as [|c2 r2]; [reflexivity|]. unfold not_quote_head in Hq. rewrite Hq. reflexivity.
  - assert (Hnl' : has_char (ch 10) n = false).
    { unfold has_char in *. cbn [all_chars] in Hnl. apply negb_false_iff in Hnl. apply andb_prop in Hnl. destruct Hnl as [_ H]. rewrite H. reflexivity. }
    assert (Hc : Ascii.eqb c (ch 10) = false).
    { unfold has_char in Hnl. cbn [all_chars] in Hnl. apply negb_false_iff in Hnl. apply andb_prop in Hnl. destruct Hnl as [H _]. apply negb_true_iff in H. exact H. }
    assert (Happ : forall x, ((buf ++ String x "") ++ n)%string = (buf ++ String x n)%string)
      by (intros x; rewrite append_assoc_s; reflexivity).
    cbn [double_dquotes] in *. destruct (Ascii.eqb_spec c c_dquote) as [E|Nq].
    + subst c. cbn [append String.length] in *. destruct fuel as [|f]; [lia|]. cbn [read_qident].
      rewrite !Ascii.eqb_refl.
      rewrite IH; [rewrite Happ; reflexivity|assumption|assumption|lia].
    + cbn [append String.length] in *. destruct fuel as [|f]; [lia|]. cbn [read_qident].
      destruct (Ascii.eqb_spec c c_dquote); [contradiction|]. rewrite Hc.
      rewrite IH; [rewrite Happ; reflexivity|assumption|assumption|lia].
Qed.

(* a quoted identifier is read back as the name (names without line break: the reader rejects one inside quotes) *)
Theorem ident_roundtrip : forall n rest,
    has_char (ch 10) n = false -> not_quote_head c_dquote rest ->
    read_qident_text (quote_ident n ++ rest)%string = Some (n, rest).
Proof.
  intros n rest Hnl Hq. unfold quote_ident, read_qident_text. cbn [append].
  rewrite append_assoc_s. cbn [append].
  rewrite (read_qident_quote n "" rest); try assumption; [reflexivity|].
  rewrite !length_append_s. cbn [String.length]. lia.
Qed.

(* ------------------------------------------------------------------------------------------------ *)
(* refuted: each defect switch breaks the round trip; the witnesses are the corpus entries of the findings *)

Definition eof_stop : list token := [Tk TyEOF ""].
Definition rt_fails (pf : pflags) (e : mexpr) : Prop :=
  proved e = true /\ ref_expr e = true /\ printable print_ok e = true /\
  exists ts, print_expr pf (ast_of e) = Some ts /\ parse_expr_top no_defects 0 (ts ++ eof_stop) <> Val (ast_of e, eof_stop).

Definition w_parens : mexpr := MBin BAnd (MBin BOr (MIdent false "a") (MIdent false "b")) (MIdent false "c").
Definition w_isnotnull : mexpr := MIsNull (MIdent false "a") true.
Definition w_reserved : mexpr := MIdent true "select".
Definition w_dotted : mexpr := MIdent true "a.b".

Ltac refute := repeat split; try reflexivity; eexists; split; [vm_compute; reflexivity|vm_compute; discriminate].

Theorem refuted_no_parens : rt_fails (PFlags true false false false false) w_parens. Proof. refute. Qed.
Theorem refuted_is_not_null_lost : rt_fails (PFlags false true false false false) w_isnotnull. Proof. refute. Qed.
Theorem refuted_reserved_raw : rt_fails (PFlags false false true false false) w_reserved. Proof. refute. Qed.
(* the unrepaired one: with '.' as a safe character the quoted identifier a.b is written raw and read as table a, column b *)
Theorem refuted_dot_safe :
  proved w_dotted = true /\ ref_expr w_dotted = true /\
  exists ts, print_expr print_tree (ast_of w_dotted) = Some ts /\ parse_expr_top no_defects 0 (ts ++ eof_stop) <> Val (ast_of w_dotted, eof_stop).
Proof. repeat split; try reflexivity. eexists; split; [vm_compute; reflexivity|vm_compute; discriminate]. Qed.

(* the other unrepaired one: a quoted identifier that begins with a digit is written raw and read as a number *)
Definition w_digit : mexpr := MIdent true "1".
Theorem refuted_digit_safe :
  proved w_digit = true /\ ref_expr w_digit = true /\
  exists ts, print_expr print_tree (ast_of w_digit) = Some ts /\ parse_expr_top no_defects 0 (ts ++ eof_stop) <> Val (ast_of w_digit, eof_stop).
Proof. repeat split; try reflexivity. eexists; split; [vm_compute; reflexivity|vm_compute; discriminate]. Qed.

Theorem refuted_ctrlz_escape : exists s, read_lit_text (lit_text (CFlags true false false) s) <> Some (s, "").
Proof. exists (String (ch 26) ""). vm_compute. discriminate. Qed.
Theorem refuted_drop_nul : exists s, read_lit_text (lit_text codec_tree s) <> Some (s, "").
Proof. exists (String "a"%char (String (ch 0) "b")). vm_compute. discriminate. Qed.
Theorem refuted_triple_quote : exists s, read_lit_text (lit_text (CFlags false false true) s) <> Some (s, "").
Proof. exists (String c_quote "x"). vm_compute. discriminate. Qed.

(* non-vacuity *)
Example ex_mixed_printable : printable print_ok ex_mixed = true. Proof. reflexivity. Qed.
Example ex_print_parse :
  exists ts, print_expr print_ok (ast_of w_parens) = Some ts
             /\ map lit ts = ["("; "a"; "OR"; "b"; ")"; "AND"; "c"]
             /\ parse_expr_top no_defects 0 (ts ++ eof_stop) = Val (ast_of w_parens, eof_stop).
Proof. eexists. split; [vm_compute; reflexivity|]. split; vm_compute; reflexivity. Qed.
Example ex_literal : read_lit_text (lit_text codec_ok "it's a\b" ++ " x")%string = Some ("it's a\b", " x").
Proof. reflexivity. Qed.
