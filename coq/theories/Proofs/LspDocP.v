(* LspDocP.v — proofs about the LSP document mirror model (Model/LspDoc.v) against the protocol
   specification (Spec/LspSpec.v):
     1. totality (no slice panic) of pos_off / apply_change / apply_all / dm_run and the line-cache invariant;
     2. the UTF-8 key lemmas (rune_len / rune_units on an encoded scalar value);
     3. mirror correctness: the byte-level edit equals the encoding of the code-point-level edit. *)
From Coq Require Import List NArith ZArith Bool Arith Lia ZifyNat ZifyN ZifyBool.
From GV Require Import Model.LspDoc Spec.LspSpec Model.LspMirror.
Import ListNotations.

Ltac Zify.zify_post_hook ::= Z.div_mod_to_equations.

(* ------------------------------------------------------------------------------------------- *)
(* 1. Totality                                                                                   *)
(* ------------------------------------------------------------------------------------------- *)

Lemma col_walk_bounds : forall s skip u col i,
  (i <= col_walk s skip u col i <= i + length s)%nat.
Proof.
  induction s as [|c t IH]; intros skip u col i.
  - cbn [col_walk length]. lia.
  - rewrite (eq_refl : length (c :: t) = S (length t)).
    destruct skip as [|k].
    + rewrite (eq_refl : col_walk (c :: t) 0 u col i =
        if (u + rune_units (c :: t) >? col)%Z then i
        else col_walk t (pred (rune_len (c :: t))) (u + rune_units (c :: t))%Z col (S i)).
      destruct (u + rune_units (c :: t) >? col)%Z; [lia|].
      specialize (IH (pred (rune_len (c :: t))) (u + rune_units (c :: t))%Z col (S i)). lia.
    + cbn [col_walk]. specialize (IH k u col (S i)). lia.
Qed.

Lemma utf16_col_to_off_le : forall l char, (utf16_col_to_off l char <= length l)%nat.
Proof.
  intros l char. unfold utf16_col_to_off.
  pose proof (col_walk_bounds l 0 0%Z char 0) as H. lia.
Qed.

Lemma first_line_length : forall s, (length (first_line s) <= length s)%nat.
Proof.
  induction s as [|c t IH]; cbn [first_line length]; [lia|].
  destruct (is_eol c); cbn [length]; lia.
Qed.

Lemma off_walk_bounds : forall s rem after_cr char i,
  (i <= off_walk s rem after_cr char i <= i + length s)%nat.
Proof.
  induction s as [|c t IH]; intros rem after_cr char i.
  - cbn [off_walk length]. lia.
  - cbn [off_walk].
    destruct (after_cr && (c =? 10)%N).
    { specialize (IH rem false char (S i)). cbn [length]. lia. }
    destruct (rem <=? 0)%Z.
    { pose proof (utf16_col_to_off_le (first_line (c :: t)) char) as H1.
      pose proof (first_line_length (c :: t)) as H2. lia. }
    destruct (c =? 10)%N.
    { specialize (IH (rem - 1)%Z false char (S i)). cbn [length]. lia. }
    destruct (c =? 13)%N.
    { specialize (IH (rem - 1)%Z true char (S i)). cbn [length]. lia. }
    specialize (IH rem false char (S i)). cbn [length]. lia.
Qed.

Theorem pos_off_bounds : forall content line char,
  (0 <= pos_off content line char <= Z.of_nat (length content))%Z.
Proof.
  intros content line char. unfold pos_off.
  destruct (line <? 0)%Z; [lia|].
  pose proof (off_walk_bounds content line false char 0) as H. lia.
Qed.

Theorem apply_change_total : forall content lines r text,
  apply_change content lines r text <> Panic.
Proof.
  intros content lines r text. unfold apply_change.
  pose proof (pos_off_bounds content (r_sl r) (r_sc r)) as Hs0.
  pose proof (pos_off_bounds content (r_el r) (r_ec r)) as He0.
  set (s0 := pos_off content (r_sl r) (r_sc r)) in *.
  set (e0 := pos_off content (r_el r) (r_ec r)) in *.
  clearbody s0 e0. cbv zeta.
  set (len := Z.of_nat (length content)) in *.
  assert (Hlen : (0 <= len)%Z) by lia.
  remember (if (s0 >? len)%Z then len else s0) as s eqn:Heqs.
  assert (Hsr : (0 <= s <= len)%Z).
  { subst s. destruct (s0 >? len)%Z eqn:E; lia. }
  clear Heqs.
  remember (if (e0 <? s)%Z then s else e0) as e eqn:Heqe.
  assert (Her : (0 <= e)%Z).
  { subst e. destruct (e0 <? s)%Z eqn:E; lia. }
  clear Heqe.
  destruct ((s <? 0)%Z || (len <? s)%Z) eqn:E1; [lia|].
  destruct (e <? len)%Z eqn:E2.
  - destruct (e <? 0)%Z eqn:E3; [lia|discriminate].
  - discriminate.
Qed.

Lemma apply_one_total : forall d c, apply_one d c <> Panic.
Proof.
  intros d [t|r t]; cbn [apply_one]; [discriminate|].
  destruct (apply_change (d_content d) (d_lines d) r t) eqn:E; [discriminate|].
  exfalso. eapply apply_change_total; eauto.
Qed.

Theorem apply_all_total : forall cs d, apply_all d cs <> Panic.
Proof.
  induction cs as [|c cs IH]; intros d; cbn [apply_all]; [discriminate|].
  destruct (apply_one d c) as [d'|] eqn:E; [apply IH|].
  exfalso. eapply apply_one_total; eauto.
Qed.

Lemma dm_step_total : forall ds o, dm_step ds o <> Panic.
Proof.
  intros ds [u v t|u v cs|u]; cbn [dm_step]; try discriminate.
  unfold dm_update. destruct (dm_get ds u) as [d|]; [|discriminate].
  destruct (apply_all _ cs) eqn:E; [discriminate|].
  exfalso. eapply apply_all_total; eauto.
Qed.

Theorem dm_run_total : forall ops ds, dm_run ds ops <> Panic.
Proof.
  induction ops as [|o ops IH]; intros ds; cbn [dm_run]; [discriminate|].
  destruct (dm_step ds o) as [ds'|] eqn:E; [apply IH|].
  exfalso. eapply dm_step_total; eauto.
Qed.

Lemma apply_one_lines : forall d c d',
  apply_one d c = Val d' -> d_lines d' = split_lines (d_content d').
Proof.
  intros d [t|r t] d'; cbn [apply_one]; intros H.
  - injection H as <-. reflexivity.
  - destruct (apply_change (d_content d) (d_lines d) r t); [|discriminate].
    injection H as <-. reflexivity.
Qed.

Theorem apply_all_lines : forall cs d d',
  d_lines d = split_lines (d_content d) -> apply_all d cs = Val d' ->
  d_lines d' = split_lines (d_content d').
Proof.
  induction cs as [|c cs IH]; intros d d' Hinv H; cbn [apply_all] in H.
  - injection H as <-. exact Hinv.
  - destruct (apply_one d c) as [d1|] eqn:E; [|discriminate].
    eapply IH; [|exact H]. eapply apply_one_lines; eauto.
Qed.

(* ------------------------------------------------------------------------------------------- *)
(* 2. UTF-8 key lemmas                                                                           *)
(* ------------------------------------------------------------------------------------------- *)

Ltac btest :=
  repeat (match goal with
          | |- context [N.eqb ?a ?b] => destruct (N.eqb_spec a b); try lia
          | |- context [N.ltb ?a ?b] => destruct (N.ltb_spec a b); try lia
          | |- context [N.leb ?a ?b] => destruct (N.leb_spec a b); try lia
          end; cbv iota; cbn [andb]);
  try reflexivity.

Lemma rune_len_enc : forall c rest, valid_cp c -> rune_len (enc_cp c ++ rest) = length (enc_cp c).
Proof.
  intros c rest Hv. unfold valid_cp in Hv. unfold enc_cp.
  destruct (N.ltb_spec c 128) as [H1|H1].
  { cbn [app length]. unfold rune_len. btest. }
  destruct (N.ltb_spec c 2048) as [H2|H2].
  { assert (Hb0 : (194 <= 192 + c / 64 < 224)%N) by lia.
    assert (Hb1 : (128 <= 128 + c mod 64 <= 191)%N) by lia.
    set (b0 := (192 + c / 64)%N) in *. set (b1 := (128 + c mod 64)%N) in *.
    clearbody b0 b1. cbn [app length]. unfold rune_len, cont. btest. }
  destruct (N.ltb_spec c 65536) as [H3|H3].
  { assert (Hb0 : (224 <= 224 + c / 4096 < 240)%N) by lia.
    assert (Hb1 : (128 <= 128 + (c / 64) mod 64 <= 191)%N) by lia.
    assert (Hb1a : (224 + c / 4096 = 224 -> 160 <= 128 + (c / 64) mod 64)%N) by lia.
    assert (Hb1b : (224 + c / 4096 = 237 -> 128 + (c / 64) mod 64 <= 159)%N) by lia.
    assert (Hb2 : (128 <= 128 + c mod 64 <= 191)%N) by lia.
    set (b0 := (224 + c / 4096)%N) in *. set (b1 := (128 + (c / 64) mod 64)%N) in *.
    set (b2 := (128 + c mod 64)%N) in *.
    clearbody b0 b1 b2. cbn [app length]. unfold rune_len, cont, between. btest. }
  { assert (Hb0 : (240 <= 240 + c / 262144 < 245)%N) by lia.
    assert (Hb1 : (128 <= 128 + (c / 4096) mod 64 <= 191)%N) by lia.
    assert (Hb1a : (240 + c / 262144 = 240 -> 144 <= 128 + (c / 4096) mod 64)%N) by lia.
    assert (Hb1b : (240 + c / 262144 = 244 -> 128 + (c / 4096) mod 64 <= 143)%N) by lia.
    assert (Hb2 : (128 <= 128 + (c / 64) mod 64 <= 191)%N) by lia.
    assert (Hb3 : (128 <= 128 + c mod 64 <= 191)%N) by lia.
    set (b0 := (240 + c / 262144)%N) in *. set (b1 := (128 + (c / 4096) mod 64)%N) in *.
    set (b2 := (128 + (c / 64) mod 64)%N) in *. set (b3 := (128 + c mod 64)%N) in *.
    clearbody b0 b1 b2 b3. cbn [app length]. unfold rune_len, cont, between. btest. }
Qed.

Lemma rune_units_enc : forall c rest, valid_cp c -> rune_units (enc_cp c ++ rest) = cp_units c.
Proof.
  intros c rest Hv. unfold rune_units. rewrite rune_len_enc by assumption.
  unfold enc_cp, cp_units.
  destruct (N.ltb_spec c 128); destruct (N.ltb_spec c 2048); destruct (N.ltb_spec c 65536);
    try lia; reflexivity.
Qed.

Lemma enc_cp_lf : enc_cp 10 = [10%N].
Proof. reflexivity. Qed.

Lemma enc_cp_nonnil : forall c, enc_cp c <> [].
Proof.
  intros c. unfold enc_cp.
  destruct (c <? 128)%N; [discriminate|].
  destruct (c <? 2048)%N; [discriminate|].
  destruct (c <? 65536)%N; discriminate.
Qed.

Lemma enc_cp_no_lf : forall c b, valid_cp c -> c <> 10%N -> In b (enc_cp c) -> b <> 10%N.
Proof.
  intros c b _ Hne. unfold enc_cp.
  destruct (c <? 128)%N; [|destruct (c <? 2048)%N; [|destruct (c <? 65536)%N]];
    cbn [In]; intros Hin;
    repeat (destruct Hin as [Hin|Hin]; [subst b; lia|]); contradiction.
Qed.

Lemma enc_cp_cr : enc_cp 13 = [13%N].
Proof. reflexivity. Qed.

Lemma enc_cp_no_eol : forall c b, c <> 10%N -> c <> 13%N -> In b (enc_cp c) -> b <> 10%N /\ b <> 13%N.
Proof.
  intros c b Hne Hne'. unfold enc_cp.
  destruct (c <? 128)%N; [|destruct (c <? 2048)%N; [|destruct (c <? 65536)%N]];
    cbn [In]; intros Hin;
    repeat (destruct Hin as [Hin|Hin]; [subst b; lia|]); contradiction.
Qed.

(* ------------------------------------------------------------------------------------------- *)
(* 3. Mirror correctness                                                                         *)
(* ------------------------------------------------------------------------------------------- *)

(* 3a. list / encoding facts *)

Lemma firstn_app_exact : forall (A : Type) (a b : list A), firstn (length a) (a ++ b) = a.
Proof. induction a as [|x a IH]; intros b; cbn [length app firstn]; [reflexivity|]. f_equal. apply IH. Qed.

Lemma skipn_app_exact : forall (A : Type) (a b : list A), skipn (length a) (a ++ b) = b.
Proof. induction a as [|x a IH]; intros b; cbn [length app skipn]; [reflexivity|]. apply IH. Qed.

Lemma enc_cons : forall c t, enc (c :: t) = enc_cp c ++ enc t.
Proof. reflexivity. Qed.

Lemma enc_app : forall a b, enc (a ++ b) = enc a ++ enc b.
Proof. intros a b. unfold enc. apply flat_map_app. Qed.

Lemma enc_split : forall n d, enc d = enc (firstn n d) ++ enc (skipn n d).
Proof. intros n d. rewrite <- enc_app, firstn_skipn. reflexivity. Qed.

Lemma enc_firstn_le : forall n d, length (enc (firstn n d)) <= length (enc d).
Proof.
  intros n d. pose proof (f_equal (@length N) (enc_split n d)) as H.
  rewrite app_length in H. lia.
Qed.

Lemma enc_firstn_mono : forall a b d, a <= b ->
  length (enc (firstn a d)) <= length (enc (firstn b d)).
Proof.
  intros a b d Hab.
  replace (firstn a d) with (firstn a (firstn b d)).
  - apply enc_firstn_le.
  - rewrite firstn_firstn. f_equal. lia.
Qed.

Lemma firstn_enc : forall n d, firstn (length (enc (firstn n d))) (enc d) = enc (firstn n d).
Proof. intros n d. rewrite (enc_split n d) at 1. apply firstn_app_exact. Qed.

Lemma skipn_enc : forall n d, skipn (length (enc (firstn n d))) (enc d) = enc (skipn n d).
Proof. intros n d. rewrite (enc_split n d) at 1. apply skipn_app_exact. Qed.

(* 3b. the column walk on the first line of an encoded document *)

Lemma first_line_app_noEOL : forall l s, (forall b, In b l -> b <> 10%N /\ b <> 13%N) ->
  first_line (l ++ s) = l ++ first_line s.
Proof.
  induction l as [|a l IH]; intros s H; cbn [app first_line]; [reflexivity|].
  destruct (H a (or_introl eq_refl)) as [H10 H13].
  unfold is_eol.
  destruct (N.eqb_spec a 10) as [Heq|_]; [contradiction|].
  destruct (N.eqb_spec a 13) as [Heq|_]; [contradiction|].
  cbn [orb]. f_equal. apply IH. intros b Hb. apply H. right. exact Hb.
Qed.

Lemma col_walk_cons0 : forall b t u col i,
  col_walk (b :: t) 0 u col i =
  if (u + rune_units (b :: t) >? col)%Z then i
  else col_walk t (pred (rune_len (b :: t))) (u + rune_units (b :: t))%Z col (S i).
Proof. reflexivity. Qed.

Lemma col_walk_skip : forall l s u col i,
  col_walk (l ++ s) (length l) u col i = col_walk s 0 u col (i + length l).
Proof.
  induction l as [|a l IH]; intros s u col i; cbn [app length].
  - rewrite Nat.add_0_r. reflexivity.
  - cbn [col_walk]. rewrite IH. f_equal. lia.
Qed.

Lemma col_walk_enc : forall char d u i, valid_text d ->
  col_walk (first_line (enc d)) 0 u char i = i + length (enc (firstn (spec_col d u char) d)).
Proof.
  intros char. induction d as [|c t IH]; intros u i Hv.
  - cbn. lia.
  - inversion Hv as [|c' t' Hc Ht]; subst c' t'.
    rewrite enc_cons. cbn [spec_col]. unfold cp_eol.
    destruct (N.eqb_spec c 10) as [Heq|Hne].
    { subst c. rewrite enc_cp_lf. cbn [app first_line].
      change (is_eol 10%N) with true. cbv iota. cbn [orb].
      cbn [col_walk firstn enc flat_map length]. lia. }
    destruct (N.eqb_spec c 13) as [Heq|Hne'].
    { subst c. rewrite enc_cp_cr. cbn [app first_line].
      change (is_eol 13%N) with true. cbv iota. cbn [orb].
      cbn [col_walk firstn enc flat_map length]. lia. }
    cbn [orb].
    rewrite first_line_app_noEOL by (intros b Hb; eapply enc_cp_no_eol; eauto).
    pose proof (rune_len_enc c (first_line (enc t)) Hc) as HL.
    pose proof (rune_units_enc c (first_line (enc t)) Hc) as HU.
    destruct (enc_cp c) as [|b l] eqn:E; [exfalso; eapply enc_cp_nonnil; eauto|].
    cbn [app] in HL, HU |- *.
    rewrite col_walk_cons0, HU, HL. cbn [length pred].
    destruct (u + cp_units c >? char)%Z.
    * cbn [firstn enc flat_map length]. lia.
    * rewrite col_walk_skip, IH by assumption.
      cbn [firstn]. rewrite enc_cons, E, app_length. cbn [length]. lia.
Qed.

(* 3c. off_walk on an encoded document is the encoded length of the code-point prefix *)

Lemma off_walk_zero : forall s after_cr char i,
  after_cr && (hd 0%N s =? 10)%N = false ->
  off_walk s (Z.of_nat 0) after_cr char i = i + utf16_col_to_off (first_line s) char.
Proof.
  intros [|c t] after_cr char i H.
  - cbn. lia.
  - cbn [hd] in H. cbn [off_walk]. rewrite H. reflexivity.
Qed.

Lemma off_walk_app_noEOL : forall l s rem char i, (0 < rem)%Z ->
  (forall b, In b l -> b <> 10%N /\ b <> 13%N) ->
  off_walk (l ++ s) rem false char i = off_walk s rem false char (i + length l).
Proof.
  induction l as [|a l IH]; intros s rem char i Hrem H; cbn [app length].
  - rewrite Nat.add_0_r. reflexivity.
  - destruct (H a (or_introl eq_refl)) as [H10 H13].
    cbn [off_walk andb].
    destruct (Z.leb_spec rem 0) as [Hle|_]; [lia|].
    destruct (N.eqb_spec a 10) as [Heq|_]; [contradiction|].
    destruct (N.eqb_spec a 13) as [Heq|_]; [contradiction|].
    rewrite IH; [f_equal; lia|exact Hrem|].
    intros b Hb. apply H. right. exact Hb.
Qed.

Lemma off_walk_enc : forall d k after_cr char i, valid_text d ->
  off_walk (enc d) (Z.of_nat k) after_cr char i
  = (i + length (enc (firstn (spec_off d k after_cr char) d)))%nat.
Proof.
  induction d as [|c t IH]; intros k after_cr char i Hv.
  - cbn. lia.
  - inversion Hv as [|c' t' Hc Ht]; subst c' t'.
    destruct (after_cr && (c =? 10)%N) eqn:Eacr.
    { (* the LF of a CR LF *)
      apply andb_true_iff in Eacr. destruct Eacr as [Ha Hc10].
      apply N.eqb_eq in Hc10. subst c after_cr.
      rewrite enc_cons, enc_cp_lf. cbn [app off_walk spec_off andb].
      rewrite N.eqb_refl. cbv iota.
      rewrite IH by assumption.
      cbn [firstn]. rewrite enc_cons, enc_cp_lf, app_length. cbn [length]. lia. }
    destruct k as [|k].
    { (* the target line: column walk *)
      cbn [spec_off]. rewrite Eacr.
      rewrite off_walk_zero.
      - unfold utf16_col_to_off. rewrite col_walk_enc by assumption. lia.
      - rewrite enc_cons.
        destruct (enc_cp c) as [|b l] eqn:E; [exfalso; eapply enc_cp_nonnil; eauto|].
        cbn [app hd].
        destruct (N.eqb_spec c 10) as [Heq|Hne].
        + subst c. rewrite enc_cp_lf in E. injection E as <- <-. exact Eacr.
        + destruct (N.eqb_spec c 13) as [Heq|Hne'].
          * subst c. rewrite enc_cp_cr in E. injection E as <- <-. apply andb_false_r.
          * destruct (enc_cp_no_eol c b Hne Hne') as [Hb _]; [rewrite E; left; reflexivity|].
            destruct (N.eqb_spec b 10) as [Hb'|_]; [contradiction|]. apply andb_false_r. }
    (* a line still to skip *)
    cbn [spec_off]. rewrite Eacr. unfold cp_eol.
    rewrite enc_cons.
    assert (Hk : (Z.of_nat (S k) - 1 = Z.of_nat k)%Z) by lia.
    destruct (N.eqb_spec c 10) as [Heq|Hne].
    { subst c. rewrite enc_cp_lf. cbn [app off_walk orb].
      rewrite N.eqb_refl, Eacr.
      destruct (Z.leb_spec (Z.of_nat (S k)) 0) as [Hle|_]; [lia|].
      rewrite Hk.
      rewrite IH by assumption.
      cbn [firstn]. rewrite enc_cons, enc_cp_lf, app_length. cbn [length].
      change (10 =? 13)%N with false. lia. }
    destruct (N.eqb_spec c 13) as [Heq|Hne'].
    { subst c. rewrite enc_cp_cr. cbn [app off_walk orb].
      change (13 =? 10)%N with false. rewrite andb_false_r.
      destruct (Z.leb_spec (Z.of_nat (S k)) 0) as [Hle|_]; [lia|].
      rewrite N.eqb_refl, Hk.
      rewrite IH by assumption.
      cbn [firstn]. rewrite enc_cons, enc_cp_cr, app_length. cbn [length]. lia. }
    cbn [orb].
    pose proof (enc_cp_no_eol c) as Hno.
    destruct (enc_cp c) as [|b l] eqn:E; [exfalso; eapply enc_cp_nonnil; eauto|].
    destruct (Hno b Hne Hne' (or_introl eq_refl)) as [Hb10 Hb13].
    cbn [app off_walk].
    destruct (N.eqb_spec b 10) as [Hb'|_]; [contradiction|].
    destruct (N.eqb_spec b 13) as [Hb'|_]; [contradiction|].
    rewrite andb_false_r.
    destruct (Z.leb_spec (Z.of_nat (S k)) 0) as [Hle|_]; [lia|].
    rewrite off_walk_app_noEOL; [|lia|intros b' Hb'; apply (Hno b' Hne Hne'); right; exact Hb'].
    rewrite IH by assumption.
    cbn [firstn]. rewrite enc_cons, E, app_length. cbn [length]. lia.
Qed.

(* 3d. positions *)

Lemma pos_off_enc : forall d line char, valid_text d ->
  pos_off (enc d) line char
  = Z.of_nat (length (enc (firstn (spec_pos d line char) d))).
Proof.
  intros d line char Hv. unfold pos_off, spec_pos.
  destruct (Z.ltb_spec line 0) as [Hneg|Hnn].
  - reflexivity.
  - pose proof (off_walk_enc d (Z.to_nat line) false char 0 Hv) as H.
    rewrite Z2Nat.id in H by assumption. rewrite H. reflexivity.
Qed.

(* 3e. the main result *)

Theorem mirror_correct : forall d txt sl sc el ec, valid_text d ->
  apply_change (enc d) (split_lines (enc d)) (Range sl sc el ec) (enc txt)
  = Val (enc (spec_apply d sl sc el ec txt)).
Proof.
  intros d txt sl sc el ec Hv. unfold apply_change. cbn [r_sl r_sc r_el r_ec]. cbv zeta.
  rewrite !pos_off_enc by assumption. unfold spec_apply. cbv zeta.
  set (s := spec_pos d sl sc). set (e' := spec_pos d el ec).
  pose proof (enc_firstn_le s d) as Hs.
  pose proof (enc_firstn_le (Nat.max s e') d) as He.
  assert (E1 : (Z.of_nat (length (enc (firstn s d))) >? Z.of_nat (length (enc d)))%Z = false) by lia.
  rewrite E1.
  assert (Hclamp :
    (if (Z.of_nat (length (enc (firstn e' d))) <? Z.of_nat (length (enc (firstn s d))))%Z
     then Z.of_nat (length (enc (firstn s d)))
     else Z.of_nat (length (enc (firstn e' d))))
    = Z.of_nat (length (enc (firstn (Nat.max s e') d)))).
  { destruct (Nat.le_ge_cases s e') as [Hse|Hse].
    - pose proof (enc_firstn_mono s e' d Hse) as Hm.
      rewrite (Nat.max_r s e') by assumption.
      destruct (Z.ltb_spec (Z.of_nat (length (enc (firstn e' d))))
                           (Z.of_nat (length (enc (firstn s d))))); [lia|reflexivity].
    - pose proof (enc_firstn_mono e' s d Hse) as Hm.
      rewrite (Nat.max_l s e') by assumption.
      destruct (Z.ltb_spec (Z.of_nat (length (enc (firstn e' d))))
                           (Z.of_nat (length (enc (firstn s d))))); [reflexivity|lia]. }
  rewrite Hclamp.
  assert (E2 : ((Z.of_nat (length (enc (firstn s d))) <? 0)%Z
                || (Z.of_nat (length (enc d)) <? Z.of_nat (length (enc (firstn s d))))%Z) = false) by lia.
  rewrite E2.
  rewrite Nat2Z.id, firstn_enc, !enc_app.
  destruct (Z.ltb_spec (Z.of_nat (length (enc (firstn (Nat.max s e') d)))) (Z.of_nat (length (enc d))))
    as [Hlt|Hge].
  - assert (E3 : (Z.of_nat (length (enc (firstn (Nat.max s e') d))) <? 0)%Z = false) by lia.
    rewrite E3, Nat2Z.id, skipn_enc. reflexivity.
  - assert (Hnil : enc (skipn (Nat.max s e') d) = []).
    { apply length_zero_iff_nil.
      pose proof (f_equal (@length N) (enc_split (Nat.max s e') d)) as HL.
      rewrite app_length in HL. lia. }
    rewrite Hnil, app_nil_r. reflexivity.
Qed.

(* edit lists *)



Lemma Forall_firstn_ : forall (A : Type) (P : A -> Prop) n (l : list A), Forall P l -> Forall P (firstn n l).
Proof.
  intros A P. induction n as [|n IH]; intros l H; cbn [firstn]; [constructor|].
  destruct H as [|x l Hx Hl]; constructor; auto.
Qed.

Lemma Forall_skipn_ : forall (A : Type) (P : A -> Prop) n (l : list A), Forall P l -> Forall P (skipn n l).
Proof.
  intros A P. induction n as [|n IH]; intros l H; cbn [skipn]; [exact H|].
  destruct H as [|x l Hx Hl]; [constructor|auto].
Qed.

Lemma spec_apply_valid : forall d sl sc el ec txt, valid_text d -> valid_text txt ->
  valid_text (spec_apply d sl sc el ec txt).
Proof.
  intros d sl sc el ec txt Hd Ht. unfold spec_apply, valid_text in *. cbv zeta.
  apply Forall_app. split; [apply Forall_firstn_; exact Hd|].
  apply Forall_app. split; [exact Ht|apply Forall_skipn_; exact Hd].
Qed.

Lemma spec_edit_valid : forall d e, valid_text d -> valid_edit e -> valid_text (spec_edit d e).
Proof.
  intros d [t|sl sc el ec t] Hd He; cbn [spec_edit valid_edit] in *; [exact He|].
  apply spec_apply_valid; assumption.
Qed.

Lemma spec_edits_valid : forall es d, valid_text d -> Forall valid_edit es -> valid_text (spec_edits d es).
Proof.
  induction es as [|e es IH]; intros d Hd Hes; [exact Hd|].
  inversion Hes as [|e' es' He Hes']; subst e' es'.
  unfold spec_edits. cbn [fold_left]. apply IH; [apply spec_edit_valid; assumption|exact Hes'].
Qed.

Lemma mirror_correct_one : forall d v e, valid_text d ->
  apply_one (Doc v (enc d) (split_lines (enc d))) (enc_edit e)
  = Val (Doc v (enc (spec_edit d e)) (split_lines (enc (spec_edit d e)))).
Proof.
  intros d v [t|sl sc el ec t] Hd; cbn [enc_edit apply_one spec_edit d_version d_content d_lines].
  - reflexivity.
  - rewrite mirror_correct by assumption. reflexivity.
Qed.

Theorem mirror_correct_edits : forall es d v, valid_text d -> Forall valid_edit es ->
  apply_all (Doc v (enc d) (split_lines (enc d))) (map enc_edit es)
  = Val (Doc v (enc (spec_edits d es)) (split_lines (enc (spec_edits d es)))).
Proof.
  induction es as [|e es IH]; intros d v Hd Hes.
  - reflexivity.
  - inversion Hes as [|e' es' He Hes']; subst e' es'.
    cbn [map apply_all]. rewrite mirror_correct_one by assumption.
    unfold spec_edits. cbn [fold_left]. apply IH; [apply spec_edit_valid; assumption|exact Hes'].
Qed.

Print Assumptions pos_off_bounds.
Print Assumptions apply_change_total.
Print Assumptions apply_all_total.
Print Assumptions dm_run_total.
Print Assumptions apply_all_lines.
Print Assumptions rune_len_enc.
Print Assumptions rune_units_enc.
Print Assumptions enc_cp_no_lf.
Print Assumptions mirror_correct.
Print Assumptions mirror_correct_edits.
