(* LspDocP.v — proofs about the LSP document mirror model (Model/LspDoc.v) against the protocol
   specification (Spec/LspSpec.v):
     1. totality (no slice panic) of pos_to_off / apply_change / apply_all / dm_run and the line-cache invariant;
     2. the UTF-8 key lemmas (rune_len / rune_units on an encoded scalar value);
     3. mirror correctness: the byte-level edit equals the encoding of the code-point-level edit. *)
From Coq Require Import List NArith ZArith Bool Arith Lia ZifyNat ZifyN ZifyBool.
From GV Require Import Model.LspDoc Spec.LspSpec Model.LspMirror.
Import ListNotations.

Ltac Zify.zify_post_hook ::= Z.div_mod_to_equations.

(* ------------------------------------------------------------------------------------------- *)
(* 1. Totality                                                                                   *)
(* ------------------------------------------------------------------------------------------- *)

Lemma prefix_len_nonneg : forall k lines, (0 <= prefix_len k lines)%Z.
Proof.
  induction k as [|k IH]; intros [|l ls]; cbn [prefix_len]; try (specialize (IH ls)); lia.
Qed.

Lemma prefix_len_min : forall k lines, prefix_len (Nat.min k (length lines)) lines = prefix_len k lines.
Proof.
  induction k as [|k IH]; intros [|l ls]; cbn [Nat.min length prefix_len]; try reflexivity.
  rewrite IH. reflexivity.
Qed.

Lemma prefix_len_loop : forall line lines, (0 <= line)%Z ->
  prefix_len (loop_count line lines) lines = prefix_len (Z.to_nat line) lines.
Proof.
  intros line lines H. unfold loop_count.
  rewrite Z2Nat.inj_min, Nat2Z.id. apply prefix_len_min.
Qed.

Theorem pos_to_off_val : forall lines line char,
  exists z, pos_to_off lines line char = Val z /\ (0 <= z)%Z.
Proof.
  intros lines line char. unfold pos_to_off.
  destruct (Z.ltb_spec line 0) as [Hneg|Hnn].
  - exists 0%Z. split; [reflexivity|lia].
  - pose proof (prefix_len_nonneg (Z.to_nat line) lines) as Hp.
    cbv zeta. rewrite (prefix_len_loop line lines Hnn).
    destruct (Z.leb_spec (Z.of_nat (length lines)) line) as [Hle|Hlt].
    + eexists. split; [reflexivity|].
      destruct (prefix_len (Z.to_nat line) lines >? 0)%Z eqn:E; lia.
    + destruct (nth_error lines (Z.to_nat line)) as [l|] eqn:E.
      * eexists. split; [reflexivity|lia].
      * apply nth_error_None in E. lia.
Qed.

Theorem apply_change_total : forall content lines r text,
  apply_change content lines r text <> Panic.
Proof.
  intros content lines r text. unfold apply_change.
  destruct (pos_to_off_val lines (r_sl r) (r_sc r)) as [s0 [Hs Hs0]].
  destruct (pos_to_off_val lines (r_el r) (r_ec r)) as [e0 [He He0]].
  rewrite Hs, He. cbv zeta.
  set (len := Z.of_nat (length content)).
  assert (Hlen : (0 <= len)%Z) by lia.
  remember (if (s0 >? len)%Z then len else s0) as s eqn:Heqs.
  assert (Hsr : (0 <= s <= len)%Z).
  { subst s. destruct (s0 >? len)%Z eqn:E; lia. }
  clear Heqs.
  remember (if (e0 <? s)%Z then s else e0) as e eqn:Heqe.
  assert (Her : (0 <= e)%Z).
  { subst e. destruct (e0 <? s)%Z eqn:E; lia. }
  clear Heqe.
  destruct ((s <? 0)%Z || (len <? s)%Z) eqn:E1; [lia|].
  destruct (e <? len)%Z eqn:E2.
  - destruct (e <? 0)%Z eqn:E3; [lia|discriminate].
  - discriminate.
Qed.

Lemma apply_one_total : forall d c, apply_one d c <> Panic.
Proof.
  intros d [t|r t]; cbn [apply_one]; [discriminate|].
  destruct (apply_change (d_content d) (d_lines d) r t) eqn:E; [discriminate|].
  exfalso. eapply apply_change_total; eauto.
Qed.

Theorem apply_all_total : forall cs d, apply_all d cs <> Panic.
Proof.
  induction cs as [|c cs IH]; intros d; cbn [apply_all]; [discriminate|].
  destruct (apply_one d c) as [d'|] eqn:E; [apply IH|].
  exfalso. eapply apply_one_total; eauto.
Qed.

Lemma dm_step_total : forall ds o, dm_step ds o <> Panic.
Proof.
  intros ds [u v t|u v cs|u]; cbn [dm_step]; try discriminate.
  unfold dm_update. destruct (dm_get ds u) as [d|]; [|discriminate].
  destruct (apply_all _ cs) eqn:E; [discriminate|].
  exfalso. eapply apply_all_total; eauto.
Qed.

Theorem dm_run_total : forall ops ds, dm_run ds ops <> Panic.
Proof.
  induction ops as [|o ops IH]; intros ds; cbn [dm_run]; [discriminate|].
  destruct (dm_step ds o) as [ds'|] eqn:E; [apply IH|].
  exfalso. eapply dm_step_total; eauto.
Qed.

Lemma apply_one_lines : forall d c d',
  apply_one d c = Val d' -> d_lines d' = split_lines (d_content d').
Proof.
  intros d [t|r t] d'; cbn [apply_one]; intros H.
  - injection H as <-. reflexivity.
  - destruct (apply_change (d_content d) (d_lines d) r t); [|discriminate].
    injection H as <-. reflexivity.
Qed.

Theorem apply_all_lines : forall cs d d',
  d_lines d = split_lines (d_content d) -> apply_all d cs = Val d' ->
  d_lines d' = split_lines (d_content d').
Proof.
  induction cs as [|c cs IH]; intros d d' Hinv H; cbn [apply_all] in H.
  - injection H as <-. exact Hinv.
  - destruct (apply_one d c) as [d1|] eqn:E; [|discriminate].
    eapply IH; [|exact H]. eapply apply_one_lines; eauto.
Qed.

(* ------------------------------------------------------------------------------------------- *)
(* 2. UTF-8 key lemmas                                                                           *)
(* ------------------------------------------------------------------------------------------- *)

Ltac btest :=
  repeat (match goal with
          | |- context [N.eqb ?a ?b] => destruct (N.eqb_spec a b); try lia
          | |- context [N.ltb ?a ?b] => destruct (N.ltb_spec a b); try lia
          | |- context [N.leb ?a ?b] => destruct (N.leb_spec a b); try lia
          end; cbv iota; cbn [andb]);
  try reflexivity.

Lemma rune_len_enc : forall c rest, valid_cp c -> rune_len (enc_cp c ++ rest) = length (enc_cp c).
Proof.
  intros c rest Hv. unfold valid_cp in Hv. unfold enc_cp.
  destruct (N.ltb_spec c 128) as [H1|H1].
  { cbn [app length]. unfold rune_len. btest. }
  destruct (N.ltb_spec c 2048) as [H2|H2].
  { assert (Hb0 : (194 <= 192 + c / 64 < 224)%N) by lia.
    assert (Hb1 : (128 <= 128 + c mod 64 <= 191)%N) by lia.
    set (b0 := (192 + c / 64)%N) in *. set (b1 := (128 + c mod 64)%N) in *.
    clearbody b0 b1. cbn [app length]. unfold rune_len, cont. btest. }
  destruct (N.ltb_spec c 65536) as [H3|H3].
  { assert (Hb0 : (224 <= 224 + c / 4096 < 240)%N) by lia.
    assert (Hb1 : (128 <= 128 + (c / 64) mod 64 <= 191)%N) by lia.
    assert (Hb1a : (224 + c / 4096 = 224 -> 160 <= 128 + (c / 64) mod 64)%N) by lia.
    assert (Hb1b : (224 + c / 4096 = 237 -> 128 + (c / 64) mod 64 <= 159)%N) by lia.
    assert (Hb2 : (128 <= 128 + c mod 64 <= 191)%N) by lia.
    set (b0 := (224 + c / 4096)%N) in *. set (b1 := (128 + (c / 64) mod 64)%N) in *.
    set (b2 := (128 + c mod 64)%N) in *.
    clearbody b0 b1 b2. cbn [app length]. unfold rune_len, cont, between. btest. }
  { assert (Hb0 : (240 <= 240 + c / 262144 < 245)%N) by lia.
    assert (Hb1 : (128 <= 128 + (c / 4096) mod 64 <= 191)%N) by lia.
    assert (Hb1a : (240 + c / 262144 = 240 -> 144 <= 128 + (c / 4096) mod 64)%N) by lia.
    assert (Hb1b : (240 + c / 262144 = 244 -> 128 + (c / 4096) mod 64 <= 143)%N) by lia.
    assert (Hb2 : (128 <= 128 + (c / 64) mod 64 <= 191)%N) by lia.
    assert (Hb3 : (128 <= 128 + c mod 64 <= 191)%N) by lia.
    set (b0 := (240 + c / 262144)%N) in *. set (b1 := (128 + (c / 4096) mod 64)%N) in *.
    set (b2 := (128 + (c / 64) mod 64)%N) in *. set (b3 := (128 + c mod 64)%N) in *.
    clearbody b0 b1 b2 b3. cbn [app length]. unfold rune_len, cont, between. btest. }
Qed.

Lemma rune_units_enc : forall c rest, valid_cp c -> rune_units (enc_cp c ++ rest) = cp_units c.
Proof.
  intros c rest Hv. unfold rune_units. rewrite rune_len_enc by assumption.
  unfold enc_cp, cp_units.
  destruct (N.ltb_spec c 128); destruct (N.ltb_spec c 2048); destruct (N.ltb_spec c 65536);
    try lia; reflexivity.
Qed.

Lemma enc_cp_lf : enc_cp 10 = [10%N].
Proof. reflexivity. Qed.

Lemma enc_cp_nonnil : forall c, enc_cp c <> [].
Proof.
  intros c. unfold enc_cp.
  destruct (c <? 128)%N; [discriminate|].
  destruct (c <? 2048)%N; [discriminate|].
  destruct (c <? 65536)%N; discriminate.
Qed.

Lemma enc_cp_no_lf : forall c b, valid_cp c -> c <> 10%N -> In b (enc_cp c) -> b <> 10%N.
Proof.
  intros c b _ Hne. unfold enc_cp.
  destruct (c <? 128)%N; [|destruct (c <? 2048)%N; [|destruct (c <? 65536)%N]];
    cbn [In]; intros Hin;
    repeat (destruct Hin as [Hin|Hin]; [subst b; lia|]); contradiction.
Qed.

(* ------------------------------------------------------------------------------------------- *)
(* 3. Mirror correctness                                                                         *)
(* ------------------------------------------------------------------------------------------- *)

(* 3a. list / encoding facts *)

Lemma firstn_app_exact : forall (A : Type) (a b : list A), firstn (length a) (a ++ b) = a.
Proof. induction a as [|x a IH]; intros b; cbn [length app firstn]; [reflexivity|]. f_equal. apply IH. Qed.

Lemma skipn_app_exact : forall (A : Type) (a b : list A), skipn (length a) (a ++ b) = b.
Proof. induction a as [|x a IH]; intros b; cbn [length app skipn]; [reflexivity|]. apply IH. Qed.

Lemma enc_cons : forall c t, enc (c :: t) = enc_cp c ++ enc t.
Proof. reflexivity. Qed.

Lemma enc_app : forall a b, enc (a ++ b) = enc a ++ enc b.
Proof. intros a b. unfold enc. apply flat_map_app. Qed.

Lemma enc_split : forall n d, enc d = enc (firstn n d) ++ enc (skipn n d).
Proof. intros n d. rewrite <- enc_app, firstn_skipn. reflexivity. Qed.

Lemma enc_firstn_le : forall n d, length (enc (firstn n d)) <= length (enc d).
Proof.
  intros n d. pose proof (f_equal (@length N) (enc_split n d)) as H.
  rewrite app_length in H. lia.
Qed.

Lemma enc_firstn_mono : forall a b d, a <= b ->
  length (enc (firstn a d)) <= length (enc (firstn b d)).
Proof.
  intros a b d Hab.
  replace (firstn a d) with (firstn a (firstn b d)).
  - apply enc_firstn_le.
  - rewrite firstn_firstn. f_equal. lia.
Qed.

Lemma firstn_enc : forall n d, firstn (length (enc (firstn n d))) (enc d) = enc (firstn n d).
Proof. intros n d. rewrite (enc_split n d) at 1. apply firstn_app_exact. Qed.

Lemma skipn_enc : forall n d, skipn (length (enc (firstn n d))) (enc d) = enc (skipn n d).
Proof. intros n d. rewrite (enc_split n d) at 1. apply skipn_app_exact. Qed.

(* 3b. a byte-level offset function on the flat byte string mirroring pos_to_off after split_lines *)

Fixpoint first_line (s : list N) : list N :=
  match s with
  | [] => []
  | c :: t => if (c =? 10)%N then [] else c :: first_line t
  end.

Fixpoint boff (s : list N) (k : nat) (char : Z) {struct s} : nat :=
  match k with
  | O => utf16_col_to_off (first_line s) char
  | S k' =>
      match s with
      | [] => O
      | c :: t => S (boff t (if (c =? 10)%N then k' else S k') char)
      end
  end.

Lemma boff_zero : forall s char, boff s 0 char = utf16_col_to_off (first_line s) char.
Proof. intros [|c t] char; reflexivity. Qed.

Lemma split_lines_nonnil : forall s, split_lines s <> [].
Proof.
  induction s as [|c t IH]; cbn [split_lines]; [discriminate|].
  destruct (c =? 10)%N; [discriminate|]. destruct (split_lines t); discriminate.
Qed.

Lemma split_lines_first : forall s, split_lines s = first_line s :: tl (split_lines s).
Proof.
  induction s as [|c t IH]; cbn [split_lines first_line]; [reflexivity|].
  destruct (c =? 10)%N; [reflexivity|].
  rewrite IH. reflexivity.
Qed.

(* pos_to_off on a natural line number *)
Definition pto (lines : list (list N)) (k : nat) (char : Z) : outcome Z :=
  if (length lines <=? k)%nat then
    Val (if (prefix_len k lines >? 0)%Z then (prefix_len k lines - 1)%Z else prefix_len k lines)
  else
    match nth_error lines k with
    | Some l => Val (prefix_len k lines + Z.of_nat (utf16_col_to_off l char))%Z
    | None => Panic
    end.

Lemma pos_to_off_nat : forall lines k char, pos_to_off lines (Z.of_nat k) char = pto lines k char.
Proof.
  intros lines k char. unfold pos_to_off, pto. cbv zeta.
  destruct (Z.ltb_spec (Z.of_nat k) 0) as [Hneg|Hk]; [lia|].
  rewrite (prefix_len_loop _ lines Hk).
  rewrite Nat2Z.id.
  destruct (Z.leb_spec (Z.of_nat (length lines)) (Z.of_nat k)) as [H1|H1];
    destruct (Nat.leb_spec (length lines) k) as [H2|H2]; try lia; reflexivity.
Qed.

Lemma pto_zero : forall l ls char, pto (l :: ls) 0 char = Val (Z.of_nat (utf16_col_to_off l char)).
Proof. intros l ls char. unfold pto. cbn [length Nat.leb nth_error prefix_len]. rewrite Z.add_0_l. reflexivity. Qed.

Lemma pto_cons : forall l ls k char z, ls <> [] -> pto ls k char = Val z ->
  pto (l :: ls) (S k) char = Val (Z.of_nat (length l) + 1 + z)%Z.
Proof.
  intros l ls k char z Hne H. unfold pto in *. cbn [length Nat.leb nth_error prefix_len].
  pose proof (prefix_len_nonneg k ls) as Hp.
  destruct (Nat.leb_spec (length ls) k) as [Hle|Hlt].
  - assert (Hpos : (0 < prefix_len k ls)%Z).
    { destruct ls as [|l' ls']; [contradiction|]. destruct k as [|k']; cbn [length] in Hle; [lia|].
      cbn [prefix_len]. pose proof (prefix_len_nonneg k' ls'). lia. }
    injection H as <-.
    destruct (prefix_len k ls >? 0)%Z eqn:E1; [|lia].
    destruct (Z.of_nat (length l) + 1 + prefix_len k ls >? 0)%Z eqn:E2; [|lia].
    f_equal. lia.
  - destruct (nth_error ls k) as [l0|]; [|discriminate].
    injection H as <-. f_equal. lia.
Qed.

Lemma pto_head : forall c l ls k char z, pto (l :: ls) (S k) char = Val z ->
  pto ((c :: l) :: ls) (S k) char = Val (1 + z)%Z.
Proof.
  intros c l ls k char z H. unfold pto in *. cbn [length Nat.leb nth_error prefix_len] in *.
  pose proof (prefix_len_nonneg k ls) as Hp.
  destruct (Nat.leb_spec (length ls) k) as [Hle|Hlt].
  - injection H as <-.
    destruct (Z.of_nat (length l) + 1 + prefix_len k ls >? 0)%Z eqn:E1; [|lia].
    destruct (Z.of_nat (S (length l)) + 1 + prefix_len k ls >? 0)%Z eqn:E2; [|lia].
    f_equal. lia.
  - destruct (nth_error ls k) as [l0|]; [|discriminate].
    injection H as <-. f_equal. lia.
Qed.

Lemma pto_boff : forall char s k, pto (split_lines s) k char = Val (Z.of_nat (boff s k char)).
Proof.
  intros char. induction s as [|c t IH]; intros k.
  - destruct k as [|k]; [reflexivity|]. destruct k; reflexivity.
  - destruct k as [|k].
    + rewrite split_lines_first, pto_zero, boff_zero. reflexivity.
    + cbn [boff split_lines]. destruct (N.eqb_spec c 10) as [Heq|Hne].
      * rewrite (pto_cons [] _ _ _ _ (split_lines_nonnil t) (IH k)).
        f_equal. cbn [length]. lia.
      * destruct (split_lines t) as [|l ls] eqn:E; [exfalso; eapply split_lines_nonnil; eauto|].
        rewrite (pto_head c _ _ _ _ _ (IH (S k))). f_equal. lia.
Qed.

Lemma pos_to_off_boff : forall s k char,
  pos_to_off (split_lines s) (Z.of_nat k) char = Val (Z.of_nat (boff s k char)).
Proof. intros s k char. rewrite pos_to_off_nat. apply pto_boff. Qed.

(* 3c. boff on an encoded document is the encoded length of the code-point prefix *)

Lemma first_line_app_noLF : forall l s, (forall b, In b l -> b <> 10%N) ->
  first_line (l ++ s) = l ++ first_line s.
Proof.
  induction l as [|a l IH]; intros s H; cbn [app first_line]; [reflexivity|].
  destruct (N.eqb_spec a 10) as [Heq|Hne].
  - exfalso. apply (H a); [left; reflexivity|exact Heq].
  - f_equal. apply IH. intros b Hb. apply H. right. exact Hb.
Qed.

Lemma boff_app_noLF : forall l s k char, (forall b, In b l -> b <> 10%N) ->
  boff (l ++ s) (S k) char = length l + boff s (S k) char.
Proof.
  induction l as [|a l IH]; intros s k char H; cbn [app boff length]; [reflexivity|].
  destruct (N.eqb_spec a 10) as [Heq|Hne].
  - exfalso. apply (H a); [left; reflexivity|exact Heq].
  - rewrite IH; [reflexivity|]. intros b Hb. apply H. right. exact Hb.
Qed.

Lemma col_walk_cons0 : forall b t u col i,
  col_walk (b :: t) 0 u col i =
  if (u + rune_units (b :: t) >? col)%Z then i
  else col_walk t (pred (rune_len (b :: t))) (u + rune_units (b :: t))%Z col (S i).
Proof. reflexivity. Qed.

Lemma col_walk_skip : forall l s u col i,
  col_walk (l ++ s) (length l) u col i = col_walk s 0 u col (i + length l).
Proof.
  induction l as [|a l IH]; intros s u col i; cbn [app length].
  - rewrite Nat.add_0_r. reflexivity.
  - cbn [col_walk]. rewrite IH. f_equal. lia.
Qed.

Lemma col_walk_enc : forall char d u i, valid_text d ->
  col_walk (first_line (enc d)) 0 u char i = i + length (enc (firstn (spec_col d u char) d)).
Proof.
  intros char. induction d as [|c t IH]; intros u i Hv.
  - cbn. lia.
  - inversion Hv as [|c' t' Hc Ht]; subst c' t'.
    rewrite enc_cons. cbn [spec_col].
    destruct (N.eqb_spec c 10) as [Heq|Hne].
    + subst c. rewrite enc_cp_lf. cbn [app first_line]. rewrite N.eqb_refl.
      cbn [col_walk firstn enc flat_map length]. lia.
    + rewrite first_line_app_noLF by (intros b Hb; eapply enc_cp_no_lf; eauto).
      pose proof (rune_len_enc c (first_line (enc t)) Hc) as HL.
      pose proof (rune_units_enc c (first_line (enc t)) Hc) as HU.
      destruct (enc_cp c) as [|b l] eqn:E; [exfalso; eapply enc_cp_nonnil; eauto|].
      cbn [app] in HL, HU |- *.
      rewrite col_walk_cons0, HU, HL. cbn [length pred].
      destruct (u + cp_units c >? char)%Z.
      * cbn [firstn enc flat_map length]. lia.
      * rewrite col_walk_skip, IH by assumption.
        cbn [firstn]. rewrite enc_cons, E, app_length. cbn [length]. lia.
Qed.

Lemma boff_enc : forall char d k, valid_text d ->
  boff (enc d) k char = length (enc (firstn (spec_off d k char) d)).
Proof.
  intros char. induction d as [|c t IH]; intros k Hv.
  - destruct k; reflexivity.
  - destruct k as [|k].
    + rewrite boff_zero. unfold utf16_col_to_off. rewrite col_walk_enc by assumption.
      reflexivity.
    + inversion Hv as [|c' t' Hc Ht]; subst c' t'.
      rewrite enc_cons. cbn [spec_off firstn].
      destruct (N.eqb_spec c 10) as [Heq|Hne].
      * subst c. rewrite enc_cons, enc_cp_lf. cbn [app boff length]. rewrite N.eqb_refl.
        rewrite IH by assumption. reflexivity.
      * rewrite boff_app_noLF by (intros b Hb; eapply enc_cp_no_lf; eauto).
        rewrite IH by assumption. rewrite enc_cons, app_length. reflexivity.
Qed.

(* 3d. positions *)

Lemma pos_to_off_enc : forall d line char, valid_text d ->
  pos_to_off (split_lines (enc d)) line char
  = Val (Z.of_nat (length (enc (firstn (spec_pos d line char) d)))).
Proof.
  intros d line char Hv. unfold spec_pos.
  destruct (Z.ltb_spec line 0) as [Hneg|Hnn].
  - unfold pos_to_off. destruct (Z.ltb_spec line 0) as [_|Hc]; [reflexivity|lia].
  - rewrite <- (Z2Nat.id line) at 1 by assumption.
    rewrite pos_to_off_boff, boff_enc by assumption. reflexivity.
Qed.

(* 3e. the main result *)

Theorem mirror_correct : forall d txt sl sc el ec, valid_text d ->
  apply_change (enc d) (split_lines (enc d)) (Range sl sc el ec) (enc txt)
  = Val (enc (spec_apply d sl sc el ec txt)).
Proof.
  intros d txt sl sc el ec Hv. unfold apply_change. cbn [r_sl r_sc r_el r_ec].
  rewrite !pos_to_off_enc by assumption. unfold spec_apply. cbv zeta.
  set (s := spec_pos d sl sc). set (e' := spec_pos d el ec).
  pose proof (enc_firstn_le s d) as Hs.
  pose proof (enc_firstn_le (Nat.max s e') d) as He.
  assert (E1 : (Z.of_nat (length (enc (firstn s d))) >? Z.of_nat (length (enc d)))%Z = false) by lia.
  rewrite E1.
  assert (Hclamp :
    (if (Z.of_nat (length (enc (firstn e' d))) <? Z.of_nat (length (enc (firstn s d))))%Z
     then Z.of_nat (length (enc (firstn s d)))
     else Z.of_nat (length (enc (firstn e' d))))
    = Z.of_nat (length (enc (firstn (Nat.max s e') d)))).
  { destruct (Nat.le_ge_cases s e') as [Hse|Hse].
    - pose proof (enc_firstn_mono s e' d Hse) as Hm.
      rewrite (Nat.max_r s e') by assumption.
      destruct (Z.ltb_spec (Z.of_nat (length (enc (firstn e' d))))
                           (Z.of_nat (length (enc (firstn s d))))); [lia|reflexivity].
    - pose proof (enc_firstn_mono e' s d Hse) as Hm.
      rewrite (Nat.max_l s e') by assumption.
      destruct (Z.ltb_spec (Z.of_nat (length (enc (firstn e' d))))
                           (Z.of_nat (length (enc (firstn s d))))); [reflexivity|lia]. }
  rewrite Hclamp.
  assert (E2 : ((Z.of_nat (length (enc (firstn s d))) <? 0)%Z
                || (Z.of_nat (length (enc d)) <? Z.of_nat (length (enc (firstn s d))))%Z) = false) by lia.
  rewrite E2.
  rewrite Nat2Z.id, firstn_enc, !enc_app.
  destruct (Z.ltb_spec (Z.of_nat (length (enc (firstn (Nat.max s e') d)))) (Z.of_nat (length (enc d))))
    as [Hlt|Hge].
  - assert (E3 : (Z.of_nat (length (enc (firstn (Nat.max s e') d))) <? 0)%Z = false) by lia.
    rewrite E3, Nat2Z.id, skipn_enc. reflexivity.
  - assert (Hnil : enc (skipn (Nat.max s e') d) = []).
    { apply length_zero_iff_nil.
      pose proof (f_equal (@length N) (enc_split (Nat.max s e') d)) as HL.
      rewrite app_length in HL. lia. }
    rewrite Hnil, app_nil_r. reflexivity.
Qed.

(* edit lists *)



Lemma Forall_firstn_ : forall (A : Type) (P : A -> Prop) n (l : list A), Forall P l -> Forall P (firstn n l).
Proof.
  intros A P. induction n as [|n IH]; intros l H; cbn [firstn]; [constructor|].
  destruct H as [|x l Hx Hl]; constructor; auto.
Qed.

Lemma Forall_skipn_ : forall (A : Type) (P : A -> Prop) n (l : list A), Forall P l -> Forall P (skipn n l).
Proof.
  intros A P. induction n as [|n IH]; intros l H; cbn [skipn]; [exact H|].
  destruct H as [|x l Hx Hl]; [constructor|auto].
Qed.

Lemma spec_apply_valid : forall d sl sc el ec txt, valid_text d -> valid_text txt ->
  valid_text (spec_apply d sl sc el ec txt).
Proof.
  intros d sl sc el ec txt Hd Ht. unfold spec_apply, valid_text in *. cbv zeta.
  apply Forall_app. split; [apply Forall_firstn_; exact Hd|].
  apply Forall_app. split; [exact Ht|apply Forall_skipn_; exact Hd].
Qed.

Lemma spec_edit_valid : forall d e, valid_text d -> valid_edit e -> valid_text (spec_edit d e).
Proof.
  intros d [t|sl sc el ec t] Hd He; cbn [spec_edit valid_edit] in *; [exact He|].
  apply spec_apply_valid; assumption.
Qed.

Lemma spec_edits_valid : forall es d, valid_text d -> Forall valid_edit es -> valid_text (spec_edits d es).
Proof.
  induction es as [|e es IH]; intros d Hd Hes; [exact Hd|].
  inversion Hes as [|e' es' He Hes']; subst e' es'.
  unfold spec_edits. cbn [fold_left]. apply IH; [apply spec_edit_valid; assumption|exact Hes'].
Qed.

Lemma mirror_correct_one : forall d v e, valid_text d ->
  apply_one (Doc v (enc d) (split_lines (enc d))) (enc_edit e)
  = Val (Doc v (enc (spec_edit d e)) (split_lines (enc (spec_edit d e)))).
Proof.
  intros d v [t|sl sc el ec t] Hd; cbn [enc_edit apply_one spec_edit d_version d_content d_lines].
  - reflexivity.
  - rewrite mirror_correct by assumption. reflexivity.
Qed.

Theorem mirror_correct_edits : forall es d v, valid_text d -> Forall valid_edit es ->
  apply_all (Doc v (enc d) (split_lines (enc d))) (map enc_edit es)
  = Val (Doc v (enc (spec_edits d es)) (split_lines (enc (spec_edits d es)))).
Proof.
  induction es as [|e es IH]; intros d v Hd Hes.
  - reflexivity.
  - inversion Hes as [|e' es' He Hes']; subst e' es'.
    cbn [map apply_all]. rewrite mirror_correct_one by assumption.
    unfold spec_edits. cbn [fold_left]. apply IH; [apply spec_edit_valid; assumption|exact Hes'].
Qed.

Print Assumptions pos_to_off_val.
Print Assumptions apply_change_total.
Print Assumptions apply_all_total.
Print Assumptions dm_run_total.
Print Assumptions apply_all_lines.
Print Assumptions rune_len_enc.
Print Assumptions rune_units_enc.
Print Assumptions enc_cp_no_lf.
Print Assumptions mirror_correct.
Print Assumptions mirror_correct_edits.
