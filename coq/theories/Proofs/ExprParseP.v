(* ExprParseP.v — proofs about the Gallina model of the expression parser (Model/ExprParse.v):
   for every reference expression, every parenthesisation and every admissible follow token the model parser
   (repaired configuration: no defect switch on) returns exactly the prescribed tree and the untouched rest.
   One lemma per ladder level; left-associative loops via accumulator lemmas ([chain_mono], [Pg]). *)
From Coq Require Import List String Ascii Bool Arith NArith Lia.
From GV Require Import Spec.RefGrammar Model.Expr Model.ExprParse.
Import ListNotations.
Local Open Scope string_scope.
Local Open Scope list_scope.
Local Open Scope nat_scope.
Local Notation length := List.length.
Arguments isT !t k /.
Arguments litfold !t kw /.
Arguments primary : simpl never.
Arguments json_level : simpl never.
Arguments json_tail : simpl never.
Arguments unary_level : simpl never.
Arguments mul_level : simpl never.
Arguments add_level : simpl never.
Arguments concat_level : simpl never.
Arguments cmp_tail : simpl never.
Arguments cmp_level : simpl never.
Arguments and_level : simpl never.
Arguments or_level : simpl never.
Arguments expr_body : simpl never.
Arguments parse_function_call : simpl never.
Arguments parse_case : simpl never.
Arguments parse_cast : simpl never.
Arguments parse_not_operand : simpl never.
Arguments parse_data_type : simpl never.
Arguments parse_expression : simpl never.
Arguments parse_comparison : simpl never.
Arguments cast_loop : simpl never.

(* ------------------------------------------------------------------------------------------------ *)
(* induction principle for the nested type *)
Section MexprInd.
  Variable P : mexpr -> Prop.
  Hypothesis HIdent : forall q n, P (MIdent q n).
  Hypothesis HQIdent : forall t n, P (MQIdent t n).
  Hypothesis HNum : forall s, P (MNum s).
  Hypothesis HStr : forall s, P (MStr s).
  Hypothesis HPh : forall s, P (MPlaceholder s).
  Hypothesis HNull : P MNull.
  Hypothesis HBool : forall b, P (MBool b).
  Hypothesis HBin : forall op l r, P l -> P r -> P (MBin op l r).
  Hypothesis HNot : forall e, P e -> P (MNot e).
  Hypothesis HIsNull : forall e neg, P e -> P (MIsNull e neg).
  Hypothesis HIn : forall e neg items, P e -> Forall P items -> P (MIn e neg items).
  Hypothesis HBetween : forall e neg lo hi, P e -> P lo -> P hi -> P (MBetween e neg lo hi).
  Hypothesis HLike : forall e neg ci p, P e -> P p -> P (MLike e neg ci p).
  Hypothesis HCastOp : forall e t, P e -> P (MCastOp e t).
  Hypothesis HFunc : forall n d args, Forall P args -> P (MFunc n d args).
  Hypothesis HCase : forall s whens els,
      (forall a, s = Some a -> P a) -> Forall (fun cv => P (fst cv) /\ P (snd cv)) whens ->
      (forall a, els = Some a -> P a) -> P (MCase s whens els).
  Hypothesis HCast : forall e t, P e -> P (MCast e t).
  Hypothesis HTuple : forall es, Forall P es -> P (MTuple es).

  Fixpoint mexpr_ind2 (e : mexpr) : P e :=
    match e with
    | MIdent q n => HIdent q n
    | MQIdent t n => HQIdent t n
    | MNum s => HNum s
    | MStr s => HStr s
    | MPlaceholder s => HPh s
    | MNull => HNull
    | MBool b => HBool b
    | MBin op l r => HBin op l r (mexpr_ind2 l) (mexpr_ind2 r)
    | MNot a => HNot a (mexpr_ind2 a)
    | MIsNull a neg => HIsNull a neg (mexpr_ind2 a)
    | MIn a neg items =>
        HIn a neg items (mexpr_ind2 a)
          ((fix go (l : list mexpr) : Forall P l :=
              match l with [] => Forall_nil P | x :: r => Forall_cons x (mexpr_ind2 x) (go r) end) items)
    | MBetween a neg lo hi => HBetween a neg lo hi (mexpr_ind2 a) (mexpr_ind2 lo) (mexpr_ind2 hi)
    | MLike a neg ci p => HLike a neg ci p (mexpr_ind2 a) (mexpr_ind2 p)
    | MCastOp a t => HCastOp a t (mexpr_ind2 a)
    | MFunc n d args =>
        HFunc n d args
          ((fix go (l : list mexpr) : Forall P l :=
              match l with [] => Forall_nil P | x :: r => Forall_cons x (mexpr_ind2 x) (go r) end) args)
    | MCase s whens els =>
        HCase s whens els
          (fun a (H : s = Some a) =>
             match s as s0 return s0 = Some a -> P a with
             | Some b => fun H0 => match H0 in _ = y return match y with Some c => P c | None => True end with eq_refl => mexpr_ind2 b end
             | None => fun H0 => match H0 in _ = y return match y with Some c => P c | None => True end with eq_refl => I end
             end H)
          ((fix go (l : list (mexpr * mexpr)) : Forall (fun cv => P (fst cv) /\ P (snd cv)) l :=
              match l with
              | [] => Forall_nil _
              | (c, v) :: r => Forall_cons (c, v) (conj (mexpr_ind2 c) (mexpr_ind2 v)) (go r)
              end) whens)
          (fun a (H : els = Some a) =>
             match els as s0 return s0 = Some a -> P a with
             | Some b => fun H0 => match H0 in _ = y return match y with Some c => P c | None => True end with eq_refl => mexpr_ind2 b end
             | None => fun H0 => match H0 in _ = y return match y with Some c => P c | None => True end with eq_refl => I end
             end H)
    | MCast a t => HCast a t (mexpr_ind2 a)
    | MTuple es =>
        HTuple es
          ((fix go (l : list mexpr) : Forall P l :=
              match l with [] => Forall_nil P | x :: r => Forall_cons x (mexpr_ind2 x) (go r) end) es)
    end.
End MexprInd.

(* ------------------------------------------------------------------------------------------------ *)
(* generic facts *)

Lemma chain_mono : forall isop step n m acc ts v,
    chain isop step n acc ts = Val v -> n <= m -> chain isop step m acc ts = Val v.
Proof.
  intros isop step n. induction n as [|n IH]; intros m acc ts v H Hle; cbn [chain] in H; [discriminate|].
  destruct m as [|m]; [lia|]. cbn [chain].
  destruct (isop (cur ts)); [|exact H].
  destruct (step acc ts) as [[l' ts']| | | |]; cbn [bind] in *; try discriminate.
  apply IH; [exact H|lia].
Qed.

Lemma chain_stop : forall isop step n acc ts,
    isop (cur ts) = false -> chain isop step (S n) acc ts = Val (acc, ts).
Proof. intros. cbn [chain]. rewrite H. reflexivity. Qed.

Lemma chain_step : forall isop step n acc ts l' ts',
    isop (cur ts) = true -> step acc ts = Val (l', ts') ->
    chain isop step (S n) acc ts = chain isop step n l' ts'.
Proof. intros. cbn [chain]. rewrite H, H0. reflexivity. Qed.

Lemma app_cons_assoc : forall {A} (a : list A) x b, (a ++ [x]) ++ b = a ++ x :: b.
Proof. intros. rewrite <- app_assoc. reflexivity. Qed.

(* body of a rendering: [render lv r e = wrap (parens lv r e) (body r e)] *)
Definition body (r : rho) (e : mexpr) : list token :=
  match e with
  | MIdent q n => [Tk (if q then TyDQuoted else TyIdent) n]
  | MQIdent t n => [Tk TyIdent t; Tk TyPeriod "."; Tk TyIdent n]
  | MNum s => [Tk TyNumber s]
  | MStr s => [Tk TySQuoted s]
  | MPlaceholder s => [Tk TyPlaceholder s]
  | MNull => [Tk TyNull "NULL"]
  | MBool b => [if b then Tk TyTrue "TRUE" else Tk TyFalse "FALSE"]
  | MBin op a b => render (fst (bin_ctx op)) (sub r 0) a ++ bin_tok op :: render (snd (bin_ctx op)) (sub r 1) b
  | MNot a => Tk TyNot "NOT" :: render 2 (sub r 0) a
  | MIsNull a neg => render 4 (sub r 0) a ++ Tk TyIs "IS" :: not_toks neg ++ [Tk TyNull "NULL"]
  | MIn a neg items =>
      render 4 (sub r 0) a ++ not_toks neg ++ Tk TyIn "IN" :: tLP ::
      sep_by [tComma] (render_list render 0 r 1 items) ++ [tRP]
  | MBetween a neg lo hi =>
      render 4 (sub r 0) a ++ not_toks neg ++ Tk TyBetween "BETWEEN" :: render 4 (sub r 1) lo
      ++ Tk TyAnd "AND" :: render 4 (sub r 2) hi
  | MLike a neg ci p =>
      render 4 (sub r 0) a ++ not_toks neg
      ++ (if ci then Tk TyILike "ILIKE" else Tk TyLike "LIKE") :: render 4 (sub r 1) p
  | MCastOp a t => render 7 (sub r 0) a ++ Tk TyDoubleColon "::" :: type_toks t
  | MFunc n d args =>
      Tk TyIdent n :: tLP :: (if d then [Tk TyDistinct "DISTINCT"] else [])
      ++ sep_by [tComma] (render_list render 0 r 0 args) ++ [tRP]
  | MCase s whens els =>
      Tk TyCase "CASE" ::
      match s with Some a => render 0 (sub r 0) a | None => [] end
      ++ render_whens render r 2 whens
      ++ match els with Some a => Tk TyElse "ELSE" :: render 0 (sub r 1) a | None => [] end
      ++ [Tk TyEnd "END"]
  | MCast a t => Tk TyCast "CAST" :: tLP :: render 0 (sub r 0) a ++ Tk TyAs "AS" :: type_toks t ++ [tRP]
  | MTuple es => tLP :: sep_by [tComma] (render_list render 0 r 0 es) ++ [tRP]
  end.

Lemma render_body : forall lv r e, render lv r e = wrap (parens lv r e) (body r e).
Proof. intros lv r e. destruct e; reflexivity. Qed.

Definition bdepth (r : rho) (e : mexpr) : nat :=
  match e with
  | MIdent _ _ | MQIdent _ _ | MNum _ | MStr _ | MPlaceholder _ | MNull | MBool _ => 0
  | MBin op a b => Nat.max (pdepth (fst (bin_ctx op)) (sub r 0) a) (pdepth (snd (bin_ctx op)) (sub r 1) b)
  | MNot a => S (pdepth 2 (sub r 0) a)
  | MIsNull a _ => pdepth 4 (sub r 0) a
  | MIn a _ items => Nat.max (pdepth 4 (sub r 0) a) (S (pdepth_list pdepth 0 r 1 items))
  | MBetween a _ lo hi => Nat.max (pdepth 4 (sub r 0) a) (Nat.max (pdepth 4 (sub r 1) lo) (pdepth 4 (sub r 2) hi))
  | MLike a _ _ p => Nat.max (pdepth 4 (sub r 0) a) (pdepth 4 (sub r 1) p)
  | MCastOp a _ => pdepth 7 (sub r 0) a
  | MFunc _ _ args => S (pdepth_list pdepth 0 r 0 args)
  | MCase s whens els =>
      S (Nat.max (match s with Some a => pdepth 0 (sub r 0) a | None => 0 end)
           (Nat.max (pdepth_whens pdepth r 2 whens)
              (match els with Some a => pdepth 0 (sub r 1) a | None => 0 end)))
  | MCast a _ => S (pdepth 0 (sub r 0) a)
  | MTuple es => S (pdepth_list pdepth 0 r 0 es)
  end.

Lemma pdepth_body : forall lv r e, pdepth lv r e = parens lv r e + bdepth r e.
Proof. intros lv r e. destruct e; reflexivity. Qed.

(* first token of a rendering *)
Definition starts (t : token) : bool :=
  isT t TyIdent || isT t TyDQuoted || isT t TyNumber || isT t TySQuoted || isT t TyPlaceholder || isT t TyNull
  || isT t TyTrue || isT t TyFalse || isT t TyLParen || isT t TyNot || isT t TyCase || isT t TyCast.

Lemma wrap_S : forall n ts, wrap (S n) ts = tLP :: wrap n ts ++ [tRP].
Proof. reflexivity. Qed.

Lemma wrap_head : forall n ts, (exists t tl, ts = t :: tl /\ starts t = true) ->
                               exists t tl, wrap n ts = t :: tl /\ starts t = true.
Proof. intros n ts H. destruct n; [exact H|]. rewrite wrap_S. eexists _, _. split; reflexivity. Qed.

Lemma render_head : forall e lv r, exists t tl, render lv r e = t :: tl /\ starts t = true.
Proof.
  induction e using mexpr_ind2; intros lv r; rewrite render_body; apply wrap_head; cbn [body].
  all: try (eexists _, _; split; [reflexivity|]; first [reflexivity | destruct q; reflexivity | destruct b; reflexivity]).
  all: match goal with
       | IH : forall lv r, exists _ _, render lv r ?a = _ /\ _ |- context [render ?l ?rr ?a ++ _] =>
           destruct (IH l rr) as (tk & tl & E & S1); rewrite E; eexists _, _; split; [reflexivity|exact S1]
       end.
Qed.

Lemma render_head_app : forall e lv r rest, exists t tl, render lv r e ++ rest = t :: tl /\ starts t = true.
Proof.
  intros. destruct (render_head e lv r) as (t & tl & E & S1). rewrite E. eexists _, _. split; [reflexivity|exact S1].
Qed.

Lemma length_wrap : forall n ts, length (wrap n ts) = 2 * n + length ts.
Proof. induction n; intros; [reflexivity|]. rewrite wrap_S. cbn [length]. rewrite app_length, IHn. cbn [length]. lia. Qed.

(* [stops] unpacked *)
Lemma stops_mono : forall a b t, a <= b -> stops a t = true -> stops b t = true.
Proof.
  intros a b t Hle H. unfold stops in *.
  repeat (apply andb_prop in H; destruct H as [H ?]).
  repeat (apply andb_true_intro; split); try assumption.
  all: match goal with |- (if ?x <=? ?k then _ else _) = true =>
         destruct (Nat.leb_spec x k); [|reflexivity] end.
  all: match goal with Hx : (if ?x <=? ?k then _ else _) = true |- _ =>
         destruct (Nat.leb_spec x k) in Hx; [exact Hx|lia] end.
Qed.

Lemma isT_excl : forall t a b, isT t a = true -> N.eqb (tty_code a) (tty_code b) = false -> isT t b = false.
Proof.
  unfold isT, tty_eqb. intros t a b H1 H2. apply N.eqb_eq in H1. rewrite H1. exact H2.
Qed.

(* a token that starts a rendering is none of the tokens the parser gives a special meaning at that point *)
Lemma starts_not : forall t k, starts t = true ->
    forallb (fun a => negb (N.eqb (tty_code a) (tty_code k)))
      [TyIdent; TyDQuoted; TyNumber; TySQuoted; TyPlaceholder; TyNull; TyTrue; TyFalse; TyLParen; TyNot; TyCase; TyCast] = true ->
    isT t k = false.
Proof.
  intros t k H Hk. unfold starts in H. cbn [forallb] in Hk.
  repeat (apply andb_prop in Hk; destruct Hk as [? Hk]).
  repeat (apply orb_prop in H; destruct H as [H|H]);
    (eapply isT_excl; [exact H|]; apply negb_true_iff; assumption).
Qed.

(* a token that starts a rendering is not a sign (unary minus / plus is not in the reference surface) *)
Lemma starts_nosign : forall t, starts t = true -> is_sign t = false.
Proof.
  intros t H. unfold is_sign. rewrite (starts_not t TyMinus H eq_refl), (starts_not t TyPlus H eq_refl). reflexivity.
Qed.

Lemma head_nosign : forall toks rest, (exists t tl, toks = t :: tl /\ starts t = true) -> is_sign (cur (toks ++ rest)) = false.
Proof. intros toks rest (t & tl & E & H). subst toks. cbn [app cur]. apply starts_nosign. exact H. Qed.

Ltac split_stops H :=
  unfold stops in H; cbn [Nat.leb] in H;
  repeat (let H' := fresh "Hs" in apply andb_prop in H; destruct H as [H H']);
  repeat match goal with Hx : negb _ = true |- _ => apply negb_true_iff in Hx end.

Ltac split_or H :=
  repeat (let H' := fresh "Ho" in apply orb_false_elim in H; destruct H as [H H']).

Section Main.
  Variable md : nat.
  Notation df := no_defects.
  Definition PE (f : nat) := parse_expression md df f.
  Definition PC (f : nat) := parse_comparison md df f.

  Definition r7 f := primary md (PE f) (PC f).
  Definition r6 f := unary_level md (PE f) (PC f).
  Definition r5 f := mul_level md (PE f) (PC f).
  Definition r4 f := add_level md (PE f) (PC f).
  Definition r3 f := concat_level md (PE f) (PC f).
  Definition r2 f := cmp_level md df (PE f) (PC f).
  Definition r1 f := and_level md df (PE f) (PC f).
  Definition r0 f := or_level md df (PE f) (PC f).

  Definition K6 f d x ts := json_tail md (PE f) (PC f) d x ts.
  Definition K5 f d x ts := chain cont6 (bin_step (r6 f d)) (S (length ts)) x ts.
  Definition K4 f d x ts := chain cont5 (bin_step (r5 f d)) (S (length ts)) x ts.
  Definition K3 f d x ts := chain cont4 (bin_step (r4 f d)) (S (length ts)) x ts.
  Definition K2 f d x ts := cmp_tail md df (PE f) (PC f) d x ts.
  Definition K1 f d x ts := chain cont1 (kw_step (r2 f d)) (S (length ts)) x ts.
  Definition K0 f d x ts := chain cont0 (kw_step (r1 f d)) (S (length ts)) x ts.

  Definition rg (g : nat) f d ts : res :=
    match g with 0 => r0 f d ts | 1 => r1 f d ts | 2 => r2 f d ts | 3 => r3 f d ts | 4 => r4 f d ts
            | 5 => r5 f d ts | 6 => r6 f d ts | _ => r7 f d ts end.
  Definition Kg (g : nat) f d x ts : res :=
    match g with 0 => K0 f d x ts | 1 => K1 f d x ts | 2 => K2 f d x ts | 3 => K3 f d x ts | 4 => K4 f d x ts
            | 5 => K5 f d x ts | 6 => K6 f d x ts | _ => Val (x, ts) end.

  Lemma rg_step : forall g f d ts, g < 6 -> rg g f d ts = bind (rg (S g) f d ts) (fun p => Kg g f d (fst p) (snd p)).
  Proof.
    intros g f d ts Hg.
    do 6 (destruct g as [|g]; [cbn [rg Kg]; unfold r0, r1, r2, r3, r4, r5, r6, r7, K0, K1, K2, K3, K4, K5, K6,
                                 or_level, and_level, cmp_level, concat_level, add_level, mul_level;
                               match goal with |- bind ?a _ = bind ?a _ => destruct a as [[? ?]| | | |]; reflexivity end|]).
    lia.
  Qed.

  (* the signed-operand level hands over to parseJSONExpression when no sign is ahead *)
  Lemma unary_nosign : forall f d ts, is_sign (cur ts) = false ->
      unary_level md (PE f) (PC f) d ts = json_level md (PE f) (PC f) d ts.
  Proof. intros f d ts H. unfold unary_level. cbn [unary_chain]. rewrite H. reflexivity. Qed.

  Lemma rg_step6 : forall f d ts, is_sign (cur ts) = false ->
      rg 6 f d ts = bind (rg 7 f d ts) (fun p => Kg 6 f d (fst p) (snd p)).
  Proof.
    intros f d ts H. cbn [rg Kg]. unfold r6. rewrite unary_nosign by exact H. unfold r7, K6, json_level.
    match goal with |- bind ?a _ = bind ?a _ => destruct a as [[? ?]| | | |]; reflexivity end.
  Qed.

  (* what the follow token must not be, for level g to hand its operand back unchanged *)
  Definition own (g : nat) : nat := match g with 0 => 0 | 1 => 1 | 2 => 3 | 3 => 4 | 4 => 5 | 5 => 6 | 6 => 7 | _ => 8 end.
  Definition pre (g : nat) : nat := match g with 0 => 1 | 1 => 3 | 2 => 3 | 3 => 5 | 4 => 6 | 5 => 7 | _ => 8 end.

  Lemma cmp_tail_stop : forall f d x ts, cont3 (cur ts) = false -> K2 f d x ts = Val (x, ts).
  Proof.
    intros f d x ts H. unfold K2, cmp_tail. unfold cont3 in H. split_or H.
    rewrite H. cbn [andb]. rewrite Ho4, Ho3, Ho2, Ho1, Ho0, Ho5, Ho. cbn [orb]. rewrite Ho6. reflexivity.
  Qed.

  Lemma Kg_stop : forall g f d x ts, stops (own g) (cur ts) = true -> Kg g f d x ts = Val (x, ts).
  Proof.
    intros g f d x ts H.
    destruct g as [|[|[|[|[|[|[|g]]]]]]]; cbn [own] in H; split_stops H; cbn [Kg].
    - unfold K0. apply chain_stop. assumption.
    - unfold K1. apply chain_stop. assumption.
    - apply cmp_tail_stop. assumption.
    - unfold K3. apply chain_stop. assumption.
    - unfold K4. apply chain_stop. assumption.
    - unfold K5. apply chain_stop. assumption.
    - unfold K6, json_tail, cast_loop.
      match goal with Hc : cont7 _ = false |- _ => unfold cont7 in Hc; apply orb_false_elim in Hc; destruct Hc as [Hc1 Hc2] end.
      rewrite chain_stop by assumption. cbn [bind]. apply chain_stop. assumption.
    - reflexivity.
  Qed.

  (* the uniform per-level statement: reading [toks] at level g behaves like continuing level g's loop
     from the finished operand x *)
  Definition Pg (g : nat) f d (toks : list token) (x : gexpr) (rest : list token) : Prop :=
    forall R, Kg g f d x rest = Val R -> rg g f d (toks ++ rest) = Val R.

  Lemma Pg_direct : forall g f d toks x rest,
      Pg g f d toks x rest -> stops (own g) (cur rest) = true -> rg g f d (toks ++ rest) = Val (x, rest).
  Proof. intros. apply H. apply Kg_stop. assumption. Qed.

  Lemma own_pre : forall g, g < 7 -> pre g <= own (S g).
  Proof. intros g H. do 7 (destruct g as [|g]; [cbn; lia|]). lia. Qed.
  Lemma pre_mono : forall g, pre g <= pre (S g).
  Proof. intros g. do 7 (destruct g as [|g]; [cbn; lia|]). cbn; lia. Qed.
  Lemma pre_mono_le : forall g g', g' <= g -> pre g' <= pre g.
  Proof. intros g g' H. induction H; [lia|]. etransitivity; [exact IHle|apply pre_mono]. Qed.

  Lemma lift_one : forall g f d toks x rest,
      g < 7 -> is_sign (cur (toks ++ rest)) = false ->
      Pg (S g) f d toks x rest -> stops (pre g) (cur rest) = true -> Pg g f d toks x rest.
  Proof.
    intros g f d toks x rest Hg Hns HP Hs R HK.
    assert (Hstep : rg g f d (toks ++ rest) = bind (rg (S g) f d (toks ++ rest)) (fun p => Kg g f d (fst p) (snd p))).
    { destruct (Nat.eq_dec g 6) as [->|Hne]; [apply rg_step6; exact Hns|apply rg_step; lia]. }
    rewrite Hstep.
    rewrite (Pg_direct _ _ _ _ _ _ HP).
    - cbn [bind fst snd]. exact HK.
    - eapply stops_mono; [apply own_pre; assumption|exact Hs].
  Qed.

  Lemma lift_down : forall k g f d toks x rest,
      g + k <= 7 -> is_sign (cur (toks ++ rest)) = false ->
      Pg (g + k) f d toks x rest -> stops (pre g) (cur rest) = true -> Pg g f d toks x rest.
  Proof.
    induction k as [|k IH]; intros g f d toks x rest Hle Hns HP Hs.
    - rewrite Nat.add_0_r in HP. exact HP.
    - apply lift_one; [lia|exact Hns| |exact Hs].
      apply IH; [lia|exact Hns| |].
      + replace (S g + k) with (g + S k) by lia. exact HP.
      + eapply stops_mono; [apply pre_mono|exact Hs].
  Qed.

  (* one more iteration of a binary-operator loop *)
  Lemma chain_bin_ext : forall isop operand xL xR optok toksR rest R,
      isop optok = true -> operand (toksR ++ rest) = Val (xR, rest) ->
      chain isop (bin_step operand) (S (length rest)) (GBinary xL (lit optok) (Some xR) false) rest = Val R ->
      chain isop (bin_step operand) (S (length (optok :: toksR ++ rest))) xL (optok :: toksR ++ rest) = Val R.
  Proof.
    intros isop operand xL xR optok toksR rest R Hop Hr HK.
    cbn [chain cur]. rewrite Hop. unfold bin_step at 1. cbn [cur advance]. rewrite Hr. cbn [bind].
    eapply chain_mono; [exact HK|]. cbn [length]. rewrite app_length. lia.
  Qed.

  (* the same for the AND / OR loops, which store the upper-cased spelling of the keyword *)
  Lemma chain_kw_ext : forall isop operand xL xR optok toksR rest R,
      isop optok = true -> operand (toksR ++ rest) = Val (xR, rest) ->
      chain isop (kw_step operand) (S (length rest)) (GBinary xL (upper (lit optok)) (Some xR) false) rest = Val R ->
      chain isop (kw_step operand) (S (length (optok :: toksR ++ rest))) xL (optok :: toksR ++ rest) = Val R.
  Proof.
    intros isop operand xL xR optok toksR rest R Hop Hr HK.
    cbn [chain cur]. rewrite Hop. unfold kw_step at 1. cbn [cur advance]. rewrite Hr. cbn [bind].
    eapply chain_mono; [exact HK|]. cbn [length]. rewrite app_length. lia.
  Qed.

  (* ---------------------------------------------------------------------------------------------- *)
  (* primary: atoms *)
  Lemma plain_not_niladic : forall n, plain_name n = true -> is_niladic n = false.
  Proof.
    intros n H. unfold plain_name in H. apply andb_prop in H. destruct H as [_ H]. rewrite forallb_forall in H.
    assert (Hw : forall w, In w special_words -> String.eqb (upper n) (upper w) = false).
    { intros w Hw. specialize (H w Hw). apply negb_true_iff in H. exact H. }
    unfold is_niladic, niladic_names. cbn [existsb].
    assert (Hs : forall w, In w niladic_names -> String.eqb (upper n) w = false).
    { intros w Hi. unfold niladic_names in Hi. cbn [In] in Hi.
      destruct Hi as [<-|[<-|[<-|[<-|[<-|[]]]]]];
        match goal with |- String.eqb _ ?w = false => exact (Hw w ltac:(unfold special_words; cbn [In]; tauto)) end. }
    rewrite !Hs by (unfold niladic_names; cbn [In]; tauto). reflexivity.
  Qed.

  Lemma prim_ident : forall f d (q : bool) n ts, cont8 (cur ts) = false -> plain_name n = true ->
      r7 f d (Tk (if q then TyDQuoted else TyIdent) n :: ts) = Val (GIdent n "", ts).
  Proof.
    intros f d q n ts H Hn. unfold cont8 in H. split_or H. pose proof (plain_not_niladic n Hn) as Hnil.
    unfold r7, primary. destruct q; cbn [cur advance peek isT ty tty_eqb tty_code N.eqb Pos.eqb andb orb negb lit];
      rewrite H; cbn [andb negb]; rewrite ?Hnil, ?andb_false_r; rewrite Ho4; cbn [bind]; rewrite Ho3; reflexivity.
  Qed.

  Lemma prim_qident : forall f d t n ts, cont8 (cur ts) = false ->
      r7 f d (Tk TyIdent t :: Tk TyPeriod "." :: Tk TyIdent n :: ts) = Val (GIdent n t, ts).
  Proof.
    intros f d t n ts H. unfold cont8 in H. split_or H.
    unfold r7, primary. cbn. rewrite Ho3. reflexivity.
  Qed.

  Lemma prim_num : forall f d s ts, r7 f d (Tk TyNumber s :: ts) = Val (GLit (Some s) (num_type s), ts).
  Proof. reflexivity. Qed.
  Lemma prim_str : forall f d s ts, r7 f d (Tk TySQuoted s :: ts) = Val (GLit (Some s) "string", ts).
  Proof. reflexivity. Qed.
  Lemma prim_ph : forall f d s ts, r7 f d (Tk TyPlaceholder s :: ts) = Val (GLit (Some s) "placeholder", ts).
  Proof. reflexivity. Qed.
  Lemma prim_null : forall f d ts, r7 f d (Tk TyNull "NULL" :: ts) = Val (null_lit, ts).
  Proof. reflexivity. Qed.
  Lemma prim_bool : forall f d (b : bool) ts,
      r7 f d ((if b then Tk TyTrue "TRUE" else Tk TyFalse "FALSE") :: ts) = Val (GLit (Some (if b then "TRUE" else "FALSE")) "bool", ts).
  Proof. intros. destruct b; reflexivity. Qed.

  Lemma PE_S : forall f d ts, PE (S f) d ts = expr_body md df (PE f) (PC f) d ts.
  Proof. reflexivity. Qed.
  Lemma PC_S : forall f d ts, PC (S f) d ts = r2 f d ts.
  Proof. reflexivity. Qed.

  (* ---------------------------------------------------------------------------------------------- *)
  (* the tail of parseComparisonExpression on each operator form *)
  Lemma K2_cmpop : forall f d c lhs ts, is_quantifier (cur ts) = false ->
      K2 f d lhs (cmp_tok c :: ts)
      = (do (r, ts') <- r3 f d ts; Val (GBinary lhs (cmp_str c) (Some r) false, ts')).
  Proof.
    intros f d c lhs ts H. unfold K2, cmp_tail, r3. destruct c; cbn; rewrite H; reflexivity.
  Qed.

  Lemma K2_is : forall f d lhs neg rest,
      K2 f d lhs (Tk TyIs "IS" :: not_toks neg ++ Tk TyNull "NULL" :: rest)
      = Val (GBinary lhs "IS NULL" (Some null_lit) neg, rest).
  Proof. intros. unfold K2, cmp_tail. destruct neg; reflexivity. Qed.

  Lemma K2_between : forall f d lhs neg ts,
      K2 f d lhs (not_toks neg ++ Tk TyBetween "BETWEEN" :: ts)
      = (do (lo, ts1) <- rewrap EInvalid (r3 f d ts);
         if negb (isT (cur ts1) TyAnd) then Err EExpected
         else do (hi, ts2) <- rewrap EInvalid (r3 f d (advance ts1)); Val (GBetween lhs lo hi neg, ts2)).
  Proof. intros. unfold K2, cmp_tail, r3. destruct neg; reflexivity. Qed.

  Lemma K2_like : forall f d lhs neg (ci : bool) ts,
      K2 f d lhs (not_toks neg ++ (if ci then Tk TyILike "ILIKE" else Tk TyLike "LIKE") :: ts)
      = (do (p, ts1) <- rewrap EInvalid (r3 f d ts);
         Val (GBinary lhs (if ci then "ILIKE" else "LIKE") (Some p) neg, ts1)).
  Proof. intros. unfold K2, cmp_tail, r3. destruct neg, ci; reflexivity. Qed.

  (* ---------------------------------------------------------------------------------------------- *)
  (* parentheses *)
  Lemma prim_paren : forall f d toks x rest,
      (exists t tl, toks = t :: tl /\ starts t = true) ->
      S d <= md ->
      r0 f (S d) (toks ++ tRP :: rest) = Val (x, tRP :: rest) ->
      cont8 (cur rest) = false ->
      r7 (S f) d (tLP :: toks ++ tRP :: rest) = Val (x, rest).
  Proof.
    intros f d toks x rest (t & tl & E & Hst) Hd Hr Hc. unfold cont8 in Hc. split_or Hc.
    unfold r7, primary. cbn. subst toks. cbn [app cur].
    rewrite (starts_not t TySelect Hst eq_refl), (starts_not t TyWith Hst eq_refl). cbn [orb].
    rewrite PE_S. unfold expr_body. destruct (Nat.ltb_spec md (S d)); [lia|].
    unfold r0 in Hr. cbn [app] in Hr. rewrite Hr. cbn. rewrite Ho3. reflexivity.
  Qed.

  (* ---------------------------------------------------------------------------------------------- *)
  (* the induction *)
  Definition gl (lv : nat) : nat :=
    match lv with 0 => 0 | 1 => 1 | 2 => 2 | 3 => 2 | 4 => 3 | 5 => 4 | 6 => 5 | 7 => 6 | _ => 7 end.
  Definition glevel (e : mexpr) : nat := gl (level_of e).

  Lemma gl_mono : forall a b, a <= b -> gl a <= gl b.
  Proof.
    intros a b H.
    destruct a as [|[|[|[|[|[|[|[|a]]]]]]]]; destruct b as [|[|[|[|[|[|[|[|b]]]]]]]]; cbn; lia.
  Qed.
  Lemma gl_le7 : forall a, gl a <= 7.
  Proof. intros a. destruct a as [|[|[|[|[|[|[|[|a]]]]]]]]; cbn; lia. Qed.

  Definition All (e : mexpr) : Prop :=
    forall (r : rho) f d rest n g,
      ref_expr e = true ->
      length (wrap n (body r e) ++ rest) <= f ->
      d + n + bdepth r e <= md ->
      (1 <= n \/ g <= glevel e) -> g <= 7 ->
      stops (pre g) (cur rest) = true ->
      Pg g f d (wrap n (body r e)) (ast_of e) rest.

  Lemma body_head : forall e r, exists t tl, body r e = t :: tl /\ starts t = true.
  Proof.
    intros e r. destruct e; cbn [body].
    all: try (eexists _, _; split; [reflexivity|]; first [reflexivity | destruct quoted; reflexivity | destruct b; reflexivity]).
    all: match goal with
         | |- context [render ?l ?rr ?a ++ _] =>
             destruct (render_head a l rr) as (tk & tl & E & S1); rewrite E; eexists _, _; split; [reflexivity|exact S1]
         end.
  Qed.

  Lemma All_intro : forall e,
      (forall r f d rest, ref_expr e = true -> length (body r e ++ rest) <= f -> d + bdepth r e <= md ->
                          stops (pre (glevel e)) (cur rest) = true ->
                          Pg (glevel e) f d (body r e) (ast_of e) rest) ->
      All e.
  Proof.
    intros e H0 r f d rest n. revert f d rest.
    induction n as [|n IHn]; intros f d rest g Href Hlen Hdep Hlv Hg7 Hst.
    - cbn [wrap] in *. destruct Hlv as [Hlv|Hlv]; [lia|].
      apply (lift_down (glevel e - g)); [unfold glevel; pose proof (gl_le7 (level_of e)); lia|apply head_nosign; apply body_head| |exact Hst].
      replace (g + (glevel e - g)) with (glevel e) by lia.
      apply H0; try assumption. lia.
      eapply stops_mono; [apply pre_mono_le; exact Hlv|exact Hst].
    - assert (Hst8 : stops 8 (cur rest) = true).
      { eapply stops_mono; [|exact Hst]. destruct g as [|[|[|[|[|[|[|g]]]]]]]; cbn; lia. }
      apply (lift_down (7 - g)); [lia|apply head_nosign; apply wrap_head; apply body_head| |exact Hst].
      replace (g + (7 - g)) with 7 by lia.
      intros R HK. cbn [Kg] in HK. inversion HK; subst R. clear HK. cbn [rg].
      rewrite wrap_S in *. cbn [app] in Hlen |- *. rewrite app_cons_assoc in Hlen |- *. cbn [length] in Hlen.
      destruct f as [|f]; [lia|].
      apply prim_paren.
      + apply wrap_head. apply body_head.
      + lia.
      + specialize (IHn f (S d) (tRP :: rest) 0 Href).
        apply (Pg_direct 0); [|reflexivity].
        apply IHn; [lia|lia|right; lia|lia|reflexivity].
      + split_stops Hst8. assumption.
  Qed.

  (* using the statement for a sub-expression rendered in a context of level lv *)
  Lemma use_child : forall c, All c -> forall lv (r : rho) f d rest,
      ref_expr c = true -> length (render lv r c ++ rest) <= f -> d + pdepth lv r c <= md ->
      stops (pre (gl lv)) (cur rest) = true ->
      Pg (gl lv) f d (render lv r c) (ast_of c) rest.
  Proof.
    intros c HA lv r f d rest Href Hlen Hdep Hst.
    rewrite render_body in *. rewrite pdepth_body in Hdep.
    apply HA; try assumption; [lia| |apply gl_le7].
    unfold parens. destruct (Nat.ltb_spec (level_of c) lv); [left; lia|right; apply gl_mono; assumption].
  Qed.

  Lemma use_child_direct : forall c, All c -> forall lv (r : rho) f d rest,
      ref_expr c = true -> length (render lv r c ++ rest) <= f -> d + pdepth lv r c <= md ->
      stops (pre (gl lv)) (cur rest) = true -> stops (own (gl lv)) (cur rest) = true ->
      rg (gl lv) f d (render lv r c ++ rest) = Val (ast_of c, rest).
  Proof. intros. apply Pg_direct; [apply use_child; assumption|assumption]. Qed.

  Lemma prim_not : forall f d ts x rest,
      (exists t tl, ts = t :: tl /\ starts t = true) -> S d <= md ->
      r2 f (S d) ts = Val (x, rest) ->
      r7 (S f) d (Tk TyNot "NOT" :: ts) = Val (GUnary unop_not x, rest).
  Proof.
    intros f d ts x rest (t & tl & E & Hst) Hd Hr. subst ts.
    unfold r7, primary. cbn. rewrite (starts_not t TyExists Hst eq_refl).
    unfold parse_not_operand. destruct (Nat.ltb_spec md (S d)); [lia|].
    rewrite PC_S, Hr. reflexivity.
  Qed.

  (* simple data type names (no arguments) *)
  Lemma pdt_simple : forall t rest, targs t = [] -> cont8 (cur rest) = false ->
      parse_data_type (type_toks t ++ rest) = Val (type_str t, rest).
  Proof.
    intros [n a] rest Ha Hc. cbn in Ha. subst a. unfold cont8 in Hc. split_or Hc.
    unfold parse_data_type, type_toks, type_str. cbn. rewrite Hc. cbn. rewrite Ho3. reflexivity.
  Qed.

  Lemma prim_cast : forall f d ts x t rest,
      S d <= md -> targs t = [] ->
      r0 f (S d) (ts ++ Tk TyAs "AS" :: type_toks t ++ tRP :: rest) = Val (x, Tk TyAs "AS" :: type_toks t ++ tRP :: rest) ->
      r7 (S f) d (Tk TyCast "CAST" :: tLP :: ts ++ Tk TyAs "AS" :: type_toks t ++ tRP :: rest) = Val (GCast x (type_str t), rest).
  Proof.
    intros f d ts x [n a] rest Hd Ha Hr. cbn in Ha. subst a.
    unfold r7, primary. cbn. unfold parse_cast. cbn.
    rewrite PE_S. unfold expr_body. destruct (Nat.ltb_spec md (S d)); [lia|].
    unfold r0, type_toks in Hr. cbn [targs tname app] in Hr. unfold type_toks. cbn [targs tname app].
    rewrite Hr. reflexivity.
  Qed.

  (* a whole expression read by parseExpression (list items, arguments, CASE parts) *)
  Lemma PE_item : forall e, All e -> forall (r : rho) f d rest,
      ref_expr e = true -> length (render 0 r e ++ rest) < f -> S d + pdepth 0 r e <= md ->
      stops 0 (cur rest) = true ->
      PE f d (render 0 r e ++ rest) = Val (ast_of e, rest).
  Proof.
    intros e HA r f d rest Href Hlen Hdep Hst.
    destruct f as [|f]; [lia|]. rewrite PE_S. unfold expr_body.
    destruct (Nat.ltb_spec md (S d)); [lia|].
    apply (use_child_direct e HA 0); [assumption|lia|lia| |exact Hst].
    eapply stops_mono; [|exact Hst]. cbn. lia.
  Qed.

  Lemma in_list_ok : forall items, Forall All items -> forallb ref_expr items = true -> items <> [] ->
      forall (r : rho) i f d acc rest n,
        length (sep_by [tComma] (render_list render 0 r i items) ++ tRP :: rest) < f ->
        S d + pdepth_list pdepth 0 r i items <= md ->
        length (sep_by [tComma] (render_list render 0 r i items) ++ tRP :: rest) <= n ->
        in_list (PE f) n d acc (sep_by [tComma] (render_list render 0 r i items) ++ tRP :: rest)
        = Val (acc ++ map ast_of items, tRP :: rest).
  Proof.
    induction items as [|e tl IH]; intros HA Href Hne r i f d acc rest n Hlen Hdep Hn; [contradiction|].
    inversion HA as [|? ? HAe HAtl]; subst. cbn [forallb] in Href. apply andb_prop in Href. destruct Href as [Hre Hrtl].
    cbn [render_list pdepth_list] in *.
    destruct tl as [|e2 tl'].
    - cbn [render_list sep_by] in *.
      destruct n as [|n]; [rewrite app_length in Hn; cbn [length] in Hn; lia|].
      cbn [in_list]. rewrite (PE_item e HAe); [|assumption|assumption|lia|reflexivity].
      cbn [rewrap bind cur]. cbn. reflexivity.
    - remember (e2 :: tl') as tl2 eqn:Etl.
      assert (Hsep : sep_by [tComma] (render 0 (sub r i) e :: render_list render 0 r (S i) tl2)
                     = render 0 (sub r i) e ++ tComma :: sep_by [tComma] (render_list render 0 r (S i) tl2)).
      { subst tl2. reflexivity. }
      rewrite Hsep in *. rewrite <- app_assoc in *. cbn [app] in *.
      rewrite app_length in Hlen, Hn. cbn [length] in Hlen, Hn.
      destruct n as [|n]; [lia|].
      cbn [in_list]. rewrite (PE_item e HAe); [|assumption| | |reflexivity].
      + cbn [rewrap bind cur]. cbn [isT ty tty_eqb tty_code N.eqb Pos.eqb tComma]. cbn [advance].
        rewrite IH; [|assumption|assumption|subst tl2; discriminate|lia|lia|lia].
        rewrite <- app_assoc. reflexivity.
      + rewrite app_length. cbn [length]. lia.
      + lia.
  Qed.

  Lemma K2_in : forall f d lhs neg ts,
      K2 f d lhs (not_toks neg ++ Tk TyIn "IN" :: tLP :: ts)
      = (if isT (cur ts) TySelect || isT (cur ts) TyWith then Unmodelled
         else do (vals, ts') <- in_list (PE f) (S (length ts)) d [] ts; Val (GIn lhs vals None neg, advance ts')).
  Proof. intros f d lhs neg ts. unfold K2, cmp_tail. destruct neg; reflexivity. Qed.

  (* the sub-surface the theorem is proved for: everything in [ref_expr] except the productions listed in
     design/C03.md (list-valued nodes and data types with arguments) *)
  Fixpoint proved (e : mexpr) : bool :=
    match e with
    | MIdent _ _ | MQIdent _ _ | MNum _ | MStr _ | MPlaceholder _ | MNull | MBool _ => true
    | MBin _ a b => proved a && proved b
    | MNot a => proved a
    | MIsNull a _ => proved a
    | MBetween a _ lo hi => proved a && proved lo && proved hi
    | MLike a _ _ p => proved a && proved p
    | MCastOp a t => proved a && match targs t with [] => true | _ => false end
    | MCast a t => proved a && match targs t with [] => true | _ => false end
    | MIn a _ items => proved a && forallb proved items
    | MFunc _ _ _ | MCase _ _ _ | MTuple _ => false
    end.

  Ltac side :=
    cbn [body bdepth length bin_ctx fst snd] in *;
    repeat progress (rewrite ?app_length in *; cbn [length] in * ); try lia.

  Ltac stops_from H :=
    first [ exact H | reflexivity | (eapply stops_mono; [|exact H]; cbn; lia) ].

  Ltac head_not a lv rr k :=
    let tk := fresh "tk" in let tl := fresh "tl" in let E := fresh "E" in let S1 := fresh "S1" in
    destruct (render_head a lv rr) as (tk & tl & E & S1); rewrite E; cbn [app cur];
    rewrite ?(starts_not tk k S1 eq_refl).

  Lemma is_quantifier_head : forall a lv rr rest, is_quantifier (cur (render lv rr a ++ rest)) = false.
  Proof.
    intros. destruct (render_head a lv rr) as (tk & tl & E & S1). rewrite E. cbn [app cur].
    unfold is_quantifier. rewrite (starts_not tk TyAny S1 eq_refl), (starts_not tk TyAll S1 eq_refl). reflexivity.
  Qed.

  Ltac bin_loop IHl IHr l r0 g :=
    let R := fresh "R" in let HK := fresh "HK" in
    intros R HK; rewrite <- app_assoc; cbn [app];
    apply (use_child l IHl g); [assumption|side|side|reflexivity|];
    cbn [gl Kg] in *; unfold K0, K1, K3, K4, K5 in *;
    first [eapply chain_bin_ext; [reflexivity| |exact HK] | eapply chain_kw_ext; [reflexivity| |exact HK]];
    match goal with Hst : stops _ (cur _) = true |- _ =>
      apply (use_child_direct r0 IHr (S g)); [assumption|side|side|stops_from Hst|stops_from Hst] end.

  (* ---------------------------------------------------------------------------------------------- *)
  (* one lemma per production: the node satisfies [All] as soon as its children do *)
  Ltac start_case :=
    apply All_intro; intros rr f d rest Href Hlen Hdep Hst; cbn [glevel level_of gl pre ref_expr] in *.

  Lemma All_ident : forall q n, All (MIdent q n).
  Proof.
    intros q n. start_case. intros R HK. cbn [Kg] in HK. inversion HK; subst R. cbn [rg body app].
    apply prim_ident; [split_stops Hst; assumption|exact Href].
  Qed.
  Lemma All_qident : forall t n, All (MQIdent t n).
  Proof.
    intros t n. start_case. intros R HK. cbn [Kg] in HK. inversion HK; subst R. cbn [rg body app].
    apply prim_qident. split_stops Hst. assumption.
  Qed.
  Lemma All_num : forall s, All (MNum s).
  Proof. intros s. start_case. intros R HK. cbn [Kg] in HK. inversion HK; subst R. reflexivity. Qed.
  Lemma All_str : forall s, All (MStr s).
  Proof. intros s. start_case. intros R HK. cbn [Kg] in HK. inversion HK; subst R. reflexivity. Qed.
  Lemma All_ph : forall s, All (MPlaceholder s).
  Proof. intros s. start_case. intros R HK. cbn [Kg] in HK. inversion HK; subst R. reflexivity. Qed.
  Lemma All_null : All MNull.
  Proof. start_case. intros R HK. cbn [Kg] in HK. inversion HK; subst R. reflexivity. Qed.
  Lemma All_bool : forall b, All (MBool b).
  Proof. intros b. start_case. intros R HK. cbn [Kg] in HK. inversion HK; subst R. cbn [rg body app]. apply prim_bool. Qed.

  Lemma All_bin : forall op e1 e2, All e1 -> All e2 -> All (MBin op e1 e2).
  Proof.
    intros op e1 e2 IHe1 IHe2. start_case.
    apply andb_prop in Href; destruct Href as [Hr1 Hr2].
    destruct op; cbn [glevel level_of gl pre body bin_ctx fst snd bin_tok ast_of bin_str lit] in *.
    + bin_loop IHe1 IHe2 e1 e2 0.
    + bin_loop IHe1 IHe2 e1 e2 1.
    + (* comparison *)
      intros R HK. rewrite Kg_stop in HK by exact Hst. inversion HK; subst R. clear HK.
      rewrite <- app_assoc. cbn [app]. rewrite rg_step by lia.
      rewrite (use_child_direct e1 IHe1 4); [|assumption|side|side|destruct c; reflexivity|destruct c; reflexivity].
      cbn [bind fst snd Kg]. rewrite K2_cmpop by apply is_quantifier_head.
      change (r3 f d) with (rg (gl 4) f d).
      rewrite (use_child_direct e2 IHe2 4); [|assumption|side|side|stops_from Hst|stops_from Hst].
      reflexivity.
    + bin_loop IHe1 IHe2 e1 e2 4.
    + bin_loop IHe1 IHe2 e1 e2 5.
    + bin_loop IHe1 IHe2 e1 e2 5.
    + bin_loop IHe1 IHe2 e1 e2 6.
    + bin_loop IHe1 IHe2 e1 e2 6.
    + bin_loop IHe1 IHe2 e1 e2 6.
  Qed.

  Lemma All_not : forall e, All e -> All (MNot e).
  Proof.
    intros e IHe. start_case.
    apply (lift_down 5 2); [lia|reflexivity| |exact Hst].
    intros R HK. cbn [Kg] in HK. inversion HK; subst R. clear HK. cbn [rg plus body app].
    destruct f as [|f]; [side|].
    apply prim_not; [apply render_head_app|side|].
    apply (use_child_direct e IHe 2); [assumption|side|side|stops_from Hst|stops_from Hst].
  Qed.

  Lemma All_isnull : forall e neg, All e -> All (MIsNull e neg).
  Proof.
    intros e neg IHe. start_case.
    intros R HK. rewrite Kg_stop in HK by exact Hst. inversion HK; subst R. clear HK.
    cbn [body]. rewrite <- app_assoc. cbn [app]. rewrite <- app_assoc. cbn [app].
    rewrite rg_step by lia.
    rewrite (use_child_direct e IHe 4); [|assumption|side|side|reflexivity|reflexivity].
    cbn [bind fst snd Kg]. apply K2_is.
  Qed.

  Lemma All_in : forall e neg items, All e -> Forall All items -> All (MIn e neg items).
  Proof.
    intros e neg items IHe HAll. start_case.
    apply andb_prop in Href; destruct Href as [Href Hr3]. apply andb_prop in Href; destruct Href as [Hr1 Hr2].
    assert (Hne : items <> []) by (destruct items; [discriminate|discriminate]).
    intros R HK. rewrite Kg_stop in HK by exact Hst. inversion HK; subst R. clear HK.
    cbn [body]. repeat (rewrite <- app_assoc; cbn [app]).
    rewrite rg_step by lia.
    rewrite (use_child_direct e IHe 4); [|assumption|side; destruct neg; side|side|destruct neg; reflexivity|destruct neg; reflexivity].
    cbn [bind fst snd Kg]. rewrite K2_in.
    assert (Hhd : exists t tl, sep_by [tComma] (render_list render 0 rr 1 items) ++ tRP :: rest = t :: tl /\ starts t = true).
    { destruct items as [|x tl]; [contradiction|]. cbn [render_list].
      destruct (render_head x 0 (sub rr 1)) as (tk & tl0 & E & S1).
      destruct tl as [|y tl']; cbn [render_list sep_by]; rewrite E; eexists _, _; (split; [reflexivity|exact S1]). }
    destruct Hhd as (tk & tl0 & Ehd & Shd).
    rewrite Ehd. cbn [cur]. rewrite (starts_not tk TySelect Shd eq_refl), (starts_not tk TyWith Shd eq_refl). cbn [orb].
    rewrite <- Ehd.
    rewrite in_list_ok; [|exact HAll|exact Hr3|exact Hne| | |lia].
    + cbn [bind advance app]. reflexivity.
    + side.
    + side.
  Qed.

  Lemma All_between : forall e1 neg e2 e3, All e1 -> All e2 -> All e3 -> All (MBetween e1 neg e2 e3).
  Proof.
    intros e1 neg e2 e3 IHe1 IHe2 IHe3. start_case.
    apply andb_prop in Href; destruct Href as [Href Hr3]. apply andb_prop in Href; destruct Href as [Hr1 Hr2].
    intros R HK. rewrite Kg_stop in HK by exact Hst. inversion HK; subst R. clear HK.
    cbn [body]. repeat (rewrite <- app_assoc; cbn [app]).
    rewrite rg_step by lia.
    rewrite (use_child_direct e1 IHe1 4); [|assumption|side; destruct neg; side|side|destruct neg; reflexivity|destruct neg; reflexivity].
    cbn [bind fst snd Kg]. rewrite K2_between.
    change (r3 f d) with (rg (gl 4) f d).
    rewrite (use_child_direct e2 IHe2 4); [|assumption|side; destruct neg; side|side|reflexivity|reflexivity].
    cbn [rewrap bind cur advance]. cbn.
    rewrite (use_child_direct e3 IHe3 4); [|assumption|side; destruct neg; side|side|stops_from Hst|stops_from Hst].
    reflexivity.
  Qed.

  Lemma All_like : forall e1 neg ci e2, All e1 -> All e2 -> All (MLike e1 neg ci e2).
  Proof.
    intros e1 neg ci e2 IHe1 IHe2. start_case.
    apply andb_prop in Href; destruct Href as [Hr1 Hr2].
    intros R HK. rewrite Kg_stop in HK by exact Hst. inversion HK; subst R. clear HK.
    cbn [body]. repeat (rewrite <- app_assoc; cbn [app]).
    rewrite rg_step by lia.
    rewrite (use_child_direct e1 IHe1 4); [|assumption|side; destruct neg; side|side|destruct neg, ci; reflexivity|destruct neg, ci; reflexivity].
    cbn [bind fst snd Kg]. rewrite K2_like.
    change (r3 f d) with (rg (gl 4) f d).
    rewrite (use_child_direct e2 IHe2 4); [|assumption|side; destruct neg; side|side|stops_from Hst|stops_from Hst].
    reflexivity.
  Qed.

  (* e :: type, given that parseDataType reads the type name back *)
  Lemma All_castop_gen : forall e t, All e ->
      (forall rest, cont8 (cur rest) = false -> parse_data_type (type_toks t ++ rest) = Val (type_str t, rest)) ->
      All (MCastOp e t).
  Proof.
    intros e t IHe Hpdt. start_case.
    apply andb_prop in Href; destruct Href as [Hr1 Hr2].
    intros R HK. cbn [body]. rewrite <- app_assoc. cbn [app].
    apply (use_child e IHe 7); [assumption|side|side|reflexivity|].
    cbn [gl Kg ast_of] in *. unfold K6, json_tail, cast_loop in *.
    destruct (chain (fun t0 => isT t0 TyDoubleColon) cast_step (S (length rest)) (GCast (ast_of e) (type_str t)) rest)
      as [[l ts]| | | |] eqn:E; cbn [bind] in HK; try discriminate.
    cbn [chain cur]. cbn [isT ty tty_eqb tty_code N.eqb Pos.eqb]. unfold cast_step at 1. cbn [advance].
    rewrite Hpdt; [|split_stops Hst; assumption]. cbn [bind].
    erewrite chain_mono; [|exact E|side].
    cbn [bind]. exact HK.
  Qed.

  Lemma All_castop_simple : forall e t, All e -> targs t = [] -> All (MCastOp e t).
  Proof. intros e t IHe Ha. apply All_castop_gen; [exact IHe|]. intros rest Hc. apply pdt_simple; assumption. Qed.

  Lemma All_cast_simple : forall e t, All e -> targs t = [] -> All (MCast e t).
  Proof.
    intros e t IHe Ha. start_case.
    apply andb_prop in Href; destruct Href as [Hr1 Hr2].
    intros R HK. cbn [Kg] in HK. inversion HK; subst R. clear HK. cbn [rg body ast_of].
    cbn [app]. repeat (rewrite <- app_assoc; cbn [app]).
    destruct f as [|f]; [side|].
    apply prim_cast; [side|exact Ha|].
    apply (use_child_direct e IHe 0); [assumption|side|side|reflexivity|reflexivity].
  Qed.

  Theorem all_exprs : forall e, proved e = true -> All e.
  Proof.
    induction e using mexpr_ind2; intros Hp; cbn [proved] in Hp; try discriminate.
    - apply All_ident.
    - apply All_qident.
    - apply All_num.
    - apply All_str.
    - apply All_ph.
    - apply All_null.
    - apply All_bool.
    - apply andb_prop in Hp; destruct Hp as [Hp1 Hp2]. apply All_bin; auto.
    - apply All_not; auto.
    - apply All_isnull; auto.
    - apply andb_prop in Hp; destruct Hp as [Hp1 Hp2]. apply All_in; [auto|].
      rewrite Forall_forall in *. intros x Hx. apply H; [exact Hx|]. rewrite forallb_forall in Hp2. apply Hp2. exact Hx.
    - apply andb_prop in Hp; destruct Hp as [Hp Hp3]. apply andb_prop in Hp; destruct Hp as [Hp1 Hp2]. apply All_between; auto.
    - apply andb_prop in Hp; destruct Hp as [Hp1 Hp2]. apply All_like; auto.
    - apply andb_prop in Hp; destruct Hp as [Hp1 Hp2]. apply All_castop_simple; [auto|].
      destruct (targs t); [reflexivity|discriminate].
    - apply andb_prop in Hp; destruct Hp as [Hp1 Hp2]. apply All_cast_simple; [auto|].
      destruct (targs t); [reflexivity|discriminate].
  Qed.
End Main.

(* ------------------------------------------------------------------------------------------------ *)
(* the property theorem, for the proved sub-surface *)

Lemma follow_ok_cur : forall stop, follow_ok stop -> stops 0 (cur stop) = true.
Proof. intros stop (t & rest & E & H). subst stop. exact H. Qed.

Theorem parse_render_expr_partial :
  forall md e (r : rho) stop d fuel,
    proved e = true -> ref_expr e = true -> follow_ok stop ->
    d + 1 + pdepth 0 r e <= md ->
    length (render 0 r e ++ stop) < fuel ->
    parse_expression md no_defects fuel d (render 0 r e ++ stop) = Val (ast_of e, stop).
Proof.
  intros md e r stop d fuel Hp Href Hfo Hdep Hlen.
  apply follow_ok_cur in Hfo.
  destruct fuel as [|f]; [lia|].
  change (parse_expression md no_defects (S f) d) with (PE md (S f) d). rewrite PE_S. unfold expr_body.
  destruct (Nat.ltb_spec md (S d)); [lia|].
  apply (use_child_direct md e (all_exprs md e Hp) 0); [assumption|lia|lia| |exact Hfo].
  eapply stops_mono; [|exact Hfo]. cbn. lia.
Qed.

(* the end of input is an admissible follow: the EOF token *)
Example follow_eof : follow_ok [Tk TyEOF ""].
Proof. eexists _, _. split; reflexivity. Qed.

(* defect switches: with either switch on (the pinned tree before commits 2878c66 / 4ec0acf) the statement
   is false; witnesses  a = b + 1  and  a LIKE 'x' || 'y' *)
Definition w_cmp : mexpr := MBin (BCmp CEq) (MIdent false "a") (MBin BAdd (MIdent false "b") (MNum "1")).
Definition w_like : mexpr := MLike (MIdent false "a") false false (MBin BConcat (MStr "x") (MStr "y")).

Theorem parse_render_expr_refuted_cmp_rhs_primary :
  exists e r stop, proved e = true /\ ref_expr e = true /\ follow_ok stop /\
    parse_expression 100 (DFlags true false) 100 0 (render 0 r e ++ stop) <> Val (ast_of e, stop).
Proof.
  exists w_cmp, no_parens, [Tk TyEOF ""]. repeat split; try reflexivity; [apply follow_eof|].
  vm_compute. discriminate.
Qed.

Theorem parse_render_expr_refuted_like_primary :
  exists e r stop, proved e = true /\ ref_expr e = true /\ follow_ok stop /\
    parse_expression 100 (DFlags false true) 100 0 (render 0 r e ++ stop) <> Val (ast_of e, stop).
Proof.
  exists w_like, no_parens, [Tk TyEOF ""]. repeat split; try reflexivity; [apply follow_eof|].
  vm_compute. discriminate.
Qed.

(* non-vacuity: the mixed-precedence example of Spec/RefGrammar.v is in the proved sub-surface, within the
   depth limit, and the theorem instance computes *)
Example ex_mixed_proved : proved ex_mixed = true. Proof. reflexivity. Qed.
Example ex_mixed_depth : 0 + 1 + pdepth 0 no_parens ex_mixed <= 100. Proof. vm_compute. lia. Qed.
Example ex_mixed_parse :
  parse_expr_top no_defects 0 (render 0 no_parens ex_mixed ++ [Tk TyEOF ""]) = Val (ast_of ex_mixed, [Tk TyEOF ""]).
Proof. vm_compute. reflexivity. Qed.
