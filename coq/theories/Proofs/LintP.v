(* LintP.v — lemmas about the lint model (Model/Lint.v). *)
From Coq Require Import List NArith Bool Arith Lia.
From GV Require Import Model.Lint.
Import ListNotations.
Local Open Scope N_scope.

(* ------------------------------------------------------------------------------------------------ *)
(* newline, split, join *)

Lemma is_nl_eq : forall c, is_nl c = true -> c = nlc.
Proof.
  intros [p r v]. unfold is_nl, nlc, asc. cbn [cp raw valid]. intro H.
  apply andb_prop in H. destruct H as [H H3]. apply andb_prop in H. destruct H as [H1 H2].
  apply N.eqb_eq in H1. subst p. subst v.
  destruct r as [|b [|? ?]]; try discriminate. apply N.eqb_eq in H3. subst b. reflexivity.
Qed.

Lemma is_nl_nlc : is_nl nlc = true.
Proof. reflexivity. Qed.


Definition no_nl (l : list ch) : Prop := forall c, In c l -> is_nl c = false.

Lemma split_nonempty : forall l, split_nl l <> [].
Proof.
  induction l as [|c t IH]; cbn [split_nl]; try discriminate.
  destruct (is_nl c); try discriminate. destruct (split_nl t); discriminate.
Qed.

Lemma split_cons_other : forall c t, is_nl c = false ->
  exists h r, split_nl t = h :: r /\ split_nl (c :: t) = (c :: h) :: r.
Proof.
  intros c t H. cbn [split_nl]. rewrite H. destruct (split_nl t) as [|h r] eqn:E.
  - exfalso. exact (split_nonempty t E).
  - exists h, r. split; reflexivity.
Qed.

Lemma join_cons2 : forall x y r, join_nl (x :: y :: r) = x ++ nlc :: join_nl (y :: r).
Proof. reflexivity. Qed.

Lemma join_cons_ne : forall x r, r <> [] -> join_nl (x :: r) = x ++ nlc :: join_nl r.
Proof. intros x [|y r] H; [contradiction|reflexivity]. Qed.

Lemma join_split : forall l, join_nl (split_nl l) = l.
Proof.
  induction l as [|c t IH]; [reflexivity|].
  destruct (is_nl c) eqn:E.
  - cbn [split_nl]. rewrite E. rewrite join_cons_ne by apply split_nonempty.
    rewrite IH. cbn. f_equal. symmetry. apply is_nl_eq. exact E.
  - destruct (split_cons_other c t E) as (h & r & E1 & E2). rewrite E2. rewrite E1 in IH.
    destruct r as [|y r]; cbn [join_nl] in *.
    + subst. reflexivity.
    + rewrite <- IH. reflexivity.
Qed.

Lemma split_app_line : forall x t, no_nl x -> split_nl (x ++ nlc :: t) = x :: split_nl t.
Proof.
  induction x as [|c x IH]; intros t H.
  - reflexivity.
  - assert (Hc : is_nl c = false) by (apply H; left; reflexivity).
    assert (Hx : no_nl x) by (intros d Hd; apply H; right; exact Hd).
    change ((c :: x) ++ nlc :: t) with (c :: (x ++ nlc :: t)).
    cbn [split_nl]. rewrite Hc. rewrite (IH t Hx). reflexivity.
Qed.

Lemma split_single : forall x, no_nl x -> split_nl x = [x].
Proof.
  induction x as [|c x IH]; intro H; [reflexivity|].
  assert (Hc : is_nl c = false) by (apply H; left; reflexivity).
  cbn [split_nl]. rewrite Hc. rewrite IH; [reflexivity|]. intros d Hd. apply H. right. exact Hd.
Qed.

Lemma split_join : forall ls, ls <> [] -> Forall no_nl ls -> split_nl (join_nl ls) = ls.
Proof.
  induction ls as [|x r IH]; intros Hne Hall; [contradiction|].
  inversion Hall as [|? ? Hx Hr]; subst.
  destruct r as [|y r].
  - cbn [join_nl]. apply split_single. exact Hx.
  - rewrite join_cons2. rewrite split_app_line by exact Hx. f_equal. apply IH; [discriminate|exact Hr].
Qed.

Lemma split_no_nl : forall l, Forall no_nl (split_nl l).
Proof.
  induction l as [|c t IH].
  - constructor; [intros c []|constructor].
  - destruct (is_nl c) eqn:E.
    + cbn [split_nl]. rewrite E. constructor; [intros d []|exact IH].
    + destruct (split_cons_other c t E) as (h & r & E1 & E2). rewrite E2. rewrite E1 in IH.
      inversion IH as [|? ? Hh Hr]; subst. constructor; [|exact Hr].
      intros d [Hd|Hd]; [subst; exact E|apply Hh; exact Hd].
Qed.

Lemma map_ne : forall {A B} (f : A -> B) l, l <> [] -> map f l <> [].
Proof. intros A B f [|x l] H; [contradiction|discriminate]. Qed.


(* ------------------------------------------------------------------------------------------------ *)
(* trimming and list facts *)

Lemma trim_r_nil_iff : forall {A} (p : A -> bool) l, trim_r p l = [] <-> forallb p l = true.
Proof.
  intros A p. induction l as [|c t IH]; cbn [trim_r forallb]; [tauto|].
  destruct (trim_r p t) eqn:E.
  - destruct (p c); cbn; split; intro H; try discriminate; try reflexivity; apply IH; auto.
  - split; intro H; [discriminate|]. apply andb_prop in H. destruct H as [_ H]. apply IH in H. discriminate.
Qed.

Lemma trim_r_cons_ne : forall {A} (p : A -> bool) c t, trim_r p t <> [] -> trim_r p (c :: t) = c :: trim_r p t.
Proof. intros A p c t H. cbn [trim_r]. destruct (trim_r p t); [contradiction|reflexivity]. Qed.

Lemma trim_r_idem : forall {A} (p : A -> bool) l, trim_r p (trim_r p l) = trim_r p l.
Proof.
  intros A p. induction l as [|c t IH]; [reflexivity|].
  cbn [trim_r]. destruct (trim_r p t) as [|d t'] eqn:E.
  - destruct (p c) eqn:Ep; [reflexivity|]. cbn [trim_r]. rewrite Ep. reflexivity.
  - rewrite trim_r_cons_ne; [rewrite IH; reflexivity|]. rewrite IH. discriminate.
Qed.

Lemma trim_r_incl : forall {A} (p : A -> bool) l x, In x (trim_r p l) -> In x l.
Proof.
  intros A p. induction l as [|c t IH]; intros x H; [exact H|].
  cbn [trim_r] in H. destruct (trim_r p t) as [|d t'] eqn:E.
  - destruct (p c); [destruct H|]. destruct H as [H|[]]. left. exact H.
  - destruct H as [H|H]; [left; exact H|right; apply IH; exact H].
Qed.

Lemma trim_l_incl : forall {A} (p : A -> bool) l x, In x (trim_l p l) -> In x l.
Proof.
  intros A p. induction l as [|c t IH]; intros x H; [exact H|].
  cbn [trim_l] in H. destruct (p c); [right; apply IH; exact H|exact H].
Qed.

Lemma take_l_incl : forall {A} (p : A -> bool) l x, In x (take_l p l) -> In x l.
Proof.
  intros A p. induction l as [|c t IH]; intros x H; [exact H|].
  cbn [take_l] in H. destruct (p c); [|destruct H]. destruct H as [H|H]; [left; exact H|right; apply IH; exact H].
Qed.

Lemma take_trim_l : forall {A} (p : A -> bool) l, take_l p l ++ trim_l p l = l.
Proof.
  intros A p. induction l as [|c t IH]; [reflexivity|]. cbn [take_l trim_l].
  destruct (p c); [cbn; f_equal; exact IH|reflexivity].
Qed.

Lemma take_l_all : forall {A} (p : A -> bool) l, forallb p (take_l p l) = true.
Proof.
  intros A p. induction l as [|c t IH]; [reflexivity|]. cbn [take_l].
  destruct (p c) eqn:E; [cbn; rewrite E; exact IH|reflexivity].
Qed.

Lemma trim_l_head : forall {A} (p : A -> bool) l c t, trim_l p l = c :: t -> p c = false.
Proof.
  intros A p. induction l as [|d r IH]; intros c t H; [discriminate|]. cbn [trim_l] in H.
  destruct (p d) eqn:E; [eapply IH; exact H|]. inversion H; subst. exact E.
Qed.

Lemma trim_l_nil_iff : forall {A} (p : A -> bool) l, trim_l p l = [] <-> forallb p l = true.
Proof.
  intros A p. induction l as [|c t IH]; cbn [trim_l forallb]; [tauto|].
  destruct (p c); cbn; [exact IH|split; discriminate].
Qed.

Lemma take_l_app_all : forall {A} (p : A -> bool) a b, forallb p a = true -> take_l p (a ++ b) = a ++ take_l p b.
Proof.
  intros A p. induction a as [|c a IH]; intros b H; [reflexivity|]. cbn in H. apply andb_prop in H. destruct H as [H1 H2].
  cbn. rewrite H1. f_equal. apply IH. exact H2.
Qed.

Lemma trim_l_app_all : forall {A} (p : A -> bool) a b, forallb p a = true -> trim_l p (a ++ b) = trim_l p b.
Proof.
  intros A p. induction a as [|c a IH]; intros b H; [reflexivity|]. cbn in H. apply andb_prop in H. destruct H as [H1 H2].
  cbn. rewrite H1. apply IH. exact H2.
Qed.

Lemma take_l_stop : forall {A} (p : A -> bool) c t, p c = false -> take_l p (c :: t) = [].
Proof. intros. cbn. rewrite H. reflexivity. Qed.

Lemma trim_l_stop : forall {A} (p : A -> bool) c t, p c = false -> trim_l p (c :: t) = c :: t.
Proof. intros. cbn. rewrite H. reflexivity. Qed.

Lemma take_l_of_trim_l : forall {A} (p : A -> bool) l, take_l p (trim_l p l) = [].
Proof.
  intros A p l. destruct (trim_l p l) as [|c t] eqn:E; [reflexivity|].
  apply take_l_stop. eapply trim_l_head. exact E.
Qed.

Lemma trim_l_idem : forall {A} (p : A -> bool) l, trim_l p (trim_l p l) = trim_l p l.
Proof.
  intros A p l. destruct (trim_l p l) as [|c t] eqn:E; [reflexivity|].
  apply trim_l_stop. eapply trim_l_head. exact E.
Qed.

Lemma forallb_flat_map : forall {A B} (p : B -> bool) (f : A -> list B) l,
  (forall x, In x l -> forallb p (f x) = true) -> forallb p (flat_map f l) = true.
Proof.
  intros A B p f. induction l as [|c t IH]; intro H; [reflexivity|]. cbn. rewrite forallb_app.
  rewrite H by (left; reflexivity). apply IH. intros x Hx. apply H. right. exact Hx.
Qed.

Lemma trim_r_cons : forall {A} (p : A -> bool) c t,
  trim_r p (c :: t) = match trim_r p t with [] => if p c then [] else [c] | t' => c :: t' end.
Proof. reflexivity. Qed.

Lemma trim_r_split : forall {A} (p : A -> bool) l, exists b, l = trim_r p l ++ b /\ forallb p b = true.
Proof.
  intros A p. induction l as [|c t (b & E & Hb)].
  - exists []. split; reflexivity.
  - rewrite trim_r_cons. destruct (trim_r p t) as [|a r] eqn:Et.
    + destruct (p c) eqn:Ec.
      * exists (c :: t). split; [reflexivity|]. cbn. rewrite Ec. cbn in E. subst. exact Hb.
      * exists b. split; [cbn in *; rewrite <- E; reflexivity|exact Hb].
    + exists b. split; [rewrite E at 1; reflexivity|exact Hb].
Qed.

Lemma split_incl : forall t l c, In l (split_nl t) -> In c l -> In c t.
Proof.
  induction t as [|d t IH]; intros l c Hl Hc.
  - cbn in Hl. destruct Hl as [Hl|[]]. subst. destruct Hc.
  - destruct (is_nl d) eqn:E.
    + cbn [split_nl] in Hl. rewrite E in Hl. destruct Hl as [Hl|Hl]; [subst; destruct Hc|right; eapply IH; eassumption].
    + destruct (split_cons_other d t E) as (h & r & E1 & E2). rewrite E2 in Hl. destruct Hl as [Hl|Hl].
      * subst. destruct Hc as [Hc|Hc]; [left; exact Hc|right]. eapply IH; [rewrite E1; left; reflexivity|exact Hc].
      * right. eapply IH; [rewrite E1; right; exact Hl|exact Hc].
Qed.

Lemma lastc_cons : forall {A} (c : A) t, t <> [] -> lastc (c :: t) = lastc t.
Proof. intros A c [|d t] H; [contradiction|reflexivity]. Qed.

Lemma lastc_app : forall {A} (a b : list A), b <> [] -> lastc (a ++ b) = lastc b.
Proof.
  intros A. induction a as [|c a IH]; intros b H; [reflexivity|].
  change ((c :: a) ++ b) with (c :: (a ++ b)). rewrite lastc_cons; [apply IH; exact H|].
  destruct a; [exact H|discriminate].
Qed.

Lemma lastc_trim_r : forall {A} (p : A -> bool) l c, lastc (trim_r p l) = Some c -> p c = false.
Proof.
  intros A p. induction l as [|d t IH]; intros c H; [discriminate|].
  cbn [trim_r] in H. destruct (trim_r p t) as [|e t'] eqn:E.
  - destruct (p d) eqn:Ed; [discriminate|]. inversion H; subst. exact Ed.
  - rewrite lastc_cons in H by discriminate. apply IH. exact H.
Qed.

Lemma lastc_in : forall {A} (l : list A) c, lastc l = Some c -> In c l.
Proof.
  intros A. induction l as [|d [|e t] IH]; intros c H; [discriminate|inversion H; left; reflexivity|].
  right. apply IH. exact H.
Qed.

Lemma lastc_none : forall {A} (l : list A), lastc l = None -> l = [].
Proof.
  intros A. induction l as [|c t IH]; intro H; [reflexivity|]. destruct t as [|d t]; [discriminate|].
  rewrite lastc_cons in H by discriminate. apply IH in H. discriminate.
Qed.

Lemma blen_cons : forall c t, blen (c :: t) = (width c + blen t)%nat.
Proof. reflexivity. Qed.

Lemma blen_app : forall a b, blen (a ++ b) = (blen a + blen b)%nat.
Proof. induction a as [|c a IH]; intro b; [reflexivity|]. cbn [app]. rewrite !blen_cons, IH. lia. Qed.

Lemma assoc_in : forall m x v, assoc m x = Some v -> In (x, v) m.
Proof.
  induction m as [|[k w] m IH]; intros x v H; [discriminate|]. cbn [assoc] in H.
  destruct (k =? x) eqn:E; [apply N.eqb_eq in E; inversion H; subst; left; reflexivity|right; apply IH; exact H].
Qed.

Lemma forallb_firstn : forall {A} (p : A -> bool) l n, forallb p l = true -> forallb p (firstn n l) = true.
Proof.
  intros A p. induction l as [|x l IH]; intros n H; [destruct n; reflexivity|]. destruct n as [|n]; [reflexivity|].
  cbn in *. apply andb_prop in H. destruct H as [H1 H2]. rewrite H1. cbn. apply IH. exact H2.
Qed.

Lemma firstn_app_le : forall {A} (a b : list A) n, (n <= length a)%nat -> firstn n (a ++ b) = firstn n a.
Proof. intros A a b n H. rewrite firstn_app. replace (n - length a)%nat with 0%nat by lia. cbn [firstn]. apply app_nil_r. Qed.


Lemma lastc_some_in : forall {A} (l : list A), l <> [] -> exists x, lastc l = Some x.
Proof.
  intros A. induction l as [|c t IH]; intro H; [contradiction|]. destruct t as [|d t]; [exists c; reflexivity|].
  rewrite lastc_cons by discriminate. apply IH. discriminate.
Qed.

(* ------------------------------------------------------------------------------------------------ *)
(* the lexical scanner *)

Section Ids.
(* the characters that start / continue the tag of a dollar-quoted string (parameters of the scanner) *)
Variables ids idc : N -> bool.
(* the line break, the space and the tab do not continue a tag *)
Definition id_ok : Prop := idc 10 = false /\ idc 32 = false /\ idc 9 = false.
Hypothesis Hid : id_ok.

Notation scan_tag := (scan_tag idc).
Notation dollar_tag := (dollar_tag ids idc).
Notation lstep := (lstep ids idc).
Notation lex := (lex ids idc).
Notation lex_end := (lex_end ids idc).
Notation ctext := (ctext ids idc).
Notation clines := (clines ids idc).
Notation per_cline := (per_cline ids idc).
Notation l001_fix := (l001_fix ids idc).
Notation l001_check := (l001_check ids idc).
Notation l002_fix := (l002_fix ids idc).
Notation l002_check := (l002_check ids idc).
Notation l003_fix_mx := (l003_fix_mx ids idc).
Notation l003_fix := (l003_fix ids idc).
Notation l003_check_mx := (l003_check_mx ids idc).
Notation l003_check := (l003_check ids idc).
Notation l005_check := (l005_check ids idc).
Notation l010_fix := (l010_fix ids idc).
Notation l010_check := (l010_check ids idc).
Notation l007_fix := (l007_fix ids idc).
Notation l007_check := (l007_check ids idc).
Notation cli_fix := (cli_fix ids idc).
Notation format_sql := (format_sql ids idc).
Notation reading := (reading ids idc).

(* what the scanner sees of the characters that follow: a second '-', a '*' or a '/', a quote of the apostrophe kind, two
   apostrophes, the tag of a dollar-quoted string *)
Definition la_eq (nx nx' : list ch) : Prop :=
  next_is 45 nx = next_is 45 nx' /\ next_is 42 nx = next_is 42 nx' /\ next_is 47 nx = next_is 47 nx' /\
  next_is 39 nx = next_is 39 nx' /\ next_q39 nx = next_q39 nx' /\ next2_39 nx = next2_39 nx' /\
  scan_tag nx = scan_tag nx' /\ dollar_tag nx = dollar_tag nx'.
(* a character at which every look-ahead stops, as at the end of the text *)
Definition lan0 (c : ch) : bool := negb (cp c =? 45) && negb (cp c =? 42) && negb (cp c =? 47).
Definition lan (c : ch) : bool := lan0 c && negb (nq (cp c) =? 39) && negb (cp c =? 36) && negb (idc (cp c)).

Lemma la_eq_refl : forall nx, la_eq nx nx.
Proof. intro nx. repeat split. Qed.
Lemma la_sym : forall a b, la_eq a b -> la_eq b a.
Proof. intros a b (H1 & H2 & H3 & H4 & H5 & H6 & H7 & H8). repeat split; symmetry; assumption. Qed.
Lemma la_trans : forall a b c, la_eq a b -> la_eq b c -> la_eq a c.
Proof.
  intros a b c (H1 & H2 & H3 & H4 & H5 & H6 & H7 & H8) (G1 & G2 & G3 & G4 & G5 & G6 & G7 & G8).
  repeat split; etransitivity; eassumption.
Qed.

Lemma lstep_nx : forall st c nx nx', la_eq nx nx' -> lstep st c nx = lstep st c nx'.
Proof.
  intros st c nx nx' (H1 & H2 & H3 & H4 & H5 & H6 & H7 & H8). destruct st; cbn [Lint.lstep]; rewrite ?H1, ?H2, ?H3, ?H5, ?H6, ?H8; reflexivity.
Qed.

Lemma nq_39 : forall n, n = 39 -> nq n = 39.
Proof. intros n H. subst. reflexivity. Qed.

Lemma lan_spec : forall c, lan c = true ->
  (cp c =? 45) = false /\ (cp c =? 42) = false /\ (cp c =? 47) = false /\ (nq (cp c) =? 39) = false /\ (cp c =? 39) = false /\
  (cp c =? 36) = false /\ idc (cp c) = false.
Proof.
  intros c H. unfold lan, lan0 in H. rewrite !andb_true_iff, !negb_true_iff in H.
  destruct H as [[[[[A B] C] Q] D] I]. repeat split; try assumption.
  destruct (cp c =? 39) eqn:E; [|reflexivity]. apply N.eqb_eq in E. rewrite (nq_39 _ E) in Q. discriminate.
Qed.

Lemma la_neutral : forall c r, lan c = true -> la_eq (c :: r) [].
Proof.
  intros c r H. destruct (lan_spec c H) as (A1 & A2 & A3 & A4 & A5 & A6 & A7).
  unfold la_eq. cbn [next_is next_q39 Lint.scan_tag Lint.dollar_tag]. rewrite A1, A2, A3, A4, A5, A6, A7.
  repeat split.
  - unfold next2_39. rewrite A5. destruct r; reflexivity.
  - destruct (false || ids (cp c)); reflexivity.
Qed.

Lemma next2_cons : forall c r, next2_39 (c :: r) = (cp c =? 39) && next_is 39 r.
Proof. intros c [|d r]; cbn [next2_39 next_is]; [rewrite andb_false_r|]; reflexivity. Qed.

Lemma la_cons : forall c r r', la_eq r r' -> la_eq (c :: r) (c :: r').
Proof.
  intros c r r' (H1 & H2 & H3 & H4 & H5 & H6 & H7 & H8). unfold la_eq. rewrite !next2_cons, H4.
  cbn [next_is next_q39 Lint.scan_tag Lint.dollar_tag]. rewrite H7. repeat split.
Qed.

Definition hd_neutral (b : list ch) : bool := match b with c :: _ => lan c | [] => true end.

Lemma la_app : forall t b, hd_neutral b = true -> la_eq (t ++ b) t.
Proof.
  induction t as [|d t IH]; intros b H; cbn [app].
  - destruct b as [|c b]; [apply la_eq_refl|]. apply la_neutral. exact H.
  - apply la_cons. apply IH. exact H.
Qed.

Lemma la_neutral_heads : forall c d t t', lan c = true -> lan d = true -> la_eq (c :: t) (d :: t').
Proof. intros c d t t' Hc Hd. eapply la_trans; [apply la_neutral; exact Hc|apply la_sym; apply la_neutral; exact Hd]. Qed.

Lemma lex_app : forall a st b, hd_neutral b = true ->
  lex st (a ++ b) = lex st a ++ lex (lex_end st a) b /\ lex_end st (a ++ b) = lex_end (lex_end st a) b.
Proof.
  induction a as [|c t IH]; intros st b H; [split; reflexivity|].
  cbn [app Lint.lex Lint.lex_end]. rewrite (lstep_nx st c (t ++ b) t (la_app t b H)).
  destruct (IH (snd (lstep st c t)) b H) as [E1 E2]. rewrite E1, E2. split; reflexivity.
Qed.

Lemma lex_length : forall l st, length (lex st l) = length l.
Proof. induction l as [|c t IH]; intro st; [reflexivity|]. cbn [Lint.lex length]. rewrite IH. reflexivity. Qed.

(* the line break *)
Definition nl_step (st : lst) : N * lst := lstep st nlc [].
Lemma lstep_nlc : forall st nx, lstep st nlc nx = nl_step st.
Proof.
  intros st nx. unfold nl_step. destruct st; try reflexivity.
  cbn [Lint.lstep]. change (nq (cp nlc)) with 10. destruct (10 =? q) eqn:E; [|reflexivity].
  apply N.eqb_eq in E. subst q. reflexivity.
Qed.
Lemma lan_nlc : lan nlc = true.
Proof. destruct Hid as (H & _). unfold lan, lan0. change (cp nlc) with 10. rewrite H. reflexivity. Qed.

Lemma lex_app_nl : forall l st r,
  lex st (l ++ nlc :: r) = lex st l ++ fst (nl_step (lex_end st l)) :: lex (snd (nl_step (lex_end st l))) r /\
  lex_end st (l ++ nlc :: r) = lex_end (snd (nl_step (lex_end st l))) r.
Proof.
  intros l st r. destruct (lex_app l st (nlc :: r) lan_nlc) as [E1 E2]. rewrite E1, E2.
  cbn [Lint.lex Lint.lex_end]. rewrite lstep_nlc. split; reflexivity.
Qed.

(* after a line break of class code the scanner is in code *)
Lemma nl_step_code : forall st, (fst (nl_step st) =? 0) = true -> snd (nl_step st) = SCode.
Proof.
  intros st H. unfold nl_step in *. destruct st; try reflexivity; try discriminate H.
  cbn [Lint.lstep] in H. change (nq (cp nlc)) with 10 in H.
  destruct (10 =? q); [destruct ((q =? 39) && next_q39 [])|]; discriminate H.
Qed.

(* characters that are neither delimiters nor the line break *)
Lemma nq_other : forall n, (n =? 8216) = false -> (n =? 8217) = false -> (n =? 171) = false -> (n =? 187) = false ->
  (n =? 8220) = false -> (n =? 8221) = false -> nq n = n.
Proof. intros n H1 H2 H3 H4 H5 H6. unfold nq. rewrite H1, H2, H3, H4, H5, H6. reflexivity. Qed.

(* white space characters are not delimiters of the scanner and do not continue a tag *)
Definition sp_ok (is_space : N -> bool) : Prop :=
  is_space 39 = false /\ is_space 34 = false /\ is_space 96 = false /\
  is_space 45 = false /\ is_space 42 = false /\ is_space 47 = false /\
  is_space 8216 = false /\ is_space 8217 = false /\ is_space 171 = false /\ is_space 187 = false /\
  is_space 8220 = false /\ is_space 8221 = false /\ is_space 36 = false /\
  (forall n, is_space n = true -> idc n = false).

(* a character the scanner reads without looking ahead, as code in code and as comment in a -- comment *)
Definition plainc (c : ch) : bool := negb (is_quote c) && lan0 c && negb (is_nl c) && negb (cp c =? 36).

Lemma plainc_spec : forall c, plainc c = true ->
  is_quote c = false /\ (cp c =? 45) = false /\ (cp c =? 42) = false /\ (cp c =? 47) = false /\ is_nl c = false /\ (cp c =? 36) = false.
Proof.
  intros c H. unfold plainc, lan0 in H. rewrite !andb_true_iff, !negb_true_iff in H.
  destruct H as [[[Q [[A B] C]] D] E]. repeat split; assumption.
Qed.

Lemma quote_39 : forall c, is_quote c = false -> (cp c =? 39) = false /\ (nq (cp c) =? 39) = false.
Proof.
  intros c H. unfold is_quote in H. apply orb_false_elim in H. destruct H as [H _]. apply orb_false_elim in H. destruct H as [H _].
  split; [|exact H]. destruct (cp c =? 39) eqn:E; [|reflexivity]. apply N.eqb_eq in E. rewrite (nq_39 _ E) in H. discriminate.
Qed.

Lemma lstep_plain_code : forall c nx, plainc c = true -> lstep SCode c nx = (0, SCode).
Proof.
  intros c nx H. destruct (plainc_spec c H) as (Q & A & _ & B & _ & D). destruct (quote_39 c Q) as [Q1 _].
  cbn [Lint.lstep]. rewrite Q, Q1, A, B, D. reflexivity.
Qed.
Lemma lstep_plain_line : forall c nx, plainc c = true -> lstep SLine c nx = (3, SLine).
Proof.
  intros c nx H. destruct (plainc_spec c H) as (_ & _ & _ & _ & Hn & _).
  cbn [Lint.lstep]. rewrite Hn. reflexivity.
Qed.

Lemma quote_nq : forall c q, is_quote c = false -> (q = 39 \/ q = 34 \/ q = 96) -> (nq (cp c) =? q) = false.
Proof.
  intros c q H Hq. unfold is_quote in H. apply orb_false_elim in H. destruct H as [H H3]. apply orb_false_elim in H. destruct H as [H1 H2].
  destruct Hq as [Hq|[Hq|Hq]]; subst q; try assumption.
  destruct (nq (cp c) =? 96) eqn:E; [|reflexivity]. apply N.eqb_eq in E.
  assert (cp c = 96).
  { unfold nq in E. destruct ((cp c =? 8216) || (cp c =? 8217) || (cp c =? 171) || (cp c =? 187)); [discriminate|].
    destruct ((cp c =? 8220) || (cp c =? 8221)); [discriminate|exact E]. }
  apply N.eqb_neq in H3. contradiction.
Qed.

(* a character of class 0 (other than the line break) is read in code and leaves the scanner in code;
   a character of class 3 that is not a '-' is read inside a line comment *)
Lemma lstep_class0 : forall st c nx, is_nl c = false -> fst (lstep st c nx) = 0 -> st = SCode /\ snd (lstep st c nx) = SCode.
Proof.
  intros st c nx Hn H. destruct st; cbn [Lint.lstep] in *; try discriminate.
  - destruct ((cp c =? 39) && next2_39 nx); [discriminate|]. destruct (is_quote c); [discriminate|].
    destruct ((cp c =? 45) && next_is 45 nx); [discriminate|].
    destruct ((cp c =? 47) && next_is 42 nx); [discriminate|].
    destruct (cp c =? 36); [destruct (dollar_tag nx); [discriminate|]|]; split; reflexivity.
  - destruct (nq (cp c) =? q); [destruct ((q =? 39) && next_q39 nx)|]; discriminate.
  - rewrite Hn in H. discriminate.
  - destruct ((cp c =? 42) && next_is 47 nx); discriminate.
Qed.
Lemma lstep_class3 : forall st c nx, (cp c =? 45) = false -> fst (lstep st c nx) = 3 -> st = SLine /\ snd (lstep st c nx) = SLine.
Proof.
  intros st c nx Hd H. destruct st; cbn [Lint.lstep] in *; try discriminate.
  - destruct ((cp c =? 39) && next2_39 nx); [discriminate|]. destruct (is_quote c); [discriminate|]. rewrite Hd in H. cbn [andb] in H.
    destruct ((cp c =? 47) && next_is 42 nx); [discriminate|].
    destruct (cp c =? 36); [destruct (dollar_tag nx)|]; discriminate.
  - destruct (nq (cp c) =? q); [destruct ((q =? 39) && next_q39 nx)|]; discriminate.
  - destruct (is_nl c); [discriminate|]. split; reflexivity.
  - destruct ((cp c =? 42) && next_is 47 nx); discriminate.
Qed.

Lemma blank_plain : forall c, is_blank c = true -> plainc c = true.
Proof.
  intros c H. unfold is_blank, is_sp, is_tab in H. unfold plainc, is_quote, lan0, is_nl.
  apply orb_prop in H. destruct H as [H|H]; apply N.eqb_eq in H; rewrite H; reflexivity.
Qed.
Lemma blank_not45 : forall c, is_blank c = true -> (cp c =? 45) = false.
Proof.
  intros c H. unfold is_blank, is_sp, is_tab in H. apply orb_prop in H. destruct H as [H|H]; apply N.eqb_eq in H; rewrite H; reflexivity.
Qed.
(* a plain character that does not continue a tag stops every look-ahead *)
Lemma plain_lan : forall c, plainc c = true -> idc (cp c) = false -> lan c = true.
Proof.
  intros c H Hi. destruct (plainc_spec c H) as (Q & A & B & C & _ & D). destruct (quote_39 c Q) as [_ Q2].
  unfold lan, lan0. rewrite A, B, C, Q2, D, Hi. reflexivity.
Qed.
Lemma blank_lan : forall c, is_blank c = true -> lan c = true.
Proof.
  intros c H. apply plain_lan; [apply blank_plain; exact H|]. destruct Hid as (_ & H32 & H9).
  unfold is_blank, is_sp, is_tab in H. apply orb_prop in H. destruct H as [H|H]; apply N.eqb_eq in H; rewrite H; assumption.
Qed.

(* ------------------------------------------------------------------------------------------------ *)
(* the classified lines of a text *)

Definition cno_nl (l : list cc) : Prop := forall p, In p l -> is_nl (fst p) = false.

Lemma csplit_nonl : forall l flag, cno_nl l -> csplit flag l = [(flag, l)].
Proof.
  induction l as [|p t IH]; intros flag H; [reflexivity|]. cbn [csplit].
  rewrite (H p (or_introl eq_refl)). rewrite IH by (intros q Hq; apply H; right; exact Hq). reflexivity.
Qed.

Lemma csplit_app_nl : forall x k y flag, cno_nl x -> csplit flag (x ++ (nlc, k) :: y) = (flag, x) :: csplit (k =? 0) y.
Proof.
  induction x as [|p x IH]; intros k y flag H.
  - reflexivity.
  - cbn [app csplit]. rewrite (H p (or_introl eq_refl)). rewrite IH by (intros q Hq; apply H; right; exact Hq). reflexivity.
Qed.

Lemma combine_app : forall {A B} (a1 a2 : list A) (b1 b2 : list B), length a1 = length b1 ->
  combine (a1 ++ a2) (b1 ++ b2) = combine a1 b1 ++ combine a2 b2.
Proof.
  intros A B. induction a1 as [|x a1 IH]; intros a2 b1 b2 H; destruct b1 as [|y b1]; try discriminate; [reflexivity|].
  cbn. f_equal. apply IH. cbn in H. lia.
Qed.

Lemma combine_cno : forall l ks, no_nl l -> cno_nl (combine l ks).
Proof. intros l ks H p Hp. destruct p as [c k]. apply in_combine_l in Hp. apply H. exact Hp. Qed.

(* the scanner, line by line *)
Fixpoint thread (st : lst) (flag : bool) (ls : list (list ch)) : list (bool * list cc) :=
  match ls with
  | [] => []
  | l :: r => (flag, combine l (lex st l))
              :: thread (snd (nl_step (lex_end st l))) (fst (nl_step (lex_end st l)) =? 0) r
  end.

Lemma csplit_thread : forall ls st flag, ls <> [] -> Forall no_nl ls ->
  csplit flag (combine (join_nl ls) (lex st (join_nl ls))) = thread st flag ls.
Proof.
  induction ls as [|l r IH]; intros st flag Hne Hall; [contradiction|]. inversion Hall as [|? ? Hl Hr]; subst.
  destruct r as [|y r].
  - cbn [join_nl thread]. apply csplit_nonl. apply combine_cno. exact Hl.
  - rewrite join_cons2. destruct (lex_app_nl l st (join_nl (y :: r))) as [E _]. rewrite E.
    change (nlc :: join_nl (y :: r)) with ([nlc] ++ join_nl (y :: r)).
    rewrite combine_app by (symmetry; apply lex_length). cbn [app combine].
    rewrite csplit_app_nl by (apply combine_cno; exact Hl).
    cbn [thread]. f_equal. apply IH; [discriminate|exact Hr].
Qed.

Lemma clines_thread : forall t, clines t = thread SCode true (split_nl t).
Proof.
  intro t. unfold Lint.clines, Lint.ctext. rewrite <- (join_split t) at 1 2. apply csplit_thread; [apply split_nonempty|apply split_no_nl].
Qed.

Lemma clines_join : forall ls, ls <> [] -> Forall no_nl ls -> clines (join_nl ls) = thread SCode true ls.
Proof. intros ls H1 H2. unfold Lint.clines, Lint.ctext. apply csplit_thread; assumption. Qed.

Lemma combine_fst_snd : forall (l : list cc), combine (map fst l) (map snd l) = l.
Proof. induction l as [|[c k] l IH]; [reflexivity|]. cbn. f_equal. exact IH. Qed.

Lemma chars_combine : forall l ks, length ks = length l -> chars (combine l ks) = l.
Proof.
  unfold chars. induction l as [|c l IH]; intros ks H; destruct ks as [|k ks]; try discriminate; [reflexivity|].
  cbn. f_equal. apply IH. cbn in H. lia.
Qed.
Lemma snd_combine : forall (l : list ch) (ks : list N), length ks = length l -> map snd (combine l ks) = ks.
Proof.
  induction l as [|c l IH]; intros ks H; destruct ks as [|k ks]; try discriminate; [reflexivity|].
  cbn. f_equal. apply IH. cbn in H. lia.
Qed.

(* a line rewriter that the scanner cannot tell from its input: re-scanning the rewritten line gives the classes the
   rewriter carried along, and leaves the scanner in the same state *)
Definition lock (f : list cc -> list cc) : Prop :=
  forall st l, no_nl l ->
    lex st (chars (f (combine l (lex st l)))) = map snd (f (combine l (lex st l))) /\
    lex_end st (chars (f (combine l (lex st l)))) = lex_end st l /\
    no_nl (chars (f (combine l (lex st l)))).

Definition on_snd {A B} (f : B -> B) (p : A * B) : A * B := (fst p, f (snd p)).

Lemma thread_lock : forall f, lock f -> forall ls st flag, Forall no_nl ls ->
  thread st flag (map (fun fl => chars (f (snd fl))) (thread st flag ls)) = map (on_snd f) (thread st flag ls).
Proof.
  intros f Hf. induction ls as [|l r IH]; intros st flag Hall; [reflexivity|]. inversion Hall as [|? ? Hl Hr]; subst.
  cbn [thread map snd]. destruct (Hf st l Hl) as (E1 & E2 & _). rewrite E1, E2.
  unfold on_snd at 1. cbn [fst snd]. unfold chars at 1. rewrite combine_fst_snd. f_equal. apply IH. exact Hr.
Qed.

Lemma thread_lines_nonl : forall f, lock f -> forall ls st flag, Forall no_nl ls ->
  Forall no_nl (map (fun fl => chars (f (snd fl))) (thread st flag ls)).
Proof.
  intros f Hf. induction ls as [|l r IH]; intros st flag Hall; [constructor|]. inversion Hall as [|? ? Hl Hr]; subst.
  cbn [thread map snd]. constructor; [apply (Hf st l Hl)|apply IH; exact Hr].
Qed.

Lemma thread_ne : forall ls st flag, ls <> [] -> thread st flag ls <> [].
Proof. intros [|l r] st flag H; [contradiction|discriminate]. Qed.

(* re-scanning the output of a per-line rule gives the rewritten classified lines *)
Theorem relex : forall f t, lock f -> clines (per_cline f t) = map (on_snd f) (clines t).
Proof.
  intros f t Hf. unfold Lint.per_cline. rewrite (clines_thread t).
  rewrite clines_join.
  - apply thread_lock; [exact Hf|apply split_no_nl].
  - apply map_ne. apply thread_ne. apply split_nonempty.
  - apply thread_lines_nonl; [exact Hf|apply split_no_nl].
Qed.

Theorem per_cline_idem : forall f, lock f -> (forall l, f (f l) = f l) -> forall t, per_cline f (per_cline f t) = per_cline f t.
Proof.
  intros f Hf Hi t. unfold Lint.per_cline at 1. rewrite (relex f t Hf). unfold Lint.per_cline. f_equal. rewrite map_map.
  apply map_ext. intro fl. unfold on_snd. cbn [snd]. rewrite Hi. reflexivity.
Qed.

(* ------------------------------------------------------------------------------------------------ *)
(* edits of a classified line that the scanner cannot tell from the original.
   [edit b l out]: out is obtained from l by keeping characters, deleting plain characters of class 0 / 3 and
   inserting plain characters of class 0 where the scanner is in code; b = "the scanner is known to be in code here". *)

Lemma lstep_plain_nx : forall st c nx nx', plainc c = true -> lstep st c nx = lstep st c nx'.
Proof.
  intros st c nx nx' H. destruct (plainc_spec c H) as (Q & A & B & C & D & E). destruct (quote_39 c Q) as [Q1 Q2].
  destruct st; cbn [Lint.lstep]; rewrite ?Q, ?Q1, ?A, ?B, ?C, ?D, ?E; try reflexivity.
  destruct (nq (cp c) =? q) eqn:Eq; [|reflexivity]. apply N.eqb_eq in Eq. subst q. rewrite Q2. reflexivity.
Qed.

(* what a kept character may see of the characters after it.  The characters are paired with their classes: the tag of
   a dollar-quoted string needs to be the same only where the scanner took it for one (its characters are class 1) *)
Definition lit1 (p : cc) : bool := snd p =? 1.
Definition la_ok (t t' : list cc) : Prop :=
  next_is 45 (chars t) = next_is 45 (chars t') /\ next_is 42 (chars t) = next_is 42 (chars t') /\
  next_is 47 (chars t) = next_is 47 (chars t') /\ next_q39 (chars t) = next_q39 (chars t') /\
  next2_39 (chars t) = next2_39 (chars t') /\
  (dollar_tag (chars t) = None -> dollar_tag (chars t') = None) /\
  (forall tag, dollar_tag (chars t) = Some tag -> forallb lit1 (firstn (S (length tag)) t) = true ->
               dollar_tag (chars t') = Some tag).

Lemma la_eq_ok : forall t t', la_eq (chars t) (chars t') -> la_ok t t'.
Proof.
  intros t t' (H1 & H2 & H3 & H4 & H5 & H6 & H7 & H8). unfold la_ok. rewrite <- H8. repeat split; try assumption.
  - intro Ht. exact Ht.
  - intros tag Ht _. exact Ht.
Qed.
Lemma la_ok_refl : forall t, la_ok t t.
Proof. intro t. apply la_eq_ok. apply la_eq_refl. Qed.

Lemma scan_tag_len : forall l tag, scan_tag l = Some tag -> (S (length tag) <= length l)%nat.
Proof.
  induction l as [|c t IH]; intros tag H; [discriminate|]. cbn [Lint.scan_tag] in H.
  destruct (cp c =? 36); [injection H as <-; cbn; lia|]. destruct (idc (cp c)); [|discriminate].
  destruct (Lint.scan_tag idc t) as [g|] eqn:E; [|discriminate]. injection H as <-. specialize (IH g eq_refl). cbn [length]. lia.
Qed.
Lemma dollar_tag_len : forall l tag, dollar_tag l = Some tag -> (S (length tag) <= length l)%nat.
Proof.
  intros [|c t] tag H; [discriminate|]. unfold Lint.dollar_tag in H.
  destruct ((cp c =? 36) || ids (cp c)); [apply scan_tag_len; exact H|discriminate].
Qed.

(* the characters the scanner jumps over are class 1 *)
Lemma lex_skip_lit : forall n a l, (n <= length l)%nat -> forallb lit1 (firstn n (combine l (lex (SSkip n a) l))) = true.
Proof.
  induction n as [|n IH]; intros a l H; [reflexivity|]. destruct l as [|c l]; [cbn in H; lia|].
  cbn [Lint.lex Lint.lstep fst snd combine firstn forallb]. cbn [length] in H.
  destruct n as [|k]; [reflexivity|]. cbn [lit1 snd N.eqb andb]. apply IH. lia.
Qed.

Lemma chars_combine0 : forall l ks, length ks = length l -> chars (combine l ks) = l.
Proof.
  unfold chars. induction l as [|c l IH]; intros ks H; destruct ks as [|k ks]; try discriminate; [reflexivity|].
  cbn. f_equal. apply IH. cbn in H. lia.
Qed.

(* a kept character whose look-ahead is preserved is read as before *)
Lemma lstep_la_ok : forall st c l t' s, s = snd (lstep st c l) -> la_ok (combine l (lex s l)) t' ->
  lstep st c (chars t') = lstep st c l.
Proof.
  intros st c l t' s Es (H1 & H2 & H3 & H4 & H5 & H6 & H7).
  rewrite (chars_combine0 l (lex s l) (lex_length l s)) in *.
  destruct st; cbn [Lint.lstep] in *; rewrite <- ?H1, <- ?H2, <- ?H3, <- ?H4, <- ?H5; try reflexivity.
  destruct ((cp c =? 39) && next2_39 l) eqn:E1; [reflexivity|]. destruct (is_quote c) eqn:E2; [reflexivity|].
  destruct ((cp c =? 45) && next_is 45 l) eqn:E3; [reflexivity|]. destruct ((cp c =? 47) && next_is 42 l) eqn:E4; [reflexivity|].
  destruct (cp c =? 36) eqn:E5; [|reflexivity].
  destruct (Lint.dollar_tag ids idc l) as [tag|] eqn:D.
  - cbn [snd] in Es. subst s. rewrite (H7 tag eq_refl); [reflexivity|]. apply lex_skip_lit. apply dollar_tag_len. exact D.
  - rewrite (H6 eq_refl). reflexivity.
Qed.

Inductive edit : bool -> list cc -> list cc -> Prop :=
| e_nil : forall b, edit b [] []
| e_keep : forall b p t t', edit (code0 p) t t' -> la_ok t t' -> edit b (p :: t) (p :: t')
| e_keepp : forall b p t t', plainc (fst p) = true -> edit (code0 p) t t' -> edit b (p :: t) (p :: t')
| e_del : forall b p t t', plainc (fst p) = true -> (snd p = 0 \/ snd p = 3) -> edit (code0 p) t t' -> edit b (p :: t) t'
| e_delc : forall p t t', plainc (fst p) = true -> edit true t t' -> edit true (p :: t) t'
| e_ins : forall c t t', plainc c = true -> edit true t t' -> edit true t ((c, 0) :: t').

Lemma edit_weaken : forall b l out, edit b l out -> edit false l out \/ b = true.
Proof. intros [|] l out H; [right; reflexivity|left; exact H]. Qed.

Theorem edit_lock : forall b cl out, edit b cl out ->
  forall st l, no_nl l -> cl = combine l (lex st l) -> (b = true -> st = SCode) ->
    lex st (chars out) = map snd out /\ lex_end st (chars out) = lex_end st l /\ no_nl (chars out).
Proof.
  intros b cl out H. induction H as [b|b p t t' H IH La|b p t t' Hp H IH|b p t t' Hp Hk H IH|p t t' Hp H IH|c t t' Hc H IH];
    intros st l Hl E Hb.
  - destruct l as [|c l]; [|discriminate]. repeat split. intros c [].
  - destruct l as [|c l]; [discriminate|]. cbn [Lint.lex combine] in E. injection E as E1 E2. subst p.
    assert (Hl' : no_nl l) by (intros d Hd; apply Hl; right; exact Hd).
    rewrite E2 in La.
    assert (Es : lstep st c (chars t') = lstep st c l) by (apply (lstep_la_ok st c l t' _ eq_refl La)).
    destruct (IH (snd (lstep st c l)) l Hl' E2) as (I1 & I2 & I3).
    { unfold code0. cbn [snd]. intro Hk. apply N.eqb_eq in Hk. apply (lstep_class0 st c l (Hl c (or_introl eq_refl)) Hk). }
    cbn [chars map Lint.lex Lint.lex_end fst snd]. fold (chars t'). rewrite Es. rewrite I1, I2. repeat split.
    intros d [Hd|Hd]; [subst; apply Hl; left; reflexivity|apply I3; exact Hd].
  - destruct l as [|c l]; [discriminate|]. cbn [Lint.lex combine] in E. injection E as E1 E2. subst p. cbn [fst] in Hp.
    assert (Hl' : no_nl l) by (intros d Hd; apply Hl; right; exact Hd).
    assert (Es : lstep st c (chars t') = lstep st c l) by (apply lstep_plain_nx; exact Hp).
    destruct (IH (snd (lstep st c l)) l Hl' E2) as (I1 & I2 & I3).
    { unfold code0. cbn [snd]. intro Hk. apply N.eqb_eq in Hk. apply (lstep_class0 st c l (Hl c (or_introl eq_refl)) Hk). }
    cbn [chars map Lint.lex Lint.lex_end fst snd]. fold (chars t'). rewrite Es. rewrite I1, I2. repeat split.
    intros d [Hd|Hd]; [subst; apply Hl; left; reflexivity|apply I3; exact Hd].
  - destruct l as [|c l]; [discriminate|]. cbn [Lint.lex combine] in E. injection E as E1 E2. subst p. cbn [fst snd] in *.
    assert (Hl' : no_nl l) by (intros d Hd; apply Hl; right; exact Hd).
    destruct (plainc_spec c Hp) as (_ & A & _ & _ & Dn & _).
    assert (Est : st = snd (lstep st c l) /\ (fst (lstep st c l) = 0 -> st = SCode)).
    { destruct Hk as [Hk|Hk].
      - destruct (lstep_class0 st c l Dn Hk) as [S1 S2]. rewrite S2. split; [exact S1|intros _; exact S1].
      - destruct (lstep_class3 st c l A Hk) as [S1 S2]. rewrite S2. split; [exact S1|intro Z; rewrite Z in Hk; discriminate]. }
    destruct Est as [Est Ecode]. rewrite <- Est in E2.
    destruct (IH st l Hl' E2) as (I1 & I2 & I3).
    { unfold code0. cbn [snd]. intro Hz. apply N.eqb_eq in Hz. apply Ecode. exact Hz. }
    cbn [Lint.lex_end]. rewrite <- Est. repeat split; assumption.
  - destruct l as [|c l]; [discriminate|]. cbn [Lint.lex combine] in E. injection E as E1 E2. subst p. cbn [fst] in Hp.
    assert (Hl' : no_nl l) by (intros d Hd; apply Hl; right; exact Hd).
    rewrite (Hb eq_refl) in *. rewrite (lstep_plain_code c l Hp) in E2. cbn [snd] in E2.
    destruct (IH SCode l Hl' E2 (fun _ => eq_refl)) as (I1 & I2 & I3).
    cbn [Lint.lex_end]. rewrite (lstep_plain_code c l Hp). cbn [snd]. repeat split; assumption.
  - rewrite (Hb eq_refl) in *. destruct (IH SCode l Hl E (fun _ => eq_refl)) as (I1 & I2 & I3).
    cbn [chars map Lint.lex Lint.lex_end fst snd]. fold (chars t'). rewrite (lstep_plain_code c (chars t') Hc). cbn [fst snd].
    rewrite I1, I2. repeat split. intros d [Hd|Hd]; [subst; destruct (plainc_spec d Hc) as (_ & _ & _ & _ & Z & _); exact Z|apply I3; exact Hd].
Qed.

Lemma edit_is_lock : forall f, (forall cl, cno_nl cl -> edit false cl (f cl)) -> lock f.
Proof.
  intros f H st l Hl. apply (edit_lock false _ _ (H _ (combine_cno l (lex st l) Hl)) st l Hl eq_refl). discriminate.
Qed.

(* ------------------------------------------------------------------------------------------------ *)
(* the reading of classified lines *)

Section Reading.
  Variable is_space : N -> bool.
  Variable upper_ascii : N -> option N.
  Notation wsc := (wsc is_space).
  Notation vt := (vt is_space upper_ascii).
  Notation item := (item is_space upper_ascii).
  Notation RD := (RD is_space upper_ascii).
  Notation RDL := (RDL is_space upper_ascii).
  Notation rest_ws := (rest_ws is_space).

  Lemma scons_W_idem : forall Z, scons VW (scons VW Z) = scons VW Z.
  Proof. intros [|[|n|c] Z]; reflexivity. Qed.
  Definition absorbs (Z : list vtok) : Prop := scons VW Z = Z.
  Lemma absorbs_scons : forall Z, absorbs (scons VW Z).
  Proof. intro Z. apply scons_W_idem. Qed.
  Lemma absorbs_nil : absorbs []. Proof. reflexivity. Qed.
  Lemma strip_lead_scons : forall X, strip_lead (scons VW X) = strip_lead X.
  Proof. intros [|[|n|c] X]; reflexivity. Qed.

  (* a layout pair: white space that is code or lies in a -- comment *)
  Definition wsp (p : cc) : bool := wsc (fst p) && ((snd p =? 0) || (snd p =? 3)).

  Lemma rest_ws_app : forall a b, rest_ws (a ++ b) = rest_ws a && rest_ws b.
  Proof. intros a b. unfold Lint.rest_ws. apply forallb_app. Qed.

  Lemma wsp_rest_ws : forall b, forallb wsp b = true -> rest_ws b = true.
  Proof.
    intros b H. unfold Lint.rest_ws. apply forallb_forall. intros p Hp. rewrite forallb_forall in H. specialize (H p Hp).
    unfold wsp in H. apply andb_prop in H. tauto.
  Qed.

  Lemma item_app_ws : forall p t b, rest_ws b = true -> item p (t ++ b) = item p t.
  Proof. intros p t b H. unfold Lint.item. rewrite rest_ws_app, H, andb_true_r. reflexivity. Qed.

  Lemma RD_app_ws : forall a b Z, rest_ws b = true -> RD (a ++ b) Z = RD a (RD b Z).
  Proof.
    induction a as [|p a IH]; intros b Z H; [reflexivity|]. cbn [app Lint.RD]. rewrite item_app_ws by exact H. rewrite IH by exact H. reflexivity.
  Qed.

  Lemma item_wsp : forall p t, wsp p = true -> rest_ws t = true -> item p t = VW.
  Proof.
    intros p t H Ht. unfold wsp in H. apply andb_prop in H. destruct H as [Hw Hk]. unfold Lint.item, Lint.vt.
    destruct (snd p =? 0); [rewrite Hw; reflexivity|]. cbn [orb] in Hk. rewrite Hk, Hw, Ht. reflexivity.
  Qed.

  Lemma RD_wsp : forall b Z, forallb wsp b = true -> b <> [] -> RD b Z = scons VW Z.
  Proof.
    induction b as [|p b IH]; intros Z H Hne; [contradiction|]. cbn in H. apply andb_prop in H. destruct H as [H1 H2].
    cbn [Lint.RD]. rewrite (item_wsp p b H1 (wsp_rest_ws b H2)). destruct b as [|q b]; [reflexivity|].
    rewrite IH by (assumption || discriminate). apply scons_W_idem.
  Qed.

  Lemma RD_wsp_abs : forall b Z, forallb wsp b = true -> absorbs Z -> RD b Z = Z.
  Proof. intros b Z H HZ. destruct b as [|p b]; [reflexivity|]. rewrite RD_wsp by (assumption || discriminate). exact HZ. Qed.

  Lemma sW_RD_wsp : forall b Z, forallb wsp b = true -> scons VW (RD b Z) = scons VW Z.
  Proof. intros b Z H. destruct b as [|p b]; [reflexivity|]. rewrite RD_wsp by (assumption || discriminate). apply scons_W_idem. Qed.

  (* code-only prefixes need no look-ahead *)
  Lemma RD_app_code : forall a b Z, forallb code0 a = true -> RD (a ++ b) Z = RD a (RD b Z).
  Proof.
    induction a as [|p a IH]; intros b Z H; [reflexivity|]. cbn in H. apply andb_prop in H. destruct H as [H1 H2].
    cbn [app Lint.RD]. rewrite IH by exact H2. unfold Lint.item. unfold code0 in H1. rewrite H1. reflexivity.
  Qed.

  (* the class of the last character of a line *)
  Definition ends03 (l : list cc) : bool := match lastc l with Some p => (snd p =? 0) || (snd p =? 3) | None => false end.

  (* consecutive lines agree: a line that ends in code or in a -- comment is followed by a line that begins in code *)
  Fixpoint cons_ok (ls : list (bool * list cc)) : Prop :=
    match ls with
    | [] => True
    | fl :: r => match r with [] => True | fl2 :: _ => (ends03 (snd fl) = true -> fst fl2 = true) /\ cons_ok r end
    end.

  Lemma RDL_cons2 : forall fl fl2 r, RDL (fl :: fl2 :: r) = RD (snd fl) (scons (if fst fl2 then VW else VL nlc) (RDL (fl2 :: r))).
  Proof. reflexivity. Qed.

  Lemma RDL_map : forall f ls, cons_ok ls ->
    (forall cl Z, (ends03 cl = true -> absorbs Z) -> RD (f cl) Z = RD cl Z) ->
    RDL (map (on_snd f) ls) = RDL ls.
  Proof.
    intros f ls Hc Hf. induction ls as [|fl r IH]; [reflexivity|]. destruct r as [|fl2 r].
    - cbn. apply Hf. intros _. apply absorbs_nil.
    - destruct Hc as [H1 H2]. cbn [map]. rewrite !RDL_cons2. cbn [map] in IH. rewrite (IH H2).
      unfold on_snd at 1 2. cbn [fst snd]. apply Hf. intro He. rewrite (H1 He). apply absorbs_scons.
  Qed.
End Reading.
Ltac unf_wsp := unfold wsp.
Ltac unf_wsp1 := unfold wsp at 1.

(* the lines produced by the scanner agree *)
Ltac brk := repeat match goal with
  | |- context [if ?b then _ else _] => destruct b
  | |- context [match ?x with Some _ => _ | None => _ end] => destruct x
  end.

Lemma lstep_class3n : forall st c nx, fst (lstep st c nx) = 3 -> snd (lstep st c nx) = SLine.
Proof. intros st c nx. destruct st; cbn [Lint.lstep]; brk; cbn [fst snd]; intro H; try discriminate H; reflexivity. Qed.

Lemma lstep_last : forall st c, is_nl c = false ->
  (fst (lstep st c []) = 0 \/ fst (lstep st c []) = 3) -> fst (nl_step (snd (lstep st c []))) = 0.
Proof.
  intros st c Hn [Hk|Hk].
  - destruct (lstep_class0 st c [] Hn Hk) as [_ S2]. rewrite S2. reflexivity.
  - rewrite (lstep_class3n st c [] Hk). reflexivity.
Qed.

Lemma last_class_nl : forall l st c k, no_nl l -> lastc (combine l (lex st l)) = Some (c, k) -> (k = 0 \/ k = 3) ->
  fst (nl_step (lex_end st l)) = 0.
Proof.
  induction l as [|d t IH]; intros st c k Hl H Hk; [discriminate|].
  assert (Hd : is_nl d = false) by (apply Hl; left; reflexivity).
  destruct t as [|e t].
  - cbn [Lint.lex combine lastc] in H. injection H as E1 E2. subst d. cbn [Lint.lex_end]. apply lstep_last; [exact Hd|]. rewrite E2. exact Hk.
  - cbn [Lint.lex_end]. apply (IH (snd (lstep st d (e :: t))) c k); [intros x Hx; apply Hl; right; exact Hx| |exact Hk].
    cbn [Lint.lex combine] in H. cbn [Lint.lex combine]. rewrite lastc_cons in H by discriminate. exact H.
Qed.

Lemma thread_cons_ok : forall ls st flag, Forall no_nl ls -> cons_ok (thread st flag ls).
Proof.
  induction ls as [|l r IH]; intros st flag Hall; [exact I|]. inversion Hall as [|? ? Hl Hr]; subst.
  cbn [thread]. destruct r as [|y r]; [exact I|]. cbn [cons_ok]. split; [|apply IH; exact Hr].
  cbn [thread fst snd]. intro Hk. unfold ends03 in Hk. destruct (@lastc cc (combine l (lex st l))) as [[c k]|] eqn:E; [|discriminate Hk].
  cbn [snd] in Hk. apply N.eqb_eq. apply (last_class_nl l st c k Hl E).
  apply orb_prop in Hk. destruct Hk as [Hk|Hk]; apply N.eqb_eq in Hk; auto.
Qed.

Lemma clines_cons_ok : forall t, cons_ok (clines t).
Proof. intro t. rewrite clines_thread. apply thread_cons_ok. apply split_no_nl. Qed.

(* ------------------------------------------------------------------------------------------------ *)
(* L001 *)

Lemma tblank_spec : forall p, tblank p = true -> is_blank (fst p) = true /\ (snd p = 0 \/ snd p = 3).
Proof.
  intros p H. unfold tblank in H. apply andb_prop in H. destruct H as [H1 H2]. split; [exact H1|].
  apply orb_prop in H2. destruct H2 as [H2|H2]; apply N.eqb_eq in H2; auto.
Qed.

Lemma la_all_lan : forall (t : list cc) (q : cc -> bool), (forall p, q p = true -> lan (fst p) = true) ->
  forallb q t = true -> la_eq (chars t) [].
Proof.
  intros [|p t] q Hq H; [apply la_eq_refl|]. cbn in H. apply andb_prop in H. destruct H as [H _].
  cbn [chars map]. apply la_neutral. apply Hq. exact H.
Qed.

(* trimming characters that stop every look-ahead from the end of a line is invisible to the characters before them *)
Lemma la_trim_r : forall (q : cc -> bool) t, (forall p, q p = true -> lan (fst p) = true) ->
  la_eq (chars t) (chars (trim_r q t)).
Proof.
  intros q t Hq. destruct (trim_r_split q t) as (b & E & Hb). rewrite E at 1. unfold chars. rewrite map_app. apply la_app.
  destruct b as [|p b]; [reflexivity|]. cbn in Hb. apply andb_prop in Hb. cbn [map hd_neutral]. apply Hq. tauto.
Qed.

Lemma tblank_lan : forall p, tblank p = true -> lan (fst p) = true.
Proof. intros p H. apply blank_lan. apply (tblank_spec p H). Qed.

Lemma edit_trim_r_tblank : forall cl b, edit b cl (trim_r tblank cl).
Proof.
  induction cl as [|p t IH]; intro b; [constructor|]. rewrite trim_r_cons.
  pose proof (IH (code0 p)) as I. pose proof (la_eq_ok _ _ (la_trim_r tblank t tblank_lan)) as L.
  destruct (trim_r tblank t) as [|a r] eqn:E.
  - destruct (tblank p) eqn:Ep.
    + destruct (tblank_spec p Ep) as [B K]. apply e_del; [apply blank_plain; exact B|exact K|]. exact I.
    + apply e_keep; assumption.
  - apply e_keep; assumption.
Qed.

Lemma l001_lock : lock l001_line.
Proof. apply edit_is_lock. intros cl _. apply edit_trim_r_tblank. Qed.

Theorem l001_fix_idempotent : forall t, l001_fix (l001_fix t) = l001_fix t.
Proof. intro t. apply (per_cline_idem l001_line l001_lock). intro l. apply trim_r_idem. Qed.

Lemma on_clines_nil : forall f ls k, (forall n fl, In fl ls -> f n fl = []) -> on_clines f k ls = [].
Proof.
  intros f. induction ls as [|l r IH]; intros k H; [reflexivity|]. cbn [on_clines].
  rewrite H by (left; reflexivity). cbn [app]. apply IH. intros n l' Hl. apply H. right. exact Hl.
Qed.

Theorem l001_fix_clears : forall t, l001_check (l001_fix t) = [].
Proof.
  intro t. unfold Lint.l001_check, Lint.l001_fix. rewrite (relex l001_line t l001_lock). apply on_clines_nil.
  intros n fl Hfl. apply in_map_iff in Hfl. destruct Hfl as (fl0 & E & _). subst. unfold l001_check_line, on_snd. cbn [snd].
  unfold l001_line. rewrite trim_r_idem. rewrite Nat.ltb_irrefl. reflexivity.
Qed.

Section L001Reading.
  Variable is_space : N -> bool.
  Variable upper_ascii : N -> option N.

  Lemma tblank_wsp : forall b, forallb tblank b = true -> forallb (wsp is_space) b = true.
  Proof.
    intros b H. apply forallb_forall. intros p Hp. rewrite forallb_forall in H. specialize (H p Hp).
    unfold tblank in H. apply andb_prop in H. destruct H as [H1 H2]. unfold wsp, Lint.wsc. rewrite H1, H2.
    rewrite orb_true_r. reflexivity.
  Qed.

  Lemma lastc_app_last : forall {A} (a b : list A) x, lastc b = Some x -> lastc (a ++ b) = Some x.
  Proof. intros A a b x H. rewrite lastc_app; [exact H|]. intro E. subst. discriminate. Qed.

  Lemma l001_line_RD : forall cl Z, (ends03 cl = true -> absorbs Z) ->
    RD is_space upper_ascii (l001_line cl) Z = RD is_space upper_ascii cl Z.
  Proof.
    intros cl Z HZ. unfold l001_line. destruct (trim_r_split tblank cl) as (b & E & Hb).
    rewrite E at 2. rewrite RD_app_ws by (apply wsp_rest_ws; apply tblank_wsp; exact Hb).
    destruct b as [|p b]; [reflexivity|].
    rewrite (RD_wsp_abs is_space upper_ascii (p :: b) Z (tblank_wsp _ Hb)); [reflexivity|]. apply HZ.
    unfold ends03. destruct (lastc_some_in (p :: b)) as (x & Hx); [discriminate|].
    rewrite E. rewrite (lastc_app_last _ _ x Hx). apply lastc_in in Hx. rewrite forallb_forall in Hb.
    destruct (tblank_spec x (Hb x Hx)) as [_ [K|K]]; rewrite K; reflexivity.
  Qed.

  Theorem l001_keeps_reading : forall t, reading is_space upper_ascii (l001_fix t) = reading is_space upper_ascii t.
  Proof.
    intro t. unfold Lint.reading, Lint.l001_fix. rewrite (relex l001_line t l001_lock). f_equal.
    apply RDL_map; [apply clines_cons_ok|apply l001_line_RD].
  Qed.
End L001Reading.

(* ------------------------------------------------------------------------------------------------ *)
(* L002 *)

Lemma edit_refl : forall cl b, edit b cl cl.
Proof. induction cl as [|p t IH]; intro b; [constructor|]. apply e_keep; [apply IH|apply la_ok_refl]. Qed.

Lemma lblank_spec : forall p, lblank p = true -> is_blank (fst p) = true /\ snd p = 0.
Proof. intros p H. unfold lblank, code0 in H. apply andb_prop in H. destruct H as [H1 H2]. apply N.eqb_eq in H2. split; assumption. Qed.

Lemma spc_plain : plainc spc = true. Proof. reflexivity. Qed.

Lemma l002_line_cons : forall p t, lblank p = true -> l002_line (p :: t) = tab4 p ++ l002_line t.
Proof. intros p t H. unfold l002_line, leading_ws. cbn [take_l trim_l]. rewrite H. cbn [flat_map]. rewrite <- app_assoc. reflexivity. Qed.
Lemma l002_line_stop : forall p t, lblank p = false -> l002_line (p :: t) = p :: t.
Proof. intros p t H. unfold l002_line, leading_ws. cbn [take_l trim_l]. rewrite H. reflexivity. Qed.

Lemma edit_l002 : forall cl b, edit b cl (l002_line cl).
Proof.
  induction cl as [|p t IH]; intro b; [constructor|]. destruct (lblank p) eqn:E.
  - rewrite l002_line_cons by exact E. destruct (lblank_spec p E) as [B K]. unfold tab4. destruct (is_tab (fst p)).
    + apply e_del; [apply blank_plain; exact B|left; exact K|]. unfold code0. rewrite K. cbn [N.eqb app].
      apply e_ins; [exact spc_plain|]. apply e_ins; [exact spc_plain|]. apply e_ins; [exact spc_plain|]. apply e_ins; [exact spc_plain|]. apply IH.
    + cbn [app]. apply e_keepp; [apply blank_plain; exact B|apply IH].
  - rewrite l002_line_stop by exact E. apply edit_refl.
Qed.

Lemma l002_lock : lock l002_line.
Proof. apply edit_is_lock. intros cl _. apply edit_l002. Qed.

Lemma tab4_lblank : forall p, lblank p = true -> forallb lblank (tab4 p) = true.
Proof. intros p H. unfold tab4. destruct (is_tab (fst p)); cbn; [reflexivity|rewrite H; reflexivity]. Qed.
Lemma tab4_notab : forall p, forallb (fun d : cc => negb (is_tab (fst d))) (tab4 p) = true.
Proof. intro p. unfold tab4. destruct (is_tab (fst p)) eqn:E; cbn; [reflexivity|rewrite E; reflexivity]. Qed.
Lemma flat_map_tab4_notab : forall l, forallb (fun d : cc => negb (is_tab (fst d))) l = true -> flat_map tab4 l = l.
Proof.
  induction l as [|c t IH]; intro H; [reflexivity|]. cbn in H. apply andb_prop in H. destruct H as [H1 H2].
  cbn. unfold tab4 at 1. destruct (is_tab (fst c)); [discriminate|]. cbn. f_equal. apply IH. exact H2.
Qed.

Lemma l002_lead_facts : forall l, forallb lblank (flat_map tab4 (take_l lblank l)) = true /\
  forallb (fun d : cc => negb (is_tab (fst d))) (flat_map tab4 (take_l lblank l)) = true.
Proof.
  intro l. split.
  - apply forallb_flat_map. intros x Hx. apply tab4_lblank. pose proof (take_l_all lblank l) as H. rewrite forallb_forall in H. apply H. exact Hx.
  - apply forallb_flat_map. intros x _. apply tab4_notab.
Qed.

Lemma l002_line_idem : forall l, l002_line (l002_line l) = l002_line l.
Proof.
  intro l. unfold l002_line at 1, leading_ws. destruct (l002_lead_facts l) as [HX HT].
  unfold l002_line, leading_ws. set (X := flat_map tab4 (take_l lblank l)) in *.
  rewrite take_l_app_all by exact HX. rewrite trim_l_app_all by exact HX.
  rewrite take_l_of_trim_l. rewrite trim_l_idem. rewrite app_nil_r. rewrite flat_map_tab4_notab by exact HT. reflexivity.
Qed.

Theorem l002_fix_idempotent : forall t, l002_fix (l002_fix t) = l002_fix t.
Proof. intro t. apply (per_cline_idem l002_line l002_lock l002_line_idem). Qed.

Lemma l002_fixed_leading : forall l, existsb (fun p : ch * N => is_tab (fst p)) (leading_ws (l002_line l)) = false.
Proof.
  intro l. unfold l002_line, leading_ws. destruct (l002_lead_facts l) as [HX HT].
  set (X := flat_map tab4 (take_l lblank l)) in *.
  rewrite take_l_app_all by exact HX. rewrite take_l_of_trim_l. rewrite app_nil_r.
  clear -HT. induction X as [|c X IH]; [reflexivity|]. cbn in *. apply andb_prop in HT. destruct HT as [H1 H2].
  apply negb_true_iff in H1. rewrite H1. apply IH. exact H2.
Qed.

Lemma l002_check_notab : forall ls first n, (first = 0 \/ first = 2) ->
  (forall fl, In fl ls -> existsb (fun p : ch * N => is_tab (fst p)) (leading_ws (snd fl)) = false) -> l002_check_lines first n ls = [].
Proof.
  induction ls as [|l r IH]; intros first n Hf H; [reflexivity|].
  cbn [l002_check_lines].
  assert (Hr : forall l0, In l0 r -> existsb (fun p : ch * N => is_tab (fst p)) (leading_ws (snd l0)) = false) by (intros l0 Hl0; apply H; right; exact Hl0).
  destruct (leading_ws (snd l)) as [|c lw] eqn:E; [apply IH; assumption|].
  rewrite <- E. rewrite (H l (or_introl eq_refl)). cbn [andb].
  destruct Hf as [Hf|Hf]; subst; cbn [N.eqb]; apply IH; auto.
Qed.

Theorem l002_fix_clears : forall t, l002_check (l002_fix t) = [].
Proof.
  intro t. unfold Lint.l002_check, Lint.l002_fix. rewrite (relex l002_line t l002_lock).
  apply l002_check_notab; [left; reflexivity|].
  intros fl Hfl. apply in_map_iff in Hfl. destruct Hfl as (fl0 & E & _). subst. unfold on_snd. cbn [snd]. apply l002_fixed_leading.
Qed.

Section L002Reading.
  Variable is_space : N -> bool.
  Variable upper_ascii : N -> option N.

  Lemma lblank_wsp : forall b, forallb lblank b = true -> forallb (wsp is_space) b = true /\ forallb code0 b = true.
  Proof.
    intros b H. split; apply forallb_forall; intros p Hp; rewrite forallb_forall in H; specialize (H p Hp); destruct (lblank_spec p H) as [B K].
    - unfold wsp, Lint.wsc. rewrite B, K. rewrite orb_true_r. reflexivity.
    - unfold code0. rewrite K. reflexivity.
  Qed.

  Lemma RD_lblank_app : forall a b Z, forallb lblank a = true ->
    RD is_space upper_ascii (a ++ b) Z = match a with [] => RD is_space upper_ascii b Z | _ => scons VW (RD is_space upper_ascii b Z) end.
  Proof.
    intros a b Z H. destruct (lblank_wsp a H) as [W C]. rewrite RD_app_code by exact C.
    destruct a as [|p a]; [reflexivity|]. apply RD_wsp; [exact W|discriminate].
  Qed.

  Lemma l002_line_RD : forall cl Z, RD is_space upper_ascii (l002_line cl) Z = RD is_space upper_ascii cl Z.
  Proof.
    intros cl Z. unfold l002_line, leading_ws. destruct (l002_lead_facts cl) as [HX _].
    rewrite <- (take_trim_l lblank cl) at 3. rewrite RD_lblank_app by exact HX. rewrite RD_lblank_app by apply take_l_all.
    destruct (take_l lblank cl) as [|p lw]; [reflexivity|]. cbn [flat_map]. unfold tab4 at 1. destruct (is_tab (fst p)); reflexivity.
  Qed.

  Theorem l002_keeps_reading : forall t, reading is_space upper_ascii (l002_fix t) = reading is_space upper_ascii t.
  Proof.
    intro t. unfold Lint.reading, Lint.l002_fix. rewrite (relex l002_line t l002_lock). f_equal.
    apply RDL_map; [apply clines_cons_ok|]. intros cl Z _. apply l002_line_RD.
  Qed.
End L002Reading.

(* ------------------------------------------------------------------------------------------------ *)
(* L010 *)

Lemma cspace_spec : forall p, cspace p = true -> is_sp (fst p) = true /\ snd p = 0.
Proof. intros p H. unfold cspace, code0 in H. apply andb_prop in H. destruct H as [H1 H2]. apply N.eqb_eq in H2. split; assumption. Qed.
Lemma sp_blank : forall c, is_sp c = true -> is_blank c = true.
Proof. intros c H. unfold is_blank. rewrite H. reflexivity. Qed.

Lemma l010_scan_head : forall t, chars (l010_scan false t) = [] /\ t = [] \/
  exists p r r', t = p :: r /\ l010_scan false t = p :: r'.
Proof.
  intros [|p r]; [left; split; reflexivity|right]. exists p, r. cbn [l010_scan]. destruct (cspace p); eexists; split; reflexivity.
Qed.

Lemma la_l010_scan : forall t, la_eq (chars t) (chars (l010_scan false t)).
Proof.
  induction t as [|p t IH]; [apply la_eq_refl|]. cbn [l010_scan]. destruct (cspace p) eqn:E; cbn [app chars map].
  - destruct (cspace_spec p E) as [S _]. apply la_neutral_heads; apply blank_lan; apply sp_blank; exact S.
  - apply la_cons. exact IH.
Qed.

Lemma edit_l010_scan : forall t ps b, edit b t (l010_scan ps t).
Proof.
  induction t as [|p t IH]; intros ps b; [constructor|]. cbn [l010_scan]. destruct (cspace p) eqn:E.
  - destruct (cspace_spec p E) as [S K]. destruct ps; cbn [app].
    + apply e_del; [apply blank_plain; apply sp_blank; exact S|left; exact K|apply IH].
    + apply e_keepp; [apply blank_plain; apply sp_blank; exact S|apply IH].
  - apply e_keep; [apply IH|apply la_eq_ok; apply la_l010_scan].
Qed.

Lemma edit_l010 : forall cl b, edit b cl (l010_line cl).
Proof.
  unfold l010_line. induction cl as [|p t IH]; intro b; [constructor|]. cbn [take_l trim_l]. destruct (lblank p) eqn:E.
  - cbn [app]. apply e_keepp; [apply blank_plain; apply (lblank_spec p E)|apply IH].
  - cbn [app]. apply edit_l010_scan.
Qed.

Lemma l010_lock : lock l010_line.
Proof. apply edit_is_lock. intros cl _. apply edit_l010. Qed.

Lemma l010_scan_idem : forall l ps, l010_scan ps (l010_scan ps l) = l010_scan ps l.
Proof.
  induction l as [|p t IH]; intro ps; [reflexivity|]. cbn [l010_scan]. destruct (cspace p) eqn:E.
  - destruct ps; cbn [app]; [apply IH|]. cbn [l010_scan]. rewrite E. cbn [app]. rewrite IH. reflexivity.
  - cbn [l010_scan]. rewrite E. rewrite IH. reflexivity.
Qed.

Lemma cspace_lblank : forall p, cspace p = true -> lblank p = true.
Proof. intros p H. unfold cspace in H. unfold lblank. apply andb_prop in H. destruct H as [H1 H2]. rewrite (sp_blank _ H1), H2. reflexivity. Qed.

Lemma take_l_all_id : forall {A} (q : A -> bool) X, forallb q X = true -> take_l q X = X /\ trim_l q X = [].
Proof.
  intros A q. induction X as [|x X IH]; intro H; [split; reflexivity|]. cbn in *. apply andb_prop in H. destruct H as [H1 H2].
  rewrite H1. destruct (IH H2) as [I1 I2]. rewrite I1, I2. split; reflexivity.
Qed.

Lemma l010_line_idem : forall l, l010_line (l010_line l) = l010_line l.
Proof.
  intro l. assert (E0 : l010_line l = take_l lblank l ++ l010_scan false (trim_l lblank l)) by reflexivity.
  rewrite E0. pose proof (take_l_all lblank l) as Hlead.
  destruct (trim_l lblank l) as [|p r] eqn:E.
  - cbn [l010_scan]. rewrite app_nil_r. unfold l010_line. destruct (take_l_all_id lblank _ Hlead) as [I1 I2].
    rewrite I1, I2. cbn [l010_scan]. apply app_nil_r.
  - pose proof (trim_l_head _ _ _ _ E) as Hp.
    assert (Hc : cspace p = false) by (destruct (cspace p) eqn:Ec; [rewrite (cspace_lblank p Ec) in Hp; discriminate|reflexivity]).
    cbn [l010_scan]. rewrite Hc. unfold l010_line.
    rewrite trim_l_app_all by exact Hlead. rewrite trim_l_stop by exact Hp.
    rewrite take_l_app_all by exact Hlead. rewrite take_l_stop by exact Hp. rewrite app_nil_r.
    cbn [l010_scan]. rewrite Hc. rewrite l010_scan_idem. reflexivity.
Qed.

Theorem l010_fix_idempotent : forall t, l010_fix (l010_fix t) = l010_fix t.
Proof. intro t. apply (per_cline_idem l010_line l010_lock l010_line_idem). Qed.

Section L010Reading.
  Variable is_space : N -> bool.
  Variable upper_ascii : N -> option N.
  Notation RD := (RD is_space upper_ascii).
  Notation item := (item is_space upper_ascii).
  Notation rest_ws := (rest_ws is_space).

  Definition sif (b : bool) (X : list vtok) : list vtok := if b then scons VW X else X.

  Lemma sp_wsc : forall c, is_sp c = true -> wsc is_space c = true.
  Proof. intros c H. unfold wsc, is_blank. rewrite H. rewrite orb_true_r. reflexivity. Qed.

  Lemma rest_ws_l010_scan : forall t ps, rest_ws (l010_scan ps t) = rest_ws t.
  Proof.
    unfold Lint.rest_ws. induction t as [|p t IH]; intro ps; [reflexivity|]. cbn [l010_scan]. destruct (cspace p) eqn:E.
    - destruct (cspace_spec p E) as [S _]. cbn [forallb]. rewrite (sp_wsc _ S). cbn [andb]. destruct ps; cbn [app forallb]; rewrite ?(sp_wsc _ S); cbn [andb]; apply IH.
    - cbn [forallb]. rewrite IH. reflexivity.
  Qed.

  Lemma item_code_space : forall p t, cspace p = true -> item p t = VW.
  Proof. intros p t H. destruct (cspace_spec p H) as [S K]. unfold Lint.item, Lint.vt. rewrite K. cbn [N.eqb]. rewrite (sp_wsc _ S). reflexivity. Qed.

  Lemma RD_l010_scan : forall t Z ps, sif ps (RD (l010_scan ps t) Z) = sif ps (RD t Z).
  Proof.
    induction t as [|p t IH]; intros Z ps; [reflexivity|]. cbn [l010_scan]. destruct (cspace p) eqn:E.
    - cbn [Lint.RD]. rewrite (item_code_space p t E). destruct ps; cbn [app sif].
      + rewrite scons_W_idem. exact (IH Z true).
      + cbn [Lint.RD]. rewrite (item_code_space p _ E). exact (IH Z true).
    - cbn [Lint.RD]. f_equal. unfold Lint.item. rewrite rest_ws_l010_scan. rewrite (IH Z false : RD _ _ = RD _ _). reflexivity.
  Qed.

  Lemma l010_line_RD : forall cl Z, RD (l010_line cl) Z = RD cl Z.
  Proof.
    intros cl Z. unfold l010_line. rewrite <- (take_trim_l lblank cl) at 3.
    destruct (lblank_wsp is_space (take_l lblank cl) (take_l_all lblank cl)) as [_ C].
    rewrite !RD_app_code by exact C. f_equal. exact (RD_l010_scan (trim_l lblank cl) Z false).
  Qed.

  Theorem l010_keeps_reading : forall t, reading is_space upper_ascii (l010_fix t) = reading is_space upper_ascii t.
  Proof.
    intro t. unfold Lint.reading, Lint.l010_fix. rewrite (relex l010_line t l010_lock). f_equal.
    apply RDL_map; [apply clines_cons_ok|]. intros cl Z _. apply l010_line_RD.
  Qed.
End L010Reading.

(* ------------------------------------------------------------------------------------------------ *)
(* L007 *)

Section L007.
  Variables is_letter is_digit is_space : N -> bool.
  Variable upper_ascii : N -> option N.
  Variable keywords : list (list N).
  (* facts about the tables, decided on the regenerated tables in Inst_C17 *)
  Definition plainN (n : N) : Prop := nq n <> 39 /\ nq n <> 34 /\ n <> 96 /\ n <> 45 /\ n <> 42 /\ n <> 47 /\ n <> 10 /\ n <> 36.
  Hypothesis up_plain : forall x u, upper_ascii x = Some u -> plainN x /\ plainN u.
  (* a rune with an ASCII upper-case image is a letter: it starts and continues a tag, as its image does *)
  Definition up_tag (upper_ascii : N -> option N) : Prop :=
    forall x u, upper_ascii x = Some u -> ids x = true /\ idc x = true /\ idc u = true.
  Hypothesis up_id : up_tag upper_ascii.
  Hypothesis up_letter : forall x u, upper_ascii x = Some u -> is_letter u = true.
  Hypothesis up_idem : forall x u, upper_ascii x = Some u -> upper_ascii u = Some u.
  Hypothesis up_nows : forall x u, upper_ascii x = Some u -> is_space x = false /\ x <> 32 /\ x <> 9 /\ x <> 10.

  Notation kw_of := (kw_of upper_ascii keywords).
  Notation conv_word := (conv_word upper_ascii keywords).
  Notation scan := (l007_scan is_letter is_digit upper_ascii keywords).
  Notation line7 := (l007_line is_letter is_digit upper_ascii keywords).
  Notation wordc := (wordc is_letter is_digit).

  Lemma plainN_plainc : forall c, plainN (cp c) -> plainc c = true.
  Proof.
    intros c (A & B & C & D & E & F & G & H). unfold plainc, is_quote, lan0, is_nl.
    apply N.eqb_neq in A. apply N.eqb_neq in B. apply N.eqb_neq in C. apply N.eqb_neq in D. apply N.eqb_neq in E. apply N.eqb_neq in F. apply N.eqb_neq in G.
    apply N.eqb_neq in H. rewrite A, B, C, D, E, F, G, H. reflexivity.
  Qed.

  (* the fixed line is related to the line character by character: a character is copied, or a code character with an
     upper-case ASCII image is replaced by that image *)
  Definition prel (p p' : cc) : Prop := p' = p \/ (snd p = 0 /\ exists u, upper_ascii (cp (fst p)) = Some u /\ p' = (asc u, 0)).

  Lemma Forall2_refl_prel : forall w, Forall2 prel w w.
  Proof. induction w as [|p w IH]; constructor; [left; reflexivity|exact IH]. Qed.

  Lemma conv_prel : forall w, (forall p, In p w -> snd p = 0) -> Forall2 prel w (conv_word w).
  Proof.
    intros w Hw. unfold Lint.conv_word, Lint.kw_of.
    destruct (all_some (map (fun c => upper_ascii (cp c)) (chars w))) as [u|] eqn:E; [|apply Forall2_refl_prel].
    destruct (existsb (list_eqb u) keywords); [|apply Forall2_refl_prel].
    revert u E. induction w as [|p w IH]; intros u E; cbn in E; [inversion E; constructor|].
    destruct (upper_ascii (cp (fst p))) as [x|] eqn:Ex; [|discriminate].
    destruct (all_some (map (fun c0 => upper_ascii (cp c0)) (map fst w))) as [r|] eqn:Er; [|discriminate].
    inversion E; subst. cbn [map]. constructor.
    - right. split; [apply Hw; left; reflexivity|]. exists x. split; [exact Ex|reflexivity].
    - apply IH; [intros q Hq; apply Hw; right; exact Hq|exact Er].
  Qed.

  Definition curcode (cur : option (list cc)) : Prop := match cur with Some w => forall p, In p w -> snd p = 0 | None => True end.
  Definition pre (cur : option (list cc)) : list cc := match cur with Some w => rev w | None => [] end.

  Lemma flush_prel : forall cur, curcode cur ->
    Forall2 prel (pre cur) (match cur with Some w => conv_word (rev w) | None => [] end).
  Proof. intros [w|] H; [|constructor]. apply conv_prel. intros p Hp. apply H. apply in_rev. exact Hp. Qed.

  Lemma wordc_code : forall inw p, wordc inw p = true -> snd p = 0.
  Proof. intros inw p H. unfold Lint.wordc, code0 in H. apply andb_prop in H. destruct H as [H _]. apply N.eqb_eq. exact H. Qed.

  Lemma scan7_prel : forall l cur, curcode cur -> Forall2 prel (pre cur ++ l) (scan cur l).
  Proof.
    induction l as [|p t IH]; intros cur H.
    - cbn [l007_scan]. rewrite app_nil_r. apply flush_prel. exact H.
    - cbn [l007_scan]. destruct (wordc match cur with Some _ => true | None => false end p) eqn:E.
      + set (cur' := Some (p :: match cur with Some w => w | None => [] end)).
        assert (Hc' : curcode cur').
        { unfold cur', curcode. intros x [Hx|Hx]; [subst; eapply wordc_code; exact E|]. destruct cur as [w|]; [apply H; exact Hx|destruct Hx]. }
        specialize (IH cur' Hc'). unfold cur', pre in IH. cbn [rev] in IH. rewrite <- app_assoc in IH. cbn [app] in IH.
        destruct cur as [w|]; exact IH.
      + apply Forall2_app; [apply flush_prel; exact H|]. constructor; [left; reflexivity|apply (IH None I)].
  Qed.

  Lemma line7_prel : forall l, Forall2 prel l (line7 l).
  Proof. intro l. unfold l007_line. exact (scan7_prel l None I). Qed.

  (* what the scanner may look ahead at is the same after the conversion *)
  Lemma prel_obs : forall p p', prel p p' ->
    (cp (fst p') =? 45) = (cp (fst p) =? 45) /\ (cp (fst p') =? 42) = (cp (fst p) =? 42) /\ (cp (fst p') =? 47) = (cp (fst p) =? 47) /\
    (cp (fst p') =? 39) = (cp (fst p) =? 39) /\ (nq (cp (fst p')) =? 39) = (nq (cp (fst p)) =? 39) /\ (cp (fst p') =? 36) = (cp (fst p) =? 36) /\
    idc (cp (fst p')) = idc (cp (fst p)).
  Proof.
    intros p p' [H|(K & u & H1 & H2)]; subst; [repeat split|]. destruct (up_plain _ _ H1) as [P1 P2]. destruct (up_id _ _ H1) as (_ & I1 & I2).
    assert (Q : forall n, plainN n -> (n =? 45) = false /\ (n =? 42) = false /\ (n =? 47) = false /\ (n =? 39) = false /\ (nq n =? 39) = false /\ (n =? 36) = false).
    { intros n (A & B & C & D & E & F & G & H). repeat split; apply N.eqb_neq; try assumption. intro Z. apply A. apply nq_39. exact Z. }
    destruct (Q _ P1) as (A1 & A2 & A3 & A4 & A5 & A6). destruct (Q _ P2) as (B1 & B2 & B3 & B4 & B5 & B6).
    cbn [fst asc cp]. rewrite A1, A2, A3, A4, A5, A6, B1, B2, B3, B4, B5, B6, I1, I2. repeat split.
  Qed.

  Lemma prel_scan_none : forall t t', Forall2 prel t t' -> scan_tag (chars t) = None -> scan_tag (chars t') = None.
  Proof.
    intros t t' H. induction H as [|p p' t t' Hp _ IH]; intro Hs; [reflexivity|]. cbn [chars map Lint.scan_tag] in *. fold (chars t) in *. fold (chars t') in *.
    destruct (prel_obs p p' Hp) as (_ & _ & _ & _ & _ & E6 & E7). rewrite E6, E7.
    destruct (cp (fst p) =? 36); [discriminate|]. destruct (idc (cp (fst p))); [|reflexivity].
    destruct (Lint.scan_tag idc (chars t)); [discriminate|]. rewrite (IH eq_refl). reflexivity.
  Qed.

  Lemma prel_scan_some : forall t t', Forall2 prel t t' -> forall tag, scan_tag (chars t) = Some tag ->
    forallb lit1 (firstn (S (length tag)) t) = true -> scan_tag (chars t') = Some tag.
  Proof.
    intros t t' H. induction H as [|p p' t t' Hp _ IH]; intros tag Hs Hl; [discriminate|]. cbn [chars map Lint.scan_tag] in *. fold (chars t) in *. fold (chars t') in *.
    cbn [firstn forallb] in Hl. apply andb_prop in Hl. destruct Hl as [L1 L2].
    assert (p' = p).
    { destruct Hp as [Hp|(K & _)]; [exact Hp|]. unfold lit1 in L1. rewrite K in L1. discriminate. }
    subst p'. destruct (cp (fst p) =? 36); [exact Hs|]. destruct (idc (cp (fst p))); [|discriminate].
    destruct (Lint.scan_tag idc (chars t)) as [g|] eqn:Eg; [|discriminate]. injection Hs as <-. cbn [length] in L2.
    rewrite (IH g eq_refl L2). reflexivity.
  Qed.

  Lemma prel_la_ok : forall t t', Forall2 prel t t' -> la_ok t t'.
  Proof.
    intros t t' H. unfold la_ok.
    assert (N1 : forall k, (k = 45 \/ k = 42 \/ k = 47) -> next_is k (chars t) = next_is k (chars t')).
    { intros k Hk. destruct H as [|p p' t t' Hp _]; [reflexivity|]. cbn [chars map next_is].
      destruct (prel_obs p p' Hp) as (E1 & E2 & E3 & _). destruct Hk as [Hk|[Hk|Hk]]; subst k; symmetry; assumption. }
    split; [apply N1; auto|]. split; [apply N1; auto|]. split; [apply N1; auto|]. split; [|split; [|split]].
    - destruct H as [|p p' t t' Hp _]; [reflexivity|]. cbn [chars map next_q39]. destruct (prel_obs p p' Hp) as (_ & _ & _ & _ & E5 & _). symmetry. exact E5.
    - destruct H as [|p p' t t' Hp Ht]; [reflexivity|]. cbn [chars map]. rewrite !next2_cons.
      destruct (prel_obs p p' Hp) as (_ & _ & _ & E4 & _). rewrite E4. f_equal.
      destruct Ht as [|q q' t t' Hq _]; [reflexivity|]. cbn [chars map next_is]. destruct (prel_obs q q' Hq) as (_ & _ & _ & F4 & _). symmetry. exact F4.
    - intro Hn. pose proof (prel_scan_none t t' H) as Sn. destruct H as [|p p' t t' Hp Ht]; [reflexivity|].
      cbn [chars map Lint.dollar_tag] in *. fold (chars t) in *. fold (chars t') in *.
      destruct ((cp (fst p') =? 36) || ids (cp (fst p'))) eqn:Ec'; [|reflexivity].
      apply Sn. destruct ((cp (fst p) =? 36) || ids (cp (fst p))) eqn:Ec; [exact Hn|].
      (* the head of t does not start a tag: then it was not converted *)
      destruct Hp as [Hp|(K & u & H1 & H2)]; [subst p'; rewrite Ec in Ec'; discriminate|].
      destruct (up_id _ _ H1) as (I0 & _). rewrite I0, orb_true_r in Ec. discriminate.
    - intros tag Hs Hl. pose proof (prel_scan_some t t' H tag) as Ss. destruct H as [|p p' t t' Hp Ht]; [discriminate|].
      cbn [chars map Lint.dollar_tag] in *. fold (chars t) in *. fold (chars t') in *.
      assert (p' = p).
      { cbn [firstn forallb] in Hl. apply andb_prop in Hl. destruct Hl as [L1 _].
        destruct Hp as [Hp|(K & _)]; [exact Hp|]. unfold lit1 in L1. rewrite K in L1. discriminate. }
      subst p'. destruct ((cp (fst p) =? 36) || ids (cp (fst p))); [|discriminate]. apply Ss; assumption.
  Qed.

  Lemma prel_edit : forall cl out, Forall2 prel cl out -> forall b, edit b cl out.
  Proof.
    intros cl out H. induction H as [|p p' t t' Hp Ht IH]; intro b; [constructor|].
    destruct Hp as [Hp|(K & u & H1 & H2)]; subst.
    - apply e_keep; [apply IH|apply prel_la_ok; exact Ht].
    - destruct (up_plain _ _ H1) as [P1 P2].
      apply e_del; [apply plainN_plainc; exact P1|left; exact K|]. unfold code0. rewrite K. cbn [N.eqb].
      apply e_ins; [apply (plainN_plainc (asc u)); exact P2|apply IH].
  Qed.

  Lemma l007_lock : lock line7.
  Proof. apply edit_is_lock. intros cl _. apply prel_edit. apply line7_prel. Qed.

  (* ---- reading ---- *)
  Notation RD := (RD is_space upper_ascii).
  Notation item := (item is_space upper_ascii).
  Notation rest_ws := (rest_ws is_space).
  Notation wsc := (wsc is_space).

  Lemma up_not_wsc : forall c u, upper_ascii (cp c) = Some u -> wsc c = false.
  Proof.
    intros c u H. destruct (up_nows _ _ H) as (S1 & S2 & S3 & S4). unfold Lint.wsc, spacec, is_blank, is_sp, is_tab, is_nl.
    rewrite S1. apply N.eqb_neq in S2. apply N.eqb_neq in S3. apply N.eqb_neq in S4. rewrite S2, S3, S4. reflexivity.
  Qed.

  Lemma prel_wsc : forall p p', prel p p' -> wsc (fst p') = wsc (fst p).
  Proof.
    intros p p' [H|(K & u & H1 & H2)]; subst; [reflexivity|]. cbn [fst].
    rewrite (up_not_wsc (fst p) u H1). apply (up_not_wsc (asc u) u). cbn [asc cp]. exact (up_idem _ _ H1).
  Qed.

  Lemma prel_rest_ws : forall t t', Forall2 prel t t' -> rest_ws t' = rest_ws t.
  Proof.
    unfold Lint.rest_ws. intros t t' H. induction H as [|p p' t t' Hp _ IH]; [reflexivity|]. cbn [forallb].
    rewrite (prel_wsc p p' Hp), IH. reflexivity.
  Qed.

  Lemma prel_item : forall p p' t t', prel p p' -> Forall2 prel t t' -> item p' t' = item p t.
  Proof.
    intros p p' t t' Hp Ht. destruct Hp as [Hp|(K & u & H1 & H2)]; subst.
    - unfold Lint.item. rewrite (prel_rest_ws t t' Ht). reflexivity.
    - unfold Lint.item. cbn [snd fst]. rewrite K. cbn [N.eqb]. unfold Lint.vt.
      rewrite (up_not_wsc (fst p) u H1).
      assert (Ea : upper_ascii (cp (asc u)) = Some u) by (cbn [asc cp]; exact (up_idem _ _ H1)).
      rewrite (up_not_wsc (asc u) u Ea). unfold Lint.fold. rewrite Ea, H1. reflexivity.
  Qed.

  Lemma prel_RD : forall cl out Z, Forall2 prel cl out -> RD out Z = RD cl Z.
  Proof.
    intros cl out Z H. induction H as [|p p' t t' Hp Ht IH]; [reflexivity|]. cbn [Lint.RD].
    rewrite (prel_item p p' t t' Hp Ht), IH. reflexivity.
  Qed.

  Theorem l007_keeps_reading : forall t,
    reading is_space upper_ascii (l007_fix is_letter is_digit upper_ascii keywords t) = reading is_space upper_ascii t.
  Proof.
    intro t. unfold Lint.reading, Lint.l007_fix. rewrite (relex line7 t l007_lock). f_equal.
    apply RDL_map; [apply clines_cons_ok|]. intros cl Z _. apply prel_RD. apply line7_prel.
  Qed.
End L007.

(* ------------------------------------------------------------------------------------------------ *)
(* L003 *)

Section L003.
  Variable is_space : N -> bool.
  Notation blank := (cblank is_space).

  (* no run of blank lines exceeds mx, the first run being counted from cnt *)
  Fixpoint bounded (mx cnt : nat) (ls : list (bool * list cc)) : bool :=
    match ls with
    | [] => true
    | l :: r => if blank l then (S cnt <=? mx)%nat && bounded mx (S cnt) r else bounded mx 0 r
    end.

  Lemma pass_bounded : forall mx ls cnt, bounded mx (Nat.min cnt mx) (l003_pass is_space mx cnt ls) = true.
  Proof.
    intros mx. induction ls as [|l r IH]; intro cnt; [reflexivity|].
    cbn [l003_pass]. destruct (blank l) eqn:Eb.
    - destruct (S cnt <=? mx)%nat eqn:El.
      + apply Nat.leb_le in El. cbn [bounded]. rewrite Eb.
        replace (Nat.min cnt mx) with cnt by lia.
        replace (S cnt <=? mx)%nat with true by (symmetry; apply Nat.leb_le; lia). cbn [andb].
        specialize (IH (S cnt)). replace (Nat.min (S cnt) mx) with (S cnt) in IH by lia. exact IH.
      + apply Nat.leb_gt in El. specialize (IH (S cnt)).
        replace (Nat.min (S cnt) mx) with mx in IH by lia. replace (Nat.min cnt mx) with mx by lia. exact IH.
    - cbn [bounded]. rewrite Eb. specialize (IH 0%nat). cbn [Nat.min] in IH. exact IH.
  Qed.

  Lemma pass_fixed : forall mx ls cnt, bounded mx cnt ls = true -> l003_pass is_space mx cnt ls = ls.
  Proof.
    intros mx. induction ls as [|l r IH]; intros cnt H; [reflexivity|].
    cbn [bounded] in H. cbn [l003_pass]. destruct (blank l).
    - apply andb_prop in H. destruct H as [H1 H2]. rewrite H1. f_equal. apply IH. exact H2.
    - f_equal. apply IH. exact H.
  Qed.

  Lemma bounded_all_blank : forall mx suf cnt, forallb blank suf = true -> bounded mx cnt suf = true ->
    (cnt + length suf <= Nat.max mx cnt)%nat.
  Proof.
    intros mx. induction suf as [|l r IH]; intros cnt Hb H; [cbn; lia|].
    cbn in Hb. apply andb_prop in Hb. destruct Hb as [Hl Hr]. cbn [bounded] in H. rewrite Hl in H.
    apply andb_prop in H. destruct H as [H1 H2]. apply Nat.leb_le in H1.
    specialize (IH (S cnt) Hr H2). cbn [length]. lia.
  Qed.

  Lemma bounded_app : forall mx pr suf cnt, bounded mx cnt (pr ++ suf) = true ->
    exists c, (c <= mx \/ (pr = [] /\ c = cnt))%nat /\ bounded mx c suf = true.
  Proof.
    intros mx. induction pr as [|l r IH]; intros suf cnt H.
    - exists cnt. split; [right; split; reflexivity|exact H].
    - cbn [app bounded] in H. destruct (blank l).
      + apply andb_prop in H. destruct H as [H1 H2]. apply Nat.leb_le in H1.
        destruct (IH suf (S cnt) H2) as (c & Hc & Hb). exists c. split; [|exact Hb].
        destruct Hc as [Hc|[_ Hc]]; left; lia.
      + destruct (IH suf 0%nat H) as (c & Hc & Hb). exists c. split; [|exact Hb].
        destruct Hc as [Hc|[_ Hc]]; left; lia.
  Qed.

  Lemma trailing_bounded : forall mx ls, bounded mx 0 ls = true -> (trailing_blanks is_space ls <= mx)%nat.
  Proof.
    intros mx ls H. unfold trailing_blanks.
    pose proof (take_trim_l blank (rev ls)) as E.
    assert (E2 : ls = rev (trim_l blank (rev ls)) ++ rev (take_l blank (rev ls))).
    { rewrite <- rev_app_distr. rewrite E. symmetry. apply rev_involutive. }
    rewrite E2 in H. apply bounded_app in H. destruct H as (c & Hc & Hb).
    assert (Hall : forallb blank (rev (take_l blank (rev ls))) = true).
    { apply forallb_forall. intros x Hx. apply in_rev in Hx.
      pose proof (take_l_all blank (rev ls)) as Ht. rewrite forallb_forall in Ht. apply Ht. exact Hx. }
    pose proof (bounded_all_blank mx _ c Hall Hb) as Hlen. rewrite rev_length in Hlen.
    destruct Hc as [Hc|[_ Hc]]; lia.
  Qed.

  Lemma trim_end_fixed : forall fuel mx ls, bounded mx 0 ls = true -> l003_trim_end is_space fuel mx ls = ls.
  Proof.
    intros fuel mx ls H. destruct fuel as [|k]; [reflexivity|]. cbn [l003_trim_end].
    destruct (rev ls) as [|lst r]; [reflexivity|]. destruct (blank lst); [|reflexivity].
    pose proof (trailing_bounded mx ls H) as Ht.
    replace (mx <? trailing_blanks is_space ls)%nat with false; [reflexivity|].
    symmetry. apply Nat.ltb_ge. exact Ht.
  Qed.

  Lemma pass_incl : forall mx ls cnt x, In x (l003_pass is_space mx cnt ls) -> In x ls.
  Proof.
    intros mx. induction ls as [|l r IH]; intros cnt x H; [exact H|]. cbn [l003_pass] in H.
    destruct (blank l).
    - destruct (S cnt <=? mx)%nat; [destruct H as [H|H]; [left; exact H|right; eapply IH; exact H]|right; eapply IH; exact H].
    - destruct H as [H|H]; [left; exact H|right; eapply IH; exact H].
  Qed.

  Lemma pass_nonempty : forall mx ls, (1 <= mx)%nat -> ls <> [] -> l003_pass is_space mx 0 ls <> [].
  Proof.
    intros mx [|l r] Hm H; [contradiction|]. cbn [l003_pass]. destruct (blank l); [|discriminate].
    replace (1 <=? mx)%nat with true by (symmetry; apply Nat.leb_le; exact Hm). discriminate.
  Qed.

  Lemma check_bounded : forall mx ls cnt start n, (cnt <= mx)%nat -> bounded mx cnt ls = true ->
    l003_check_lines is_space mx cnt start n ls = [].
  Proof.
    intros mx. induction ls as [|l r IH]; intros cnt start n Hc H.
    - cbn [l003_check_lines]. replace (mx <? cnt)%nat with false by (symmetry; apply Nat.ltb_ge; exact Hc). reflexivity.
    - cbn [l003_check_lines]. cbn [bounded] in H. destruct (blank l).
      + apply andb_prop in H. destruct H as [H1 H2]. apply Nat.leb_le in H1. apply IH; [exact H1|exact H2].
      + replace (mx <? cnt)%nat with false by (symmetry; apply Nat.ltb_ge; exact Hc). cbn [app].
        apply IH; [lia|exact H].
  Qed.

  Lemma l003_lines_eq : forall mx ls, l003_lines is_space mx ls = l003_pass is_space mx 0 ls.
  Proof.
    intros mx ls. unfold l003_lines. apply trim_end_fixed. exact (pass_bounded mx ls 0%nat).
  Qed.
End L003.

Section L003Text.
  Variable is_space : N -> bool.
  Variable upper_ascii : N -> option N.
  (* white space characters are not delimiters of the scanner *)
  Hypothesis sp_nodelim : sp_ok is_space.
  Notation cblank := (cblank is_space).
  Notation pass := (l003_pass is_space).

  Lemma spacec_plain : forall c, spacec is_space c = true -> is_nl c = false -> plainc c = true.
  Proof.
    intros c H Hn. destruct sp_nodelim as (A & B & C & D & E & F & Q1 & Q2 & Q3 & Q4 & Q5 & Q6 & Q7 & _). unfold spacec in H.
    unfold plainc, is_quote, lan0. rewrite Hn.
    assert (G : forall n, is_space n = false -> (cp c =? n) = false).
    { intros n Hs. destruct (cp c =? n) eqn:En; [|reflexivity]. apply N.eqb_eq in En. rewrite En in H. rewrite Hs in H. discriminate H. }
    rewrite (nq_other (cp c) (G 8216 Q1) (G 8217 Q2) (G 171 Q3) (G 187 Q4) (G 8220 Q5) (G 8221 Q6)).
    rewrite (G 39 A), (G 34 B), (G 96 C), (G 45 D), (G 42 E), (G 47 F), (G 36 Q7). reflexivity.
  Qed.
  (* a white space character stops every look-ahead *)
  Lemma spacec_lan : forall c, spacec is_space c = true -> is_nl c = false -> lan c = true.
  Proof.
    intros c H Hn. apply plain_lan; [apply spacec_plain; assumption|]. destruct sp_nodelim as (_ & _ & _ & _ & _ & _ & _ & _ & _ & _ & _ & _ & _ & Q).
    apply Q. exact H.
  Qed.

  Lemma blank_line_all : forall l, blank_line is_space l = true -> forallb (spacec is_space) l = true.
  Proof.
    intros l H. unfold blank_line, trim_space in H. destruct (trim_r (spacec is_space) (trim_l (spacec is_space) l)) eqn:E; [|discriminate].
    apply trim_r_nil_iff in E. rewrite <- (take_trim_l (spacec is_space) l). rewrite forallb_app. rewrite take_l_all, E. reflexivity.
  Qed.
  Lemma all_blank_line : forall l, forallb (spacec is_space) l = true -> blank_line is_space l = true.
  Proof.
    intros l H. unfold blank_line, trim_space. apply trim_l_nil_iff in H. rewrite H. reflexivity.
  Qed.

  Lemma lex_plain_code : forall l, forallb plainc l = true -> lex SCode l = map (fun _ => 0) l /\ lex_end SCode l = SCode.
  Proof.
    induction l as [|c t IH]; intro H; [split; reflexivity|]. cbn in H. apply andb_prop in H. destruct H as [H1 H2].
    cbn [Lint.lex Lint.lex_end map]. rewrite (lstep_plain_code c t H1). cbn [fst snd]. destruct (IH H2) as [I1 I2]. rewrite I1, I2. split; reflexivity.
  Qed.

  Lemma ws_line_plain : forall l, no_nl l -> forallb (spacec is_space) l = true -> forallb plainc l = true.
  Proof.
    intros l Hn H. apply forallb_forall. intros c Hc. rewrite forallb_forall in H. apply spacec_plain; [apply H; exact Hc|apply Hn; exact Hc].
  Qed.

  (* a blank line of code: scanned in code, it leaves the scanner in code *)
  Lemma thread_blank : forall l r, no_nl l -> blank_line is_space l = true ->
    thread SCode true (l :: r) = (true, combine l (map (fun _ => 0) l)) :: thread SCode true r.
  Proof.
    intros l r Hn Hb. cbn [thread]. destruct (lex_plain_code l (ws_line_plain l Hn (blank_line_all l Hb))) as [E1 E2].
    rewrite E1, E2. reflexivity.
  Qed.

  Definition tinv (st : lst) (flag : bool) : Prop := flag = true -> st = SCode.

  Lemma tinv_next : forall st l, tinv (snd (nl_step (lex_end st l))) (fst (nl_step (lex_end st l)) =? 0).
  Proof. intros st l H. apply nl_step_code. exact H. Qed.

  Lemma chars_snd_thread : forall st flag l, cblank (flag, combine l (lex st l)) = (flag && blank_line is_space l).
  Proof. intros st flag l. unfold Lint.cblank. cbn [fst snd]. rewrite chars_combine by apply lex_length. reflexivity. Qed.

  Lemma thread_pass : forall mx ls st flag cnt, tinv st flag -> Forall no_nl ls ->
    thread st flag (map (fun fl => chars (snd fl)) (pass mx cnt (thread st flag ls))) = pass mx cnt (thread st flag ls).
  Proof.
    intros mx. induction ls as [|l r IH]; intros st flag cnt Hi Hall; [reflexivity|]. inversion Hall as [|? ? Hl Hr]; subst.
    cbn [thread l003_pass]. rewrite chars_snd_thread. destruct (flag && blank_line is_space l) eqn:Eb.
    - apply andb_prop in Eb. destruct Eb as [Ef Eb]. subst flag. rewrite (Hi eq_refl) in *.
      destruct (lex_plain_code l (ws_line_plain l Hl (blank_line_all l Eb))) as [E1 E2]. rewrite E2. cbn [nl_step Lint.lstep fst snd N.eqb].
      change (snd (nl_step SCode)) with SCode. change (fst (nl_step SCode) =? 0) with true.
      destruct (S cnt <=? mx)%nat.
      + cbn [map thread snd]. rewrite chars_combine by apply lex_length. rewrite E2.
        change (snd (nl_step SCode)) with SCode. change (fst (nl_step SCode) =? 0) with true. f_equal. apply IH; [intros _; reflexivity|exact Hr].
      + apply IH; [intros _; reflexivity|exact Hr].
    - cbn [map thread snd]. rewrite chars_combine by apply lex_length. f_equal. apply IH; [apply tinv_next|exact Hr].
  Qed.

  Lemma thread_chars_nonl : forall ls st flag, Forall no_nl ls -> forall fl, In fl (thread st flag ls) -> no_nl (chars (snd fl)).
  Proof.
    induction ls as [|l r IH]; intros st flag Hall fl H; [destruct H|]. inversion Hall as [|? ? Hl Hr]; subst. cbn [thread] in H.
    destruct H as [H|H]; [subst; cbn [snd]; rewrite chars_combine by apply lex_length; exact Hl|eapply IH; eassumption].
  Qed.

  Lemma l003_relex : forall mx t, (1 <= mx)%nat -> clines (l003_fix_mx is_space mx t) = pass mx 0 (clines t).
  Proof.
    intros mx t Hm. unfold Lint.l003_fix_mx. rewrite l003_lines_eq. rewrite (clines_thread t). rewrite clines_join.
    - apply thread_pass; [intros _; reflexivity|apply split_no_nl].
    - apply map_ne. apply pass_nonempty; [exact Hm|]. apply thread_ne. apply split_nonempty.
    - apply Forall_forall. intros x Hx. apply in_map_iff in Hx. destruct Hx as (fl & E & Hfl). subst. apply pass_incl in Hfl.
      eapply thread_chars_nonl; [apply split_no_nl|exact Hfl].
  Qed.

  Theorem l003_fix_idempotent_mx : forall mx t, (1 <= mx)%nat ->
    l003_fix_mx is_space mx (l003_fix_mx is_space mx t) = l003_fix_mx is_space mx t.
  Proof.
    intros mx t Hm. unfold Lint.l003_fix_mx at 1. rewrite l003_lines_eq. rewrite (l003_relex mx t Hm).
    rewrite pass_fixed by exact (pass_bounded is_space mx (clines t) 0%nat).
    unfold Lint.l003_fix_mx. rewrite l003_lines_eq. reflexivity.
  Qed.

  Theorem l003_fix_clears_mx : forall mx t, (1 <= mx)%nat -> l003_check_mx is_space mx (l003_fix_mx is_space mx t) = [].
  Proof.
    intros mx t Hm. unfold Lint.l003_check_mx. rewrite (l003_relex mx t Hm).
    apply check_bounded; [lia|]. exact (pass_bounded is_space mx (clines t) 0%nat).
  Qed.

  (* ---- reading ---- *)
  Notation RD := (RD is_space upper_ascii).
  Notation RDL := (RDL is_space upper_ascii).
  Definition sep (fl : bool * list cc) : vtok := if fst fl then VW else VL nlc.
  (* the reading of lines, preceded by the separator in front of the first one *)
  Definition T (ls : list (bool * list cc)) : list vtok := match ls with [] => [] | fl :: _ => scons (sep fl) (RDL ls) end.
  Definition hflag (ls : list (bool * list cc)) : Prop := match ls with [] => True | fl :: _ => fst fl = true end.

  Lemma RDL_T : forall fl r, RDL (fl :: r) = RD (snd fl) (T r).
  Proof. intros fl [|fl2 r]; reflexivity. Qed.

  Lemma T_absorbs : forall r, hflag r -> absorbs (T r).
  Proof. intros [|fl r] H; [reflexivity|]. unfold T, sep. cbn in H. rewrite H. apply absorbs_scons. Qed.

  Lemma T_blank : forall x r, fst x = true -> forallb (wsp is_space) (snd x) = true -> hflag r -> T (x :: r) = T r.
  Proof.
    intros x r Hf Hw Hr. unfold T at 1. unfold sep. rewrite Hf. rewrite RDL_T. rewrite (sW_RD_wsp is_space upper_ascii _ _ Hw).
    apply T_absorbs. exact Hr.
  Qed.

  (* blank lines of the scanner's output are code white space and are followed by a line that begins in code *)
  Fixpoint bl_ok (ls : list (bool * list cc)) : Prop :=
    match ls with
    | [] => True
    | fl :: r => (cblank fl = true -> forallb (wsp is_space) (snd fl) = true /\ hflag r) /\ bl_ok r
    end.

  Lemma thread_bl_ok : forall ls st flag, tinv st flag -> Forall no_nl ls -> bl_ok (thread st flag ls).
  Proof.
    induction ls as [|l r IH]; intros st flag Hi Hall; [exact I|]. inversion Hall as [|? ? Hl Hr]; subst.
    cbn [thread bl_ok]. split; [|apply IH; [apply tinv_next|exact Hr]].
    rewrite chars_snd_thread. intro Eb. apply andb_prop in Eb. destruct Eb as [Ef Eb]. subst flag. rewrite (Hi eq_refl) in *.
    pose proof (blank_line_all l Eb) as Hs.
    destruct (lex_plain_code l (ws_line_plain l Hl Hs)) as [E1 E2]. rewrite E1, E2. cbn [snd]. split.
    - clear -Hs. induction l as [|c l IH]; [reflexivity|]. cbn in *. apply andb_prop in Hs. destruct Hs as [H1 H2].
      unfold wsp at 1. cbn [fst snd]. unfold Lint.wsc. rewrite H1. cbn. apply IH. exact H2.
    - destruct r; [exact I|reflexivity].
  Qed.

  Lemma pass_hflag : forall mx r c, bl_ok r -> hflag r -> hflag (pass mx c r).
  Proof.
    intros mx. induction r as [|y r IH]; intros c Hb Hh; [exact I|]. destruct Hb as [Hy Hr]. cbn [l003_pass].
    destruct (cblank y) eqn:E.
    - destruct (S c <=? mx)%nat; [exact Hh|]. apply IH; [exact Hr|apply (Hy eq_refl)].
    - exact Hh.
  Qed.

  Lemma T_pass : forall mx ls c, bl_ok ls -> T (pass mx c ls) = T ls.
  Proof.
    intros mx. induction ls as [|x r IH]; intros c Hb; [reflexivity|]. destruct Hb as [Hx Hr]. cbn [l003_pass].
    destruct (cblank x) eqn:E.
    - destruct (Hx eq_refl) as [Hw Hh].
      assert (Hf : fst x = true) by (unfold Lint.cblank in E; apply andb_prop in E; tauto).
      rewrite (T_blank x r Hf Hw Hh). destruct (S c <=? mx)%nat.
      + rewrite (T_blank x _ Hf Hw (pass_hflag mx r (S c) Hr Hh)). apply IH. exact Hr.
      + apply IH. exact Hr.
    - unfold T. rewrite !RDL_T. rewrite (IH 0%nat Hr). reflexivity.
  Qed.

  Lemma clines_hflag : forall t, hflag (clines t).
  Proof. intro t. rewrite clines_thread. destruct (split_nl t) eqn:E; [exact I|reflexivity]. Qed.

  Lemma strip_T : forall ls, hflag ls -> strip_lead (T ls) = strip_lead (RDL ls).
  Proof. intros [|fl r] H; [reflexivity|]. unfold T, sep. cbn in H. rewrite H. apply strip_lead_scons. Qed.

  Theorem l003_keeps_reading : forall mx t, (1 <= mx)%nat ->
    reading is_space upper_ascii (l003_fix_mx is_space mx t) = reading is_space upper_ascii t.
  Proof.
    intros mx t Hm. unfold Lint.reading. rewrite (l003_relex mx t Hm).
    assert (Hb : bl_ok (clines t)) by (rewrite clines_thread; apply thread_bl_ok; [intros _; reflexivity|apply split_no_nl]).
    rewrite <- (strip_T (pass mx 0 (clines t))) by (apply pass_hflag; [exact Hb|apply clines_hflag]).
    rewrite <- (strip_T (clines t)) by apply clines_hflag. rewrite (T_pass mx _ 0%nat Hb). reflexivity.
  Qed.
End L003Text.
Ltac unf_T := unfold T.
Ltac unf_T1 := unfold T at 1.

Section CliReading.
  Variables is_letter is_digit is_space : N -> bool.
  Variable upper_ascii : N -> option N.
  Variable keywords : list (list N).
  Hypothesis up_plain : forall x u, upper_ascii x = Some u -> plainN x /\ plainN u.
  Hypothesis up_id : up_tag upper_ascii.
  Hypothesis up_idem : forall x u, upper_ascii x = Some u -> upper_ascii u = Some u.
  Hypothesis up_nows : forall x u, upper_ascii x = Some u -> is_space x = false /\ x <> 32 /\ x <> 9 /\ x <> 10.
  Hypothesis sp_nodelim : sp_ok is_space.

  Theorem cli_keeps_reading : forall t,
    reading is_space upper_ascii (cli_fix is_letter is_digit is_space upper_ascii keywords t) = reading is_space upper_ascii t.
  Proof.
    intro t. unfold Lint.cli_fix.
    rewrite (l007_keeps_reading is_letter is_digit is_space upper_ascii keywords up_plain up_id up_idem up_nows).
    rewrite l010_keeps_reading. unfold Lint.l003_fix. rewrite (l003_keeps_reading is_space upper_ascii sp_nodelim 1) by lia.
    rewrite l002_keeps_reading. apply l001_keeps_reading.
  Qed.
End CliReading.

(* ------------------------------------------------------------------------------------------------ *)
(* formatSQL *)

Section Format.
  Variable is_space : N -> bool.
  Variable upper_ascii : N -> option N.
  Hypothesis sp_nodelim : sp_ok is_space.
  Hypothesis sp32 : is_space 32 = true.
  Hypothesis sp9 : is_space 9 = true.

  Notation spacec := (spacec is_space).
  Notation tspace := (tspace is_space).
  Notation trim_code := (trim_code is_space).
  Notation spf := (fun p : cc => spacec (fst p)).

  Definition cpairs (l : list ch) : list cc := map (fun c => (c, 0)) l.

  (* the classified lines formatSQL emits *)
  Fixpoint flines (indent cur : list ch) (ls : list (bool * list cc)) : list (bool * list cc) :=
    match ls with
    | [] => []
    | (flag, l) :: r =>
        if flag then
          match trim_code l with
          | [] => flines indent cur r
          | tr => let cur' := fmt_next_indent upper_ascii indent cur (chars tr) in (true, cpairs cur' ++ tr) :: flines indent cur' r
          end
        else (false, l) :: flines indent cur r
    end.

  Lemma chars_cpairs : forall l, chars (cpairs l) = l.
  Proof. unfold chars, cpairs. intro l. rewrite map_map. cbn. apply map_id. Qed.

  Lemma chars_cpairs_app : forall x tr, chars (cpairs x ++ tr) = x ++ chars tr.
  Proof. intros x tr. unfold chars. rewrite map_app. fold (chars (cpairs x)). rewrite chars_cpairs. reflexivity. Qed.

  Lemma fmt_lines_flines : forall indent ls cur,
    fmt_lines is_space upper_ascii indent cur ls = map (fun fl => chars (snd fl)) (flines indent cur ls).
  Proof.
    intros indent. induction ls as [|[flag l] r IH]; intro cur; [reflexivity|]. cbn [fmt_lines flines]. destruct flag.
    - destruct (trim_code l) as [|p tr] eqn:E; [apply IH|]. cbn [map snd]. rewrite chars_cpairs_app. f_equal. apply IH.
    - cbn [map snd]. f_equal. apply IH.
  Qed.

  Lemma tspace_spec : forall p, tspace p = true -> spacec (fst p) = true /\ (snd p = 0 \/ snd p = 3).
  Proof.
    intros p H. unfold Lint.tspace in H. apply andb_prop in H. destruct H as [H1 H2]. split; [exact H1|].
    apply orb_prop in H2. destruct H2 as [H2|H2]; apply N.eqb_eq in H2; auto.
  Qed.

  Lemma edit_trim_r_tspace : forall cl b, cno_nl cl -> edit b cl (trim_r tspace cl).
  Proof.
    induction cl as [|p t IH]; intros b Hn; [constructor|].
    assert (Hp : is_nl (fst p) = false) by (apply Hn; left; reflexivity).
    assert (Ht : cno_nl t) by (intros q Hq; apply Hn; right; exact Hq).
    rewrite trim_r_cons. pose proof (IH (code0 p) Ht) as I.
    assert (L : la_ok t (trim_r tspace t)).
    { destruct (trim_r_split tspace t) as (bb & Et & Hb). apply la_eq_ok. rewrite Et at 1. unfold chars. rewrite map_app. apply la_app.
      destruct bb as [|q bb]; [reflexivity|]. cbn in Hb. apply andb_prop in Hb. destruct Hb as [Hq _]. cbn [map hd_neutral].
      apply (spacec_lan is_space sp_nodelim); [apply (tspace_spec q Hq)|]. apply Ht. rewrite Et. apply in_or_app. right. left. reflexivity. }
    destruct (trim_r tspace t) as [|a r] eqn:E.
    - destruct (tspace p) eqn:Ep.
      + destruct (tspace_spec p Ep) as [B K]. apply e_del; [apply (spacec_plain is_space sp_nodelim); assumption|exact K|]. exact I.
      + apply e_keep; assumption.
    - apply e_keep; assumption.
  Qed.

  Lemma edit_trim_l_sp : forall cl out, cno_nl cl -> edit true (trim_l spf cl) out -> edit true cl out.
  Proof.
    induction cl as [|p t IH]; intros out Hn H; [exact H|]. cbn [trim_l] in H. destruct (spacec (fst p)) eqn:E; [|exact H].
    apply e_delc; [apply (spacec_plain is_space sp_nodelim); [exact E|apply Hn; left; reflexivity]|].
    apply IH; [intros q Hq; apply Hn; right; exact Hq|exact H].
  Qed.

  Lemma edit_indent : forall ind cl out, forallb is_blank ind = true -> edit true cl out -> edit true cl (cpairs ind ++ out).
  Proof.
    induction ind as [|c ind IH]; intros cl out Hi H; [exact H|]. cbn in Hi. apply andb_prop in Hi. destruct Hi as [H1 H2].
    cbn [cpairs map app]. apply e_ins; [apply blank_plain; exact H1|]. apply IH; assumption.
  Qed.

  Lemma trim_l_cno : forall (q : cc -> bool) cl, cno_nl cl -> cno_nl (trim_l q cl).
  Proof. intros q cl H p Hp. apply H. eapply trim_l_incl. exact Hp. Qed.

  Lemma edit_fmt_line : forall ind cl, forallb is_blank ind = true -> cno_nl cl -> edit true cl (cpairs ind ++ trim_code cl).
  Proof.
    intros ind cl Hi Hn. apply edit_indent; [exact Hi|]. apply edit_trim_l_sp; [exact Hn|]. unfold Lint.trim_code.
    apply edit_trim_r_tspace. apply trim_l_cno. exact Hn.
  Qed.

  (* a line that formatSQL drops holds white space only *)
  Lemma trim_code_nil_ws : forall cl, trim_code cl = [] -> forallb spacec (chars cl) = true.
  Proof.
    intros cl H. unfold Lint.trim_code in H. apply trim_r_nil_iff in H.
    rewrite <- (take_trim_l spf cl). unfold chars. rewrite map_app, forallb_app. apply andb_true_intro. split.
    - pose proof (take_l_all spf cl) as Ht. rewrite forallb_forall in *. intros c Hc. apply in_map_iff in Hc. destruct Hc as (p & Ep & Hp). subst. apply (Ht p Hp).
    - rewrite forallb_forall in *. intros c Hc. apply in_map_iff in Hc. destruct Hc as (p & Ep & Hp). subst. apply (tspace_spec p (H p Hp)).
  Qed.

  Lemma fmt_next_blank : forall ind cur tr, forallb is_blank ind = true -> forallb is_blank cur = true ->
    forallb is_blank (fmt_next_indent upper_ascii ind cur tr) = true.
  Proof.
    intros ind cur tr Hi Hc. unfold fmt_next_indent.
    destruct (existsb _ fmt_reset); [reflexivity|]. destruct (existsb _ fmt_indent); [exact Hi|].
    destruct (existsb _ fmt_reset2); [reflexivity|exact Hc].
  Qed.

  Notation tinv := tinv.

  (* would a line appended after the lines ls begin in code? *)
  Fixpoint eflag (st : lst) (flag : bool) (ls : list (list ch)) : bool :=
    match ls with
    | [] => flag
    | l :: r => eflag (snd (nl_step (lex_end st l))) (fst (nl_step (lex_end st l)) =? 0) r
    end.

  Lemma thread_snoc_empty : forall ls st flag, thread st flag (ls ++ [[]]) = thread st flag ls ++ [(eflag st flag ls, [])].
  Proof. induction ls as [|l r IH]; intros st flag; [reflexivity|]. cbn [app thread eflag]. rewrite IH. reflexivity. Qed.

  (* re-scanning the formatted lines gives the classified lines formatSQL carried along *)
  Lemma thread_flines : forall ind ls st flag cur, forallb is_blank ind = true -> forallb is_blank cur = true ->
    tinv st flag -> Forall no_nl ls ->
    thread st flag (map (fun fl => chars (snd fl)) (flines ind cur (thread st flag ls))) = flines ind cur (thread st flag ls) /\
    Forall no_nl (map (fun fl => chars (snd fl)) (flines ind cur (thread st flag ls))) /\
    eflag st flag (map (fun fl => chars (snd fl)) (flines ind cur (thread st flag ls))) = eflag st flag ls.
  Proof.
    intros ind. induction ls as [|l r IH]; intros st flag cur Hi Hc Ht Hall; [repeat split; constructor|].
    inversion Hall as [|? ? Hl Hr]; subst. cbn [thread flines]. destruct flag.
    - rewrite (Ht eq_refl) in *. set (cl := combine l (lex SCode l)).
      assert (Hcn : cno_nl cl) by (apply combine_cno; exact Hl).
      destruct (trim_code cl) as [|p tr] eqn:E.
      + (* blank line of code: dropped, the scanner stays in code *)
        assert (Hs : forallb spacec l = true) by (pose proof (trim_code_nil_ws cl E) as Z; unfold cl in Z; rewrite chars_combine in Z by apply lex_length; exact Z).
        destruct (lex_plain_code l (ws_line_plain is_space sp_nodelim l Hl Hs)) as [_ E2]. cbn [eflag]. rewrite E2.
        change (snd (nl_step SCode)) with SCode. change (fst (nl_step SCode) =? 0) with true.
        apply IH; [exact Hi|exact Hc|intros _; reflexivity|exact Hr].
      + set (cur' := fmt_next_indent upper_ascii ind cur (chars (p :: tr))).
        assert (Hc' : forallb is_blank cur' = true) by (apply fmt_next_blank; assumption).
        pose proof (edit_fmt_line cur' cl Hc' Hcn) as He. rewrite E in He.
        destruct (edit_lock true cl _ He SCode l Hl eq_refl (fun _ => eq_refl)) as (L1 & L2 & L3).
        cbn [map thread snd eflag]. rewrite L1, L2. unfold chars at 1. rewrite combine_fst_snd.
        destruct (IH (snd (nl_step (lex_end SCode l))) (fst (nl_step (lex_end SCode l)) =? 0) cur' Hi Hc' (tinv_next SCode l) Hr) as (I1 & I2 & I3).
        split; [f_equal; exact I1|]. split; [constructor; [exact L3|exact I2]|exact I3].
    - cbn [map thread snd eflag]. rewrite chars_combine by apply lex_length.
      destruct (IH (snd (nl_step (lex_end st l))) (fst (nl_step (lex_end st l)) =? 0) cur Hi Hc (tinv_next st l) Hr) as (I1 & I2 & I3).
      split; [f_equal; exact I1|]. split; [constructor; [exact Hl|exact I2]|exact I3].
  Qed.

  (* ---- reading ---- *)
  Notation RD := (RD is_space upper_ascii).
  Notation RDL := (RDL is_space upper_ascii).
  Notation T := (T is_space upper_ascii).
  Notation wsp := (wsp is_space).

  (* what the scanner guarantees about the lines formatSQL looks at *)
  Fixpoint fok (ls : list (bool * list cc)) : Prop :=
    match ls with
    | [] => True
    | fl :: r =>
        (fst fl = true -> forallb code0 (take_l spf (snd fl)) = true) /\
        (fst fl = true -> trim_code (snd fl) = [] -> forallb wsp (snd fl) = true /\ hflag r) /\
        (ends03 (snd fl) = true -> hflag r) /\
        fok r
    end.

  Lemma lead_code : forall l, no_nl l -> forallb code0 (take_l spf (combine l (lex SCode l))) = true.
  Proof.
    induction l as [|c t IH]; intro Hn; [reflexivity|]. cbn [Lint.lex combine take_l fst]. destruct (spacec c) eqn:E; [|reflexivity].
    assert (Hp : plainc c = true) by (apply (spacec_plain is_space sp_nodelim); [exact E|apply Hn; left; reflexivity]).
    rewrite (lstep_plain_code c t Hp). cbn [fst snd forallb code0 N.eqb andb]. apply IH. intros d Hd. apply Hn. right. exact Hd.
  Qed.

  Lemma thread_fok : forall ls st flag, tinv st flag -> Forall no_nl ls -> fok (thread st flag ls).
  Proof.
    induction ls as [|l r IH]; intros st flag Hi Hall; [exact I|]. inversion Hall as [|? ? Hl Hr]; subst.
    cbn [thread fok fst snd]. split; [|split; [|split]].
    - intro Hf. rewrite (Hi Hf). apply lead_code. exact Hl.
    - intros Hf E. rewrite (Hi Hf) in *.
      assert (Hs : forallb spacec l = true) by (pose proof (trim_code_nil_ws _ E) as Z; rewrite chars_combine in Z by apply lex_length; exact Z).
      destruct (lex_plain_code l (ws_line_plain is_space sp_nodelim l Hl Hs)) as [E1 E2]. rewrite E1, E2. split.
      + clear -Hs. induction l as [|c l IH]; [reflexivity|]. cbn in *. apply andb_prop in Hs. destruct Hs as [H1 H2].
        unf_wsp1. cbn [fst snd]. unfold Lint.wsc. rewrite H1. cbn. apply IH. exact H2.
      + destruct r; [exact I|reflexivity].
    - intro He. destruct r as [|y r]; [exact I|]. cbn [thread hflag fst].
      pose proof (thread_cons_ok (l :: y :: r) st flag Hall) as Hc. cbn [thread cons_ok] in Hc. destruct Hc as [Hc _]. apply Hc. exact He.
    - apply IH; [apply tinv_next|exact Hr].
  Qed.

  Lemma flines_hflag : forall ind ls cur, fok ls -> hflag ls -> hflag (flines ind cur ls).
  Proof.
    intros ind. induction ls as [|[flag l] r IH]; intros cur Hf Hh; [exact I|]. destruct Hf as (_ & H2 & _ & Hr). cbn [flines].
    cbn [hflag fst] in Hh. subst flag. destruct (trim_code l) eqn:E; [|reflexivity].
    apply IH; [exact Hr|]. apply (H2 eq_refl E).
  Qed.

  Lemma blank_spacec : forall l, forallb is_blank l = true -> forallb wsp (cpairs l) = true /\ forallb code0 (cpairs l) = true.
  Proof.
    induction l as [|c l IH]; intro H; [split; reflexivity|]. cbn in H. apply andb_prop in H. destruct H as [H1 H2].
    destruct (IH H2) as [I1 I2]. cbn [cpairs map forallb]. fold (cpairs l). rewrite I1, I2. unf_wsp; unfold code0. cbn [fst snd N.eqb].
    unfold Lint.wsc. rewrite H1. rewrite orb_true_r. split; reflexivity.
  Qed.

  Lemma spf_wsp_code : forall a, forallb spf a = true -> forallb code0 a = true -> forallb wsp a = true.
  Proof.
    intros a H1 H2. apply forallb_forall. intros p Hp. rewrite forallb_forall in H1, H2. unf_wsp; unfold Lint.wsc.
    rewrite (H1 p Hp). specialize (H2 p Hp). unfold code0 in H2. rewrite H2. reflexivity.
  Qed.

  Lemma tspace_wsp : forall b, forallb tspace b = true -> forallb wsp b = true.
  Proof.
    intros b H. apply forallb_forall. intros p Hp. rewrite forallb_forall in H. specialize (H p Hp).
    unfold Lint.tspace in H. apply andb_prop in H. destruct H as [H1 H2]. unf_wsp; unfold Lint.wsc. rewrite H1, H2. reflexivity.
  Qed.

  (* the reading of a line that begins in code, in front of Y, is the reading of its trimmed text *)
  Lemma RD_trimmed : forall cl Y, forallb code0 (take_l spf cl) = true -> (ends03 cl = true -> absorbs Y) ->
    scons VW (RD cl Y) = scons VW (RD (trim_code cl) Y).
  Proof.
    intros cl Y Hc HY. rewrite <- (take_trim_l spf cl) at 1. rewrite RD_app_code by exact Hc.
    rewrite (sW_RD_wsp is_space upper_ascii _ _ (spf_wsp_code _ (take_l_all spf cl) Hc)).
    unfold Lint.trim_code. destruct (trim_r_split tspace (trim_l spf cl)) as (b & E & Hb).
    rewrite E at 1. rewrite RD_app_ws by (apply wsp_rest_ws; apply tspace_wsp; exact Hb).
    destruct b as [|q b]; [reflexivity|]. rewrite (RD_wsp_abs is_space upper_ascii (q :: b) Y (tspace_wsp _ Hb)); [reflexivity|].
    apply HY. unfold ends03. destruct (lastc_some_in (q :: b)) as (x & Hx); [discriminate|].
    assert (Hl : lastc cl = Some x).
    { rewrite <- (take_trim_l spf cl). rewrite E. rewrite app_assoc. apply lastc_app_last. exact Hx. }
    rewrite Hl. apply lastc_in in Hx. rewrite forallb_forall in Hb. destruct (tspace_spec x (Hb x Hx)) as [_ [K|K]]; rewrite K; reflexivity.
  Qed.

  Lemma T_cons : forall x r, T (x :: r) = scons (sep x) (RD (snd x) (T r)).
  Proof. intros x r. unf_T1. rewrite RDL_T. reflexivity. Qed.

  Lemma T_flines : forall ind ls cur, forallb is_blank ind = true -> forallb is_blank cur = true -> fok ls ->
    T (flines ind cur ls) = T ls.
  Proof.
    intros ind. induction ls as [|[flag l] r IH]; intros cur Hi Hc Hf; [reflexivity|]. destruct Hf as (H1 & H2 & H3 & Hr).
    cbn [fst snd] in *. cbn [flines]. destruct flag.
    - destruct (trim_code l) as [|p tr] eqn:E.
      + destruct (H2 eq_refl eq_refl) as [Hw Hh]. rewrite (T_blank is_space upper_ascii (true, l) r eq_refl Hw Hh). apply IH; assumption.
      + set (cur' := fmt_next_indent upper_ascii ind cur (chars (p :: tr))).
        assert (Hc' : forallb is_blank cur' = true) by (apply fmt_next_blank; assumption).
        rewrite !T_cons. unfold sep. cbn [fst snd]. rewrite (IH cur' Hi Hc' Hr).
        destruct (blank_spacec cur' Hc') as [W C]. rewrite RD_app_code by exact C. rewrite (sW_RD_wsp is_space upper_ascii _ _ W).
        rewrite (RD_trimmed l (T r) (H1 eq_refl)); [rewrite E; reflexivity|]. intro He. apply T_absorbs. apply H3. exact He.
    - rewrite !T_cons. rewrite (IH cur Hi Hc Hr). reflexivity.
  Qed.

  Lemma nl_class_end : forall s, (fst (nl_step s) =? 0) = end_code s.
  Proof.
    intro s. destruct s; try reflexivity. unfold nl_step. cbn [Lint.lstep].
    destruct (nq (cp nlc) =? q); [destruct ((q =? 39) && next_q39 [])|]; reflexivity.
  Qed.

  Lemma eflag_end : forall ls st flag, ls <> [] -> eflag st flag ls = end_code (lex_end st (join_nl ls)).
  Proof.
    induction ls as [|l r IH]; intros st flag Hne; [contradiction|]. destruct r as [|y r].
    - cbn [eflag join_nl]. apply nl_class_end.
    - rewrite join_cons2. destruct (lex_app_nl l st (join_nl (y :: r))) as [_ E]. rewrite E.
      change (eflag st flag (l :: y :: r)) with (eflag (snd (nl_step (lex_end st l))) (fst (nl_step (lex_end st l)) =? 0) (y :: r)).
      apply IH. discriminate.
  Qed.

  Lemma join_snoc_empty : forall ls, ls <> [] -> join_nl (ls ++ [[]]) = join_nl ls ++ [nlc].
  Proof.
    induction ls as [|l r IH]; intro H; [contradiction|]. destruct r as [|y r]; [cbn; reflexivity|].
    change ((l :: y :: r) ++ [[]]) with (l :: (y :: r) ++ [[]]). rewrite join_cons_ne by (destruct r; discriminate).
    rewrite IH by discriminate. rewrite join_cons2. rewrite <- app_assoc. reflexivity.
  Qed.

  Lemma RDL_snoc_empty : forall L, L <> [] -> RDL (L ++ [(true, [])]) = RDL L.
  Proof.
    induction L as [|fl r IH]; intro H; [contradiction|]. destruct r as [|fl2 r]; [reflexivity|].
    change ((fl :: fl2 :: r) ++ [(true, [])]) with (fl :: (fl2 :: r) ++ [(true, [])]).
    rewrite RDL_T. rewrite (RDL_T _ _ fl (fl2 :: r)). f_equal. unf_T. cbn [app].
    change (fl2 :: r ++ [(true, [])]) with ((fl2 :: r) ++ [(true, [])]). rewrite IH by discriminate. reflexivity.
  Qed.

  Lemma Forall_app_nonl : forall a, Forall no_nl a -> Forall no_nl (a ++ [[]]).
  Proof. intros a H. apply Forall_app. split; [exact H|]. constructor; [intros c []|constructor]. Qed.

  Theorem format_keeps_reading : forall tab spaces final t,
    reading is_space upper_ascii (format_sql is_space upper_ascii tab spaces final t) = reading is_space upper_ascii t.
  Proof.
    intros tab spaces final t. unfold Lint.format_sql.
    set (ind := if spaces then repeat spc tab else [asc 9]).
    assert (Hi : forallb is_blank ind = true).
    { unfold ind. destruct spaces; [|reflexivity]. induction tab as [|n IH]; [reflexivity|cbn; exact IH]. }
    rewrite fmt_lines_flines. rewrite (clines_thread t).
    destruct (thread_flines ind (split_nl t) SCode true [] Hi eq_refl (fun _ => eq_refl) (split_no_nl t)) as (R1 & R2 & R3).
    assert (Hok : fok (thread SCode true (split_nl t))) by (apply thread_fok; [intros _; reflexivity|apply split_no_nl]).
    assert (Hh : hflag (thread SCode true (split_nl t))) by (rewrite <- clines_thread; apply clines_hflag).
    set (L := flines ind [] (thread SCode true (split_nl t))) in *.
    set (lines := map (fun fl => chars (snd fl)) L) in *.
    assert (HT : T L = T (thread SCode true (split_nl t))) by (apply T_flines; [exact Hi|reflexivity|exact Hok]).
    assert (HL : hflag L) by (apply flines_hflag; assumption).
    assert (Rt : reading is_space upper_ascii t = strip_lead (T L)).
    { unfold Lint.reading. rewrite clines_thread. rewrite <- (strip_T is_space upper_ascii _ Hh). rewrite HT. reflexivity. }
    rewrite Rt. destruct L as [|fl0 L0] eqn:EL.
    - (* nothing is left: the formatted text is empty or a single line break *)
      unfold lines. cbn [map join_nl app]. destruct (final && negb (ends_nl []) && end_code (lex_end SCode t)); reflexivity.
    - assert (Hne : lines <> []) by (unfold lines; discriminate).
      assert (Cf : clines (join_nl lines) = fl0 :: L0) by (rewrite clines_join by assumption; exact R1).
      assert (Rf : reading is_space upper_ascii (join_nl lines) = strip_lead (T (fl0 :: L0))).
      { unfold Lint.reading. rewrite Cf. symmetry. apply strip_T. exact HL. }
      destruct (final && negb (ends_nl (join_nl lines)) && end_code (lex_end SCode t)) eqn:Ec; [|exact Rf].
      apply andb_prop in Ec. destruct Ec as [_ Ee].
      rewrite <- (join_snoc_empty lines Hne). unfold Lint.reading.
      rewrite clines_join by (try apply Forall_app_nonl; try assumption; destruct lines; discriminate).
      rewrite thread_snoc_empty. rewrite R1. rewrite R3.
      rewrite (eflag_end (split_nl t) SCode true (split_nonempty t)). rewrite join_split. rewrite Ee.
      rewrite RDL_snoc_empty by discriminate. symmetry. apply strip_T. exact HL.
  Qed.
  (* ---- convergence of the format action ---- *)
  Lemma blank_spf : forall l, forallb is_blank l = true -> forallb spf (cpairs l) = true.
  Proof.
    induction l as [|c l IH]; intro H; [reflexivity|]. cbn in H. apply andb_prop in H. destruct H as [H1 H2].
    cbn [cpairs map forallb fst]. fold (cpairs l). rewrite (IH H2). rewrite andb_true_r.
    unfold Lint.spacec. unfold is_blank, is_sp, is_tab in H1. apply orb_prop in H1.
    destruct H1 as [H1|H1]; apply N.eqb_eq in H1; rewrite H1; assumption.
  Qed.

  Lemma trim_r_head : forall {A} (q : A -> bool) c t x r, trim_r q (c :: t) = x :: r -> x = c.
  Proof.
    intros A q c t x r H. rewrite trim_r_cons in H. destruct (trim_r q t); [destruct (q c); [discriminate H|]|]; inversion H; reflexivity.
  Qed.

  Lemma trim_code_head : forall l p tr, trim_code l = p :: tr -> spacec (fst p) = false.
  Proof.
    intros l p tr H. unfold Lint.trim_code in H. change (trim_l (fun p : ch * N => spacec (fst p)) l) with (trim_l spf l) in H. destruct (trim_l spf l) as [|c t] eqn:E; [cbn in H; discriminate H|].
    pose proof (trim_l_head _ _ _ _ E) as Hc. apply trim_r_head in H. subst. exact Hc.
  Qed.

  Lemma trim_code_indent : forall ind l p tr, forallb is_blank ind = true -> trim_code l = p :: tr ->
    trim_code (cpairs ind ++ p :: tr) = p :: tr.
  Proof.
    intros ind l p tr Hi H. unfold Lint.trim_code. rewrite trim_l_app_all by (apply blank_spf; exact Hi).
    rewrite trim_l_stop by (eapply trim_code_head; exact H).
    assert (X : trim_r tspace (p :: tr) = p :: tr) by (rewrite <- H; unfold Lint.trim_code; apply trim_r_idem). exact X.
  Qed.

  Lemma flines_idem : forall ind ls cur, forallb is_blank ind = true -> forallb is_blank cur = true ->
    flines ind cur (flines ind cur ls) = flines ind cur ls.
  Proof.
    intros ind. induction ls as [|[flag l] r IH]; intros cur Hi Hc; [reflexivity|]. cbn [flines]. destruct flag.
    - destruct (trim_code l) as [|p tr] eqn:E; [apply IH; assumption|].
      set (cur' := fmt_next_indent upper_ascii ind cur (chars (p :: tr))).
      assert (Hc' : forallb is_blank cur' = true) by (apply fmt_next_blank; assumption).
      cbn [flines]. rewrite (trim_code_indent cur' l p tr Hc' E). fold cur'. f_equal. apply IH; assumption.
    - cbn [flines]. f_equal. apply IH; assumption.
  Qed.

  Lemma flines_snoc_empty : forall ind ls cur, flines ind cur (ls ++ [(true, [])]) = flines ind cur ls.
  Proof.
    intros ind. induction ls as [|[flag l] r IH]; intro cur; [reflexivity|]. cbn [app flines]. destruct flag.
    - destruct (trim_code l); [apply IH|]. f_equal. apply IH.
    - f_equal. apply IH.
  Qed.

  Lemma lex_end_snoc_nl : forall l st, end_code (lex_end st l) = true -> end_code (lex_end st (l ++ [nlc])) = true.
  Proof.
    intros l st H. destruct (lex_app l st [nlc] lan_nlc) as [_ E]. rewrite E. cbn [Lint.lex_end]. rewrite lstep_nlc.
    destruct (lex_end st l); try discriminate; reflexivity.
  Qed.

  Theorem format_idempotent : forall tab spaces final t,
    format_sql is_space upper_ascii tab spaces final (format_sql is_space upper_ascii tab spaces final t)
    = format_sql is_space upper_ascii tab spaces final t.
  Proof.
    intros tab spaces final t. unfold Lint.format_sql at 2 3.
    set (ind := if spaces then repeat spc tab else [asc 9]).
    assert (Hi : forallb is_blank ind = true).
    { unfold ind. destruct spaces; [|reflexivity]. induction tab as [|n IH]; [reflexivity|cbn; exact IH]. }
    rewrite fmt_lines_flines. rewrite (clines_thread t).
    destruct (thread_flines ind (split_nl t) SCode true [] Hi eq_refl (fun _ => eq_refl) (split_no_nl t)) as (R1 & R2 & R3).
    set (L := flines ind [] (thread SCode true (split_nl t))) in *.
    set (lines := map (fun fl => chars (snd fl)) L) in *.
    assert (Ht : eflag SCode true (split_nl t) = end_code (lex_end SCode t)).
    { rewrite (eflag_end (split_nl t) SCode true (split_nonempty t)). rewrite join_split. reflexivity. }
    assert (Lidem : flines ind [] L = L) by (apply flines_idem; [exact Hi|reflexivity]).
    destruct L as [|fl0 L0] eqn:EL.
    - (* nothing is left *)
      unfold lines in *. cbn [map] in *. cbn [eflag] in R3. rewrite Ht in R3. rewrite <- R3.
      cbn [join_nl ends_nl rev negb andb app]. rewrite andb_true_r.
      destruct final; unfold Lint.format_sql; reflexivity.
    - assert (Hne : lines <> []) by (unfold lines; discriminate).
      assert (Cf : clines (join_nl lines) = fl0 :: L0) by (rewrite clines_join by assumption; exact R1).
      assert (Ef : end_code (lex_end SCode (join_nl lines)) = end_code (lex_end SCode t)).
      { rewrite <- (eflag_end lines SCode true Hne). rewrite R3. exact Ht. }
      destruct (final && negb (ends_nl (join_nl lines)) && end_code (lex_end SCode t)) eqn:Ec.
      + apply andb_prop in Ec. destruct Ec as [Ec Ee]. apply andb_prop in Ec. destruct Ec as [E1 E2].
        assert (Cn : clines (join_nl lines ++ [nlc]) = (fl0 :: L0) ++ [(true, [])]).
        { rewrite <- (join_snoc_empty lines Hne).
          rewrite clines_join by (try apply Forall_app_nonl; try assumption; destruct lines; discriminate).
          rewrite thread_snoc_empty. rewrite R1. rewrite R3. rewrite Ht. rewrite Ee. reflexivity. }
        unfold Lint.format_sql. fold ind. rewrite Cn. rewrite fmt_lines_flines. rewrite flines_snoc_empty. rewrite Lidem.
        fold lines. rewrite E1, E2. rewrite lex_end_snoc_nl by (rewrite Ef; exact Ee). reflexivity.
      + unfold Lint.format_sql. fold ind. rewrite Cf. rewrite fmt_lines_flines. rewrite Lidem. fold lines. rewrite Ef. rewrite Ec. reflexivity.
  Qed.
End Format.

(* ------------------------------------------------------------------------------------------------ *)
(* L007: the fixer converges; re-lint *)

Section L007b.
  Variables is_letter is_digit : N -> bool.
  Variable upper_ascii : N -> option N.
  Variable keywords : list (list N).
  Hypothesis up_letter : forall x u, upper_ascii x = Some u -> is_letter u = true.
  Hypothesis up_idem : forall x u, upper_ascii x = Some u -> upper_ascii u = Some u.

  Notation kw_of := (kw_of upper_ascii keywords).
  Notation conv_word := (conv_word upper_ascii keywords).
  Notation scan := (l007_scan is_letter is_digit upper_ascii keywords).
  Notation sN := (scan None).
  Notation wordc := (wordc is_letter is_digit).
  Notation wcp := (wordc true).

  Lemma wordc_start_cont : forall p, wordc false p = true -> wcp p = true.
  Proof.
    intros p H. unfold Lint.wordc in *. apply andb_prop in H. destruct H as [H1 H2]. rewrite H1.
    cbn [andb orb] in H2. rewrite orb_false_r in H2. rewrite H2. reflexivity.
  Qed.
  Lemma wordc_cont_not : forall p, wcp p = false -> wordc false p = false.
  Proof. intros p H. destruct (wordc false p) eqn:E; [rewrite (wordc_start_cont p E) in H; discriminate|reflexivity]. Qed.

  Lemma sN_other : forall p t, wordc false p = false -> sN (p :: t) = p :: sN t.
  Proof. intros p t H. cbn [l007_scan]. rewrite H. reflexivity. Qed.

  Lemma absorb : forall t w, scan (Some w) t = scan (Some (rev (take_l wcp t) ++ w)) (trim_l wcp t).
  Proof.
    induction t as [|p t IH]; intro w; [reflexivity|]. cbn [take_l trim_l]. destruct (wcp p) eqn:E; [|reflexivity].
    cbn [l007_scan]. rewrite E. rewrite IH. cbn [rev]. rewrite <- app_assoc. reflexivity.
  Qed.

  Definition stops (r : list cc) : Prop := r = [] \/ exists d r', r = d :: r' /\ wcp d = false.

  Lemma boundary : forall w r, stops r -> scan (Some w) r = conv_word (rev w) ++ sN r.
  Proof.
    intros w r [H|(d & r' & H & Hd)]; subst.
    - cbn [l007_scan]. rewrite app_nil_r. reflexivity.
    - cbn [l007_scan]. rewrite Hd. rewrite (wordc_cont_not d Hd). reflexivity.
  Qed.

  Lemma trim_l_stops : forall t, stops (trim_l wcp t).
  Proof.
    intro t. destruct (trim_l wcp t) as [|d r] eqn:E; [left; reflexivity|right].
    exists d, r. split; [reflexivity|]. eapply trim_l_head. exact E.
  Qed.

  Lemma sN_word : forall p t, wordc false p = true -> sN (p :: t) = conv_word (p :: take_l wcp t) ++ sN (trim_l wcp t).
  Proof.
    intros p t H. cbn [l007_scan]. rewrite H. rewrite absorb. rewrite boundary by apply trim_l_stops.
    rewrite rev_app_distr. rewrite rev_involutive. reflexivity.
  Qed.

  Lemma sN_word_app : forall p v x, wordc false p = true -> forallb wcp v = true -> stops x ->
    sN (p :: v ++ x) = conv_word (p :: v) ++ sN x.
  Proof.
    intros p v x H Hv Hx. rewrite sN_word by exact H.
    assert (E1 : take_l wcp (v ++ x) = v).
    { rewrite take_l_app_all by exact Hv. destruct Hx as [Hx|(d & r & Hx & Hd)]; subst; [rewrite app_nil_r; reflexivity|].
      rewrite take_l_stop by exact Hd. rewrite app_nil_r. reflexivity. }
    assert (E2 : trim_l wcp (v ++ x) = x).
    { rewrite trim_l_app_all by exact Hv. destruct Hx as [Hx|(d & r & Hx & Hd)]; subst; [reflexivity|]. apply trim_l_stop. exact Hd. }
    rewrite E1, E2. reflexivity.
  Qed.

  Lemma sN_stops : forall r, stops r -> stops (sN r).
  Proof.
    intros r [H|(d & r' & H & Hd)]; subst; [left; reflexivity|right].
    rewrite sN_other by (apply wordc_cont_not; exact Hd). eexists _, _. split; [reflexivity|exact Hd].
  Qed.

  Lemma all_some_length : forall l u, all_some l = Some u -> length u = length l.
  Proof.
    induction l as [|[x|] l IH]; intros u H; cbn in H; [inversion H; reflexivity| |discriminate].
    destruct (all_some l) as [r|]; [|discriminate]. inversion H; subst. cbn. f_equal. apply IH. reflexivity.
  Qed.
  Lemma all_some_in : forall l u y, all_some l = Some u -> In y u -> In (Some y) l.
  Proof.
    induction l as [|[x|] l IH]; intros u y H Hy; cbn in H; [inversion H; subst; destruct Hy| |discriminate].
    destruct (all_some l) as [r|] eqn:E; [|discriminate]. inversion H; subst.
    destruct Hy as [Hy|Hy]; [left; subst; reflexivity|right; eapply IH; [reflexivity|exact Hy]].
  Qed.
  Lemma all_some_idem : forall (w : list ch) u, all_some (map (fun c => upper_ascii (cp c)) w) = Some u ->
    all_some (map (fun c => upper_ascii (cp c)) (map asc u)) = Some u.
  Proof.
    induction w as [|c w IH]; intros u H; cbn in H; [inversion H; reflexivity|].
    destruct (upper_ascii (cp c)) as [x|] eqn:Ex; [|discriminate].
    destruct (all_some (map (fun c0 => upper_ascii (cp c0)) w)) as [r|] eqn:Er; [|discriminate].
    inversion H; subst. cbn. rewrite (up_idem _ _ Ex). rewrite (IH r eq_refl). reflexivity.
  Qed.

  Definition upairs (u : list N) : list cc := map (fun b => (asc b, 0)) u.
  Lemma chars_upairs : forall u, chars (upairs u) = map asc u.
  Proof. intro u. unfold chars, upairs. rewrite map_map. reflexivity. Qed.

  Lemma kw_of_conv : forall w u, kw_of w = Some u -> kw_of (map asc u) = Some u.
  Proof.
    intros w u H. unfold Lint.kw_of in *.
    destruct (all_some (map (fun c => upper_ascii (cp c)) w)) as [x|] eqn:E; [|discriminate].
    destruct (existsb (list_eqb x) keywords) eqn:Ek; [|discriminate]. inversion H; subst.
    rewrite (all_some_idem w u E). rewrite Ek. reflexivity.
  Qed.

  Lemma conv_idem : forall w, conv_word (conv_word w) = conv_word w.
  Proof.
    intro w. assert (E0 : conv_word w = match kw_of (chars w) with Some u => upairs u | None => w end) by reflexivity.
    destruct (kw_of (chars w)) as [u|] eqn:E; rewrite E0.
    - unfold Lint.conv_word. rewrite chars_upairs. rewrite (kw_of_conv _ u E). reflexivity.
    - unfold Lint.conv_word. rewrite E. reflexivity.
  Qed.

  Lemma kw_letters : forall w u y, kw_of w = Some u -> In y u -> exists x, upper_ascii x = Some y.
  Proof.
    intros w u y H Hy. unfold Lint.kw_of in H.
    destruct (all_some (map (fun c => upper_ascii (cp c)) w)) as [x|] eqn:E; [|discriminate].
    destruct (existsb (list_eqb x) keywords); [|discriminate]. inversion H; subst.
    apply (all_some_in _ _ _ E) in Hy. apply in_map_iff in Hy. destruct Hy as (c & Hc & _). exists (cp c). exact Hc.
  Qed.

  Lemma upair_word : forall x y, upper_ascii x = Some y -> wordc false (asc y, 0) = true.
  Proof. intros x y H. unfold Lint.wordc, code0, Lint.word_start. cbn [fst snd asc cp N.eqb andb]. rewrite (up_letter _ _ H). reflexivity. Qed.

  (* the converted word is again a word *)
  Lemma conv_shape : forall p v, wordc false p = true -> forallb wcp v = true ->
    exists p' v', conv_word (p :: v) = p' :: v' /\ wordc false p' = true /\ forallb wcp v' = true.
  Proof.
    intros p v H Hv. unfold Lint.conv_word. destruct (kw_of (chars (p :: v))) as [u|] eqn:E.
    - assert (Hl : length u = length (p :: v)).
      { unfold Lint.kw_of in E. destruct (all_some (map (fun c0 => upper_ascii (cp c0)) (chars (p :: v)))) as [x|] eqn:Ex; [|discriminate].
        destruct (existsb (list_eqb x) keywords); [|discriminate]. inversion E; subst.
        rewrite (all_some_length _ _ Ex). unfold chars. rewrite !map_length. reflexivity. }
      destruct u as [|y u]; [discriminate|]. exists (asc y, 0), (upairs u). split; [reflexivity|].
      destruct (kw_letters _ _ y E (or_introl eq_refl)) as (x & Hx). split; [apply (upair_word x y Hx)|].
      apply forallb_forall. intros z Hz. apply in_map_iff in Hz. destruct Hz as (b & Eb & Hb). subst.
      destruct (kw_letters _ _ b E (or_intror Hb)) as (x' & Hx'). apply wordc_start_cont. apply (upair_word x' b Hx').
    - exists p, v. repeat split; assumption.
  Qed.

  Lemma l007_scan_idem_n : forall n l, (length l <= n)%nat -> sN (sN l) = sN l.
  Proof.
    induction n as [|n IH]; intros l Hl.
    - destruct l; [reflexivity|cbn in Hl; lia].
    - destruct l as [|p t]; [reflexivity|]. cbn [length] in Hl.
      destruct (wordc false p) eqn:Ew.
      + rewrite sN_word by exact Ew. pose proof (take_l_all wcp t) as Hv.
        destruct (conv_shape p (take_l wcp t) Ew Hv) as (p' & v' & Ec & W' & V').
        rewrite Ec. change ((p' :: v') ++ sN (trim_l wcp t)) with (p' :: v' ++ sN (trim_l wcp t)).
        rewrite sN_word_app; [|exact W'|exact V'|apply sN_stops; apply trim_l_stops].
        rewrite <- Ec. rewrite conv_idem.
        assert (Hr : (length (trim_l wcp t) <= n)%nat).
        { pose proof (take_trim_l wcp t) as E. apply (f_equal (@length cc)) in E. rewrite app_length in E. lia. }
        rewrite (IH _ Hr). rewrite Ec. reflexivity.
      + rewrite sN_other by exact Ew. rewrite sN_other by exact Ew. rewrite IH by lia. reflexivity.
  Qed.

  Lemma l007_line_idem : forall l, l007_line is_letter is_digit upper_ascii keywords (l007_line is_letter is_digit upper_ascii keywords l)
                                  = l007_line is_letter is_digit upper_ascii keywords l.
  Proof. intro l. unfold l007_line. apply (l007_scan_idem_n (length l) l (le_n _)). Qed.
  (* ---- re-lint: the words of a fixed line are not violations ---- *)
  Notation words := (l007_words is_letter is_digit).
  Notation word_viol := (word_viol upper_ascii keywords).

  Lemma W_other : forall i p t, wordc false p = false -> words i None (p :: t) = words (i + width (fst p)) None t.
  Proof. intros i p t H. cbn [l007_words]. rewrite H. reflexivity. Qed.

  Lemma W_absorb : forall t i s w, exists i',
    words i (Some (s, w)) t = words i' (Some (s, rev (chars (take_l wcp t)) ++ w)) (trim_l wcp t).
  Proof.
    induction t as [|p t IH]; intros i s w; [exists i; reflexivity|]. cbn [take_l trim_l]. destruct (wcp p) eqn:E.
    - cbn [l007_words]. rewrite E. destruct (IH (i + width (fst p))%nat s (fst p :: w)) as (i' & Ei). exists i'. rewrite Ei.
      cbn [chars map rev]. rewrite <- app_assoc. reflexivity.
    - exists i. reflexivity.
  Qed.

  Lemma W_boundary : forall i s w r, stops r -> words i (Some (s, w)) r = (S s, rev w) :: words i None r.
  Proof.
    intros i s w r [H|(d & r' & H & Hd)]; subst; [reflexivity|].
    cbn [l007_words]. rewrite Hd. rewrite (wordc_cont_not d Hd). reflexivity.
  Qed.

  Lemma W_word_app : forall i p v x, wordc false p = true -> forallb wcp v = true -> stops x ->
    exists i', words i None (p :: v ++ x) = (S i, chars (p :: v)) :: words i' None x.
  Proof.
    intros i p v x H Hv Hx. cbn [l007_words]. rewrite H.
    destruct (W_absorb (v ++ x) (i + width (fst p))%nat i [fst p]) as (i' & Ei). rewrite Ei.
    assert (E1 : take_l wcp (v ++ x) = v).
    { rewrite take_l_app_all by exact Hv. destruct Hx as [Hx|(d & r & Hx & Hd)]; subst; [rewrite app_nil_r; reflexivity|].
      rewrite take_l_stop by exact Hd. rewrite app_nil_r. reflexivity. }
    assert (E2 : trim_l wcp (v ++ x) = x).
    { rewrite trim_l_app_all by exact Hv. destruct Hx as [Hx|(d & r & Hx & Hd)]; subst; [reflexivity|]. apply trim_l_stop. exact Hd. }
    rewrite E1, E2. exists i'. rewrite W_boundary by exact Hx. rewrite rev_app_distr. rewrite rev_involutive. reflexivity.
  Qed.

  Lemma list_eqb_refl : forall u, list_eqb u u = true.
  Proof.
    intro u. unfold list_eqb. rewrite Nat.eqb_refl. cbn [andb]. induction u as [|b u IH]; [reflexivity|].
    cbn [combine forallb fst snd]. rewrite N.eqb_refl. exact IH.
  Qed.

  Lemma encode_asc : forall u, encode (map asc u) = u.
  Proof. induction u as [|b u IH]; [reflexivity|]. cbn. f_equal. exact IH. Qed.

  Lemma conv_noviol : forall w, word_viol (chars (conv_word w)) = false.
  Proof.
    intro w. assert (E0 : conv_word w = match kw_of (chars w) with Some u => upairs u | None => w end) by reflexivity.
    rewrite E0. destruct (kw_of (chars w)) as [u|] eqn:E.
    - rewrite chars_upairs. unfold Lint.word_viol. rewrite (kw_of_conv _ u E). rewrite encode_asc. rewrite list_eqb_refl. reflexivity.
    - unfold Lint.word_viol. rewrite E. reflexivity.
  Qed.

  Lemma l007_words_fixed_n : forall n l i, (length l <= n)%nat ->
    Forall (fun cw : nat * list ch => word_viol (snd cw) = false) (words i None (sN l)).
  Proof.
    induction n as [|n IH]; intros l i Hl.
    - destruct l; [constructor|cbn in Hl; lia].
    - destruct l as [|p t]; [constructor|]. cbn [length] in Hl.
      destruct (wordc false p) eqn:Ew.
      + rewrite sN_word by exact Ew. pose proof (take_l_all wcp t) as Hv.
        destruct (conv_shape p (take_l wcp t) Ew Hv) as (p' & v' & Ec & W' & V').
        pose proof (conv_noviol (p :: take_l wcp t)) as Nv.
        rewrite Ec in *. change ((p' :: v') ++ sN (trim_l wcp t)) with (p' :: v' ++ sN (trim_l wcp t)).
        destruct (W_word_app i p' v' (sN (trim_l wcp t)) W' V' (sN_stops _ (trim_l_stops t))) as (i' & Ei). rewrite Ei.
        constructor; [exact Nv|]. apply IH.
        pose proof (take_trim_l wcp t) as E. apply (f_equal (@length cc)) in E. rewrite app_length in E. lia.
      + rewrite sN_other by exact Ew. rewrite W_other by exact Ew. apply IH. lia.
  Qed.

  Lemma l007_line_clears : forall n fl,
    l007_check_line is_letter is_digit upper_ascii keywords n (on_snd (l007_line is_letter is_digit upper_ascii keywords) fl) = [].
  Proof.
    intros n [flag l]. unfold l007_check_line, on_snd, l007_line. cbn [snd].
    pose proof (l007_words_fixed_n (length l) l 0%nat (le_n _)) as H. induction H as [|cw r Hc Hr IH]; [reflexivity|].
    cbn [flat_map]. rewrite Hc. exact IH.
  Qed.
  (* ---- exact flagging: the words the checker examines are the code words of the line, at their byte columns ---- *)
  Notation inw_after := (inword_after is_letter is_digit).
  Notation code_word := (code_word is_letter is_digit).

  Lemma W_absorb_x : forall t i s w,
    words i (Some (s, w)) t = words (i + blen (chars (take_l wcp t))) (Some (s, rev (chars (take_l wcp t)) ++ w)) (trim_l wcp t).
  Proof.
    induction t as [|p t IH]; intros i s w; [cbn [take_l trim_l chars map blen fold_right rev app]; rewrite Nat.add_0_r; reflexivity|]. cbn [take_l trim_l]. destruct (wcp p) eqn:E.
    - cbn [l007_words]. rewrite E. rewrite IH. cbn [chars map rev]. rewrite blen_cons. rewrite <- app_assoc. cbn [app].
      rewrite Nat.add_assoc. reflexivity.
    - cbn [chars map blen fold_right rev app]. rewrite Nat.add_0_r. reflexivity.
  Qed.

  Lemma W_word_x : forall i p t, wordc false p = true ->
    words i None (p :: t) = (S i, chars (p :: take_l wcp t)) :: words (i + blen (chars (p :: take_l wcp t))) None (trim_l wcp t).
  Proof.
    intros i p t H. cbn [l007_words]. rewrite H. rewrite W_absorb_x. rewrite W_boundary by apply trim_l_stops.
    rewrite rev_app_distr. rewrite rev_involutive. cbn [rev app chars map]. rewrite blen_cons. rewrite Nat.add_assoc. reflexivity.
  Qed.

  Lemma inw_all : forall a, forallb wcp a = true -> inw_after true a = true.
  Proof. induction a as [|p a IH]; intro H; [reflexivity|]. cbn in H. apply andb_prop in H. destruct H as [H1 H2]. cbn [inword_after]. rewrite H1. apply IH. exact H2. Qed.

  Lemma inw_app : forall a b s, inw_after s (a ++ b) = inw_after (inw_after s a) b.
  Proof. induction a as [|p a IH]; intros b s; [reflexivity|]. cbn [app inword_after]. apply IH. Qed.

  Lemma inw_stop : forall d b s, wcp d = false -> inw_after s (d :: b) = inw_after false b.
  Proof.
    intros d b s H. cbn [inword_after]. destruct s; [rewrite H; reflexivity|rewrite (wordc_cont_not d H); reflexivity].
  Qed.

  (* the first character that does not continue a word *)
  Lemma first_stop : forall a, forallb wcp a = false -> exists x d y, a = x ++ d :: y /\ forallb wcp x = true /\ wcp d = false.
  Proof.
    induction a as [|p a IH]; intro H; [discriminate|]. cbn in H. destruct (wcp p) eqn:E.
    - cbn in H. destruct (IH H) as (x & d & y & E1 & E2 & E3). exists (p :: x), d, y. subst. cbn. rewrite E, E2. repeat split; assumption.
    - exists [], p, a. repeat split. exact E.
  Qed.

  Lemma words_exact_n : forall n l i col w, (length l <= n)%nat ->
    (In (col, w) (words i None l) <->
     exists pre wd post, code_word l pre wd post /\ col = S (i + blen (chars pre)) /\ w = chars wd).
  Proof.
    induction n as [|n IH]; intros l i col w Hl.
    - destruct l; [|cbn in Hl; lia]. cbn. split; [intros []|]. intros (pre & wd & post & (E & _ & Hw & _) & _).
      destruct pre; [|discriminate]. destruct wd; [destruct Hw|discriminate].
    - destruct l as [|p t].
      { cbn. split; [intros []|]. intros (pre & wd & post & (E & _ & Hw & _) & _).
        destruct pre; [|discriminate]. destruct wd; [destruct Hw|discriminate]. }
      cbn [length] in Hl.
      assert (Hlen : (length (trim_l wcp t) <= n)%nat).
      { pose proof (take_trim_l wcp t) as E. apply (f_equal (@length cc)) in E. rewrite app_length in E. lia. }
      destruct (wordc false p) eqn:Ew.
      + rewrite W_word_x by exact Ew. cbn [In]. rewrite (IH _ _ col w Hlen). split.
        * intros [H|(pre & wd & post & (E & Ho & Hw & Hp) & Ec & Ewd)].
          -- injection H as H1 H2. exists [], (p :: take_l wcp t), (trim_l wcp t). split; [|split].
             ++ split; [cbn [app]; rewrite take_trim_l; reflexivity|]. split; [reflexivity|]. split; [split; [exact Ew|apply take_l_all]|].
                destruct (trim_l wcp t) as [|d r] eqn:Et; [exact I|]. eapply trim_l_head. exact Et.
             ++ cbn [chars map blen fold_right]. lia.
             ++ symmetry. exact H2.
          -- exists ((p :: take_l wcp t) ++ pre), wd, post. split; [|split].
             ++ split; [rewrite <- app_assoc; rewrite <- E; cbn [app]; rewrite take_trim_l; reflexivity|]. split; [|split; assumption].
                rewrite inw_app. cbn [inword_after]. rewrite Ew. rewrite (inw_all _ (take_l_all wcp t)).
                (* pre begins with a character that stops the word *)
                destruct pre as [|d b].
                ** exfalso. cbn [app] in E. destruct wd as [|q v]; [destruct Hw|]. destruct Hw as [Hq _].
                   destruct (trim_l wcp t) as [|d r] eqn:Et; [discriminate|]. injection E as E1 E2. subst d.
                   pose proof (trim_l_head _ _ _ _ Et) as Hd. rewrite (wordc_start_cont q Hq) in Hd. discriminate.
                ** destruct (trim_l wcp t) as [|d' r] eqn:Et; [discriminate|]. cbn [app] in E. injection E as E1 E2. subst d'.
                   pose proof (trim_l_head _ _ _ _ Et) as Hd. rewrite (inw_stop d b true Hd). rewrite (inw_stop d b false Hd) in Ho. exact Ho.
             ++ rewrite Ec. unfold chars. rewrite map_app, blen_app. rewrite Nat.add_assoc. reflexivity.
             ++ exact Ewd.
        * intros (pre & wd & post & (E & Ho & Hw & Hp) & Ec & Ewd). destruct pre as [|q pre'].
          -- left. cbn [app] in E. destruct wd as [|q v]; [destruct Hw|]. destruct Hw as [Hq Hv]. injection E as E1 E2. subst q.
             assert (Et : take_l wcp t = v).
             { rewrite E2. rewrite take_l_app_all by exact Hv. destruct post as [|d r]; [rewrite app_nil_r; reflexivity|].
               rewrite take_l_stop by exact Hp. apply app_nil_r. }
             rewrite Et. subst. cbn [chars map blen fold_right]. f_equal. lia.
          -- right. cbn [app] in E. injection E as E1 E2. subst q.
             cbn [inword_after] in Ho. rewrite Ew in Ho.
             assert (Hna : forallb wcp pre' = false).
             { destruct (forallb wcp pre') eqn:X; [rewrite (inw_all pre' X) in Ho; discriminate|reflexivity]. }
             destruct (first_stop pre' Hna) as (x & d & y & Ex & Hx & Hd). subst pre'.
             assert (Etk : take_l wcp t = x) by (rewrite E2; rewrite <- app_assoc; rewrite take_l_app_all by exact Hx; cbn [app]; rewrite take_l_stop by exact Hd; apply app_nil_r).
             assert (Etr : trim_l wcp t = d :: y ++ wd ++ post).
             { rewrite E2. rewrite <- app_assoc. rewrite trim_l_app_all by exact Hx. cbn [app]. apply trim_l_stop. exact Hd. }
             exists (d :: y), wd, post. split; [|split].
             ++ split; [rewrite Etr; reflexivity|]. split; [|split; assumption].
                rewrite inw_app in Ho. rewrite (inw_all x Hx) in Ho. rewrite (inw_stop d y true Hd) in Ho. rewrite (inw_stop d y false Hd). exact Ho.
             ++ rewrite Etk. rewrite Ec. change (p :: x ++ d :: y) with ((p :: x) ++ d :: y). unfold chars. rewrite map_app, blen_app, Nat.add_assoc. reflexivity.
             ++ exact Ewd.
      + rewrite W_other by exact Ew. rewrite (IH t _ col w) by lia. split.
        * intros (pre & wd & post & (E & Ho & Hw & Hp) & Ec & Ewd). exists (p :: pre), wd, post. split; [|split].
          -- split; [cbn [app]; rewrite E; reflexivity|]. split; [cbn [inword_after]; rewrite Ew; exact Ho|split; assumption].
          -- cbn [chars map]. rewrite blen_cons. fold (chars pre). lia.
          -- exact Ewd.
        * intros (pre & wd & post & (E & Ho & Hw & Hp) & Ec & Ewd). destruct pre as [|q pre'].
          -- exfalso. cbn [app] in E. destruct wd as [|q v]; [destruct Hw|]. destruct Hw as [Hq _]. injection E as E1 E2. subst q. congruence.
          -- cbn [app] in E. injection E as E1 E2. subst q. cbn [inword_after] in Ho. rewrite Ew in Ho.
             exists pre', wd, post. split; [|split].
             ++ split; [exact E2|]. split; [exact Ho|split; assumption].
             ++ rewrite Ec. cbn [chars map]. rewrite blen_cons. fold (chars pre'). lia.
             ++ exact Ewd.
  Qed.

  Lemma l007_line_exact : forall n fl v,
    In v (l007_check_line is_letter is_digit upper_ascii keywords n fl) <->
    exists pre wd post, code_word (snd fl) pre wd post /\ word_viol (chars wd) = true /\ v = (n, S (blen (chars pre))).
  Proof.
    intros n fl v. unfold l007_check_line. rewrite in_flat_map. split.
    - intros ((col & w) & Hin & Hv). cbn [fst snd] in Hv. destruct (word_viol w) eqn:E; [|destruct Hv]. destruct Hv as [Hv|[]].
      apply (words_exact_n (length (snd fl)) (snd fl) 0%nat col w (le_n _)) in Hin.
      destruct Hin as (pre & wd & post & Hc & Ec & Ew). exists pre, wd, post. subst. split; [exact Hc|]. split; [exact E|reflexivity].
    - intros (pre & wd & post & Hc & Hv & Ev). exists (S (blen (chars pre)), chars wd). split.
      + apply (words_exact_n (length (snd fl)) (snd fl) 0%nat _ _ (le_n _)). exists pre, wd, post. repeat split; try assumption; apply Hc.
      + cbn [fst snd]. rewrite Hv. left. symmetry. exact Ev.
  Qed.
End L007b.

Section L007Text.
  Variables is_letter is_digit : N -> bool.
  Variable upper_ascii : N -> option N.
  Variable keywords : list (list N).
  Hypothesis up_plain : forall x u, upper_ascii x = Some u -> plainN x /\ plainN u.
  Hypothesis up_id : up_tag upper_ascii.
  Hypothesis up_letter : forall x u, upper_ascii x = Some u -> is_letter u = true.
  Hypothesis up_idem : forall x u, upper_ascii x = Some u -> upper_ascii u = Some u.

  Theorem l007_fix_idempotent : forall t,
    l007_fix is_letter is_digit upper_ascii keywords (l007_fix is_letter is_digit upper_ascii keywords t)
    = l007_fix is_letter is_digit upper_ascii keywords t.
  Proof.
    intro t. apply (per_cline_idem (l007_line is_letter is_digit upper_ascii keywords)).
    - apply (l007_lock is_letter is_digit upper_ascii keywords up_plain up_id).
    - apply (l007_line_idem is_letter is_digit upper_ascii keywords up_letter up_idem).
  Qed.
  Theorem l007_fix_clears : forall t,
    l007_check is_letter is_digit upper_ascii keywords (l007_fix is_letter is_digit upper_ascii keywords t) = [].
  Proof.
    intro t. unfold Lint.l007_check, Lint.l007_fix. rewrite (relex _ t (l007_lock is_letter is_digit upper_ascii keywords up_plain up_id)).
    apply on_clines_nil. intros n fl Hfl. apply in_map_iff in Hfl. destruct Hfl as (fl0 & E & _). subst.
    apply (l007_line_clears is_letter is_digit upper_ascii keywords up_letter up_idem).
  Qed.
End L007Text.

(* ------------------------------------------------------------------------------------------------ *)
(* exact flagging and locations *)

Lemma on_clines_in : forall f ls k v, In v (on_clines f k ls) <->
  exists i l, nth_error ls i = Some l /\ In v (f (k + i)%nat l).
Proof.
  intros f. induction ls as [|l r IH]; intros k v.
  - cbn. split; [intros []|]. intros (i & l & H & _). destruct i; discriminate.
  - cbn [on_clines]. rewrite in_app_iff. rewrite IH. split.
    + intros [H|(i & l' & H1 & H2)].
      * exists 0%nat, l. split; [reflexivity|]. rewrite Nat.add_0_r. exact H.
      * exists (S i), l'. split; [exact H1|]. replace (k + S i)%nat with (S k + i)%nat by lia. exact H2.
    + intros (i & l' & H1 & H2). destruct i as [|i].
      * cbn in H1. inversion H1; subst. left. rewrite Nat.add_0_r in H2. exact H2.
      * right. exists i, l'. split; [exact H1|]. replace (S k + i)%nat with (k + S i)%nat by lia. exact H2.
Qed.

(* L002 *)
Lemma ikind_cases : forall l, ikind l = 0 \/ ikind l = 1 \/ ikind l = 2 \/ ikind l = 3.
Proof.
  intro l. unfold ikind. destruct (take_l lblank l); [auto|].
  destruct (existsb (fun p : ch * N => is_tab (fst p)) (c :: l0) && existsb (fun p : ch * N => is_sp (fst p)) (c :: l0)); [auto|]. destruct (existsb (fun p : ch * N => is_tab (fst p)) (c :: l0)); auto.
Qed.

Lemma eff_cons_skip : forall first l pre, (ikind (snd l) = 0 \/ ikind (snd l) = 3) -> eff first (l :: pre) = eff first pre.
Proof. intros first l pre H. unfold eff. cbn [map first_pure]. destruct H as [H|H]; rewrite H; reflexivity. Qed.

Lemma eff_cons_pure : forall first l pre, (ikind (snd l) = 1 \/ ikind (snd l) = 2) ->
  eff first (l :: pre) = if first =? 0 then ikind (snd l) else first.
Proof. intros first l pre H. unfold eff. cbn [map first_pure]. destruct H as [H|H]; rewrite H; reflexivity. Qed.

Lemma eff_nz : forall first pre, first <> 0 -> eff first pre = first.
Proof. intros first pre H. unfold eff. apply N.eqb_neq in H. rewrite H. reflexivity. Qed.

Lemma l002_step : forall first l, exists first' (fl : bool),
  (forall k r, l002_check_lines first k (l :: r) = (if fl then [(k, 1%nat)] else []) ++ l002_check_lines first' (S k) r) /\
  (fl = true <-> l002_defect first [] (snd l)) /\
  (forall pre, eff first' pre = eff first (l :: pre)).
Proof.
  intros first l. unfold l002_defect. pose proof (ikind_cases (snd l)) as K. unfold ikind in *.
  destruct (take_l lblank (snd l)) as [|c lw] eqn:El.
  - exists first, false. split; [intros k r; cbn [l002_check_lines]; unfold leading_ws; rewrite El; reflexivity|]. split.
    + split; [discriminate|]. intros [H|([H|H] & _)]; discriminate.
    + intro pre. symmetry. apply eff_cons_skip. left. unfold ikind. rewrite El. reflexivity.
  - set (ht := existsb (fun p : ch * N => is_tab (fst p)) (c :: lw)) in *. set (hs := existsb (fun p : ch * N => is_sp (fst p)) (c :: lw)) in *.
    destruct (ht && hs) eqn:Em.
    + exists first, true. split; [intros k r; cbn [l002_check_lines]; unfold leading_ws; rewrite El; fold ht hs; rewrite Em; reflexivity|]. split.
      * split; [intros _; left; reflexivity|reflexivity].
      * intro pre. symmetry. apply eff_cons_skip. right. unfold ikind. rewrite El. fold ht hs. rewrite Em. reflexivity.
    + set (cur := if ht then 1 else 2).
      assert (Kc : (if ht then 1 else 2) = cur) by reflexivity.
      assert (Ec : forall pre, eff first (l :: pre) = if first =? 0 then cur else first).
      { intro pre. rewrite eff_cons_pure; [unfold ikind; rewrite El; fold ht hs; rewrite Em; reflexivity|].
        unfold ikind. rewrite El. fold ht hs. rewrite Em. destruct ht; auto. }
      assert (Cnz : cur <> 0) by (unfold cur; destruct ht; discriminate).
      assert (Cpure : cur = 1 \/ cur = 2) by (unfold cur; destruct ht; auto).
      destruct (first =? 0) eqn:E0.
      * exists cur, false. split; [intros k r; cbn [l002_check_lines]; unfold leading_ws; rewrite El; fold ht hs; rewrite Em; fold cur; rewrite E0; reflexivity|]. split.
        -- split; [discriminate|]. intros [H|(_ & H & _)]; [try rewrite Kc in H; destruct Cpure as [C|C]; rewrite C in H; discriminate|].
           exfalso. apply H. unfold eff. rewrite E0. reflexivity.
        -- intro pre. rewrite Ec. apply eff_nz. exact Cnz.
      * apply N.eqb_neq in E0. destruct (first =? cur) eqn:E1.
        -- exists first, false. split; [intros k r; cbn [l002_check_lines]; unfold leading_ws; rewrite El; fold ht hs; rewrite Em; fold cur;
             replace (first =? 0) with false by (symmetry; apply N.eqb_neq; exact E0); rewrite E1; reflexivity|]. split.
           ++ split; [discriminate|]. intros [H|(_ & _ & H)]; [try rewrite Kc in H; destruct Cpure as [C|C]; rewrite C in H; discriminate|].
              exfalso. apply H. rewrite eff_nz by exact E0. try rewrite Kc. apply N.eqb_eq. exact E1.
           ++ intro pre. rewrite Ec. rewrite !eff_nz by exact E0. replace (first =? 0) with false by (symmetry; apply N.eqb_neq; exact E0). reflexivity.
        -- exists first, true. split; [intros k r; cbn [l002_check_lines]; unfold leading_ws; rewrite El; fold ht hs; rewrite Em; fold cur;
             replace (first =? 0) with false by (symmetry; apply N.eqb_neq; exact E0); rewrite E1; reflexivity|]. split.
           ++ split; [intros _|reflexivity]. right. try rewrite Kc. split; [exact Cpure|]. rewrite eff_nz by exact E0. split; [exact E0|].
              apply N.eqb_neq. exact E1.
           ++ intro pre. rewrite Ec. rewrite !eff_nz by exact E0. replace (first =? 0) with false by (symmetry; apply N.eqb_neq; exact E0). reflexivity.
Qed.

Lemma l002_defect_shift : forall first first' l0 pre l, (forall p, eff first' p = eff first (l0 :: p)) ->
  (l002_defect first' pre l <-> l002_defect first (l0 :: pre) l).
Proof. intros first first' l0 pre l H. unfold l002_defect. rewrite H. tauto. Qed.

Lemma l002_lines_exact : forall ls first k n col,
  In (n, col) (l002_check_lines first k ls) <->
  col = 1%nat /\ exists i l, nth_error ls i = Some l /\ n = (k + i)%nat /\ l002_defect first (firstn i ls) (snd l).
Proof.
  induction ls as [|l0 r IH]; intros first k n col.
  - cbn. split; [intros []|]. intros (_ & i & l & H & _). destruct i; discriminate.
  - destruct (l002_step first l0) as (first' & fl & Hs & Hf & He). rewrite Hs. rewrite in_app_iff. rewrite IH. split.
    + intros [H|(Hc & i & l & Hn & En & Hd)].
      * destruct fl; [|destruct H]. destruct H as [H|[]]. inversion H; subst. split; [reflexivity|].
        exists 0%nat, l0. split; [reflexivity|]. split; [lia|]. cbn [firstn]. apply Hf. reflexivity.
      * split; [exact Hc|]. exists (S i), l. split; [exact Hn|]. split; [lia|]. cbn [firstn].
        apply (l002_defect_shift first first' l0 _ (snd l) He). exact Hd.
    + intros (Hc & i & l & Hn & En & Hd). destruct i as [|i].
      * cbn in Hn. inversion Hn; subst. cbn [firstn] in Hd. apply Hf in Hd. subst fl. left. left. f_equal. lia.
      * right. split; [exact Hc|]. exists i, l. split; [exact Hn|]. split; [lia|]. cbn [firstn] in Hd.
        apply (l002_defect_shift first first' l0 _ (snd l) He). exact Hd.
Qed.

Theorem l002_check_exact : forall t n col,
  In (n, col) (l002_check t) <->
  col = 1%nat /\ (1 <= n)%nat /\ exists fl, nth_error (clines t) (n - 1) = Some fl /\ l002_defect 0 (firstn (n - 1) (clines t)) (snd fl).
Proof.
  intros t n col. unfold Lint.l002_check. rewrite l002_lines_exact. split.
  - intros (Hc & i & l & Hn & En & Hd). subst n. replace (1 + i - 1)%nat with i by lia. split; [exact Hc|]. split; [lia|]. exists l. split; assumption.
  - intros (Hc & H1 & l & Hn & Hd). split; [exact Hc|]. exists (n - 1)%nat, l. split; [exact Hn|]. split; [lia|exact Hd].
Qed.

Section L003Exact.
  Variable is_space : N -> bool.
  Notation blank := (cblank is_space).

  Notation run_from := (run_from is_space).
  Notation startsG := (startsG is_space).

  Lemma run_cons_blank : forall l r, blank l = true -> run_from (l :: r) 0 = S (run_from r 0).
  Proof. intros l r H. unfold Lint.run_from. cbn [skipn take_l]. rewrite H. reflexivity. Qed.
  Lemma run_cons_nb : forall l r, blank l = false -> run_from (l :: r) 0 = 0%nat.
  Proof. intros l r H. unfold Lint.run_from. cbn [skipn take_l]. rewrite H. reflexivity. Qed.
  Lemma run_S : forall l r i, run_from (l :: r) (S i) = run_from r i.
  Proof. reflexivity. Qed.
  Lemma run_nil : forall i, run_from [] i = 0%nat.
  Proof. intros [|i]; reflexivity. Qed.

  Lemma startsG_shift : forall cnt c' l r i, startsG c' r (S i) <-> startsG cnt (l :: r) (S (S i)).
  Proof. intros. unfold Lint.startsG. cbn [nth_error]. tauto. Qed.

  Lemma l003_lines_exact : forall mx ls cnt start k n col,
    In (n, col) (l003_check_lines is_space mx cnt start k ls) <->
    col = 1%nat /\ ((0 < cnt /\ n = start /\ mx < cnt + run_from ls 0)%nat \/
                    (exists i, n = (k + i)%nat /\ startsG cnt ls i /\ (mx < run_from ls i)%nat)).
  Proof.
    intros mx. induction ls as [|l r IH]; intros cnt start k n col.
    - cbn [l003_check_lines]. rewrite run_nil. split.
      + destruct (mx <? cnt)%nat eqn:E; [|intros []]. intros [H|[]]. inversion H; subst. apply Nat.ltb_lt in E.
        split; [reflexivity|]. left. lia.
      + intros (Hc & [(H1 & H2 & H3)|(i & _ & ((l & Hl & _) & _) & _)]); [|destruct i; discriminate].
        replace (mx <? cnt)%nat with true by (symmetry; apply Nat.ltb_lt; lia). left. subst. reflexivity.
    - cbn [l003_check_lines]. destruct (blank l) eqn:Eb.
      + rewrite IH. rewrite (run_cons_blank l r Eb).
        split; intros (Hc & H); (split; [exact Hc|]).
        * destruct H as [(H1 & H2 & H3)|(i & H1 & H2 & H3)].
          -- destruct (cnt =? 0)%nat eqn:Ec.
             ++ apply Nat.eqb_eq in Ec. subst cnt. right. exists 0%nat. split; [lia|]. split.
                ** split; [exists l; split; [reflexivity|exact Eb]|reflexivity].
                ** rewrite (run_cons_blank l r Eb). lia.
             ++ apply Nat.eqb_neq in Ec. left. lia.
          -- right. exists (S i). split; [lia|]. split.
             ++ destruct i as [|j]; [destruct H2 as (_ & H2); discriminate|]. apply (startsG_shift cnt (S cnt) l r j). exact H2.
             ++ rewrite run_S. exact H3.
        * destruct H as [(H1 & H2 & H3)|(i & H1 & H2 & H3)].
          -- left. destruct (cnt =? 0)%nat eqn:Ec; [apply Nat.eqb_eq in Ec; lia|]. lia.
          -- destruct i as [|[|j]].
             ++ destruct H2 as (_ & H2). subst cnt. left. cbn [Nat.eqb]. rewrite (run_cons_blank l r Eb) in H3. lia.
             ++ destruct H2 as (_ & (p & Hp & Hb)). cbn in Hp. inversion Hp; subst. congruence.
             ++ right. exists (S j). split; [lia|]. split; [apply (startsG_shift cnt (S cnt) l r j); exact H2|].
                rewrite run_S in H3. exact H3.
      + rewrite in_app_iff. rewrite IH. rewrite (run_cons_nb l r Eb).
        split.
        * intros [H|(Hc & H)].
          -- destruct (mx <? cnt)%nat eqn:E; [|destruct H]. destruct H as [H|[]]. inversion H; subst. apply Nat.ltb_lt in E.
             split; [reflexivity|]. left. lia.
          -- split; [exact Hc|]. destruct H as [(H1 & _)|(i & H1 & H2 & H3)]; [lia|]. right. exists (S i). split; [lia|]. split.
             ++ destruct i as [|j].
                ** destruct H2 as (H2 & _). split; [exact H2|]. exists l. split; [reflexivity|exact Eb].
                ** apply (startsG_shift cnt 0%nat l r j). exact H2.
             ++ rewrite run_S. exact H3.
        * intros (Hc & [(H1 & H2 & H3)|(i & H1 & H2 & H3)]).
          -- left. replace (mx <? cnt)%nat with true by (symmetry; apply Nat.ltb_lt; lia). left. subst. reflexivity.
          -- right. split; [exact Hc|]. right. destruct i as [|[|j]].
             ++ destruct H2 as ((l' & Hl & Hb) & _). cbn in Hl. inversion Hl; subst. congruence.
             ++ exists 0%nat. split; [lia|]. split; [destruct H2 as (H2 & _); split; [exact H2|reflexivity]|].
                rewrite run_S in H3. exact H3.
             ++ exists (S j). split; [lia|]. split; [apply (startsG_shift cnt 0%nat l r j); exact H2|].
                rewrite run_S in H3. exact H3.
  Qed.

  (* the defect L003 names: line n starts a run of more than mx consecutive blank lines *)
  Theorem l003_check_exact : forall mx t n col,
    In (n, col) (l003_check_mx is_space mx t) <->
    col = 1%nat /\ (1 <= n)%nat /\ startsG 0 (clines t) (n - 1) /\ (mx < run_from (clines t) (n - 1))%nat.
  Proof.
    intros mx t n col. unfold Lint.l003_check_mx. rewrite l003_lines_exact. split.
    - intros (Hc & [(H1 & _)|(i & H1 & H2 & H3)]); [lia|]. subst n. replace (1 + i - 1)%nat with i by lia. repeat split; try assumption; try lia; apply H2.
    - intros (Hc & H1 & H2 & H3). split; [exact Hc|]. right. exists (n - 1)%nat. split; [lia|]. split; assumption.
  Qed.
End L003Exact.

(* ---------------- L001: exact flagging, location ---------------- *)
Lemma trim_r_len_lt : forall {A} (p : A -> bool) l,
  (length (trim_r p l) < length l)%nat <-> exists c, lastc l = Some c /\ p c = true.
Proof.
  intros A p. induction l as [|c t IH].
  - cbn. split; [lia|]. intros (c & H & _). discriminate.
  - rewrite trim_r_cons. destruct t as [|d t].
    + cbn [trim_r lastc]. destruct (p c) eqn:E; cbn [length]; split; try lia.
      * intros _. exists c. split; [reflexivity|exact E].
      * intros (x & Hx & Hp). injection Hx as Hx. subst. congruence.
    + rewrite lastc_cons by discriminate. rewrite <- IH.
      destruct (trim_r p (d :: t)) as [|a r] eqn:Et.
      * destruct (p c); cbn [length]; split; lia.
      * cbn [length]. split; lia.
Qed.

Lemma trim_r_len_le : forall {A} (p : A -> bool) l, (length (trim_r p l) <= length l)%nat.
Proof.
  intros A p. induction l as [|c t IH]; [cbn; lia|]. rewrite trim_r_cons. destruct (trim_r p t); [destruct (p c)|]; cbn [length] in *; lia.
Qed.

Theorem l001_check_exact : forall t n col,
  In (n, col) (l001_check t) <->
  exists fl, nth_error (clines t) (n - 1) = Some fl /\ (1 <= n)%nat /\ ends_tblank (snd fl) /\
             col = S (blen (chars (trim_r tblank (snd fl)))).
Proof.
  intros t n col. unfold Lint.l001_check. rewrite on_clines_in. split.
  - intros (i & fl & Hn & Hin). unfold l001_check_line, l001_line in Hin.
    destruct (length (trim_r tblank (snd fl)) <? length (snd fl))%nat eqn:F; [|destruct Hin].
    destruct Hin as [Hin|[]]. injection Hin as E1 E2; subst n col. exists fl. replace (S i - 1)%nat with i by lia.
    split; [exact Hn|]. split; [lia|]. split; [|reflexivity]. apply Nat.ltb_lt in F. apply trim_r_len_lt in F. exact F.
  - intros (fl & Hn & H1 & He & Hc). exists (n - 1)%nat, fl. split; [exact Hn|].
    unfold l001_check_line, l001_line. apply trim_r_len_lt in He. apply Nat.ltb_lt in He. rewrite He.
    left. subst col. replace (1 + (n - 1))%nat with n by lia. reflexivity.
Qed.


Lemma blen_chars_trim_r_le : forall (p : cc -> bool) l, (blen (chars (trim_r p l)) <= blen (chars l))%nat.
Proof.
  intros p. induction l as [|c t IH]; [cbn; lia|]. rewrite trim_r_cons. destruct (trim_r p t) as [|a r] eqn:E.
  - destruct (p c); unfold blen, chars; cbn [map fold_right]; lia.
  - unfold blen, chars in *; cbn [map fold_right] in *. lia.
Qed.

(* the reported column is a byte offset inside the flagged line when the text is well formed (no empty character) *)
Theorem l001_location : forall t n col, In (n, col) (l001_check t) ->
  exists fl, nth_error (clines t) (n - 1) = Some fl /\ (1 <= n <= length (clines t))%nat /\
             (1 <= col <= S (blen (chars (snd fl))))%nat.
Proof.
  intros t n col H. apply l001_check_exact in H. destruct H as (fl & Hn & H1 & He & Hc).
  exists fl. split; [exact Hn|]. split.
  - split; [exact H1|]. assert (n - 1 < length (clines t))%nat by (apply nth_error_Some; congruence). lia.
  - subst. pose proof (blen_chars_trim_r_le tblank (snd fl)). lia.
Qed.

(* ---------------- L002, L003: locations ---------------- *)
Theorem l002_location : forall t n col, In (n, col) (l002_check t) ->
  (1 <= n <= length (clines t))%nat /\ col = 1%nat /\
  exists fl, nth_error (clines t) (n - 1) = Some fl /\ take_l lblank (snd fl) <> [].
Proof.
  intros t n col H. apply l002_check_exact in H. destruct H as (Hc & H1 & fl & Hn & Hd).
  split; [|split; [exact Hc|]].
  - split; [exact H1|]. assert (n - 1 < length (clines t))%nat by (apply nth_error_Some; congruence). lia.
  - exists fl. split; [exact Hn|]. intro E. unfold l002_defect, ikind in Hd. rewrite E in Hd.
    destruct Hd as [Hd|[[Hd|Hd] _]]; discriminate.
Qed.

Section L003Loc.
  Variable is_space : N -> bool.
  Theorem l003_location : forall mx t n col, In (n, col) (l003_check_mx is_space mx t) ->
    (1 <= n <= length (clines t))%nat /\ col = 1%nat.
  Proof.
    intros mx t n col H. apply l003_check_exact in H. destruct H as (Hc & H1 & ((l & Hn & _) & _) & _).
    split; [|exact Hc]. split; [exact H1|]. assert (n - 1 < length (clines t))%nat by (apply nth_error_Some; congruence). lia.
  Qed.
End L003Loc.

(* ---------------- L005: exact flagging ---------------- *)
Theorem l005_check_exact : forall is_space mx t n col,
  In (n, col) (l005_check is_space mx t) <->
  exists fl, nth_error (clines t) (n - 1) = Some fl /\ (1 <= n)%nat /\ chars (snd fl) <> [] /\
            (starts2 45 45 (trim_space is_space (chars (snd fl))) || starts2 47 42 (trim_space is_space (chars (snd fl)))) = false /\
            (mx < blen (chars (snd fl)))%nat /\ col = S mx.
Proof.
  intros is_space mx t n col. unfold Lint.l005_check. rewrite on_clines_in. split.
  - intros (i & fl & Hn & Hin). unfold l005_check_line in Hin. cbv zeta in Hin. destruct (chars (snd fl)) as [|c l] eqn:El; [destruct Hin|].
    destruct (starts2 45 45 (trim_space is_space (c :: l)) || starts2 47 42 (trim_space is_space (c :: l))) eqn:Ec; [destruct Hin|].
    destruct (mx <? blen (c :: l))%nat eqn:Eb; [|destruct Hin]. destruct Hin as [Hin|[]]. assert (E1 : (n - 1 = i)%nat /\ (1 <= n)%nat /\ col = S mx) by (inversion Hin; subst; repeat split; lia).
    destruct E1 as (E1 & E2 & E3). exists fl. rewrite E1, El. split; [exact Hn|]. split; [exact E2|]. split; [discriminate|].
    split; [exact Ec|]. split; [apply Nat.ltb_lt; exact Eb|exact E3].
  - intros (fl & Hn & H1 & Hne & Hc & Hl & E). exists (n - 1)%nat, fl. split; [exact Hn|].
    unfold l005_check_line. cbv zeta. destruct (chars (snd fl)) as [|c l] eqn:El; [contradiction|]. rewrite Hc.
    replace (mx <? blen (c :: l))%nat with true by (symmetry; apply Nat.ltb_lt; exact Hl).
    left. subst col. replace (1 + (n - 1))%nat with n by lia. reflexivity.
Qed.

(* ------------------------------------------------------------------------------------------------ *)
(* convergence of the CLI loop: the output of  L001; L002; L003; L010; L007  is a fixed point of each of the five *)

Lemma thread_chars : forall ls st flag, map (fun fl : bool * list cc => chars (snd fl)) (thread st flag ls) = ls.
Proof.
  induction ls as [|l r IH]; intros st flag; [reflexivity|]. cbn [thread map snd]. rewrite chars_combine by apply lex_length.
  f_equal. apply IH.
Qed.

Lemma clines_chars : forall t, join_nl (map (fun fl : bool * list cc => chars (snd fl)) (clines t)) = t.
Proof. intro t. rewrite clines_thread. rewrite thread_chars. apply join_split. Qed.

(* every classified line of t is a fixed point of the line rewriter f *)
Definition Lfix (f : list cc -> list cc) (t : list ch) : Prop := Forall (fun fl : bool * list cc => f (snd fl) = snd fl) (clines t).

Lemma Lfix_fixed : forall f t, Lfix f t -> per_cline f t = t.
Proof.
  intros f t H. unfold Lint.per_cline. rewrite <- (clines_chars t) at 2. f_equal. apply map_ext_in. intros fl Hfl.
  unfold Lfix in H. rewrite Forall_forall in H. rewrite (H fl Hfl). reflexivity.
Qed.

Lemma Lfix_per : forall f g t, lock g -> (forall l, f l = l -> f (g l) = g l) -> Lfix f t -> Lfix f (per_cline g t).
Proof.
  intros f g t Hg Hs H. unfold Lfix in *. rewrite (relex g t Hg). rewrite Forall_forall in *. intros fl Hfl.
  apply in_map_iff in Hfl. destruct Hfl as (fl0 & E & H0). subst fl. unfold on_snd. cbn [snd]. apply Hs. apply H. exact H0.
Qed.

Lemma Lfix_self : forall f t, lock f -> (forall l, f (f l) = f l) -> Lfix f (per_cline f t).
Proof.
  intros f t Hf Hi. unfold Lfix. rewrite (relex f t Hf). rewrite Forall_forall. intros fl Hfl.
  apply in_map_iff in Hfl. destruct Hfl as (fl0 & E & H0). subst fl. unfold on_snd. cbn [snd]. apply Hi.
Qed.

Lemma trim_r_fix_iff : forall {A} (p : A -> bool) l, trim_r p l = l <-> (forall c, lastc l = Some c -> p c = false).
Proof.
  intros A p l. split.
  - intros E c Hc. rewrite <- E in Hc. eapply lastc_trim_r. exact Hc.
  - induction l as [|c t IH]; intro H; [reflexivity|]. rewrite trim_r_cons. destruct t as [|d t].
    + cbn [trim_r]. rewrite (H c eq_refl). reflexivity.
    + rewrite IH; [reflexivity|]. intros x Hx. apply H. rewrite lastc_cons by discriminate. exact Hx.
Qed.

Lemma lblank_tblank : forall p, lblank p = true -> tblank p = true.
Proof.
  intros p H. unfold lblank, tblank, code0 in *. apply andb_prop in H. destruct H as [H1 H2]. rewrite H1, H2. reflexivity.
Qed.

Lemma cspace_tblank : forall p, cspace p = true -> tblank p = true.
Proof. intros p H. apply lblank_tblank. apply cspace_lblank. exact H. Qed.

(* a line without a removable trailing blank that consists of indentation only is empty *)
Lemma all_lblank_S1_nil : forall l, forallb lblank l = true -> trim_r tblank l = l -> l = [].
Proof.
  intros l Hb H. destruct (lastc l) as [c|] eqn:E; [|apply lastc_none; exact E].
  pose proof (proj1 (trim_r_fix_iff tblank l) H c E) as Hc. apply lastc_in in E. rewrite forallb_forall in Hb.
  rewrite (lblank_tblank c (Hb c E)) in Hc. discriminate.
Qed.

Lemma S1_tail : forall a b, b <> [] -> trim_r tblank (a ++ b) = a ++ b <-> trim_r tblank b = b.
Proof.
  intros a b Hb. rewrite !trim_r_fix_iff. rewrite lastc_app by exact Hb. reflexivity.
Qed.

Lemma f2_keeps_S1 : forall l, l001_line l = l -> l001_line (l002_line l) = l002_line l.
Proof.
  unfold l001_line. intros l H. unfold l002_line, leading_ws. destruct (trim_l lblank l) as [|c r] eqn:E.
  - apply trim_l_nil_iff in E. rewrite (all_lblank_S1_nil l E H). reflexivity.
  - apply S1_tail; [discriminate|]. rewrite <- (take_trim_l lblank l) in H. rewrite E in H. apply S1_tail in H; [exact H|discriminate].
Qed.

Lemma scan10_last : forall r ps c, lastc r = Some c -> cspace c = false -> lastc (l010_scan ps r) = Some c.
Proof.
  induction r as [|d t IH]; intros ps c H Hc; [discriminate|]. destruct t as [|e t].
  - cbn in H. injection H as H. subst d. cbn [l010_scan]. rewrite Hc. reflexivity.
  - rewrite lastc_cons in H by discriminate. remember (e :: t) as r eqn:Er. clear Er. cbn [l010_scan]. destruct (cspace d).
    + rewrite lastc_app; [apply IH; assumption|]. intro En. pose proof (IH true c H Hc) as X. rewrite En in X. discriminate.
    + rewrite lastc_cons; [apply IH; assumption|]. intro En. pose proof (IH false c H Hc) as X. rewrite En in X. discriminate.
Qed.

Lemma f10_keeps_S1 : forall l, l001_line l = l -> l001_line (l010_line l) = l010_line l.
Proof.
  unfold l001_line. intros l H. unfold l010_line. destruct (trim_l lblank l) as [|c r] eqn:E.
  - apply trim_l_nil_iff in E. rewrite (all_lblank_S1_nil l E H). reflexivity.
  - rewrite <- (take_trim_l lblank l) in H. rewrite E in H. apply S1_tail in H; [|discriminate].
    destruct (lastc (c :: r)) as [d|] eqn:Ed; [|apply lastc_none in Ed; discriminate].
    pose proof (proj1 (trim_r_fix_iff tblank _) H d Ed) as Hd.
    assert (Hs : cspace d = false) by (destruct (cspace d) eqn:X; [rewrite (cspace_tblank d X) in Hd; discriminate|reflexivity]).
    pose proof (scan10_last (c :: r) false d Ed Hs) as Hl.
    apply S1_tail; [intro En; rewrite En in Hl; discriminate|]. apply trim_r_fix_iff. intros x Hx. rewrite Hl in Hx. injection Hx as Hx. subst. exact Hd.
Qed.

(* L002 on lines *)
Definition S2 (l : list cc) : Prop := existsb (fun p : ch * N => is_tab (fst p)) (take_l lblank l) = false.

Lemma S2_fixed : forall l, S2 l -> l002_line l = l.
Proof.
  intros l H. unfold l002_line, leading_ws. rewrite <- (take_trim_l lblank l) at 3. f_equal. apply flat_map_tab4_notab.
  unfold S2 in H. induction (take_l lblank l) as [|c t IH]; [reflexivity|].
  cbn in *. apply orb_false_elim in H. destruct H as [H1 H2]. rewrite H1. cbn. apply IH. exact H2.
Qed.

Lemma fixed_S2 : forall l, l002_line l = l -> S2 l.
Proof. intros l H. unfold S2. rewrite <- H. apply l002_fixed_leading. Qed.

Lemma take_l_app_stop : forall {A} (q : A -> bool) a p r, forallb q a = true -> q p = false -> take_l q (a ++ p :: r) = a.
Proof. intros A q a p r Ha Hp. rewrite take_l_app_all by exact Ha. rewrite take_l_stop by exact Hp. apply app_nil_r. Qed.

Lemma f10_lead : forall l, take_l lblank (l010_line l) = take_l lblank l.
Proof.
  intro l. unfold l010_line. destruct (trim_l lblank l) as [|p r] eqn:E.
  - cbn [l010_scan]. rewrite app_nil_r. apply take_l_all_id. apply take_l_all.
  - pose proof (trim_l_head _ _ _ _ E) as Hp. cbn [l010_scan].
    assert (Hc : cspace p = false) by (destruct (cspace p) eqn:X; [rewrite (cspace_lblank p X) in Hp; discriminate|reflexivity]).
    rewrite Hc. apply take_l_app_stop; [apply take_l_all|exact Hp].
Qed.

Lemma f10_keeps_S2 : forall l, l002_line l = l -> l002_line (l010_line l) = l010_line l.
Proof. intros l H. apply S2_fixed. unfold S2. rewrite f10_lead. apply fixed_S2. exact H. Qed.

(* L010 on lines: nothing to remove *)
Fixpoint ok10 (ps : bool) (l : list cc) : bool :=
  match l with
  | [] => true
  | p :: t => if cspace p then negb ps && ok10 true t else ok10 false t
  end.

Lemma scan10_len : forall l ps, (length (l010_scan ps l) <= length l)%nat.
Proof.
  induction l as [|p t IH]; intro ps; [cbn; lia|]. cbn [l010_scan]. destruct (cspace p).
  - rewrite app_length. specialize (IH true). destruct ps; cbn [length]; lia.
  - cbn [length]. specialize (IH false). lia.
Qed.

Lemma scan10_fix_iff : forall l ps, l010_scan ps l = l <-> ok10 ps l = true.
Proof.
  induction l as [|p t IH]; intro ps; [split; reflexivity|]. cbn [l010_scan ok10]. destruct (cspace p).
  - destruct ps; cbn [negb andb app].
    + split; [|discriminate]. intro E. pose proof (scan10_len t true) as L. rewrite E in L. cbn [length] in L. lia.
    + rewrite <- IH. split; [intro E; injection E as E; exact E|intro E; rewrite E; reflexivity].
  - rewrite <- IH. split; [intro E; injection E as E; exact E|intro E; rewrite E; reflexivity].
Qed.

Lemma line10_fix_iff : forall l, l010_line l = l <-> ok10 false (trim_l lblank l) = true.
Proof.
  intro l. unfold l010_line. rewrite <- scan10_fix_iff. split.
  - intro E. rewrite <- (take_trim_l lblank l) in E at 3. apply app_inv_head in E. exact E.
  - intro E. rewrite E. apply take_trim_l.
Qed.

Section CliIdem.
  Variables is_letter is_digit is_space : N -> bool.
  Variable upper_ascii : N -> option N.
  Variable keywords : list (list N).
  Hypothesis up_plain : forall x u, upper_ascii x = Some u -> plainN x /\ plainN u.
  Hypothesis up_id : up_tag upper_ascii.
  Hypothesis up_letter : forall x u, upper_ascii x = Some u -> is_letter u = true.
  Hypothesis up_idem : forall x u, upper_ascii x = Some u -> upper_ascii u = Some u.
  Hypothesis up_nows : forall x u, upper_ascii x = Some u -> is_space x = false /\ x <> 32 /\ x <> 9 /\ x <> 10.
  Hypothesis sp_nodelim : sp_ok is_space.
  Hypothesis sp32 : is_space 32 = true.

  Notation prel := (prel upper_ascii).
  Notation f7 := (l007_line is_letter is_digit upper_ascii keywords).
  Notation cblank := (cblank is_space).
  Notation pass := (l003_pass is_space).

  Lemma f7_prel : forall l, Forall2 prel l (f7 l).
  Proof. intro l. apply line7_prel. Qed.

  (* a related character has the same layout role *)
  Lemma prel_roles : forall p p', prel p p' ->
    tblank p' = tblank p /\ lblank p' = lblank p /\ cspace p' = cspace p /\ spacec is_space (fst p') = spacec is_space (fst p) /\
    (lblank p = true -> p' = p).
  Proof.
    intros p p' [H|(K & u & H1 & H2)]; [subst; repeat split; reflexivity|]. subst p'.
    destruct (up_nows _ _ H1) as (A & B & C & _). destruct (up_nows _ _ (up_idem _ _ H1)) as (A' & B' & C' & _).
    assert (Eb : is_blank (fst p) = false).
    { unfold is_blank, is_sp, is_tab. apply N.eqb_neq in B. apply N.eqb_neq in C. rewrite B, C. reflexivity. }
    assert (Eb' : is_blank (asc u) = false).
    { unfold is_blank, is_sp, is_tab. cbn [asc cp]. apply N.eqb_neq in B'. apply N.eqb_neq in C'. rewrite B', C'. reflexivity. }
    assert (Es : is_sp (fst p) = false) by (unfold is_blank in Eb; apply orb_false_elim in Eb; tauto).
    assert (Es' : is_sp (asc u) = false) by (unfold is_blank in Eb'; apply orb_false_elim in Eb'; tauto).
    unfold tblank, lblank, cspace, spacec. cbn [fst snd]. rewrite Eb, Eb', Es, Es'. cbn [asc cp]. rewrite A, A'.
    repeat split; try reflexivity. discriminate.
  Qed.

  Lemma prel_lastc : forall l l', Forall2 prel l l' ->
    match lastc l, lastc l' with Some p, Some p' => prel p p' | None, None => True | _, _ => False end.
  Proof.
    intros l l' H. induction H as [|p p' t t' Hp Ht IH]; [exact I|]. destruct Ht as [|q q' t t' Hq Ht].
    - cbn. exact Hp.
    - rewrite (lastc_cons p (q :: t)) by discriminate. rewrite (lastc_cons p' (q' :: t')) by discriminate. exact IH.
  Qed.

  Lemma f7_keeps_S1 : forall l, l001_line l = l -> l001_line (f7 l) = f7 l.
  Proof.
    unfold l001_line. intros l H. apply trim_r_fix_iff. intros c' Hc'. pose proof (prel_lastc _ _ (f7_prel l)) as R.
    rewrite Hc' in R. destruct (lastc l) as [c|] eqn:E; [|contradiction].
    destruct (prel_roles _ _ R) as (T & _). rewrite T. apply (proj1 (trim_r_fix_iff tblank l) H). exact E.
  Qed.

  Lemma prel_take : forall l l', Forall2 prel l l' -> take_l lblank l' = take_l lblank l /\ Forall2 prel (trim_l lblank l) (trim_l lblank l').
  Proof.
    intros l l' H. induction H as [|p p' t t' Hp Ht IH]; [split; [reflexivity|constructor]|].
    destruct (prel_roles _ _ Hp) as (_ & L & _ & _ & Same). cbn [take_l trim_l]. rewrite L. destruct (lblank p) eqn:E.
    - rewrite (Same eq_refl). destruct IH as [IH1 IH2]. rewrite IH1. split; [reflexivity|exact IH2].
    - split; [reflexivity|]. constructor; assumption.
  Qed.

  Lemma f7_keeps_S2 : forall l, l002_line l = l -> l002_line (f7 l) = f7 l.
  Proof.
    intros l H. apply S2_fixed. unfold S2. destruct (prel_take _ _ (f7_prel l)) as [E _]. rewrite E. apply fixed_S2. exact H.
  Qed.

  Lemma prel_ok10 : forall l l', Forall2 prel l l' -> forall ps, ok10 ps l' = ok10 ps l.
  Proof.
    intros l l' H. induction H as [|p p' t t' Hp Ht IH]; intro ps; [reflexivity|]. cbn [ok10].
    destruct (prel_roles _ _ Hp) as (_ & _ & C & _). rewrite C. destruct (cspace p); rewrite IH; reflexivity.
  Qed.

  Lemma f7_keeps_S10 : forall l, l010_line l = l -> l010_line (f7 l) = f7 l.
  Proof.
    intros l H. apply line10_fix_iff. destruct (prel_take _ _ (f7_prel l)) as [_ R]. rewrite (prel_ok10 _ _ R).
    apply line10_fix_iff. exact H.
  Qed.

  (* blank lines *)
  Lemma blank_line_iff : forall l, blank_line is_space l = forallb (spacec is_space) l.
  Proof.
    intro l. destruct (blank_line is_space l) eqn:E; [symmetry; apply blank_line_all; exact E|].
    symmetry. apply not_true_is_false. intro H. unfold blank_line, trim_space in E.
    apply trim_l_nil_iff in H. rewrite H in E. discriminate.
  Qed.

  Lemma cspace_spacec : forall p, cspace p = true -> spacec is_space (fst p) = true.
  Proof.
    intros p H. unfold cspace in H. apply andb_prop in H. destruct H as [H _]. unfold is_sp in H. apply N.eqb_eq in H.
    unfold spacec. rewrite H. exact sp32.
  Qed.

  Lemma scan10_blank : forall l ps, forallb (fun p : cc => spacec is_space (fst p)) (l010_scan ps l) = forallb (fun p : cc => spacec is_space (fst p)) l.
  Proof.
    induction l as [|p t IH]; intro ps; [reflexivity|]. cbn [l010_scan]. destruct (cspace p) eqn:E.
    - rewrite forallb_app. rewrite IH. destruct ps; cbn [forallb]; rewrite ?(cspace_spacec p E); reflexivity.
    - cbn [forallb]. rewrite IH. reflexivity.
  Qed.

  Lemma forallb_chars : forall (q : ch -> bool) l, forallb q (chars l) = forallb (fun p : cc => q (fst p)) l.
  Proof. intros q l. unfold chars. induction l as [|p t IH]; [reflexivity|]. cbn. rewrite IH. reflexivity. Qed.

  Lemma f10_cblank : forall fl, cblank (on_snd l010_line fl) = cblank fl.
  Proof.
    intros [flag l]. unfold Lint.cblank, on_snd. cbn [fst snd]. f_equal. rewrite !blank_line_iff. rewrite !forallb_chars.
    unfold l010_line. rewrite forallb_app. rewrite scan10_blank. rewrite <- forallb_app. rewrite take_trim_l. reflexivity.
  Qed.

  Lemma prel_blank : forall l l', Forall2 prel l l' ->
    forallb (fun p : cc => spacec is_space (fst p)) l' = forallb (fun p : cc => spacec is_space (fst p)) l.
  Proof.
    intros l l' H. induction H as [|p p' t t' Hp Ht IH]; [reflexivity|]. cbn [forallb].
    destruct (prel_roles _ _ Hp) as (_ & _ & _ & S & _). rewrite S, IH. reflexivity.
  Qed.

  Lemma f7_cblank : forall fl, cblank (on_snd f7 fl) = cblank fl.
  Proof.
    intros [flag l]. unfold Lint.cblank, on_snd. cbn [fst snd]. f_equal. rewrite !blank_line_iff. rewrite !forallb_chars.
    apply prel_blank. apply f7_prel.
  Qed.

  Lemma pass_map : forall g, (forall fl, cblank (on_snd g fl) = cblank fl) -> forall mx ls c,
    pass mx c (map (on_snd g) ls) = map (on_snd g) (pass mx c ls).
  Proof.
    intros g Hg mx. induction ls as [|x r IH]; intro c; [reflexivity|]. cbn [map l003_pass]. rewrite Hg.
    destruct (cblank x); [destruct (S c <=? mx)%nat|]; cbn [map]; rewrite IH; reflexivity.
  Qed.

  (* the text is a fixed point of L003 *)
  Definition P3 (t : list ch) : Prop := pass 1 0 (clines t) = clines t.

  Lemma P3_fixed : forall t, P3 t -> l003_fix is_space t = t.
  Proof.
    intros t H. unfold Lint.l003_fix, Lint.l003_fix_mx. rewrite l003_lines_eq. unfold P3 in H. rewrite H. apply clines_chars.
  Qed.

  Lemma P3_self : forall t, P3 (l003_fix is_space t).
  Proof.
    intro t. unfold P3, Lint.l003_fix. rewrite (l003_relex is_space sp_nodelim 1 t) by lia.
    apply pass_fixed. exact (pass_bounded is_space 1 (clines t) 0%nat).
  Qed.

  Lemma P3_per : forall g t, lock g -> (forall fl, cblank (on_snd g fl) = cblank fl) -> P3 t -> P3 (per_cline g t).
  Proof.
    intros g t Hl Hg H. unfold P3 in *. rewrite (relex g t Hl). rewrite (pass_map g Hg). rewrite H. reflexivity.
  Qed.

  Lemma Lfix_l003 : forall f t, Lfix f t -> Lfix f (l003_fix is_space t).
  Proof.
    intros f t H. unfold Lfix, Lint.l003_fix in *. rewrite (l003_relex is_space sp_nodelim 1 t) by lia.
    rewrite Forall_forall in *. intros fl Hfl. apply H. eapply pass_incl. exact Hfl.
  Qed.

  Notation cli := (cli_fix is_letter is_digit is_space upper_ascii keywords).
  Notation fix7 := (l007_fix is_letter is_digit upper_ascii keywords).

  Lemma l007_lock' : lock f7.
  Proof. apply l007_lock; [exact up_plain|exact up_id]. Qed.

  Theorem cli_fixed_points : forall t,
    l001_fix (cli t) = cli t /\ l002_fix (cli t) = cli t /\ l003_fix is_space (cli t) = cli t /\
    l010_fix (cli t) = cli t /\ fix7 (cli t) = cli t.
  Proof.
    intro t. unfold Lint.cli_fix. set (t1 := l001_fix t). set (t2 := l002_fix t1). set (t3 := l003_fix is_space t2).
    set (t10 := l010_fix t3). set (t7 := fix7 t10).
    assert (A1 : Lfix l001_line t7).
    { apply Lfix_per; [exact l007_lock'|exact f7_keeps_S1|]. apply Lfix_per; [exact l010_lock|exact f10_keeps_S1|].
      apply Lfix_l003. apply Lfix_per; [exact l002_lock|exact f2_keeps_S1|]. apply Lfix_self; [exact l001_lock|]. intro l. apply trim_r_idem. }
    assert (A2 : Lfix l002_line t7).
    { apply Lfix_per; [exact l007_lock'|exact f7_keeps_S2|]. apply Lfix_per; [exact l010_lock|exact f10_keeps_S2|].
      apply Lfix_l003. apply Lfix_self; [exact l002_lock|exact l002_line_idem]. }
    assert (A3 : P3 t7).
    { apply P3_per; [exact l007_lock'|exact f7_cblank|]. apply P3_per; [exact l010_lock|exact f10_cblank|]. apply P3_self. }
    assert (A10 : Lfix l010_line t7).
    { apply Lfix_per; [exact l007_lock'|exact f7_keeps_S10|]. apply Lfix_self; [exact l010_lock|exact l010_line_idem]. }
    assert (A7 : Lfix f7 t7).
    { apply Lfix_self; [exact l007_lock'|]. apply (l007_line_idem is_letter is_digit upper_ascii keywords up_letter up_idem). }
    split; [apply (Lfix_fixed l001_line); exact A1|]. split; [apply (Lfix_fixed l002_line); exact A2|].
    split; [apply P3_fixed; exact A3|]. split; [apply (Lfix_fixed l010_line); exact A10|apply (Lfix_fixed f7); exact A7].
  Qed.

  Theorem cli_fix_idempotent : forall t, cli (cli t) = cli t.
  Proof.
    intro t. destruct (cli_fixed_points t) as (E1 & E2 & E3 & E10 & E7).
    unfold Lint.cli_fix at 1. rewrite E1, E2, E3, E10, E7. reflexivity.
  Qed.
End CliIdem.

(* ------------------------------------------------------------------------------------------------ *)
(* well-formed characters: what [decode] produces *)
Lemma wfc_asc : forall b, wfc (asc b).
Proof.
  intro b. unfold wfc, asc. cbn [raw cp valid]. split; [discriminate|]. split; [|split].
  - intros x [Hx|[]] _. subst. split; reflexivity.
  - intros _. reflexivity.
  - intros _. reflexivity.
Qed.

Lemma wfc_high : forall p r v, r <> [] -> (forall b, In b r -> 128 <= b) -> 128 <= p -> wfc (mkch p r v).
Proof.
  intros p r v Hr Hb Hp. unfold wfc. cbn [raw cp valid]. split; [exact Hr|]. split; [|split].
  - intros b Hin Hlt. specialize (Hb b Hin). lia.
  - intro Hlt. lia.
  - intro Hlt. lia.
Qed.

Lemma between_spec : forall lo x hi, between lo x hi = true -> lo <= x /\ x <= hi.
Proof. intros lo x hi H. unfold between in H. apply andb_prop in H. destruct H as [H1 H2]. apply N.leb_le in H1. apply N.leb_le in H2. split; assumption. Qed.
Lemma cont_spec : forall b, cont b = true -> 128 <= b /\ b <= 191.
Proof. intros b H. unfold cont in H. apply andb_prop in H. destruct H as [H1 H2]. apply N.leb_le in H1. apply N.leb_le in H2. split; assumption. Qed.

Lemma dec1_wf : forall b0 t, wfc (dec1 (b0 :: t)).
Proof.
  intros b0 t. cbn [dec1].
  destruct (b0 <? 128) eqn:E0; [apply wfc_asc|]. apply N.ltb_ge in E0.
  assert (Hbad : wfc (badc b0)).
  { apply wfc_high; [discriminate| |lia]. intros b [Hb|[]]. subst. exact E0. }
  destruct (between 194 b0 223) eqn:E1.
  { apply between_spec in E1. destruct t as [|b1 t]; [exact Hbad|]. destruct (cont b1) eqn:C1; [|exact Hbad].
    apply cont_spec in C1. apply wfc_high; [discriminate| |lia].
    intros b [Hb|[Hb|[]]]; subst; lia. }
  destruct (between 224 b0 239) eqn:E2.
  { apply between_spec in E2. destruct t as [|b1 [|b2 t]]; try exact Hbad.
    destruct (between (if b0 =? 224 then 160 else 128) b1 (if b0 =? 237 then 159 else 191) && cont b2) eqn:C; [|exact Hbad].
    apply andb_prop in C. destruct C as [C1 C2]. apply between_spec in C1. apply cont_spec in C2.
    apply wfc_high; [discriminate| |].
    - intros b [Hb|[Hb|[Hb|[]]]]; subst; try lia. destruct (b0 =? 224); lia.
    - destruct (b0 =? 224) eqn:Eb; [apply N.eqb_eq in Eb; subst; lia|apply N.eqb_neq in Eb; lia]. }
  destruct (between 240 b0 244) eqn:E3.
  { apply between_spec in E3. destruct t as [|b1 [|b2 [|b3 t]]]; try exact Hbad.
    destruct (between (if b0 =? 240 then 144 else 128) b1 (if b0 =? 244 then 143 else 191) && cont b2 && cont b3) eqn:C; [|exact Hbad].
    apply andb_prop in C. destruct C as [C C3]. apply andb_prop in C. destruct C as [C1 C2].
    apply between_spec in C1. apply cont_spec in C2. apply cont_spec in C3.
    apply wfc_high; [discriminate| |].
    - intros b [Hb|[Hb|[Hb|[Hb|[]]]]]; subst; try lia. destruct (b0 =? 240); lia.
    - destruct (b0 =? 240) eqn:Eb; [apply N.eqb_eq in Eb; subst; lia|apply N.eqb_neq in Eb; lia]. }
  exact Hbad.
Qed.

Lemma decode_go_wf : forall s skip, wft (decode_go skip s).
Proof.
  induction s as [|b t IH]; intros skip c Hc; [destruct Hc|].
  cbn [decode_go] in Hc. destruct skip as [|k].
  - destruct Hc as [Hc|Hc]; [subst; apply dec1_wf|eapply IH; exact Hc].
  - eapply IH; exact Hc.
Qed.

Theorem decode_wf : forall s, wft (decode s).
Proof. intro s. apply decode_go_wf. Qed.

(* ------------------------------------------------------------------------------------------------ *)
(* L010: re-lint after fix *)

Fixpoint run_after (run : nat) (l : list ch) : nat :=
  match l with [] => run | c :: t => if is_sp c then run_after (S run) t else run_after 0 t end.

Lemma sp_runs_snoc : forall a c off run rs,
  (is_sp c = true -> run_after run a = 0%nat) -> sp_runs off run rs (a ++ [c]) = sp_runs off run rs a.
Proof.
  induction a as [|d a IH]; intros c off run rs H.
  - cbn [app sp_runs run_after] in *. destruct (is_sp c) eqn:E.
    + rewrite (H eq_refl). cbn [Nat.leb Nat.eqb sp_runs]. reflexivity.
    + cbn [sp_runs Nat.leb]. rewrite app_nil_r. reflexivity.
  - cbn [app sp_runs run_after] in *. destruct (is_sp d).
    + apply IH. exact H.
    + f_equal. apply IH. exact H.
Qed.

Definition tailsp (cur : list ch) : bool := match cur with c :: _ => is_sp c | [] => false end.

Lemma run_after_snoc : forall a c run, run_after run (a ++ [c]) = if is_sp c then S (run_after run a) else 0%nat.
Proof. induction a as [|d a IH]; intros c run; cbn [app run_after]; [reflexivity|]. destruct (is_sp d); apply IH. Qed.

Lemma run_after_rev : forall cur, tailsp cur = false -> run_after 0 (rev cur) = 0%nat.
Proof.
  intros [|c cur] H; [reflexivity|]. cbn [rev]. rewrite run_after_snoc. cbn [tailsp] in H. rewrite H. reflexivity.
Qed.

(* a run of two or more spaces lies inside the text *)
Lemma sp_runs_bound : forall a off run rs m, (forall c, In c a -> (1 <= width c)%nat) -> (rs + run <= off)%nat ->
  In m (sp_runs off run rs a) -> (m + 2 <= off + blen a)%nat.
Proof.
  induction a as [|c t IH]; intros off run rs m Hw Hinv H.
  - cbn [sp_runs] in H. destruct (2 <=? run)%nat eqn:E; [|destruct H]. destruct H as [H|[]]. subst. apply Nat.leb_le in E. cbn [blen fold_right]. lia.
  - rewrite blen_cons. assert (W : (1 <= width c)%nat) by (apply Hw; left; reflexivity).
    assert (Ht : forall d, In d t -> (1 <= width d)%nat) by (intros d Hd; apply Hw; right; exact Hd).
    cbn [sp_runs] in H. destruct (is_sp c).
    + assert (G := IH (off + width c)%nat (S run) (if (run =? 0)%nat then off else rs) m Ht).
      assert (G' : (m + 2 <= off + width c + blen t)%nat) by (apply G; [destruct (run =? 0)%nat eqn:E; [apply Nat.eqb_eq in E; lia|apply Nat.eqb_neq in E; lia]|exact H]). lia.
    + apply in_app_or in H. destruct H as [H|H].
      * destruct (2 <=? run)%nat eqn:E; [|destruct H]. destruct H as [H|[]]. subst. apply Nat.leb_le in E. lia.
      * assert (G := IH (off + width c)%nat 0%nat rs m Ht). assert (G' : (m + 2 <= off + width c + blen t)%nat) by (apply G; [lia|exact H]). lia.
Qed.

Definition bb (b : N) : bool := (b =? 32) || (b =? 9).
Definition okpart (L : list ch) (p : nat * list ch) : Prop :=
  forall m, In m (sp_runs 0 0 0 (snd p)) -> forallb bb (firstn (S (fst p + m)) (encode L)) = true.

Lemma check_line_nil : forall n fl, (forall p, In p (l010_parts 0 0 [] (snd fl)) -> okpart (chars (snd fl)) p) -> l010_check_line n fl = [].
Proof.
  intros n fl H. unfold l010_check_line. cbv zeta. induction (l010_parts 0 0 [] (snd fl)) as [|p ps IH]; [reflexivity|].
  cbn [flat_map]. rewrite IH by (intros q Hq; apply H; right; exact Hq). rewrite app_nil_r.
  assert (Hp := H p (or_introl eq_refl)). unfold okpart in Hp.
  induction (sp_runs 0 0 0 (snd p)) as [|m ms IHm]; [reflexivity|]. cbn [flat_map].
  assert (E := Hp m (or_introl eq_refl)). unfold bb in E. rewrite E. cbn [app]. apply IHm. intros m' Hm'. apply Hp. right. exact Hm'.
Qed.

Lemma parts_ok : forall L x i start cur,
  ok10 (tailsp cur) x = true -> (cur <> [] -> okpart L (start, rev cur)) ->
  forall p, In p (l010_parts i start cur x) -> okpart L p.
Proof.
  intros L. induction x as [|c t IH]; intros i start cur Hd Hc p Hp.
  - cbn [l010_parts] in Hp. destruct cur as [|d cur]; [destruct Hp|]. destruct Hp as [Hp|[]]. subst. apply Hc. discriminate.
  - cbn [l010_parts ok10] in *. cbv zeta in Hp. destruct (code0 c) eqn:Ec.
    + assert (Ecs : cspace c = is_sp (fst c)) by (unfold cspace; rewrite Ec; apply andb_true_r).
      rewrite Ecs in Hd.
      assert (Hd' : ok10 (is_sp (fst c)) t = true /\ (is_sp (fst c) = true -> tailsp cur = false)).
      { destruct (is_sp (fst c)); [apply andb_prop in Hd; destruct Hd as [H1 H2]; split; [exact H2|intros _; destruct (tailsp cur); [discriminate|reflexivity]]|split; [exact Hd|discriminate]]. }
      destruct Hd' as [Hd1 Hd2].
      refine (IH _ _ (fst c :: cur) _ _ p Hp); [cbn [tailsp]; exact Hd1|].
      intros _. cbn [rev]. destruct cur as [|d cur].
      * cbn [rev app]. intros m Hm. cbn [snd sp_runs] in Hm. destruct (is_sp (fst c)); cbn in Hm; destruct Hm.
      * intros m Hm. cbn [snd fst] in *. rewrite sp_runs_snoc in Hm.
        -- apply (Hc ltac:(discriminate) m). exact Hm.
        -- intro Hs. apply run_after_rev. apply Hd2. exact Hs.
    + apply in_app_or in Hp. destruct Hp as [Hp|Hp].
      * destruct cur as [|d cur]; [destruct Hp|]. destruct Hp as [Hp|[]]. subst. apply Hc. discriminate.
      * assert (Hn : cspace c = false) by (unfold cspace; rewrite Ec; apply andb_false_r). rewrite Hn in Hd.
        apply (IH _ _ [] Hd (fun Hx => False_ind _ (Hx eq_refl)) p Hp).
Qed.

Lemma lblank_code0 : forall p, lblank p = true -> code0 p = true.
Proof. intros p H. unfold lblank in H. apply andb_prop in H. tauto. Qed.

Lemma parts_lead : forall a x i start cur, forallb lblank a = true ->
  l010_parts i start cur (a ++ x) =
  l010_parts (i + blen (chars a)) (match cur, a with [], _ :: _ => i | _, _ => start end) (rev (chars a) ++ cur) x.
Proof.
  induction a as [|c a IH]; intros x i start cur H.
  - cbn [app chars map blen fold_right rev]. rewrite Nat.add_0_r. destruct cur; reflexivity.
  - cbn in H. apply andb_prop in H. destruct H as [H1 H2]. cbn [app l010_parts]. cbv zeta. rewrite (lblank_code0 c H1).
    rewrite IH by exact H2. unfold chars. cbn [map]. rewrite blen_cons. cbn [rev]. rewrite <- app_assoc. cbn [app].
    rewrite Nat.add_assoc. destruct cur; destruct a; reflexivity.
Qed.

Lemma ok10_head : forall c t ps, cspace c = false -> ok10 ps (c :: t) = ok10 false (c :: t).
Proof. intros c t ps H. cbn [ok10]. rewrite H. reflexivity. Qed.

(* blank characters of a well-formed text are the single bytes 20 / 09 *)
Lemma wf_blank : forall c, wfc c -> is_blank c = true -> width c = 1%nat /\ exists b, raw c = [b] /\ bb b = true.
Proof.
  intros c (Hne & Hb & Hc & Hv) H.
  assert (Hlt : cp c < 128) by (unfold is_blank, is_sp, is_tab in H; apply orb_prop in H; destruct H as [H|H]; apply N.eqb_eq in H; lia).
  unfold width. rewrite (Hc Hlt). split; [reflexivity|]. exists (cp c). split; [reflexivity|]. unfold bb. exact H.
Qed.

Lemma lead_facts : forall a : list cc, (forall p, In p a -> wfc (fst p)) -> forallb lblank a = true ->
  blen (chars a) = length (encode (chars a)) /\ forallb bb (encode (chars a)) = true /\ (forall c, In c (chars a) -> (1 <= width c)%nat).
Proof.
  induction a as [|c a IH]; intros Hw Hb; [repeat split; intros c []|].
  cbn in Hb. apply andb_prop in Hb. destruct Hb as [H1 H2].
  assert (B1 : is_blank (fst c) = true) by (unfold lblank in H1; apply andb_prop in H1; tauto).
  destruct (wf_blank (fst c) (Hw c (or_introl eq_refl)) B1) as (W2 & b & W3 & W4).
  destruct (IH (fun d Hd => Hw d (or_intror Hd)) H2) as (I2 & I3 & I4). cbn [chars map]. fold (chars a).
  split; [rewrite blen_cons; unfold width; unfold encode in *; cbn [flat_map]; rewrite app_length, W3; cbn [length]; rewrite <- I2; reflexivity|].
  split; [unfold encode in *; cbn [flat_map]; rewrite W3; cbn [app forallb]; rewrite W4, I3; reflexivity|].
  intros d [Hd|Hd]; [subst; unfold width; rewrite W3; cbn [length]; lia|apply I4; exact Hd].
Qed.

Lemma stable_line_clears : forall n fl, (forall p, In p (take_l lblank (snd fl)) -> wfc (fst p)) ->
  l010_line (snd fl) = snd fl -> l010_check_line n fl = [].
Proof.
  intros n [flag L] Hw Hst. cbn [snd] in *. apply check_line_nil. cbn [snd]. apply line10_fix_iff in Hst.
  set (lead := take_l lblank L) in *. set (rest := trim_l lblank L) in *.
  assert (EL : L = lead ++ rest) by (symmetry; apply take_trim_l).
  pose proof (take_l_all lblank L) as Hlb. fold lead in Hlb.
  destruct (lead_facts lead Hw Hlb) as (F2 & F3 & F4).
  intros p Hp. rewrite EL in Hp at 1. rewrite parts_lead in Hp by exact Hlb. rewrite app_nil_r in Hp.
  refine (parts_ok (chars L) rest _ _ (rev (chars lead)) _ _ p Hp).
  - destruct rest as [|c0 r0] eqn:E; [reflexivity|]. pose proof (trim_l_head _ _ _ _ E) as Hc0.
    rewrite ok10_head; [exact Hst|]. destruct (cspace c0) eqn:X; [rewrite (cspace_lblank c0 X) in Hc0; discriminate|reflexivity].
  - intros _. rewrite rev_involutive. intros m Hm. cbn [fst snd] in *.
    assert (Bm : (m + 2 <= 0 + blen (chars lead))%nat) by (apply (sp_runs_bound (chars lead) 0%nat 0%nat 0%nat m F4 (le_n 0) Hm)).
    replace (match lead with [] => 0%nat | _ :: _ => 0%nat end + m)%nat with m by (destruct lead; lia).
    assert (Bl : (S m <= length (encode (chars lead)))%nat) by lia.
    rewrite EL. unfold chars. rewrite map_app. unfold encode. rewrite flat_map_app.
    rewrite firstn_app_le by exact Bl. apply forallb_firstn. exact F3.
Qed.

Lemma clines_in_text : forall t fl p, In fl (clines t) -> In p (snd fl) -> In (fst p) t.
Proof.
  intros t fl p Hfl Hp. rewrite clines_thread in Hfl.
  assert (Hl : In (chars (snd fl)) (split_nl t)).
  { rewrite <- (thread_chars (split_nl t) SCode true). apply in_map_iff. exists fl. split; [reflexivity|exact Hfl]. }
  eapply split_incl; [exact Hl|]. unfold chars. apply in_map. exact Hp.
Qed.

Theorem l010_fix_clears : forall t, wft t -> l010_check (l010_fix t) = [].
Proof.
  intros t Hw. unfold Lint.l010_check, Lint.l010_fix. rewrite (relex l010_line t l010_lock). apply on_clines_nil.
  intros n fl Hfl. apply in_map_iff in Hfl. destruct Hfl as (fl0 & E & H0). subst.
  apply stable_line_clears; unfold on_snd; cbn [snd]; [|apply l010_line_idem].
  intros p Hp. rewrite f10_lead in Hp. apply take_l_incl in Hp. apply Hw. eapply clines_in_text; eassumption.
Qed.

(* ------------------------------------------------------------------------------------------------ *)
(* byte level, for texts made of ASCII bytes *)
Definition ascc (c : ch) : Prop := exists b, b < 128 /\ c = asc b.
Definition ascl (l : list ch) : Prop := forall c, In c l -> ascc c.

Lemma decode_go_ascii : forall s, ascii_bytes s = true -> decode_go 0 s = map asc s.
Proof.
  induction s as [|b t IH]; intro H; [reflexivity|]. cbn in H. apply andb_prop in H. destruct H as [H1 H2].
  cbn [decode_go dec1]. rewrite H1. cbn [asc raw length Nat.sub map]. f_equal. apply IH. exact H2.
Qed.

Lemma decode_ascii : forall s, ascii_bytes s = true -> decode s = map asc s.
Proof. exact decode_go_ascii. Qed.

Lemma ascl_map_asc : forall s, ascii_bytes s = true -> ascl (map asc s).
Proof.
  intros s H c Hc. apply in_map_iff in Hc. destruct Hc as (b & E & Hb). subst. exists b. split; [|reflexivity].
  unfold ascii_bytes in H. rewrite forallb_forall in H. apply N.ltb_lt. apply H. exact Hb.
Qed.

Lemma encode_ascl : forall l, ascl l -> ascii_bytes (encode l) = true /\ map asc (encode l) = l.
Proof.
  induction l as [|c t IH]; intro H; [split; reflexivity|].
  destruct (H c (or_introl eq_refl)) as (b & Hb & E). subst c.
  destruct IH as [I1 I2]; [intros x Hx; apply H; right; exact Hx|].
  unfold encode in *. cbn [flat_map asc raw app]. cbn [ascii_bytes forallb map]. split.
  - apply andb_true_intro. split; [apply N.ltb_lt; exact Hb|exact I1].
  - f_equal. exact I2.
Qed.

Lemma decode_encode_ascl : forall l, ascl l -> decode (encode l) = l.
Proof. intros l H. destruct (encode_ascl l H) as [H1 H2]. rewrite decode_ascii by exact H1. exact H2. Qed.


Lemma onbytes_idem : forall f, (forall l, ascl l -> ascl (f l)) -> (forall t, f (f t) = f t) ->
  forall s, ascii_bytes s = true -> onbytes f (onbytes f s) = onbytes f s.
Proof.
  intros f Hk Hi s Hs. unfold onbytes. rewrite (decode_ascii s Hs).
  rewrite decode_encode_ascl by (apply Hk; apply ascl_map_asc; exact Hs). rewrite Hi. reflexivity.
Qed.

(* the fixers keep ASCII texts ASCII *)
Lemma ascl_nil : ascl [].
Proof. intros c []. Qed.
Lemma ascc_spc : ascc spc. Proof. exists 32. split; [reflexivity|reflexivity]. Qed.
Lemma ascc_nlc : ascc nlc. Proof. exists 10. split; [reflexivity|reflexivity]. Qed.

Lemma ascl_split : forall t l, ascl t -> In l (split_nl t) -> ascl l.
Proof. intros t l H Hl c Hc. apply H. eapply split_incl; eassumption. Qed.

Lemma ascl_join : forall ls, (forall l, In l ls -> ascl l) -> ascl (join_nl ls).
Proof.
  induction ls as [|x r IH]; intro H; [intros c []|]. destruct r as [|y r].
  - cbn. apply H. left. reflexivity.
  - rewrite join_cons2. intros c Hc. apply in_app_or in Hc. destruct Hc as [Hc|[Hc|Hc]].
    + apply (H x (or_introl eq_refl)). exact Hc.
    + subst. apply ascc_nlc.
    + apply IH; [intros l Hl; apply H; right; exact Hl|exact Hc].
Qed.



Lemma ascl_per_cline : forall f t, (forall l, ascl (chars l) -> ascl (chars (f l))) -> ascl t -> ascl (per_cline f t).
Proof.
  intros f t Hf Ht. unfold Lint.per_cline. apply ascl_join. intros l Hl. apply in_map_iff in Hl. destruct Hl as (fl & E & Hfl). subst.
  apply Hf. intros c Hc. apply in_map_iff in Hc. destruct Hc as (p & Ep & Hp). subst. apply Ht. eapply clines_in_text; eassumption.
Qed.

Lemma ascl_chars_incl : forall (a b : list cc), (forall p, In p a -> In p b) -> ascl (chars b) -> ascl (chars a).
Proof.
  intros a b H Hb c Hc. apply in_map_iff in Hc. destruct Hc as (p & Ep & Hp). subst. apply Hb. unfold chars. apply in_map. apply H. exact Hp.
Qed.

Lemma ascl_l001 : forall t, ascl t -> ascl (l001_fix t).
Proof.
  intros t H. apply ascl_per_cline; [|exact H]. intros l Hl. eapply ascl_chars_incl; [|exact Hl]. intros p Hp. eapply trim_r_incl. exact Hp.
Qed.

Lemma ascl_l002 : forall t, ascl t -> ascl (l002_fix t).
Proof.
  intros t H. apply ascl_per_cline; [|exact H]. intros l Hl c Hc. apply in_map_iff in Hc. destruct Hc as (p & Ep & Hp). subst.
  unfold l002_line, leading_ws in Hp. apply in_app_or in Hp. destruct Hp as [Hp|Hp].
  - apply in_flat_map in Hp. destruct Hp as (d & Hd & Hp). unfold tab4 in Hp. destruct (is_tab (fst d)).
    + assert (E : p = (spc, 0)) by (cbn in Hp; intuition). subst. apply ascc_spc.
    + destruct Hp as [Hp|[]]. subst. apply Hl. unfold chars. apply in_map. eapply take_l_incl. exact Hd.
  - apply Hl. unfold chars. apply in_map. eapply trim_l_incl. exact Hp.
Qed.

Lemma ascl_l003 : forall is_space t, ascl t -> ascl (l003_fix is_space t).
Proof.
  intros is_space t H. unfold Lint.l003_fix, Lint.l003_fix_mx. rewrite l003_lines_eq.
  apply ascl_join. intros l Hl. apply in_map_iff in Hl. destruct Hl as (fl & E & Hfl). subst. apply pass_incl in Hfl.
  intros c Hc. apply in_map_iff in Hc. destruct Hc as (p & Ep & Hp). subst. apply H. eapply clines_in_text; eassumption.
Qed.

Lemma l010_scan_in : forall l ps p, In p (l010_scan ps l) -> In p l.
Proof.
  induction l as [|d t IH]; intros ps p H; [destruct H|]. cbn [l010_scan] in H. destruct (cspace d).
  - apply in_app_or in H. destruct H as [H|H]; [destruct ps; [destruct H|destruct H as [H|[]]; left; exact H]|right; eapply IH; exact H].
  - destruct H as [H|H]; [left; exact H|right; eapply IH; exact H].
Qed.

Lemma ascl_l010 : forall t, ascl t -> ascl (l010_fix t).
Proof.
  intros t H. apply ascl_per_cline; [|exact H]. intros l Hl. eapply ascl_chars_incl; [|exact Hl]. intros p Hp.
  unfold l010_line in Hp. apply in_app_or in Hp. destruct Hp as [Hp|Hp]; [eapply take_l_incl; exact Hp|].
  apply l010_scan_in in Hp. eapply trim_l_incl. exact Hp.
Qed.

Section A7.
  Variables is_letter is_digit is_space : N -> bool.
  Variable upper_ascii : N -> option N.
  Variable keywords : list (list N).
  Hypothesis up_ascii : forall x u, upper_ascii x = Some u -> u < 128.

  Lemma ascl_l007 : forall t, ascl t -> ascl (l007_fix is_letter is_digit upper_ascii keywords t).
  Proof.
    intros t H. apply ascl_per_cline; [|exact H]. intros l Hl.
    pose proof (line7_prel is_letter is_digit upper_ascii keywords l) as R. revert Hl.
    induction R as [|p p' a b Hp Hr IH]; intro Hl; [intros c []|].
    intros c [Hc|Hc].
    - subst c. destruct Hp as [Hp|(_ & u & Hu & Hp)]; subst p'.
      + apply Hl. left. reflexivity.
      + exists u. split; [eapply up_ascii; exact Hu|reflexivity].
    - apply IH; [|exact Hc]. intros d Hd. apply Hl. right. exact Hd.
  Qed.

  Lemma ascl_cli : forall t, ascl t -> ascl (cli_fix is_letter is_digit is_space upper_ascii keywords t).
  Proof. intros t H. unfold Lint.cli_fix. apply ascl_l007. apply ascl_l010. apply ascl_l003. apply ascl_l002. apply ascl_l001. exact H. Qed.

  Lemma ascl_fmt : forall ind ls cur, ascl ind -> ascl cur -> (forall fl, In fl ls -> ascl (chars (snd fl))) ->
    forall l, In l (fmt_lines is_space upper_ascii ind cur ls) -> ascl l.
  Proof.
    intros ind. induction ls as [|[flag x] r IH]; intros cur Hi Hc Hls l Hl; [destruct Hl|]. cbn [fmt_lines] in Hl.
    assert (Hr : forall fl, In fl r -> ascl (chars (snd fl))) by (intros l0 H0; apply Hls; right; exact H0).
    assert (Hx : ascl (chars x)) by (apply (Hls (flag, x)); left; reflexivity).
    destruct flag.
    - destruct (trim_code is_space x) as [|c tr] eqn:E; [exact (IH cur Hi Hc Hr l Hl)|].
      assert (Hn : ascl (fmt_next_indent upper_ascii ind cur (chars (c :: tr)))).
      { unfold fmt_next_indent. destruct (existsb _ fmt_reset); [intros z []|]. destruct (existsb _ fmt_indent); [exact Hi|].
        destruct (existsb _ fmt_reset2); [intros z []|exact Hc]. }
      destruct Hl as [Hl|Hl]; [|eapply IH; [exact Hi|exact Hn|exact Hr|exact Hl]]. subst. intros z Hz. apply in_app_or in Hz. destruct Hz as [Hz|Hz].
      + apply Hn. exact Hz.
      + revert z Hz. eapply ascl_chars_incl; [|exact Hx]. intros p Hp. rewrite <- E in Hp. unfold trim_code in Hp.
        apply trim_r_incl in Hp. apply trim_l_incl in Hp. exact Hp.
    - destruct Hl as [Hl|Hl]; [subst; exact Hx|exact (IH cur Hi Hc Hr l Hl)].
  Qed.

  Lemma ascl_format : forall tab spaces final t, ascl t -> ascl (format_sql is_space upper_ascii tab spaces final t).
  Proof.
    intros tab spaces final t H. unfold Lint.format_sql.
    set (ind := if spaces then repeat spc tab else [asc 9]).
    assert (Hi : ascl ind).
    { unfold ind. destruct spaces.
      - intros c Hc. apply repeat_spec in Hc. subst. apply ascc_spc.
      - intros c Hc. cbn in Hc. destruct Hc as [Hc|[]]. subst. exists 9. split; reflexivity. }
    set (f := join_nl (fmt_lines is_space upper_ascii ind [] (clines t))).
    assert (Hf : ascl f).
    { unfold f. apply ascl_join. intros l Hl. eapply ascl_fmt; [exact Hi|exact ascl_nil| |exact Hl]. intros fl Hfl c Hc.
      apply in_map_iff in Hc. destruct Hc as (p & Ep & Hp). subst. apply H. eapply clines_in_text; eassumption. }
    destruct (final && negb (ends_nl f) && end_code (lex_end SCode t)); [|exact Hf]. unfold ascl. intros c Hc. apply in_app_or in Hc. destruct Hc as [Hc|Hc]; [apply Hf; exact Hc|]. cbn in Hc. destruct Hc as [Hc|[]]. subst. apply ascc_nlc.
  Qed.
End A7.

(* ---------------- L007: exact flagging, location ---------------- *)
Section L007Exact.
  Variables is_letter is_digit : N -> bool.
  Variable upper_ascii : N -> option N.
  Variable keywords : list (list N).

  Theorem l007_check_exact : forall t n col,
    In (n, col) (l007_check is_letter is_digit upper_ascii keywords t) <->
    exists fl pre wd post, nth_error (clines t) (n - 1) = Some fl /\ (1 <= n)%nat /\
      code_word is_letter is_digit (snd fl) pre wd post /\
      word_viol upper_ascii keywords (chars wd) = true /\ col = S (blen (chars pre)).
  Proof.
    intros t n col. unfold Lint.l007_check. rewrite on_clines_in. split.
    - intros (i & fl & Hn & Hin). apply l007_line_exact in Hin. destruct Hin as (pre & wd & post & Hc & Hv & Ev).
      assert (E : (n - 1 = i)%nat /\ (1 <= n)%nat /\ col = S (blen (chars pre))) by (inversion Ev; subst; repeat split; lia).
      destruct E as (E1 & E2 & E3). exists fl, pre, wd, post. rewrite E1. split; [exact Hn|]. split; [exact E2|]. split; [exact Hc|]. split; [exact Hv|exact E3].
    - intros (fl & pre & wd & post & Hn & H1 & Hc & Hv & Ec). exists (n - 1)%nat, fl. split; [exact Hn|].
      apply l007_line_exact. exists pre, wd, post. split; [exact Hc|]. split; [exact Hv|]. subst col. f_equal. lia.
  Qed.

  (* the reported column is the byte column of a character of an existing line *)
  Theorem l007_location : forall t n col, In (n, col) (l007_check is_letter is_digit upper_ascii keywords t) ->
    exists fl, nth_error (clines t) (n - 1) = Some fl /\ (1 <= n <= length (clines t))%nat /\ (1 <= col <= S (blen (chars (snd fl))))%nat.
  Proof.
    intros t n col H. apply l007_check_exact in H. destruct H as (fl & pre & wd & post & Hn & H1 & (E & _) & _ & Ec).
    exists fl. split; [exact Hn|]. split.
    - split; [exact H1|]. assert (n - 1 < length (clines t))%nat by (apply nth_error_Some; congruence). lia.
    - subst col. rewrite E. unfold chars. rewrite map_app, blen_app. split; [apply le_n_S; apply Nat.le_0_l|]. apply le_n_S. apply Nat.le_add_r.
  Qed.
End L007Exact.

(* ------------------------------------------------------------------------------------------------ *)
(* L010: exact flagging *)

(* byte offsets of the maximal runs of two or more code spaces of a classified line: one scan *)
Fixpoint runs (i run rs : nat) (l : list cc) : list nat :=
  match l with
  | [] => if (2 <=? run)%nat then [rs] else []
  | p :: t => if cspace p then runs (i + width (fst p)) (S run) (if (run =? 0)%nat then i else rs) t
              else (if (2 <=? run)%nat then [rs] else []) ++ runs (i + width (fst p)) 0 rs t
  end.

Lemma runs_rs0 : forall l i rs rs', runs i 0 rs l = runs i 0 rs' l.
Proof.
  induction l as [|p t IH]; intros i rs rs'; [reflexivity|]. cbn [runs Nat.eqb Nat.leb app]. destruct (cspace p); [reflexivity|apply IH].
Qed.

Definition pcols (ps : list (nat * list ch)) : list nat :=
  flat_map (fun p : nat * list ch => map (fun m => (fst p + m)%nat) (sp_runs 0 0 0 (snd p))) ps.

Lemma parts_runs : forall l i start cur off run rs E,
  (forall x, sp_runs 0 0 0 (rev cur ++ x) = E ++ sp_runs off run rs x) ->
  (cur <> [] -> i = (start + off)%nat) ->
  (cur = [] -> E = [] /\ off = 0%nat /\ run = 0%nat) ->
  pcols (l010_parts i start cur l) = map (fun m => (start + m)%nat) E ++ runs i run (start + rs)%nat l.
Proof.
  induction l as [|p t IH]; intros i start cur off run rs E Hs Hi H0.
  - cbn [l010_parts runs]. destruct cur as [|c cur].
    + destruct (H0 eq_refl) as (E1 & E2 & E3). subst. reflexivity.
    + unfold pcols. cbn [flat_map fst snd]. rewrite app_nil_r. specialize (Hs []). rewrite app_nil_r in Hs. rewrite Hs.
      cbn [sp_runs]. rewrite map_app. destruct (2 <=? run)%nat; reflexivity.
  - cbn [l010_parts runs]. cbv zeta. destruct (code0 p) eqn:Ec.
    + assert (Ecs : cspace p = is_sp (fst p)) by (unfold cspace; rewrite Ec; apply andb_true_r). rewrite Ecs.
      set (start' := match cur with [] => i | _ :: _ => start end).
      assert (Hst : cur <> [] -> start' = start) by (destruct cur; [intro X; contradiction|reflexivity]).
      assert (Hs' : forall x, sp_runs 0 0 0 (rev (fst p :: cur) ++ x) = E ++ sp_runs off run rs (fst p :: x)).
      { intro x. cbn [rev]. rewrite <- app_assoc. cbn [app]. apply Hs. }
      destruct (is_sp (fst p)) eqn:Esp.
      * rewrite (IH (i + width (fst p))%nat start' (fst p :: cur) (off + width (fst p))%nat (S run) (if (run =? 0)%nat then off else rs) E).
        -- destruct cur as [|c cur].
           ++ destruct (H0 eq_refl) as (E1 & E2 & E3). subst. cbn [map app Nat.eqb]. unfold start'. rewrite Nat.add_0_r. reflexivity.
           ++ rewrite (Hst ltac:(discriminate)). f_equal. f_equal. destruct (run =? 0)%nat; [symmetry; apply Hi; discriminate|reflexivity].
        -- intro x. rewrite Hs'. cbn [sp_runs]. rewrite Esp. reflexivity.
        -- intros _. destruct cur as [|c cur]; [destruct (H0 eq_refl) as (_ & E2 & _); subst; unfold start'; lia|].
           rewrite (Hst ltac:(discriminate)). rewrite (Hi ltac:(discriminate)). lia.
        -- intro X. discriminate.
      * rewrite (IH (i + width (fst p))%nat start' (fst p :: cur) (off + width (fst p))%nat 0%nat rs (E ++ if (2 <=? run)%nat then [rs] else [])).
        -- destruct cur as [|c cur].
           ++ destruct (H0 eq_refl) as (E1 & E2 & E3). subst. cbn [map app Nat.leb]. apply runs_rs0.
           ++ rewrite (Hst ltac:(discriminate)). rewrite map_app. rewrite <- app_assoc. f_equal. destruct (2 <=? run)%nat; reflexivity.
        -- intro x. rewrite Hs'. cbn [sp_runs]. rewrite Esp. rewrite app_assoc. reflexivity.
        -- intros _. destruct cur as [|c cur]; [destruct (H0 eq_refl) as (_ & E2 & _); subst; unfold start'; lia|].
           rewrite (Hst ltac:(discriminate)). rewrite (Hi ltac:(discriminate)). lia.
        -- intro X. discriminate.
    + assert (Ecs : cspace p = false) by (unfold cspace; rewrite Ec; apply andb_false_r). rewrite Ecs.
      unfold pcols. rewrite flat_map_app. fold (pcols (l010_parts (i + width (fst p)) start [] t)).
      rewrite (IH (i + width (fst p))%nat start [] 0%nat 0%nat 0%nat []); [|intro x; reflexivity|intro X; contradiction|intros _; repeat split].
      cbn [map app]. rewrite (runs_rs0 t _ (start + 0)%nat (start + rs)%nat). rewrite app_assoc. f_equal.
      destruct cur as [|c cur].
      * destruct (H0 eq_refl) as (E1 & E2 & E3). subst. reflexivity.
      * cbn [flat_map fst snd]. rewrite app_nil_r. specialize (Hs []). rewrite app_nil_r in Hs. rewrite Hs. cbn [sp_runs].
        rewrite map_app. destruct (2 <=? run)%nat; reflexivity.
Qed.

Lemma pcols_runs : forall l, pcols (l010_parts 0 0 [] l) = runs 0 0 0 l.
Proof.
  intro l. rewrite (parts_runs l 0%nat 0%nat [] 0%nat 0%nat 0%nat []); [reflexivity|intro x; reflexivity|intro X; contradiction|intros _; repeat split].
Qed.

Lemma blen_chars_app : forall a b : list cc, blen (chars (a ++ b)) = (blen (chars a) + blen (chars b))%nat.
Proof. intros a b. unfold chars. rewrite map_app. apply blen_app. Qed.
Lemma blen_chars_cons : forall (p : cc) (a : list cc), blen (chars (p :: a)) = (width (fst p) + blen (chars a))%nat.
Proof. reflexivity. Qed.
Lemma blen_chars_nil : blen (chars []) = 0%nat.
Proof. reflexivity. Qed.

Lemma app_eq2 : forall {A} (X X' Y Y' : list A), X = X' -> Y = Y' -> X ++ Y = X' ++ Y'.
Proof. intros; subst; reflexivity. Qed.

(* one step of [runs] over a whole run of code spaces *)
Lemma runs_step : forall l i run rs,
  runs i run rs l =
  (if (2 <=? run + length (take_l cspace l))%nat then [if (run =? 0)%nat then i else rs] else []) ++
  match trim_l cspace l with
  | [] => []
  | p :: t => runs (i + blen (chars (take_l cspace l ++ [p]))) 0 0 t
  end.
Proof.
  induction l as [|p t IH]; intros i run rs.
  - cbn [runs take_l trim_l length]. rewrite Nat.add_0_r. destruct (2 <=? run)%nat eqn:E; [|reflexivity].
    destruct run; [discriminate|reflexivity].
  - cbn [runs take_l trim_l]. destruct (cspace p) eqn:Ec.
    + rewrite IH. cbn [length]. replace (S run + length (take_l cspace t))%nat with (run + S (length (take_l cspace t)))%nat by lia.
      cbn [Nat.eqb]. apply app_eq2.
      * destruct (2 <=? run + S (length (take_l cspace t)))%nat; [|reflexivity]. destruct (run =? 0)%nat; reflexivity.
      * destruct (trim_l cspace t) as [|q r]; [reflexivity|]. cbn [app chars map]. rewrite blen_cons. rewrite Nat.add_assoc. reflexivity.
    + cbn [length app chars map]. rewrite Nat.add_0_r. apply app_eq2.
      * destruct (2 <=? run)%nat eqn:E; [|reflexivity]. destruct run; [discriminate|reflexivity].
      * rewrite blen_cons. cbn [blen fold_right]. rewrite Nat.add_0_r. apply runs_rs0.
Qed.

Lemma first_nonc : forall a, forallb cspace a = false -> exists x d y, a = x ++ d :: y /\ forallb cspace x = true /\ cspace d = false.
Proof.
  induction a as [|p a IH]; intro H; [discriminate|]. cbn in H. destruct (cspace p) eqn:E.
  - cbn in H. destruct (IH H) as (x & d & y & E1 & E2 & E3). exists (p :: x), d, y. subst. cbn. rewrite E, E2. repeat split; assumption.
  - exists [], p, a. repeat split. exact E.
Qed.

Lemma lastc_all : forall a q, forallb cspace a = true -> lastc a = Some q -> cspace q = true.
Proof. intros a q H Hq. apply lastc_in in Hq. rewrite forallb_forall in H. apply H. exact Hq. Qed.

Lemma runs_exact_n : forall n l i m, (length l <= n)%nat ->
  (In m (runs i 0 0 l) <-> exists pre r post, cspace_run l pre r post /\ m = (i + blen (chars pre))%nat).
Proof.
  induction n as [|n IH]; intros l i m Hl.
  - destruct l; [|cbn in Hl; lia]. cbn. split; [intros []|]. intros (pre & r & post & (E & _ & H2 & _) & _).
    destruct pre; [|discriminate]. destruct r; [cbn in H2; lia|discriminate].
  - rewrite runs_step. cbn [Nat.add Nat.eqb]. rewrite in_app_iff.
    set (r0 := take_l cspace l). set (rest := trim_l cspace l).
    assert (El : l = r0 ++ rest) by (symmetry; apply take_trim_l).
    assert (H0 : forallb cspace r0 = true) by apply take_l_all.
    assert (Hrest : match rest with d :: _ => cspace d = false | [] => True end).
    { unfold rest. destruct (trim_l cspace l) as [|d y] eqn:Et; [exact I|]. eapply trim_l_head. exact Et. }
    split.
    + intros [H|H].
      * destruct (2 <=? length r0)%nat eqn:E2; [|destruct H]. destruct H as [H|[]]. subst m.
        exists [], r0, rest. split; [|cbn; lia]. split; [exact El|]. split; [exact H0|]. split; [apply Nat.leb_le; exact E2|].
        split; [exact I|exact Hrest].
      * destruct rest as [|p t] eqn:Er; [destruct H|].
        assert (Hlen : (length t <= n)%nat).
        { apply (f_equal (@length cc)) in El. rewrite app_length in El. cbn [length] in El. cbn [length] in Hl. lia. }
        apply (IH t _ m Hlen) in H. destruct H as (pre & r & post & (E & Hr & H2 & Hp & Hq) & Em).
        exists (r0 ++ p :: pre), r, post. split.
        -- split; [rewrite El; rewrite <- app_assoc; cbn [app]; rewrite E; reflexivity|]. split; [exact Hr|]. split; [exact H2|].
           split; [|exact Hq]. rewrite lastc_app by discriminate. destruct pre as [|q pre'].
           ++ cbn. exact Hrest.
           ++ rewrite lastc_cons by discriminate. exact Hp.
        -- rewrite Em. rewrite !blen_chars_app, !blen_chars_cons, blen_chars_nil. lia.
    + intros (pre & r & post & (E & Hr & H2 & Hp & Hq) & Em). destruct pre as [|q pre'].
      * left. cbn [app] in E.
        assert (Er0 : r0 = r).
        { unfold r0. rewrite E. rewrite take_l_app_all by exact Hr. destruct post as [|d y]; [rewrite app_nil_r; reflexivity|].
          rewrite take_l_stop by exact Hq. apply app_nil_r. }
        rewrite Er0. replace (2 <=? length r)%nat with true by (symmetry; apply Nat.leb_le; exact H2). left. subst m. cbn. lia.
      * right.
        assert (Hna : forallb cspace (q :: pre') = false).
        { destruct (forallb cspace (q :: pre')) eqn:X; [|reflexivity]. destruct (lastc (q :: pre')) as [z|] eqn:Ez.
          - rewrite (lastc_all _ z X Ez) in Hp. discriminate.
          - apply lastc_none in Ez. discriminate. }
        destruct (first_nonc _ Hna) as (x & d & y & Ex & Hx & Hd).
        assert (Er0 : r0 = x).
        { unfold r0. rewrite E, Ex. rewrite <- app_assoc. rewrite take_l_app_all by exact Hx. cbn [app]. rewrite take_l_stop by exact Hd. apply app_nil_r. }
        assert (Ert : rest = d :: y ++ r ++ post).
        { unfold rest. rewrite E, Ex. rewrite <- app_assoc. rewrite trim_l_app_all by exact Hx. cbn [app]. apply trim_l_stop. exact Hd. }
        rewrite Ert.
        assert (Hlen : (length (y ++ r ++ post) <= n)%nat).
        { apply (f_equal (@length cc)) in El. rewrite Ert in El. rewrite app_length in El. cbn [length] in El. cbn [length] in Hl. lia. }
        apply (IH _ _ m Hlen). exists y, r, post. split.
        -- split; [reflexivity|]. split; [exact Hr|]. split; [exact H2|]. split; [|exact Hq].
           destruct y as [|z y']; [exact I|]. rewrite Ex in Hp. rewrite lastc_app in Hp by discriminate.
           rewrite lastc_cons in Hp by discriminate. exact Hp.
        -- rewrite Em, Er0, Ex. rewrite !blen_chars_app, !blen_chars_cons, blen_chars_nil. lia.
Qed.

Lemma flat_pcols : forall (F : nat -> list viol) ps,
  flat_map (fun p : nat * list ch => flat_map (fun m => F (fst p + m)%nat) (sp_runs 0 0 0 (snd p))) ps = flat_map F (pcols ps).
Proof.
  intros F. induction ps as [|p ps IH]; [reflexivity|]. unfold pcols in *. cbn [flat_map]. rewrite flat_map_app. rewrite IH. f_equal.
  induction (sp_runs 0 0 0 (snd p)) as [|m ms IHm]; [reflexivity|]. cbn [flat_map map]. rewrite IHm. reflexivity.
Qed.

Lemma l010_line_exact : forall n fl v,
  In v (l010_check_line n fl) <->
  exists pre r post, cspace_run (snd fl) pre r post /\ indent_bytes (snd fl) (S (blen (chars pre))) = false /\ v = (n, S (blen (chars pre))).
Proof.
  intros n fl v. unfold l010_check_line. cbv zeta.
  rewrite (flat_pcols (fun k => if forallb (fun b => (b =? 32) || (b =? 9)) (firstn (S k) (encode (chars (snd fl)))) then [] else [(n, S k)])).
  rewrite pcols_runs. rewrite in_flat_map. split.
  - intros (m & Hm & Hv). apply (runs_exact_n (length (snd fl)) (snd fl) 0%nat m (le_n _)) in Hm.
    destruct Hm as (pre & r & post & Hc & Em). cbn [Nat.add] in Em. subst m. exists pre, r, post. split; [exact Hc|].
    unfold indent_bytes. destruct (forallb _ (firstn (S (blen (chars pre))) (encode (chars (snd fl))))); [destruct Hv|].
    destruct Hv as [Hv|[]]. split; [reflexivity|symmetry; exact Hv].
  - intros (pre & r & post & Hc & Hi & Ev). exists (blen (chars pre)). split.
    + apply (runs_exact_n (length (snd fl)) (snd fl) 0%nat _ (le_n _)). exists pre, r, post. split; [exact Hc|reflexivity].
    + unfold indent_bytes in Hi. rewrite Hi. left. symmetry. exact Ev.
Qed.

Theorem l010_check_exact : forall t n col,
  In (n, col) (l010_check t) <->
  exists fl pre r post, nth_error (clines t) (n - 1) = Some fl /\ (1 <= n)%nat /\ cspace_run (snd fl) pre r post /\
    indent_bytes (snd fl) col = false /\ col = S (blen (chars pre)).
Proof.
  intros t n col. unfold Lint.l010_check. rewrite on_clines_in. split.
  - intros (i & fl & Hn & Hin). apply l010_line_exact in Hin. destruct Hin as (pre & r & post & Hc & Hi & Ev).
    assert (E : (n - 1 = i)%nat /\ (1 <= n)%nat /\ col = S (blen (chars pre))) by (inversion Ev; subst; repeat split; lia).
    destruct E as (E1 & E2 & E3). exists fl, pre, r, post. rewrite E1, E3. split; [exact Hn|]. split; [exact E2|]. split; [exact Hc|]. split; [exact Hi|reflexivity].
  - intros (fl & pre & r & post & Hn & H1 & Hc & Hi & Ec). exists (n - 1)%nat, fl. split; [exact Hn|].
    apply l010_line_exact. exists pre, r, post. split; [exact Hc|]. subst col. split; [exact Hi|]. f_equal. lia.
Qed.

Theorem l010_location : forall t n col, In (n, col) (l010_check t) ->
  exists fl, nth_error (clines t) (n - 1) = Some fl /\ (1 <= n <= length (clines t))%nat /\ (1 <= col <= S (blen (chars (snd fl))))%nat.
Proof.
  intros t n col H. apply l010_check_exact in H. destruct H as (fl & pre & r & post & Hn & H1 & (E & _) & _ & Ec).
  exists fl. split; [exact Hn|]. split.
  - split; [exact H1|]. assert (n - 1 < length (clines t))%nat by (apply nth_error_Some; congruence). lia.
  - subst col. rewrite E. unfold chars. rewrite map_app, blen_app. split; [apply le_n_S; apply Nat.le_0_l|]. apply le_n_S. apply Nat.le_add_r.
Qed.

End Ids.
