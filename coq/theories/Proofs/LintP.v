(* LintP.v — lemmas about the lint model (Model/Lint.v). *)
From Coq Require Import List NArith Bool Arith Lia.
From GV Require Import Model.Lint.
Import ListNotations.
Local Open Scope N_scope.

(* ------------------------------------------------------------------------------------------------ *)
(* newline, split, join *)

Lemma is_nl_eq : forall c, is_nl c = true -> c = nlc.
Proof.
  intros [p r v]. unfold is_nl, nlc, asc. cbn [cp raw valid]. intro H.
  apply andb_prop in H. destruct H as [H H3]. apply andb_prop in H. destruct H as [H1 H2].
  apply N.eqb_eq in H1. subst p. subst v.
  destruct r as [|b [|? ?]]; try discriminate. apply N.eqb_eq in H3. subst b. reflexivity.
Qed.

Lemma is_nl_nlc : is_nl nlc = true.
Proof. reflexivity. Qed.

Definition no_nl (l : list ch) : Prop := forall c, In c l -> is_nl c = false.

Lemma split_nonempty : forall l, split_nl l <> [].
Proof.
  induction l as [|c t IH]; cbn [split_nl]; try discriminate.
  destruct (is_nl c); try discriminate. destruct (split_nl t); discriminate.
Qed.

Lemma split_cons_other : forall c t, is_nl c = false ->
  exists h r, split_nl t = h :: r /\ split_nl (c :: t) = (c :: h) :: r.
Proof.
  intros c t H. cbn [split_nl]. rewrite H. destruct (split_nl t) as [|h r] eqn:E.
  - exfalso. exact (split_nonempty t E).
  - exists h, r. split; reflexivity.
Qed.

Lemma join_cons2 : forall x y r, join_nl (x :: y :: r) = x ++ nlc :: join_nl (y :: r).
Proof. reflexivity. Qed.

Lemma join_cons_ne : forall x r, r <> [] -> join_nl (x :: r) = x ++ nlc :: join_nl r.
Proof. intros x [|y r] H; [contradiction|reflexivity]. Qed.

Lemma join_split : forall l, join_nl (split_nl l) = l.
Proof.
  induction l as [|c t IH]; [reflexivity|].
  destruct (is_nl c) eqn:E.
  - cbn [split_nl]. rewrite E. rewrite join_cons_ne by apply split_nonempty.
    rewrite IH. cbn. f_equal. symmetry. apply is_nl_eq. exact E.
  - destruct (split_cons_other c t E) as (h & r & E1 & E2). rewrite E2. rewrite E1 in IH.
    destruct r as [|y r]; cbn [join_nl] in *.
    + subst. reflexivity.
    + rewrite <- IH. reflexivity.
Qed.

Lemma split_app_line : forall x t, no_nl x -> split_nl (x ++ nlc :: t) = x :: split_nl t.
Proof.
  induction x as [|c x IH]; intros t H.
  - reflexivity.
  - assert (Hc : is_nl c = false) by (apply H; left; reflexivity).
    assert (Hx : no_nl x) by (intros d Hd; apply H; right; exact Hd).
    change ((c :: x) ++ nlc :: t) with (c :: (x ++ nlc :: t)).
    cbn [split_nl]. rewrite Hc. rewrite (IH t Hx). reflexivity.
Qed.

Lemma split_single : forall x, no_nl x -> split_nl x = [x].
Proof.
  induction x as [|c x IH]; intro H; [reflexivity|].
  assert (Hc : is_nl c = false) by (apply H; left; reflexivity).
  cbn [split_nl]. rewrite Hc. rewrite IH; [reflexivity|]. intros d Hd. apply H. right. exact Hd.
Qed.

Lemma split_join : forall ls, ls <> [] -> Forall no_nl ls -> split_nl (join_nl ls) = ls.
Proof.
  induction ls as [|x r IH]; intros Hne Hall; [contradiction|].
  inversion Hall as [|? ? Hx Hr]; subst.
  destruct r as [|y r].
  - cbn [join_nl]. apply split_single. exact Hx.
  - rewrite join_cons2. rewrite split_app_line by exact Hx. f_equal. apply IH; [discriminate|exact Hr].
Qed.

Lemma split_no_nl : forall l, Forall no_nl (split_nl l).
Proof.
  induction l as [|c t IH].
  - constructor; [intros c []|constructor].
  - destruct (is_nl c) eqn:E.
    + cbn [split_nl]. rewrite E. constructor; [intros d []|exact IH].
    + destruct (split_cons_other c t E) as (h & r & E1 & E2). rewrite E2. rewrite E1 in IH.
      inversion IH as [|? ? Hh Hr]; subst. constructor; [|exact Hr].
      intros d [Hd|Hd]; [subst; exact E|apply Hh; exact Hd].
Qed.

(* a rule that rewrites every line on its own *)
Definition per_line (f : list ch -> list ch) (t : list ch) : list ch := join_nl (map f (split_nl t)).

Lemma map_ne : forall {A B} (f : A -> B) l, l <> [] -> map f l <> [].
Proof. intros A B f [|x l] H; [contradiction|discriminate]. Qed.

Lemma Forall_map_keep : forall (f : list ch -> list ch) ls,
  (forall l, no_nl l -> no_nl (f l)) -> Forall no_nl ls -> Forall no_nl (map f ls).
Proof.
  intros f ls Hf H. induction H; cbn; constructor; auto.
Qed.

Lemma split_per_line : forall f t, (forall l, no_nl l -> no_nl (f l)) ->
  split_nl (per_line f t) = map f (split_nl t).
Proof.
  intros f t Hf. unfold per_line. apply split_join.
  - apply map_ne. apply split_nonempty.
  - apply Forall_map_keep; [exact Hf|apply split_no_nl].
Qed.

Lemma per_line_idem : forall f, (forall l, no_nl l -> no_nl (f l)) -> (forall l, no_nl l -> f (f l) = f l) ->
  forall t, per_line f (per_line f t) = per_line f t.
Proof.
  intros f Hk Hi t. unfold per_line at 1. rewrite split_per_line by exact Hk.
  unfold per_line. f_equal. rewrite map_map.
  pose proof (split_no_nl t) as H. induction H as [|x r Hx Hr IH]; cbn; [reflexivity|].
  rewrite Hi by exact Hx. f_equal. exact IH.
Qed.

(* ------------------------------------------------------------------------------------------------ *)
(* trimming *)

Lemma trim_r_nil_iff : forall {A} (p : A -> bool) l, trim_r p l = [] <-> forallb p l = true.
Proof.
  intros A p. induction l as [|c t IH]; cbn [trim_r forallb]; [tauto|].
  destruct (trim_r p t) eqn:E.
  - destruct (p c); cbn; split; intro H; try discriminate; try reflexivity; apply IH; auto.
  - split; intro H; [discriminate|]. apply andb_prop in H. destruct H as [_ H]. apply IH in H. discriminate.
Qed.

Lemma trim_r_cons_ne : forall {A} (p : A -> bool) c t, trim_r p t <> [] -> trim_r p (c :: t) = c :: trim_r p t.
Proof. intros A p c t H. cbn [trim_r]. destruct (trim_r p t); [contradiction|reflexivity]. Qed.

Lemma trim_r_idem : forall {A} (p : A -> bool) l, trim_r p (trim_r p l) = trim_r p l.
Proof.
  intros A p. induction l as [|c t IH]; [reflexivity|].
  cbn [trim_r]. destruct (trim_r p t) as [|d t'] eqn:E.
  - destruct (p c) eqn:Ep; [reflexivity|]. cbn [trim_r]. rewrite Ep. reflexivity.
  - rewrite trim_r_cons_ne; [rewrite IH; reflexivity|]. rewrite IH. discriminate.
Qed.

Lemma trim_r_incl : forall {A} (p : A -> bool) l x, In x (trim_r p l) -> In x l.
Proof.
  intros A p. induction l as [|c t IH]; intros x H; [exact H|].
  cbn [trim_r] in H. destruct (trim_r p t) as [|d t'] eqn:E.
  - destruct (p c); [destruct H|]. destruct H as [H|[]]. left. exact H.
  - destruct H as [H|H]; [left; exact H|right; apply IH; exact H].
Qed.

Lemma trim_l_incl : forall {A} (p : A -> bool) l x, In x (trim_l p l) -> In x l.
Proof.
  intros A p. induction l as [|c t IH]; intros x H; [exact H|].
  cbn [trim_l] in H. destruct (p c); [right; apply IH; exact H|exact H].
Qed.

Lemma take_l_incl : forall {A} (p : A -> bool) l x, In x (take_l p l) -> In x l.
Proof.
  intros A p. induction l as [|c t IH]; intros x H; [exact H|].
  cbn [take_l] in H. destruct (p c); [|destruct H]. destruct H as [H|H]; [left; exact H|right; apply IH; exact H].
Qed.

Lemma take_trim_l : forall {A} (p : A -> bool) l, take_l p l ++ trim_l p l = l.
Proof.
  intros A p. induction l as [|c t IH]; [reflexivity|]. cbn [take_l trim_l].
  destruct (p c); [cbn; f_equal; exact IH|reflexivity].
Qed.

(* ------------------------------------------------------------------------------------------------ *)
(* L001 *)

Lemma l001_fix_per_line : forall t, l001_fix t = per_line l001_fix_line t.
Proof. reflexivity. Qed.

Lemma l001_line_keeps : forall l, no_nl l -> no_nl (l001_fix_line l).
Proof. intros l H c Hc. apply H. apply (trim_r_incl is_blank). exact Hc. Qed.

Lemma l001_fix_idempotent : forall t, l001_fix (l001_fix t) = l001_fix t.
Proof.
  intro t. rewrite !l001_fix_per_line. apply per_line_idem.
  - exact l001_line_keeps.
  - intros l _. apply trim_r_idem.
Qed.

(* ------------------------------------------------------------------------------------------------ *)
(* more list facts *)

Lemma take_l_all : forall {A} (p : A -> bool) l, forallb p (take_l p l) = true.
Proof.
  intros A p. induction l as [|c t IH]; [reflexivity|]. cbn [take_l].
  destruct (p c) eqn:E; [cbn; rewrite E; exact IH|reflexivity].
Qed.

Lemma trim_l_head : forall {A} (p : A -> bool) l c t, trim_l p l = c :: t -> p c = false.
Proof.
  intros A p. induction l as [|d r IH]; intros c t H; [discriminate|]. cbn [trim_l] in H.
  destruct (p d) eqn:E; [eapply IH; exact H|]. inversion H; subst. exact E.
Qed.

Lemma trim_l_nil_iff : forall {A} (p : A -> bool) l, trim_l p l = [] <-> forallb p l = true.
Proof.
  intros A p. induction l as [|c t IH]; cbn [trim_l forallb]; [tauto|].
  destruct (p c); cbn; [exact IH|split; discriminate].
Qed.

Lemma take_l_app_all : forall {A} (p : A -> bool) a b, forallb p a = true -> take_l p (a ++ b) = a ++ take_l p b.
Proof.
  intros A p. induction a as [|c a IH]; intros b H; [reflexivity|]. cbn in H. apply andb_prop in H. destruct H as [H1 H2].
  cbn. rewrite H1. f_equal. apply IH. exact H2.
Qed.

Lemma trim_l_app_all : forall {A} (p : A -> bool) a b, forallb p a = true -> trim_l p (a ++ b) = trim_l p b.
Proof.
  intros A p. induction a as [|c a IH]; intros b H; [reflexivity|]. cbn in H. apply andb_prop in H. destruct H as [H1 H2].
  cbn. rewrite H1. apply IH. exact H2.
Qed.

Lemma take_l_stop : forall {A} (p : A -> bool) c t, p c = false -> take_l p (c :: t) = [].
Proof. intros. cbn. rewrite H. reflexivity. Qed.

Lemma trim_l_stop : forall {A} (p : A -> bool) c t, p c = false -> trim_l p (c :: t) = c :: t.
Proof. intros. cbn. rewrite H. reflexivity. Qed.

Lemma take_l_of_trim_l : forall {A} (p : A -> bool) l, take_l p (trim_l p l) = [].
Proof.
  intros A p l. destruct (trim_l p l) as [|c t] eqn:E; [reflexivity|].
  apply take_l_stop. eapply trim_l_head. exact E.
Qed.

Lemma trim_l_idem : forall {A} (p : A -> bool) l, trim_l p (trim_l p l) = trim_l p l.
Proof.
  intros A p l. destruct (trim_l p l) as [|c t] eqn:E; [reflexivity|].
  apply trim_l_stop. eapply trim_l_head. exact E.
Qed.

Lemma forallb_app2 : forall {A} (p : A -> bool) a b, forallb p (a ++ b) = forallb p a && forallb p b.
Proof. intros. apply forallb_app. Qed.

Lemma forallb_flat_map : forall {A B} (p : B -> bool) (f : A -> list B) l,
  (forall x, In x l -> forallb p (f x) = true) -> forallb p (flat_map f l) = true.
Proof.
  intros A B p f. induction l as [|c t IH]; intro H; [reflexivity|]. cbn. rewrite forallb_app.
  rewrite H by (left; reflexivity). apply IH. intros x Hx. apply H. right. exact Hx.
Qed.

(* ------------------------------------------------------------------------------------------------ *)
(* L002 *)

Lemma spc_blank : is_blank spc = true. Proof. reflexivity. Qed.
Lemma spc_not_tab : is_tab spc = false. Proof. reflexivity. Qed.
Lemma spc_not_nl : is_nl spc = false. Proof. reflexivity. Qed.

Lemma tab4_blank : forall c, is_blank c = true -> forallb is_blank (tab4 c) = true.
Proof. intros c H. unfold tab4. destruct (is_tab c); cbn; [reflexivity|rewrite H; reflexivity]. Qed.

Lemma tab4_notab : forall c, forallb (fun d => negb (is_tab d)) (tab4 c) = true.
Proof. intro c. unfold tab4. destruct (is_tab c) eqn:E; cbn; [reflexivity|rewrite E; reflexivity]. Qed.

Lemma flat_map_tab4_notab : forall l, forallb (fun d => negb (is_tab d)) l = true -> flat_map tab4 l = l.
Proof.
  induction l as [|c t IH]; intro H; [reflexivity|]. cbn in H. apply andb_prop in H. destruct H as [H1 H2].
  cbn. unfold tab4 at 1. destruct (is_tab c); [discriminate|]. cbn. f_equal. apply IH. exact H2.
Qed.

Lemma l002_line_shape : forall l, l002_fix_line l = flat_map tab4 (take_l is_blank l) ++ trim_l is_blank l.
Proof.
  intro l. unfold l002_fix_line, leading_ws. destruct (take_l is_blank l) as [|c t] eqn:E; [|reflexivity].
  cbn. destruct l as [|d r]; [reflexivity|]. cbn [take_l] in E. cbn [trim_l]. destruct (is_blank d); [discriminate|reflexivity].
Qed.

Lemma l002_line_idem : forall l, l002_fix_line (l002_fix_line l) = l002_fix_line l.
Proof.
  intro l. rewrite (l002_line_shape (l002_fix_line l)). rewrite (l002_line_shape l).
  set (X := flat_map tab4 (take_l is_blank l)). set (R := trim_l is_blank l).
  assert (HX : forallb is_blank X = true).
  { apply forallb_flat_map. intros x Hx. apply tab4_blank.
    pose proof (take_l_all is_blank l) as H. rewrite forallb_forall in H. apply H. exact Hx. }
  assert (HT : forallb (fun d => negb (is_tab d)) X = true).
  { apply forallb_flat_map. intros x _. apply tab4_notab. }
  rewrite take_l_app_all by exact HX. rewrite trim_l_app_all by exact HX.
  unfold R. rewrite take_l_of_trim_l. rewrite trim_l_idem. rewrite app_nil_r.
  rewrite flat_map_tab4_notab by exact HT. reflexivity.
Qed.

Lemma in_tab4 : forall c x, In x (tab4 c) -> x = spc \/ x = c.
Proof.
  intros c x. unfold tab4. destruct (is_tab c); cbn; intro H.
  - left. destruct H as [H|[H|[H|[H|[]]]]]; symmetry; exact H.
  - right. destruct H as [H|[]]. symmetry. exact H.
Qed.

Lemma l002_line_keeps : forall l, no_nl l -> no_nl (l002_fix_line l).
Proof.
  intros l H c Hc. rewrite l002_line_shape in Hc. apply in_app_or in Hc. destruct Hc as [Hc|Hc].
  - apply in_flat_map in Hc. destruct Hc as (d & Hd & Hc). apply in_tab4 in Hc. destruct Hc as [Hc|Hc]; subst.
    + reflexivity.
    + apply H. eapply take_l_incl. exact Hd.
  - apply H. eapply trim_l_incl. exact Hc.
Qed.

Lemma l002_fix_idempotent : forall t, l002_fix (l002_fix t) = l002_fix t.
Proof.
  intro t. change (per_line l002_fix_line (per_line l002_fix_line t) = per_line l002_fix_line t).
  apply per_line_idem; [exact l002_line_keeps|intros l _; apply l002_line_idem].
Qed.

(* ------------------------------------------------------------------------------------------------ *)
(* L010: the fixer *)

Lemma wr_wr : forall c, wr (wr c) = wr c.
Proof. intro c. unfold wr. destruct (valid c) eqn:E; [rewrite E; reflexivity|reflexivity]. Qed.
Lemma cp_wr : forall c, cp (wr c) = cp c.
Proof. intro c. unfold wr. destruct (valid c); reflexivity. Qed.
Lemma is_quote_wr : forall c, is_quote (wr c) = is_quote c.
Proof. intro c. unfold is_quote. rewrite cp_wr. reflexivity. Qed.
Lemma is_sp_wr : forall c, is_sp (wr c) = is_sp c.
Proof. intro c. unfold is_sp. rewrite cp_wr. reflexivity. Qed.
Lemma is_tab_wr : forall c, is_tab (wr c) = is_tab c.
Proof. intro c. unfold is_tab. rewrite cp_wr. reflexivity. Qed.
Lemma is_blank_wr : forall c, is_blank (wr c) = is_blank c.
Proof. intro c. unfold is_blank. rewrite is_sp_wr, is_tab_wr. reflexivity. Qed.
Lemma is_nl_wr : forall c, is_nl c = false -> is_nl (wr c) = false.
Proof.
  intros c H. unfold wr. destruct (valid c) eqn:E; [exact H|]. unfold is_nl. cbn [cp raw valid].
  rewrite andb_false_r. reflexivity.
Qed.

Lemma l010_scan_idem : forall l q ps, l010_scan q ps (l010_scan q ps l) = l010_scan q ps l.
Proof.
  induction l as [|c t IH]; intros q ps; [reflexivity|].
  cbn [l010_scan]. destruct q as [k|].
  - cbn [l010_scan]. rewrite wr_wr, cp_wr. rewrite IH. reflexivity.
  - destruct (is_quote c) eqn:Eq.
    + cbn [l010_scan]. rewrite is_quote_wr, Eq, wr_wr, cp_wr, IH. reflexivity.
    + destruct (is_sp c) eqn:Es.
      * destruct ps; cbn [app].
        -- apply IH.
        -- cbn [l010_scan]. rewrite is_quote_wr, Eq, is_sp_wr, Es, wr_wr. cbn [app]. rewrite IH. reflexivity.
      * cbn [l010_scan]. rewrite is_quote_wr, Eq, is_sp_wr, Es, wr_wr, IH. reflexivity.
Qed.

Lemma l010_scan_in : forall l q ps x, In x (l010_scan q ps l) -> exists c, In c l /\ x = wr c.
Proof.
  induction l as [|c t IH]; intros q ps x H; [destruct H|].
  cbn [l010_scan] in H.
  assert (G : forall q' ps', In x (wr c :: l010_scan q' ps' t) -> exists d, In d (c :: t) /\ x = wr d).
  { intros q' ps' [Hx|Hx]; [exists c; split; [left; reflexivity|symmetry; exact Hx]|].
    destruct (IH _ _ _ Hx) as (d & Hd & E). exists d. split; [right; exact Hd|exact E]. }
  destruct q as [k|]; [eapply G; exact H|].
  destruct (is_quote c); [eapply G; exact H|].
  destruct (is_sp c).
  - destruct ps; cbn [app] in H.
    + destruct (IH _ _ _ H) as (d & Hd & E). exists d. split; [right; exact Hd|exact E].
    + eapply G; exact H.
  - eapply G; exact H.
Qed.

Lemma l010_scan_blank : forall l q ps, forallb is_blank l = true -> forallb is_blank (l010_scan q ps l) = true.
Proof.
  intros l q ps H. apply forallb_forall. intros x Hx. apply l010_scan_in in Hx. destruct Hx as (c & Hc & E). subst.
  rewrite is_blank_wr. rewrite forallb_forall in H. apply H. exact Hc.
Qed.

(* the scan of a line that starts with a non-blank character starts with that character *)
Lemma l010_scan_head : forall c t, is_blank c = false ->
  exists r, l010_scan None false (c :: t) = wr c :: r.
Proof.
  intros c t H. cbn [l010_scan]. destruct (is_quote c); [eexists; reflexivity|].
  unfold is_blank in H. apply orb_false_elim in H. destruct H as [H _]. rewrite H. eexists; reflexivity.
Qed.

Lemma l010_line_idem : forall l, l010_fix_line (l010_fix_line l) = l010_fix_line l.
Proof.
  intro l.
  assert (E0 : l010_fix_line l = match trim_l is_blank l with
                                 | [] => l010_scan None false l
                                 | rest => take_l is_blank l ++ l010_scan None false rest end) by reflexivity.
  destruct (trim_l is_blank l) as [|c r] eqn:E.
  - apply trim_l_nil_iff in E. pose proof (l010_scan_blank l None false E) as Hb.
    rewrite E0. unfold l010_fix_line. apply trim_l_nil_iff in Hb. rewrite Hb. apply l010_scan_idem.
  - pose proof (trim_l_head _ _ _ _ E) as Hc.
    destruct (l010_scan_head c r Hc) as (s & Hs).
    pose proof (take_l_all is_blank l) as Hlead.
    rewrite E0. unfold l010_fix_line. rewrite Hs.
    rewrite trim_l_app_all by exact Hlead. rewrite trim_l_stop by (rewrite is_blank_wr; exact Hc).
    rewrite take_l_app_all by exact Hlead. rewrite take_l_stop by (rewrite is_blank_wr; exact Hc).
    rewrite app_nil_r. rewrite <- Hs. rewrite l010_scan_idem. reflexivity.
Qed.

Lemma l010_line_keeps : forall l, no_nl l -> no_nl (l010_fix_line l).
Proof.
  intros l H x Hx. unfold l010_fix_line in Hx.
  assert (G : forall m, (forall y, In y m -> In y l) -> In x (l010_scan None false m) -> is_nl x = false).
  { intros m Hm Hin. apply l010_scan_in in Hin. destruct Hin as (c & Hc & E). subst. apply is_nl_wr. apply H. apply Hm. exact Hc. }
  destruct (trim_l is_blank l) as [|c r] eqn:E.
  - eapply G; [|exact Hx]. auto.
  - apply in_app_or in Hx. destruct Hx as [Hx|Hx].
    + apply H. eapply take_l_incl. exact Hx.
    + eapply G; [|exact Hx]. intros y Hy. eapply trim_l_incl. rewrite E. exact Hy.
Qed.

Lemma l010_fix_idempotent : forall t, l010_fix (l010_fix t) = l010_fix t.
Proof.
  intro t. change (per_line l010_fix_line (per_line l010_fix_line t) = per_line l010_fix_line t).
  apply per_line_idem; [exact l010_line_keeps|intros l _; apply l010_line_idem].
Qed.

(* ------------------------------------------------------------------------------------------------ *)
(* L003 *)

Section L003.
  Variable is_space : N -> bool.
  Notation blank := (blank_line is_space).

  (* no run of blank lines exceeds mx, the first run being counted from cnt *)
  Fixpoint bounded (mx cnt : nat) (ls : list (list ch)) : bool :=
    match ls with
    | [] => true
    | l :: r => if blank l then (S cnt <=? mx)%nat && bounded mx (S cnt) r else bounded mx 0 r
    end.

  Lemma pass_bounded : forall mx ls cnt, bounded mx (Nat.min cnt mx) (l003_pass is_space mx cnt ls) = true.
  Proof.
    intros mx. induction ls as [|l r IH]; intro cnt; [reflexivity|].
    cbn [l003_pass]. destruct (blank l) eqn:Eb.
    - destruct (S cnt <=? mx)%nat eqn:El.
      + apply Nat.leb_le in El. cbn [bounded]. rewrite Eb.
        replace (Nat.min cnt mx) with cnt by lia.
        replace (S cnt <=? mx)%nat with true by (symmetry; apply Nat.leb_le; lia). cbn [andb].
        specialize (IH (S cnt)). replace (Nat.min (S cnt) mx) with (S cnt) in IH by lia. exact IH.
      + apply Nat.leb_gt in El. specialize (IH (S cnt)).
        replace (Nat.min (S cnt) mx) with mx in IH by lia. replace (Nat.min cnt mx) with mx by lia. exact IH.
    - cbn [bounded]. rewrite Eb. specialize (IH 0%nat). cbn [Nat.min] in IH. exact IH.
  Qed.

  Lemma pass_fixed : forall mx ls cnt, bounded mx cnt ls = true -> l003_pass is_space mx cnt ls = ls.
  Proof.
    intros mx. induction ls as [|l r IH]; intros cnt H; [reflexivity|].
    cbn [bounded] in H. cbn [l003_pass]. destruct (blank l).
    - apply andb_prop in H. destruct H as [H1 H2]. rewrite H1. f_equal. apply IH. exact H2.
    - f_equal. apply IH. exact H.
  Qed.

  Lemma bounded_all_blank : forall mx suf cnt, forallb blank suf = true -> bounded mx cnt suf = true ->
    (cnt + length suf <= Nat.max mx cnt)%nat.
  Proof.
    intros mx. induction suf as [|l r IH]; intros cnt Hb H; [cbn; lia|].
    cbn in Hb. apply andb_prop in Hb. destruct Hb as [Hl Hr]. cbn [bounded] in H. rewrite Hl in H.
    apply andb_prop in H. destruct H as [H1 H2]. apply Nat.leb_le in H1.
    specialize (IH (S cnt) Hr H2). cbn [length]. lia.
  Qed.

  Lemma bounded_app : forall mx pre suf cnt, bounded mx cnt (pre ++ suf) = true ->
    exists c, (c <= mx \/ (pre = [] /\ c = cnt))%nat /\ bounded mx c suf = true.
  Proof.
    intros mx. induction pre as [|l r IH]; intros suf cnt H.
    - exists cnt. split; [right; split; reflexivity|exact H].
    - cbn [app bounded] in H. destruct (blank l).
      + apply andb_prop in H. destruct H as [H1 H2]. apply Nat.leb_le in H1.
        destruct (IH suf (S cnt) H2) as (c & Hc & Hb). exists c. split; [|exact Hb].
        destruct Hc as [Hc|[_ Hc]]; left; lia.
      + destruct (IH suf 0%nat H) as (c & Hc & Hb). exists c. split; [|exact Hb].
        destruct Hc as [Hc|[_ Hc]]; left; lia.
  Qed.

  Lemma trailing_bounded : forall mx ls, bounded mx 0 ls = true -> (trailing_blanks is_space ls <= mx)%nat.
  Proof.
    intros mx ls H. unfold trailing_blanks.
    pose proof (take_trim_l blank (rev ls)) as E.
    assert (E2 : ls = rev (trim_l blank (rev ls)) ++ rev (take_l blank (rev ls))).
    { rewrite <- rev_app_distr. rewrite E. symmetry. apply rev_involutive. }
    rewrite E2 in H. apply bounded_app in H. destruct H as (c & Hc & Hb).
    assert (Hall : forallb blank (rev (take_l blank (rev ls))) = true).
    { apply forallb_forall. intros x Hx. apply in_rev in Hx.
      pose proof (take_l_all blank (rev ls)) as Ht. rewrite forallb_forall in Ht. apply Ht. exact Hx. }
    pose proof (bounded_all_blank mx _ c Hall Hb) as Hlen. rewrite rev_length in Hlen.
    destruct Hc as [Hc|[_ Hc]]; lia.
  Qed.

  Lemma trim_end_fixed : forall fuel mx ls, bounded mx 0 ls = true -> l003_trim_end is_space fuel mx ls = ls.
  Proof.
    intros fuel mx ls H. destruct fuel as [|k]; [reflexivity|]. cbn [l003_trim_end].
    destruct (rev ls) as [|lst r]; [reflexivity|]. destruct (blank lst); [|reflexivity].
    pose proof (trailing_bounded mx ls H) as Ht.
    replace (mx <? trailing_blanks is_space ls)%nat with false; [reflexivity|].
    symmetry. apply Nat.ltb_ge. exact Ht.
  Qed.

  (* the lines that the fixer keeps *)
  Definition l003_lines (mx : nat) (ls : list (list ch)) : list (list ch) :=
    let res := l003_pass is_space mx 0 ls in l003_trim_end is_space (length res) mx res.

  Lemma l003_lines_eq : forall mx ls, l003_lines mx ls = l003_pass is_space mx 0 ls.
  Proof.
    intros mx ls. unfold l003_lines. apply trim_end_fixed.
    exact (pass_bounded mx ls 0%nat).
  Qed.

  Lemma pass_incl : forall mx ls cnt x, In x (l003_pass is_space mx cnt ls) -> In x ls.
  Proof.
    intros mx. induction ls as [|l r IH]; intros cnt x H; [exact H|]. cbn [l003_pass] in H.
    destruct (blank l).
    - destruct (S cnt <=? mx)%nat; [destruct H as [H|H]; [left; exact H|right; eapply IH; exact H]|right; eapply IH; exact H].
    - destruct H as [H|H]; [left; exact H|right; eapply IH; exact H].
  Qed.

  Lemma pass_nonempty : forall mx ls, (1 <= mx)%nat -> ls <> [] -> l003_pass is_space mx 0 ls <> [].
  Proof.
    intros mx [|l r] Hm H; [contradiction|]. cbn [l003_pass]. destruct (blank l); [|discriminate].
    replace (1 <=? mx)%nat with true by (symmetry; apply Nat.leb_le; exact Hm). discriminate.
  Qed.

  Lemma l003_split_fix : forall mx t, (1 <= mx)%nat ->
    split_nl (l003_fix_mx is_space mx t) = l003_pass is_space mx 0 (split_nl t).
  Proof.
    intros mx t Hm. unfold l003_fix_mx. fold (l003_lines mx (split_nl t)). rewrite l003_lines_eq.
    apply split_join.
    - apply pass_nonempty; [exact Hm|apply split_nonempty].
    - apply Forall_forall. intros x Hx. apply pass_incl in Hx.
      pose proof (split_no_nl t) as Hall. rewrite Forall_forall in Hall. apply Hall. exact Hx.
  Qed.

  Lemma l003_fix_idempotent_mx : forall mx t, (1 <= mx)%nat ->
    l003_fix_mx is_space mx (l003_fix_mx is_space mx t) = l003_fix_mx is_space mx t.
  Proof.
    intros mx t Hm. unfold l003_fix_mx at 1. fold (l003_lines mx (split_nl (l003_fix_mx is_space mx t))).
    rewrite l003_lines_eq. rewrite (l003_split_fix mx t Hm).
    rewrite pass_fixed by exact (pass_bounded mx (split_nl t) 0%nat).
    unfold l003_fix_mx. fold (l003_lines mx (split_nl t)). rewrite l003_lines_eq. reflexivity.
  Qed.

  (* re-lint after fix *)
  Lemma check_bounded : forall mx ls cnt start n, (cnt <= mx)%nat -> bounded mx cnt ls = true ->
    l003_check_lines is_space mx cnt start n ls = [].
  Proof.
    intros mx. induction ls as [|l r IH]; intros cnt start n Hc H.
    - cbn [l003_check_lines]. replace (mx <? cnt)%nat with false by (symmetry; apply Nat.ltb_ge; exact Hc). reflexivity.
    - cbn [l003_check_lines]. cbn [bounded] in H. destruct (blank l).
      + apply andb_prop in H. destruct H as [H1 H2]. apply Nat.leb_le in H1. apply IH; [exact H1|exact H2].
      + replace (mx <? cnt)%nat with false by (symmetry; apply Nat.ltb_ge; exact Hc). cbn [app].
        apply IH; [lia|exact H].
  Qed.

  Lemma l003_fix_clears_mx : forall mx t, (1 <= mx)%nat -> l003_check_mx is_space mx (l003_fix_mx is_space mx t) = [].
  Proof.
    intros mx t Hm. unfold l003_check_mx. rewrite (l003_split_fix mx t Hm).
    apply check_bounded; [lia|]. exact (pass_bounded mx (split_nl t) 0%nat).
  Qed.
End L003.
