(* LintP.v — lemmas about the lint model (Model/Lint.v). *)
From Coq Require Import List NArith Bool Arith Lia.
From GV Require Import Model.Lint.
Import ListNotations.
Local Open Scope N_scope.

(* ------------------------------------------------------------------------------------------------ *)
(* newline, split, join *)

Lemma is_nl_eq : forall c, is_nl c = true -> c = nlc.
Proof.
  intros [p r v]. unfold is_nl, nlc, asc. cbn [cp raw valid]. intro H.
  apply andb_prop in H. destruct H as [H H3]. apply andb_prop in H. destruct H as [H1 H2].
  apply N.eqb_eq in H1. subst p. subst v.
  destruct r as [|b [|? ?]]; try discriminate. apply N.eqb_eq in H3. subst b. reflexivity.
Qed.

Lemma is_nl_nlc : is_nl nlc = true.
Proof. reflexivity. Qed.

Definition no_nl (l : list ch) : Prop := forall c, In c l -> is_nl c = false.

Lemma split_nonempty : forall l, split_nl l <> [].
Proof.
  induction l as [|c t IH]; cbn [split_nl]; try discriminate.
  destruct (is_nl c); try discriminate. destruct (split_nl t); discriminate.
Qed.

Lemma split_cons_other : forall c t, is_nl c = false ->
  exists h r, split_nl t = h :: r /\ split_nl (c :: t) = (c :: h) :: r.
Proof.
  intros c t H. cbn [split_nl]. rewrite H. destruct (split_nl t) as [|h r] eqn:E.
  - exfalso. exact (split_nonempty t E).
  - exists h, r. split; reflexivity.
Qed.

Lemma join_cons2 : forall x y r, join_nl (x :: y :: r) = x ++ nlc :: join_nl (y :: r).
Proof. reflexivity. Qed.

Lemma join_cons_ne : forall x r, r <> [] -> join_nl (x :: r) = x ++ nlc :: join_nl r.
Proof. intros x [|y r] H; [contradiction|reflexivity]. Qed.

Lemma join_split : forall l, join_nl (split_nl l) = l.
Proof.
  induction l as [|c t IH]; [reflexivity|].
  destruct (is_nl c) eqn:E.
  - cbn [split_nl]. rewrite E. rewrite join_cons_ne by apply split_nonempty.
    rewrite IH. cbn. f_equal. symmetry. apply is_nl_eq. exact E.
  - destruct (split_cons_other c t E) as (h & r & E1 & E2). rewrite E2. rewrite E1 in IH.
    destruct r as [|y r]; cbn [join_nl] in *.
    + subst. reflexivity.
    + rewrite <- IH. reflexivity.
Qed.

Lemma split_app_line : forall x t, no_nl x -> split_nl (x ++ nlc :: t) = x :: split_nl t.
Proof.
  induction x as [|c x IH]; intros t H.
  - reflexivity.
  - assert (Hc : is_nl c = false) by (apply H; left; reflexivity).
    assert (Hx : no_nl x) by (intros d Hd; apply H; right; exact Hd).
    change ((c :: x) ++ nlc :: t) with (c :: (x ++ nlc :: t)).
    cbn [split_nl]. rewrite Hc. rewrite (IH t Hx). reflexivity.
Qed.

Lemma split_single : forall x, no_nl x -> split_nl x = [x].
Proof.
  induction x as [|c x IH]; intro H; [reflexivity|].
  assert (Hc : is_nl c = false) by (apply H; left; reflexivity).
  cbn [split_nl]. rewrite Hc. rewrite IH; [reflexivity|]. intros d Hd. apply H. right. exact Hd.
Qed.

Lemma split_join : forall ls, ls <> [] -> Forall no_nl ls -> split_nl (join_nl ls) = ls.
Proof.
  induction ls as [|x r IH]; intros Hne Hall; [contradiction|].
  inversion Hall as [|? ? Hx Hr]; subst.
  destruct r as [|y r].
  - cbn [join_nl]. apply split_single. exact Hx.
  - rewrite join_cons2. rewrite split_app_line by exact Hx. f_equal. apply IH; [discriminate|exact Hr].
Qed.

Lemma split_no_nl : forall l, Forall no_nl (split_nl l).
Proof.
  induction l as [|c t IH].
  - constructor; [intros c []|constructor].
  - destruct (is_nl c) eqn:E.
    + cbn [split_nl]. rewrite E. constructor; [intros d []|exact IH].
    + destruct (split_cons_other c t E) as (h & r & E1 & E2). rewrite E2. rewrite E1 in IH.
      inversion IH as [|? ? Hh Hr]; subst. constructor; [|exact Hr].
      intros d [Hd|Hd]; [subst; exact E|apply Hh; exact Hd].
Qed.

(* a rule that rewrites every line on its own *)
Definition per_line (f : list ch -> list ch) (t : list ch) : list ch := join_nl (map f (split_nl t)).

Lemma map_ne : forall {A B} (f : A -> B) l, l <> [] -> map f l <> [].
Proof. intros A B f [|x l] H; [contradiction|discriminate]. Qed.

Lemma Forall_map_keep : forall (f : list ch -> list ch) ls,
  (forall l, no_nl l -> no_nl (f l)) -> Forall no_nl ls -> Forall no_nl (map f ls).
Proof.
  intros f ls Hf H. induction H; cbn; constructor; auto.
Qed.

Lemma split_per_line : forall f t, (forall l, no_nl l -> no_nl (f l)) ->
  split_nl (per_line f t) = map f (split_nl t).
Proof.
  intros f t Hf. unfold per_line. apply split_join.
  - apply map_ne. apply split_nonempty.
  - apply Forall_map_keep; [exact Hf|apply split_no_nl].
Qed.

Lemma per_line_idem : forall f, (forall l, no_nl l -> no_nl (f l)) -> (forall l, no_nl l -> f (f l) = f l) ->
  forall t, per_line f (per_line f t) = per_line f t.
Proof.
  intros f Hk Hi t. unfold per_line at 1. rewrite split_per_line by exact Hk.
  unfold per_line. f_equal. rewrite map_map.
  pose proof (split_no_nl t) as H. induction H as [|x r Hx Hr IH]; cbn; [reflexivity|].
  rewrite Hi by exact Hx. f_equal. exact IH.
Qed.

(* ------------------------------------------------------------------------------------------------ *)
(* trimming *)

Lemma trim_r_nil_iff : forall {A} (p : A -> bool) l, trim_r p l = [] <-> forallb p l = true.
Proof.
  intros A p. induction l as [|c t IH]; cbn [trim_r forallb]; [tauto|].
  destruct (trim_r p t) eqn:E.
  - destruct (p c); cbn; split; intro H; try discriminate; try reflexivity; apply IH; auto.
  - split; intro H; [discriminate|]. apply andb_prop in H. destruct H as [_ H]. apply IH in H. discriminate.
Qed.

Lemma trim_r_cons_ne : forall {A} (p : A -> bool) c t, trim_r p t <> [] -> trim_r p (c :: t) = c :: trim_r p t.
Proof. intros A p c t H. cbn [trim_r]. destruct (trim_r p t); [contradiction|reflexivity]. Qed.

Lemma trim_r_idem : forall {A} (p : A -> bool) l, trim_r p (trim_r p l) = trim_r p l.
Proof.
  intros A p. induction l as [|c t IH]; [reflexivity|].
  cbn [trim_r]. destruct (trim_r p t) as [|d t'] eqn:E.
  - destruct (p c) eqn:Ep; [reflexivity|]. cbn [trim_r]. rewrite Ep. reflexivity.
  - rewrite trim_r_cons_ne; [rewrite IH; reflexivity|]. rewrite IH. discriminate.
Qed.

Lemma trim_r_incl : forall {A} (p : A -> bool) l x, In x (trim_r p l) -> In x l.
Proof.
  intros A p. induction l as [|c t IH]; intros x H; [exact H|].
  cbn [trim_r] in H. destruct (trim_r p t) as [|d t'] eqn:E.
  - destruct (p c); [destruct H|]. destruct H as [H|[]]. left. exact H.
  - destruct H as [H|H]; [left; exact H|right; apply IH; exact H].
Qed.

Lemma trim_l_incl : forall {A} (p : A -> bool) l x, In x (trim_l p l) -> In x l.
Proof.
  intros A p. induction l as [|c t IH]; intros x H; [exact H|].
  cbn [trim_l] in H. destruct (p c); [right; apply IH; exact H|exact H].
Qed.

Lemma take_l_incl : forall {A} (p : A -> bool) l x, In x (take_l p l) -> In x l.
Proof.
  intros A p. induction l as [|c t IH]; intros x H; [exact H|].
  cbn [take_l] in H. destruct (p c); [|destruct H]. destruct H as [H|H]; [left; exact H|right; apply IH; exact H].
Qed.

Lemma take_trim_l : forall {A} (p : A -> bool) l, take_l p l ++ trim_l p l = l.
Proof.
  intros A p. induction l as [|c t IH]; [reflexivity|]. cbn [take_l trim_l].
  destruct (p c); [cbn; f_equal; exact IH|reflexivity].
Qed.

(* ------------------------------------------------------------------------------------------------ *)
(* L001 *)

Lemma l001_fix_per_line : forall t, l001_fix t = per_line l001_fix_line t.
Proof. reflexivity. Qed.

Lemma l001_line_keeps : forall l, no_nl l -> no_nl (l001_fix_line l).
Proof. intros l H c Hc. apply H. apply (trim_r_incl is_blank). exact Hc. Qed.

Lemma l001_fix_idempotent : forall t, l001_fix (l001_fix t) = l001_fix t.
Proof.
  intro t. rewrite !l001_fix_per_line. apply per_line_idem.
  - exact l001_line_keeps.
  - intros l _. apply trim_r_idem.
Qed.

(* ------------------------------------------------------------------------------------------------ *)
(* more list facts *)

Lemma take_l_all : forall {A} (p : A -> bool) l, forallb p (take_l p l) = true.
Proof.
  intros A p. induction l as [|c t IH]; [reflexivity|]. cbn [take_l].
  destruct (p c) eqn:E; [cbn; rewrite E; exact IH|reflexivity].
Qed.

Lemma trim_l_head : forall {A} (p : A -> bool) l c t, trim_l p l = c :: t -> p c = false.
Proof.
  intros A p. induction l as [|d r IH]; intros c t H; [discriminate|]. cbn [trim_l] in H.
  destruct (p d) eqn:E; [eapply IH; exact H|]. inversion H; subst. exact E.
Qed.

Lemma trim_l_nil_iff : forall {A} (p : A -> bool) l, trim_l p l = [] <-> forallb p l = true.
Proof.
  intros A p. induction l as [|c t IH]; cbn [trim_l forallb]; [tauto|].
  destruct (p c); cbn; [exact IH|split; discriminate].
Qed.

Lemma take_l_app_all : forall {A} (p : A -> bool) a b, forallb p a = true -> take_l p (a ++ b) = a ++ take_l p b.
Proof.
  intros A p. induction a as [|c a IH]; intros b H; [reflexivity|]. cbn in H. apply andb_prop in H. destruct H as [H1 H2].
  cbn. rewrite H1. f_equal. apply IH. exact H2.
Qed.

Lemma trim_l_app_all : forall {A} (p : A -> bool) a b, forallb p a = true -> trim_l p (a ++ b) = trim_l p b.
Proof.
  intros A p. induction a as [|c a IH]; intros b H; [reflexivity|]. cbn in H. apply andb_prop in H. destruct H as [H1 H2].
  cbn. rewrite H1. apply IH. exact H2.
Qed.

Lemma take_l_stop : forall {A} (p : A -> bool) c t, p c = false -> take_l p (c :: t) = [].
Proof. intros. cbn. rewrite H. reflexivity. Qed.

Lemma trim_l_stop : forall {A} (p : A -> bool) c t, p c = false -> trim_l p (c :: t) = c :: t.
Proof. intros. cbn. rewrite H. reflexivity. Qed.

Lemma take_l_of_trim_l : forall {A} (p : A -> bool) l, take_l p (trim_l p l) = [].
Proof.
  intros A p l. destruct (trim_l p l) as [|c t] eqn:E; [reflexivity|].
  apply take_l_stop. eapply trim_l_head. exact E.
Qed.

Lemma trim_l_idem : forall {A} (p : A -> bool) l, trim_l p (trim_l p l) = trim_l p l.
Proof.
  intros A p l. destruct (trim_l p l) as [|c t] eqn:E; [reflexivity|].
  apply trim_l_stop. eapply trim_l_head. exact E.
Qed.

Lemma forallb_app2 : forall {A} (p : A -> bool) a b, forallb p (a ++ b) = forallb p a && forallb p b.
Proof. intros. apply forallb_app. Qed.

Lemma forallb_flat_map : forall {A B} (p : B -> bool) (f : A -> list B) l,
  (forall x, In x l -> forallb p (f x) = true) -> forallb p (flat_map f l) = true.
Proof.
  intros A B p f. induction l as [|c t IH]; intro H; [reflexivity|]. cbn. rewrite forallb_app.
  rewrite H by (left; reflexivity). apply IH. intros x Hx. apply H. right. exact Hx.
Qed.

(* ------------------------------------------------------------------------------------------------ *)
(* L002 *)

Lemma spc_blank : is_blank spc = true. Proof. reflexivity. Qed.
Lemma spc_not_tab : is_tab spc = false. Proof. reflexivity. Qed.
Lemma spc_not_nl : is_nl spc = false. Proof. reflexivity. Qed.

Lemma tab4_blank : forall c, is_blank c = true -> forallb is_blank (tab4 c) = true.
Proof. intros c H. unfold tab4. destruct (is_tab c); cbn; [reflexivity|rewrite H; reflexivity]. Qed.

Lemma tab4_notab : forall c, forallb (fun d => negb (is_tab d)) (tab4 c) = true.
Proof. intro c. unfold tab4. destruct (is_tab c) eqn:E; cbn; [reflexivity|rewrite E; reflexivity]. Qed.

Lemma flat_map_tab4_notab : forall l, forallb (fun d => negb (is_tab d)) l = true -> flat_map tab4 l = l.
Proof.
  induction l as [|c t IH]; intro H; [reflexivity|]. cbn in H. apply andb_prop in H. destruct H as [H1 H2].
  cbn. unfold tab4 at 1. destruct (is_tab c); [discriminate|]. cbn. f_equal. apply IH. exact H2.
Qed.

Lemma l002_line_shape : forall l, l002_fix_line l = flat_map tab4 (take_l is_blank l) ++ trim_l is_blank l.
Proof.
  intro l. unfold l002_fix_line, leading_ws. destruct (take_l is_blank l) as [|c t] eqn:E; [|reflexivity].
  cbn. destruct l as [|d r]; [reflexivity|]. cbn [take_l] in E. cbn [trim_l]. destruct (is_blank d); [discriminate|reflexivity].
Qed.

Lemma l002_line_idem : forall l, l002_fix_line (l002_fix_line l) = l002_fix_line l.
Proof.
  intro l. rewrite (l002_line_shape (l002_fix_line l)). rewrite (l002_line_shape l).
  set (X := flat_map tab4 (take_l is_blank l)). set (R := trim_l is_blank l).
  assert (HX : forallb is_blank X = true).
  { apply forallb_flat_map. intros x Hx. apply tab4_blank.
    pose proof (take_l_all is_blank l) as H. rewrite forallb_forall in H. apply H. exact Hx. }
  assert (HT : forallb (fun d => negb (is_tab d)) X = true).
  { apply forallb_flat_map. intros x _. apply tab4_notab. }
  rewrite take_l_app_all by exact HX. rewrite trim_l_app_all by exact HX.
  unfold R. rewrite take_l_of_trim_l. rewrite trim_l_idem. rewrite app_nil_r.
  rewrite flat_map_tab4_notab by exact HT. reflexivity.
Qed.

Lemma in_tab4 : forall c x, In x (tab4 c) -> x = spc \/ x = c.
Proof.
  intros c x. unfold tab4. destruct (is_tab c); cbn; intro H.
  - left. destruct H as [H|[H|[H|[H|[]]]]]; symmetry; exact H.
  - right. destruct H as [H|[]]. symmetry. exact H.
Qed.

Lemma l002_line_keeps : forall l, no_nl l -> no_nl (l002_fix_line l).
Proof.
  intros l H c Hc. rewrite l002_line_shape in Hc. apply in_app_or in Hc. destruct Hc as [Hc|Hc].
  - apply in_flat_map in Hc. destruct Hc as (d & Hd & Hc). apply in_tab4 in Hc. destruct Hc as [Hc|Hc]; subst.
    + reflexivity.
    + apply H. eapply take_l_incl. exact Hd.
  - apply H. eapply trim_l_incl. exact Hc.
Qed.

Lemma l002_fix_idempotent : forall t, l002_fix (l002_fix t) = l002_fix t.
Proof.
  intro t. change (per_line l002_fix_line (per_line l002_fix_line t) = per_line l002_fix_line t).
  apply per_line_idem; [exact l002_line_keeps|intros l _; apply l002_line_idem].
Qed.

(* ------------------------------------------------------------------------------------------------ *)
(* L010: the fixer *)

Lemma wr_wr : forall c, wr (wr c) = wr c.
Proof. intro c. unfold wr. destruct (valid c) eqn:E; [rewrite E; reflexivity|reflexivity]. Qed.
Lemma cp_wr : forall c, cp (wr c) = cp c.
Proof. intro c. unfold wr. destruct (valid c); reflexivity. Qed.
Lemma is_quote_wr : forall c, is_quote (wr c) = is_quote c.
Proof. intro c. unfold is_quote. rewrite cp_wr. reflexivity. Qed.
Lemma is_sp_wr : forall c, is_sp (wr c) = is_sp c.
Proof. intro c. unfold is_sp. rewrite cp_wr. reflexivity. Qed.
Lemma is_tab_wr : forall c, is_tab (wr c) = is_tab c.
Proof. intro c. unfold is_tab. rewrite cp_wr. reflexivity. Qed.
Lemma is_blank_wr : forall c, is_blank (wr c) = is_blank c.
Proof. intro c. unfold is_blank. rewrite is_sp_wr, is_tab_wr. reflexivity. Qed.
Lemma is_nl_wr : forall c, is_nl c = false -> is_nl (wr c) = false.
Proof.
  intros c H. unfold wr. destruct (valid c) eqn:E; [exact H|]. unfold is_nl. cbn [cp raw valid].
  rewrite andb_false_r. reflexivity.
Qed.

(* line comments *)
Lemma cstart_wr : forall c t, cstart (wr c) t = cstart c t.
Proof. intros c t. unfold cstart. rewrite cp_wr. reflexivity. Qed.
Lemma cstart_next : forall c t' t, next_is 45 t' = next_is 45 t -> cstart c t' = cstart c t.
Proof. intros c t' t H. unfold cstart. rewrite H. reflexivity. Qed.
Lemma cstart_ne : forall c t, (cp c =? 45) = false -> cstart c t = false.
Proof. intros c t H. unfold cstart. rewrite H. reflexivity. Qed.
Lemma cstart_quote : forall c t, is_quote c = true -> cstart c t = false.
Proof.
  intros c t H. apply cstart_ne. unfold is_quote in H. apply orb_prop in H. destruct H as [H|H]; [apply orb_prop in H; destruct H as [H|H]|];
    apply N.eqb_eq in H; rewrite H; reflexivity.
Qed.
Lemma cstart_sp : forall c t, is_sp c = true -> cstart c t = false.
Proof. intros c t H. apply cstart_ne. unfold is_sp in H. apply N.eqb_eq in H. rewrite H. reflexivity. Qed.
Lemma cstart_blank : forall c t, is_blank c = true -> cstart c t = false.
Proof.
  intros c t H. apply cstart_ne. unfold is_blank, is_sp, is_tab in H. apply orb_prop in H. destruct H as [H|H]; apply N.eqb_eq in H; rewrite H; reflexivity.
Qed.
Lemma next_is_scan10 : forall n t q, next_is n (l010_scan q false t) = next_is n t.
Proof.
  intros n [|c t] q; [reflexivity|]. cbn [l010_scan]. destruct q as [k|]; [cbn [next_is]; rewrite cp_wr; reflexivity|].
  destruct (cstart c t); [reflexivity|]. destruct (is_quote c); [cbn [next_is]; rewrite cp_wr; reflexivity|].
  destruct (is_sp c); cbn [app next_is]; rewrite cp_wr; reflexivity.
Qed.

Lemma l010_scan_idem : forall l q ps, l010_scan q ps (l010_scan q ps l) = l010_scan q ps l.
Proof.
  induction l as [|c t IH]; intros q ps; [reflexivity|].
  cbn [l010_scan]. destruct q as [k|].
  - cbn [l010_scan]. rewrite wr_wr, cp_wr. rewrite IH. reflexivity.
  - destruct (cstart c t) eqn:Ec; [cbn [l010_scan]; rewrite Ec; reflexivity|].
    destruct (is_quote c) eqn:Eq.
    + cbn [l010_scan]. rewrite cstart_wr. rewrite (cstart_quote c _ Eq). rewrite is_quote_wr, Eq, wr_wr, cp_wr, IH. reflexivity.
    + destruct (is_sp c) eqn:Es.
      * destruct ps; cbn [app].
        -- apply IH.
        -- cbn [l010_scan]. rewrite cstart_wr. rewrite (cstart_sp c _ Es). rewrite is_quote_wr, Eq, is_sp_wr, Es, wr_wr. cbn [app]. rewrite IH. reflexivity.
      * cbn [l010_scan]. rewrite cstart_wr. rewrite (cstart_next c _ t (next_is_scan10 45 t None)). rewrite Ec.
        rewrite is_quote_wr, Eq, is_sp_wr, Es, wr_wr, IH. reflexivity.
Qed.

Lemma l010_scan_in : forall l q ps x, In x (l010_scan q ps l) -> exists c, In c l /\ (x = wr c \/ x = c).
Proof.
  induction l as [|c t IH]; intros q ps x H; [destruct H|].
  cbn [l010_scan] in H.
  assert (G : forall q' ps', In x (wr c :: l010_scan q' ps' t) -> exists d, In d (c :: t) /\ (x = wr d \/ x = d)).
  { intros q' ps' [Hx|Hx]; [exists c; split; [left; reflexivity|left; symmetry; exact Hx]|].
    destruct (IH _ _ _ Hx) as (d & Hd & E). exists d. split; [right; exact Hd|exact E]. }
  destruct q as [k|]; [eapply G; exact H|].
  destruct (cstart c t); [exists x; split; [exact H|right; reflexivity]|].
  destruct (is_quote c); [eapply G; exact H|].
  destruct (is_sp c).
  - destruct ps; cbn [app] in H.
    + destruct (IH _ _ _ H) as (d & Hd & E). exists d. split; [right; exact Hd|exact E].
    + eapply G; exact H.
  - eapply G; exact H.
Qed.

Lemma l010_scan_blank : forall l q ps, forallb is_blank l = true -> forallb is_blank (l010_scan q ps l) = true.
Proof.
  intros l q ps H. apply forallb_forall. intros x Hx. apply l010_scan_in in Hx. destruct Hx as (c & Hc & [E|E]); subst.
  - rewrite is_blank_wr. rewrite forallb_forall in H. apply H. exact Hc.
  - rewrite forallb_forall in H. apply H. exact Hc.
Qed.

(* the scan of a line that starts with a non-blank character starts with that character *)
Lemma l010_scan_head : forall c t, is_blank c = false ->
  exists c' r, l010_scan None false (c :: t) = c' :: r /\ is_blank c' = false.
Proof.
  intros c t H. cbn [l010_scan]. destruct (cstart c t); [exists c, t; split; [reflexivity|exact H]|].
  assert (Hw : is_blank (wr c) = false) by (rewrite is_blank_wr; exact H).
  destruct (is_quote c); [eexists _, _; split; [reflexivity|exact Hw]|].
  unfold is_blank in H. apply orb_false_elim in H. destruct H as [H _]. rewrite H. eexists _, _; split; [reflexivity|exact Hw].
Qed.

Lemma l010_line_idem : forall l, l010_fix_line (l010_fix_line l) = l010_fix_line l.
Proof.
  intro l.
  assert (E0 : l010_fix_line l = match trim_l is_blank l with
                                 | [] => l010_scan None false l
                                 | rest => take_l is_blank l ++ l010_scan None false rest end) by reflexivity.
  destruct (trim_l is_blank l) as [|c r] eqn:E.
  - apply trim_l_nil_iff in E. pose proof (l010_scan_blank l None false E) as Hb.
    rewrite E0. unfold l010_fix_line. apply trim_l_nil_iff in Hb. rewrite Hb. apply l010_scan_idem.
  - pose proof (trim_l_head _ _ _ _ E) as Hc.
    destruct (l010_scan_head c r Hc) as (c' & s & Hs & Hc').
    pose proof (take_l_all is_blank l) as Hlead.
    rewrite E0. unfold l010_fix_line. rewrite Hs.
    rewrite trim_l_app_all by exact Hlead. rewrite trim_l_stop by exact Hc'.
    rewrite take_l_app_all by exact Hlead. rewrite take_l_stop by exact Hc'.
    rewrite app_nil_r. rewrite <- Hs. rewrite l010_scan_idem. reflexivity.
Qed.

Lemma l010_line_keeps : forall l, no_nl l -> no_nl (l010_fix_line l).
Proof.
  intros l H x Hx. unfold l010_fix_line in Hx.
  assert (G : forall m, (forall y, In y m -> In y l) -> In x (l010_scan None false m) -> is_nl x = false).
  { intros m Hm Hin. apply l010_scan_in in Hin. destruct Hin as (c & Hc & [E|E]); subst; [apply is_nl_wr|]; apply H; apply Hm; exact Hc. }
  destruct (trim_l is_blank l) as [|c r] eqn:E.
  - eapply G; [|exact Hx]. auto.
  - apply in_app_or in Hx. destruct Hx as [Hx|Hx].
    + apply H. eapply take_l_incl. exact Hx.
    + eapply G; [|exact Hx]. intros y Hy. eapply trim_l_incl. rewrite E. exact Hy.
Qed.

Lemma l010_fix_idempotent : forall t, l010_fix (l010_fix t) = l010_fix t.
Proof.
  intro t. change (per_line l010_fix_line (per_line l010_fix_line t) = per_line l010_fix_line t).
  apply per_line_idem; [exact l010_line_keeps|intros l _; apply l010_line_idem].
Qed.

(* ------------------------------------------------------------------------------------------------ *)
(* L003 *)

Section L003.
  Variable is_space : N -> bool.
  Notation blank := (blank_line is_space).

  (* no run of blank lines exceeds mx, the first run being counted from cnt *)
  Fixpoint bounded (mx cnt : nat) (ls : list (list ch)) : bool :=
    match ls with
    | [] => true
    | l :: r => if blank l then (S cnt <=? mx)%nat && bounded mx (S cnt) r else bounded mx 0 r
    end.

  Lemma pass_bounded : forall mx ls cnt, bounded mx (Nat.min cnt mx) (l003_pass is_space mx cnt ls) = true.
  Proof.
    intros mx. induction ls as [|l r IH]; intro cnt; [reflexivity|].
    cbn [l003_pass]. destruct (blank l) eqn:Eb.
    - destruct (S cnt <=? mx)%nat eqn:El.
      + apply Nat.leb_le in El. cbn [bounded]. rewrite Eb.
        replace (Nat.min cnt mx) with cnt by lia.
        replace (S cnt <=? mx)%nat with true by (symmetry; apply Nat.leb_le; lia). cbn [andb].
        specialize (IH (S cnt)). replace (Nat.min (S cnt) mx) with (S cnt) in IH by lia. exact IH.
      + apply Nat.leb_gt in El. specialize (IH (S cnt)).
        replace (Nat.min (S cnt) mx) with mx in IH by lia. replace (Nat.min cnt mx) with mx by lia. exact IH.
    - cbn [bounded]. rewrite Eb. specialize (IH 0%nat). cbn [Nat.min] in IH. exact IH.
  Qed.

  Lemma pass_fixed : forall mx ls cnt, bounded mx cnt ls = true -> l003_pass is_space mx cnt ls = ls.
  Proof.
    intros mx. induction ls as [|l r IH]; intros cnt H; [reflexivity|].
    cbn [bounded] in H. cbn [l003_pass]. destruct (blank l).
    - apply andb_prop in H. destruct H as [H1 H2]. rewrite H1. f_equal. apply IH. exact H2.
    - f_equal. apply IH. exact H.
  Qed.

  Lemma bounded_all_blank : forall mx suf cnt, forallb blank suf = true -> bounded mx cnt suf = true ->
    (cnt + length suf <= Nat.max mx cnt)%nat.
  Proof.
    intros mx. induction suf as [|l r IH]; intros cnt Hb H; [cbn; lia|].
    cbn in Hb. apply andb_prop in Hb. destruct Hb as [Hl Hr]. cbn [bounded] in H. rewrite Hl in H.
    apply andb_prop in H. destruct H as [H1 H2]. apply Nat.leb_le in H1.
    specialize (IH (S cnt) Hr H2). cbn [length]. lia.
  Qed.

  Lemma bounded_app : forall mx pre suf cnt, bounded mx cnt (pre ++ suf) = true ->
    exists c, (c <= mx \/ (pre = [] /\ c = cnt))%nat /\ bounded mx c suf = true.
  Proof.
    intros mx. induction pre as [|l r IH]; intros suf cnt H.
    - exists cnt. split; [right; split; reflexivity|exact H].
    - cbn [app bounded] in H. destruct (blank l).
      + apply andb_prop in H. destruct H as [H1 H2]. apply Nat.leb_le in H1.
        destruct (IH suf (S cnt) H2) as (c & Hc & Hb). exists c. split; [|exact Hb].
        destruct Hc as [Hc|[_ Hc]]; left; lia.
      + destruct (IH suf 0%nat H) as (c & Hc & Hb). exists c. split; [|exact Hb].
        destruct Hc as [Hc|[_ Hc]]; left; lia.
  Qed.

  Lemma trailing_bounded : forall mx ls, bounded mx 0 ls = true -> (trailing_blanks is_space ls <= mx)%nat.
  Proof.
    intros mx ls H. unfold trailing_blanks.
    pose proof (take_trim_l blank (rev ls)) as E.
    assert (E2 : ls = rev (trim_l blank (rev ls)) ++ rev (take_l blank (rev ls))).
    { rewrite <- rev_app_distr. rewrite E. symmetry. apply rev_involutive. }
    rewrite E2 in H. apply bounded_app in H. destruct H as (c & Hc & Hb).
    assert (Hall : forallb blank (rev (take_l blank (rev ls))) = true).
    { apply forallb_forall. intros x Hx. apply in_rev in Hx.
      pose proof (take_l_all blank (rev ls)) as Ht. rewrite forallb_forall in Ht. apply Ht. exact Hx. }
    pose proof (bounded_all_blank mx _ c Hall Hb) as Hlen. rewrite rev_length in Hlen.
    destruct Hc as [Hc|[_ Hc]]; lia.
  Qed.

  Lemma trim_end_fixed : forall fuel mx ls, bounded mx 0 ls = true -> l003_trim_end is_space fuel mx ls = ls.
  Proof.
    intros fuel mx ls H. destruct fuel as [|k]; [reflexivity|]. cbn [l003_trim_end].
    destruct (rev ls) as [|lst r]; [reflexivity|]. destruct (blank lst); [|reflexivity].
    pose proof (trailing_bounded mx ls H) as Ht.
    replace (mx <? trailing_blanks is_space ls)%nat with false; [reflexivity|].
    symmetry. apply Nat.ltb_ge. exact Ht.
  Qed.

  (* the lines that the fixer keeps *)
  Definition l003_lines (mx : nat) (ls : list (list ch)) : list (list ch) :=
    let res := l003_pass is_space mx 0 ls in l003_trim_end is_space (length res) mx res.

  Lemma l003_lines_eq : forall mx ls, l003_lines mx ls = l003_pass is_space mx 0 ls.
  Proof.
    intros mx ls. unfold l003_lines. apply trim_end_fixed.
    exact (pass_bounded mx ls 0%nat).
  Qed.

  Lemma pass_incl : forall mx ls cnt x, In x (l003_pass is_space mx cnt ls) -> In x ls.
  Proof.
    intros mx. induction ls as [|l r IH]; intros cnt x H; [exact H|]. cbn [l003_pass] in H.
    destruct (blank l).
    - destruct (S cnt <=? mx)%nat; [destruct H as [H|H]; [left; exact H|right; eapply IH; exact H]|right; eapply IH; exact H].
    - destruct H as [H|H]; [left; exact H|right; eapply IH; exact H].
  Qed.

  Lemma pass_nonempty : forall mx ls, (1 <= mx)%nat -> ls <> [] -> l003_pass is_space mx 0 ls <> [].
  Proof.
    intros mx [|l r] Hm H; [contradiction|]. cbn [l003_pass]. destruct (blank l); [|discriminate].
    replace (1 <=? mx)%nat with true by (symmetry; apply Nat.leb_le; exact Hm). discriminate.
  Qed.

  Lemma l003_split_fix : forall mx t, (1 <= mx)%nat ->
    split_nl (l003_fix_mx is_space mx t) = l003_pass is_space mx 0 (split_nl t).
  Proof.
    intros mx t Hm. unfold l003_fix_mx. fold (l003_lines mx (split_nl t)). rewrite l003_lines_eq.
    apply split_join.
    - apply pass_nonempty; [exact Hm|apply split_nonempty].
    - apply Forall_forall. intros x Hx. apply pass_incl in Hx.
      pose proof (split_no_nl t) as Hall. rewrite Forall_forall in Hall. apply Hall. exact Hx.
  Qed.

  Lemma l003_fix_idempotent_mx : forall mx t, (1 <= mx)%nat ->
    l003_fix_mx is_space mx (l003_fix_mx is_space mx t) = l003_fix_mx is_space mx t.
  Proof.
    intros mx t Hm. unfold l003_fix_mx at 1. fold (l003_lines mx (split_nl (l003_fix_mx is_space mx t))).
    rewrite l003_lines_eq. rewrite (l003_split_fix mx t Hm).
    rewrite pass_fixed by exact (pass_bounded mx (split_nl t) 0%nat).
    unfold l003_fix_mx. fold (l003_lines mx (split_nl t)). rewrite l003_lines_eq. reflexivity.
  Qed.

  (* re-lint after fix *)
  Lemma check_bounded : forall mx ls cnt start n, (cnt <= mx)%nat -> bounded mx cnt ls = true ->
    l003_check_lines is_space mx cnt start n ls = [].
  Proof.
    intros mx. induction ls as [|l r IH]; intros cnt start n Hc H.
    - cbn [l003_check_lines]. replace (mx <? cnt)%nat with false by (symmetry; apply Nat.ltb_ge; exact Hc). reflexivity.
    - cbn [l003_check_lines]. cbn [bounded] in H. destruct (blank l).
      + apply andb_prop in H. destruct H as [H1 H2]. apply Nat.leb_le in H1. apply IH; [exact H1|exact H2].
      + replace (mx <? cnt)%nat with false by (symmetry; apply Nat.ltb_ge; exact Hc). cbn [app].
        apply IH; [lia|exact H].
  Qed.

  Lemma l003_fix_clears_mx : forall mx t, (1 <= mx)%nat -> l003_check_mx is_space mx (l003_fix_mx is_space mx t) = [].
  Proof.
    intros mx t Hm. unfold l003_check_mx. rewrite (l003_split_fix mx t Hm).
    apply check_bounded; [lia|]. exact (pass_bounded mx (split_nl t) 0%nat).
  Qed.
End L003.

(* ------------------------------------------------------------------------------------------------ *)
(* well-formed characters: what [decode] produces.  An ASCII byte occurs in the source bytes of a
   character only as that whole character (UTF-8 is self-synchronising). *)


Lemma wfc_asc : forall b, wfc (asc b).
Proof.
  intro b. unfold wfc, asc. cbn [raw cp valid]. split; [discriminate|]. split; [|split].
  - intros x [Hx|[]] _. subst. split; reflexivity.
  - intros _. reflexivity.
  - intros _. reflexivity.
Qed.

Lemma wfc_high : forall p r v, r <> [] -> (forall b, In b r -> 128 <= b) -> 128 <= p -> wfc (mkch p r v).
Proof.
  intros p r v Hr Hb Hp. unfold wfc. cbn [raw cp valid]. split; [exact Hr|]. split; [|split].
  - intros b Hin Hlt. specialize (Hb b Hin). lia.
  - intro Hlt. lia.
  - intro Hlt. lia.
Qed.

Lemma between_spec : forall lo x hi, between lo x hi = true -> lo <= x /\ x <= hi.
Proof. intros lo x hi H. unfold between in H. apply andb_prop in H. destruct H as [H1 H2]. apply N.leb_le in H1. apply N.leb_le in H2. split; assumption. Qed.
Lemma cont_spec : forall b, cont b = true -> 128 <= b /\ b <= 191.
Proof. intros b H. unfold cont in H. apply andb_prop in H. destruct H as [H1 H2]. apply N.leb_le in H1. apply N.leb_le in H2. split; assumption. Qed.

Lemma dec1_wf : forall b0 t, wfc (dec1 (b0 :: t)).
Proof.
  intros b0 t. cbn [dec1].
  destruct (b0 <? 128) eqn:E0; [apply wfc_asc|]. apply N.ltb_ge in E0.
  assert (Hbad : wfc (badc b0)).
  { apply wfc_high; [discriminate| |lia]. intros b [Hb|[]]. subst. exact E0. }
  destruct (between 194 b0 223) eqn:E1.
  { apply between_spec in E1. destruct t as [|b1 t]; [exact Hbad|]. destruct (cont b1) eqn:C1; [|exact Hbad].
    apply cont_spec in C1. apply wfc_high; [discriminate| |lia].
    intros b [Hb|[Hb|[]]]; subst; lia. }
  destruct (between 224 b0 239) eqn:E2.
  { apply between_spec in E2. destruct t as [|b1 [|b2 t]]; try exact Hbad.
    destruct (between (if b0 =? 224 then 160 else 128) b1 (if b0 =? 237 then 159 else 191) && cont b2) eqn:C; [|exact Hbad].
    apply andb_prop in C. destruct C as [C1 C2]. apply between_spec in C1. apply cont_spec in C2.
    apply wfc_high; [discriminate| |].
    - intros b [Hb|[Hb|[Hb|[]]]]; subst; try lia. destruct (b0 =? 224); lia.
    - destruct (b0 =? 224) eqn:Eb; [apply N.eqb_eq in Eb; subst; lia|apply N.eqb_neq in Eb; lia]. }
  destruct (between 240 b0 244) eqn:E3.
  { apply between_spec in E3. destruct t as [|b1 [|b2 [|b3 t]]]; try exact Hbad.
    destruct (between (if b0 =? 240 then 144 else 128) b1 (if b0 =? 244 then 143 else 191) && cont b2 && cont b3) eqn:C; [|exact Hbad].
    apply andb_prop in C. destruct C as [C C3]. apply andb_prop in C. destruct C as [C1 C2].
    apply between_spec in C1. apply cont_spec in C2. apply cont_spec in C3.
    apply wfc_high; [discriminate| |].
    - intros b [Hb|[Hb|[Hb|[Hb|[]]]]]; subst; try lia. destruct (b0 =? 240); lia.
    - destruct (b0 =? 240) eqn:Eb; [apply N.eqb_eq in Eb; subst; lia|apply N.eqb_neq in Eb; lia]. }
  exact Hbad.
Qed.

Lemma decode_go_wf : forall s skip, wft (decode_go skip s).
Proof.
  induction s as [|b t IH]; intros skip c Hc; [destruct Hc|].
  cbn [decode_go] in Hc. destruct skip as [|k].
  - destruct Hc as [Hc|Hc]; [subst; apply dec1_wf|eapply IH; exact Hc].
  - eapply IH; exact Hc.
Qed.

Theorem decode_wf : forall s, wft (decode s).
Proof. intro s. apply decode_go_wf. Qed.

(* ------------------------------------------------------------------------------------------------ *)
(* lines of a text *)

Lemma split_incl : forall t l c, In l (split_nl t) -> In c l -> In c t.
Proof.
  induction t as [|d t IH]; intros l c Hl Hc.
  - cbn in Hl. destruct Hl as [Hl|[]]. subst. destruct Hc.
  - destruct (is_nl d) eqn:E.
    + cbn [split_nl] in Hl. rewrite E in Hl. destruct Hl as [Hl|Hl]; [subst; destruct Hc|right; eapply IH; eassumption].
    + destruct (split_cons_other d t E) as (h & r & E1 & E2). rewrite E2 in Hl. destruct Hl as [Hl|Hl].
      * subst. destruct Hc as [Hc|Hc]; [left; exact Hc|right]. eapply IH; [rewrite E1; left; reflexivity|exact Hc].
      * right. eapply IH; [rewrite E1; right; exact Hl|exact Hc].
Qed.

Lemma on_lines_in : forall f ls k v, In v (on_lines f k ls) <->
  exists i l, nth_error ls i = Some l /\ In v (f (k + i)%nat l).
Proof.
  intros f. induction ls as [|l r IH]; intros k v.
  - cbn. split; [intros []|]. intros (i & l & H & _). destruct i; discriminate.
  - cbn [on_lines]. rewrite in_app_iff. rewrite IH. split.
    + intros [H|(i & l' & H1 & H2)].
      * exists 0%nat, l. split; [reflexivity|]. rewrite Nat.add_0_r. exact H.
      * exists (S i), l'. split; [exact H1|]. replace (k + S i)%nat with (S k + i)%nat by lia. exact H2.
    + intros (i & l' & H1 & H2). destruct i as [|i].
      * cbn in H1. inversion H1; subst. left. rewrite Nat.add_0_r in H2. exact H2.
      * right. exists i, l'. split; [exact H1|]. replace (S k + i)%nat with (k + S i)%nat by lia. exact H2.
Qed.

Lemma on_lines_nil : forall f ls k, (forall n l, In l ls -> f n l = []) -> on_lines f k ls = [].
Proof.
  intros f. induction ls as [|l r IH]; intros k H; [reflexivity|]. cbn [on_lines].
  rewrite H by (left; reflexivity). cbn [app]. apply IH. intros n l' Hl. apply H. right. exact Hl.
Qed.

(* last character / last byte *)

Lemma lastc_cons : forall {A} (c : A) t, t <> [] -> lastc (c :: t) = lastc t.
Proof. intros A c [|d t] H; [contradiction|reflexivity]. Qed.

Lemma last_byte_is_lastc : forall l, last_byte l = lastc l.
Proof. induction l as [|b [|c t] IH]; [reflexivity|reflexivity|]. change (last_byte (c :: t) = lastc (c :: t)). exact IH. Qed.

Lemma lastc_app : forall {A} (a b : list A), b <> [] -> lastc (a ++ b) = lastc b.
Proof.
  intros A. induction a as [|c a IH]; intros b H; [reflexivity|].
  change ((c :: a) ++ b) with (c :: (a ++ b)). rewrite lastc_cons; [apply IH; exact H|].
  destruct a; [exact H|discriminate].
Qed.

Lemma lastc_trim_r : forall {A} (p : A -> bool) l c, lastc (trim_r p l) = Some c -> p c = false.
Proof.
  intros A p. induction l as [|d t IH]; intros c H; [discriminate|].
  cbn [trim_r] in H. destruct (trim_r p t) as [|e t'] eqn:E.
  - destruct (p d) eqn:Ed; [discriminate|]. inversion H; subst. exact Ed.
  - rewrite lastc_cons in H by discriminate. apply IH. exact H.
Qed.

Lemma lastc_in : forall {A} (l : list A) c, lastc l = Some c -> In c l.
Proof.
  intros A. induction l as [|d [|e t] IH]; intros c H; [discriminate|inversion H; left; reflexivity|].
  right. apply IH. exact H.
Qed.

Lemma lastc_encode : forall l c, wft l -> lastc l = Some c -> lastc (encode l) = lastc (raw c).
Proof.
  induction l as [|d t IH]; intros c Hw H; [discriminate|].
  assert (Hd : wfc d) by (apply Hw; left; reflexivity).
  assert (Ht : wft t) by (intros x Hx; apply Hw; right; exact Hx).
  destruct t as [|e t].
  - inversion H; subst. unfold encode. cbn. rewrite app_nil_r. reflexivity.
  - rewrite lastc_cons in H by discriminate. unfold encode. cbn [flat_map].
    rewrite lastc_app.
    + apply (IH c Ht H).
    + assert (He : wfc e) by (apply Ht; left; reflexivity). destruct He as (He & _).
      cbn [flat_map]. destruct (raw e); [contradiction|discriminate].
Qed.

Lemma wfc_last_blank : forall c, wfc c -> is_blank c = true <-> exists b, lastc (raw c) = Some b /\ (b = 32 \/ b = 9).
Proof.
  intros c (Hne & Hb & Hc & _). unfold is_blank, is_sp, is_tab. split.
  - intro H. apply orb_prop in H.
    assert (Hlt : cp c < 128) by (destruct H as [H|H]; apply N.eqb_eq in H; lia).
    rewrite (Hc Hlt). cbn. exists (cp c). split; [reflexivity|]. destruct H as [H|H]; apply N.eqb_eq in H; auto.
  - intros (b & Hl & Hv). apply lastc_in in Hl.
    assert (Hlt : b < 128) by (destruct Hv; lia). destruct (Hb b Hl Hlt) as (_ & E). rewrite E.
    destruct Hv; subst; reflexivity.
Qed.

(* ------------------------------------------------------------------------------------------------ *)
(* L001: exact flagging, re-lint *)


Lemma l001_flag_spec : forall l, wft l -> l001_flag l = true <-> ends_blank l.
Proof.
  intros l Hw. unfold l001_flag, ends_blank. rewrite last_byte_is_lastc. split.
  - intro H. destruct (lastc (encode l)) as [b|] eqn:E; [|discriminate].
    destruct (lastc l) as [c|] eqn:Ec.
    + exists c. split; [reflexivity|]. rewrite (lastc_encode l c Hw Ec) in E.
      apply wfc_last_blank; [apply Hw; apply lastc_in; exact Ec|]. exists b. split; [exact E|].
      apply orb_prop in H. destruct H as [H|H]; apply N.eqb_eq in H; auto.
    + destruct l as [|d t]; [discriminate|]. exfalso. clear -Ec. revert d Ec. induction t as [|e t IH]; intros d Ec; [discriminate|].
      rewrite lastc_cons in Ec by discriminate. eapply IH. exact Ec.
  - intros (c & Ec & Hb). rewrite (lastc_encode l c Hw Ec).
    apply wfc_last_blank in Hb; [|apply Hw; apply lastc_in; exact Ec]. destruct Hb as (b & Hl & Hv). rewrite Hl.
    destruct Hv; subst; reflexivity.
Qed.

Lemma wft_line : forall t l, wft t -> In l (split_nl t) -> wft l.
Proof. intros t l Hw Hl c Hc. apply Hw. eapply split_incl; eassumption. Qed.

Lemma wft_trim_r : forall p l, wft l -> wft (trim_r p l).
Proof. intros p l Hw c Hc. apply Hw. eapply trim_r_incl. exact Hc. Qed.

Lemma l001_fix_clears : forall t, wft t -> l001_check (l001_fix t) = [].
Proof.
  intros t Hw. unfold l001_check. rewrite l001_fix_per_line. rewrite split_per_line by exact l001_line_keeps.
  apply on_lines_nil. intros n l Hl. apply in_map_iff in Hl. destruct Hl as (l0 & E & Hl0). subst.
  unfold l001_check_line. destruct (l001_flag (l001_fix_line l0)) eqn:F; [|reflexivity]. exfalso.
  apply l001_flag_spec in F; [|apply wft_trim_r; eapply wft_line; eassumption].
  destruct F as (c & Ec & Hb). unfold l001_fix_line in Ec. apply lastc_trim_r in Ec. congruence.
Qed.

(* a line is flagged exactly when it ends in a space or a tab; the column is the first trailing blank *)
Lemma l001_check_exact : forall t n col, wft t ->
  In (n, col) (l001_check t) <->
  exists l, nth_error (split_nl t) (n - 1) = Some l /\ (1 <= n)%nat /\ ends_blank l /\ col = S (blen (trim_r is_blank l)).
Proof.
  intros t n col Hw. unfold l001_check. rewrite on_lines_in. split.
  - intros (i & l & Hn & Hin). unfold l001_check_line in Hin. destruct (l001_flag l) eqn:F; [|destruct Hin].
    destruct Hin as [Hin|[]]. inversion Hin; subst. exists l. replace (S i - 1)%nat with i by lia.
    split; [exact Hn|]. split; [lia|]. split; [|reflexivity].
    apply l001_flag_spec; [|exact F]. eapply wft_line; [exact Hw|]. eapply nth_error_In. exact Hn.
  - intros (l & Hn & H1 & He & Hc). exists (n - 1)%nat, l. split; [exact Hn|].
    unfold l001_check_line. assert (F : l001_flag l = true).
    { apply l001_flag_spec; [|exact He]. eapply wft_line; [exact Hw|]. eapply nth_error_In. exact Hn. }
    rewrite F. left. subst col. replace (1 + (n - 1))%nat with n by lia. reflexivity.
Qed.

Lemma blen_cons : forall c t, blen (c :: t) = (width c + blen t)%nat.
Proof. reflexivity. Qed.

Lemma blen_trim_r_le : forall p l, (blen (trim_r p l) <= blen l)%nat.
Proof.
  intros p. induction l as [|c t IH]; [cbn; lia|]. cbn [trim_r]. destruct (trim_r p t) as [|a r] eqn:E.
  - destruct (p c); rewrite ?blen_cons; cbn [blen fold_right]; lia.
  - rewrite (blen_cons c (a :: r)), (blen_cons c t). lia.
Qed.

Lemma trim_r_cons : forall {A} (p : A -> bool) c t,
  trim_r p (c :: t) = match trim_r p t with [] => if p c then [] else [c] | t' => c :: t' end.
Proof. reflexivity. Qed.

Lemma blen_trim_r_lt : forall l, wft l -> ends_blank l -> (blen (trim_r is_blank l) < blen l)%nat.
Proof.
  induction l as [|c t IH]; intros Hw (d & Hd & Hb); [discriminate|].
  assert (Hc : wfc c) by (apply Hw; left; reflexivity).
  assert (Ht : wft t) by (intros x Hx; apply Hw; right; exact Hx).
  destruct t as [|e t].
  - inversion Hd; subst. cbn [trim_r]. rewrite Hb. destruct Hc as (Hne & _). rewrite blen_cons. unfold width.
    destruct (raw d); [contradiction|cbn [length blen fold_right]; lia].
  - rewrite lastc_cons in Hd by discriminate.
    assert (IH' := IH Ht (ex_intro _ d (conj Hd Hb))).
    rewrite (trim_r_cons is_blank c (e :: t)). destruct (trim_r is_blank (e :: t)) as [|a r] eqn:E.
    + rewrite (blen_cons c (e :: t)). destruct (is_blank c); [|rewrite blen_cons]; cbn [blen fold_right] in *; lia.
    + rewrite (blen_cons c (a :: r)), (blen_cons c (e :: t)). lia.
Qed.

(* the reported column exists in the flagged line *)
Lemma l001_location : forall t n col, wft t -> In (n, col) (l001_check t) ->
  exists l, nth_error (split_nl t) (n - 1) = Some l /\ (1 <= n <= length (split_nl t))%nat /\ (1 <= col <= blen l)%nat.
Proof.
  intros t n col Hw H. apply l001_check_exact in H; [|exact Hw]. destruct H as (l & Hn & H1 & He & Hc).
  exists l. split; [exact Hn|]. split.
  - split; [exact H1|]. assert (n - 1 < length (split_nl t))%nat by (apply nth_error_Some; congruence). lia.
  - subst. assert (Hl : wft l) by (eapply wft_line; [exact Hw|eapply nth_error_In; exact Hn]).
    pose proof (blen_trim_r_lt l Hl He). lia.
Qed.

(* ------------------------------------------------------------------------------------------------ *)
(* L007 *)

Section L007.
  Variables is_letter is_digit : N -> bool.
  Variable upper_ascii : N -> option N.
  Variable keywords : list (list N).

  (* facts about the tables, decided on the regenerated tables in Inst_C17: the upper-case image of a rune
     is a letter, is not a quote character, and is its own upper-case image *)
  Hypothesis up_letter : forall x u, upper_ascii x = Some u -> is_letter u = true.
  Hypothesis up_noquote : forall x u, upper_ascii x = Some u -> u <> 39 /\ u <> 34 /\ u <> 10.
  Hypothesis up_idem : forall x u, upper_ascii x = Some u -> upper_ascii u = Some u.
  (* the minus sign is neither a letter nor a digit (a comment start never lies inside a word) *)
  Hypothesis nl45 : is_letter 45 = false.
  Hypothesis nd45 : is_digit 45 = false.
  Hypothesis up_nobt : forall x u, upper_ascii x = Some u -> u <> 96.

  Notation word_start := (word_start is_letter).
  Notation word_char := (word_char is_letter is_digit).
  Notation kw_of := (kw_of upper_ascii keywords).
  Notation conv_word := (conv_word upper_ascii keywords).
  Notation scan := (l007_scan is_letter is_digit upper_ascii keywords).
  Notation sN := (scan None None).
  Notation sQ k := (scan (Some k) None).

  Definition wc (c : ch) : bool := negb (is_quote c) && word_char c.

  Lemma ws_not45 : forall c t, word_start c = true -> cstart c t = false.
  Proof.
    intros c t H. apply cstart_ne. destruct (cp c =? 45) eqn:E; [|reflexivity]. apply N.eqb_eq in E.
    unfold Lint.word_start in H. rewrite E in H. rewrite nl45 in H. discriminate.
  Qed.
  Lemma wch_not45 : forall c t, word_char c = true -> cstart c t = false.
  Proof.
    intros c t H. apply cstart_ne. destruct (cp c =? 45) eqn:E; [|reflexivity]. apply N.eqb_eq in E.
    unfold Lint.word_char, Lint.word_start in H. rewrite E in H. rewrite nl45, nd45 in H. discriminate.
  Qed.

  Lemma word_start_wr : forall c, word_start (wr c) = word_start c.
  Proof. intro c. unfold Lint.word_start. rewrite cp_wr. reflexivity. Qed.
  Lemma word_char_wr : forall c, word_char (wr c) = word_char c.
  Proof. intro c. unfold Lint.word_char. rewrite word_start_wr, cp_wr. reflexivity. Qed.
  Lemma wc_wr : forall c, wc (wr c) = wc c.
  Proof. intro c. unfold wc. rewrite is_quote_wr, word_char_wr. reflexivity. Qed.

  Lemma sN_nil : sN [] = []. Proof. reflexivity. Qed.
  Lemma sQ_nil : forall k, sQ k [] = []. Proof. reflexivity. Qed.
  Lemma sN_comment : forall c t, cstart c t = true -> sN (c :: t) = c :: t.
  Proof. intros c t H. cbn [l007_scan]. rewrite H. reflexivity. Qed.
  Lemma sN_quote : forall c t, is_quote c = true -> sN (c :: t) = wr c :: sQ (cp c) t.
  Proof. intros c t H. cbn [l007_scan]. rewrite (cstart_quote c t H). rewrite H. reflexivity. Qed.
  Lemma sN_other : forall c t, cstart c t = false -> is_quote c = false -> word_start c = false -> sN (c :: t) = wr c :: sN t.
  Proof. intros c t H0 H1 H2. cbn [l007_scan]. rewrite H0, H1, H2. reflexivity. Qed.
  Lemma sQ_cons : forall k c t, sQ k (c :: t) = wr c :: (if cp c =? k then sN t else sQ k t).
  Proof. intros k c t. cbn [l007_scan]. destruct (cp c =? k); reflexivity. Qed.

  Lemma absorb : forall t w, scan None (Some w) t = scan None (Some (rev (map wr (take_l wc t)) ++ w)) (trim_l wc t).
  Proof.
    induction t as [|c t IH]; intro w; [reflexivity|].
    cbn [take_l trim_l]. destruct (wc c) eqn:E; [|reflexivity].
    unfold wc in E. apply andb_prop in E. destruct E as [E1 E2]. apply negb_true_iff in E1.
    cbn [l007_scan]. rewrite (wch_not45 c t E2). rewrite E1.
    assert (C : word_start c || true && is_digit (cp c) = true) by exact E2. rewrite C.
    rewrite IH. cbn [map rev]. rewrite <- app_assoc. reflexivity.
  Qed.

  Definition stops (r : list ch) : Prop := r = [] \/ exists d r', r = d :: r' /\ wc d = false.

  Lemma boundary : forall w r, stops r -> scan None (Some w) r = conv_word (rev w) ++ sN r.
  Proof.
    intros w r [H|(d & r' & H & Hd)]; subst.
    - cbn [l007_scan]. rewrite app_nil_r. reflexivity.
    - cbn [l007_scan]. destruct (cstart d r'); [reflexivity|]. destruct (is_quote d) eqn:Eq; [reflexivity|].
      unfold wc in Hd. rewrite Eq in Hd. cbn [negb andb] in Hd.
      unfold Lint.word_char in Hd. apply orb_false_elim in Hd. destruct Hd as [H1 H2].
      rewrite H1, H2. cbn [orb andb]. reflexivity.
  Qed.

  Lemma trim_l_stops : forall t, stops (trim_l wc t).
  Proof.
    intro t. destruct (trim_l wc t) as [|d r] eqn:E; [left; reflexivity|right].
    exists d, r. split; [reflexivity|]. eapply trim_l_head. exact E.
  Qed.

  Lemma sN_word : forall c t, is_quote c = false -> word_start c = true ->
    sN (c :: t) = conv_word (map wr (c :: take_l wc t)) ++ sN (trim_l wc t).
  Proof.
    intros c t H1 H2. cbn [l007_scan]. rewrite (ws_not45 c t H2). rewrite H1, H2. cbn [orb].
    rewrite absorb. rewrite boundary by apply trim_l_stops.
    rewrite rev_app_distr. rewrite rev_involutive. reflexivity.
  Qed.

  (* a complete word followed by a stop *)
  Lemma sN_word_app : forall c v x, is_quote c = false -> word_start c = true -> forallb wc v = true -> stops x ->
    sN (c :: v ++ x) = conv_word (map wr (c :: v)) ++ sN x.
  Proof.
    intros c v x H1 H2 Hv Hx. rewrite sN_word by assumption.
    assert (E1 : take_l wc (v ++ x) = v).
    { rewrite take_l_app_all by exact Hv. destruct Hx as [Hx|(d & r & Hx & Hd)]; subst; [rewrite app_nil_r; reflexivity|].
      rewrite take_l_stop by exact Hd. rewrite app_nil_r. reflexivity. }
    assert (E2 : trim_l wc (v ++ x) = x).
    { rewrite trim_l_app_all by exact Hv. destruct Hx as [Hx|(d & r & Hx & Hd)]; subst; [reflexivity|].
      apply trim_l_stop. exact Hd. }
    rewrite E1, E2. reflexivity.
  Qed.

  (* the converted word *)
  Lemma all_some_length : forall l u, all_some l = Some u -> length u = length l.
  Proof.
    induction l as [|[x|] l IH]; intros u H; cbn in H; [inversion H; reflexivity| |discriminate].
    destruct (all_some l) as [r|]; [|discriminate]. inversion H; subst. cbn. f_equal. apply IH. reflexivity.
  Qed.

  Lemma all_some_in : forall l u y, all_some l = Some u -> In y u -> In (Some y) l.
  Proof.
    induction l as [|[x|] l IH]; intros u y H Hy; cbn in H; [inversion H; subst; destruct Hy| |discriminate].
    destruct (all_some l) as [r|] eqn:E; [|discriminate]. inversion H; subst.
    destruct Hy as [Hy|Hy]; [left; subst; reflexivity|right; eapply IH; [reflexivity|exact Hy]].
  Qed.

  Lemma all_some_map_idem : forall (w : list ch) u, all_some (map (fun c => upper_ascii (cp c)) w) = Some u ->
    all_some (map (fun c => upper_ascii (cp c)) (map asc u)) = Some u.
  Proof.
    induction w as [|c w IH]; intros u H; cbn in H; [inversion H; reflexivity|].
    destruct (upper_ascii (cp c)) as [x|] eqn:Ex; [|discriminate].
    destruct (all_some (map (fun c0 => upper_ascii (cp c0)) w)) as [r|] eqn:Er; [|discriminate].
    inversion H; subst. cbn. rewrite (up_idem _ _ Ex). rewrite (IH r eq_refl). reflexivity.
  Qed.

  Lemma kw_of_wr : forall w, kw_of (map wr w) = kw_of w.
  Proof.
    intro w. unfold Lint.kw_of. rewrite map_map.
    replace (map (fun x => upper_ascii (cp (wr x))) w) with (map (fun c => upper_ascii (cp c)) w); [reflexivity|].
    apply map_ext. intro c. rewrite cp_wr. reflexivity.
  Qed.

  Lemma kw_of_conv : forall w u, kw_of w = Some u -> kw_of (map asc u) = Some u.
  Proof.
    intros w u H. unfold Lint.kw_of in *.
    destruct (all_some (map (fun c => upper_ascii (cp c)) w)) as [x|] eqn:E; [|discriminate].
    destruct (existsb (list_eqb x) keywords) eqn:Ek; [|discriminate]. inversion H; subst.
    rewrite (all_some_map_idem w u E). rewrite Ek. reflexivity.
  Qed.

  Lemma map_wr_asc : forall u, map wr (map asc u) = map asc u.
  Proof. intro u. rewrite map_map. apply map_ext. intro b. reflexivity. Qed.

  Lemma map_wr_wr : forall w, map wr (map wr w) = map wr w.
  Proof. intro w. rewrite map_map. apply map_ext. intro c. apply wr_wr. Qed.

  Lemma conv_idem : forall w, conv_word (map wr (conv_word (map wr w))) = conv_word (map wr w).
  Proof.
    intro w. unfold Lint.conv_word at 2 3. rewrite kw_of_wr. destruct (kw_of w) as [u|] eqn:E.
    - rewrite map_wr_asc. unfold Lint.conv_word. rewrite (kw_of_conv w u E). reflexivity.
    - rewrite map_wr_wr. unfold Lint.conv_word. rewrite kw_of_wr, E. reflexivity.
  Qed.

  Lemma kw_letters : forall w u y, kw_of w = Some u -> In y u -> exists x, upper_ascii x = Some y.
  Proof.
    intros w u y H Hy. unfold Lint.kw_of in H.
    destruct (all_some (map (fun c => upper_ascii (cp c)) w)) as [x|] eqn:E; [|discriminate].
    destruct (existsb (list_eqb x) keywords); [|discriminate]. inversion H; subst.
    apply (all_some_in _ _ _ E) in Hy. apply in_map_iff in Hy. destruct Hy as (c & Hc & _). exists (cp c). exact Hc.
  Qed.

  Lemma asc_up_classes : forall x y, upper_ascii x = Some y ->
    is_quote (asc y) = false /\ word_start (asc y) = true /\ wc (asc y) = true.
  Proof.
    intros x y H. destruct (up_noquote _ _ H) as (N1 & N2 & _). pose proof (up_letter _ _ H) as L.
    pose proof (up_nobt _ _ H) as N3.
    assert (Q : is_quote (asc y) = false).
    { unfold is_quote, asc. cbn [cp]. apply N.eqb_neq in N1. apply N.eqb_neq in N2. apply N.eqb_neq in N3. rewrite N1, N2, N3. reflexivity. }
    assert (W : word_start (asc y) = true).
    { unfold Lint.word_start, asc. cbn [cp]. rewrite L. reflexivity. }
    split; [exact Q|]. split; [exact W|]. unfold wc. rewrite Q. unfold Lint.word_char. rewrite W. reflexivity.
  Qed.

  (* the converted word is again a word: first character starts a word, the others continue it *)
  Lemma conv_shape : forall c v, is_quote c = false -> word_start c = true -> forallb wc v = true ->
    exists c' v', conv_word (map wr (c :: v)) = c' :: v' /\ is_quote c' = false /\ word_start c' = true /\ forallb wc v' = true.
  Proof.
    intros c v H1 H2 Hv. unfold Lint.conv_word. rewrite kw_of_wr. destruct (kw_of (c :: v)) as [u|] eqn:E.
    - assert (Hl : length u = length (c :: v)).
      { unfold Lint.kw_of in E. destruct (all_some (map (fun c0 => upper_ascii (cp c0)) (c :: v))) as [x|] eqn:Ex; [|discriminate].
        destruct (existsb (list_eqb x) keywords); [|discriminate]. inversion E; subst.
        rewrite (all_some_length _ _ Ex). apply map_length. }
      destruct u as [|y u]; [discriminate|]. exists (asc y), (map asc u). split; [reflexivity|].
      destruct (kw_letters _ _ y E (or_introl eq_refl)) as (x & Hx).
      destruct (asc_up_classes x y Hx) as (A1 & A2 & _). split; [exact A1|]. split; [exact A2|].
      apply forallb_forall. intros z Hz. apply in_map_iff in Hz. destruct Hz as (b & Eb & Hb). subst.
      destruct (kw_letters _ _ b E (or_intror Hb)) as (x' & Hx'). apply (asc_up_classes x' b Hx').
    - exists (wr c), (map wr v). split; [reflexivity|]. rewrite is_quote_wr, word_start_wr. split; [exact H1|]. split; [exact H2|].
      apply forallb_forall. intros z Hz. apply in_map_iff in Hz. destruct Hz as (b & Eb & Hb). subst. rewrite wc_wr.
      rewrite forallb_forall in Hv. apply Hv. exact Hb.
  Qed.

  Lemma sN_stops : forall r, stops r -> stops (sN r).
  Proof.
    intros r [H|(d & r' & H & Hd)]; subst; [left; reflexivity|right].
    destruct (cstart d r') eqn:Ec; [rewrite sN_comment by exact Ec; eexists _, _; split; [reflexivity|exact Hd]|].
    destruct (is_quote d) eqn:Eq.
    - rewrite sN_quote by exact Eq. eexists _, _. split; [reflexivity|]. rewrite wc_wr. exact Hd.
    - assert (Hs : word_start d = false).
      { unfold wc in Hd. rewrite Eq in Hd. cbn in Hd. unfold Lint.word_char in Hd. apply orb_false_elim in Hd. tauto. }
      rewrite sN_other by assumption. eexists _, _. split; [reflexivity|]. rewrite wc_wr. exact Hd.
  Qed.

  (* the first character of the rewritten line is a minus sign exactly when the first character of the line is *)
  Lemma next_is_sN : forall t, next_is 45 (sN t) = next_is 45 t.
  Proof.
    intros [|d t]; [reflexivity|]. destruct (cstart d t) eqn:Ec; [rewrite sN_comment by exact Ec; reflexivity|].
    destruct (is_quote d) eqn:Eq; [rewrite sN_quote by exact Eq; cbn [next_is]; rewrite cp_wr; reflexivity|].
    destruct (word_start d) eqn:Ew; [|rewrite sN_other by assumption; cbn [next_is]; rewrite cp_wr; reflexivity].
    rewrite sN_word by assumption.
    destruct (conv_shape d (take_l wc t) Eq Ew (take_l_all wc t)) as (c' & v' & Ec' & _ & W' & _). rewrite Ec'.
    cbn [app next_is].
    assert (A : (cp c' =? 45) = false) by (pose proof (ws_not45 c' [c'] W') as Z; unfold cstart in Z; cbn [next_is] in Z; destruct (cp c' =? 45); [cbn in Z; discriminate|reflexivity]).
    assert (B : (cp d =? 45) = false) by (pose proof (ws_not45 d [d] Ew) as Z; unfold cstart in Z; cbn [next_is] in Z; destruct (cp d =? 45); [cbn in Z; discriminate|reflexivity]).
    rewrite A, B. reflexivity.
  Qed.

  Lemma l007_scan_idem_n : forall n l, (length l <= n)%nat ->
    sN (sN l) = sN l /\ forall k, sQ k (sQ k l) = sQ k l.
  Proof.
    induction n as [|n IH]; intros l Hl.
    - destruct l; [split; reflexivity|cbn in Hl; lia].
    - destruct l as [|c t]; [split; reflexivity|]. cbn [length] in Hl.
      assert (Ht : (length t <= n)%nat) by lia. destruct (IH t Ht) as [IHn IHq]. split.
      + destruct (cstart c t) eqn:Ecs; [rewrite sN_comment by exact Ecs; apply sN_comment; exact Ecs|].
        destruct (is_quote c) eqn:Eq.
        * rewrite sN_quote by exact Eq. rewrite sN_quote by (rewrite is_quote_wr; exact Eq).
          rewrite wr_wr, cp_wr, IHq. reflexivity.
        * destruct (word_start c) eqn:Ew.
          -- rewrite sN_word by assumption.
             pose proof (take_l_all wc t) as Hv.
             destruct (conv_shape c (take_l wc t) Eq Ew Hv) as (c' & v' & Ec & Q' & W' & V').
             rewrite Ec. change ((c' :: v') ++ sN (trim_l wc t)) with (c' :: v' ++ sN (trim_l wc t)).
             rewrite sN_word_app; [|exact Q'|exact W'|exact V'|apply sN_stops; apply trim_l_stops].
             rewrite <- Ec. rewrite conv_idem.
             assert (Hr : (length (trim_l wc t) <= n)%nat).
             { pose proof (take_trim_l wc t) as E. apply (f_equal (@length ch)) in E. rewrite app_length in E. lia. }
             destruct (IH _ Hr) as [IHr _]. rewrite IHr. rewrite Ec. reflexivity.
          -- rewrite sN_other by assumption.
             assert (Ecw : cstart (wr c) (sN t) = false) by (rewrite cstart_wr; rewrite (cstart_next c (sN t) t (next_is_sN t)); exact Ecs).
             rewrite sN_other by (rewrite ?is_quote_wr, ?word_start_wr; assumption).
             rewrite wr_wr, IHn. reflexivity.
      + intro k. rewrite sQ_cons. rewrite sQ_cons. rewrite wr_wr, cp_wr. destruct (cp c =? k); [rewrite IHn|rewrite IHq]; reflexivity.
  Qed.

  Lemma l007_line_idem : forall l, l007_fix_line is_letter is_digit upper_ascii keywords
                                     (l007_fix_line is_letter is_digit upper_ascii keywords l)
                                   = l007_fix_line is_letter is_digit upper_ascii keywords l.
  Proof. intro l. unfold l007_fix_line. apply (l007_scan_idem_n (length l) l (le_n _)). Qed.

  (* every output character is a rewritten input character or an upper-case image from the table *)
  Definition up_img (x : ch) : Prop := exists b y, x = asc b /\ upper_ascii y = Some b.

  Lemma conv_in : forall w x, In x (conv_word w) -> In x w \/ up_img x.
  Proof.
    intros w x H. unfold Lint.conv_word in H. destruct (kw_of w) as [u|] eqn:E; [|left; exact H].
    right. apply in_map_iff in H. destruct H as (b & Eb & Hb).
    destruct (kw_letters _ _ b E Hb) as (y & Hy). exists b, y. split; [symmetry; exact Eb|exact Hy].
  Qed.

  Lemma l007_scan_in : forall l q cur x, In x (scan q cur l) ->
    (exists c, In c l /\ (x = wr c \/ x = c)) \/ up_img x \/ (exists w, cur = Some w /\ In x w).
  Proof.
    induction l as [|c t IH]; intros q cur x H.
    - cbn [l007_scan] in H. destruct cur as [w|]; [|destruct H]. apply conv_in in H. destruct H as [H|H].
      + right. right. exists w. split; [reflexivity|]. apply in_rev. exact H.
      + right. left. exact H.
    - assert (Gflush : In x (match cur with Some w => conv_word (rev w) | None => [] end) ->
                       up_img x \/ (exists w, cur = Some w /\ In x w)).
      { intro Hf. destruct cur as [w|]; [|destruct Hf]. apply conv_in in Hf. destruct Hf as [Hf|Hf]; [right|left; exact Hf].
        exists w. split; [reflexivity|]. apply in_rev. exact Hf. }
      assert (Gtail : forall q', In x (scan q' None t) -> (exists c0, In c0 (c :: t) /\ (x = wr c0 \/ x = c0)) \/ up_img x \/ (exists w, cur = Some w /\ In x w)).
      { intros q' Hq. destruct (IH _ _ _ Hq) as [(d & Hd & E)|[Hb|(w & Hw & _)]]; [left; exists d; split; [right; exact Hd|exact E]|right; left; exact Hb|discriminate]. }
      assert (Ghere : wr c = x -> (exists c0, In c0 (c :: t) /\ (x = wr c0 \/ x = c0)) \/ up_img x \/ (exists w, cur = Some w /\ In x w)).
      { intro E. left. exists c. split; [left; reflexivity|left; symmetry; exact E]. }
      cbn [l007_scan] in H. destruct q as [k|].
      + destruct H as [H|H]; [apply Ghere; exact H|].
        destruct (IH _ _ _ H) as [(d & Hd & E)|[Hb|Hw]]; [left; exists d; split; [right; exact Hd|exact E]|right; left; exact Hb|right; right; exact Hw].
      + destruct (cstart c t).
        { apply in_app_or in H. destruct H as [H|H]; [right; apply Gflush; exact H|left; exists x; split; [exact H|right; reflexivity]]. }
        destruct (is_quote c).
        * apply in_app_or in H. destruct H as [H|[H|H]]; [right; apply Gflush; exact H|apply Ghere; exact H|apply (Gtail _ H)].
        * destruct (word_start c || match cur with Some _ => true | None => false end && is_digit (cp c)).
          -- destruct (IH _ _ _ H) as [(d & Hd & E)|[Hb|(w & Hw & Hx)]]; [left; exists d; split; [right; exact Hd|exact E]|right; left; exact Hb|].
             inversion Hw; subst. destruct Hx as [Hx|Hx]; [apply Ghere; exact Hx|].
             destruct cur as [w0|]; [right; right; exists w0; split; [reflexivity|exact Hx]|destruct Hx].
          -- apply in_app_or in H. destruct H as [H|[H|H]]; [right; apply Gflush; exact H|apply Ghere; exact H|apply (Gtail _ H)].
  Qed.

  Lemma l007_line_keeps : forall l, no_nl l -> no_nl (l007_fix_line is_letter is_digit upper_ascii keywords l).
  Proof.
    intros l H x Hx. unfold l007_fix_line in Hx. apply l007_scan_in in Hx.
    destruct Hx as [(c & Hc & [E|E])|[(b & y & E & Hy)|(w & Hw & _)]]; [subst; apply is_nl_wr; apply H; exact Hc|subst; apply H; exact Hc| |discriminate].
    subst. unfold is_nl, asc. cbn [cp raw valid].
    destruct (up_noquote _ _ Hy) as (_ & _ & N3). apply N.eqb_neq in N3. rewrite N3. reflexivity.
  Qed.

  Lemma l007_fix_idempotent_gen : forall t,
    l007_fix is_letter is_digit upper_ascii keywords (l007_fix is_letter is_digit upper_ascii keywords t)
    = l007_fix is_letter is_digit upper_ascii keywords t.
  Proof.
    intro t. unfold l007_fix. apply (per_line_idem (l007_fix_line is_letter is_digit upper_ascii keywords)).
    - exact l007_line_keeps.
    - intros l _. apply l007_line_idem.
  Qed.
End L007.

(* ------------------------------------------------------------------------------------------------ *)
(* L002: re-lint after fix *)

Lemma l002_fixed_leading : forall l, existsb is_tab (leading_ws (l002_fix_line l)) = false.
Proof.
  intro l. rewrite l002_line_shape. unfold leading_ws.
  set (X := flat_map tab4 (take_l is_blank l)).
  assert (HX : forallb is_blank X = true).
  { apply forallb_flat_map. intros x Hx. apply tab4_blank.
    pose proof (take_l_all is_blank l) as H. rewrite forallb_forall in H. apply H. exact Hx. }
  rewrite take_l_app_all by exact HX. rewrite take_l_of_trim_l. rewrite app_nil_r.
  assert (HT : forallb (fun d => negb (is_tab d)) X = true) by (apply forallb_flat_map; intros x _; apply tab4_notab).
  clear -HT. induction X as [|c X IH]; [reflexivity|]. cbn in *. apply andb_prop in HT. destruct HT as [H1 H2].
  apply negb_true_iff in H1. rewrite H1. apply IH. exact H2.
Qed.

Lemma l002_check_notab : forall ls first n, (first = 0 \/ first = 2) ->
  (forall l, In l ls -> existsb is_tab (leading_ws l) = false) -> l002_check_lines first n ls = [].
Proof.
  induction ls as [|l r IH]; intros first n Hf H; [reflexivity|].
  cbn [l002_check_lines].
  assert (Hr : forall l0, In l0 r -> existsb is_tab (leading_ws l0) = false) by (intros l0 Hl0; apply H; right; exact Hl0).
  destruct (leading_ws l) as [|c lw] eqn:E; [apply IH; assumption|].
  rewrite <- E. rewrite (H l (or_introl eq_refl)). cbn [andb].
  destruct Hf as [Hf|Hf]; subst; cbn [N.eqb]; apply IH; auto.
Qed.

Lemma l002_fix_clears : forall t, l002_check (l002_fix t) = [].
Proof.
  intro t. unfold l002_check. change (l002_fix t) with (per_line l002_fix_line t).
  rewrite split_per_line by exact l002_line_keeps.
  apply l002_check_notab; [left; reflexivity|].
  intros l Hl. apply in_map_iff in Hl. destruct Hl as (l0 & E & _). subst. apply l002_fixed_leading.
Qed.

(* ------------------------------------------------------------------------------------------------ *)
(* L005: exact flagging and location *)

Lemma l005_check_exact : forall is_space mx t n col,
  In (n, col) (l005_check is_space mx t) <->
  exists l, nth_error (split_nl t) (n - 1) = Some l /\ (1 <= n)%nat /\ l <> [] /\
            (starts2 45 45 (trim_space is_space l) || starts2 47 42 (trim_space is_space l)) = false /\
            (mx < blen l)%nat /\ col = S mx.
Proof.
  intros is_space mx t n col. unfold l005_check. rewrite on_lines_in. split.
  - intros (i & l & Hn & Hin). unfold l005_check_line in Hin. destruct l as [|c l]; [destruct Hin|].
    destruct (starts2 45 45 (trim_space is_space (c :: l)) || starts2 47 42 (trim_space is_space (c :: l))) eqn:Ec; [destruct Hin|].
    destruct (mx <? blen (c :: l))%nat eqn:El; [|destruct Hin]. destruct Hin as [Hin|[]]. inversion Hin; subst.
    exists (c :: l). replace (S i - 1)%nat with i by lia. split; [exact Hn|]. split; [lia|]. split; [discriminate|].
    split; [exact Ec|]. split; [apply Nat.ltb_lt; exact El|reflexivity].
  - intros (l & Hn & H1 & Hne & Hc & Hl & E). exists (n - 1)%nat, l. split; [exact Hn|].
    unfold l005_check_line. destruct l as [|c l]; [contradiction|]. rewrite Hc.
    replace (mx <? blen (c :: l))%nat with true by (symmetry; apply Nat.ltb_lt; exact Hl).
    left. subst col. replace (1 + (n - 1))%nat with n by lia. reflexivity.
Qed.

(* ------------------------------------------------------------------------------------------------ *)
(* conservation: the whitespace rules change only whitespace *)

Section Conservation.
  Variable is_space : N -> bool.

  Notation wsc := (wsc is_space).
  Notation ink := (ink is_space).

  Lemma ink_app : forall a b, ink (a ++ b) = ink a ++ ink b.
  Proof. intros a b. unfold Lint.ink. rewrite filter_app, map_app. reflexivity. Qed.

  Lemma ink_ws : forall a, forallb wsc a = true -> ink a = [].
  Proof.
    induction a as [|c a IH]; intro H; [reflexivity|]. cbn in H. apply andb_prop in H. destruct H as [H1 H2].
    unfold Lint.ink. cbn [filter]. rewrite H1. cbn [negb]. apply IH. exact H2.
  Qed.

  Lemma wsc_nlc : wsc nlc = true.
  Proof. unfold Lint.wsc. rewrite is_nl_nlc. rewrite orb_true_r. reflexivity. Qed.

  Lemma ink_join : forall ls, ink (join_nl ls) = flat_map ink ls.
  Proof.
    induction ls as [|x r IH]; [reflexivity|]. destruct r as [|y r].
    - cbn. rewrite app_nil_r. reflexivity.
    - rewrite join_cons2. rewrite ink_app. cbn [flat_map]. f_equal.
      change (nlc :: join_nl (y :: r)) with ([nlc] ++ join_nl (y :: r)). rewrite ink_app.
      rewrite (ink_ws [nlc]) by (cbn; rewrite wsc_nlc; reflexivity). exact IH.
  Qed.

  Lemma ink_per_line : forall f t, (forall l, ink (f l) = ink l) -> ink (per_line f t) = ink t.
  Proof.
    intros f t H. unfold per_line. rewrite ink_join. rewrite <- (join_split t) at 2. rewrite ink_join.
    induction (split_nl t) as [|l r IH]; [reflexivity|]. cbn [map flat_map]. rewrite H, IH. reflexivity.
  Qed.

  Lemma blank_wsc : forall c, is_blank c = true -> wsc c = true.
  Proof. intros c H. unfold Lint.wsc. rewrite H. rewrite orb_true_r. reflexivity. Qed.

  Lemma ink_trim_r_blank : forall l, ink (trim_r is_blank l) = ink l.
  Proof.
    induction l as [|c t IH]; [reflexivity|]. rewrite trim_r_cons. destruct (trim_r is_blank t) as [|a r] eqn:E.
    - change (c :: t) with ([c] ++ t). rewrite ink_app. rewrite <- IH. cbn [ink filter map app]. rewrite app_nil_r.
      destruct (is_blank c) eqn:Eb; [|reflexivity]. unfold Lint.ink. cbn [filter]. rewrite (blank_wsc c Eb). reflexivity.
    - change (c :: a :: r) with ([c] ++ a :: r). change (c :: t) with ([c] ++ t). rewrite !ink_app. rewrite IH. reflexivity.
  Qed.

  Theorem l001_ws_only : forall t, ink (l001_fix t) = ink t.
  Proof. intro t. rewrite l001_fix_per_line. apply ink_per_line. exact ink_trim_r_blank. Qed.

  Lemma ink_blanks : forall a, forallb is_blank a = true -> ink a = [].
  Proof.
    intros a H. apply ink_ws. apply forallb_forall. intros x Hx. apply blank_wsc. rewrite forallb_forall in H. apply H. exact Hx.
  Qed.

  Theorem l002_ws_only : forall t, ink (l002_fix t) = ink t.
  Proof.
    intro t. change (l002_fix t) with (per_line l002_fix_line t). apply ink_per_line. intro l.
    rewrite l002_line_shape. rewrite <- (take_trim_l is_blank l) at 3. rewrite !ink_app. f_equal.
    rewrite (ink_blanks (take_l is_blank l)) by apply take_l_all. apply ink_blanks.
    apply forallb_flat_map. intros x Hx. apply tab4_blank.
    pose proof (take_l_all is_blank l) as H. rewrite forallb_forall in H. apply H. exact Hx.
  Qed.

  (* L010: only spaces are dropped; an undecodable byte is rewritten as U+FFFD (same code point) *)
  Lemma wsc_wr : forall c, is_nl c = false -> wsc (wr c) = wsc c.
  Proof.
    intros c H. unfold Lint.wsc, spacec. rewrite cp_wr, is_blank_wr. rewrite H, (is_nl_wr c H). reflexivity.
  Qed.

  Lemma ink_wr : forall c, is_nl c = false -> ink [wr c] = ink [c].
  Proof. intros c H. unfold Lint.ink. cbn [filter]. rewrite (wsc_wr c H). destruct (wsc c); cbn; [reflexivity|rewrite cp_wr; reflexivity]. Qed.

  Lemma ink_cons : forall c t, ink (c :: t) = ink [c] ++ ink t.
  Proof. intros c t. change (c :: t) with ([c] ++ t). apply ink_app. Qed.

  Lemma ink_l010_scan : forall l q ps, no_nl l -> ink (l010_scan q ps l) = ink l.
  Proof.
    induction l as [|c t IH]; intros q ps H; [reflexivity|].
    assert (Hc : is_nl c = false) by (apply H; left; reflexivity).
    assert (Ht : no_nl t) by (intros x Hx; apply H; right; exact Hx).
    rewrite (ink_cons c t). cbn [l010_scan]. destruct q as [k|].
    - rewrite ink_cons, ink_wr, IH by assumption. reflexivity.
    - destruct (cstart c t); [apply ink_cons|].
      destruct (is_quote c); [rewrite ink_cons, ink_wr, IH by assumption; reflexivity|].
      destruct (is_sp c) eqn:Es.
      + assert (Hw : ink [c] = []) by (apply ink_ws; cbn; unfold Lint.wsc, is_blank; rewrite Es; rewrite orb_true_r; reflexivity).
        rewrite Hw. destruct ps; cbn [app]; [apply IH; exact Ht|].
        rewrite ink_cons, ink_wr, Hw, IH by assumption. reflexivity.
      + rewrite ink_cons, ink_wr, IH by assumption. reflexivity.
  Qed.

  Theorem l010_ws_only : forall t, ink (l010_fix t) = ink t.
  Proof.
    intro t. change (l010_fix t) with (per_line l010_fix_line t).
    unfold per_line. rewrite ink_join. rewrite <- (join_split t) at 2. rewrite ink_join.
    pose proof (split_no_nl t) as Hall. induction Hall as [|l r Hl Hr IH]; [reflexivity|].
    cbn [map flat_map]. rewrite IH. f_equal. unfold l010_fix_line.
    destruct (trim_l is_blank l) as [|c rest] eqn:E.
    - apply ink_l010_scan. exact Hl.
    - rewrite ink_app. rewrite ink_l010_scan.
      + rewrite <- E. rewrite <- ink_app. rewrite take_trim_l. reflexivity.
      + intros x Hx. apply Hl. eapply trim_l_incl. rewrite E. exact Hx.
  Qed.

  (* L003: only blank lines are dropped *)
  Lemma trim_space_nil_ws : forall l, trim_space is_space l = [] -> forallb wsc l = true.
  Proof.
    intros l H. unfold trim_space in H. apply trim_r_nil_iff in H.
    rewrite <- (take_trim_l (spacec is_space) l). rewrite forallb_app. apply andb_true_intro. split.
    - apply forallb_forall. intros x Hx. pose proof (take_l_all (spacec is_space) l) as Ht. rewrite forallb_forall in Ht.
      unfold Lint.wsc. rewrite (Ht x Hx). reflexivity.
    - apply forallb_forall. intros x Hx. rewrite forallb_forall in H. unfold Lint.wsc. rewrite (H x Hx). reflexivity.
  Qed.

  Lemma ink_blank_line : forall l, blank_line is_space l = true -> ink l = [].
  Proof.
    intros l H. apply ink_ws. apply trim_space_nil_ws. unfold blank_line in H.
    destruct (trim_space is_space l); [reflexivity|discriminate].
  Qed.

  Lemma ink_pass : forall mx ls cnt, flat_map ink (l003_pass is_space mx cnt ls) = flat_map ink ls.
  Proof.
    intros mx. induction ls as [|l r IH]; intro cnt; [reflexivity|]. cbn [l003_pass].
    destruct (blank_line is_space l) eqn:Eb.
    - destruct (S cnt <=? mx)%nat; cbn [flat_map]; rewrite IH; [reflexivity|].
      rewrite (ink_blank_line l Eb). reflexivity.
    - cbn [flat_map]. rewrite IH. reflexivity.
  Qed.

  Theorem l003_ws_only : forall mx t, ink (l003_fix_mx is_space mx t) = ink t.
  Proof.
    intros mx t. unfold l003_fix_mx. fold (l003_lines is_space mx (split_nl t)). rewrite l003_lines_eq.
    rewrite ink_join. rewrite ink_pass. rewrite <- ink_join. rewrite join_split. reflexivity.
  Qed.
End Conservation.

(* ------------------------------------------------------------------------------------------------ *)
(* conservation: the keyword rule changes only letter case *)

Section CaseOnly.
  Variables is_letter is_digit : N -> bool.
  Variable upper_ascii : N -> option N.
  Variable keywords : list (list N).
  Hypothesis up_idem : forall x u, upper_ascii x = Some u -> upper_ascii u = Some u.

  Notation fold := (fold upper_ascii).

  Lemma fold_wr : forall c, fold (wr c) = fold c.
  Proof. intro c. unfold Lint.fold. rewrite cp_wr. reflexivity. Qed.

  Lemma fold_conv : forall w, map fold (conv_word upper_ascii keywords w) = map fold w.
  Proof.
    intro w. unfold conv_word, kw_of.
    destruct (all_some (map (fun c => upper_ascii (cp c)) w)) as [u|] eqn:E; [|reflexivity].
    destruct (existsb (list_eqb u) keywords); [|reflexivity].
    revert u E. induction w as [|c w IH]; intros u E; cbn in E; [inversion E; reflexivity|].
    destruct (upper_ascii (cp c)) as [x|] eqn:Ex; [|discriminate].
    destruct (all_some (map (fun c0 => upper_ascii (cp c0)) w)) as [r|] eqn:Er; [|discriminate].
    inversion E; subst. cbn [map]. f_equal; [|apply IH; reflexivity].
    unfold Lint.fold, asc. cbn [cp]. rewrite (up_idem _ _ Ex), Ex. reflexivity.
  Qed.

  Lemma fold_scan : forall l,
    (forall k, map fold (l007_scan is_letter is_digit upper_ascii keywords (Some k) None l) = map fold l) /\
    (forall cur, map fold (l007_scan is_letter is_digit upper_ascii keywords None cur l)
                 = map fold (match cur with Some w => rev w | None => [] end ++ l)).
  Proof.
    induction l as [|c t [IHq IHn]]; split.
    - reflexivity.
    - intro cur. cbn [l007_scan]. destruct cur as [w|]; [rewrite fold_conv, app_nil_r; reflexivity|reflexivity].
    - intro k. cbn [l007_scan map]. rewrite fold_wr. f_equal. destruct (cp c =? k); [rewrite IHn; reflexivity|apply IHq].
    - intro cur. cbn [l007_scan].
      assert (Fl : map fold (match cur with Some w => conv_word upper_ascii keywords (rev w) | None => [] end)
                   = map fold (match cur with Some w => rev w | None => [] end)).
      { destruct cur; [apply fold_conv|reflexivity]. }
      destruct (cstart c t); [rewrite !map_app; rewrite Fl; reflexivity|].
      destruct (is_quote c).
      + rewrite !map_app. rewrite Fl. cbn [map]. rewrite fold_wr, IHq. reflexivity.
      + destruct (word_start is_letter c || match cur with Some _ => true | None => false end && is_digit (cp c)).
        * rewrite IHn. cbn [rev]. destruct cur as [w|]; cbn [rev app]; rewrite ?map_app; cbn [map]; rewrite ?fold_wr; rewrite <- ?app_assoc; reflexivity.
        * rewrite !map_app. rewrite Fl. cbn [map]. rewrite fold_wr, IHn. reflexivity.
  Qed.

  Lemma map_join_congr : forall (g : ch -> N) f ls, (forall l, map g (f l) = map g l) ->
    map g (join_nl (map f ls)) = map g (join_nl ls).
  Proof.
    intros g f ls H. induction ls as [|x r IH]; [reflexivity|]. destruct r as [|y r].
    - cbn. apply H.
    - cbn [map]. rewrite !join_cons2. rewrite !map_app. cbn [map]. rewrite H. f_equal. f_equal. exact IH.
  Qed.

  Theorem l007_case_only : forall t,
    map fold (l007_fix is_letter is_digit upper_ascii keywords t) = map fold t.
  Proof.
    intro t. unfold l007_fix. rewrite map_join_congr.
    - rewrite join_split. reflexivity.
    - intro l. unfold l007_fix_line. destruct (fold_scan l) as [_ H]. rewrite (H None). reflexivity.
  Qed.
End CaseOnly.

(* ------------------------------------------------------------------------------------------------ *)
(* table lookups *)

Lemma assoc_in : forall m x v, assoc m x = Some v -> In (x, v) m.
Proof.
  induction m as [|[k w] m IH]; intros x v H; [discriminate|]. cbn [assoc] in H.
  destruct (k =? x) eqn:E; [apply N.eqb_eq in E; inversion H; subst; left; reflexivity|right; apply IH; exact H].
Qed.

(* ------------------------------------------------------------------------------------------------ *)
(* the reading of a text as code is kept by every rewriter *)

Section View.
  Variable is_space : N -> bool.
  Variable upper_ascii : N -> option N.
  Notation wsc := (wsc is_space).
  Notation fold := (fold upper_ascii).
  Notation vt := (vt is_space upper_ascii).
  Notation R := (R is_space upper_ascii).
  Notation cview := (cview is_space upper_ascii).

  Lemma R_app : forall a b Z, R (a ++ b) Z = R a (R b Z).
  Proof. intros. unfold Lint.R. apply fold_right_app. Qed.
  Lemma R_cons : forall c t Z, R (c :: t) Z = scons (vt c) (R t Z).
  Proof. reflexivity. Qed.

  Lemma scons_W_idem : forall Z, scons VW (scons VW Z) = scons VW Z.
  Proof. intros [|[|n|c] Z]; reflexivity. Qed.

  (* Z "absorbs" a separator: it is empty or starts with one *)
  Definition absorbs (Z : list vtok) : Prop := scons VW Z = Z.
  Lemma absorbs_scons : forall Z, absorbs (scons VW Z).
  Proof. intro Z. apply scons_W_idem. Qed.
  Lemma absorbs_nil : absorbs []. Proof. reflexivity. Qed.

  Lemma R_ws : forall a Z, forallb wsc a = true -> a <> [] -> R a Z = scons VW Z.
  Proof.
    induction a as [|c a IH]; intros Z H Hne; [contradiction|]. cbn in H. apply andb_prop in H. destruct H as [H1 H2].
    rewrite R_cons. unfold Lint.vt. rewrite H1. destruct a as [|d a]; [reflexivity|].
    rewrite IH by (assumption || discriminate). apply scons_W_idem.
  Qed.

  Lemma R_ws_abs : forall a Z, forallb wsc a = true -> absorbs Z -> R a Z = Z.
  Proof.
    intros a Z H HZ. destruct a as [|c a]; [reflexivity|]. rewrite R_ws by (assumption || discriminate). exact HZ.
  Qed.

  Lemma vt_nlc : vt nlc = VW.
  Proof. unfold Lint.vt. rewrite wsc_nlc. reflexivity. Qed.

  (* reading of the lines of a text *)
  Fixpoint RL (ls : list (list ch)) (Z : list vtok) : list vtok :=
    match ls with
    | [] => Z
    | [x] => R x Z
    | x :: r => R x (scons VW (RL r Z))
    end.

  Lemma RL_cons2 : forall x y r Z, RL (x :: y :: r) Z = R x (scons VW (RL (y :: r) Z)).
  Proof. reflexivity. Qed.

  Lemma R_join : forall ls Z, R (join_nl ls) Z = RL ls Z.
  Proof.
    induction ls as [|x r IH]; intro Z; [reflexivity|]. destruct r as [|y r]; [reflexivity|].
    rewrite join_cons2, RL_cons2. rewrite R_app, R_cons, vt_nlc, IH. reflexivity.
  Qed.

  (* a rule that rewrites lines one by one keeps the reading when it keeps the reading of each line in
     front of an absorbing continuation *)
  Definition line_ok (f : list ch -> list ch) : Prop := forall l Z, absorbs Z -> R (f l) Z = R l Z.

  Lemma RL_map : forall f ls Z, line_ok f -> absorbs Z -> RL (map f ls) Z = RL ls Z.
  Proof.
    intros f ls Z Hf HZ. induction ls as [|x r IH]; [reflexivity|]. destruct r as [|y r].
    - cbn. apply Hf. exact HZ.
    - cbn [map]. rewrite !RL_cons2. cbn [map] in IH. rewrite IH. apply Hf. apply absorbs_scons.
  Qed.

  Lemma cview_per_line : forall f t, line_ok f -> cview (per_line f t) = cview t.
  Proof.
    intros f t Hf. unfold Lint.cview, per_line. rewrite R_join. rewrite (RL_map f _ [] Hf absorbs_nil).
    rewrite <- R_join. rewrite join_split. reflexivity.
  Qed.

  (* ---------------- L001 ---------------- *)
  Lemma blanks_wsc : forall a, forallb is_blank a = true -> forallb wsc a = true.
  Proof. intros a H. apply forallb_forall. intros x Hx. apply blank_wsc. rewrite forallb_forall in H. apply H. exact Hx. Qed.

  Lemma trim_r_split : forall {A} (p : A -> bool) l, exists b, l = trim_r p l ++ b /\ forallb p b = true.
  Proof.
    intros A p. induction l as [|c t (b & E & Hb)].
    - exists []. split; reflexivity.
    - rewrite trim_r_cons. destruct (trim_r p t) as [|a r] eqn:Et.
      + destruct (p c) eqn:Ec.
        * exists (c :: t). split; [reflexivity|]. cbn. rewrite Ec. cbn in E. subst. exact Hb.
        * exists b. split; [cbn in *; rewrite <- E; reflexivity|exact Hb].
      + exists b. split; [rewrite E at 1; reflexivity|exact Hb].
  Qed.

  Lemma l001_line_ok : line_ok l001_fix_line.
  Proof.
    intros l Z HZ. unfold l001_fix_line. destruct (trim_r_split is_blank l) as (b & E & Hb).
    rewrite E at 2. rewrite R_app. rewrite (R_ws_abs b Z (blanks_wsc b Hb) HZ). reflexivity.
  Qed.

  Theorem l001_cview : forall t, cview (l001_fix t) = cview t.
  Proof. intro t. rewrite l001_fix_per_line. apply cview_per_line. exact l001_line_ok. Qed.

  (* ---------------- L002 ---------------- *)
  Lemma l002_line_ok : line_ok l002_fix_line.
  Proof.
    intros l Z HZ. rewrite l002_line_shape. rewrite <- (take_trim_l is_blank l) at 3. rewrite !R_app.
    set (Y := R (trim_l is_blank l) Z).
    destruct (take_l is_blank l) as [|c lw] eqn:E; [reflexivity|].
    rewrite (R_ws (c :: lw) Y); [|rewrite <- E; apply blanks_wsc; apply take_l_all|discriminate].
    apply R_ws.
    - apply blanks_wsc. apply forallb_flat_map. intros x Hx. apply tab4_blank.
      pose proof (take_l_all is_blank l) as H. rewrite E in H. rewrite forallb_forall in H. apply H. exact Hx.
    - cbn [flat_map]. unfold tab4 at 1. destruct (is_tab c); discriminate.
  Qed.

  Theorem l002_cview : forall t, cview (l002_fix t) = cview t.
  Proof. intro t. change (l002_fix t) with (per_line l002_fix_line t). apply cview_per_line. exact l002_line_ok. Qed.

  Lemma strip_lead_scons : forall X, strip_lead (scons VW X) = strip_lead X.
  Proof. intros [|[|n|c] X]; reflexivity. Qed.

  Lemma RL_cons_abs : forall x r Z, absorbs Z -> RL (x :: r) Z = R x (scons VW (RL r Z)).
  Proof. intros x [|y r] Z HZ; [cbn [RL]; unfold absorbs in HZ; rewrite HZ; reflexivity|reflexivity]. Qed.

  Lemma sW_R_ws : forall a X, forallb wsc a = true -> scons VW (R a X) = scons VW X.
  Proof.
    intros a X H. destruct a as [|c a]; [reflexivity|]. rewrite R_ws by (assumption || discriminate). apply scons_W_idem.
  Qed.

  (* ---------------- L003 ---------------- *)
  Lemma blank_line_wsc : forall l, blank_line is_space l = true -> forallb wsc l = true.
  Proof.
    intros l H. apply trim_space_nil_ws. unfold blank_line in H. destruct (trim_space is_space l); [reflexivity|discriminate].
  Qed.

  Lemma RL_pass : forall mx ls cnt Z, absorbs Z ->
    scons VW (RL (l003_pass is_space mx cnt ls) Z) = scons VW (RL ls Z).
  Proof.
    intros mx. induction ls as [|x r IH]; intros cnt Z HZ; [reflexivity|].
    cbn [l003_pass]. rewrite (RL_cons_abs x r Z HZ). destruct (blank_line is_space x) eqn:Eb.
    - rewrite (sW_R_ws x _ (blank_line_wsc x Eb)). rewrite scons_W_idem.
      destruct (S cnt <=? mx)%nat.
      + rewrite (RL_cons_abs x _ Z HZ). rewrite (sW_R_ws x _ (blank_line_wsc x Eb)). rewrite scons_W_idem. apply IH. exact HZ.
      + apply IH. exact HZ.
    - rewrite (RL_cons_abs x _ Z HZ). rewrite (IH 0%nat Z HZ). reflexivity.
  Qed.

  Theorem l003_cview : forall mx t, cview (l003_fix_mx is_space mx t) = cview t.
  Proof.
    intros mx t. unfold Lint.cview, l003_fix_mx. fold (l003_lines is_space mx (split_nl t)). rewrite l003_lines_eq.
    rewrite R_join. rewrite <- strip_lead_scons. rewrite (RL_pass mx _ 0%nat [] absorbs_nil).
    rewrite strip_lead_scons. rewrite <- R_join. rewrite join_split. reflexivity.
  Qed.

  (* ---------------- rules that need newline-free lines ---------------- *)
  Lemma RL_map_nonl : forall f ls Z, (forall l Y, no_nl l -> absorbs Y -> R (f l) Y = R l Y) -> Forall no_nl ls -> absorbs Z ->
    RL (map f ls) Z = RL ls Z.
  Proof.
    intros f ls Z Hf Hall HZ. induction Hall as [|x r Hx Hr IH]; [reflexivity|].
    cbn [map]. rewrite (RL_cons_abs _ _ Z HZ), (RL_cons_abs x r Z HZ). rewrite IH. apply Hf; [exact Hx|apply absorbs_scons].
  Qed.

  Lemma cview_per_line_nonl : forall f t, (forall l Y, no_nl l -> absorbs Y -> R (f l) Y = R l Y) -> cview (per_line f t) = cview t.
  Proof.
    intros f t Hf. unfold Lint.cview, per_line. rewrite R_join. rewrite (RL_map_nonl f _ [] Hf (split_no_nl t) absorbs_nil).
    rewrite <- R_join. rewrite join_split. reflexivity.
  Qed.

  Lemma vt_wr : forall c, is_nl c = false -> vt (wr c) = vt c.
  Proof. intros c H. unfold Lint.vt. rewrite (wsc_wr is_space c H). rewrite fold_wr. reflexivity. Qed.

  (* ---------------- L010 ---------------- *)
  Definition sif (b : bool) (X : list vtok) : list vtok := if b then scons VW X else X.

  Lemma sp_vt : forall c, is_sp c = true -> vt c = VW.
  Proof. intros c H. unfold Lint.vt, Lint.wsc, is_blank. rewrite H. rewrite orb_true_r. reflexivity. Qed.

  Lemma R_l010_scan : forall l Z, no_nl l ->
    (forall k, R (l010_scan (Some k) false l) Z = R l Z) /\
    (forall ps, sif ps (R (l010_scan None ps l) Z) = sif ps (R l Z)).
  Proof.
    induction l as [|c t IH]; intros Z H; [split; reflexivity|].
    assert (Hc : is_nl c = false) by (apply H; left; reflexivity).
    assert (Ht : no_nl t) by (intros x Hx; apply H; right; exact Hx).
    destruct (IH Z Ht) as [IHq IHn]. split.
    - intro k. cbn [l010_scan]. rewrite !R_cons. rewrite (vt_wr c Hc). f_equal.
      destruct (cp c =? k); [exact (IHn false)|apply IHq].
    - intro ps. cbn [l010_scan]. destruct (cstart c t); [reflexivity|]. destruct (is_quote c).
      + rewrite !R_cons. rewrite (vt_wr c Hc). rewrite IHq. reflexivity.
      + destruct (is_sp c) eqn:Es.
        * rewrite (R_cons c t). rewrite (sp_vt c Es). destruct ps; cbn [app sif].
          -- rewrite scons_W_idem. exact (IHn true).
          -- rewrite R_cons. rewrite (vt_wr c Hc), (sp_vt c Es). exact (IHn true).
        * rewrite !R_cons. rewrite (vt_wr c Hc). rewrite (IHn false : R _ _ = R _ _). reflexivity.
  Qed.

  Lemma l010_line_R : forall l Y, no_nl l -> absorbs Y -> R (l010_fix_line l) Y = R l Y.
  Proof.
    intros l Y H _. unfold l010_fix_line. destruct (trim_l is_blank l) as [|c rest] eqn:E.
    - destruct (R_l010_scan l Y H) as [_ Hn]. exact (Hn false).
    - rewrite R_app. assert (Hr : no_nl (c :: rest)) by (intros x Hx; apply H; eapply trim_l_incl; rewrite E; exact Hx).
      destruct (R_l010_scan (c :: rest) Y Hr) as [_ Hn]. rewrite (Hn false : R _ _ = R _ _).
      rewrite <- E. rewrite <- R_app. rewrite take_trim_l. reflexivity.
  Qed.

  Theorem l010_cview : forall t, cview (l010_fix t) = cview t.
  Proof. intro t. change (l010_fix t) with (per_line l010_fix_line t). apply cview_per_line_nonl. exact l010_line_R. Qed.

  (* ---------------- L007 ---------------- *)
  Section L007v.
    Variables is_letter is_digit : N -> bool.
    Variable keywords : list (list N).
    Hypothesis up_idem : forall x u, upper_ascii x = Some u -> upper_ascii u = Some u.
    (* a rune with an ASCII upper-case image is not white space *)
    Hypothesis up_nows : forall x u, upper_ascii x = Some u -> is_space x = false /\ x <> 32 /\ x <> 9 /\ x <> 10.

    Lemma up_not_wsc : forall c u, upper_ascii (cp c) = Some u -> wsc c = false.
    Proof.
      intros c u H. destruct (up_nows _ _ H) as (S1 & S2 & S3 & S4). unfold Lint.wsc, spacec, is_blank, is_sp, is_tab, is_nl.
      rewrite S1. apply N.eqb_neq in S2. apply N.eqb_neq in S3. apply N.eqb_neq in S4. rewrite S2, S3, S4. reflexivity.
    Qed.

    Lemma vt_conv : forall w, map vt (conv_word upper_ascii keywords w) = map vt w.
    Proof.
      intro w. unfold conv_word, kw_of.
      destruct (all_some (map (fun c => upper_ascii (cp c)) w)) as [u|] eqn:E; [|reflexivity].
      destruct (existsb (list_eqb u) keywords); [|reflexivity].
      revert u E. induction w as [|c w IH]; intros u E; cbn in E; [inversion E; reflexivity|].
      destruct (upper_ascii (cp c)) as [x|] eqn:Ex; [|discriminate].
      destruct (all_some (map (fun c0 => upper_ascii (cp c0)) w)) as [r|] eqn:Er; [|discriminate].
      inversion E; subst. cbn [map]. f_equal; [|apply IH; reflexivity].
      unfold Lint.vt. rewrite (up_not_wsc c x Ex).
      assert (Ea : upper_ascii (cp (asc x)) = Some x) by (cbn [asc cp]; exact (up_idem _ _ Ex)).
      rewrite (up_not_wsc (asc x) x Ea). unfold Lint.fold. rewrite Ea, Ex. reflexivity.
    Qed.

    Lemma vt_scan : forall l, no_nl l ->
      (forall k, map vt (l007_scan is_letter is_digit upper_ascii keywords (Some k) None l) = map vt l) /\
      (forall cur, map vt (l007_scan is_letter is_digit upper_ascii keywords None cur l)
                   = map vt (match cur with Some w => rev w | None => [] end ++ l)).
    Proof.
      induction l as [|c t IH]; intro H.
      - split; [reflexivity|]. intro cur. cbn [l007_scan]. destruct cur as [w|]; [rewrite vt_conv, app_nil_r; reflexivity|reflexivity].
      - assert (Hc : is_nl c = false) by (apply H; left; reflexivity).
        assert (Ht : no_nl t) by (intros x Hx; apply H; right; exact Hx).
        destruct (IH Ht) as [IHq IHn]. split.
        + intro k. cbn [l007_scan map]. rewrite (vt_wr c Hc). f_equal. destruct (cp c =? k); [rewrite IHn; reflexivity|apply IHq].
        + intro cur. cbn [l007_scan].
          assert (Fl : map vt (match cur with Some w => conv_word upper_ascii keywords (rev w) | None => [] end)
                       = map vt (match cur with Some w => rev w | None => [] end)).
          { destruct cur; [apply vt_conv|reflexivity]. }
          destruct (cstart c t); [rewrite !map_app; rewrite Fl; reflexivity|].
          destruct (is_quote c).
          * rewrite !map_app. rewrite Fl. cbn [map]. rewrite (vt_wr c Hc), IHq. reflexivity.
          * destruct (word_start is_letter c || match cur with Some _ => true | None => false end && is_digit (cp c)).
            -- rewrite IHn. cbn [rev]. destruct cur as [w|]; cbn [rev app]; rewrite ?map_app; cbn [map]; rewrite ?(vt_wr c Hc); rewrite <- ?app_assoc; reflexivity.
            -- rewrite !map_app. rewrite Fl. cbn [map]. rewrite (vt_wr c Hc), IHn. reflexivity.
    Qed.

    Lemma R_map_vt : forall a b Z, map vt a = map vt b -> R a Z = R b Z.
    Proof.
      induction a as [|c a IH]; intros b Z H; destruct b as [|d b]; try discriminate; [reflexivity|].
      cbn [map] in H. inversion H. rewrite !R_cons. rewrite H1. f_equal. apply IH. assumption.
    Qed.

    Theorem l007_cview : forall t, cview (l007_fix is_letter is_digit upper_ascii keywords t) = cview t.
    Proof.
      intro t. unfold l007_fix. apply (cview_per_line_nonl (l007_fix_line is_letter is_digit upper_ascii keywords)).
      intros l Y Hl _. apply R_map_vt. unfold l007_fix_line. destruct (vt_scan l Hl) as [_ Hn]. rewrite (Hn None). reflexivity.
    Qed.
  End L007v.

  (* ---------------- formatSQL ---------------- *)
  Lemma spacec_wsc : forall a, forallb (spacec is_space) a = true -> forallb wsc a = true.
  Proof.
    intros a H. apply forallb_forall. intros x Hx. rewrite forallb_forall in H. unfold Lint.wsc. rewrite (H x Hx). reflexivity.
  Qed.

  Lemma trim_space_split : forall l, exists a b, l = a ++ trim_space is_space l ++ b /\ forallb wsc a = true /\ forallb wsc b = true.
  Proof.
    intro l. unfold trim_space. destruct (trim_r_split (spacec is_space) (trim_l (spacec is_space) l)) as (b & E & Hb).
    exists (take_l (spacec is_space) l), b. split; [|split].
    - rewrite <- E. symmetry. apply take_trim_l.
    - apply spacec_wsc. apply take_l_all.
    - apply spacec_wsc. exact Hb.
  Qed.

  Lemma fmt_next_blank : forall ind cur tr, forallb is_blank ind = true -> forallb is_blank cur = true ->
    forallb is_blank (fmt_next_indent upper_ascii ind cur tr) = true.
  Proof.
    intros ind cur tr Hi Hc. unfold fmt_next_indent.
    destruct (existsb _ fmt_reset); [reflexivity|]. destruct (existsb _ fmt_indent); [exact Hi|].
    destruct (existsb _ fmt_reset2); [reflexivity|exact Hc].
  Qed.

  Lemma RL_fmt : forall ind ls cur Z, forallb is_blank ind = true -> forallb is_blank cur = true -> absorbs Z ->
    scons VW (RL (fmt_lines is_space upper_ascii ind cur ls) Z) = scons VW (RL ls Z).
  Proof.
    intros ind. induction ls as [|x r IH]; intros cur Z Hi Hc HZ; [reflexivity|].
    cbn [fmt_lines]. rewrite (RL_cons_abs x r Z HZ).
    destruct (trim_space_split x) as (a & b & E & Ha & Hb).
    destruct (trim_space is_space x) as [|c tr] eqn:Et.
    - rewrite E. cbn [app]. rewrite R_app. rewrite (R_ws_abs b _ Hb (absorbs_scons _)).
      rewrite (sW_R_ws a _ Ha). rewrite scons_W_idem. apply IH; assumption.
    - set (cur' := fmt_next_indent upper_ascii ind cur (c :: tr)).
      assert (Hc' : forallb is_blank cur' = true) by (apply fmt_next_blank; assumption).
      rewrite (RL_cons_abs _ _ Z HZ). rewrite R_app. rewrite (sW_R_ws cur' _ (blanks_wsc cur' Hc')).
      rewrite (IH cur' Z Hi Hc' HZ).
      rewrite E. rewrite !R_app. rewrite (R_ws_abs b _ Hb (absorbs_scons _)). rewrite (sW_R_ws a _ Ha). reflexivity.
  Qed.

  Theorem format_cview : forall tab spaces final t, cview (format_sql is_space upper_ascii tab spaces final t) = cview t.
  Proof.
    intros tab spaces final t. unfold format_sql.
    set (ind := if spaces then repeat spc tab else [asc 9]).
    assert (Hi : forallb is_blank ind = true).
    { unfold ind. destruct spaces; [|reflexivity]. induction tab as [|n IH]; [reflexivity|cbn; exact IH]. }
    set (f := join_nl (fmt_lines is_space upper_ascii ind [] (split_nl t))).
    assert (Ef : cview f = cview t).
    { unfold Lint.cview, f. rewrite R_join. rewrite <- strip_lead_scons. rewrite (RL_fmt ind _ [] [] Hi eq_refl absorbs_nil).
      rewrite strip_lead_scons. rewrite <- R_join. rewrite join_split. reflexivity. }
    destruct (final && negb (ends_nl f)); [|exact Ef].
    unfold Lint.cview. rewrite R_app. cbn [Lint.R fold_right]. rewrite vt_nlc. cbn [scons]. exact Ef.
  Qed.
End View.

Section CliView.
  Variables is_letter is_digit is_space : N -> bool.
  Variable upper_ascii : N -> option N.
  Variable keywords : list (list N).
  Hypothesis up_idem : forall x u, upper_ascii x = Some u -> upper_ascii u = Some u.
  Hypothesis up_nows : forall x u, upper_ascii x = Some u -> is_space x = false /\ x <> 32 /\ x <> 9 /\ x <> 10.

  Theorem cli_cview : forall t,
    cview is_space upper_ascii (cli_fix is_letter is_digit is_space upper_ascii keywords t) = cview is_space upper_ascii t.
  Proof.
    intro t. unfold cli_fix.
    rewrite (l007_cview is_space upper_ascii is_letter is_digit keywords up_idem up_nows).
    rewrite l010_cview. unfold l003_fix. rewrite l003_cview. rewrite l002_cview. apply l001_cview.
  Qed.

  (* the ink is determined by the reading when case is folded; for the CLI loop both conservation laws combine *)
End CliView.

(* ------------------------------------------------------------------------------------------------ *)
(* the lexical reading of a text without literals and comments is its reading as code *)

Section Plain.
  Variable is_space : N -> bool.
  Variable upper_ascii : N -> option N.

  Lemma R2_plain : forall l cls Z, length cls = length l -> forallb (fun k => k =? 0) cls = true ->
    R2 is_space upper_ascii cls l Z = R is_space upper_ascii l Z.
  Proof.
    induction l as [|c t IH]; intros cls Z Hl H; destruct cls as [|k ks]; try discriminate; [reflexivity|].
    cbn in H. apply andb_prop in H. destruct H as [H1 H2]. cbn [R2]. rewrite H1.
    rewrite IH; [reflexivity|cbn in Hl; lia|exact H2].
  Qed.

  Lemma lex_length : forall l st, length (lex st l) = length l.
  Proof.
    induction l as [|c t IH]; intro st; [reflexivity|]. cbn [lex].
    destruct st; repeat match goal with |- context [if ?b then _ else _] => destruct b end; cbn [length]; rewrite IH; reflexivity.
  Qed.

  Lemma reading_plain : forall t, plain t = true -> reading is_space upper_ascii t = cview is_space upper_ascii t.
  Proof.
    intros t H. unfold reading, cview. rewrite R2_plain; [reflexivity|apply lex_length|exact H].
  Qed.

  (* the partial form of the preservation statement: for texts that contain no literal, quoted identifier or
     comment, before and after the rewrite *)
  Lemma preserved_partial : forall (F : list ch -> list ch),
    (forall t, cview is_space upper_ascii (F t) = cview is_space upper_ascii t) ->
    forall t, plain t = true -> plain (F t) = true -> reading is_space upper_ascii (F t) = reading is_space upper_ascii t.
  Proof.
    intros F HF t H1 H2. rewrite (reading_plain t H1), (reading_plain (F t) H2). apply HF.
  Qed.
End Plain.

(* ------------------------------------------------------------------------------------------------ *)
(* formatSQL converges: formatting the formatted text changes nothing *)

Section FormatIdem.
  Variable is_space : N -> bool.
  Variable upper_ascii : N -> option N.
  (* facts about the table: space, tab and newline are spaces *)
  Hypothesis sp32 : is_space 32 = true.
  Hypothesis sp9 : is_space 9 = true.
  Hypothesis sp10 : is_space 10 = true.

  Notation sp := (spacec is_space).
  Notation tsp := (trim_space is_space).

  Lemma blank_sp : forall c, is_blank c = true -> sp c = true.
  Proof.
    intros c H. unfold spacec. unfold is_blank, is_sp, is_tab in H. apply orb_prop in H.
    destruct H as [H|H]; apply N.eqb_eq in H; rewrite H; assumption.
  Qed.
  Lemma nl_sp : forall c, is_nl c = true -> sp c = true.
  Proof. intros c H. apply is_nl_eq in H. subst. exact sp10. Qed.

  Lemma trim_r_prefix_head : forall {A} (p : A -> bool) l c t, trim_r p l = c :: t -> exists t', l = c :: t'.
  Proof.
    intros A p l c t H. destruct (trim_r_split p l) as (b & E & _). rewrite H in E. exists (t ++ b). exact E.
  Qed.

  Lemma tsp_idem : forall l, tsp (tsp l) = tsp l.
  Proof.
    intro l. unfold trim_space. set (X := trim_l sp l). destruct (trim_r sp X) as [|c t] eqn:E; [reflexivity|].
    destruct (trim_r_prefix_head sp X c t E) as (t' & EX).
    assert (Hc : sp c = false) by (eapply trim_l_head; unfold X in EX; exact EX).
    rewrite trim_l_stop by exact Hc. rewrite <- E. apply trim_r_idem.
  Qed.

  Lemma tsp_app_lead : forall a l, forallb sp a = true -> tsp (a ++ tsp l) = tsp l.
  Proof.
    intros a l H. unfold trim_space at 1. rewrite trim_l_app_all by exact H. fold (tsp (tsp l)). apply tsp_idem.
  Qed.

  Lemma ends_nl_lastc : forall l, ends_nl l = match lastc l with Some c => is_nl c | None => false end.
  Proof.
    intro l. unfold ends_nl. induction l as [|c t IH]; [reflexivity|]. destruct t as [|d t]; [reflexivity|].
    rewrite lastc_cons by discriminate. rewrite <- IH. cbn [rev]. destruct (rev t ++ [d]) as [|e r] eqn:E.
    - destruct (rev t); discriminate.
    - reflexivity.
  Qed.

  Lemma lastc_none : forall {A} (l : list A), lastc l = None -> l = [].
  Proof.
    intros A. induction l as [|c t IH]; intro H; [reflexivity|]. destruct t as [|d t]; [discriminate|].
    rewrite lastc_cons in H by discriminate. apply IH in H. discriminate.
  Qed.

  Lemma lastc_tsp_not_sp : forall l c, lastc (tsp l) = Some c -> sp c = false.
  Proof. intros l c H. unfold trim_space in H. eapply lastc_trim_r. exact H. Qed.

  (* the lines formatSQL emits *)
  Definition fl := fmt_lines is_space upper_ascii.

  Lemma fmt_fixed : forall ind ls cur, forallb is_blank ind = true -> forallb is_blank cur = true ->
    fl ind cur (fl ind cur ls) = fl ind cur ls.
  Proof.
    intros ind. induction ls as [|x r IH]; intros cur Hi Hc; [reflexivity|].
    unfold fl in *. cbn [fmt_lines]. destruct (trim_space is_space x) as [|c tr] eqn:E; [apply IH; assumption|].
    set (cur' := fmt_next_indent upper_ascii ind cur (c :: tr)).
    assert (Hc' : forallb is_blank cur' = true) by (apply fmt_next_blank; assumption).
    cbn [fmt_lines]. rewrite <- E. rewrite tsp_app_lead.
    - rewrite E. fold cur'. f_equal. apply IH; assumption.
    - apply forallb_forall. intros y Hy. apply blank_sp. rewrite forallb_forall in Hc'. apply Hc'. exact Hy.
  Qed.

  Lemma fmt_app : forall ind a b cur, exists cur2, fl ind cur (a ++ b) = fl ind cur a ++ fl ind cur2 b.
  Proof.
    intros ind. induction a as [|x a IH]; intros b cur; [exists cur; reflexivity|].
    unfold fl in *. cbn [app fmt_lines]. destruct (trim_space is_space x) as [|c tr]; [apply IH|].
    destruct (IH b (fmt_next_indent upper_ascii ind cur (c :: tr))) as (c2 & E). exists c2. rewrite E. reflexivity.
  Qed.

  Lemma fmt_no_nl : forall ind ls cur, forallb is_blank ind = true -> forallb is_blank cur = true -> Forall no_nl ls ->
    Forall no_nl (fl ind cur ls).
  Proof.
    intros ind. induction ls as [|x r IH]; intros cur Hi Hc Hall; [constructor|].
    inversion Hall as [|? ? Hx Hr]; subst. unfold fl in *. cbn [fmt_lines].
    destruct (trim_space is_space x) as [|c tr] eqn:E; [apply IH; assumption|].
    set (cur' := fmt_next_indent upper_ascii ind cur (c :: tr)).
    assert (Hc' : forallb is_blank cur' = true) by (apply fmt_next_blank; assumption).
    constructor; [|apply IH; assumption].
    intros y Hy. apply in_app_or in Hy. destruct Hy as [Hy|Hy].
    - rewrite forallb_forall in Hc'. specialize (Hc' y Hy). destruct (is_nl y) eqn:En; [|reflexivity].
      apply is_nl_eq in En. subst. vm_compute in Hc'. discriminate Hc'.
    - apply Hx. rewrite <- E in Hy. unfold trim_space in Hy. apply trim_r_incl in Hy. apply trim_l_incl in Hy. exact Hy.
  Qed.

  (* every emitted line ends in a character that is not a space *)
  Lemma fmt_last : forall ind ls cur l, In l (fl ind cur ls) -> exists c, lastc l = Some c /\ sp c = false.
  Proof.
    intros ind. induction ls as [|x r IH]; intros cur l H; [destruct H|].
    unfold fl in *. cbn [fmt_lines] in H. destruct (trim_space is_space x) as [|c tr] eqn:E; [eapply IH; exact H|].
    destruct H as [H|H]; [|eapply IH; exact H]. subst.
    rewrite lastc_app by discriminate. destruct (lastc (c :: tr)) as [d|] eqn:Ed.
    - exists d. split; [reflexivity|]. rewrite <- E in Ed. eapply lastc_tsp_not_sp. exact Ed.
    - apply lastc_none in Ed. discriminate.
  Qed.

  Lemma lastc_join : forall ls l, lastc ls = Some l -> l <> [] -> lastc (join_nl ls) = lastc l.
  Proof.
    induction ls as [|x r IH]; intros l H Hne; [discriminate|]. destruct r as [|y r].
    - inversion H; subst. reflexivity.
    - rewrite lastc_cons in H by discriminate. rewrite join_cons2.
      change (x ++ nlc :: join_nl (y :: r)) with (x ++ [nlc] ++ join_nl (y :: r)). rewrite app_assoc.
      rewrite lastc_app; [apply IH; assumption|].
      intro E. assert (Hl : lastc (join_nl (y :: r)) = lastc l) by (apply IH; assumption). rewrite E in Hl.
      symmetry in Hl. apply lastc_none in Hl. contradiction.
  Qed.

  Lemma lastc_some_in : forall {A} (l : list A), l <> [] -> exists x, lastc l = Some x.
  Proof.
    intros A. induction l as [|c t IH]; intro H; [contradiction|]. destruct t as [|d t]; [exists c; reflexivity|].
    rewrite lastc_cons by discriminate. apply IH. discriminate.
  Qed.

  Lemma split_join_nl : forall ls, ls <> [] -> Forall no_nl ls -> split_nl (join_nl ls ++ [nlc]) = ls ++ [[]].
  Proof.
    induction ls as [|x r IH]; intros Hne Hall; [contradiction|]. inversion Hall as [|? ? Hx Hr]; subst.
    destruct r as [|y r].
    - cbn [join_nl app]. rewrite split_app_line by exact Hx. reflexivity.
    - rewrite join_cons2. rewrite <- app_assoc. cbn [app]. rewrite split_app_line by exact Hx.
      cbn [app]. f_equal. apply IH; [discriminate|exact Hr].
  Qed.

  Theorem format_idempotent : forall tab spaces final t,
    format_sql is_space upper_ascii tab spaces final (format_sql is_space upper_ascii tab spaces final t)
    = format_sql is_space upper_ascii tab spaces final t.
  Proof.
    intros tab spaces final t. unfold format_sql.
    set (ind := if spaces then repeat spc tab else [asc 9]).
    assert (Hi : forallb is_blank ind = true).
    { unfold ind. destruct spaces; [|reflexivity]. induction tab as [|n IH]; [reflexivity|cbn; exact IH]. }
    fold (fl ind [] (split_nl t)). set (L := fl ind [] (split_nl t)).
    assert (HL : Forall no_nl L) by (apply fmt_no_nl; [exact Hi|reflexivity|apply split_no_nl]).
    assert (HLL : fl ind [] L = L) by (apply fmt_fixed; [exact Hi|reflexivity]).
    destruct L as [|l0 L0] eqn:EL.
    - (* no line at all *)
      cbn [join_nl ends_nl rev negb]. rewrite andb_true_r. destruct final; cbn [app].
      + cbn. reflexivity.
      + cbn. reflexivity.
    - assert (Hne : l0 :: L0 <> []) by discriminate.
      assert (He : ends_nl (join_nl (l0 :: L0)) = false).
      { rewrite ends_nl_lastc. destruct (lastc_some_in (l0 :: L0) Hne) as (l & Hl).
        destruct (fmt_last ind (split_nl t) [] l) as (c & Hc & Hs); [fold L; rewrite EL; apply lastc_in; exact Hl|].
        rewrite (lastc_join _ l Hl) by (intro E; subst; discriminate). rewrite Hc.
        destruct (is_nl c) eqn:En; [|reflexivity]. apply nl_sp in En. congruence. }
      rewrite He. rewrite andb_true_r. destruct final.
      + rewrite split_join_nl by assumption. destruct (fmt_app ind (l0 :: L0) [[]] []) as (c2 & E).
        fold (fl ind [] ((l0 :: L0) ++ [[]])). rewrite E. rewrite HLL. unfold fl at 2. cbn [fmt_lines trim_space trim_l trim_r].
        rewrite !app_nil_r. rewrite He. reflexivity.
      + rewrite split_join by assumption. fold (fl ind [] (l0 :: L0)). rewrite HLL. rewrite He. reflexivity.
  Qed.
End FormatIdem.

(* ------------------------------------------------------------------------------------------------ *)
(* the CLI loop converges: its output is a fixed point of every one of the five fixers *)

Section Pipeline.
  Variables is_letter is_digit is_space : N -> bool.
  Variable upper_ascii : N -> option N.
  Variable keywords : list (list N).
  Hypothesis up_letter : forall x u, upper_ascii x = Some u -> is_letter u = true.
  Hypothesis up_noquote : forall x u, upper_ascii x = Some u -> u <> 39 /\ u <> 34 /\ u <> 10.
  Hypothesis up_idem : forall x u, upper_ascii x = Some u -> upper_ascii u = Some u.
  Hypothesis up_nows : forall x u, upper_ascii x = Some u -> is_space x = false /\ x <> 32 /\ x <> 9 /\ x <> 10.
  Hypothesis up_keynoquote : forall x u, upper_ascii x = Some u -> x <> 39 /\ x <> 34.
  Hypothesis nl45 : is_letter 45 = false.
  Hypothesis nd45 : is_digit 45 = false.
  Hypothesis up_key45 : forall x u, upper_ascii x = Some u -> x <> 45.
  Hypothesis sp32 : is_space 32 = true.
  Hypothesis sp9 : is_space 9 = true.
  Hypothesis sp10 : is_space 10 = true.
  Hypothesis up_nobt : forall x u, upper_ascii x = Some u -> u <> 96.
  Hypothesis up_keynobt : forall x u, upper_ascii x = Some u -> x <> 96.

  Notation f1 := l001_fix_line.
  Notation f2 := l002_fix_line.
  Notation f10 := l010_fix_line.
  Notation f7 := (l007_fix_line is_letter is_digit upper_ascii keywords).
  Notation wsc := (wsc is_space).
  Notation blank := (blank_line is_space).

  (* ---------- stability of a line under the line rewriters ---------- *)
  Definition S1 (l : list ch) : Prop := match lastc l with Some c => is_blank c = false | None => True end.
  Definition S2 (l : list ch) : Prop := existsb is_tab (take_l is_blank l) = false.

  Lemma S1_fixed : forall l, S1 l -> f1 l = l.
  Proof.
    unfold l001_fix_line. induction l as [|c t IH]; intro H; [reflexivity|]. rewrite trim_r_cons.
    destruct t as [|d t].
    - cbn [trim_r]. unfold S1 in H. cbn in H. rewrite H. reflexivity.
    - assert (Ht : S1 (d :: t)) by (unfold S1 in *; rewrite lastc_cons in H by discriminate; exact H).
      rewrite (IH Ht). reflexivity.
  Qed.

  Lemma f1_S1 : forall l, S1 (f1 l).
  Proof.
    intro l. unfold S1, l001_fix_line. destruct (lastc (trim_r is_blank l)) as [c|] eqn:E; [|exact I].
    eapply lastc_trim_r. exact E.
  Qed.

  Lemma S2_fixed : forall l, S2 l -> f2 l = l.
  Proof.
    intros l H. rewrite l002_line_shape. rewrite <- (take_trim_l is_blank l) at 3. f_equal.
    apply flat_map_tab4_notab. unfold S2 in H. clear -H. induction (take_l is_blank l) as [|c t IH]; [reflexivity|].
    cbn in *. apply orb_false_elim in H. destruct H as [H1 H2]. rewrite H1. cbn. apply IH. exact H2.
  Qed.

  Lemma f2_S2 : forall l, S2 (f2 l).
  Proof. intro l. apply l002_fixed_leading. Qed.

  Lemma lastc_app_ne : forall {A} (a b : list A), b <> [] -> lastc (a ++ b) = lastc b.
  Proof. intros. apply lastc_app. assumption. Qed.

  Lemma all_blank_S1_nil : forall l, forallb is_blank l = true -> S1 l -> l = [].
  Proof.
    intros l Hb H. destruct (lastc l) as [c|] eqn:E.
    - unfold S1 in H. rewrite E in H. apply lastc_in in E. rewrite forallb_forall in Hb. rewrite (Hb c E) in H. discriminate.
    - apply lastc_none. exact E.
  Qed.

  (* (a) the indentation rule keeps "no trailing blank" *)
  Lemma f2_keeps_S1 : forall l, S1 l -> S1 (f2 l).
  Proof.
    intros l H. rewrite l002_line_shape. destruct (trim_l is_blank l) as [|c r] eqn:E.
    - apply trim_l_nil_iff in E. rewrite (all_blank_S1_nil l E H). exact I.
    - unfold S1. rewrite lastc_app_ne by discriminate. rewrite <- E.
      unfold S1 in H. rewrite <- (take_trim_l is_blank l) in H. rewrite lastc_app_ne in H by (rewrite E; discriminate). exact H.
  Qed.

  (* ---------- L010 ---------- *)
  Lemma scan10_last : forall l q ps c, lastc l = Some c -> is_sp c = false ->
    exists c', lastc (l010_scan q ps l) = Some c' /\ (c' = wr c \/ c' = c).
  Proof.
    induction l as [|d t IH]; intros q ps c H Hs; [discriminate|]. destruct t as [|e t0] eqn:Et.
    - inversion H; subst. exists (wr c). split; [|left; reflexivity]. cbn [l010_scan]. destruct q; [reflexivity|].
      unfold cstart. cbn [next_is]. rewrite andb_false_r. destruct (is_quote c); [reflexivity|]. rewrite Hs. reflexivity.
    - rewrite lastc_cons in H by discriminate. rewrite <- Et in *. clear Et.
      assert (G : forall q' ps' x, exists c', lastc (x ++ l010_scan q' ps' t) = Some c' /\ (c' = wr c \/ c' = c)).
      { intros q' ps' x. destruct (IH q' ps' c H Hs) as (c' & E & D). exists c'. split; [|exact D].
        rewrite lastc_app_ne; [exact E|]. intro En. rewrite En in E. discriminate. }
      cbn [l010_scan]. destruct q as [k|]; [apply (G _ _ [wr d])|].
      destruct (cstart d t).
      { exists c. split; [|right; reflexivity]. rewrite lastc_cons; [exact H|]. intro En. subst. discriminate. }
      destruct (is_quote d); [apply (G _ _ [wr d])|]. destruct (is_sp d).
      + destruct ps; [apply (G _ _ [])|apply (G _ _ [wr d])].
      + apply (G _ _ [wr d]).
  Qed.

  Lemma not_blank_not_sp : forall c, is_blank c = false -> is_sp c = false.
  Proof. intros c H. unfold is_blank in H. apply orb_false_elim in H. tauto. Qed.

  Lemma f10_keeps_S1 : forall l, S1 l -> S1 (f10 l).
  Proof.
    intros l H. unfold l010_fix_line. destruct (trim_l is_blank l) as [|c r] eqn:E.
    - apply trim_l_nil_iff in E. rewrite (all_blank_S1_nil l E H). exact I.
    - unfold S1 in *. rewrite <- (take_trim_l is_blank l) in H. rewrite E in H. rewrite lastc_app_ne in H by discriminate.
      destruct (lastc (c :: r)) as [d|] eqn:Ed; [|apply lastc_none in Ed; discriminate].
      destruct (scan10_last (c :: r) None false d Ed (not_blank_not_sp d H)) as (c' & Hl & D).
      rewrite lastc_app_ne; [rewrite Hl; destruct D as [D|D]; subst c'; [rewrite is_blank_wr|]; exact H|]. intro En. rewrite En in Hl. discriminate.
  Qed.

  Lemma f10_keeps_S2 : forall l, S2 l -> S2 (f10 l).
  Proof.
    intros l H. unfold S2, l010_fix_line in *. destruct (trim_l is_blank l) as [|c r] eqn:E.
    - apply trim_l_nil_iff in E. pose proof (l010_scan_blank l None false E) as Hb.
      assert (Hl : take_l is_blank l = l).
      { rewrite <- (take_trim_l is_blank l) at 2. apply trim_l_nil_iff in E. rewrite E. rewrite app_nil_r. reflexivity. }
      rewrite Hl in H.
      destruct (existsb is_tab (take_l is_blank (l010_scan None false l))) eqn:Et; [|reflexivity]. exfalso.
      apply existsb_exists in Et. destruct Et as (x & Hx & Tx). apply take_l_incl in Hx. apply l010_scan_in in Hx.
      destruct Hx as (d & Hd & [Ex|Ex]); subst; [rewrite is_tab_wr in Tx|];
        (assert (existsb is_tab l = true) by (apply existsb_exists; exists d; split; assumption); congruence).
    - pose proof (trim_l_head _ _ _ _ E) as Hc. destruct (l010_scan_head c r Hc) as (c' & s & Hs & Hc'). rewrite Hs.
      rewrite take_l_app_all by apply take_l_all. rewrite take_l_stop by exact Hc'.
      rewrite app_nil_r. exact H.
  Qed.

  (* blank lines: with space, tab and newline being spaces, "all whitespace" is "all spaces" *)
  Lemma wsc_sp : forall c, wsc c = spacec is_space c.
  Proof.
    intro c. unfold Lint.wsc. destruct (spacec is_space c) eqn:E; [reflexivity|]. cbn [orb].
    destruct (is_blank c) eqn:Eb; [rewrite (blank_sp is_space sp32 sp9 c Eb) in E; discriminate|].
    destruct (is_nl c) eqn:En; [rewrite (nl_sp is_space sp10 c En) in E; discriminate|reflexivity].
  Qed.

  Lemma blank_iff_all : forall l, blank l = forallb wsc l.
  Proof.
    intro l. unfold blank_line. destruct (trim_space is_space l) as [|c r] eqn:E.
    - symmetry. apply trim_space_nil_ws. exact E.
    - symmetry. apply not_true_is_false. intro H.
      assert (Hs : forallb (spacec is_space) l = true).
      { apply forallb_forall. intros x Hx. rewrite <- wsc_sp. rewrite forallb_forall in H. apply H. exact Hx. }
      unfold trim_space in E. apply trim_l_nil_iff in Hs. rewrite Hs in E. discriminate.
  Qed.

  Lemma all_ws_ink : forall l, forallb wsc l = true <-> ink is_space l = [].
  Proof.
    induction l as [|c t IH]; [split; reflexivity|]. unfold Lint.ink in *. cbn [forallb filter]. destruct (wsc c); cbn [negb andb map].
    - exact IH.
    - split; discriminate.
  Qed.

  Lemma ink_f10 : forall l, no_nl l -> ink is_space (f10 l) = ink is_space l.
  Proof.
    intros l Hl. unfold l010_fix_line. destruct (trim_l is_blank l) as [|c rest] eqn:E.
    - apply ink_l010_scan. exact Hl.
    - rewrite ink_app. rewrite ink_l010_scan.
      + rewrite <- E. rewrite <- ink_app. rewrite take_trim_l. reflexivity.
      + intros x Hx. apply Hl. eapply trim_l_incl. rewrite E. exact Hx.
  Qed.

  Lemma f10_blank : forall l, no_nl l -> blank (f10 l) = blank l.
  Proof.
    intros l Hl. rewrite !blank_iff_all. pose proof (ink_f10 l Hl) as E.
    destruct (forallb wsc l) eqn:A.
    - apply all_ws_ink in A. rewrite A in E. apply all_ws_ink. exact E.
    - apply not_true_is_false. intro B. apply all_ws_ink in B. rewrite B in E. symmetry in E. apply all_ws_ink in E. congruence.
  Qed.

  (* ---------- L007: the fixed line is related to the line character by character ---------- *)
  Definition rel (c c' : ch) : Prop := c' = wr c \/ c' = c \/ exists u, upper_ascii (cp c) = Some u /\ c' = asc u.

  Lemma conv_rel : forall w, (forall c, In c w -> wr c = c) -> Forall2 rel w (conv_word upper_ascii keywords w).
  Proof.
    intros w Hw. unfold conv_word, kw_of.
    assert (Hid : Forall2 rel w w).
    { clear -Hw. induction w as [|c w IH]; constructor; [left; symmetry; apply Hw; left; reflexivity|apply IH; intros x Hx; apply Hw; right; exact Hx]. }
    destruct (all_some (map (fun c => upper_ascii (cp c)) w)) as [u|] eqn:E; [|exact Hid].
    destruct (existsb (list_eqb u) keywords); [|exact Hid]. clear Hid Hw.
    revert u E. induction w as [|c w IH]; intros u E; cbn in E; [inversion E; constructor|].
    destruct (upper_ascii (cp c)) as [x|] eqn:Ex; [|discriminate].
    destruct (all_some (map (fun c0 => upper_ascii (cp c0)) w)) as [r|] eqn:Er; [|discriminate].
    inversion E; subst. cbn [map]. constructor; [right; right; exists x; split; [exact Ex|reflexivity]|apply IH; reflexivity].
  Qed.

  Notation scan7 := (l007_scan is_letter is_digit upper_ascii keywords).

  Definition curfixed (cur : option (list ch)) : Prop := match cur with Some w => forall c, In c w -> wr c = c | None => True end.
  Definition pre (cur : option (list ch)) : list ch := match cur with Some w => rev w | None => [] end.

  Lemma Forall2_app_inv : forall {A B} (Rr : A -> B -> Prop) a1 a2 b1 b2, Forall2 Rr a1 b1 -> Forall2 Rr a2 b2 -> Forall2 Rr (a1 ++ a2) (b1 ++ b2).
  Proof. intros. apply Forall2_app; assumption. Qed.

  Lemma flush_rel : forall cur, curfixed cur ->
    Forall2 rel (pre cur) (match cur with Some w => conv_word upper_ascii keywords (rev w) | None => [] end).
  Proof.
    intros [w|] H; [|constructor]. apply conv_rel. intros c Hc. apply H. apply in_rev. exact Hc.
  Qed.

  Lemma rel_mid : forall P c t out, Forall2 rel (P ++ wr c :: t) out -> Forall2 rel (P ++ c :: t) out.
  Proof.
    induction P as [|p P IHP]; intros c t out H; cbn [app] in *.
    - inversion H as [|? ? ? ? Hh Ht]; subst. constructor; [|exact Ht].
      destruct Hh as [Hh|[Hh|(u & H1 & H2)]]; [left; rewrite wr_wr in Hh; exact Hh|left; exact Hh|right; right; exists u; rewrite cp_wr in H1; split; assumption].
    - inversion H as [|? ? ? ? Hh Ht]; subst. constructor; [exact Hh|apply IHP; exact Ht].
  Qed.

  Lemma scan7_rel : forall l,
    (forall k, Forall2 rel l (scan7 (Some k) None l)) /\
    (forall cur, curfixed cur -> Forall2 rel (pre cur ++ l) (scan7 None cur l)).
  Proof.
    induction l as [|c t [IHq IHn]]; split.
    - intro k. constructor.
    - intros cur H. cbn [l007_scan]. rewrite app_nil_r. apply flush_rel. exact H.
    - intro k. cbn [l007_scan]. constructor; [left; reflexivity|]. destruct (cp c =? k); [apply (IHn None I)|apply IHq].
    - intros cur H. cbn [l007_scan]. destruct (cstart c t).
      { apply Forall2_app; [apply flush_rel; exact H|]. clear. induction (c :: t) as [|x r IHr]; constructor; [right; left; reflexivity|exact IHr]. }
      destruct (is_quote c).
      + apply Forall2_app; [apply flush_rel; exact H|]. constructor; [left; reflexivity|apply IHq].
      + destruct (word_start is_letter c || match cur with Some _ => true | None => false end && is_digit (cp c)).
        * set (cur' := Some (wr c :: match cur with Some w => w | None => [] end)).
          assert (Hc' : curfixed cur').
          { unfold cur', curfixed. intros x [Hx|Hx]; [subst; apply wr_wr|]. destruct cur as [w|]; [apply H; exact Hx|destruct Hx]. }
          specialize (IHn cur' Hc'). unfold cur', pre in IHn. cbn [rev] in IHn. rewrite <- app_assoc in IHn. cbn [app] in IHn.
          apply rel_mid. destruct cur as [w|]; exact IHn.
        * apply Forall2_app; [apply flush_rel; exact H|]. constructor; [left; reflexivity|apply (IHn None I)].
  Qed.

  Lemma f7_rel : forall l, Forall2 rel l (f7 l).
  Proof. intro l. unfold l007_fix_line. destruct (scan7_rel l) as [_ H]. exact (H None I). Qed.

  (* what the relation preserves *)
  Lemma rel_cp_cases : forall c c', rel c c' -> cp c' = cp c \/ exists u, upper_ascii (cp c) = Some u /\ cp c' = u.
  Proof. intros c c' [H|[H|(u & H1 & H2)]]; subst; [left; apply cp_wr|left; reflexivity|right; exists u; split; [exact H1|reflexivity]]. Qed.

  Lemma rel_blank : forall c c', rel c c' -> is_blank c' = is_blank c.
  Proof.
    intros c c' [H|[H|(u & H1 & H2)]]; subst; [apply is_blank_wr|reflexivity|].
    destruct (up_nows _ _ H1) as (_ & A & B & _). destruct (up_nows _ _ (up_idem _ _ H1)) as (_ & A' & B' & _).
    unfold is_blank, is_sp, is_tab, asc. cbn [cp].
    apply N.eqb_neq in A. apply N.eqb_neq in B. apply N.eqb_neq in A'. apply N.eqb_neq in B'. rewrite A, B, A', B'. reflexivity.
  Qed.
  Lemma rel_tab : forall c c', rel c c' -> is_tab c' = is_tab c.
  Proof.
    intros c c' [H|[H|(u & H1 & H2)]]; subst; [apply is_tab_wr|reflexivity|].
    destruct (up_nows _ _ H1) as (_ & _ & B & _). destruct (up_nows _ _ (up_idem _ _ H1)) as (_ & _ & B' & _).
    unfold is_tab, asc. cbn [cp]. apply N.eqb_neq in B. apply N.eqb_neq in B'. rewrite B, B'. reflexivity.
  Qed.
  Lemma rel_sp : forall c c', rel c c' -> is_sp c' = is_sp c.
  Proof.
    intros c c' [H|[H|(u & H1 & H2)]]; subst; [apply is_sp_wr|reflexivity|].
    destruct (up_nows _ _ H1) as (_ & A & _). destruct (up_nows _ _ (up_idem _ _ H1)) as (_ & A' & _).
    unfold is_sp, asc. cbn [cp]. apply N.eqb_neq in A. apply N.eqb_neq in A'. rewrite A, A'. reflexivity.
  Qed.
  Lemma rel_quote : forall c c', rel c c' -> is_quote c' = is_quote c /\ (is_quote c = true -> cp c' = cp c).
  Proof.
    intros c c' [H|[H|(u & H1 & H2)]]; subst; [split; [apply is_quote_wr|intros _; apply cp_wr]|split; [reflexivity|intros _; reflexivity]|].
    destruct (up_keynoquote _ _ H1) as (A & B). destruct (up_noquote _ _ H1) as (A' & B' & _).
    pose proof (up_keynobt _ _ H1) as C. pose proof (up_nobt _ _ H1) as C'.
    apply N.eqb_neq in C. apply N.eqb_neq in C'.
    assert (Q : is_quote c = false) by (unfold is_quote; apply N.eqb_neq in A; apply N.eqb_neq in B; rewrite A, B, C; reflexivity).
    assert (Q' : is_quote (asc u) = false) by (unfold is_quote, asc; cbn [cp]; apply N.eqb_neq in A'; apply N.eqb_neq in B'; rewrite A', B', C'; reflexivity).
    split; [rewrite Q, Q'; reflexivity|rewrite Q; discriminate].
  Qed.
  Lemma rel_eqk : forall c c' k, rel c c' -> (k = 39 \/ k = 34 \/ k = 96) -> (cp c' =? k) = (cp c =? k).
  Proof.
    intros c c' k [H|[H|(u & H1 & H2)]] Hk; subst c'; [rewrite cp_wr; reflexivity|reflexivity|].
    destruct (up_keynoquote _ _ H1) as (A & B). destruct (up_noquote _ _ H1) as (A' & B' & _). cbn [asc cp].
    pose proof (up_keynobt _ _ H1) as C. pose proof (up_nobt _ _ H1) as C'.
    destruct Hk as [Hk|[Hk|Hk]]; subst k; [apply N.eqb_neq in A; apply N.eqb_neq in A'|apply N.eqb_neq in B; apply N.eqb_neq in B'|apply N.eqb_neq in C; apply N.eqb_neq in C']; congruence.
  Qed.
  Lemma rel_wsc : forall c c', is_nl c = false -> rel c c' -> wsc c' = wsc c.
  Proof.
    intros c c' Hn [H|[H|(u & H1 & H2)]]; subst; [apply wsc_wr; exact Hn|reflexivity|].
    rewrite (up_not_wsc is_space upper_ascii up_nows c u H1).
    apply (up_not_wsc is_space upper_ascii up_nows (asc u) u). cbn [asc cp]. exact (up_idem _ _ H1).
  Qed.
  Lemma rel_wrfix : forall c c', rel c c' -> wr c = c -> wr c' = c'.
  Proof. intros c c' [H|[H|(u & H1 & H2)]] Hw; subst; [apply wr_wr|exact Hw|reflexivity]. Qed.

  (* a minus sign stays a minus sign, and nothing else becomes one: comment starts are aligned *)
  Lemma rel_45 : forall c c', rel c c' -> (cp c' =? 45) = (cp c =? 45).
  Proof.
    intros c c' [H|[H|(u & H1 & H2)]]; subst; [rewrite cp_wr; reflexivity|reflexivity|].
    cbn [asc cp]. pose proof (up_key45 _ _ H1) as A. pose proof (up_letter _ _ H1) as L.
    assert (B : u <> 45) by (intro E; subst; rewrite nl45 in L; discriminate).
    apply N.eqb_neq in A. apply N.eqb_neq in B. rewrite A, B. reflexivity.
  Qed.
  Lemma rel_cstart : forall c c' t t', rel c c' -> Forall2 rel t t' -> cstart c' t' = cstart c t.
  Proof.
    intros c c' t t' H Ht. unfold cstart. rewrite (rel_45 c c' H). f_equal.
    destruct Ht as [|d d' t t' Hd _]; [reflexivity|]. cbn [next_is]. apply rel_45. exact Hd.
  Qed.

  Lemma Forall2_lastc : forall {A B} (Rr : A -> B -> Prop) a b, Forall2 Rr a b ->
    match lastc a, lastc b with Some x, Some y => Rr x y | None, None => True | _, _ => False end.
  Proof.
    intros A B Rr a b H. induction H as [|x y a b Hxy Hab IH]; [exact I|]. inversion Hab; subst; [exact Hxy|].
    rewrite !lastc_cons by discriminate. exact IH.
  Qed.

  (* (c1) *)
  Lemma f7_keeps_S1 : forall l, S1 l -> S1 (f7 l).
  Proof.
    intros l H. unfold S1 in *. pose proof (Forall2_lastc rel l (f7 l) (f7_rel l)) as R.
    destruct (lastc l) as [c|], (lastc (f7 l)) as [c'|]; try exact I; try contradiction.
    rewrite (rel_blank c c' R). exact H.
  Qed.

  Lemma rel_take_trim : forall a b, Forall2 rel a b ->
    Forall2 rel (take_l is_blank a) (take_l is_blank b) /\ Forall2 rel (trim_l is_blank a) (trim_l is_blank b).
  Proof.
    intros a b H. induction H as [|x y a b Hxy Hab [IH1 IH2]]; [split; constructor|].
    cbn [take_l trim_l]. rewrite (rel_blank x y Hxy). destruct (is_blank x).
    - split; [constructor; assumption|exact IH2].
    - split; [constructor|constructor; assumption].
  Qed.

  (* (c2) *)
  Lemma f7_keeps_S2 : forall l, S2 l -> S2 (f7 l).
  Proof.
    intros l H. unfold S2 in *. destruct (rel_take_trim l (f7 l) (f7_rel l)) as [R _].
    revert H. induction R as [|x y a b Hxy Hab IH]; intro H; [reflexivity|]. cbn [existsb] in *.
    rewrite (rel_tab x y Hxy). apply orb_false_elim in H. destruct H as [H1 H2]. rewrite H1. cbn [orb]. apply IH. exact H2.
  Qed.

  (* (c3) *)
  Lemma f7_blank : forall l, no_nl l -> blank (f7 l) = blank l.
  Proof.
    intros l Hl. rewrite !blank_iff_all. pose proof (f7_rel l) as R. revert Hl. induction R as [|x y a b Hxy Hab IH]; intro Hl; [reflexivity|].
    cbn [forallb]. rewrite (rel_wsc x y (Hl x (or_introl eq_refl)) Hxy). f_equal. apply IH. intros z Hz. apply Hl. right. exact Hz.
  Qed.

  (* (c4) stability under the L010 line rewriter is kept *)
  Lemma scan10_len : forall l q ps, (length (l010_scan q ps l) <= length l)%nat.
  Proof.
    induction l as [|c t IH]; intros q ps; [cbn; lia|]. cbn [l010_scan]. destruct q as [k|]; [cbn [length]; specialize (IH (if cp c =? k then None else Some k) ps); lia|].
    destruct (cstart c t); [cbn [length]; lia|].
    destruct (is_quote c); [cbn [length]; specialize (IH (Some (cp c)) false); lia|]. destruct (is_sp c).
    - destruct ps; cbn [app length]; [specialize (IH None true); lia|specialize (IH None true); lia].
    - cbn [length]. specialize (IH None false). lia.
  Qed.

  Definition qok (q : option N) : Prop := match q with Some k => k = 39 \/ k = 34 \/ k = 96 | None => True end.

  Lemma is_quote_k : forall c, is_quote c = true -> cp c = 39 \/ cp c = 34 \/ cp c = 96.
  Proof. intros c H. unfold is_quote in H. apply orb_prop in H. destruct H as [H|H]; [apply orb_prop in H; destruct H as [H|H]|]; apply N.eqb_eq in H; auto. Qed.

  Lemma scan10_rel : forall l l', Forall2 rel l l' -> forall q ps, qok q -> l010_scan q ps l = l -> l010_scan q ps l' = l'.
  Proof.
    intros l l' H. induction H as [|c c' t t' Hc Ht IH]; intros q ps Hq E; [reflexivity|].
    cbn [l010_scan] in *. destruct q as [k|].
    - injection E as E1 E2. rewrite (rel_eqk c c' k Hc Hq). rewrite (rel_wrfix c c' Hc E1). f_equal.
      apply IH; [destruct (cp c =? k); [exact I|exact Hq]|exact E2].
    - rewrite (rel_cstart c c' t t' Hc Ht). destruct (cstart c t); [reflexivity|].
      destruct (rel_quote c c' Hc) as (Q1 & Q2). rewrite Q1. destruct (is_quote c) eqn:Eq.
      + injection E as E1 E2. rewrite (rel_wrfix c c' Hc E1). f_equal. rewrite (Q2 eq_refl).
        apply IH; [apply is_quote_k; exact Eq|exact E2].
      + rewrite (rel_sp c c' Hc). destruct (is_sp c).
        * destruct ps; cbn [app] in *.
          -- exfalso. pose proof (scan10_len t None true) as L. rewrite E in L. cbn [length] in L. lia.
          -- injection E as E1 E2. rewrite (rel_wrfix c c' Hc E1). f_equal. apply IH; [exact I|exact E2].
        * injection E as E1 E2. rewrite (rel_wrfix c c' Hc E1). f_equal. apply IH; [exact I|exact E2].
  Qed.

  Lemma Forall2_nil_iff : forall {A B} (Rr : A -> B -> Prop) a b, Forall2 Rr a b -> (a = [] <-> b = []).
  Proof. intros A B Rr a b H. inversion H; subst; split; intro; (reflexivity || discriminate). Qed.

  Lemma f7_keeps_S10 : forall l, f10 l = l -> f10 (f7 l) = f7 l.
  Proof.
    intros l H. pose proof (f7_rel l) as R. destruct (rel_take_trim l (f7 l) R) as [R1 R2].
    unfold l010_fix_line in *. destruct (trim_l is_blank l) as [|c r] eqn:E; destruct (trim_l is_blank (f7 l)) as [|c' r'] eqn:E';
      try (exfalso; inversion R2; fail).
    - apply (scan10_rel l (f7 l) R None false I H).
    - rewrite <- (take_trim_l is_blank l) in H at 2. rewrite E in H. apply app_inv_head in H.
      rewrite (scan10_rel (c :: r) (c' :: r') R2 None false I H). rewrite <- E'. apply take_trim_l.
  Qed.

  (* ---------- texts ---------- *)
  Lemma per_line_fixed : forall f t, Forall (fun l => f l = l) (split_nl t) -> per_line f t = t.
  Proof.
    intros f t H. unfold per_line. rewrite <- (join_split t) at 2. f_equal.
    induction H as [|l r Hl Hr IH]; [reflexivity|]. cbn [map]. rewrite Hl, IH. reflexivity.
  Qed.

  Lemma bounded_ext : forall mx a b cnt, map blank a = map blank b -> bounded is_space mx cnt a = bounded is_space mx cnt b.
  Proof.
    intros mx. induction a as [|x a IH]; intros b cnt H; destruct b as [|y b]; try discriminate; [reflexivity|].
    cbn [map] in H. inversion H as [[H1 H2]]. cbn [bounded]. rewrite H1. destruct (blank y); [f_equal|]; apply IH; exact H2.
  Qed.

  Notation F1 := l001_fix.
  Notation F2 := l002_fix.
  Notation F3 := (l003_fix is_space).
  Notation F10 := l010_fix.
  Notation F7 := (l007_fix is_letter is_digit upper_ascii keywords).

  Lemma F3_fixed : forall t, bounded is_space 1 0 (split_nl t) = true -> F3 t = t.
  Proof.
    intros t H. unfold l003_fix, l003_fix_mx. fold (l003_lines is_space 1 (split_nl t)). rewrite l003_lines_eq.
    rewrite pass_fixed by exact H. apply join_split.
  Qed.

  Theorem cli_fix_idempotent : forall t,
    cli_fix is_letter is_digit is_space upper_ascii keywords (cli_fix is_letter is_digit is_space upper_ascii keywords t)
    = cli_fix is_letter is_digit is_space upper_ascii keywords t.
  Proof.
    intro t. unfold cli_fix.
    set (t1 := F1 t). set (t2 := F2 t1). set (t3 := F3 t2). set (t4 := F10 t3). set (u := F7 t4).
    (* the lines of each stage *)
    assert (K7 : forall l, no_nl l -> no_nl (f7 l)) by (apply l007_line_keeps; assumption).
    assert (L1 : split_nl t1 = map f1 (split_nl t)) by (apply (split_per_line f1 t l001_line_keeps)).
    assert (L2 : split_nl t2 = map f2 (split_nl t1)) by (apply (split_per_line f2 t1 l002_line_keeps)).
    assert (L3 : split_nl t3 = l003_pass is_space 1 0 (split_nl t2)) by (apply l003_split_fix; lia).
    assert (L4 : split_nl t4 = map f10 (split_nl t3)) by (apply (split_per_line f10 t3 l010_line_keeps)).
    assert (L5 : split_nl u = map f7 (split_nl t4)) by (apply (split_per_line f7 t4 K7)).
    (* stage 1, 2 *)
    assert (A1 : Forall S1 (split_nl t2)).
    { rewrite L2, L1. apply Forall_forall. intros l Hl. apply in_map_iff in Hl. destruct Hl as (l1 & E1 & Hl1). subst.
      apply in_map_iff in Hl1. destruct Hl1 as (l0 & E0 & _). subst. apply f2_keeps_S1. apply f1_S1. }
    assert (A2 : Forall S2 (split_nl t2)).
    { rewrite L2. apply Forall_forall. intros l Hl. apply in_map_iff in Hl. destruct Hl as (l1 & E1 & _). subst. apply f2_S2. }
    (* stage 3 *)
    assert (B1 : Forall S1 (split_nl t3)) by (rewrite L3; apply Forall_forall; intros l Hl; apply pass_incl in Hl; rewrite Forall_forall in A1; apply A1; exact Hl).
    assert (B2 : Forall S2 (split_nl t3)) by (rewrite L3; apply Forall_forall; intros l Hl; apply pass_incl in Hl; rewrite Forall_forall in A2; apply A2; exact Hl).
    assert (B3 : bounded is_space 1 0 (split_nl t3) = true) by (rewrite L3; exact (pass_bounded is_space 1 (split_nl t2) 0%nat)).
    (* stage 4 *)
    pose proof (split_no_nl t3) as N3. pose proof (split_no_nl t4) as N4.
    assert (C1 : Forall S1 (split_nl t4)).
    { rewrite L4. apply Forall_forall. intros l Hl. apply in_map_iff in Hl. destruct Hl as (l1 & E1 & Hl1). subst.
      apply f10_keeps_S1. rewrite Forall_forall in B1. apply B1. exact Hl1. }
    assert (C2 : Forall S2 (split_nl t4)).
    { rewrite L4. apply Forall_forall. intros l Hl. apply in_map_iff in Hl. destruct Hl as (l1 & E1 & Hl1). subst.
      apply f10_keeps_S2. rewrite Forall_forall in B2. apply B2. exact Hl1. }
    assert (C3 : bounded is_space 1 0 (split_nl t4) = true).
    { rewrite <- B3. apply bounded_ext. rewrite L4. rewrite map_map. apply map_ext_in. intros l Hl. apply f10_blank.
      rewrite Forall_forall in N3. apply N3. exact Hl. }
    assert (C10 : Forall (fun l => f10 l = l) (split_nl t4)).
    { rewrite L4. apply Forall_forall. intros l Hl. apply in_map_iff in Hl. destruct Hl as (l1 & E1 & _). subst. apply l010_line_idem. }
    (* stage 5 *)
    assert (D1 : Forall (fun l => f1 l = l) (split_nl u)).
    { rewrite L5. apply Forall_forall. intros l Hl. apply in_map_iff in Hl. destruct Hl as (l1 & E1 & Hl1). subst.
      apply S1_fixed. apply f7_keeps_S1. rewrite Forall_forall in C1. apply C1. exact Hl1. }
    assert (D2 : Forall (fun l => f2 l = l) (split_nl u)).
    { rewrite L5. apply Forall_forall. intros l Hl. apply in_map_iff in Hl. destruct Hl as (l1 & E1 & Hl1). subst.
      apply S2_fixed. apply f7_keeps_S2. rewrite Forall_forall in C2. apply C2. exact Hl1. }
    assert (D3 : bounded is_space 1 0 (split_nl u) = true).
    { rewrite <- C3. apply bounded_ext. rewrite L5. rewrite map_map. apply map_ext_in. intros l Hl. apply f7_blank.
      rewrite Forall_forall in N4. apply N4. exact Hl. }
    assert (D10 : Forall (fun l => f10 l = l) (split_nl u)).
    { rewrite L5. apply Forall_forall. intros l Hl. apply in_map_iff in Hl. destruct Hl as (l1 & E1 & Hl1). subst.
      apply f7_keeps_S10. rewrite Forall_forall in C10. apply C10. exact Hl1. }
    assert (D7 : Forall (fun l => f7 l = l) (split_nl u)).
    { rewrite L5. apply Forall_forall. intros l Hl. apply in_map_iff in Hl. destruct Hl as (l1 & E1 & _). subst.
      apply (l007_line_idem is_letter is_digit upper_ascii keywords up_letter up_noquote up_idem nl45 nd45 up_nobt). }
    (* the output is a fixed point of every stage *)
    assert (E1 : F1 u = u) by (apply (per_line_fixed f1 u D1)).
    rewrite E1.
    assert (E2 : F2 u = u) by (apply (per_line_fixed f2 u D2)).
    rewrite E2. rewrite (F3_fixed u D3).
    assert (E10 : F10 u = u) by (apply (per_line_fixed f10 u D10)).
    rewrite E10. apply (per_line_fixed f7 u D7).
  Qed.
End Pipeline.

(* ------------------------------------------------------------------------------------------------ *)
(* L007: re-lint after fix *)

Section L007Clears.
  Variables is_letter is_digit : N -> bool.
  Variable upper_ascii : N -> option N.
  Variable keywords : list (list N).
  Hypothesis up_letter : forall x u, upper_ascii x = Some u -> is_letter u = true.
  Hypothesis up_noquote : forall x u, upper_ascii x = Some u -> u <> 39 /\ u <> 34 /\ u <> 10.
  Hypothesis up_idem : forall x u, upper_ascii x = Some u -> upper_ascii u = Some u.
  Hypothesis nl45 : is_letter 45 = false.
  Hypothesis nd45 : is_digit 45 = false.
  Hypothesis up_nobt : forall x u, upper_ascii x = Some u -> u <> 96.

  Notation word_start := (word_start is_letter).
  Notation word_char := (word_char is_letter is_digit).
  Notation kw_of := (kw_of upper_ascii keywords).
  Notation conv_word := (conv_word upper_ascii keywords).
  Notation word_viol := (word_viol upper_ascii keywords).
  Notation scan := (l007_scan is_letter is_digit upper_ascii keywords).
  Notation sN := (scan None None).
  Notation sQ k := (scan (Some k) None).
  Notation words := (l007_words is_letter is_digit).
  Notation wc := (wc is_letter is_digit).
  Notation stops := (stops is_letter is_digit).

  (* every word found satisfies P *)
  Definition allw (P : list ch -> Prop) (ws : list (nat * list ch)) : Prop := forall p, In p ws -> P (snd p).

  Lemma wN_quote : forall i c t, is_quote c = true -> words None i None (c :: t) = words (Some (cp c)) (i + width c) None t.
  Proof. intros i c t H. cbn [l007_words]. rewrite (cstart_quote c t H). rewrite H. reflexivity. Qed.
  Lemma wN_other : forall i c t, cstart c t = false -> is_quote c = false -> word_start c = false -> words None i None (c :: t) = words None (i + width c) None t.
  Proof. intros i c t H0 H1 H2. cbn [l007_words]. rewrite H0, H1, H2. reflexivity. Qed.
  Lemma wN_comment : forall i c t, cstart c t = true -> words None i None (c :: t) = [].
  Proof. intros i c t H. cbn [l007_words]. rewrite H. reflexivity. Qed.
  Lemma wQ_cons : forall k i c t, words (Some k) i None (c :: t) = words (if cp c =? k then None else Some k) (i + width c) None t.
  Proof. reflexivity. Qed.

  Lemma absorbW : forall t i s w, exists i',
    words None i (Some (s, w)) t = words None i' (Some (s, rev (map wr (take_l wc t)) ++ w)) (trim_l wc t).
  Proof.
    induction t as [|c t IH]; intros i s w; [exists i; reflexivity|].
    cbn [take_l trim_l]. destruct (wc c) eqn:E; [|exists i; reflexivity].
    unfold wc in E. apply andb_prop in E. destruct E as [E1 E2]. apply negb_true_iff in E1.
    cbn [l007_words]. rewrite (wch_not45 is_letter is_digit nl45 nd45 c t E2). rewrite E1.
    assert (C : word_start c || true && is_digit (cp c) = true) by exact E2. rewrite C.
    destruct (IH (i + width c)%nat s (wr c :: w)) as (i' & E). exists i'. rewrite E. cbn [map rev]. rewrite <- app_assoc. reflexivity.
  Qed.

  Lemma boundaryW : forall i s w r, stops r -> words None i (Some (s, w)) r = (S s, rev w) :: words None i None r.
  Proof.
    intros i s w r [H|(d & r' & H & Hd)]; subst; [reflexivity|].
    cbn [l007_words]. destruct (cstart d r'); [reflexivity|]. destruct (is_quote d) eqn:Eq; [reflexivity|].
    unfold wc in Hd. rewrite Eq in Hd. cbn [negb andb] in Hd.
    unfold Lint.word_char in Hd. apply orb_false_elim in Hd. destruct Hd as [H1 H2].
    rewrite H1, H2. cbn [orb andb]. reflexivity.
  Qed.

  Lemma wN_word : forall i c t, is_quote c = false -> word_start c = true -> exists i',
    words None i None (c :: t) = (S i, map wr (c :: take_l wc t)) :: words None i' None (trim_l wc t).
  Proof.
    intros i c t H1 H2. cbn [l007_words]. rewrite (ws_not45 is_letter nl45 c t H2). rewrite H1, H2. cbn [orb].
    destruct (absorbW t (i + width c)%nat i [wr c]) as (i' & E). exists i'. rewrite E.
    rewrite boundaryW by apply trim_l_stops. rewrite rev_app_distr. rewrite rev_involutive. reflexivity.
  Qed.

  Lemma wN_word_app : forall i c v x, is_quote c = false -> word_start c = true -> forallb wc v = true -> stops x -> exists i',
    words None i None (c :: v ++ x) = (S i, map wr (c :: v)) :: words None i' None x.
  Proof.
    intros i c v x H1 H2 Hv Hx. destruct (wN_word i c (v ++ x) H1 H2) as (i' & E). exists i'. rewrite E.
    assert (E1 : take_l wc (v ++ x) = v).
    { rewrite take_l_app_all by exact Hv. destruct Hx as [Hx|(d & r & Hx & Hd)]; subst; [rewrite app_nil_r; reflexivity|].
      rewrite take_l_stop by exact Hd. rewrite app_nil_r. reflexivity. }
    assert (E2 : trim_l wc (v ++ x) = x).
    { rewrite trim_l_app_all by exact Hv. destruct Hx as [Hx|(d & r & Hx & Hd)]; subst; [reflexivity|].
      apply trim_l_stop. exact Hd. }
    rewrite E1, E2. reflexivity.
  Qed.

  Lemma list_eqb_refl : forall u, list_eqb u u = true.
  Proof.
    intro u. unfold list_eqb. rewrite Nat.eqb_refl. cbn [andb]. induction u as [|a u IH]; [reflexivity|].
    cbn. rewrite N.eqb_refl. exact IH.
  Qed.

  Lemma encode_asc : forall u, encode (map asc u) = u.
  Proof. induction u as [|a u IH]; [reflexivity|]. unfold encode in *. cbn. f_equal. exact IH. Qed.

  (* a converted word is not a violation *)
  Lemma conv_no_viol : forall w, word_viol (map wr (conv_word (map wr w))) = false.
  Proof.
    intro w. unfold Lint.conv_word. rewrite (kw_of_wr upper_ascii keywords). destruct (kw_of w) as [u|] eqn:E.
    - rewrite map_wr_asc. unfold Lint.word_viol. rewrite (kw_of_conv upper_ascii keywords up_idem w u E).
      rewrite encode_asc. rewrite list_eqb_refl. reflexivity.
    - rewrite map_wr_wr. unfold Lint.word_viol. rewrite (kw_of_wr upper_ascii keywords), E. reflexivity.
  Qed.

  Definition clean (ws : list (nat * list ch)) : Prop := allw (fun w => word_viol w = false) ws.

  Lemma clean_nil : clean []. Proof. intros p []. Qed.
  Lemma clean_cons : forall s w ws, word_viol w = false -> clean ws -> clean ((s, w) :: ws).
  Proof. intros s w ws H Hc p [Hp|Hp]; [subst; exact H|apply Hc; exact Hp]. Qed.

  Lemma words_clean_n : forall n l, (length l <= n)%nat ->
    (forall i, clean (words None i None (sN l))) /\ (forall k i, clean (words (Some k) i None (sQ k l))).
  Proof.
    induction n as [|n IH]; intros l Hl.
    - destruct l; [split; intros; apply clean_nil|cbn in Hl; lia].
    - destruct l as [|c t]; [split; intros; apply clean_nil|]. cbn [length] in Hl.
      assert (Ht : (length t <= n)%nat) by lia. destruct (IH t Ht) as [IHn IHq]. split.
      + intro i. destruct (cstart c t) eqn:Ecs.
        { rewrite (sN_comment is_letter is_digit upper_ascii keywords) by exact Ecs. rewrite wN_comment by exact Ecs. apply clean_nil. }
        destruct (is_quote c) eqn:Eq.
        * rewrite (sN_quote is_letter is_digit upper_ascii keywords) by exact Eq. rewrite wN_quote by (rewrite is_quote_wr; exact Eq).
          rewrite cp_wr. apply IHq.
        * destruct (word_start c) eqn:Ew.
          -- rewrite (sN_word is_letter is_digit upper_ascii keywords nl45 nd45) by assumption.
             pose proof (take_l_all wc t) as Hv.
             destruct (conv_shape is_letter is_digit upper_ascii keywords up_letter up_noquote up_nobt c (take_l wc t) Eq Ew Hv) as (c' & v' & Ec & Q' & W' & V').
             rewrite Ec. change ((c' :: v') ++ sN (trim_l wc t)) with (c' :: v' ++ sN (trim_l wc t)).
             destruct (wN_word_app i c' v' (sN (trim_l wc t)) Q' W' V') as (i' & E);
               [apply (sN_stops is_letter is_digit upper_ascii keywords); apply trim_l_stops|].
             rewrite E. apply clean_cons.
             ++ rewrite <- Ec. apply conv_no_viol.
             ++ assert (Hr : (length (trim_l wc t) <= n)%nat).
                { pose proof (take_trim_l wc t) as E0. apply (f_equal (@length ch)) in E0. rewrite app_length in E0. lia. }
                destruct (IH _ Hr) as [IHr _]. apply IHr.
          -- rewrite (sN_other is_letter is_digit upper_ascii keywords) by assumption.
             assert (Ecw : cstart (wr c) (sN t) = false).
             { rewrite cstart_wr. rewrite (cstart_next c (sN t) t (next_is_sN is_letter is_digit upper_ascii keywords up_letter up_noquote nl45 nd45 up_nobt t)). exact Ecs. }
             rewrite wN_other by (rewrite ?is_quote_wr, ?(word_start_wr is_letter); assumption). apply IHn.
      + intros k i. rewrite (sQ_cons is_letter is_digit upper_ascii keywords). rewrite wQ_cons. rewrite cp_wr.
        destruct (cp c =? k); [apply IHn|apply IHq].
  Qed.

  Lemma l007_line_clears : forall n l,
    l007_check_line is_letter is_digit upper_ascii keywords n (l007_fix_line is_letter is_digit upper_ascii keywords l) = [].
  Proof.
    intros n l. unfold l007_check_line, l007_fix_line.
    destruct (words_clean_n (length l) l (le_n _)) as [H _]. specialize (H 0%nat).
    induction (words None 0%nat None (sN l)) as [|p ws IHw]; [reflexivity|].
    cbn [flat_map]. rewrite (H p (or_introl eq_refl)). cbn [app]. apply IHw. intros q Hq. apply H. right. exact Hq.
  Qed.

  Theorem l007_fix_clears : forall t,
    l007_check is_letter is_digit upper_ascii keywords (l007_fix is_letter is_digit upper_ascii keywords t) = [].
  Proof.
    intro t. unfold l007_check, l007_fix.
    change (join_nl (map (l007_fix_line is_letter is_digit upper_ascii keywords) (split_nl t)))
      with (per_line (l007_fix_line is_letter is_digit upper_ascii keywords) t).
    rewrite split_per_line by (apply (l007_line_keeps is_letter is_digit upper_ascii keywords up_noquote)).
    apply on_lines_nil. intros n l Hl. apply in_map_iff in Hl. destruct Hl as (l0 & E & _). subst. apply l007_line_clears.
  Qed.
End L007Clears.

(* ------------------------------------------------------------------------------------------------ *)
(* L002, L003: exact flagging; locations *)

Lemma ikind_cases : forall l, ikind l = 0 \/ ikind l = 1 \/ ikind l = 2 \/ ikind l = 3.
Proof.
  intro l. unfold ikind. destruct (leading_ws l); [auto|].
  destruct (existsb is_tab (c :: l0) && existsb is_sp (c :: l0)); [auto|]. destruct (existsb is_tab (c :: l0)); auto.
Qed.

Lemma eff_cons_skip : forall first l pre, (ikind l = 0 \/ ikind l = 3) -> eff first (l :: pre) = eff first pre.
Proof. intros first l pre H. unfold eff. cbn [map first_pure]. destruct H as [H|H]; rewrite H; reflexivity. Qed.

Lemma eff_cons_pure : forall first l pre, (ikind l = 1 \/ ikind l = 2) ->
  eff first (l :: pre) = if first =? 0 then ikind l else first.
Proof. intros first l pre H. unfold eff. cbn [map first_pure]. destruct H as [H|H]; rewrite H; reflexivity. Qed.

Lemma eff_nz : forall first pre, first <> 0 -> eff first pre = first.
Proof. intros first pre H. unfold eff. apply N.eqb_neq in H. rewrite H. reflexivity. Qed.

Lemma l002_step : forall first l, exists first' (fl : bool),
  (forall k r, l002_check_lines first k (l :: r) = (if fl then [(k, 1%nat)] else []) ++ l002_check_lines first' (S k) r) /\
  (fl = true <-> l002_defect first [] l) /\
  (forall pre, eff first' pre = eff first (l :: pre)).
Proof.
  intros first l. unfold l002_defect. pose proof (ikind_cases l) as K. unfold ikind in *.
  destruct (leading_ws l) as [|c lw] eqn:El.
  - exists first, false. split; [intros k r; cbn [l002_check_lines]; rewrite El; reflexivity|]. split.
    + split; [discriminate|]. intros [H|([H|H] & _)]; discriminate.
    + intro pre. symmetry. apply eff_cons_skip. left. unfold ikind. rewrite El. reflexivity.
  - set (ht := existsb is_tab (c :: lw)) in *. set (hs := existsb is_sp (c :: lw)) in *.
    destruct (ht && hs) eqn:Em.
    + exists first, true. split; [intros k r; cbn [l002_check_lines]; rewrite El; fold ht hs; rewrite Em; reflexivity|]. split.
      * split; [intros _; left; reflexivity|reflexivity].
      * intro pre. symmetry. apply eff_cons_skip. right. unfold ikind. rewrite El. fold ht hs. rewrite Em. reflexivity.
    + set (cur := if ht then 1 else 2).
      assert (Kc : (if ht then 1 else 2) = cur) by reflexivity.
      assert (Ec : forall pre, eff first (l :: pre) = if first =? 0 then cur else first).
      { intro pre. rewrite eff_cons_pure; [unfold ikind; rewrite El; fold ht hs; rewrite Em; reflexivity|].
        unfold ikind. rewrite El. fold ht hs. rewrite Em. destruct ht; auto. }
      assert (Cnz : cur <> 0) by (unfold cur; destruct ht; discriminate).
      assert (Cpure : cur = 1 \/ cur = 2) by (unfold cur; destruct ht; auto).
      destruct (first =? 0) eqn:E0.
      * exists cur, false. split; [intros k r; cbn [l002_check_lines]; rewrite El; fold ht hs; rewrite Em; fold cur; rewrite E0; reflexivity|]. split.
        -- split; [discriminate|]. intros [H|(_ & H & _)]; [try rewrite Kc in H; destruct Cpure as [C|C]; rewrite C in H; discriminate|].
           exfalso. apply H. unfold eff. rewrite E0. reflexivity.
        -- intro pre. rewrite Ec. apply eff_nz. exact Cnz.
      * apply N.eqb_neq in E0. destruct (first =? cur) eqn:E1.
        -- exists first, false. split; [intros k r; cbn [l002_check_lines]; rewrite El; fold ht hs; rewrite Em; fold cur;
             replace (first =? 0) with false by (symmetry; apply N.eqb_neq; exact E0); rewrite E1; reflexivity|]. split.
           ++ split; [discriminate|]. intros [H|(_ & _ & H)]; [try rewrite Kc in H; destruct Cpure as [C|C]; rewrite C in H; discriminate|].
              exfalso. apply H. rewrite eff_nz by exact E0. try rewrite Kc. apply N.eqb_eq. exact E1.
           ++ intro pre. rewrite Ec. rewrite !eff_nz by exact E0. replace (first =? 0) with false by (symmetry; apply N.eqb_neq; exact E0). reflexivity.
        -- exists first, true. split; [intros k r; cbn [l002_check_lines]; rewrite El; fold ht hs; rewrite Em; fold cur;
             replace (first =? 0) with false by (symmetry; apply N.eqb_neq; exact E0); rewrite E1; reflexivity|]. split.
           ++ split; [intros _|reflexivity]. right. try rewrite Kc. split; [exact Cpure|]. rewrite eff_nz by exact E0. split; [exact E0|].
              apply N.eqb_neq. exact E1.
           ++ intro pre. rewrite Ec. rewrite !eff_nz by exact E0. replace (first =? 0) with false by (symmetry; apply N.eqb_neq; exact E0). reflexivity.
Qed.

Lemma l002_defect_shift : forall first first' l0 pre l, (forall p, eff first' p = eff first (l0 :: p)) ->
  (l002_defect first' pre l <-> l002_defect first (l0 :: pre) l).
Proof. intros first first' l0 pre l H. unfold l002_defect. rewrite H. tauto. Qed.

Lemma l002_lines_exact : forall ls first k n col,
  In (n, col) (l002_check_lines first k ls) <->
  col = 1%nat /\ exists i l, nth_error ls i = Some l /\ n = (k + i)%nat /\ l002_defect first (firstn i ls) l.
Proof.
  induction ls as [|l0 r IH]; intros first k n col.
  - cbn. split; [intros []|]. intros (_ & i & l & H & _). destruct i; discriminate.
  - destruct (l002_step first l0) as (first' & fl & Hs & Hf & He). rewrite Hs. rewrite in_app_iff. rewrite IH. split.
    + intros [H|(Hc & i & l & Hn & En & Hd)].
      * destruct fl; [|destruct H]. destruct H as [H|[]]. inversion H; subst. split; [reflexivity|].
        exists 0%nat, l0. split; [reflexivity|]. split; [lia|]. cbn [firstn]. apply Hf. reflexivity.
      * split; [exact Hc|]. exists (S i), l. split; [exact Hn|]. split; [lia|]. cbn [firstn].
        apply (l002_defect_shift first first' l0 _ l He). exact Hd.
    + intros (Hc & i & l & Hn & En & Hd). destruct i as [|i].
      * cbn in Hn. inversion Hn; subst. cbn [firstn] in Hd. apply Hf in Hd. subst fl. left. left. f_equal. lia.
      * right. split; [exact Hc|]. exists i, l. split; [exact Hn|]. split; [lia|]. cbn [firstn] in Hd.
        apply (l002_defect_shift first first' l0 _ l He). exact Hd.
Qed.

Theorem l002_check_exact : forall t n col,
  In (n, col) (l002_check t) <->
  col = 1%nat /\ (1 <= n)%nat /\ exists l, nth_error (split_nl t) (n - 1) = Some l /\ l002_defect 0 (firstn (n - 1) (split_nl t)) l.
Proof.
  intros t n col. unfold l002_check. rewrite l002_lines_exact. split.
  - intros (Hc & i & l & Hn & En & Hd). subst n. replace (1 + i - 1)%nat with i by lia. split; [exact Hc|]. split; [lia|]. exists l. split; assumption.
  - intros (Hc & H1 & l & Hn & Hd). split; [exact Hc|]. exists (n - 1)%nat, l. split; [exact Hn|]. split; [lia|exact Hd].
Qed.

Section L003Exact.
  Variable is_space : N -> bool.
  Notation blank := (blank_line is_space).

  Notation run_from := (run_from is_space).
  Notation startsG := (startsG is_space).

  Lemma run_cons_blank : forall l r, blank l = true -> run_from (l :: r) 0 = S (run_from r 0).
  Proof. intros l r H. unfold Lint.run_from. cbn [skipn take_l]. rewrite H. reflexivity. Qed.
  Lemma run_cons_nb : forall l r, blank l = false -> run_from (l :: r) 0 = 0%nat.
  Proof. intros l r H. unfold Lint.run_from. cbn [skipn take_l]. rewrite H. reflexivity. Qed.
  Lemma run_S : forall l r i, run_from (l :: r) (S i) = run_from r i.
  Proof. reflexivity. Qed.
  Lemma run_nil : forall i, run_from [] i = 0%nat.
  Proof. intros [|i]; reflexivity. Qed.

  Lemma startsG_shift : forall cnt c' l r i, startsG c' r (S i) <-> startsG cnt (l :: r) (S (S i)).
  Proof. intros. unfold Lint.startsG. cbn [nth_error]. tauto. Qed.

  Lemma l003_lines_exact : forall mx ls cnt start k n col,
    In (n, col) (l003_check_lines is_space mx cnt start k ls) <->
    col = 1%nat /\ ((0 < cnt /\ n = start /\ mx < cnt + run_from ls 0)%nat \/
                    (exists i, n = (k + i)%nat /\ startsG cnt ls i /\ (mx < run_from ls i)%nat)).
  Proof.
    intros mx. induction ls as [|l r IH]; intros cnt start k n col.
    - cbn [l003_check_lines]. rewrite run_nil. split.
      + destruct (mx <? cnt)%nat eqn:E; [|intros []]. intros [H|[]]. inversion H; subst. apply Nat.ltb_lt in E.
        split; [reflexivity|]. left. lia.
      + intros (Hc & [(H1 & H2 & H3)|(i & _ & ((l & Hl & _) & _) & _)]); [|destruct i; discriminate].
        replace (mx <? cnt)%nat with true by (symmetry; apply Nat.ltb_lt; lia). left. subst. reflexivity.
    - cbn [l003_check_lines]. destruct (blank l) eqn:Eb.
      + rewrite IH. rewrite (run_cons_blank l r Eb).
        split; intros (Hc & H); (split; [exact Hc|]).
        * destruct H as [(H1 & H2 & H3)|(i & H1 & H2 & H3)].
          -- destruct (cnt =? 0)%nat eqn:Ec.
             ++ apply Nat.eqb_eq in Ec. subst cnt. right. exists 0%nat. split; [lia|]. split.
                ** split; [exists l; split; [reflexivity|exact Eb]|reflexivity].
                ** rewrite (run_cons_blank l r Eb). lia.
             ++ apply Nat.eqb_neq in Ec. left. lia.
          -- right. exists (S i). split; [lia|]. split.
             ++ destruct i as [|j]; [destruct H2 as (_ & H2); discriminate|]. apply (startsG_shift cnt (S cnt) l r j). exact H2.
             ++ rewrite run_S. exact H3.
        * destruct H as [(H1 & H2 & H3)|(i & H1 & H2 & H3)].
          -- left. destruct (cnt =? 0)%nat eqn:Ec; [apply Nat.eqb_eq in Ec; lia|]. lia.
          -- destruct i as [|[|j]].
             ++ destruct H2 as (_ & H2). subst cnt. left. cbn [Nat.eqb]. rewrite (run_cons_blank l r Eb) in H3. lia.
             ++ destruct H2 as (_ & (p & Hp & Hb)). cbn in Hp. inversion Hp; subst. congruence.
             ++ right. exists (S j). split; [lia|]. split; [apply (startsG_shift cnt (S cnt) l r j); exact H2|].
                rewrite run_S in H3. exact H3.
      + rewrite in_app_iff. rewrite IH. rewrite (run_cons_nb l r Eb).
        split.
        * intros [H|(Hc & H)].
          -- destruct (mx <? cnt)%nat eqn:E; [|destruct H]. destruct H as [H|[]]. inversion H; subst. apply Nat.ltb_lt in E.
             split; [reflexivity|]. left. lia.
          -- split; [exact Hc|]. destruct H as [(H1 & _)|(i & H1 & H2 & H3)]; [lia|]. right. exists (S i). split; [lia|]. split.
             ++ destruct i as [|j].
                ** destruct H2 as (H2 & _). split; [exact H2|]. exists l. split; [reflexivity|exact Eb].
                ** apply (startsG_shift cnt 0%nat l r j). exact H2.
             ++ rewrite run_S. exact H3.
        * intros (Hc & [(H1 & H2 & H3)|(i & H1 & H2 & H3)]).
          -- left. replace (mx <? cnt)%nat with true by (symmetry; apply Nat.ltb_lt; lia). left. subst. reflexivity.
          -- right. split; [exact Hc|]. right. destruct i as [|[|j]].
             ++ destruct H2 as ((l' & Hl & Hb) & _). cbn in Hl. inversion Hl; subst. congruence.
             ++ exists 0%nat. split; [lia|]. split; [destruct H2 as (H2 & _); split; [exact H2|reflexivity]|].
                rewrite run_S in H3. exact H3.
             ++ exists (S j). split; [lia|]. split; [apply (startsG_shift cnt 0%nat l r j); exact H2|].
                rewrite run_S in H3. exact H3.
  Qed.

  (* the defect L003 names: line n starts a run of more than mx consecutive blank lines *)
  Theorem l003_check_exact : forall mx t n col,
    In (n, col) (l003_check_mx is_space mx t) <->
    col = 1%nat /\ (1 <= n)%nat /\ startsG 0 (split_nl t) (n - 1) /\ (mx < run_from (split_nl t) (n - 1))%nat.
  Proof.
    intros mx t n col. unfold l003_check_mx. rewrite l003_lines_exact. split.
    - intros (Hc & [(H1 & _)|(i & H1 & H2 & H3)]); [lia|]. subst n. replace (1 + i - 1)%nat with i by lia. repeat split; try assumption; try lia; apply H2.
    - intros (Hc & H1 & H2 & H3). split; [exact Hc|]. right. exists (n - 1)%nat. split; [lia|]. split; assumption.
  Qed.
End L003Exact.

(* ---------------- locations: every reported line exists ---------------- *)

Lemma on_lines_line : forall f ls k n col, In (n, col) (on_lines f k ls) -> (forall m l v, In v (f m l) -> fst v = m) ->
  (k <= n < k + length ls)%nat.
Proof.
  intros f ls k n col H Hf. apply on_lines_in in H. destruct H as (i & l & Hn & Hin).
  apply Hf in Hin. cbn [fst] in Hin. subst. assert (i < length ls)%nat by (apply nth_error_Some; congruence). lia.
Qed.

Lemma l002_lines_loc : forall ls first k n col, In (n, col) (l002_check_lines first k ls) ->
  (k <= n < k + length ls)%nat /\ col = 1%nat /\ exists l, nth_error ls (n - k) = Some l /\ leading_ws l <> [].
Proof.
  induction ls as [|l r IH]; intros first k n col H; [destruct H|]. cbn [l002_check_lines] in H.
  assert (G : forall f', In (n, col) (l002_check_lines f' (S k) r) ->
              (k <= n < k + length (l :: r))%nat /\ col = 1%nat /\ exists l0, nth_error (l :: r) (n - k) = Some l0 /\ leading_ws l0 <> []).
  { intros f' Hr. destruct (IH _ _ _ _ Hr) as (A & B & l0 & C & D). cbn [length]. split; [lia|]. split; [exact B|].
    exists l0. split; [|exact D]. replace (n - k)%nat with (S (n - S k)) by lia. exact C. }
  assert (Here : (n, col) = (k, 1%nat) -> leading_ws l <> [] ->
              (k <= n < k + length (l :: r))%nat /\ col = 1%nat /\ exists l0, nth_error (l :: r) (n - k) = Some l0 /\ leading_ws l0 <> []).
  { intros E Hne. inversion E; subst. cbn [length]. split; [lia|]. split; [reflexivity|]. exists l. rewrite Nat.sub_diag. split; [reflexivity|exact Hne]. }
  destruct (leading_ws l) as [|c lw] eqn:El; [apply (G _ H)|].
  destruct (existsb is_tab (c :: lw) && existsb is_sp (c :: lw)).
  - destruct H as [H|H]; [apply Here; [symmetry; exact H|discriminate]|apply (G _ H)].
  - destruct (first =? 0); [apply (G _ H)|]. destruct (first =? (if existsb is_tab (c :: lw) then 1 else 2)); [apply (G _ H)|].
    destruct H as [H|H]; [apply Here; [symmetry; exact H|discriminate]|apply (G _ H)].
Qed.

Lemma l003_lines_loc : forall is_space mx ls cnt start k n col,
  In (n, col) (l003_check_lines is_space mx cnt start k ls) -> (cnt = 0%nat \/ (start + cnt = k)%nat) ->
  col = 1%nat /\ ((cnt <> 0%nat /\ n = start) \/ (k <= n < k + length ls)%nat).
Proof.
  intros is_space mx. induction ls as [|l r IH]; intros cnt start k n col H Hinv.
  - cbn [l003_check_lines] in H. destruct (mx <? cnt)%nat eqn:E; [|destruct H]. destruct H as [H|[]]. inversion H; subst.
    split; [reflexivity|]. left. split; [|reflexivity]. apply Nat.ltb_lt in E. lia.
  - cbn [l003_check_lines] in H. destruct (blank_line is_space l).
    + destruct (cnt =? 0)%nat eqn:Ec.
      * apply Nat.eqb_eq in Ec. subst cnt. destruct (IH _ _ _ _ _ H) as (A & B); [right; lia|]. split; [exact A|].
        right. cbn [length]. destruct B as [(B1 & B2)|B]; lia.
      * apply Nat.eqb_neq in Ec. destruct (IH _ _ _ _ _ H) as (A & B); [right; lia|]. split; [exact A|].
        destruct B as [(B1 & B2)|B]; [left; split; [exact Ec|exact B2]|right; cbn [length]; lia].
    + apply in_app_or in H. destruct H as [H|H].
      * destruct (mx <? cnt)%nat eqn:E; [|destruct H]. destruct H as [H|[]]. inversion H; subst.
        split; [reflexivity|]. left. split; [|reflexivity]. apply Nat.ltb_lt in E. lia.
      * destruct (IH _ _ _ _ _ H) as (A & B); [left; reflexivity|]. split; [exact A|]. right. cbn [length].
        destruct B as [(B1 & B2)|B]; [contradiction|lia].
Qed.

Section Loc.
  Variables is_letter is_digit is_space : N -> bool.
  Variable upper_ascii : N -> option N.
  Variable keywords : list (list N).

  Theorem l002_location : forall t n col, In (n, col) (l002_check t) ->
    (1 <= n <= length (split_nl t))%nat /\ col = 1%nat /\ exists l, nth_error (split_nl t) (n - 1) = Some l /\ l <> [].
  Proof.
    intros t n col H. unfold l002_check in H. destruct (l002_lines_loc _ _ _ _ _ H) as (A & B & l & C & D).
    split; [lia|]. split; [exact B|]. exists l. split; [exact C|]. intro E. subst. apply D. reflexivity.
  Qed.

  Theorem l003_location : forall mx t n col, In (n, col) (l003_check_mx is_space mx t) ->
    (1 <= n <= length (split_nl t))%nat /\ col = 1%nat.
  Proof.
    intros mx t n col H. unfold l003_check_mx in H. destruct (l003_lines_loc _ _ _ _ _ _ _ _ H (or_introl eq_refl)) as (A & B).
    split; [|exact A]. destruct B as [(B1 & _)|B]; [contradiction|lia].
  Qed.

End Loc.

(* ------------------------------------------------------------------------------------------------ *)
(* ---------------- byte level, for texts made of ASCII bytes ---------------- *)
Definition ascc (c : ch) : Prop := exists b, b < 128 /\ c = asc b.
Definition ascl (l : list ch) : Prop := forall c, In c l -> ascc c.

Lemma decode_go_ascii : forall s, ascii_bytes s = true -> decode_go 0 s = map asc s.
Proof.
  induction s as [|b t IH]; intro H; [reflexivity|]. cbn in H. apply andb_prop in H. destruct H as [H1 H2].
  cbn [decode_go dec1]. rewrite H1. cbn [asc raw length Nat.sub map]. f_equal. apply IH. exact H2.
Qed.

Lemma decode_ascii : forall s, ascii_bytes s = true -> decode s = map asc s.
Proof. exact decode_go_ascii. Qed.

Lemma ascl_map_asc : forall s, ascii_bytes s = true -> ascl (map asc s).
Proof.
  intros s H c Hc. apply in_map_iff in Hc. destruct Hc as (b & E & Hb). subst. exists b. split; [|reflexivity].
  unfold ascii_bytes in H. rewrite forallb_forall in H. apply N.ltb_lt. apply H. exact Hb.
Qed.

Lemma encode_ascl : forall l, ascl l -> ascii_bytes (encode l) = true /\ map asc (encode l) = l.
Proof.
  induction l as [|c t IH]; intro H; [split; reflexivity|].
  destruct (H c (or_introl eq_refl)) as (b & Hb & E). subst c.
  destruct IH as [I1 I2]; [intros x Hx; apply H; right; exact Hx|].
  unfold encode in *. cbn [flat_map asc raw app]. cbn [ascii_bytes forallb map]. split.
  - apply andb_true_intro. split; [apply N.ltb_lt; exact Hb|exact I1].
  - f_equal. exact I2.
Qed.

Lemma decode_encode_ascl : forall l, ascl l -> decode (encode l) = l.
Proof. intros l H. destruct (encode_ascl l H) as [H1 H2]. rewrite decode_ascii by exact H1. exact H2. Qed.


Lemma onbytes_idem : forall f, (forall l, ascl l -> ascl (f l)) -> (forall t, f (f t) = f t) ->
  forall s, ascii_bytes s = true -> onbytes f (onbytes f s) = onbytes f s.
Proof.
  intros f Hk Hi s Hs. unfold onbytes. rewrite (decode_ascii s Hs).
  rewrite decode_encode_ascl by (apply Hk; apply ascl_map_asc; exact Hs). rewrite Hi. reflexivity.
Qed.

(* the fixers keep ASCII texts ASCII *)
Lemma ascl_nil : ascl [].
Proof. intros c []. Qed.
Lemma ascc_spc : ascc spc. Proof. exists 32. split; [reflexivity|reflexivity]. Qed.
Lemma ascc_nlc : ascc nlc. Proof. exists 10. split; [reflexivity|reflexivity]. Qed.
Lemma ascc_wr : forall c, ascc c -> wr c = c.
Proof. intros c (b & _ & E). subst. reflexivity. Qed.

Lemma ascl_split : forall t l, ascl t -> In l (split_nl t) -> ascl l.
Proof. intros t l H Hl c Hc. apply H. eapply split_incl; eassumption. Qed.

Lemma ascl_join : forall ls, (forall l, In l ls -> ascl l) -> ascl (join_nl ls).
Proof.
  induction ls as [|x r IH]; intro H; [intros c []|]. destruct r as [|y r].
  - cbn. apply H. left. reflexivity.
  - rewrite join_cons2. intros c Hc. apply in_app_or in Hc. destruct Hc as [Hc|[Hc|Hc]].
    + apply (H x (or_introl eq_refl)). exact Hc.
    + subst. apply ascc_nlc.
    + apply IH; [intros l Hl; apply H; right; exact Hl|exact Hc].
Qed.

Lemma ascl_per_line : forall f t, (forall l, ascl l -> ascl (f l)) -> ascl t -> ascl (per_line f t).
Proof.
  intros f t Hf Ht. unfold per_line. apply ascl_join. intros l Hl. apply in_map_iff in Hl. destruct Hl as (l0 & E & Hl0). subst.
  apply Hf. eapply ascl_split; eassumption.
Qed.

Lemma ascl_l001 : forall t, ascl t -> ascl (l001_fix t).
Proof.
  intros t H. rewrite l001_fix_per_line. apply ascl_per_line; [|exact H]. intros l Hl c Hc. apply Hl. eapply trim_r_incl. exact Hc.
Qed.

Lemma ascl_l002 : forall t, ascl t -> ascl (l002_fix t).
Proof.
  intros t H. change (l002_fix t) with (per_line l002_fix_line t). apply ascl_per_line; [|exact H]. intros l Hl c Hc.
  rewrite l002_line_shape in Hc. apply in_app_or in Hc. destruct Hc as [Hc|Hc].
  - apply in_flat_map in Hc. destruct Hc as (d & Hd & Hc). apply in_tab4 in Hc. destruct Hc as [Hc|Hc]; subst; [apply ascc_spc|].
    apply Hl. eapply take_l_incl. exact Hd.
  - apply Hl. eapply trim_l_incl. exact Hc.
Qed.

Lemma ascl_l003 : forall is_space t, ascl t -> ascl (l003_fix is_space t).
Proof.
  intros is_space t H. unfold l003_fix, l003_fix_mx. fold (l003_lines is_space 1 (split_nl t)). rewrite l003_lines_eq.
  apply ascl_join. intros l Hl. apply pass_incl in Hl. eapply ascl_split; eassumption.
Qed.

Lemma ascl_l010 : forall t, ascl t -> ascl (l010_fix t).
Proof.
  intros t H. change (l010_fix t) with (per_line l010_fix_line t). apply ascl_per_line; [|exact H]. intros l Hl c Hc.
  unfold l010_fix_line in Hc.
  assert (G : forall m, (forall y, In y m -> In y l) -> In c (l010_scan None false m) -> ascc c).
  { intros m Hm Hin. apply l010_scan_in in Hin. destruct Hin as (d & Hd & [E|E]); subst; [rewrite ascc_wr|]; apply Hl; apply Hm; exact Hd. }
  destruct (trim_l is_blank l) as [|d r] eqn:E.
  - eapply G; [|exact Hc]. auto.
  - apply in_app_or in Hc. destruct Hc as [Hc|Hc]; [apply Hl; eapply take_l_incl; exact Hc|].
    eapply G; [|exact Hc]. intros y Hy. eapply trim_l_incl. rewrite E. exact Hy.
Qed.

Section A7.
  Variables is_letter is_digit is_space : N -> bool.
  Variable upper_ascii : N -> option N.
  Variable keywords : list (list N).
  Hypothesis up_noquote : forall x u, upper_ascii x = Some u -> u <> 39 /\ u <> 34 /\ u <> 10.
  Hypothesis up_ascii : forall x u, upper_ascii x = Some u -> u < 128.

  Lemma ascl_l007 : forall t, ascl t -> ascl (l007_fix is_letter is_digit upper_ascii keywords t).
  Proof.
    intros t H. unfold l007_fix. apply (ascl_per_line (l007_fix_line is_letter is_digit upper_ascii keywords)); [|exact H].
    intros l Hl c Hc. unfold l007_fix_line in Hc. apply (l007_scan_in is_letter is_digit upper_ascii keywords) in Hc.
    destruct Hc as [(d & Hd & [E|E])|[(b & y & E & Hy)|(w & Hw & _)]]; [| |subst; exists b; split; [eapply up_ascii; exact Hy|reflexivity]|discriminate].
    - subst. rewrite ascc_wr; apply Hl; exact Hd.
    - subst. apply Hl. exact Hd.
  Qed.

  Lemma ascl_cli : forall t, ascl t -> ascl (cli_fix is_letter is_digit is_space upper_ascii keywords t).
  Proof. intros t H. unfold cli_fix. apply ascl_l007. apply ascl_l010. apply ascl_l003. apply ascl_l002. apply ascl_l001. exact H. Qed.

  Lemma ascl_fmt : forall ind ls cur, ascl ind -> ascl cur -> (forall l, In l ls -> ascl l) ->
    forall l, In l (fmt_lines is_space upper_ascii ind cur ls) -> ascl l.
  Proof.
    intros ind. induction ls as [|x r IH]; intros cur Hi Hc Hls l Hl; [destruct Hl|]. cbn [fmt_lines] in Hl.
    assert (Hr : forall l0, In l0 r -> ascl l0) by (intros l0 H0; apply Hls; right; exact H0).
    destruct (trim_space is_space x) as [|c tr] eqn:E; [eapply IH; eassumption|].
    assert (Hn : ascl (fmt_next_indent upper_ascii ind cur (c :: tr))).
    { unfold fmt_next_indent. destruct (existsb _ fmt_reset); [intros z []|]. destruct (existsb _ fmt_indent); [exact Hi|].
      destruct (existsb _ fmt_reset2); [intros z []|exact Hc]. }
    destruct Hl as [Hl|Hl]; [|eapply IH; [exact Hi|exact Hn|exact Hr|exact Hl]]. subst. intros z Hz. apply in_app_or in Hz. destruct Hz as [Hz|Hz].
    - apply Hn. exact Hz.
    - apply (Hls x (or_introl eq_refl)). rewrite <- E in Hz. unfold trim_space in Hz. apply trim_r_incl in Hz. apply trim_l_incl in Hz. exact Hz.
  Qed.

  Lemma ascl_format : forall tab spaces final t, ascl t -> ascl (format_sql is_space upper_ascii tab spaces final t).
  Proof.
    intros tab spaces final t H. unfold format_sql.
    set (ind := if spaces then repeat spc tab else [asc 9]).
    assert (Hi : ascl ind).
    { unfold ind. destruct spaces.
      - intros c Hc. apply repeat_spec in Hc. subst. apply ascc_spc.
      - intros c Hc. cbn in Hc. destruct Hc as [Hc|[]]. subst. exists 9. split; reflexivity. }
    set (f := join_nl (fmt_lines is_space upper_ascii ind [] (split_nl t))).
    assert (Hf : ascl f).
    { unfold f. apply ascl_join. intros l Hl. eapply ascl_fmt; [exact Hi|exact ascl_nil| |exact Hl]. intros l0 H0. exact (ascl_split t l0 H H0). }
    destruct (final && negb (ends_nl f)); [|exact Hf]. unfold ascl. intros c Hc. apply in_app_or in Hc. destruct Hc as [Hc|Hc]; [apply Hf; exact Hc|]. cbn in Hc. destruct Hc as [Hc|[]]. subst. apply ascc_nlc.
  Qed.
End A7.

(* ------------------------------------------------------------------------------------------------ *)
(* ---------------- L010: re-lint after fix ---------------- *)

(* does the fixer's scan drop a character of l ?  (a space that follows a space outside quotes) *)
Fixpoint dbl (q : option N) (ps : bool) (l : list ch) : bool :=
  match l with
  | [] => false
  | c :: t =>
      match q with
      | None => if cstart c t then false
                else if is_quote c then dbl (Some (cp c)) false t
                else if is_sp c then ps || dbl None true t else dbl None false t
      | Some k => dbl (if cp c =? k then None else Some k) ps t
      end
  end.

Lemma scan10_len10 : forall l q ps, (length (l010_scan q ps l) <= length l)%nat.
Proof.
  induction l as [|c t IH]; intros q ps; [cbn; lia|]. cbn [l010_scan]. destruct q as [k|]; [cbn [length]; specialize (IH (if cp c =? k then None else Some k) ps); lia|].
  destruct (cstart c t); [cbn [length]; lia|].
  destruct (is_quote c); [cbn [length]; specialize (IH (Some (cp c)) false); lia|]. destruct (is_sp c).
  - destruct ps; cbn [app length]; [specialize (IH None true); lia|specialize (IH None true); lia].
  - cbn [length]. specialize (IH None false). lia.
Qed.

Lemma stable_nodbl : forall l q ps, l010_scan q ps l = l -> dbl q ps l = false.
Proof.
  induction l as [|c t IH]; intros q ps E; [reflexivity|]. cbn [l010_scan dbl] in *. destruct q as [k|].
  - injection E as _ E2. apply IH. exact E2.
  - destruct (cstart c t); [reflexivity|].
    destruct (is_quote c); [injection E as _ E2; apply IH; exact E2|]. destruct (is_sp c).
    + destruct ps; cbn [app] in E.
      * exfalso. pose proof (scan10_len10 t None true) as L. rewrite E in L. cbn [length] in L. lia.
      * injection E as _ E2. cbn [orb]. apply IH. exact E2.
    + injection E as _ E2. apply IH. exact E2.
Qed.

(* ---- runs of spaces ---- *)
(* run counter after a text: 0 unless the text ends in spaces *)
Fixpoint run_after (run : nat) (l : list ch) : nat :=
  match l with [] => run | c :: t => if is_sp c then run_after (S run) t else run_after 0 t end.

Lemma sp_runs_snoc : forall a c off run rs,
  (is_sp c = true -> run_after run a = 0%nat) -> sp_runs off run rs (a ++ [c]) = sp_runs off run rs a.
Proof.
  induction a as [|d a IH]; intros c off run rs H.
  - cbn [app sp_runs run_after] in *. destruct (is_sp c) eqn:E.
    + rewrite (H eq_refl). cbn [Nat.leb Nat.eqb sp_runs]. reflexivity.
    + cbn [sp_runs Nat.leb]. rewrite app_nil_r. reflexivity.
  - cbn [app sp_runs run_after] in *. destruct (is_sp d).
    + apply IH. exact H.
    + f_equal. apply IH. exact H.
Qed.

Definition tailsp (cur : list ch) : bool := match cur with c :: _ => is_sp c | [] => false end.

Lemma run_after_snoc : forall a c run, run_after run (a ++ [c]) = if is_sp c then S (run_after run a) else 0%nat.
Proof. induction a as [|d a IH]; intros c run; cbn [app run_after]; [reflexivity|]. destruct (is_sp d); apply IH. Qed.

Lemma run_after_rev : forall cur, tailsp cur = false -> run_after 0 (rev cur) = 0%nat.
Proof.
  intros [|c cur] H; [reflexivity|]. cbn [rev]. rewrite run_after_snoc. cbn [tailsp] in H. rewrite H. reflexivity.
Qed.

(* a run of two or more spaces lies inside the text *)
Lemma sp_runs_bound : forall a off run rs m, (forall c, In c a -> (1 <= width c)%nat) -> (rs + run <= off)%nat ->
  In m (sp_runs off run rs a) -> (m + 2 <= off + blen a)%nat.
Proof.
  induction a as [|c t IH]; intros off run rs m Hw Hinv H.
  - cbn [sp_runs] in H. destruct (2 <=? run)%nat eqn:E; [|destruct H]. destruct H as [H|[]]. subst. apply Nat.leb_le in E. cbn [blen fold_right]. lia.
  - rewrite blen_cons. assert (W : (1 <= width c)%nat) by (apply Hw; left; reflexivity).
    assert (Ht : forall d, In d t -> (1 <= width d)%nat) by (intros d Hd; apply Hw; right; exact Hd).
    cbn [sp_runs] in H. destruct (is_sp c).
    + assert (G := IH (off + width c)%nat (S run) (if (run =? 0)%nat then off else rs) m Ht).
      assert (G' : (m + 2 <= off + width c + blen t)%nat) by (apply G; [destruct (run =? 0)%nat eqn:E; [apply Nat.eqb_eq in E; lia|apply Nat.eqb_neq in E; lia]|exact H]). lia.
    + apply in_app_or in H. destruct H as [H|H].
      * destruct (2 <=? run)%nat eqn:E; [|destruct H]. destruct H as [H|[]]. subst. apply Nat.leb_le in E. lia.
      * assert (G := IH (off + width c)%nat 0%nat rs m Ht). assert (G' : (m + 2 <= off + width c + blen t)%nat) by (apply G; [lia|exact H]). lia.
Qed.

(* ---- the parts of a line that the scan keeps entirely ---- *)
Definition bb (b : N) : bool := (b =? 32) || (b =? 9).
Definition skipb (l : list ch) (col : nat) : bool := (col <=? blen l)%nat && forallb bb (firstn col (encode l)).
Definition okpart (L : list ch) (p : nat * list ch) : Prop := forall m, In m (sp_runs 0 0 0 (snd p)) -> skipb L (S (fst p + m)) = true.

Lemma check_line_nil : forall n L, (forall p, In p (l010_parts None 0 0 [] L) -> okpart L p) -> l010_check_line n L = [].
Proof.
  intros n L H. unfold l010_check_line. induction (l010_parts None 0 0 [] L) as [|p ps IH]; [reflexivity|].
  cbn [flat_map]. rewrite IH by (intros q Hq; apply H; right; exact Hq). rewrite app_nil_r.
  assert (Hp := H p (or_introl eq_refl)). unfold okpart in Hp.
  induction (sp_runs 0 0 0 (snd p)) as [|m ms IHm]; [reflexivity|]. cbn [flat_map].
  assert (E := Hp m (or_introl eq_refl)). unfold skipb, bb in E. cbv zeta. rewrite E. cbn [app]. apply IHm. intros m' Hm'. apply Hp. right. exact Hm'.
Qed.

Lemma parts_ok : forall L x q i start cur,
  dbl q (tailsp cur) x = false -> (q <> None -> cur = []) -> (cur <> [] -> okpart L (start, rev cur)) ->
  forall p, In p (l010_parts q i start cur x) -> okpart L p.
Proof.
  intros L. induction x as [|c t IH]; intros q i start cur Hd Hq Hc p Hp.
  - cbn [l010_parts] in Hp. destruct cur as [|d cur]; [destruct Hp|]. destruct Hp as [Hp|[]]. subst. apply Hc. discriminate.
  - cbn [l010_parts dbl] in *. destruct q as [k|].
    + assert (Ec : cur = []) by (apply Hq; discriminate). subst cur. cbn [tailsp] in Hd.
      destruct (cp c =? k).
      * apply (IH None _ _ [] Hd (fun _ => eq_refl) (fun Hx => False_ind _ (Hx eq_refl)) p Hp).
      * apply (IH (Some k) _ _ [] Hd (fun _ => eq_refl) (fun Hx => False_ind _ (Hx eq_refl)) p Hp).
    + destruct (cstart c t) eqn:Ecs.
      { destruct cur as [|d cur]; [destruct Hp|]. destruct Hp as [Hp|[]]. subst. apply Hc. discriminate. }
      destruct (is_quote c) eqn:Eq.
      * apply in_app_or in Hp. destruct Hp as [Hp|Hp].
        -- destruct cur as [|d cur]; [destruct Hp|]. destruct Hp as [Hp|[]]. subst. apply Hc. discriminate.
        -- apply (IH (Some (cp c)) _ _ [] Hd (fun _ => eq_refl) (fun Hx => False_ind _ (Hx eq_refl)) p Hp).
      * assert (Hd' : dbl None (is_sp c) t = false /\ (is_sp c = true -> tailsp cur = false)).
        { destruct (is_sp c); [apply orb_false_elim in Hd; destruct Hd as [H1 H2]; split; [exact H2|intros _; exact H1]|split; [exact Hd|discriminate]]. }
        destruct Hd' as [Hd1 Hd2].
        refine (IH None _ _ (wr c :: cur) _ (fun Hx => False_ind _ (Hx eq_refl)) _ p Hp); [cbn [tailsp]; rewrite is_sp_wr; exact Hd1|].
        intros _. cbn [rev]. destruct cur as [|d cur].
        -- cbn [rev app]. intros m Hm. cbn [snd sp_runs] in Hm. destruct (is_sp (wr c)); cbn in Hm; destruct Hm.
        -- intros m Hm. cbn [snd fst] in *. rewrite sp_runs_snoc in Hm.
           ++ apply (Hc ltac:(discriminate) m). exact Hm.
           ++ rewrite is_sp_wr. intro Hs. apply run_after_rev. apply Hd2. exact Hs.
Qed.

Lemma blank_noquote : forall c, is_blank c = true -> is_quote c = false.
Proof.
  intros c H. unfold is_blank, is_sp, is_tab in H. unfold is_quote. apply orb_prop in H.
  destruct H as [H|H]; apply N.eqb_eq in H; rewrite H; reflexivity.
Qed.

Lemma parts_lead : forall a x i start cur, forallb is_blank a = true ->
  l010_parts None i start cur (a ++ x) =
  l010_parts None (i + blen a) (match cur, a with [], _ :: _ => i | _, _ => start end) (rev (map wr a) ++ cur) x.
Proof.
  induction a as [|c a IH]; intros x i start cur H.
  - cbn [app blen fold_right map rev]. rewrite Nat.add_0_r. destruct cur; reflexivity.
  - cbn in H. apply andb_prop in H. destruct H as [H1 H2]. cbn [app l010_parts]. rewrite (cstart_blank c _ H1). rewrite (blank_noquote c H1).
    rewrite IH by exact H2. rewrite blen_cons. cbn [map rev]. rewrite <- app_assoc. cbn [app].
    replace (i + width c + blen a)%nat with (i + (width c + blen a))%nat by lia.
    destruct cur; destruct a; reflexivity.
Qed.

Lemma dbl_head : forall c t ps, is_sp c = false -> dbl None ps (c :: t) = dbl None false (c :: t).
Proof. intros c t ps H. cbn [dbl]. rewrite H. reflexivity. Qed.

(* blank characters of a well-formed text are the single bytes 20 / 09 *)
Lemma wf_blank : forall c, wfc c -> is_blank c = true -> wr c = c /\ width c = 1%nat /\ exists b, raw c = [b] /\ bb b = true.
Proof.
  intros c (Hne & Hb & Hc & Hv) H.
  assert (Hlt : cp c < 128) by (unfold is_blank, is_sp, is_tab in H; apply orb_prop in H; destruct H as [H|H]; apply N.eqb_eq in H; lia).
  split; [unfold wr; rewrite (Hv Hlt); reflexivity|]. unfold width. rewrite (Hc Hlt). split; [reflexivity|]. exists (cp c). split; [reflexivity|].
  unfold bb. exact H.
Qed.

Lemma lead_facts : forall a, (forall c, In c a -> wfc c) -> forallb is_blank a = true ->
  map wr a = a /\ blen a = length (encode a) /\ forallb bb (encode a) = true /\ (forall c, In c a -> (1 <= width c)%nat).
Proof.
  induction a as [|c a IH]; intros Hw Hb; [repeat split; intros c []|].
  cbn in Hb. apply andb_prop in Hb. destruct Hb as [H1 H2].
  destruct (wf_blank c (Hw c (or_introl eq_refl)) H1) as (W1 & W2 & b & W3 & W4).
  destruct (IH (fun d Hd => Hw d (or_intror Hd)) H2) as (I1 & I2 & I3 & I4).
  split; [cbn [map]; rewrite W1, I1; reflexivity|]. split; [rewrite blen_cons; unfold width; unfold encode in *; cbn [flat_map]; rewrite app_length, W3; cbn [length]; rewrite <- I2; reflexivity|].
  split; [unfold encode in *; cbn [flat_map]; rewrite W3; cbn [app forallb]; rewrite W4, I3; reflexivity|].
  intros d [Hd|Hd]; [subst; unfold width; rewrite W3; cbn [length]; lia|apply I4; exact Hd].
Qed.

Lemma firstn_app_le : forall {A} (a b : list A) n, (n <= length a)%nat -> firstn n (a ++ b) = firstn n a.
Proof. intros A a b n H. rewrite firstn_app. replace (n - length a)%nat with 0%nat by lia. cbn [firstn]. apply app_nil_r. Qed.

Lemma forallb_firstn : forall {A} (p : A -> bool) l n, forallb p l = true -> forallb p (firstn n l) = true.
Proof.
  intros A p. induction l as [|x l IH]; intros n H; [destruct n; reflexivity|]. destruct n as [|n]; [reflexivity|].
  cbn in *. apply andb_prop in H. destruct H as [H1 H2]. rewrite H1. cbn. apply IH. exact H2.
Qed.

Lemma blen_app : forall a b, blen (a ++ b) = (blen a + blen b)%nat.
Proof. induction a as [|c a IH]; intro b; [reflexivity|]. cbn [app]. rewrite !blen_cons, IH. lia. Qed.

Lemma stable_line_clears : forall n L, (forall c, In c (take_l is_blank L) -> wfc c) -> l010_fix_line L = L -> l010_check_line n L = [].
Proof.
  intros n L Hw Hst. apply check_line_nil. unfold l010_fix_line in Hst.
  destruct (trim_l is_blank L) as [|c0 r0] eqn:E.
  - intros p Hp. apply (parts_ok L L None 0%nat 0%nat [] (stable_nodbl L None false Hst) (fun Hx => False_ind _ (Hx eq_refl)) (fun Hx => False_ind _ (Hx eq_refl)) p Hp).
  - set (lead := take_l is_blank L) in *.
    assert (EL : L = lead ++ c0 :: r0) by (rewrite <- E; symmetry; apply take_trim_l).
    rewrite EL in Hst at 1. apply app_inv_head in Hst.
    pose proof (take_l_all is_blank L) as Hlb. fold lead in Hlb.
    destruct (lead_facts lead Hw Hlb) as (F1 & F2 & F3 & F4).
    pose proof (trim_l_head _ _ _ _ E) as Hc0.
    intros p Hp. rewrite EL in Hp at 1. rewrite parts_lead in Hp by exact Hlb. rewrite app_nil_r in Hp.
    refine (parts_ok L (c0 :: r0) None _ _ (rev (map wr lead)) _ (fun Hx => False_ind _ (Hx eq_refl)) _ p Hp).
    + rewrite dbl_head by (apply not_blank_not_sp; exact Hc0). apply stable_nodbl. exact Hst.
    + intros _. rewrite rev_involutive. rewrite F1. intros m Hm. cbn [fst snd] in *.
      assert (Bm : (m + 2 <= 0 + blen lead)%nat) by (apply (sp_runs_bound lead 0%nat 0%nat 0%nat m F4 (le_n 0) Hm)).
      replace (match lead with [] => 0%nat | _ :: _ => 0%nat end + m)%nat with m by (destruct lead; lia).
      unfold skipb. apply andb_true_intro. split.
      * apply Nat.leb_le. rewrite EL. rewrite blen_app. lia.
      * rewrite EL. unfold encode. rewrite flat_map_app. fold (encode lead). rewrite firstn_app_le by lia. apply forallb_firstn. exact F3.
Qed.

Theorem l010_fix_clears : forall t, wft t -> l010_check (l010_fix t) = [].
Proof.
  intros t Hw. unfold l010_check. change (l010_fix t) with (per_line l010_fix_line t).
  rewrite split_per_line by exact l010_line_keeps.
  apply on_lines_nil. intros n l Hl. apply in_map_iff in Hl. destruct Hl as (l0 & E & Hl0). subst.
  apply stable_line_clears; [|apply l010_line_idem].
  intros c Hc. apply take_l_incl in Hc.
  assert (W0 : forall d, In d l0 -> wfc d) by (intros d Hd; apply Hw; eapply split_incl; eassumption).
  unfold l010_fix_line in Hc. destruct (trim_l is_blank l0) as [|c0 r0] eqn:E0.
  - apply l010_scan_in in Hc. destruct Hc as (d & Hd & [Ed|Ed]); subst; [|apply W0; exact Hd].
    (* only blank characters matter: a well-formed blank is valid, so wr keeps it *)
    specialize (W0 d Hd). apply trim_l_nil_iff in E0. rewrite forallb_forall in E0. specialize (E0 d Hd).
    destruct (wf_blank d W0 E0) as (Wd & _). rewrite Wd. exact W0.
  - apply in_app_or in Hc. destruct Hc as [Hc|Hc]; [apply W0; eapply take_l_incl; exact Hc|].
    (* characters of the scanned rest that belong to the leading blank run: there are none beyond lead, but wfc is only
       needed for members of take_l; members coming from the scan are rewritten input characters *)
    apply l010_scan_in in Hc. destruct Hc as (d & Hd & Ed).
    assert (Wd : wfc d) by (apply W0; eapply trim_l_incl; rewrite E0; exact Hd).
    destruct Ed as [Ed|Ed]; subst; [|exact Wd].
    destruct (valid d) eqn:V; [unfold wr; rewrite V; exact Wd|].
    unfold wr. rewrite V. destruct Wd as (W1 & W2 & W3 & W4).
    assert (Hge : 128 <= cp d) by (destruct (N.lt_ge_cases (cp d) 128) as [Hlt|Hge]; [rewrite (W4 Hlt) in V; discriminate|exact Hge]).
    apply wfc_high; [discriminate| |exact Hge]. intros b [Hb|[Hb|[Hb|[]]]]; subst; lia.
Qed.
