(* LspMirrorP.v — whole-history refinement: the DocumentManager mirror (Model/LspDoc.v) driven by the
   UTF-8 encoding of a protocol-level history on document u, arbitrarily interleaved with operations on
   other documents, never panics and holds exactly the encoding of the protocol-level document
   (Spec/LspSpec.v, Model/LspMirror.v). *)
From Coq Require Import List NArith ZArith Bool Arith Lia.
From GV Require Import Model.LspDoc Spec.LspSpec Model.LspMirror Proofs.LspDocP.
Import ListNotations.

(* ---------------------------------------------------------------------------------------------
   1. the association list behaves as a map *)

Lemma uri_eqb_eq : forall a b, uri_eqb a b = true <-> a = b.
Proof.
  induction a as [|x a IH]; intros [|y b]; cbn [uri_eqb]; split; intros H;
    try reflexivity; try discriminate.
  - apply andb_true_iff in H. destruct H as [Hxy Hab].
    apply N.eqb_eq in Hxy. apply IH in Hab. subst. reflexivity.
  - injection H as Hxy Hab. apply andb_true_iff. split.
    + apply N.eqb_eq. exact Hxy.
    + apply IH. exact Hab.
Qed.

Lemma uri_eqb_refl : forall a, uri_eqb a a = true.
Proof. intros a. apply uri_eqb_eq. reflexivity. Qed.

Lemma uri_eqb_trans_false : forall k u' u, uri_eqb k u' = true -> uri_eqb u' u = false -> uri_eqb k u = false.
Proof.
  intros k u' u Hk Hne. apply uri_eqb_eq in Hk. subst k. exact Hne.
Qed.

Lemma dm_get_remove_same : forall ds u, dm_get (dm_remove ds u) u = None.
Proof.
  induction ds as [|[k d] r IH]; intros u; cbn [dm_remove]; [reflexivity|].
  destruct (uri_eqb k u) eqn:E; [apply IH|].
  cbn [dm_get]. rewrite E. apply IH.
Qed.

Lemma dm_get_remove_other : forall ds u u', uri_eqb u' u = false -> dm_get (dm_remove ds u') u = dm_get ds u.
Proof.
  induction ds as [|[k d] r IH]; intros u u' Hne; cbn [dm_remove dm_get]; [reflexivity|].
  destruct (uri_eqb k u') eqn:E.
  - rewrite (uri_eqb_trans_false k u' u E Hne). apply IH. exact Hne.
  - cbn [dm_get]. destruct (uri_eqb k u); [reflexivity|]. apply IH. exact Hne.
Qed.

Lemma dm_get_set_same : forall ds u d, dm_get (dm_set ds u d) u = Some d.
Proof.
  intros ds u d. unfold dm_set. cbn [dm_get]. rewrite uri_eqb_refl. reflexivity.
Qed.

Lemma dm_get_set_other : forall ds u u' d, uri_eqb u' u = false -> dm_get (dm_set ds u' d) u = dm_get ds u.
Proof.
  intros ds u u' d Hne. unfold dm_set. cbn [dm_get]. rewrite Hne.
  apply dm_get_remove_other. exact Hne.
Qed.

Lemma dm_step_other : forall ds o ds' u, uri_eqb (op_uri o) u = false -> dm_step ds o = Val ds' -> dm_get ds' u = dm_get ds u.
Proof.
  intros ds [k v t|k v cs|k] ds' u Hne Hstep; cbn [op_uri] in Hne; cbn [dm_step] in Hstep.
  - injection Hstep as <-. unfold dm_open. apply dm_get_set_other. exact Hne.
  - unfold dm_update in Hstep. destruct (dm_get ds k) as [d0|].
    + destruct (apply_all (Doc v (d_content d0) (d_lines d0)) cs) as [d1|]; [|discriminate].
      injection Hstep as <-. apply dm_get_set_other. exact Hne.
    + injection Hstep as <-. reflexivity.
  - injection Hstep as <-. unfold dm_close. apply dm_get_remove_other. exact Hne.
Qed.

(* ---------------------------------------------------------------------------------------------
   2. one notification *)

(* hist_rel only looks at the manager's entry for u *)
Lemma hist_rel_ext : forall u ds ds' s, dm_get ds' u = dm_get ds u -> hist_rel u ds s -> hist_rel u ds' s.
Proof.
  intros u ds ds' [[v d]|] Heq Hrel; unfold hist_rel in *; rewrite Heq; exact Hrel.
Qed.

Lemma dm_step_spec : forall u o ds s,
    hist_rel u ds s -> valid_sop u o ->
    exists ds1, dm_step ds (enc_op u o) = Val ds1 /\ hist_rel u ds1 (spec_step s o).
Proof.
  intros u [v d|v es| |o'] ds s Hrel Hv; cbn [valid_sop] in Hv; cbn [enc_op spec_step].
  - (* didOpen *)
    exists (dm_open ds u v (enc d)). split; [reflexivity|].
    unfold hist_rel. split; [exact Hv|]. unfold dm_open. apply dm_get_set_same.
  - (* didChange *)
    cbn [dm_step]. unfold dm_update. destruct s as [[v0 d]|]; unfold hist_rel in Hrel.
    + destruct Hrel as [Hd Hget]. rewrite Hget. cbn [d_content d_lines].
      rewrite (mirror_correct_edits es d v Hd Hv).
      eexists. split; [reflexivity|].
      unfold hist_rel. split; [apply spec_edits_valid; assumption|]. apply dm_get_set_same.
    + rewrite Hrel. exists ds. split; [reflexivity|]. unfold hist_rel. exact Hrel.
  - (* didClose *)
    exists (dm_close ds u). split; [reflexivity|].
    unfold hist_rel, dm_close. apply dm_get_remove_same.
  - (* another document *)
    destruct (dm_step ds o') as [ds1|] eqn:E.
    + exists ds1. split; [reflexivity|].
      apply (hist_rel_ext u ds ds1 s); [|exact Hrel].
      apply (dm_step_other ds o' ds1 u Hv E).
    + exfalso. apply (dm_step_total ds o'). exact E.
Qed.

(* ---------------------------------------------------------------------------------------------
   3. whole histories *)

(* MAIN: after ANY history of open/change/close notifications on document u (texts UTF-8 encoded, all Z
   ranges, full and incremental edits), arbitrarily interleaved with operations on other documents, the
   manager does not panic and its copy of u is exactly the encoding of the protocol-level document *)
Theorem dm_history_spec : forall u os ds s,
    hist_rel u ds s -> Forall (valid_sop u) os ->
    exists ds', dm_run ds (map (enc_op u) os) = Val ds' /\ hist_rel u ds' (spec_run s os).
Proof.
  intros u. induction os as [|o os IH]; intros ds s Hrel Hos.
  - exists ds. split; [reflexivity|exact Hrel].
  - inversion Hos as [|o0 os0 Ho Hos']; subst o0 os0.
    destruct (dm_step_spec u o ds s Hrel Ho) as [ds1 [Hstep Hrel1]].
    destruct (IH ds1 (spec_step s o) Hrel1 Hos') as [ds' [Hrun Hrel']].
    exists ds'. split.
    + cbn [map dm_run]. rewrite Hstep. exact Hrun.
    + unfold spec_run in *. cbn [fold_left]. exact Hrel'.
Qed.

Lemma hist_rel_observe : forall u ds s, hist_rel u ds s -> observe ds u = enc_obs s.
Proof.
  intros u ds [[v d]|] Hrel; unfold hist_rel in Hrel; unfold observe, enc_obs.
  - destruct Hrel as [_ Hget]. rewrite Hget. reflexivity.
  - rewrite Hrel. reflexivity.
Qed.

Corollary dm_history_observe : forall u os ds s ds',
    hist_rel u ds s -> Forall (valid_sop u) os -> dm_run ds (map (enc_op u) os) = Val ds' ->
    observe ds' u = enc_obs (spec_run s os).
Proof.
  intros u os ds s ds' Hrel Hos Hrun.
  destruct (dm_history_spec u os ds s Hrel Hos) as [ds2 [Hrun2 Hrel2]].
  rewrite Hrun in Hrun2. injection Hrun2 as <-.
  apply hist_rel_observe. exact Hrel2.
Qed.

(* from an empty manager *)
Corollary dm_history_from_empty : forall u os, Forall (valid_sop u) os ->
    exists ds', dm_run [] (map (enc_op u) os) = Val ds' /\ observe ds' u = enc_obs (spec_run None os).
Proof.
  intros u os Hos.
  assert (Hrel : hist_rel u [] None) by reflexivity.
  destruct (dm_history_spec u os [] None Hrel Hos) as [ds' [Hrun Hrel']].
  exists ds'. split; [exact Hrun|]. apply hist_rel_observe. exact Hrel'.
Qed.

(* ---------------------------------------------------------------------------------------------
   4. non-vacuity: "aé😀b\ncd" opened at version 1, another document opened in between, then version 2
      inserts X at column 3 (inside the surrogate pair: start of 😀; end before start: empty range)
      and Y at a position past the last line (end of the document) *)

Definition ex_u : uri := [117; 49]%N.
Definition ex_other : uri := [117; 50]%N.
Definition ex_hist : list sop :=
  [ SOpen 1 [97; 233; 128512; 98; 10; 99; 100]%N;
    SOther (OpOpen ex_other 7 [104; 105]%N);
    SChange 2 [SIncr 0 3 0 1 [88]%N; SIncr 5 0 5 0 [89]%N];
    SOther (OpChange ex_other 8 [Incr (Range 0 1 0 2) [33]%N]) ].

Example ex_hist_observe :
  match dm_run [] (map (enc_op ex_u) ex_hist) with
  | Val ds' => observe ds' ex_u
  | Panic => None
  end = Some (2%Z, enc [97; 233; 88; 128512; 98; 10; 99; 100; 89]%N).
Proof. vm_compute. reflexivity. Qed.

Example ex_hist_spec :
  enc_obs (spec_run None ex_hist) = Some (2%Z, enc [97; 233; 88; 128512; 98; 10; 99; 100; 89]%N).
Proof. vm_compute. reflexivity. Qed.

Example ex_hist_valid : Forall (valid_sop ex_u) ex_hist.
Proof.
  unfold ex_hist, valid_sop, valid_edit, valid_text, valid_cp.
  repeat (constructor; try reflexivity; try (left; reflexivity); try (right; split; [discriminate|reflexivity])).
Qed.

Print Assumptions dm_history_spec.
Print Assumptions dm_history_observe.
Print Assumptions dm_history_from_empty.
