(* LexSepP.v — the separator lemma: skipWhitespaceAndComments run at the start of a well-formed item sequence consumes
   exactly the leading separator pieces (white space, line comments, block comments), records exactly their comments
   (text, style, span, inline flag) and stops at the first byte of the next lexeme (or at the end of the text). *)
From Coq Require Import List NArith Bool Lia Arith ZifyN ZifyBool.
From GV Require Import Gen.LexTables Model.Lexer Inst.Inst_C04 Spec.LexSpec Proofs.LexerP Proofs.LexUtf8P.
Import ListNotations.
Local Open Scope N_scope.

Fixpoint lead (its : list item) : list trivia := match its with ITriv t :: tl => t :: lead tl | _ => [] end.
Fixpoint after (its : list item) : list item := match its with ITriv _ :: tl => after tl | _ => its end.
Definition render_trivs (ts : list trivia) : list N := flat_map render_triv ts.
Fixpoint coms_of (bs : list N) (off : N) (ts : list trivia) : list comment :=
  match ts with
  | [] => []
  | t :: tl => com_of bs off t ++ coms_of bs (off + N.of_nat (length (render_triv t))) tl
  end.

Lemma lead_after its : its = map ITriv (lead its) ++ after its.
Proof. induction its as [|[l|t] its IH]; cbn; [reflexivity | reflexivity | f_equal; exact IH]. Qed.

Lemma after_shape its : after its = [] \/ exists l rest, after its = ILex l :: rest.
Proof. induction its as [|[l|t] its IH]; cbn; [left; reflexivity | right; eauto | exact IH]. Qed.

Lemma after_length its : (length (after its) <= length its)%nat.
Proof. induction its as [|[l|t] its IH]; cbn; lia. Qed.

Lemma render_items_app a b : render_items (a ++ b) = render_items a ++ render_items b.
Proof. unfold render_items. apply flat_map_app. Qed.

Lemma render_items_trivs ts : render_items (map ITriv ts) = render_trivs ts.
Proof. induction ts as [|t ts IH]; cbn; [reflexivity |]. f_equal. exact IH. Qed.

Lemma render_lead_after its : render_items its = render_trivs (lead its) ++ render_items (after its).
Proof. rewrite (lead_after its) at 1. rewrite render_items_app, render_items_trivs. reflexivity. Qed.

Lemma items_ok_after its : items_ok its = true -> items_ok (after its) = true.
Proof.
  induction its as [|[l|t] its IH]; cbn [items_ok after]; auto.
  intros H. apply andb_prop in H. destruct H as [_ H]. auto.
Qed.

(* ---------------------------------------------------------------------------------------------- *)
(* white space *)
Lemma skip_ws_cons_ws b l i : ws_byte b = true -> skip_ws (b :: l) i = skip_ws l (i + 1).
Proof.
  unfold ws_byte. intros H. cbn [skip_ws].
  destruct ((b =? 32) || (b =? 9) || (b =? 13)); [reflexivity |]. cbn [orb] in H. rewrite H. reflexivity.
Qed.

Lemma skip_ws_stop l i : match l with [] => True | b :: _ => ws_byte b = false end -> skip_ws l i = (l, i).
Proof.
  destruct l as [|b l]; [reflexivity |]. unfold ws_byte. intros H. cbn [skip_ws].
  destruct ((b =? 32) || (b =? 9) || (b =? 13)); [discriminate |]. cbn [orb] in H. rewrite H. reflexivity.
Qed.

Lemma clean_stop x : clean x = true -> match x with [] => True | b :: _ => ws_byte b = false end.
Proof. destruct x as [|a tl]; [auto |]. cbn [clean]. intros H. apply andb_prop in H. destruct H as [H _]. apply negb_true_iff in H. exact H. Qed.

Lemma skip_trivia_ws bs f b l i acc :
  ws_byte b = true -> skip_trivia bs (S f) (b :: l, i) acc = skip_trivia bs (S f) (l, i + 1) acc.
Proof. intros H. cbn [skip_trivia fst snd]. rewrite skip_ws_cons_ws by exact H. reflexivity. Qed.

Lemma skip_trivia_clean bs f x i acc : clean x = true -> skip_trivia bs (S f) (x, i) acc = Val ((x, i), acc).
Proof.
  intros H. cbn [skip_trivia fst snd]. rewrite skip_ws_stop by (apply clean_stop; exact H). cbn [fst].
  destruct x as [|a [|b tl]]; try reflexivity.
  cbn [clean] in H. apply andb_prop in H. destruct H as [_ H]. apply negb_true_iff, orb_false_iff in H.
  destruct H as [H1 H2]. rewrite H1, H2. reflexivity.
Qed.

(* ---------------------------------------------------------------------------------------------- *)
(* line comment *)
Lemma read_line_comment_spec bs body r i :
  forallb (fun b => negb (b =? 10)) body = true -> (match r with [] => True | c :: _ => c = 10 end) ->
  read_line_comment bs (45 :: 45 :: body ++ r, i) =
  Val (mkcom (45 :: 45 :: body) 0 (code_before bs i) i (i + N.of_nat (length (render_triv (TLine body)))),
       (r, i + N.of_nat (length (render_triv (TLine body))))).
Proof.
  intros NB R. unfold read_line_comment, span, adv. cbn [fst snd skipn].
  rewrite (span_runes_until 10 (length body) body (le_n _)); auto; try lia.
  - cbn [bind fst snd render_triv length].
    replace (i + N.of_nat 2 + N.of_nat (length body)) with (i + N.of_nat (S (S (length body)))) by lia. reflexivity.
  - intros H. rewrite forallb_forall in NB. specialize (NB _ H). rewrite N.eqb_refl in NB. discriminate.
  - rewrite app_length. lia.
Qed.

(* ---------------------------------------------------------------------------------------------- *)
(* block comment *)
Lemma no_close_tl a body : no_close (a :: body) = true -> no_close body = true.
Proof. cbn [no_close]. intros H. apply andb_prop in H. tauto. Qed.

Lemma no_close_skipn k : forall body, no_close body = true -> no_close (skipn k body) = true.
Proof.
  induction k as [|k IH]; intros body H; [exact H |]. destruct body as [|a body]; [exact H |].
  cbn [skipn]. apply IH. eapply no_close_tl; eauto.
Qed.

Lemma block_body_spec : forall n body, (length body <= n)%nat -> forall fuel r i,
  no_close body = true -> (length body < fuel)%nat ->
  block_body fuel (body ++ 42 :: 47 :: r, i) =
  Val (Some (body ++ [42; 47], (r, i + N.of_nat (length body + 2)))).
Proof.
  induction n as [|n IH]; intros body Hn fuel r i NC Hf.
  - destruct body; [| cbn in Hn; lia]. destruct fuel as [|f]; [lia |].
    cbn [app length block_body fst]. rewrite decode_ascii by lia.
    unfold adv_rune, adv. cbn [fst snd skipn firstn N.eqb Pos.eqb]. rewrite decode_ascii by lia.
    cbn [N.eqb Pos.eqb fst snd skipn firstn app Nat.add]. f_equal. f_equal. f_equal. f_equal. lia.
  - destruct body as [|b body]; [apply (IH []); auto; cbn; lia |].
    destruct fuel as [|f]; [lia |].
    cbn [app block_body fst].
    destruct (decode_rune (b :: body ++ 42 :: 47 :: r)) as [x sz] eqn:D.
    destruct (decode_chunk b body (42 :: 47 :: r) x sz ltac:(cbn; lia) D) as (k & -> & K & A & B).
    assert (AD : adv_rune (b :: body ++ 42 :: 47 :: r, i) (S k) = (skipn k body ++ 42 :: 47 :: r, i + N.of_nat (S k))).
    { unfold adv_rune, adv. cbn [fst snd skipn]. rewrite skipn_app. replace (k - length body)%nat with 0%nat by lia.
      reflexivity. }
    rewrite AD. cbn [fst].
    assert (F1 : firstn (S k) (b :: body ++ 42 :: 47 :: r) = b :: firstn k body).
    { cbn [firstn]. rewrite firstn_app. replace (k - length body)%nat with 0%nat by lia.
      rewrite firstn_O, app_nil_r. reflexivity. }
    rewrite F1.
    assert (REC : block_body f (skipn k body ++ 42 :: 47 :: r, i + N.of_nat (S k)) =
                  Val (Some (skipn k body ++ [42; 47], (r, i + N.of_nat (length (b :: body) + 2))))).
    { rewrite (IH (skipn k body)).
      - f_equal. f_equal. f_equal. f_equal. rewrite skipn_length. cbn [length] in *. lia.
      - rewrite skipn_length. cbn [length] in Hn. lia.
      - apply no_close_skipn. eapply no_close_tl; eauto.
      - rewrite skipn_length. cbn [length] in Hf. lia. }
    assert (FIN : (do o <- block_body f (skipn k body ++ 42 :: 47 :: r, i + N.of_nat (S k));
                   Val (match o with Some (w, c') => Some ((b :: firstn k body) ++ w, c') | None => None end)) =
                  Val (Some ((b :: body) ++ [42; 47], (r, i + N.of_nat (length (b :: body) + 2))))).
    { rewrite REC. cbn [bind app]. rewrite app_assoc, firstn_skipn. reflexivity. }
    destruct (x =? 42) eqn:X42; [| exact FIN].
    apply N.eqb_eq in X42. subst x.
    assert (b < 128) by (destruct (N.lt_ge_cases b 128) as [L|G]; [exact L | specialize (B G); lia]).
    destruct (A H) as [<- ->]. cbn [skipn] in *.
    destruct (body ++ 42 :: 47 :: r) as [|b1 t1] eqn:E1; [destruct body; discriminate |].
    destruct (decode_rune (b1 :: t1)) as [nr ns] eqn:D1.
    destruct (nr =? 47) eqn:N47; [exfalso | exact FIN].
    apply N.eqb_eq in N47. subst nr.
    assert (X : fst (decode_rune (b1 :: t1)) < 128) by (rewrite D1; cbn; lia).
    apply decode_lt128 in X. rewrite D1 in X. cbn [fst] in X. destruct X as [<- _].
    destruct body as [|b' body]; cbn [app] in E1; injection E1 as E1 _; [discriminate E1 |].
    subst b'. cbn [no_close] in NC. rewrite N.eqb_refl in NC. cbn in NC. discriminate.
Qed.

Lemma read_block_comment_spec bs body r i :
  no_close body = true ->
  read_block_comment bs (47 :: 42 :: body ++ 42 :: 47 :: r, i) =
  Val (mkcom (render_triv (TBlock body)) 1 (code_before bs i) i (i + N.of_nat (length (render_triv (TBlock body)))),
       (r, i + N.of_nat (length (render_triv (TBlock body))))).
Proof.
  intros NC. unfold read_block_comment, adv. cbn [fst snd skipn].
  rewrite (block_body_spec (length body) body (le_n _)); auto; [| rewrite app_length; lia].
  cbn [bind fst snd render_triv length].
  replace (i + N.of_nat 2 + N.of_nat (length body + 2)) with (i + N.of_nat (S (S (length (body ++ [42; 47])))))
    by (rewrite app_length; cbn [length]; lia).
  reflexivity.
Qed.

(* ---------------------------------------------------------------------------------------------- *)
(* the separator lemma *)
Lemma sep_skip bs : forall its fuel i acc,
  items_ok its = true -> (length (render_items its) < fuel)%nat ->
  skip_trivia bs fuel (render_items its, i) acc =
  Val ((render_items (after its), i + N.of_nat (length (render_trivs (lead its)))), acc ++ coms_of bs i (lead its)).
Proof.
  induction its as [|[l|t] its IH]; intros fuel i acc OK Hf; (destruct fuel as [|f]; [lia |]).
  - cbn [render_items flat_map after lead render_trivs length coms_of]. rewrite skip_trivia_clean by reflexivity.
    rewrite N.add_0_r, app_nil_r. reflexivity.
  - cbn [items_ok] in OK. apply andb_prop in OK. destruct OK as [OK _]. apply andb_prop in OK. destruct OK as [_ FO].
    unfold follow_ok in FO. apply andb_prop in FO. destruct FO as [_ CL].
    cbn [after lead render_trivs flat_map length coms_of].
    change (render_items (ILex l :: its)) with (render l ++ render_items its).
    rewrite skip_trivia_clean by exact CL. rewrite N.add_0_r, app_nil_r. reflexivity.
  - cbn [items_ok] in OK. apply andb_prop in OK. destruct OK as [OK OKR]. apply andb_prop in OK. destruct OK as [TO TF].
    change (render_items (ITriv t :: its)) with (render_triv t ++ render_items its) in *.
    cbn [after lead render_trivs flat_map coms_of]. fold (render_trivs (lead its)).
    rewrite app_length in Hf.
    assert (POS : forall j : N, j + N.of_nat (length (render_triv t)) + N.of_nat (length (render_trivs (lead its))) =
                         j + N.of_nat (length (render_triv t ++ render_trivs (lead its))))
      by (intros; rewrite app_length; lia).
    destruct t as [b|body|body]; cbn [triv_ok triv_follow] in TO, TF.
    + cbn [render_triv app]. rewrite skip_trivia_ws by exact TO.
      rewrite IH; auto; [| cbn [render_triv length] in Hf; lia].
      cbn [com_of app render_triv length]. change (N.of_nat 1) with 1. f_equal. f_equal. f_equal. lia.
    + cbn [render_triv app] in *. cbn [skip_trivia fst snd].
      rewrite skip_ws_stop by reflexivity. cbn [fst N.eqb Pos.eqb andb].
      rewrite read_line_comment_spec; auto; [| destruct (render_items its); [exact I | apply N.eqb_eq; exact TF]].
      cbn [bind]. rewrite IH; auto; [| cbn [length] in Hf; lia].
      cbn [com_of render_triv]. rewrite <- app_assoc. f_equal. f_equal. f_equal. apply (POS i).
    + cbn [render_triv app] in *. rewrite <- app_assoc. cbn [app skip_trivia fst snd].
      rewrite skip_ws_stop by reflexivity. cbn [fst N.eqb Pos.eqb andb].
      rewrite read_block_comment_spec; auto.
      cbn [bind]. rewrite IH; auto.
      * cbn [com_of render_triv]. rewrite <- !app_assoc. cbn [app]. f_equal. f_equal. f_equal.
        pose proof (POS i) as P. cbn [render_triv] in P. rewrite <- !app_assoc in P. cbn [app] in P. exact P.
      * cbn [length] in Hf. rewrite app_length in Hf. cbn [length] in Hf. lia.
Qed.
