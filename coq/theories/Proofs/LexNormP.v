(* LexNormP.v — the reading after normalisation: splitting two-word keyword tokens and upper-casing keyword spellings
   turns the raw reading of a well-formed lexeme sequence into map tok_norm of the lexemes, whatever the separators.
   Hence lex_faithful in kind/value form, layout independence and keyword case independence. *)
From Coq Require Import List NArith Bool Lia Arith ZifyN ZifyBool.
From GV Require Import Gen.LexTables Model.Lexer Inst.Inst_C04 Spec.LexSpec Proofs.LexerP Proofs.LexSpecP Proofs.LexUtf8P
  Proofs.LexSepP Proofs.LexMunchP Proofs.LexWordP Proofs.LexFaithP.
Import ListNotations.
Local Open Scope N_scope.

(* ---------------------------------------------------------------------------------------------- *)
(* table lookups *)
Lemma assoc_b_in t k v : assoc_b t k = Some v -> In (k, v) t.
Proof.
  induction t as [|[k' v'] t IH]; cbn [assoc_b]; [discriminate |].
  destruct (bytes_eqb k k') eqn:E.
  - intros [= ->]. apply bytes_eqb_eq in E. subst. left. reflexivity.
  - intros H. right. auto.
Qed.

Lemma mem_b_in t k : mem_b t k = true -> In k t.
Proof.
  induction t as [|k' t IH]; cbn [mem_b]; [discriminate |].
  destruct (bytes_eqb k k') eqn:E; cbn [orb].
  - intros _. apply bytes_eqb_eq in E. subst. left. reflexivity.
  - intros H. right. auto.
Qed.

Lemma assoc_n_in t r v : assoc_n t r = Some v -> In (r, v) t.
Proof.
  induction t as [|[k' v'] t IH]; cbn [assoc_n]; [discriminate |].
  destruct (r =? k') eqn:E.
  - intros [= ->]. apply N.eqb_eq in E. subst. left. reflexivity.
  - intros H. right. auto.
Qed.

Lemma nonword_type_lookup ty k v :
  In ty nonword_types -> (assoc_b keywords k = Some v \/ assoc_b compound_keywords k = Some v) -> v <> ty.
Proof.
  intros IT H. pose proof nonword_not_keyword as F. rewrite forallb_forall in F. specialize (F _ IT).
  rewrite forallb_forall in F.
  assert (I : In (k, v) (keywords ++ compound_keywords)).
  { apply in_or_app. destruct H as [H|H]; [left | right]; apply assoc_b_in; exact H. }
  specialize (F _ I). cbn [snd] in F. apply negb_true_iff, N.eqb_neq in F. exact F.
Qed.

Lemma norm_tok_id ty v q : q <> 0 \/ In ty nonword_types -> norm_tok (ty, v, q) = [(ty, v, q)].
Proof.
  intros H. unfold norm_tok.
  destruct (q =? 0) eqn:Q.
  - apply N.eqb_eq in Q. destruct H as [H|H]; [congruence |].
    destruct (assoc_b compound_keywords v) as [cty|] eqn:C.
    + replace (cty =? ty) with false
        by (symmetry; apply N.eqb_neq; eapply nonword_type_lookup; [exact H | right; exact C]).
      cbn [andb]. destruct (assoc_b keywords (to_upper v)) as [kt|] eqn:K; [| reflexivity].
      replace (kt =? ty) with false
        by (symmetry; apply N.eqb_neq; eapply nonword_type_lookup; [exact H | left; exact K]).
      reflexivity.
    + cbn [andb]. destruct (assoc_b keywords (to_upper v)) as [kt|] eqn:K; [| reflexivity].
      replace (kt =? ty) with false
        by (symmetry; apply N.eqb_neq; eapply nonword_type_lookup; [exact H | left; exact K]).
      reflexivity.
  - cbn [andb]. destruct (assoc_b keywords (to_upper v)); reflexivity.
Qed.

(* ---------------------------------------------------------------------------------------------- *)
(* no blank in a word, nor in its upper-cased spelling *)
Lemma In_firstn {A} (x : A) k l : In x (firstn k l) -> In x l.
Proof. intros H. rewrite <- (firstn_skipn k l). apply in_or_app. left. exact H. Qed.

Lemma upper_go_no32 : forall fuel l, In 32 (upper_go fuel l) -> In 32 l.
Proof.
  induction fuel as [|f IH]; intros l H; [exact H |].
  destruct l as [|b tl]; [exact H |]. cbn [upper_go] in H.
  destruct (b <? 128) eqn:B.
  - destruct H as [H|H]; [| right; auto].
    destruct (in_rng 97 122 b) eqn:R; [apply in_rng_iff in R; lia | left; exact H].
  - destruct (decode_rune (b :: tl)) as [r sz].
    destruct (assoc_n upper_special r) as [u|] eqn:A.
    + destruct H as [H|H].
      * exfalso. apply assoc_n_in in A. pose proof upper_special_ok as F. rewrite forallb_forall in F.
        specialize (F _ A). cbn [snd] in F. apply negb_true_iff, N.eqb_neq in F. congruence.
      * apply IH in H. eapply In_skipn; eauto.
    + apply in_app_or in H. destruct H as [H|H]; [eapply In_firstn; eauto | apply IH in H; eapply In_skipn; eauto].
Qed.

Lemma enc_no32 x : x <> 32 -> ~ In 32 (encode_rune x).
Proof.
  intros NX H. destruct (N.lt_ge_cases x 128) as [L|G].
  - rewrite encode_ascii in H by exact L. destruct H as [H|[]]. congruence.
  - pose proof (encode_hi x G) as F. rewrite Forall_forall in F. specialize (F _ H). lia.
Qed.

Lemma word_no32 rs : word_shape rs = true -> ~ In 32 (utf8 rs).
Proof.
  intros WS. destruct (word_shape_inv _ WS) as (r0 & rtl & -> & IS & _ & IP & _).
  destruct (ascii_class 32 ltac:(lia)) as (A1 & A2 & _).
  cbn [utf8 flat_map]. fold (utf8 rtl). intros H. apply in_app_or in H. destruct H as [H|H].
  - revert H. apply enc_no32. intros ->. rewrite A1 in IS. discriminate IS.
  - unfold utf8 in H. apply in_flat_map in H. destruct H as (x & IX & H).
    rewrite forallb_forall in IP. specialize (IP _ IX).
    revert H. apply enc_no32. intros ->. rewrite A2 in IP. discriminate IP.
Qed.

Lemma word_upper_no32 rs : word_shape rs = true -> ~ In 32 (to_upper (utf8 rs)).
Proof. intros WS H. apply upper_go_no32 in H. exact (word_no32 _ WS H). Qed.

(* ---------------------------------------------------------------------------------------------- *)
(* splitting at blanks *)
Lemma split_sp_no32 b : forall acc, ~ In 32 b -> split_sp acc b = [acc ++ b].
Proof.
  induction b as [|x b IH]; intros acc H; cbn [split_sp]; [rewrite app_nil_r; reflexivity |].
  destruct (x =? 32) eqn:E; [apply N.eqb_eq in E; subst; exfalso; apply H; left; reflexivity |].
  rewrite IH by (intros I; apply H; right; exact I). rewrite <- app_assoc. reflexivity.
Qed.

Lemma split_sp_app a : forall acc b, ~ In 32 a -> split_sp acc (a ++ 32 :: b) = (acc ++ a) :: split_sp [] b.
Proof.
  induction a as [|x a IH]; intros acc b H; cbn [app split_sp]; [rewrite app_nil_r; reflexivity |].
  destruct (x =? 32) eqn:E; [apply N.eqb_eq in E; subst; exfalso; apply H; left; reflexivity |].
  rewrite IH by (intros I; apply H; right; exact I). rewrite <- app_assoc. reflexivity.
Qed.

Lemma split_blank_eq v : forall acc, split_blank acc v = split_sp acc v.
Proof. induction v as [|b v IH]; intros acc; cbn; [reflexivity |]. destruct (b =? 32); rewrite IH; reflexivity. Qed.

(* ---------------------------------------------------------------------------------------------- *)
(* normalising the token of one lexeme *)
Lemma ops_types : forallb (fun e : list N * N * list N => existsb (N.eqb (snd (fst e))) nonword_types) all_ops = true.
Proof. vm_compute. reflexivity. Qed.

Lemma in_nonword ty : existsb (N.eqb ty) nonword_types = true -> In ty nonword_types.
Proof. apply existsb_eqb_in. Qed.

Lemma norm_tok_of l : lex_ok l = true -> norm_tok (tok_of l) = [tok_norm l].
Proof.
  intros OK. destruct l as [e| | |ip fp ex|rs|ds|rs|op cl items|op cl items|items|tag body|trs]; cbn [tok_of tok_norm].
  - apply norm_tok_id. right. cbn [lex_ok] in OK.
    apply existsb_exists in OK. destruct OK as (e' & IN & EQ). apply op_eqb_eq in EQ. subst e'.
    pose proof ops_types as F. rewrite forallb_forall in F. apply in_nonword. exact (F _ IN).
  - apply norm_tok_id. right. apply in_nonword. vm_compute. reflexivity.
  - apply norm_tok_id. right. apply in_nonword. vm_compute. reflexivity.
  - apply norm_tok_id. right. apply in_nonword. vm_compute. reflexivity.
  - cbn [lex_ok] in OK. unfold norm_tok.
    assert (C : assoc_b compound_keywords (utf8 rs) = None).
    { destruct (assoc_b compound_keywords (utf8 rs)) as [cty|] eqn:C; [exfalso | reflexivity].
      apply assoc_b_in in C. pose proof compound_words_ok as F. rewrite forallb_forall in F.
      specialize (F _ C). cbn [fst] in F. apply andb_prop in F. destruct F as [F _].
      apply existsb_exists in F. destruct F as (x & IX & EX). apply N.eqb_eq in EX. subst x.
      exact (word_no32 _ OK IX). }
    rewrite C. cbn [andb N.eqb]. unfold kw_type.
    destruct (assoc_b keywords (to_upper (utf8 rs))) as [kt|]; [| reflexivity].
    rewrite N.eqb_refl. reflexivity.
  - apply norm_tok_id. right. apply in_nonword. vm_compute. reflexivity.
  - apply norm_tok_id. right. apply in_nonword. vm_compute. reflexivity.
  - apply norm_tok_id. left. cbn [lex_ok] in OK. repeat (apply andb_prop in OK; destruct OK as [OK ?]).
    intros ->. discriminate OK.
  - apply norm_tok_id. left. discriminate.
  - apply norm_tok_id. left. discriminate.
  - apply norm_tok_id. right. apply in_nonword. vm_compute. reflexivity.
  - apply norm_tok_id. left. discriminate.
Qed.

(* a completed two-word keyword token is split into the normal forms of its two words *)
Lemma norm_tok_compound rs rs2 cty :
  word_shape rs = true -> word_shape rs2 = true ->
  mem_b compound_starts (to_upper (utf8 rs)) = true ->
  assoc_b compound_keywords (to_upper (utf8 rs) ++ 32 :: to_upper (utf8 rs2)) = Some cty ->
  norm_tok (cty, to_upper (utf8 rs) ++ 32 :: to_upper (utf8 rs2), 0) = [tok_norm (LWord rs); tok_norm (LWord rs2)].
Proof.
  intros W1 W2 ST CK. unfold norm_tok. rewrite CK, !N.eqb_refl. cbn [andb].
  pose proof (word_upper_no32 _ W1) as N1. pose proof (word_upper_no32 _ W2) as N2.
  rewrite split_sp_app by exact N1. rewrite split_sp_no32 by exact N2. cbn [app map tok_norm]. unfold kw_type.
  assert (K1 : exists t1, assoc_b keywords (to_upper (utf8 rs)) = Some t1).
  { apply mem_b_in in ST. pose proof compound_starts_ok as F. rewrite forallb_forall in F. specialize (F _ ST).
    apply andb_prop in F. destruct F as [_ F]. destruct (assoc_b keywords (to_upper (utf8 rs))); [eauto | discriminate]. }
  assert (K2 : exists t2, assoc_b keywords (to_upper (utf8 rs2)) = Some t2).
  { apply assoc_b_in in CK. pose proof compound_words_ok as F. rewrite forallb_forall in F. specialize (F _ CK).
    cbn [fst] in F. apply andb_prop in F. destruct F as [_ F]. rewrite split_blank_eq in F.
    rewrite split_sp_app in F by exact N1. rewrite split_sp_no32 in F by exact N2. cbn [app forallb] in F.
    apply andb_prop in F. destruct F as [_ F]. apply andb_prop in F. destruct F as [F _].
    destruct (assoc_b keywords (to_upper (utf8 rs2))); [eauto | discriminate]. }
  destruct K1 as [t1 ->]. destruct K2 as [t2 ->]. reflexivity.
Qed.

(* ---------------------------------------------------------------------------------------------- *)
(* the normalised reading of an item sequence *)
Definition lexemes_of (its : list item) : list lexeme :=
  flat_map (fun it => match it with ILex l => [l] | ITriv _ => [] end) its.
Definition triv_com (t : trivia) : list (list N * N) :=
  match t with TWs _ => [] | TLine body => [(45 :: 45 :: body, 0)] | TBlock body => [(render_triv t, 1)] end.
Definition coms_of_items (its : list item) : list (list N * N) :=
  flat_map (fun it => match it with ILex _ => [] | ITriv t => triv_com t end) its.
Definition com_key (c : comment) : list N * N := (ctext c, cstyle c).

Lemma lexemes_drop_ws its : lexemes_of (drop_ws its) = lexemes_of its.
Proof. induction its as [|[l|[b|body|body]] its IH]; cbn [drop_ws]; try reflexivity. exact IH. Qed.
Lemma coms_drop_ws its : coms_of_items (drop_ws its) = coms_of_items its.
Proof. induction its as [|[l|[b|body|body]] its IH]; cbn [drop_ws]; try reflexivity. exact IH. Qed.

Lemma next_lex_cases l rest :
  next_lex l rest = (tok_of l, length (render l), rest) \/
  exists rs rs2 rest2 cty n,
    l = LWord rs /\ drop_ws rest = ILex (LWord rs2) :: rest2 /\
    mem_b compound_starts (to_upper (utf8 rs)) = true /\
    assoc_b compound_keywords (to_upper (utf8 rs) ++ 32 :: to_upper (utf8 rs2)) = Some cty /\
    next_lex l rest = ((cty, to_upper (utf8 rs) ++ 32 :: to_upper (utf8 rs2), 0), n, rest2).
Proof.
  unfold next_lex. destruct l; try (left; reflexivity).
  destruct (mem_b compound_starts _) eqn:ST; [| left; reflexivity].
  destruct (drop_ws rest) as [|[[]|] rest2] eqn:DW; try (left; reflexivity).
  destruct (assoc_b compound_keywords _) as [cty|] eqn:CK; [| left; reflexivity].
  right. do 5 eexists. repeat split; eauto.
Qed.

Lemma reads_norm bs i its et ec : reads bs i its et ec -> items_ok its = true ->
  normalize (map rtok_of et) = map tok_norm (lexemes_of its) /\ map com_key ec = coms_of_items its.
Proof.
  induction 1 as [off | off t rest et ec R IH | off l rest ty v q n rest' et ec NL R IH]; intros OK.
  - split; reflexivity.
  - cbn [items_ok] in OK. apply andb_prop in OK. destruct OK as [_ OK]. destruct (IH OK) as [A B].
    split; [exact A |]. rewrite map_app, B. destruct t; reflexivity.
  - cbn [items_ok] in OK. apply andb_prop in OK. destruct OK as [OK OKR]. apply andb_prop in OK. destruct OK as [LOK _].
    pose proof (next_lex_rest l rest OKR) as [OK' _]. rewrite NL in OK'. cbn [snd] in OK'.
    destruct (IH OK') as [A B].
    cbn [map normalize flat_map]. fold (normalize (map rtok_of et)). unfold rtok_of at 1. cbn [ttype tval tquote].
    destruct (next_lex_cases l rest) as [P|(rs & rs2 & rest2 & cty & n' & -> & DW & ST & CK & P)]; rewrite P in NL.
    + injection NL as E1 E2 E3. subst rest'. rewrite <- E1. rewrite norm_tok_of by exact LOK.
      rewrite A. split; [reflexivity | exact B].
    + injection NL as <- <- <- _ <-.
      pose proof (items_ok_drop_ws _ OKR) as OKD. rewrite DW in OKD. cbn [items_ok] in OKD.
      apply andb_prop in OKD. destruct OKD as [OKD _]. apply andb_prop in OKD. destruct OKD as [W2 _].
      cbn [lex_ok] in LOK, W2.
      rewrite (norm_tok_compound rs rs2 _ LOK W2 ST CK). rewrite A.
      cbn [lexemes_of coms_of_items flat_map app]. fold (lexemes_of rest) (coms_of_items rest).
      rewrite <- (lexemes_drop_ws rest), <- (coms_drop_ws rest), DW.
      split; [reflexivity | exact B].
Qed.

Lemma lexemes_items_of : forall ls seps, length seps = S (length ls) -> lexemes_of (items_of ls seps) = ls.
Proof.
  assert (T : forall s X, lexemes_of (map ITriv s ++ X) = lexemes_of X).
  { induction s as [|t s IH]; intros X; [reflexivity | exact (IH X)]. }
  induction ls as [|l ls IH]; intros [|s seps] H; try discriminate H; cbn [items_of]; rewrite T.
  - reflexivity.
  - cbn [lexemes_of flat_map app]. fold (lexemes_of (items_of ls seps)). rewrite IH; [reflexivity | cbn in H; lia].
Qed.

Lemma coms_items_of : forall ls seps, length seps = S (length ls) -> coms_of_items (items_of ls seps) = comments_of seps.
Proof.
  assert (T : forall s X, coms_of_items (map ITriv s ++ X) = flat_map triv_com s ++ coms_of_items X).
  { induction s as [|t s IH]; intros X; [reflexivity |]. cbn [map app coms_of_items flat_map].
    fold (coms_of_items (map ITriv s ++ X)). rewrite IH, app_assoc. reflexivity. }
  assert (U : forall s, flat_map triv_com s =
                        flat_map (fun t => match t with TWs _ => [] | TLine body => [(45 :: 45 :: body, 0)]
                                                   | TBlock body => [(render_triv t, 1)] end) s) by reflexivity.
  induction ls as [|l ls IH]; intros [|s seps] H; try discriminate H; cbn [items_of comments_of flat_map]; rewrite T.
  - destruct seps; [| discriminate H]. cbn. rewrite !app_nil_r. apply U.
  - cbn [coms_of_items flat_map app]. fold (coms_of_items (items_of ls seps)). rewrite IH by (cbn in H; lia).
    rewrite U. reflexivity.
Qed.

(* ---------------------------------------------------------------------------------------------- *)
(* lex_faithful and its corollaries *)
Definition reading (toks : list token) : list rtok := normalize (map rtok_of toks).
Definition eof_rtok : rtok := (TT_EOF, [], 0).

Lemma normalize_app a b : normalize (a ++ b) = normalize a ++ normalize b.
Proof. unfold normalize. apply flat_map_app. Qed.

Lemma reading_snoc_eof ts i : reading (ts ++ [eof_at i]) = reading ts ++ [eof_rtok].
Proof.
  unfold reading. rewrite map_app, normalize_app. f_equal.
Qed.

Theorem raw_reading ls seps : wf ls seps ->
  reading (raw_tokens ls seps) = map tok_norm ls /\ map com_key (raw_comments ls seps) = comments_of seps.
Proof.
  intros [LEN OK]. unfold raw_tokens, raw_comments, expect_all.
  set (its := items_of ls seps) in *.
  pose proof (reads_expect (render_items its) (length its) its 0 (le_n _)) as R.
  destruct (reads_norm _ _ _ _ _ R OK) as [A B]. unfold reading. rewrite A, B.
  unfold its. rewrite lexemes_items_of, coms_items_of by exact LEN. split; reflexivity.
Qed.

Definition fits (max_in max_tok : N) (ls : list lexeme) (seps : list sep) : Prop :=
  N.of_nat (length (interleave ls seps)) <= max_in /\ N.of_nat (length (raw_tokens ls seps)) <= max_tok.

(* lex_faithful: kinds, decoded values and quote marks in source order, exactly one end marker, each comment once
   with its exact text *)
Theorem lex_faithful max_in max_tok ls seps : wf ls seps -> fits max_in max_tok ls seps ->
  exists toks cms, tokenize_with max_in max_tok (interleave ls seps) = Val (toks, cms) /\
                   reading toks = map tok_norm ls ++ [eof_rtok] /\ map com_key cms = comments_of seps.
Proof.
  intros WF [SZ LIM]. eexists. eexists. split; [apply lex_faithful_raw; assumption |].
  destruct (raw_reading ls seps WF) as [A B]. rewrite reading_snoc_eof, A. split; [reflexivity | exact B].
Qed.

(* changing only the separators does not change the sequence of kinds and values *)
Theorem layout_independent max_in max_tok ls seps1 seps2 :
  wf ls seps1 -> wf ls seps2 -> fits max_in max_tok ls seps1 -> fits max_in max_tok ls seps2 ->
  exists t1 c1 t2 c2,
    tokenize_with max_in max_tok (interleave ls seps1) = Val (t1, c1) /\
    tokenize_with max_in max_tok (interleave ls seps2) = Val (t2, c2) /\ reading t1 = reading t2.
Proof.
  intros W1 W2 F1 F2.
  destruct (lex_faithful _ _ _ _ W1 F1) as (t1 & c1 & E1 & R1 & _).
  destruct (lex_faithful _ _ _ _ W2 F2) as (t2 & c2 & E2 & R2 & _).
  exists t1, c1, t2, c2. repeat split; auto. congruence.
Qed.

Lemma case_variant_norm l l' : case_variant l l' -> tok_norm l = tok_norm l'.
Proof.
  intros [->|H]; [reflexivity |]. destruct l; try contradiction. destruct l'; try contradiction.
  destruct H as [E K]. cbn [tok_norm]. rewrite <- E.
  destruct (assoc_b keywords (to_upper (utf8 rs))); [reflexivity | congruence].
Qed.

(* ... nor does changing the letter case of keywords (and the separators) *)
Theorem keyword_case_independent max_in max_tok ls ls' seps seps' :
  Forall2 case_variant ls ls' -> wf ls seps -> wf ls' seps' ->
  fits max_in max_tok ls seps -> fits max_in max_tok ls' seps' ->
  exists t1 c1 t2 c2,
    tokenize_with max_in max_tok (interleave ls seps) = Val (t1, c1) /\
    tokenize_with max_in max_tok (interleave ls' seps') = Val (t2, c2) /\ reading t1 = reading t2.
Proof.
  intros CV W1 W2 F1 F2.
  destruct (lex_faithful _ _ _ _ W1 F1) as (t1 & c1 & E1 & R1 & _).
  destruct (lex_faithful _ _ _ _ W2 F2) as (t2 & c2 & E2 & R2 & _).
  exists t1, c1, t2, c2. repeat split; auto. rewrite R1, R2. f_equal.
  clear - CV. induction CV as [|l l' ls ls' H _ IH]; [reflexivity |]. cbn [map]. rewrite IH.
  f_equal. apply case_variant_norm. exact H.
Qed.
