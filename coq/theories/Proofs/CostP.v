(* Proofs about the position-conversion work models (C20; the functional equivalence also serves C05). *)
From Coq Require Import List Arith Bool Lia ArithRing.
From GV Require Import Model.Cost.
Import ListNotations.
Local Open Scope nat_scope.

Section P.
  Variable starts : list nat.
  Variable wd : nat -> nat.
  Variable len : nat.

  Notation nle := Cost.nle.
  Notation clamp := (Cost.clamp len).
  Notation wsum := (Cost.wsum wd len).
  Notation wsteps := (Cost.wsteps len).
  Notation line_start := (Cost.line_start starts).
  Notation rescan_loc := (Cost.rescan_loc starts wd len).
  Notation rescan_cost := (Cost.rescan_cost starts len).
  Notation incr_query := (Cost.incr_query starts wd len).
  Notation incr_run := (Cost.incr_run starts wd len).

  (* ---------------------------------------------------------------- the line loop *)
  Lemma nle_le_length : forall idx l, nle idx l <= length l.
  Proof. induction l as [|s r IH]; cbn [Cost.nle length]; [lia|]. destruct (idx <? s); lia. Qed.

  Lemma nle_nth_le : forall idx l k, k < nle idx l -> nth k l 0 <= idx.
  Proof.
    induction l as [|s r IH]; intros k Hk; cbn [Cost.nle] in Hk; [lia|].
    destruct (Nat.ltb_spec idx s) as [Hlt|Hge]; [lia|].
    destruct k as [|k]; cbn [nth]; [lia | apply IH; lia].
  Qed.

  Lemma nle_nth_gt : forall idx l, nle idx l < length l -> idx < nth (nle idx l) l 0.
  Proof.
    induction l as [|s r IH]; cbn [Cost.nle length]; intros H; [lia|].
    destruct (Nat.ltb_spec idx s) as [Hlt|Hge]; cbn [nth]; [lia | apply IH; lia].
  Qed.

  Lemma nle_skipn : forall idx l k, k <= nle idx l -> nle idx l = k + nle idx (skipn k l).
  Proof.
    induction l as [|s r IH]; intros k Hk; cbn [Cost.nle] in *.
    - assert (k = 0) by lia. subst. reflexivity.
    - destruct k as [|k]; [reflexivity|]. cbn [skipn].
      destruct (idx <? s); [lia|]. rewrite (IH k) at 1; lia.
  Qed.

  Lemma nle_mono : forall idx idx' l, idx <= idx' -> nle idx l <= nle idx' l.
  Proof.
    induction l as [|s r IH]; intros H; cbn [Cost.nle]; [lia|].
    pose proof (IH H). destruct (Nat.ltb_spec idx s); destruct (Nat.ltb_spec idx' s); lia.
  Qed.

  (* ---------------------------------------------------------------- the column loop *)
  Lemma clamp_mono a b : a <= b -> clamp a <= clamp b.
  Proof. unfold Cost.clamp. lia. Qed.

  Lemma wsum_split a b c : a <= b -> b <= c -> wsum a c = wsum a b + wsum b c.
  Proof.
    intros Hab Hbc. unfold Cost.wsum.
    pose proof (clamp_mono _ _ Hab). pose proof (clamp_mono _ _ Hbc).
    replace (clamp c - clamp a) with ((clamp b - clamp a) + (clamp c - clamp b)) by lia.
    rewrite seq_app, map_app, list_sum_app.
    replace (clamp a + (clamp b - clamp a)) with (clamp b) by lia. reflexivity.
  Qed.

  Lemma wsteps_split a b c : a <= b -> b <= c -> wsteps a c = wsteps a b + wsteps b c.
  Proof.
    intros Hab Hbc. unfold Cost.wsteps.
    pose proof (clamp_mono _ _ Hab). pose proof (clamp_mono _ _ Hbc). lia.
  Qed.

  (* ---------------------------------------------------------------- functional equivalence of the two forms *)
  Hypothesis starts_head : exists rest, starts = 0 :: rest.      (* lineStarts always begins with 0 *)

  Lemma nle_pos idx : 1 <= nle idx starts.
  Proof. destruct starts_head as [rest ->]. cbn [Cost.nle]. destruct (Nat.ltb_spec idx 0); lia. Qed.

  (* the resume point describes its own offset correctly *)
  Definition linv (st : lstate) : Prop :=
    ls_valid st = true ->
    S (ls_lidx st) = nle (ls_index st) starts /\
    ls_col st = 1 + wsum (line_start (ls_lidx st)) (ls_index st).

  Lemma rescan_loc_eq idx : rescan_loc idx = (nle idx starts, 1 + wsum (line_start (nle idx starts - 1)) idx).
  Proof.
    unfold Cost.rescan_loc. pose proof (nle_pos idx) as Hp.
    destruct (Nat.eqb_spec (nle idx starts) 0); [lia|]. f_equal. lia.
  Qed.

  Theorem incr_query_correct : forall st idx,
    linv st ->
    let '(st', ans, _) := incr_query st idx in linv st' /\ ans = rescan_loc idx.
  Proof.
    intros st idx Hinv. unfold Cost.incr_query.
    set (restart := negb (ls_valid st) || (length starts <=? ls_lidx st) || (idx <? ls_index st)).
    pose proof (nle_pos idx) as Hpos.
    destruct restart eqn:Hre.
    - (* relocation: the line is looked up afresh, the column counted from the start of that line *)
      set (l1 := nle idx starts - 1).
      assert (Hadv : nle idx (skipn (S l1) starts) = 0).
      { pose proof (nle_skipn idx starts (S l1) ltac:(subst l1; lia)). subst l1. lia. }
      rewrite Hadv. cbn [Nat.eqb]. rewrite Nat.add_0_r.
      split.
      + intros _. cbn [ls_lidx ls_index ls_col]. split; [subst l1; lia | reflexivity].
      + rewrite rescan_loc_eq. f_equal. subst l1. lia.
    - (* forward query *)
      apply orb_false_iff in Hre. destruct Hre as [Hre Hidx]. apply orb_false_iff in Hre. destruct Hre as [Hv Hl].
      apply negb_false_iff in Hv. destruct (Hinv Hv) as [Hn Hc].
      apply Nat.ltb_ge in Hidx. apply Nat.leb_gt in Hl.
      pose proof (nle_mono _ _ starts Hidx) as Hm.
      pose proof (nle_skipn idx starts (S (ls_lidx st)) ltac:(lia)) as Hsk.
      set (adv := nle idx (skipn (S (ls_lidx st)) starts)) in *.
      assert (Hls : line_start (ls_lidx st) <= ls_index st).
      { unfold Cost.line_start. apply nle_nth_le. lia. }
      destruct (Nat.eqb_spec adv 0) as [Ha|Ha].
      + rewrite Ha, Nat.add_0_r. split.
        * intros _. cbn [ls_lidx ls_index ls_col]. split; [lia|].
          rewrite Hc. pose proof (wsum_split _ _ _ Hls Hidx) as Hsp. lia.
        * rewrite rescan_loc_eq. f_equal; [lia|].
          rewrite Hc. pose proof (wsum_split _ _ _ Hls Hidx) as Hsp.
          replace (nle idx starts - 1) with (ls_lidx st) by lia. lia.
      + split.
        * intros _. cbn [ls_lidx ls_index ls_col]. split; [lia | reflexivity].
        * rewrite rescan_loc_eq. f_equal; [lia|].
          replace (nle idx starts - 1) with (ls_lidx st + adv) by lia. reflexivity.
  Qed.

  Lemma linv0 : linv lstate0.
  Proof. intros H. discriminate. Qed.

  (* every list of queries, in any order: the repaired form answers exactly what the pinned form answers *)
  Theorem incr_run_correct : forall qs st, linv st -> fst (incr_run st qs) = map rescan_loc qs.
  Proof.
    induction qs as [|q r IH]; intros st Hinv; [reflexivity|].
    cbn [Cost.incr_run map]. pose proof (incr_query_correct st q Hinv) as Hq.
    destruct (incr_query st q) as [[st' ans] c]. destruct Hq as [Hinv' ->].
    specialize (IH st' Hinv'). destruct (incr_run st' r) as [answers total]. cbn [fst] in *. now rewrite IH.
  Qed.

  (* ---------------------------------------------------------------- work of the repaired form *)
  Hypothesis starts_sorted : forall i j, i <= j -> j < length starts -> nth i starts 0 <= nth j starts 0.

  Definition phi (st : lstate) : nat := ls_lidx st + clamp (ls_index st).

  (* a forward query pays for exactly the lines and bytes it moves over *)
  Lemma incr_forward_cost : forall st idx,
    linv st -> ls_valid st = true -> ls_index st <= idx ->
    let '(st', _, c) := incr_query st idx in c + phi st <= phi st' /\ ls_valid st' = true /\ ls_index st' = idx.
  Proof.
    intros st idx Hinv Hv Hidx. unfold Cost.incr_query.
    destruct (Hinv Hv) as [Hn Hc].
    pose proof (nle_le_length (ls_index st) starts) as Hlen.
    assert (Hre : negb (ls_valid st) || (length starts <=? ls_lidx st) || (idx <? ls_index st) = false).
    { rewrite Hv. cbn [negb orb]. apply orb_false_iff. split; [apply Nat.leb_gt; lia | apply Nat.ltb_ge; lia]. }
    rewrite Hre. cbn [Nat.add].
    pose proof (nle_mono _ _ starts Hidx) as Hm.
    pose proof (nle_skipn idx starts (S (ls_lidx st)) ltac:(lia)) as Hsk.
    set (adv := nle idx (skipn (S (ls_lidx st)) starts)) in *.
    unfold phi. cbn [ls_lidx ls_index ls_valid].
    destruct (Nat.eqb_spec adv 0) as [Ha|Ha].
    - split; [|split; reflexivity]. unfold Cost.wsteps. pose proof (clamp_mono _ _ Hidx). lia.
    - split; [|split; reflexivity].
      (* the new line starts after the old resume offset *)
      pose proof (nle_le_length idx starts) as Hlen'.
      assert (Hgt : ls_index st < line_start (ls_lidx st + adv)).
      { unfold Cost.line_start.
        pose proof (nle_nth_gt (ls_index st) starts ltac:(lia)) as Hg.
        pose proof (starts_sorted (nle (ls_index st) starts) (ls_lidx st + adv) ltac:(lia) ltac:(lia)). lia. }
      assert (Hle : line_start (ls_lidx st + adv) <= idx).
      { unfold Cost.line_start. apply nle_nth_le. lia. }
      unfold Cost.wsteps.
      pose proof (clamp_mono _ _ (Nat.lt_le_incl _ _ Hgt)). pose proof (clamp_mono _ _ Hle). lia.
  Qed.

  Fixpoint nondecreasing_from (a : nat) (qs : list nat) : Prop :=
    match qs with [] => True | q :: r => a <= q /\ nondecreasing_from q r end.

  Lemma incr_run_forward_cost : forall qs st,
    linv st -> ls_valid st = true -> nondecreasing_from (ls_index st) qs ->
    snd (incr_run st qs) + phi st <= length starts + len.
  Proof.
    induction qs as [|q r IH]; intros st Hinv Hv Hnd.
    - cbn [Cost.incr_run snd]. unfold phi. destruct (Hinv Hv) as [Hn _].
      pose proof (nle_le_length (ls_index st) starts). unfold Cost.clamp. lia.
    - destruct Hnd as [Hq Hnd]. cbn [Cost.incr_run].
      pose proof (incr_query_correct st q Hinv) as Hcq. pose proof (incr_forward_cost st q Hinv Hv Hq) as Hfc.
      destruct (incr_query st q) as [[st' ans] c]. destruct Hcq as [Hinv' _]. destruct Hfc as (Hc & Hv' & Hi').
      rewrite <- Hi' in Hnd. specialize (IH st' Hinv' Hv' Hnd).
      destruct (incr_run st' r) as [answers total]. cbn [snd] in *. lia.
  Qed.

  (* one tokenizer run: the queries come in increasing offset order, starting from an invalid resume point.
     All position conversion together costs at most one pass over the line table and the input. *)
  Theorem incr_total_linear : forall q qs,
    nondecreasing_from q qs ->
    snd (incr_run lstate0 (q :: qs)) <= 1 + length starts + 2 * len.
  Proof.
    intros q qs Hnd. cbn [Cost.incr_run].
    pose proof (incr_query_correct lstate0 q linv0) as Hcq.
    unfold Cost.incr_query in *. cbn [ls_valid lstate0 negb orb] in *.
    set (l1 := nle q starts - 1) in *.
    assert (Hadv : nle q (skipn (S l1) starts) = 0).
    { pose proof (nle_pos q). pose proof (nle_skipn q starts (S l1) ltac:(subst l1; lia)). subst l1. lia. }
    rewrite Hadv in *. cbn [Nat.eqb] in *. rewrite Nat.add_0_r in *.
    destruct Hcq as [Hinv' _].
    set (st' := {| ls_valid := true; ls_index := q; ls_lidx := l1; ls_col := 1 + wsum (line_start l1) q |}) in *.
    pose proof (incr_run_forward_cost qs st' Hinv' eq_refl Hnd) as Hf.
    destruct (incr_run st' qs) as [answers total]. cbn [snd] in *.
    unfold phi in Hf. cbn [ls_lidx ls_index st'] in Hf.
    unfold Cost.wsteps, Cost.clamp. lia.
  Qed.
End P.

(* ---------------------------------------------------------------- work of the pinned form: quadratic *)
(* one line of input (line table [0]), k queries at offsets 0, d, 2d, ... : the total is k + d*k*(k-1)/2 *)
Definition evenly (d k : nat) : list nat := map (fun j => j * d) (seq 0 k).

Lemma rescan_cost_one_line len idx : idx <= len -> Cost.rescan_cost [0] len idx = 1 + idx.
Proof.
  intros H. unfold Cost.rescan_cost. cbn [Cost.nle]. destruct (Nat.ltb_spec idx 0); [lia|].
  cbn [Nat.eqb Nat.sub Cost.line_start nth]. unfold Cost.wsteps, Cost.clamp. lia.
Qed.

Theorem rescan_total_quadratic : forall d k len, d * k <= len ->
  2 * Cost.rescan_total [0] len (evenly d k) = 2 * k + d * k * (k - 1).
Proof.
  intros d k len. unfold evenly, Cost.rescan_total. induction k as [|k IH]; intros Hl; [cbn; lia|].
  rewrite seq_S, !map_app, list_sum_app. cbn [map list_sum Nat.add].
  rewrite rescan_cost_one_line by nia. specialize (IH ltac:(nia)).
  rewrite Nat.mul_add_distr_l, IH. replace (S k - 1) with k by lia.
  unfold list_sum; cbn [fold_right]. destruct k as [|k']; [cbn; rewrite ?Nat.mul_0_r, ?Nat.mul_1_r; cbn; lia|]. replace (S k' - 1) with k' by lia. ring.
Qed.
