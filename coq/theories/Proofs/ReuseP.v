(* ReuseP.v — proofs for Model/Reuse.v (C08).
   Generic part: any implementation that respects a footprint table satisfying [table_ok] has no carry-over:
   after ANY history the outcome of a call equals the outcome on a new instance carrying only the configuration
   of the current holder; boundary operations give back an instance equal to a new one; whatever the pool hands
   out is equal to a new one.  Instance part: the parser and tokenizer transformers of Model/Reuse.v respect their
   hand-written tables, and the tables satisfy the conditions (complete evaluation). *)
From Coq Require Import List Arith Bool NArith Lia.
From GV Require Import Model.Loops Model.Reuse.
Import ListNotations.
Local Open Scope nat_scope.

Section Generic.
  Variables field op X S R : Type.
  Variable T : footprint field op.
  Variable feq : field -> S -> S -> Prop.
  Hypothesis feq_refl : forall f s, feq f s s.
  Hypothesis feq_sym : forall f a b, feq f a b -> feq f b a.
  Hypothesis feq_trans : forall f a b c, feq f a b -> feq f b c -> feq f a c.
  Variable fresh : S.
  Variable sem : op -> X -> S -> S * R.
  Hypothesis HR : respects T feq fresh sem.
  Hypothesis fields_complete : forall f, In f (fp_fields T).
  Hypothesis ops_complete : forall o, In o (fp_ops T).

  Notation run := (Reuse.run sem).
  Notation cfg := (Reuse.cfg T).
  Notation result := (Reuse.result sem).
  Notation same_all := (Reuse.same_all T feq).
  Notation step := (Reuse.step sem).

  Lemma run_snoc : forall (h : hist op X) e s, run (h ++ [e]) s = step (run h s) e.
  Proof. intros. unfold Reuse.run. rewrite fold_left_app. reflexivity. Qed.

  Lemma cfg_snoc : forall (h : hist op X) e, cfg (h ++ [e]) = cfg_step T (cfg h) e.
  Proof. intros. unfold Reuse.cfg. rewrite fold_left_app. reflexivity. Qed.

  Lemma cfg_all_config : forall h : hist op X, Forall (fun e => fp_kind T (fst e) = Config) (cfg h).
  Proof.
    intros h. induction h as [|e h IH] using rev_ind.
    - constructor.
    - rewrite cfg_snoc. unfold cfg_step. destruct (fp_kind T (fst e)) eqn:K.
      + exact IH.
      + apply Forall_app. split; [exact IH|]. constructor; [exact K|constructor].
      + constructor.
  Qed.

  Lemma not_configurable_keep : forall f o, configurable T f = false -> fp_kind T o = Config -> fp_eff T o f = Keep.
  Proof.
    intros f o Hc Hk. unfold configurable in Hc.
    destruct (fp_eff T o f) eqn:E; try reflexivity; exfalso;
      (assert (Hex : existsb (fun o0 => is_config T o0 && negb (effect_eqb (fp_eff T o0 f) Keep)) (fp_ops T) = true);
       [apply existsb_exists; exists o; split; [apply ops_complete|unfold is_config; rewrite Hk, E; reflexivity]|congruence]).
  Qed.

  (* configuration never touches a field the holder cannot set *)
  Lemma config_run_fresh : forall hc : hist op X, Forall (fun e => fp_kind T (fst e) = Config) hc ->
    forall f, configurable T f = false -> feq f (run hc fresh) fresh.
  Proof.
    intros hc. induction hc as [|e hc IH] using rev_ind; intros Hall f Hc.
    - apply feq_refl.
    - apply Forall_app in Hall. destruct Hall as [Hh He]. inversion He as [|? ? Hk _]; subst.
      rewrite run_snoc. eapply feq_trans; [|apply IH; assumption].
      unfold Reuse.step. apply (r_keep HR). apply not_configurable_keep; assumption.
  Qed.

  Lemma reads_live : forall o f, fp_reads T o f = true -> live T f = true.
  Proof. intros o f H. unfold live. apply existsb_exists. exists o. split; [apply ops_complete|exact H]. Qed.

  Hypothesis Htable : table_ok T = true.

  Lemma live_wb : forall f, live T f = true -> wb T f = true.
  Proof.
    intros f Hl. unfold table_ok in Htable. rewrite forallb_forall in Htable.
    specialize (Htable f (fields_complete f)). rewrite Hl in Htable. exact Htable.
  Qed.

  Lemma wb_cell : forall f o, wb T f = true -> cell_ok T f o = true.
  Proof. intros f o H. unfold wb in H. rewrite forallb_forall in H. apply H. apply ops_complete. Qed.

  (* the invariant: every well-behaved field of the used instance equals that field of a new instance carrying
     the current holder's configuration *)
  Lemma invariant : forall s0, same_all s0 fresh ->
    forall (h : hist op X) f, wb T f = true -> feq f (run h s0) (run (cfg h) fresh).
  Proof.
    intros s0 Hs0 h. induction h as [|e h IH] using rev_ind; intros f Hwb.
    - cbn. apply Hs0. apply fields_complete.
    - rewrite run_snoc, cfg_snoc. pose proof (wb_cell f (fst e) Hwb) as Hc.
      unfold cell_ok in Hc. unfold cfg_step. destruct e as [o x]. cbn [fst snd] in *.
      destruct (fp_kind T o) eqn:K.
      + (* Work *)
        unfold Reuse.step; cbn [fst snd].
        destruct (fp_eff T o f) eqn:E; try discriminate.
        * eapply feq_trans; [apply (r_keep HR); exact E|apply IH; exact Hwb].
        * eapply feq_trans; [apply (r_zero HR); exact E|].
          apply feq_sym. apply config_run_fresh; [apply cfg_all_config|]. destruct (configurable T f); [discriminate|reflexivity].
        * destruct (r_kz HR o x (run h s0) f E) as [Hk|Hz].
          -- eapply feq_trans; [exact Hk|apply IH; exact Hwb].
          -- eapply feq_trans; [exact Hz|]. apply feq_sym. apply config_run_fresh; [apply cfg_all_config|].
             destruct (configurable T f); [discriminate|reflexivity].
      + (* Config *)
        rewrite run_snoc. unfold Reuse.step; cbn [fst snd].
        destruct (fp_eff T o f) eqn:E; try discriminate.
        * eapply feq_trans; [apply (r_keep HR); exact E|].
          eapply feq_trans; [apply IH; exact Hwb|]. apply feq_sym. apply (r_keep HR). exact E.
        * eapply feq_trans; [apply (r_zero HR); exact E|].
          apply feq_sym. apply (r_zero HR). exact E.
        * destruct (r_noninterf HR o x (run h s0) (run (cfg h) fresh)) as [_ Hd].
          { intros f' Hr. apply IH. apply live_wb. eapply reads_live. exact Hr. }
          apply Hd. exact E.
      + (* Boundary *)
        cbn. unfold Reuse.step; cbn [fst snd].
        apply (r_zero HR). destruct (fp_eff T o f); try discriminate. reflexivity.
  Qed.

  (* a well-behaved field the holder cannot set is, after any history, as in a new instance *)
  Theorem clean_field_gen : forall s0, same_all s0 fresh ->
    forall (h : hist op X) f, wb T f = true -> configurable T f = false -> feq f (run h s0) fresh.
  Proof.
    intros s0 Hs0 h f Hwb Hc. eapply feq_trans; [apply invariant; assumption|].
    apply config_run_fresh; [apply cfg_all_config|exact Hc].
  Qed.

  Theorem no_carry_over_gen : forall s0, same_all s0 fresh ->
    forall (h : hist op X) probe, result (run h s0) probe = result (run (cfg h) fresh) probe.
  Proof.
    intros s0 Hs0 h [o x]. unfold Reuse.result; cbn [fst snd].
    destruct (r_noninterf HR o x (run h s0) (run (cfg h) fresh)) as [Hres _]; [|exact Hres].
    intros f Hr. apply invariant; [exact Hs0|]. apply live_wb. eapply reads_live. exact Hr.
  Qed.

  Hypothesis Hbound : boundaries_ok T = true.

  Theorem reset_is_fresh_gen : forall o, fp_kind T o = Boundary ->
    forall (h : hist op X) x s0, same_all (run (h ++ [(o, x)]) s0) fresh.
  Proof.
    intros o K h x s0 f Hf. rewrite run_snoc. unfold Reuse.step; cbn [fst snd].
    apply (r_zero HR).
    unfold boundaries_ok in Hbound. rewrite forallb_forall in Hbound. specialize (Hbound o (ops_complete o)).
    unfold is_boundary in Hbound. rewrite K in Hbound. unfold boundary_zero in Hbound. rewrite forallb_forall in Hbound.
    specialize (Hbound f Hf). destruct (fp_eff T o f); try discriminate. reflexivity.
  Qed.

  Variable put : op.
  Hypothesis put_boundary : fp_kind T put = Boundary.

  Theorem pool_get_is_fresh_gen : forall s, obtainable fresh sem put s -> same_all s fresh.
  Proof.
    intros s H. induction H.
    - intros f _. apply feq_refl.
    - apply reset_is_fresh_gen. exact put_boundary.
  Qed.

  Theorem no_carry_over_pooled_gen : forall s0, obtainable fresh sem put s0 ->
    forall (h : hist op X) probe, result (run h s0) probe = result (run (cfg h) fresh) probe.
  Proof. intros s0 H. apply no_carry_over_gen. apply pool_get_is_fresh_gen. exact H. Qed.

  (* a work operation that clears the per-run state (Tokenizer.Reset): afterwards the instance is a new one
     carrying the holder's configuration, on every field outside [except] *)
  Theorem rezero_gen : forall o except, fp_kind T o = Work -> rezero_ok T except o = true ->
    forall s0, same_all s0 fresh -> forall (h : hist op X) x f, except f = false ->
    feq f (run (h ++ [(o, x)]) s0) (run (cfg h) fresh).
  Proof.
    intros o except K Hz s0 Hs0 h x f Hex. rewrite run_snoc. unfold Reuse.step; cbn [fst snd].
    unfold rezero_ok in Hz. rewrite forallb_forall in Hz. specialize (Hz f (fields_complete f)). rewrite Hex in Hz. cbn in Hz.
    destruct (fp_eff T o f) eqn:E; try discriminate.
    - eapply feq_trans; [apply (r_keep HR); exact E|]. apply invariant; assumption.
    - eapply feq_trans; [apply (r_zero HR); exact E|]. apply feq_sym.
      apply config_run_fresh; [apply cfg_all_config|]. destruct (configurable T f); [discriminate|reflexivity].
  Qed.
End Generic.

(* ------------------------------------------------------------------------------------------- *)
(* the parser instance                                                                          *)

Lemma pfeq_refl : forall f s, pfeq f s s.
Proof. intros [] s; reflexivity. Qed.
Lemma pfeq_sym : forall f a b, pfeq f a b -> pfeq f b a.
Proof. intros [] a b H; cbn in *; congruence. Qed.
Lemma pfeq_trans : forall f a b c, pfeq f a b -> pfeq f b c -> pfeq f a c.
Proof. intros [] a b c H1 H2; cbn in *; congruence. Qed.
Lemma pfields_complete : forall D f, In f (fp_fields (ptable D)).
Proof. intros D []; cbn; tauto. Qed.
Lemma pops_complete : forall D o, In o (fp_ops (ptable D)).
Proof. intros D []; cbn; tauto. Qed.
Lemma pfeq_all_eq : forall a b, (forall f, pfeq f a b) -> a = b.
Proof.
  intros [] [] H.
  pose proof (H FTokens); pose proof (H FPos); pose proof (H FCur); pose proof (H FDepth); pose proof (H FCtx); pose proof (H FCancel);
  pose proof (H FPositions); pose proof (H FStrict); pose proof (H FDialect). cbn in *. congruence.
Qed.

Lemma ptable_ok : table_ok (ptable no_defects) = true.
Proof. vm_compute. reflexivity. Qed.
Lemma pbound_ok : boundaries_ok (ptable no_defects) = true.
Proof. vm_compute. reflexivity. Qed.

Section ParserInst.
  Variable PS : pview -> nat -> sres nat.
  Variable ctx_done0 : cx -> bool.
  Variable REC_END : pview -> nat.
  Notation psem0 := (psem no_defects PS ctx_done0 REC_END).

  Lemma apply_opts_frame : forall opts s,
    let s' := fold_left apply_opt opts s in
    p_tokens s' = p_tokens s /\ p_pos s' = p_pos s /\ p_cur s' = p_cur s /\ p_depth s' = p_depth s /\
    p_ctx s' = p_ctx s /\ p_cancel s' = p_cancel s /\ p_positions s' = p_positions s.
  Proof.
    induction opts as [|o r IH]; intros s; cbn.
    - repeat split.
    - specialize (IH (apply_opt s o)). cbn in IH. destruct IH as (A & B & C & E & F & F' & G).
      destruct o; cbn in *; repeat split; assumption.
  Qed.

  Lemma apply_opts_det : forall opts s1 s2, p_strict s1 = p_strict s2 -> p_dialect s1 = p_dialect s2 ->
    p_strict (fold_left apply_opt opts s1) = p_strict (fold_left apply_opt opts s2) /\
    p_dialect (fold_left apply_opt opts s1) = p_dialect (fold_left apply_opt opts s2).
  Proof.
    induction opts as [|o r IH]; intros s1 s2 H1 H2; cbn.
    - split; assumption.
    - apply IH; destruct o; cbn; congruence.
  Qed.

  (* the per-field read-before-write analysis of the transformers: they respect the hand-written table *)
  Lemma psem_respects : respects (ptable no_defects) pfeq fresh_p psem0.
  Proof.
    constructor.
    - (* non-interference *)
      intros o x s1 s2 H.
      destruct o; cbn [ptable fp_reads fp_eff preads peff pkind is_entry sets_positions strict_aware no_defects
                              d_stale_positions andb orb negb] in *.
      + (* OParse *)
        pose proof (H FDepth eq_refl) as Hd; pose proof (H FCtx eq_refl) as Hc;
        pose proof (H FStrict eq_refl) as Hs; pose proof (H FDialect eq_refl) as Hl.
        destruct s1, s2; cbn in *; subst.
        split; [|intros []; discriminate].
        unfold psem, drop_positions, load_tokens, set_positions, view_of; cbn.
        destruct (i_convfail x); [reflexivity|].
        match goal with |- snd (let (_, _) := ?a in _) = snd (let (_, _) := ?b in _) => change b with a; destruct a end.
        reflexivity.
      + (* OParsePos *)
        pose proof (H FDepth eq_refl) as Hd; pose proof (H FCtx eq_refl) as Hc;
        pose proof (H FStrict eq_refl) as Hs; pose proof (H FDialect eq_refl) as Hl.
        destruct s1, s2; cbn in *; subst.
        split; [|intros []; discriminate].
        unfold psem, load_tokens, set_positions, view_of; cbn.
        destruct (i_convfail x); [reflexivity|].
        match goal with |- snd (let (_, _) := ?a in _) = snd (let (_, _) := ?b in _) => change b with a; destruct a end.
        reflexivity.
      + (* OParseCtx *)
        pose proof (H FDepth eq_refl) as Hd; pose proof (H FStrict eq_refl) as Hs; pose proof (H FDialect eq_refl) as Hl.
        destruct s1, s2; cbn in *; subst.
        split; [|intros []; discriminate].
        unfold psem, drop_positions, load_tokens, set_positions, set_ctx, view_of; cbn.
        destruct (i_convfail x); [reflexivity|]. destruct (ctx_done0 (i_ctx x)); [reflexivity|].
        match goal with |- snd (let (_, _) := ?a in _) = snd (let (_, _) := ?b in _) => change b with a; destruct a end.
        reflexivity.
      + (* ORecover *)
        pose proof (H FDepth eq_refl) as Hd; pose proof (H FCtx eq_refl) as Hc; pose proof (H FDialect eq_refl) as Hl.
        destruct s1, s2; cbn in *; subst.
        split; [|intros []; discriminate]. reflexivity.
      + (* ORecoverPos *)
        pose proof (H FDepth eq_refl) as Hd; pose proof (H FCtx eq_refl) as Hc; pose proof (H FDialect eq_refl) as Hl.
        destruct s1, s2; cbn in *; subst.
        split; [|intros []; discriminate].
        unfold psem; cbn. destruct (i_convfail x); reflexivity.
      + (* OApply *)
        pose proof (H FStrict eq_refl) as Hs; pose proof (H FDialect eq_refl) as Hl. cbn in Hs, Hl.
        split; [reflexivity|]. cbn [psem fst].
        destruct (apply_opts_det (i_opts x) s1 s2 Hs Hl) as [A B].
        intros [] E; try discriminate; cbn; assumption.
      + split; [reflexivity|intros []; discriminate].
      + split; [reflexivity|intros []; discriminate].
      + split; [reflexivity|intros []; discriminate].
    - (* Keep *)
      intros o x s f E.
      destruct o, f; cbn in E; try discriminate; destruct s; unfold psem;
        cbn [drop_positions no_defects d_stale_positions d_reset_keeps_dialect d_release_keeps_cfg];
        try (destruct (i_convfail x); [reflexivity|]);
        try (destruct (ctx_done0 (i_ctx x)); [reflexivity|]);
        try (match goal with |- pfeq _ (fst (let (_, _) := ?a in _)) _ => destruct a end);
        try reflexivity;
        try (cbn [fst]; pose proof (apply_opts_frame (i_opts x) (mkP p_tokens p_pos p_cur p_depth p_ctx p_cancel p_positions p_strict p_dialect)) as Hf;
             cbn in Hf; destruct Hf as (A & B & C & E' & F & F' & G); cbn; assumption).
    - (* Zero *)
      intros o x s f E.
      destruct o, f; cbn in E; try discriminate; reflexivity.
    - (* KZ *)
      intros o x s f E.
      destruct o, f; cbn in E; try discriminate; destruct s; unfold psem;
        cbn [drop_positions no_defects d_stale_positions];
        try (destruct (i_convfail x); [left; reflexivity|]);
        try (destruct (ctx_done0 (i_ctx x)); [left; reflexivity|]);
        try (match goal with |- pfeq _ (fst (let (_, _) := ?a in _)) _ \/ _ => destruct a end);
        right; reflexivity.
  Qed.

  Notation prun := (Reuse.run psem0).
  Notation pcfg := (Reuse.cfg (ptable no_defects)).
  Notation pres_ := (Reuse.result psem0).

  (* after ANY history on a parser obtained new or from the pool, a call gives what it gives on a new parser
     carrying only the options the current holder applied *)
  Theorem no_carry_over : forall s0, obtainable fresh_p psem0 OPutGet s0 ->
    forall (h : hist pop pin) probe, pres_ (prun h s0) probe = pres_ (prun (pcfg h) fresh_p) probe.
  Proof.
    apply (no_carry_over_pooled_gen pfield pop pin pstate presult (ptable no_defects) pfeq pfeq_refl pfeq_sym pfeq_trans
             fresh_p psem0 psem_respects (pfields_complete _) (pops_complete _) ptable_ok pbound_ok OPutGet eq_refl).
  Qed.

  (* no call — failing, cancelled before or during the parse, too deeply nested — leaves a context or a non-zero
     depth behind: after ANY history both are as in a new parser *)
  Theorem depth_ctx_never_left_behind : forall s0, obtainable fresh_p psem0 OPutGet s0 ->
    forall (h : hist pop pin), p_depth (prun h s0) = 0 /\ p_ctx (prun h s0) = None.
  Proof.
    intros s0 H0 h.
    assert (Hs : Reuse.same_all (ptable no_defects) pfeq s0 fresh_p).
    { apply (pool_get_is_fresh_gen pfield pop pin pstate presult (ptable no_defects) pfeq pfeq_refl fresh_p psem0 psem_respects
               (pops_complete _) pbound_ok OPutGet eq_refl s0 H0). }
    split.
    - apply (clean_field_gen pfield pop pin pstate presult (ptable no_defects) pfeq pfeq_refl pfeq_sym pfeq_trans
               fresh_p psem0 psem_respects (pfields_complete _) (pops_complete _) ptable_ok s0 Hs h FDepth); reflexivity.
    - apply (clean_field_gen pfield pop pin pstate presult (ptable no_defects) pfeq pfeq_refl pfeq_sym pfeq_trans
               fresh_p psem0 psem_respects (pfields_complete _) (pops_complete _) ptable_ok s0 Hs h FCtx); reflexivity.
  Qed.

  Theorem reset_is_fresh : forall o, In o [OReset; ORelease; OPutGet] ->
    forall (h : hist pop pin) x s0, prun (h ++ [(o, x)]) s0 = fresh_p.
  Proof.
    intros o Ho h x s0. apply pfeq_all_eq. intros f.
    assert (K : fp_kind (ptable no_defects) o = Boundary) by (cbn in Ho; destruct Ho as [<-|[<-|[<-|[]]]]; reflexivity).
    apply (reset_is_fresh_gen pfield pop pin pstate presult (ptable no_defects) pfeq fresh_p psem0 psem_respects
             (pops_complete _) pbound_ok o K h x s0 f (pfields_complete _ f)).
  Qed.

  Theorem pool_get_is_fresh : forall s, obtainable fresh_p psem0 OPutGet s -> s = fresh_p.
  Proof.
    intros s H. apply pfeq_all_eq. intros f.
    apply (pool_get_is_fresh_gen pfield pop pin pstate presult (ptable no_defects) pfeq pfeq_refl fresh_p psem0 psem_respects
             (pops_complete _) pbound_ok OPutGet eq_refl s H f (pfields_complete _ f)).
  Qed.
End ParserInst.

(* the guard behind [preads _ FCur = false]: the strict loop consults the token class only at cursor positions
   inside the slice, so with an empty slice (the one case in which currentToken is not overwritten) nothing is read *)
Lemma cur_guarded : forall PS v strict fuel acc, v_tokens v = [] ->
  fst (parse_at PS v strict (S fuel) 0 acc) =
  match acc with [] => if strict then PErr E_STRICT else PErr E_EMPTY | _ => POk acc end.
Proof.
  intros PS v strict fuel acc H. cbn [parse_at]. rewrite H. cbn. destruct acc, strict; reflexivity.
Qed.

(* parse_at is Loops.parse plus the final cursor *)
Lemma parse_at_parse : forall PS v strict fuel pos acc,
  fst (parse_at PS v strict fuel pos acc) =
  parse nat (length (v_tokens v)) (is_eof_t (v_tokens v)) (is_semi_t (v_tokens v)) (PS v) strict fuel pos acc.
Proof.
  intros PS v strict fuel. induction fuel as [|f IH]; intros pos acc; [reflexivity|].
  cbn [parse_at parse].
  destruct (in_range (length (v_tokens v)) (is_eof_t (v_tokens v)) pos).
  - destruct (is_semi_t (v_tokens v) pos).
    + destruct strict; [reflexivity|apply IH].
    + destruct (PS v pos); [apply IH|reflexivity].
  - destruct acc; [destruct strict|]; reflexivity.
Qed.

(* ------------------------------------------------------------------------------------------- *)
(* the tokenizer instance                                                                       *)

Lemma tfeq_refl : forall f s, tfeq f s s.
Proof. intros [] s; reflexivity. Qed.
Lemma tfeq_sym : forall f a b, tfeq f a b -> tfeq f b a.
Proof. intros [] a b H; cbn in *; congruence. Qed.
Lemma tfeq_trans : forall f a b c, tfeq f a b -> tfeq f b c -> tfeq f a c.
Proof. intros [] a b c H1 H2; cbn in *; congruence. Qed.
Lemma tfields_complete : forall D f, In f (fp_fields (ttable D)).
Proof. intros D []; cbn; tauto. Qed.
Lemma tops_complete : forall D o, In o (fp_ops (ttable D)).
Proof. intros D []; cbn; tauto. Qed.
Lemma tfeq_all_eq : forall a b, (forall f, tfeq f a b) -> a = b.
Proof.
  intros [] [] H.
  pose proof (H TInput); pose proof (H TPos); pose proof (H TLineStart); pose proof (H TLineStarts); pose proof (H TLine);
  pose proof (H TKeywords); pose proof (H TDialect); pose proof (H TLogger); pose proof (H TConfigured); pose proof (H TLoc); pose proof (H TComments).
  cbn in *. congruence.
Qed.

Lemma ttable_ok : table_ok (ttable no_tdefects) = true.
Proof. vm_compute. reflexivity. Qed.
Lemma tbound_ok : boundaries_ok (ttable no_tdefects) = true.
Proof. vm_compute. reflexivity. Qed.
Definition is_logger (f : tfield) : bool := match f with TLogger => true | _ => false end.
Lemma treset_rezero : rezero_ok (ttable no_tdefects) is_logger OTReset = true.
Proof. vm_compute. reflexivity. Qed.

Section TokenizerInst.
  Variable LEX : option cx -> list N -> nat * list nat * (nat * nat * nat) * list nat.
  Variable tctx_done0 : cx -> bool.
  Variable kw_of_dialect : nat -> nat.
  Notation tsem0 := (tsem no_tdefects LEX tctx_done0 kw_of_dialect).

  Lemma tsem_respects : respects (ttable no_tdefects) tfeq fresh_t tsem0.
  Proof.
    constructor.
    - intros o x s1 s2 H. destruct o; cbn [ttable fp_reads fp_eff treads teff no_tdefects td_early_return_keeps_comments] in *.
      + split; [|intros []; discriminate]. unfold tsem, early, tokenize; cbn.
        destruct (ti_too_large x); [reflexivity|]. destruct (LEX None (ti_input x)) as [[[r c] p] l]. reflexivity.
      + split; [|intros []; discriminate]. unfold tsem, early, tokenize; cbn.
        destruct (tctx_done0 (ti_ctx x)); [reflexivity|].
        destruct (ti_too_large x); [reflexivity|]. destruct (LEX (Some (ti_ctx x)) (ti_input x)) as [[[r c] p] l]. reflexivity.
      + split; [reflexivity|]. intros [] E; try discriminate; reflexivity.
      + split; [reflexivity|]. intros [] E; try discriminate; reflexivity.
      + split; [reflexivity|intros []; discriminate].
      + split; [reflexivity|intros []; discriminate].
    - intros o x s f E.
      destruct o, f; cbn in E; try discriminate; destruct s; unfold tsem, early, tokenize; cbn;
        try (destruct (tctx_done0 (ti_ctx x)); [reflexivity|]);
        try (destruct (ti_too_large x); [reflexivity|]);
        try (match goal with |- context [LEX ?a ?b] => destruct (LEX a b) as [[[r c] p] l] end);
        reflexivity.
    - intros o x s f E.
      destruct o, f; cbn in E; try discriminate; destruct s; unfold tsem, early, tokenize; cbn;
        try (destruct (tctx_done0 (ti_ctx x)); [reflexivity|]);
        try (destruct (ti_too_large x); [reflexivity|]);
        try (match goal with |- context [LEX ?a ?b] => destruct (LEX a b) as [[[r c] p] l] end);
        reflexivity.
    - intros o x s f E. destruct o, f; cbn in E; discriminate.
  Qed.

  Notation trun := (Reuse.run tsem0).
  Notation tcfg := (Reuse.cfg (ttable no_tdefects)).
  Notation tres_ := (Reuse.result tsem0).

  Theorem tok_no_carry_over : forall s0, obtainable fresh_t tsem0 OTPutGet s0 ->
    forall (h : hist top tin) probe, tres_ (trun h s0) probe = tres_ (trun (tcfg h) fresh_t) probe.
  Proof.
    apply (no_carry_over_pooled_gen tfield top tin tstate tresult (ttable no_tdefects) tfeq tfeq_refl tfeq_sym tfeq_trans
             fresh_t tsem0 tsem_respects (tfields_complete _) (tops_complete _) ttable_ok tbound_ok OTPutGet eq_refl).
  Qed.

  Theorem tok_pool_get_is_fresh : forall s, obtainable fresh_t tsem0 OTPutGet s -> s = fresh_t.
  Proof.
    intros s H. apply tfeq_all_eq. intros f.
    apply (pool_get_is_fresh_gen tfield top tin tstate tresult (ttable no_tdefects) tfeq tfeq_refl fresh_t tsem0 tsem_respects
             (tops_complete _) tbound_ok OTPutGet eq_refl s H f (tfields_complete _ f)).
  Qed.

  (* Tokenizer.Reset keeps the holder's dialect: afterwards the instance is a new one carrying the holder's
     configuration, except that the logger is dropped too (Reset clears it; SetLogger must be repeated) *)
  Theorem tok_reset_is_fresh : forall s0, obtainable fresh_t tsem0 OTPutGet s0 ->
    forall (h : hist top tin) x f, f <> TLogger ->
    tfeq f (trun (h ++ [(OTReset, x)]) s0) (trun (tcfg h) fresh_t).
  Proof.
    intros s0 H0 h x f Hf.
    apply (rezero_gen tfield top tin tstate tresult (ttable no_tdefects) tfeq tfeq_refl tfeq_sym tfeq_trans
             fresh_t tsem0 tsem_respects (tfields_complete _) (tops_complete _) ttable_ok OTReset is_logger eq_refl treset_rezero).
    - intros g _. rewrite (tok_pool_get_is_fresh s0 H0). apply tfeq_refl.
    - destruct f; try reflexivity. congruence.
  Qed.
End TokenizerInst.

(* ------------------------------------------------------------------------------------------- *)
(* refutations: each defect switch turned on admits a concrete carry-over                        *)

(* a statement parser for the witnesses: token 5 starts a statement `5 7 8 7` that only the MySQL dialect accepts
   (LIMIT a, b); anything else fails at the cursor with a code that carries the location currentLocation() gives *)
Definition PS_demo (v : pview) (p : nat) : sres nat :=
  if (nth p (v_tokens v) 0 =? 5) && (v_dialect v =? 1) then SOk 42 (p + 4)
  else SErr (N.of_nat (1000 + 100 * fst (loc_at (v_positions v) p) + snd (loc_at (v_positions v) p))) p.
Definition demo_in (toks : list tok) (poss : list loc) (opts : list popt) : pin := mkIn toks poss 0 false opts.
Definition psem_d (D : dflags) := psem D PS_demo (fun _ => false) (fun v => length (v_tokens v)).

Theorem stale_positions_refuted :
  exists h probe, Reuse.result (psem_d (mkD true false false)) (Reuse.run (psem_d (mkD true false false)) h fresh_p) probe
               <> Reuse.result (psem_d (mkD true false false)) (Reuse.run (psem_d (mkD true false false)) (Reuse.cfg (ptable (mkD true false false)) h) fresh_p) probe.
Proof.
  exists [(OParsePos, demo_in [3; 4; 1] [(1, 1); (4, 13); (4, 14)] [])], (OParse, demo_in [9; 1] [] []).
  vm_compute. discriminate.
Qed.

Theorem put_keeps_dialect_refuted :
  exists h probe, Reuse.result (psem_d (mkD false true false)) (Reuse.run (psem_d (mkD false true false)) h fresh_p) probe
               <> Reuse.result (psem_d (mkD false true false)) (Reuse.run (psem_d (mkD false true false)) (Reuse.cfg (ptable (mkD false true false)) h) fresh_p) probe.
Proof.
  exists [(OApply, demo_in [] [] [WithDialect 1]); (OPutGet, demo_in [] [] [])], (OParse, demo_in [5; 7; 8; 7; 1] [] []).
  vm_compute. discriminate.
Qed.

Theorem release_keeps_config_refuted :
  exists h probe, Reuse.result (psem_d (mkD false false true)) (Reuse.run (psem_d (mkD false false true)) h fresh_p) probe
               <> Reuse.result (psem_d (mkD false false true)) (Reuse.run (psem_d (mkD false false true)) (Reuse.cfg (ptable (mkD false false true)) h) fresh_p) probe.
Proof.
  exists [(OApply, demo_in [] [] [WithStrict]); (ORelease, demo_in [] [] [])], (OParse, demo_in [2; 5; 1] [] []).
  vm_compute. discriminate.
Qed.

(* the same three switches make the table condition fail (complete evaluation) *)
Lemma defects_break_table :
  table_ok (ptable (mkD true false false)) = false /\
  (table_ok (ptable (mkD false true false)) && boundaries_ok (ptable (mkD false true false))) = false /\
  (table_ok (ptable (mkD false false true)) && boundaries_ok (ptable (mkD false false true))) = false.
Proof. vm_compute. repeat split. Qed.

(* tokenizer: a pooled tokenizer that keeps the previous holder's dialect is not equal to a new one, and a call that
   returns before the reset shows the previous input's comments *)
Definition LEX_demo (c : option cx) (i : list N) : nat * list nat * (nat * nat * nat) * list nat :=
  (length i, map N.to_nat (filter (fun b => (b =? 45)%N) i), (length i, 1, length i), [0]).
Definition tsem_d (D : tflags) := tsem D LEX_demo (fun c => c =? 1) (fun d => 10 + d).
Definition tin0 (i : list N) (c : cx) (d : nat) : tin := mkTIn i false c d false.

Theorem tok_put_keeps_dialect_refuted :
  exists h, Reuse.run (tsem_d (mkTD true false)) h fresh_t <> fresh_t /\
            exists h', h = h' ++ [(OTPutGet, tin0 [] 0 0)].
Proof.
  exists [(OSetDialect, tin0 [] 0 2); (OTPutGet, tin0 [] 0 0)]. split; [vm_compute; discriminate|].
  exists [(OSetDialect, tin0 [] 0 2)]. reflexivity.
Qed.

Theorem tok_early_return_refuted :
  exists h probe, Reuse.result (tsem_d (mkTD false true)) (Reuse.run (tsem_d (mkTD false true)) h fresh_t) probe
               <> Reuse.result (tsem_d (mkTD false true)) (Reuse.run (tsem_d (mkTD false true)) (Reuse.cfg (ttable (mkTD false true)) h) fresh_t) probe.
Proof.
  exists [(OTokenize, tin0 [83; 45; 45; 99]%N 0 0)], (OTokenizeCtx, tin0 [83]%N 1 0).
  vm_compute. discriminate.
Qed.

(* ------------------------------------------------------------------------------------------- *)
(* struct fields the model has no column for (recogniser hardening): the table extended by the regenerated columns of
   such fields satisfies the hypothesis of the generic theorem as soon as the model's table does and Inst_C08's
   [extras_ok] holds — so a field that is dead on entry of every method, or well behaved, needs no model change *)
Section Extend.
  Variables field op : Type.
  Variable T : footprint field op.
  Variable fname : field -> String.string.
  Variable methods : op -> list String.string.
  Variable gen_fields : list String.string.
  Variable gen : list fxrow.
  Let X := ext_table T fname methods gen_fields gen.

  Lemma ext_live_inl : forall f, live X (inl f) = live T f.
  Proof. intro f. reflexivity. Qed.
  Lemma ext_configurable_inl : forall f, configurable X (inl f) = configurable T f.
  Proof. intro f. reflexivity. Qed.
  Lemma ext_wb_inl : forall f, wb X (inl f) = wb T f.
  Proof. intro f. reflexivity. Qed.

  Theorem ext_table_ok :
    table_ok T = true -> extras_ok T fname methods gen_fields gen = true -> table_ok X = true.
  Proof.
    intros HT HE. unfold table_ok in *. rewrite forallb_forall in HT. rewrite forallb_forall.
    intros x Hx. unfold X, ext_table in Hx. cbn [fp_fields] in Hx. apply in_app_or in Hx. destruct Hx as [Hx | Hx].
    - apply in_map_iff in Hx. destruct Hx as [f [<- Hf]]. rewrite ext_live_inl, ext_wb_inl. exact (HT f Hf).
    - apply in_map_iff in Hx. destruct Hx as [e [<- He]]. unfold extras_ok in HE. rewrite forallb_forall in HE. exact (HE e He).
  Qed.

  (* the extension changes nothing about the fields the model knows: an operation's footprint on them is the model's *)
  Lemma ext_conservative : forall o f, fp_reads X o (inl f) = fp_reads T o f /\ fp_eff X o (inl f) = fp_eff T o f /\ fp_kind X o = fp_kind T o.
  Proof. intros. repeat split. Qed.
End Extend.
