(* CtxP.v — cancellation theorems for the two polling loops of Model/Ctx.v. *)
From Coq Require Import List Arith Bool Lia.
From GV Require Import Model.Loops Proofs.LoopsP Model.Ctx.
Import ListNotations.
Local Open Scope nat_scope.

Section TokP.
  Variable tok : Type.
  Variables len maxtok batch : nat.
  Hypothesis batch_pos : 0 < batch.
  Variable step : nat -> lres tok.
  Variable done : nat -> bool.
  Notation tokenize := (tokenize tok len maxtok step).
  Notation tokenize_ctx := (tokenize_ctx tok len maxtok batch step done).
  Notation tpolls := (tpolls tok len maxtok batch step).

  (* a context that never fires: TokenizeContext is Tokenize *)
  Theorem tok_never_fires_equal :
    (forall n, done n = false) -> forall fuel pos acc, tokenize_ctx fuel pos acc = tokenize fuel pos acc.
  Proof.
    intros Hn. induction fuel as [|f IH]; intros pos acc; [reflexivity|].
    cbn [Ctx.tokenize_ctx Ctx.tokenize]. destruct (pos <? len); [|reflexivity].
    rewrite Hn, andb_false_r. destruct (step pos) as [|c|t p']; try reflexivity.
    destruct (maxtok <=? length acc); [reflexivity|apply IH].
  Qed.

  (* reported: if the uncancelled run polls at a token count at which the context reports done, the call ends
     with the context error, at a poll that reported done *)
  Theorem tok_cancel_reported :
    forall fuel pos acc n, In n (tpolls fuel pos acc) -> done n = true ->
      exists m, tokenize_ctx fuel pos acc = TCtx m /\ done m = true /\ m <= n.
  Proof.
    induction fuel as [|f IH]; intros pos acc n Hin Hd; [destruct Hin|].
    cbn [Ctx.tpolls] in Hin. cbn [Ctx.tokenize_ctx]. destruct (pos <? len); [|destruct Hin].
    apply in_app_or in Hin. destruct (length acc mod batch =? 0) eqn:Em.
    - destruct (done (length acc)) eqn:Ed.
      + exists (length acc). cbn [andb]. repeat split; auto.
        destruct Hin as [[H|[]]|Hin]; [lia|].
        destruct (step pos) as [|c|t p']; try destruct Hin.
        destruct (maxtok <=? length acc); [destruct Hin|].
        assert (forall g q a x, In x (tpolls g q a) -> length a <= x) as Hge.
        { clear. induction g as [|g IHg]; intros q a x Hx; [destruct Hx|].
          cbn [Ctx.tpolls] in Hx. destruct (q <? len); [|destruct Hx].
          apply in_app_or in Hx. destruct Hx as [Hx|Hx].
          - destruct (length a mod batch =? 0); [destruct Hx as [Hx|[]]; lia|destruct Hx].
          - destruct (step q) as [|c|t q']; try destruct Hx.
            destruct (maxtok <=? length a); [destruct Hx|].
            apply IHg in Hx. rewrite app_length in Hx. cbn in Hx. lia. }
        apply Hge in Hin. rewrite app_length in Hin. cbn in Hin. lia.
      + cbn [andb]. destruct Hin as [[H|[]]|Hin]; [subst n; congruence|].
        destruct (step pos) as [|c|t p']; try destruct Hin.
        destruct (maxtok <=? length acc); [destruct Hin|]. exact (IH _ _ _ Hin Hd).
    - cbn [andb]. destruct Hin as [[]|Hin].
      destruct (step pos) as [|c|t p']; try destruct Hin.
      destruct (maxtok <=? length acc); [destruct Hin|]. exact (IH _ _ _ Hin Hd).
  Qed.

  (* prompt: once the context is done (from token count t on), the loop stops at the next multiple of the batch
     size at the latest: fewer than [batch] further tokens are produced *)
  Hypothesis monotone : forall a b, a <= b -> done a = true -> done b = true.

  Lemma tok_prompt_gen :
    forall R, R mod batch = 0 -> done R = true ->
    forall fuel pos acc, length acc <= R -> produced tok (tokenize_ctx fuel pos acc) <= R.
  Proof.
    intros R HR HdR. induction fuel as [|f IH]; intros pos acc Hle; cbn [Ctx.tokenize_ctx]; [cbn; lia|].
    destruct (pos <? len); [|cbn [produced]; lia].
    destruct ((length acc mod batch =? 0) && done (length acc)) eqn:E; [cbn [produced]; lia|].
    destruct (step pos) as [|c|t p']; try (cbn [produced]; lia).
    - destruct (maxtok <=? length acc); cbn [produced]; lia.
    - destruct (maxtok <=? length acc); [cbn [produced]; lia|].
      apply IH. rewrite app_length. cbn [length].
      destruct (Nat.eq_dec (length acc) R) as [Heq|Hne]; [|lia].
      exfalso. rewrite Heq, HR, Nat.eqb_refl, HdR in E. discriminate E.
  Qed.

  Theorem tok_cancel_prompt :
    forall t, done t = true ->
    forall fuel pos, produced tok (tokenize_ctx fuel pos []) < t + batch.
  Proof.
    intros t Hd fuel pos.
    set (R := batch * ((t + (batch - 1)) / batch)).
    assert (HR : R mod batch = 0) by (unfold R; rewrite Nat.mul_comm; apply Nat.mod_mul; lia).
    pose proof (Nat.div_mod (t + (batch - 1)) batch ltac:(lia)) as Hdm.
    pose proof (Nat.mod_upper_bound (t + (batch - 1)) batch ltac:(lia)) as Hub.
    assert (HtR : t <= R) by (unfold R; lia).
    assert (HRt : R < t + batch) by (unfold R; lia).
    pose proof (tok_prompt_gen R HR (monotone _ _ HtR Hd) fuel pos [] ltac:(cbn; lia)). lia.
  Qed.
End TokP.

Section ParP.
  Variable tree : Type.
  Variable ntok : nat.
  Variable is_eof is_semi : nat -> bool.
  Variable ps : nat -> sres tree.
  Variable np : nat -> nat.
  Variable done : nat -> bool.
  Variable strict : bool.
  Notation parse_c := (parse_c tree ntok is_eof is_semi ps np done strict).
  Notation polls := (polls tree ntok is_eof is_semi ps np strict).
  Notation first_done := (first_done done).

  Lemma first_done_some : forall n c k, first_done c n = Some k ->
    c <= k < c + n /\ done k = true /\ forall i, c <= i < k -> done i = false.
  Proof.
    induction n as [|n IH]; intros c k H; cbn [Ctx.first_done] in H; [discriminate|].
    destruct (done c) eqn:E.
    - injection H as H. subst k. repeat split; try lia; auto.
    - apply IH in H. destruct H as [H1 [H2 H3]]. split; [lia|]. split; [assumption|].
      intros i Hi. destruct (Nat.eq_dec i c) as [->|Hn]; [exact E|apply H3; lia].
  Qed.

  Lemma first_done_none : forall n c, first_done c n = None -> forall i, c <= i < c + n -> done i = false.
  Proof.
    induction n as [|n IH]; intros c H i Hi; [lia|]. cbn [Ctx.first_done] in H.
    destruct (done c) eqn:E; [discriminate|].
    destruct (Nat.eq_dec i c) as [->|Hn]; [exact E|apply (IH _ H); lia].
  Qed.

  Lemma first_done_never : (forall k, done k = false) -> forall n c, first_done c n = None.
  Proof. intros Hn. induction n as [|n IH]; intros c; cbn [Ctx.first_done]; [reflexivity|]. now rewrite Hn. Qed.

  (* a context that never fires: ParseContext is the context-free loop *)
  Theorem never_fires_equal :
    (forall k, done k = false) ->
    forall fuel pos acc c, parse_c fuel pos acc c = lift tree (parse_ctx tree ntok is_eof is_semi ps strict fuel pos acc).
  Proof.
    intros Hn. induction fuel as [|f IH]; intros pos acc c; [reflexivity|].
    cbn [Ctx.parse_c Loops.parse_ctx]. destruct (in_range ntok is_eof pos).
    - rewrite Hn. destruct (is_semi pos); [destruct strict; [reflexivity|apply IH]|].
      rewrite (first_done_never Hn). destruct (ps pos) as [t p'|code p']; [apply IH|reflexivity].
    - destruct acc; destruct strict; reflexivity.
  Qed.

  (* reported: if any poll of the run (numbered c .. polls-1) reports done, the call returns no tree and the
     context error, raised at the FIRST poll that reported done (nothing is polled, and no token consumed by the
     statement parser, after it) *)
  Theorem cancel_reported :
    forall fuel pos acc c k, c <= k < polls fuel pos c -> done k = true ->
      exists j, parse_c fuel pos acc c = CCtx j /\ done j = true /\ j <= k /\ forall i, c <= i < j -> done i = false.
  Proof.
    induction fuel as [|f IH]; intros pos acc c k Hk Hd; cbn [Ctx.polls] in Hk; [lia|].
    cbn [Ctx.parse_c]. destruct (in_range ntok is_eof pos); [|lia].
    destruct (done c) eqn:Ec.
    - exists c. split; [reflexivity|]. split; [assumption|]. split; [lia|]. intros i Hi. lia.
    - assert (Hck : S c <= k) by (destruct (Nat.eq_dec k c) as [->|]; [congruence|lia]).
      destruct (is_semi pos).
      + destruct strict; [lia|].
        destruct (IH (S pos) acc (S c) k ltac:(lia) Hd) as [j [H1 [H2 [H3 H4]]]].
        exists j. split; [assumption|]. split; [assumption|]. split; [assumption|].
        intros i Hi. destruct (Nat.eq_dec i c) as [->|]; [exact Ec|apply H4; lia].
      + destruct (first_done (S c) (np pos)) as [j|] eqn:Ef.
        * apply first_done_some in Ef. destruct Ef as [E1 [E2 E3]].
          exists j. split; [reflexivity|]. split; [assumption|]. split.
          -- destruct (le_lt_dec j k); [assumption|]. rewrite (E3 k) in Hd; [discriminate|lia].
          -- intros i Hi. destruct (Nat.eq_dec i c) as [->|]; [exact Ec|apply E3; lia].
        * pose proof (first_done_none _ _ Ef) as Hnone.
          assert (S c + np pos <= k).
          { destruct (le_lt_dec (S c + np pos) k); [assumption|]. rewrite Hnone in Hd; [discriminate|lia]. }
          destruct (ps pos) as [t p'|code p']; [|lia].
          destruct (IH (skip_semi ntok is_semi p') (acc ++ [t]) (S c + np pos) k ltac:(lia) Hd) as [j [H1 [H2 [H3 H4]]]].
          exists j. split; [assumption|]. split; [assumption|]. split; [assumption|]. intros i Hi.
          destruct (Nat.eq_dec i c) as [->|]; [exact Ec|].
          destruct (le_lt_dec (S c + np pos) i); [apply H4; lia|apply Hnone; lia].
  Qed.

  (* and conversely the context error is only ever reported at a poll that said done *)
  Theorem ctx_error_only_when_done :
    forall fuel pos acc c j, parse_c fuel pos acc c = CCtx j -> done j = true /\ c <= j.
  Proof.
    induction fuel as [|f IH]; intros pos acc c j H; cbn [Ctx.parse_c] in H; [discriminate|].
    destruct (in_range ntok is_eof pos); [|destruct acc; destruct strict; discriminate].
    destruct (done c) eqn:Ec; [injection H as <-; auto|].
    destruct (is_semi pos); [destruct strict; [discriminate|]; apply IH in H; intuition lia|].
    destruct (first_done (S c) (np pos)) as [k|] eqn:Ef.
    - injection H as <-. apply first_done_some in Ef. intuition lia.
    - destruct (ps pos) as [t p'|code p']; [|discriminate]. apply IH in H. intuition lia.
  Qed.
End ParP.

(* the token cursor: a cancellation is seen within one poll interval *)
Section CurP.
  Variable interval : nat.
  Hypothesis interval_pos : 0 < interval.
  Variable done : nat -> bool.
  Hypothesis monotone : forall a b, a <= b -> done a = true -> done b = true.
  Notation adv := (adv interval done).
  Notation advn := (advn interval done).

  Lemma advn_pos : forall n s, fst (advn n s) = fst s + n.
  Proof.
    induction n as [|n IH]; intros s; cbn [Ctx.advn]; [lia|]. rewrite IH. unfold Ctx.adv.
    destruct (snd s); [cbn; lia|]. destruct ((S (fst s) mod interval =? 0) && done (S (fst s))); cbn; lia.
  Qed.

  Lemma advn_cancelled_sticky : forall n s, snd s = true -> snd (advn n s) = true.
  Proof.
    induction n as [|n IH]; intros s H; cbn [Ctx.advn]; [exact H|]. apply IH. unfold Ctx.adv. now rewrite H.
  Qed.

  (* while the cursor is not cancelled, every poll it passed said "not done" *)
  Lemma advn_uncancelled : forall n s, snd (advn n s) = false ->
    forall m, fst s < m <= fst s + n -> m mod interval = 0 -> done m = false.
  Proof.
    induction n as [|n IH]; intros s H m Hm Hmod; [lia|]. cbn [Ctx.advn] in H.
    destruct (snd (adv s)) eqn:E; [rewrite advn_cancelled_sticky in H by exact E; discriminate|].
    assert (Hp : fst (adv s) = S (fst s)).
    { unfold Ctx.adv. destruct (snd s); [reflexivity|].
      destruct ((S (fst s) mod interval =? 0) && done (S (fst s))); reflexivity. }
    destruct (Nat.eq_dec m (S (fst s))) as [->|Hne].
    - unfold Ctx.adv in E. destruct (snd s); [discriminate|]. rewrite Hmod, Nat.eqb_refl in E. cbn [andb] in E.
      destruct (done (S (fst s))); [discriminate|reflexivity].
    - apply (IH (adv s) H m); [rewrite Hp; lia|exact Hmod].
  Qed.

  (* prompt: once the context is done (from cursor position t on), a cursor that started at p0 reads real
     tokens only at positions below max(t, p0) + interval: fewer than [interval] further tokens *)
  Theorem cursor_cancel_prompt :
    forall t, done t = true ->
    forall n s, snd (advn n s) = false -> fst (advn n s) < Nat.max t (fst s) + interval.
  Proof.
    intros t Hd n s H. rewrite advn_pos.
    destruct (le_lt_dec (Nat.max t (fst s) + interval) (fst s + n)) as [Hge|]; [|assumption]. exfalso.
    set (b := Nat.max t (fst s)) in *.
    set (m := interval * (b / interval + 1)).
    pose proof (Nat.div_mod b interval ltac:(lia)) as Hdm.
    pose proof (Nat.mod_upper_bound b interval ltac:(lia)) as Hub.
    assert (Hm1 : b < m) by (unfold m; lia).
    assert (Hm2 : m <= b + interval) by (unfold m; lia).
    assert (Hmod : m mod interval = 0) by (unfold m; rewrite Nat.mul_comm; apply Nat.mod_mul; lia).
    assert (Hdone : done m = true) by (apply (monotone t); [unfold b in Hm1; lia|exact Hd]).
    rewrite (advn_uncancelled n s H m) in Hdone; [discriminate| |exact Hmod]. unfold b in *. lia.
  Qed.
End CurP.
