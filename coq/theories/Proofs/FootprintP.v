(* FootprintP.v — proofs about Model/Footprint.v: a table that passes the pairwise check admits no race in any
   execution over its sites; a common mutex orders two accesses (release by the first goroutine in between). *)
From Coq Require Import List NArith Bool Arith Lia.
From GV Require Import Model.Footprint.
Import ListNotations.

Lemma nmemb_In : forall x l, nmemb x l = true <-> In x l.
Proof.
  induction l as [|y r IH]; cbn; [split; [discriminate|tauto]|].
  rewrite orb_true_iff, IH. split; intros [H|H]; auto.
  - left. symmetry. now apply N.eqb_eq.
  - left. subst. apply N.eqb_refl.
Qed.

(* generic lemma: if every pair of sites of the table is non-conflicting, excepted, or protected, then no
   execution whose events are at sites of the table contains a race on a non-excepted cell *)
Theorem footprint_race_free : forall X sites,
  table_ok X sites = true ->
  forall tr : list event,
    (forall e, In e tr -> In (e_site e) sites) ->
    forall e1 e2, In e1 tr -> In e2 tr -> ~ In (a_cell (e_site e1)) X -> ~ race e1 e2.
Proof.
  intros X sites Hok tr Hin e1 e2 H1 H2 HX (Ht & Hc & Hp).
  unfold table_ok in Hok. rewrite forallb_forall in Hok.
  specialize (Hok _ (Hin _ H1)). rewrite forallb_forall in Hok. specialize (Hok _ (Hin _ H2)).
  unfold pair_ok in Hok. rewrite Hc, Hp in Hok. cbn in Hok. rewrite orb_false_r in Hok.
  apply nmemb_In in Hok. contradiction.
Qed.

(* ---- mutual exclusion ---- *)
Fixpoint lrun (st : lstate) (tr : list lstep) : lstate :=
  match tr with
  | [] => st
  | Acq t m w :: r => lrun ((t, m, w) :: st) r
  | Rel t m :: r => lrun (release st t m) r
  | Acc _ _ :: r => lrun st r
  end.

Lemma wf_app : forall a st b, wf_trace st (a ++ b) = wf_trace st a && wf_trace (lrun st a) b.
Proof.
  induction a as [|x r IH]; intros st b; cbn; auto.
  destruct x; cbn; rewrite IH; now rewrite ?andb_assoc.
Qed.

(* a writer is alone on its mutex *)
Definition excl (st : lstate) : Prop :=
  forall h h', In h st -> In h' st -> snd h = true -> snd (fst h') = snd (fst h) -> h' = h.

Lemma excl_step : forall tr st, excl st -> wf_trace st tr = true -> excl (lrun st tr).
Proof.
  induction tr as [|x r IH]; intros st He Hw; cbn in *; auto.
  destruct x as [t m w|t m|t s]; cbn in Hw.
  - apply andb_true_iff in Hw. destruct Hw as [Hc Hw]. apply IH; auto.
    unfold can_acquire in Hc. rewrite forallb_forall in Hc.
    intros h h' [<-|Hh] [<-|Hh'] Hs Hm; auto; cbn in *.
    + specialize (Hc _ Hh'). subst w. rewrite Hm, N.eqb_refl in Hc. cbn in Hc. discriminate.
    + specialize (Hc _ Hh). rewrite <- Hm, N.eqb_refl, Hs in Hc. cbn in Hc. rewrite andb_false_r in Hc. discriminate.
  - apply IH; auto. intros h h' Hh Hh'. unfold release in *. apply filter_In in Hh, Hh'. destruct Hh, Hh'. now apply He.
  - apply andb_true_iff in Hw. destruct Hw. apply IH; auto.
Qed.

Lemma holds_entry : forall st t m w, holds st t m w = true -> exists w', In (t, m, w') st /\ (w' = true \/ w = false).
Proof.
  intros st t m w H. unfold holds in H. apply existsb_exists in H. destruct H as ([[t' m'] w'] & Hin & H). cbn in H.
  apply andb_true_iff in H. destruct H as [H Hw]. apply andb_true_iff in H. destruct H as [Ht Hm].
  apply Nat.eqb_eq in Ht. apply N.eqb_eq in Hm. subst. exists w'. split; auto.
  destruct w', w; cbn in Hw; auto; discriminate.
Qed.

(* does the trace contain a release of m by t *)
Definition has_rel (t : nat) (m : N) (tr : list lstep) : bool :=
  existsb (fun x => match x with Rel t' m' => Nat.eqb t' t && N.eqb m' m | _ => false end) tr.

(* an entry survives as long as its holder does not release that mutex *)
Lemma entry_persists : forall tr st t m w, In (t, m, w) st -> has_rel t m tr = false -> In (t, m, w) (lrun st tr).
Proof.
  induction tr as [|x r IH]; intros st t m w Hin Hn; cbn; auto.
  cbn in Hn. apply orb_false_iff in Hn. destruct Hn as [Hx Hn'].
  destruct x as [t' m' w'|t' m'|t' s]; apply IH; auto.
  - now right.
  - unfold release. apply filter_In. split; auto. cbn.
    destruct (Nat.eqb_spec t t'); destruct (N.eqb_spec m m'); auto. subst.
    rewrite Nat.eqb_refl, N.eqb_refl in Hx. discriminate.
Qed.

(* two accesses of different goroutines whose sites hold a common mutex, one of them for writing: in every
   well-formed execution the first goroutine releases that mutex between the two accesses (so the second
   acquisition synchronises with it: the accesses are ordered by happens-before) *)
Theorem common_lock_orders : forall pre t1 s1 mid t2 s2 post,
  wf_trace [] (pre ++ Acc t1 s1 :: mid ++ Acc t2 s2 :: post) = true ->
  t1 <> t2 -> common_lock s1 s2 = true ->
  exists m, has_rel t1 m mid = true /\ In m (map fst (a_held s1)) /\ In m (map fst (a_held s2)).
Proof.
  intros pre t1 s1 mid t2 s2 post Hw Hne Hc.
  unfold common_lock in Hc. apply existsb_exists in Hc. destruct Hc as ([m w1] & Hh1 & Hc).
  apply existsb_exists in Hc. destruct Hc as ([m2 w2] & Hh2 & Hc). cbn in Hc.
  apply andb_true_iff in Hc. destruct Hc as [Hm Hw12]. apply N.eqb_eq in Hm. subst m2.
  exists m. split; [|split; [apply in_map_iff; exists (m, w1); auto | apply in_map_iff; exists (m, w2); auto]].
  destruct (has_rel t1 m mid) eqn:Hn; auto.
  exfalso.
  rewrite wf_app in Hw. apply andb_true_iff in Hw. destruct Hw as [Hpre Hw]. cbn [wf_trace] in Hw.
  apply andb_true_iff in Hw. destruct Hw as [Ha1 Hw].
  rewrite wf_app in Hw. apply andb_true_iff in Hw. destruct Hw as [Hmid Hw]. cbn [wf_trace] in Hw.
  apply andb_true_iff in Hw. destruct Hw as [Ha2 _].
  set (st1 := lrun [] pre) in *. set (st2 := lrun st1 mid) in *.
  assert (E2 : excl st2).
  { apply excl_step; auto. apply excl_step; auto. intros h h' []. }
  rewrite forallb_forall in Ha1, Ha2.
  destruct (holds_entry _ _ _ _ (Ha1 _ Hh1)) as (w1' & Hin1 & Hw1).
  destruct (holds_entry _ _ _ _ (Ha2 _ Hh2)) as (w2' & Hin2 & Hw2).
  cbn [fst snd] in *.
  pose proof (entry_persists mid st1 t1 m w1' Hin1 Hn) as Hp. fold st2 in Hp.
  assert (Hw' : w1' = true \/ w2' = true).
  { destruct w1, w2; cbn in Hw12; try discriminate; destruct Hw1, Hw2; auto; discriminate. }
  destruct Hw' as [->| ->].
  - specialize (E2 (t1, m, true) (t2, m, w2') Hp Hin2 eq_refl eq_refl). inversion E2. congruence.
  - specialize (E2 (t2, m, true) (t1, m, w1') Hin2 Hp eq_refl eq_refl). inversion E2. congruence.
Qed.
