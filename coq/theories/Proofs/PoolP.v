(* Proofs for the pool model (C09 cleanliness clause). *)
From Coq Require Import List NArith Bool Lia.
From GV Require Import Model.Walk Model.Pool.
Import ListNotations.
Local Open Scope N_scope.

Lemma triple_eqb_eq a b : triple_eqb a b = true <-> a = b.
Proof.
  destruct a as [[a1 a2] a3], b as [[b1 b2] b3]; unfold triple_eqb; cbn.
  rewrite !andb_true_iff, !N.eqb_eq. split.
  - intros [[-> ->] ->]; reflexivity.
  - intros E; inversion E; auto.
Qed.

Lemma tmem_In a l : tmem a l = true <-> In a l.
Proof.
  unfold tmem. rewrite existsb_exists. split.
  - intros [x [Hin Heq]]. apply triple_eqb_eq in Heq. now subst.
  - intros Hin. exists a. split; [assumption | now apply triple_eqb_eq].
Qed.

Section P.
  Variable all cleared known : list (N * N * N).
  Hypothesis Hcov : cleared_except all cleared known = true.

  (* an object is admissible for (via, ty) when each of its dirty fields is a field of the table *)
  Definition fields_of (via ty : N) (o : obj) : Prop := forall f, In f o -> In (via, ty, f) all.

  (* a pooled / returned object is fresh up to the known exceptions: every dirty field is an exception
     for some put path *)
  Definition fresh_up_to (ty : N) (o : obj) : Prop :=
    forall f, In f o -> exists via, tmem (via, ty, f) known = true.

  Definition Inv (s : state) : Prop := forall ty o, In (ty, o) s -> fresh_up_to ty o.

  Lemma clean_fresh via ty o : fields_of via ty o -> fresh_up_to ty (clean cleared via ty o).
  Proof.
    intros Hf f Hin. unfold clean in Hin. apply filter_In in Hin. destruct Hin as [Hin Hn].
    apply negb_true_iff in Hn. specialize (Hf _ Hin).
    unfold cleared_except in Hcov. rewrite forallb_forall in Hcov. specialize (Hcov _ Hf).
    rewrite Hn in Hcov. cbn in Hcov. now exists via.
  Qed.

  Lemma take_inv ty c : forall s o s', Inv s -> take ty c s = Some (o, s') -> fresh_up_to ty o /\ Inv s'.
  Proof.
    revert c. intros c s. revert c. induction s as [|[ty' x] r IH]; intros c o s' Hinv Ht; [discriminate|].
    assert (Hr : Inv r) by (intros t y Hy; apply (Hinv t y); now right).
    assert (Hx : fresh_up_to ty' x) by (apply (Hinv ty' x); now left).
    cbn [take] in Ht. destruct (ty' =? ty) eqn:E.
    - apply N.eqb_eq in E. subst ty'. destruct c as [|c].
      + inversion Ht; subst. split; assumption.
      + destruct (take ty c r) as [[o' r']|] eqn:Et.
        * inversion Ht; subst. destruct (IH _ _ _ Hr Et) as [Ho Hr']. split; [assumption|].
          intros t y [Hy|Hy]; [inversion Hy; subst; assumption | now apply Hr'].
        * inversion Ht; subst. split; assumption.
    - destruct (take ty c r) as [[o' r']|] eqn:Et; [|discriminate].
      inversion Ht; subst. destruct (IH _ _ _ Hr Et) as [Ho Hr']. split; [assumption|].
      intros t y [Hy|Hy]; [inversion Hy; subst; assumption | now apply Hr'].
  Qed.

  Lemma drop_inv {A} k (l : list A) x : In x (drop_nth k l) -> In x l.
  Proof.
    revert k. induction l as [|y r IH]; intros [|k] H; cbn in *; auto.
    destruct H as [H|H]; [now left | right; eapply IH; eauto].
  Qed.

  (* histories in which only admissible objects are released *)
  Fixpoint wf_hist (h : list op) : Prop :=
    match h with
    | [] => True
    | Put via ty o :: r => fields_of via ty o /\ wf_hist r
    | _ :: r => wf_hist r
    end.

  Theorem get_is_fresh_except : forall h s,
    Inv s -> wf_hist h -> forall ty o, In (ty, o) (run cleared s h) -> fresh_up_to ty o.
  Proof.
    induction h as [|o h IH]; intros s Hinv Hwf ty x Hin; [contradiction|].
    cbn [run] in Hin. destruct o as [via t y | t c | k]; cbn [step] in Hin.
    - destruct Hwf as [Hf Hwf]. eapply IH; [| exact Hwf | exact Hin].
      intros t' y' Hy. apply in_app_iff in Hy. destruct Hy as [Hy|[Hy|[]]]; [now apply Hinv|].
      inversion Hy; subst. now apply clean_fresh.
    - cbn [wf_hist] in Hwf. destruct (take t c s) as [[y s']|] eqn:Et.
      + destruct (take_inv _ _ _ _ _ Hinv Et) as [Hy Hs'].
        destruct Hin as [Hin|Hin]; [inversion Hin; subst; assumption|].
        eapply IH; eauto.
      + destruct Hin as [Hin|Hin]; [inversion Hin; subst; intros f []|].
        eapply IH; eauto.
    - cbn [wf_hist] in Hwf. eapply IH; [| exact Hwf | exact Hin].
      intros t' y' Hy. apply (Hinv t' y'). eapply drop_inv; eauto.
  Qed.
End P.

(* full strength: with no exceptions every object handed out by Get has no dirty field at all *)
Corollary get_is_fresh all cleared :
  cleared_except all cleared [] = true ->
  forall h, wf_hist all h -> forall ty o, In (ty, o) (run cleared [] h) -> o = [].
Proof.
  intros Hc h Hwf ty o Hin.
  assert (Hf : fresh_up_to [] ty o).
  { eapply (get_is_fresh_except all cleared [] Hc h []); eauto. intros t y []. }
  destruct o as [|f o]; [reflexivity|]. destruct (Hf f (or_introl eq_refl)) as [via Hv]. discriminate.
Qed.

(* non-vacuity: a dirty object released and obtained again comes back clean *)
Example pool_history_example :
  run [(0,1,5); (0,1,6)] [] [Put 0 1 [5; 6]; Get 1 0; Get 1 0] = [(1, []); (1, [])].
Proof. reflexivity. Qed.
